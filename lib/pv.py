"""Common machinery of the /verif checks (see DESIGN.md section 2).

Every check is `./check <ID> quick|thorough` and goes through Ctx:
  regenerate coq/Gen -> build the property's theorems (Props/Properties_<ID>.v is always
  recompiled, its `Print Assumptions` output is parsed) -> axiom/admit gate -> build the
  implementation from the CURRENT /repo tree -> correspondence -> evidence.
"""
import fcntl
import glob
import json
import os
import random
import re
import signal
import subprocess
import sys
import time

ROOT = "/verif"
REPO = os.environ.get("PV_REPO", "/repo")
WORK = os.path.join(ROOT, "_work")
COQ = os.path.join(ROOT, "coq")
BIN = os.path.join(WORK, "bin")

STD_TRUSTED = [
    "Coq 8.16.1 kernel (coqc full .vo build; vm_compute used for finite sweeps and witnesses; native_compute not used)",
    "extraction with ExtrOcamlBasic only (Extract Inductive bool/option/unit/list/prod/sumbool/sumor; Extract Inlined Constant andb=>(&&), orb=>(||)); OCaml 4.13.1 + zarith for decimal I/O in the drivers",
    "the C++ harness, case generators, comparer (canonicalisation: errors -> err, maps sorted)",
]


def sh(cmd, timeout=600, cwd=ROOT, env=None, inp=None, sep_stderr=False):
    """Run a shell command in its own process group; returns (rc, combined output), or
    (rc, stdout, stderr) with sep_stderr. rc=124 on timeout: the WHOLE group is killed then (the shell is
    dash and does not exec its last command, so killing only the shell would leave the driver / make /
    coqc running as an orphan that still holds the build lock)."""
    e = dict(os.environ)
    if env:
        e.update(env)
    p = subprocess.Popen(cmd, shell=isinstance(cmd, str), cwd=cwd, env=e,
                         stdin=subprocess.PIPE if inp is not None else None,
                         stdout=subprocess.PIPE, stderr=subprocess.PIPE if sep_stderr else subprocess.STDOUT,
                         text=True, errors="replace", start_new_session=True)
    try:
        out, err = p.communicate(inp, timeout=timeout)
        rc = p.returncode
    except subprocess.TimeoutExpired:
        try:
            os.killpg(p.pid, signal.SIGKILL)
        except OSError:
            pass
        out, err = p.communicate()
        rc = 124
        out = (out or "") + "\n[timeout after %ss]" % timeout
    if sep_stderr:
        return rc, out or "", err or ""
    return rc, out or ""


class Lock:
    def __init__(self, name):
        os.makedirs(WORK, exist_ok=True)
        self.path = os.path.join(WORK, ".lock-" + name)

    def __enter__(self):
        self.f = open(self.path, "w")
        fcntl.flock(self.f, fcntl.LOCK_EX)
        return self

    def __exit__(self, *a):
        fcntl.flock(self.f, fcntl.LOCK_UN)
        self.f.close()


# --------------------------------------------------------------------------- Coq

def coq_makefile():
    """(Re)generate coq/Makefile when _CoqProject changed."""
    sh([os.path.join(ROOT, "tools", "coqproject.sh")])
    mk = os.path.join(COQ, "Makefile")
    cp = os.path.join(COQ, "_CoqProject")
    if (not os.path.exists(mk)) or os.path.getmtime(mk) < os.path.getmtime(cp):
        rc, out = sh("coq_makefile -f _CoqProject -o Makefile", cwd=COQ)
        if rc != 0:
            raise RuntimeError("coq_makefile failed: " + out)


def coq_make(targets, timeout=1500, keep_going=True):
    """make -k the given .vo targets (paths relative to coq/) through tools/coqmake.sh
    (per-directory locks, memory cap)."""
    cmd = [os.path.join(ROOT, "tools", "coqmake.sh")] + list(targets)
    rc, out = sh(cmd, cwd=COQ, timeout=timeout + 60, env={"COQ_TIMEOUT": str(timeout)})
    return rc == 0, out


THM_RE = re.compile(r"^\s*(Theorem|Lemma|Corollary|Example|Fact|Proposition)\s+([A-Za-z0-9_']+)", re.M)


def props_files(pid):
    """Props/Properties_<pid>.v plus any Props/Properties_<pid>_<part>.v (parts owned by
    different engines), in a stable order."""
    d = os.path.join(COQ, "Props")
    main = os.path.join(d, "Properties_%s.v" % pid)
    fs = ([main] if os.path.exists(main) else []) + sorted(glob.glob(os.path.join(d, "Properties_%s_*.v" % pid)))
    return fs


def check_props(pid, timeout=1500, extra_targets=()):
    """Force-recompile every Properties file of the property and build it (make -k).
    Returns dict: obligations, discharged, theorems, axioms{thm:[...]}, failed (list), log."""
    res = {"theorems": [], "examples": [], "obligations": 0, "discharged": 0, "axioms": {},
           "failed": [], "log": "", "ok": True, "files": []}
    files = props_files(pid)
    if not files:
        res["ok"] = False
        res["failed"] = ["no Props/Properties_%s*.v file" % pid]
        return res
    for pf in files:
        for ext in (".vo", ".glob", ".vok", ".vos"):
            try:
                os.remove(pf[:-2] + ext)
            except OSError:
                pass
    for pf in files:
        src = strip_comments(open(pf).read())
        thms = [m.group(2) for m in THM_RE.finditer(src) if m.group(1) != "Example"]
        examples = [m.group(2) for m in THM_RE.finditer(src) if m.group(1) == "Example"]
        # Print Assumptions order = order of statements in the file (theorems and examples that print)
        printed = re.findall(r"Print\s+Assumptions\s+([A-Za-z0-9_']+)", src)
        rel = os.path.relpath(pf, COQ)
        target = rel[:-2] + ".vo"
        ok, log = coq_make([target] + list(extra_targets), timeout=timeout)
        res["files"].append(rel)
        res["theorems"] += thms
        res["examples"] += examples
        res["obligations"] += len(thms)
        res["log"] += log
        if ok and os.path.exists(pf[:-2] + ".vo"):
            res["discharged"] += len(thms)
            res["axioms"].update(parse_assumptions(log, printed if printed else thms + examples))
        else:
            res["ok"] = False
            res["failed"] += locate_failure(log, pid, thms)
    return res


def parse_assumptions(log, names):
    """Map each `Print Assumptions` block of the coqc output to the theorem printed.
    A block is `Closed under the global context` or `Axioms:` followed by entries
    `<qualified name> : <type>` whose type may continue on indented lines."""
    blocks = []
    cur = None
    for line in log.splitlines():
        if line.startswith("Closed under the global context"):
            blocks.append([])
            cur = None
        elif line.startswith("Axioms:"):
            cur = []
            blocks.append(cur)
        elif cur is not None:
            m = re.match(r"^([A-Za-z_][A-Za-z0-9_.']*)\s*(:|$)", line)
            if m and not line.startswith(("COQ", "File ", "Warning")):
                cur.append(m.group(1))
            elif line.startswith((" ", "\t")) or line.strip() == "":
                continue            # continuation of the previous axiom's type
            else:
                cur = None
    ax = {}
    for i, b in enumerate(blocks):
        key = names[i] if i < len(names) else "block%d" % i
        ax[key] = sorted(set(b))
    return ax


def locate_failure(log, pid, thms):
    """Name the theorem(s) whose proof no longer checks, from coqc's error location."""
    failed = []
    for m in re.finditer(r'File "\./([^"]+)", line (\d+), characters [0-9-]+:\n(Warning|Error)', log):
        if m.group(3) == "Warning":
            continue
        f, ln = m.group(1), int(m.group(2))
        path = os.path.join(COQ, f)
        name = None
        try:
            lines = open(path).read().splitlines()
            for i in range(min(ln, len(lines)) - 1, -1, -1):
                mm = THM_RE.match(lines[i]) or re.match(r"^\s*(Definition|Fixpoint|Program Fixpoint)\s+([A-Za-z0-9_']+)", lines[i])
                if mm:
                    name = mm.group(2)
                    break
        except OSError:
            pass
        failed.append("%s:%d%s" % (f, ln, (" (" + name + ")") if name else ""))
    if not failed:
        failed.append("Props/Properties_%s.v (no error location in the build log)" % pid)
    return failed


BAD_RE = re.compile(r"\b(Admitted|admit|Axiom|Axioms|Conjecture|Admit\s+Obligations|bypass_check|type-in-type|impredicative-set)\b|Unset\s+Guard|Unset\s+Positivity|Unset\s+Universe\s+Check|^\s*Parameters?\s")
SEC_OPEN = re.compile(r"^\s*Section\s+\w+")
SEC_END = re.compile(r"^\s*End\s+\w+")
VAR_RE = re.compile(r"^\s*(Variables?|Hypothes[ie]s|Context)\b")


def strip_comments(src):
    out, depth, i = [], 0, 0
    while i < len(src):
        if src.startswith("(*", i):
            depth += 1
            i += 2
        elif src.startswith("*)", i) and depth > 0:
            depth -= 1
            i += 2
        else:
            if depth == 0 or src[i] == "\n":
                out.append(src[i])
            i += 1
    return "".join(out)


def axiom_gate():
    """No Axiom/Parameter/Conjecture/Admitted/admit, no switched-off kernel checks, and no
    Variable/Hypothesis outside a Section, anywhere in the development."""
    bad = []
    for f in sorted(glob.glob(os.path.join(COQ, "**", "*.v"), recursive=True)):
        if "Tmp_goal_" in f:
            continue
        try:
            src = strip_comments(open(f).read())
        except OSError:
            continue            # a scratch file of a concurrent build disappeared
        depth = 0
        for n, line in enumerate(src.splitlines(), 1):
            if SEC_OPEN.match(line):
                depth += 1
            elif SEC_END.match(line) and depth > 0:
                depth -= 1
            if BAD_RE.search(line):
                bad.append("%s:%d: %s" % (os.path.relpath(f, ROOT), n, line.strip()))
            if VAR_RE.match(line) and depth == 0:
                bad.append("%s:%d: outside a Section: %s" % (os.path.relpath(f, ROOT), n, line.strip()))
    cp = open(os.path.join(COQ, "_CoqProject")).read()
    if "type-in-type" in cp or "impredicative-set" in cp:
        bad.append("coq/_CoqProject switches off a kernel check")
    return bad


# --------------------------------------------------------------------------- builds

def build_impl(variant="plain"):
    rc, out = sh([os.path.join(ROOT, "tools", "build_impl.sh"), variant], timeout=1800)
    if rc != 0:
        raise BuildError("implementation build (%s) failed:\n%s" % (variant, out[-3000:]))
    return out.strip().splitlines()[-1]


def build_harness(variant, name, extra=""):
    rc, out = sh("%s %s %s %s" % (os.path.join(ROOT, "tools", "build_harness.sh"), variant, name, extra), timeout=1800)
    if rc != 0:
        raise BuildError("harness build %s (%s) failed:\n%s" % (name, variant, out[-3000:]))
    return out.strip().splitlines()[-1]


def build_ocaml(engine):
    with Lock("ocaml-" + engine):
        rc, out = sh([os.path.join(ROOT, "tools", "build_ocaml.sh"), engine], timeout=600)
    if rc != 0:
        raise BuildError("ocaml build %s failed:\n%s" % (engine, out[-3000:]))
    return os.path.join(BIN, engine + "_model")


class BuildError(Exception):
    pass


LAST_STDERR = [""]


def run_lines(binary, lines, timeout=600, env=None, args=""):
    """Feed `lines` to a driver on stdin, return (rc, its STDOUT lines). stderr is kept apart in
    pv.LAST_STDERR[0] (sanitizer notices and the like must not shift the line-by-line comparison)."""
    rc, out, err = sh(binary + (" " + args if args else ""), inp="\n".join(lines) + "\n", timeout=timeout, env=env, sep_stderr=True)
    LAST_STDERR[0] = err
    ol = out.splitlines()
    if rc == 124 and ol and ol[-1].startswith("[timeout after"):
        ol = ol[:-1]
    return rc, ol


def diff_outputs(cases, a, b):
    """Indices where two drivers' outputs differ (missing lines count as differences)."""
    bad = []
    for i, c in enumerate(cases):
        x = a[i] if i < len(a) else "<no output>"
        y = b[i] if i < len(b) else "<no output>"
        if x != y:
            bad.append((i, c, x, y))
    return bad


# --------------------------------------------------------------------------- context

class Ctx:
    def __init__(self, pid, tier, seed):
        self.pid, self.tier, self.seed = pid, tier, seed
        self.t0 = time.time()
        self.rng = random.Random(seed)
        self.violations = []      # (replay_path, found_input:bool, text)
        self.known_hits = []
        self.level = "proof"
        self.cov = {"samples": []}
        self.assumptions = []
        self.kf = load_known_findings()

    def quick(self):
        return self.tier == "quick"

    # -- reporting
    def replay_path(self, tag):
        d = os.path.join(WORK, "replay")
        os.makedirs(d, exist_ok=True)
        self._nreplay = getattr(self, "_nreplay", 0) + 1
        return os.path.join(d, "%s-%s-%d-%d.json" % (self.pid, tag, int(time.time() * 1000) % 10**9, self._nreplay))

    def violation(self, tag, replay_obj, found_input, text=""):
        """Record a violation. A violation that matches a known finding is reported as
        KNOWN-FINDING instead (never added to the file at run time)."""
        for k in self.kf.get("findings", []):
            if k.get("property") == self.pid and known_match(k, replay_obj):
                line = "KNOWN-FINDING: property=%s %s" % (self.pid, k.get("what", k.get("id", "")))
                if line not in self.known_hits:
                    self.known_hits.append(line)
                    print(line, flush=True)
                return False
        path = self.replay_path(tag)
        replay_obj = dict(replay_obj)
        replay_obj.setdefault("property", self.pid)
        replay_obj.setdefault("replay_cmd", "./check %s --replay %s" % (self.pid, path))
        replay_obj["failing_input_found"] = bool(found_input)
        with open(path, "w") as f:
            json.dump(replay_obj, f, indent=1, default=str)
        self.violations.append((path, found_input, text))
        print("VIOLATION property=%s replay=%s%s" % (self.pid, path, "" if found_input else " no-failing-input-found"), flush=True)
        if text:
            print("  " + text[:2000], flush=True)
        return True

    def known_finding_confirmed(self, kid):
        for k in self.kf.get("findings", []):
            if k.get("property") == self.pid and k.get("id") == kid:
                line = "KNOWN-FINDING: property=%s %s" % (self.pid, k.get("what", kid))
                if line not in self.known_hits:
                    self.known_hits.append(line)
                    print(line, flush=True)
                return True
        return False

    # -- proof side
    def prove(self, timeout=1500, extra_targets=(), gen_obligations=0):
        """Build this property's theorems; a failure is a violation (searching for a
        failing input is the caller's job through `search` callbacks run afterwards)."""
        bad = axiom_gate()
        res = check_props(self.pid, timeout=timeout, extra_targets=extra_targets)
        self.proof = res
        self.cov["obligations"] = res["obligations"] + gen_obligations
        self.cov["discharged"] = res["discharged"] + (gen_obligations if res["ok"] else 0)
        self.cov["theorems"] = res["theorems"]
        self.cov["non_vacuity_examples"] = res["examples"]
        self.cov["checker_cmd"] = "tools/coqmake.sh %s  (= coq_makefile -f _CoqProject && make -k -j16 <targets>; coqc 8.16.1, full .vo build; the Properties files are force-recompiled on every run)" % " ".join(f[:-2] + ".vo" for f in res.get("files", []))
        axs = sorted({a for v in res["axioms"].values() for a in v})
        self.cov["axioms_per_theorem"] = res["axioms"]
        tb = list(STD_TRUSTED)
        tb.append("axioms reported by Print Assumptions on this run: " + (", ".join(axs) if axs else "none (all theorems closed under the global context)"))
        self.cov["trusted_base"] = tb
        self.cov["axiom_gate"] = "clean" if not bad else bad
        if bad:
            self.violation("gate", {"kind": "axiom-gate", "offending": bad}, False,
                           "development contains forbidden declarations: %s" % bad[:3])
        return res

    def proof_broken(self, extra=None):
        """Report a broken proof obligation after the search found no failing input."""
        r = self.proof
        obj = {"kind": "proof-obligation", "no_longer_checks": r["failed"],
               "build_log_tail": r["log"][-3000:]}
        if extra:
            obj.update(extra)
        self.violation("proof", obj, False, "theorem(s) no longer check: %s" % ", ".join(r["failed"]))

    def add_samples(self, items, limit=8):
        for it in items:
            if len(self.cov["samples"]) < limit:
                self.cov["samples"].append(it)

    def finish(self):
        ev = {
            "property_id": self.pid, "tier": self.tier, "seed": self.seed,
            "level": self.level, "coverage": self.cov,
            "assumptions": self.assumptions, "wall_s": round(time.time() - self.t0, 2),
            "violations": len(self.violations),
        }
        if self.known_hits:
            ev["coverage"]["known_findings_confirmed"] = self.known_hits
        if not ev["coverage"].get("samples"):
            ev["coverage"]["samples"] = ["(none recorded)"]
        evdir = os.path.join(ROOT, "evidence") if REPO == "/repo" else os.path.join(WORK, "scratch-evidence")
        os.makedirs(evdir, exist_ok=True)
        with open(os.path.join(evdir, "%s.json" % self.pid), "w") as f:
            json.dump(ev, f, indent=1, default=str)
        return 1 if self.violations else 0


def load_known_findings():
    try:
        return json.load(open(os.path.join(ROOT, "known_findings.json")))
    except OSError:
        return {"findings": [], "fixed": []}


def known_match(k, replay_obj):
    """A known finding names the failing call site/input class by a regular expression
    over the canonical `witness` string of the replay object."""
    w = replay_obj.get("witness")
    pat = k.get("witness_regex")
    if not w or not pat:
        return False
    return re.search(pat, w) is not None


def correspondence(ctx, name, cases, impl_bin, model_bin, nontrivial=None, functional=True,
                   oracle=None, timeout=900, impl_env=None):
    """Run implementation and model drivers on the same case lines and compare.
    functional=True: the theorems say the model result IS the documented result, so a
    disagreement is itself a concrete failing input. Otherwise `oracle(case, impl_out,
    model_out)` decides (True = property fails on the implementation at this input)."""
    rc1, o1 = run_lines(impl_bin, cases, timeout=timeout, env=impl_env)
    err1 = LAST_STDERR[0]
    rc2, o2 = run_lines(model_bin, cases, timeout=timeout)
    cov = ctx.cov
    cov["evaluations"] = cov.get("evaluations", 0) + len(cases)
    cov["traces_validated_against_impl"] = cov.get("traces_validated_against_impl", 0) + min(len(o1), len(cases))
    if nontrivial is None:
        nontrivial = lambda c, out: not out.startswith("err") and out != "argerr"
    seen = ctx.__dict__.setdefault("_distinct", set())
    for c, out in zip(cases, o1):
        if nontrivial(c, out):
            seen.add(c)
    cov["distinct_nontrivial"] = len(seen)
    cov.setdefault("correspondences", {})[name] = {"cases": len(cases), "impl_rc": rc1, "model_rc": rc2, "impl_lines": len(o1)}
    if rc2 != 0 or len(o2) < len(cases):
        ctx.violation("model-" + name, {"kind": "model-driver-crash", "rc": rc2, "lines": len(o2), "cases": len(cases), "tail": o2[-5:],
                                        "stderr": LAST_STDERR[0][-1500:]}, False,
                      "model driver failed or stopped early (rc=%d, %d of %d lines)" % (rc2, len(o2), len(cases)))
        return []
    n1 = min(len(o1), len(cases))
    # compare what the implementation driver produced; what it did NOT produce is handled below, once
    bad = diff_outputs(cases[:n1], o1[:n1], o2[:n1])
    if n1 < len(cases):
        nxt = cases[n1]
        stail = "\n".join(err1.splitlines()[-25:])
        if rc1 == 124:
            ctx.violation("timeout-" + name, {"kind": "driver-timeout", "engine": name, "timeout_s": timeout, "processed": n1, "cases": len(cases),
                                              "next_case": nxt, "impl_driver": impl_bin, "witness": "%s :: timeout" % name}, False,
                          "implementation driver did not finish within %ss (%d of %d cases processed; next case `%s`): nothing is shown for the rest"
                          % (timeout, n1, len(cases), nxt[:300]))
        else:
            obj = {"kind": "crash", "engine": name, "case": nxt, "rc": rc1, "stderr": stail, "impl": "<crash rc=%d>" % rc1, "model": o2[n1],
                   "witness": "%s :: %s" % (name, nxt), "impl_driver": impl_bin, "model_driver": model_bin}
            first = stail.strip().splitlines()[0][:300] if stail.strip() else ""
            ctx.violation("corr-" + name, obj, rc1 != 0,
                          "case `%s`: implementation driver %s (rc=%d) %s vs model/specification `%s`"
                          % (nxt[:2000], "crashed" if rc1 != 0 else "stopped without output", rc1, first, o2[n1][:300]))
    elif rc1 != 0:
        stail = "\n".join(err1.splitlines()[-25:])
        ctx.violation("corr-" + name, {"kind": "crash", "engine": name, "rc": rc1, "stderr": stail, "case": "<after the last case>",
                                       "witness": "%s :: exit status" % name, "impl_driver": impl_bin}, True,
                      "implementation driver answered every case but exited with rc=%d: %s" % (rc1, (stail.strip().splitlines() or [""])[0][:300]))
    reported = 0
    for (i, c, x, y) in bad:
        if reported >= 3:
            break
        is_fail = True if functional else bool(oracle and oracle(c, x, y))
        obj = {"kind": "correspondence", "engine": name, "case": c, "impl": x, "model": y,
               "witness": "%s :: %s" % (name, c), "impl_driver": impl_bin, "model_driver": model_bin}
        if ctx.violation("corr-" + name, obj, is_fail,
                         "case `%s`: implementation `%s` vs model/specification `%s`" % (c, x, y)):
            reported += 1
    cov["disagreements"] = cov.get("disagreements", 0) + len(bad)
    return bad
