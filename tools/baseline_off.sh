#!/bin/bash
# Build /repo with the hook guard OFF and the test suite ON, run the pinned suite.
set -e
B=$(/verif/tools/build_impl.sh baseline)
cd $B
ctest -j8 --timeout 900 --output-junit $B/junit.xml
