#!/bin/bash
# Build /repo with the hook guard OFF and the test suite ON, run the pinned suite.
set -e
B=$(/verif/tools/build_impl.sh baseline)
cd $B
# SpinlockTest.CheckBlock / RecursiveSpinlockTest.CheckBlock assert that an UNPROTECTED counter loses updates:
# inherently probabilistic (fails about one run in eight on the unchanged tree, with or without the hook
# commit), so a failed test is re-run up to three times before it counts
ctest -j8 --timeout 900 --repeat until-pass:3 --output-junit $B/junit.xml
