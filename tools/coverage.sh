#!/bin/bash
# coverage.sh [IDs...]: line/function coverage of /repo's sources by the QUICK checks (gcov build of
# a scratch copy; nothing here decides a property - it only shows which code no check executes).
# Result: _work/coverage/summary.txt (per file) and _work/coverage/uncovered_functions.txt
set -e
cd /verif
IDS=${@:-C01 C02 C03 C04 C05 C06 C07 C08 C09 C10 C11 C12 C13 C14 C15 C16 C17 C18 C19 C20}
S=/var/tmp/pv-cov
[ -n "$COV_RESUME" ] || { rm -rf $S; rsync -a --exclude _build --exclude .git /repo/ $S/; }
H=$(echo $S | md5sum | cut -c1-8)
export PV_REPO=$S PV_COVERAGE=1
for id in $IDS; do
  timeout 3000 ./check $id quick 2>&1 | tail -1
done
mkdir -p _work/coverage
gcovr -r $S --object-directory _work --filter "$S/primitiv/" --exclude ".*/cuda/.*" --exclude ".*/opencl/.*" -j 8 \
  --txt _work/coverage/summary.txt --json _work/coverage/cov.json 2>_work/coverage/gcovr.err || true
tail -5 _work/coverage/summary.txt
[ -n "$COV_KEEP" ] || rm -rf $S /verif/_work/build-*-$H /verif/_work/bin/*-$H
