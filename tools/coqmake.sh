#!/bin/bash
# coqmake.sh [targets...]: `make -k -j16` in /verif/coq (regenerates _CoqProject/Makefile from the
# fragments when they changed). Always use this instead of calling make directly.
# Locking: a build of explicit targets takes a SHARED global lock plus an exclusive lock per
# top-level directory of its targets (so engines do not block each other); a full build (no
# targets) takes the global lock exclusively. 12 GB memory cap, COQ_TIMEOUT (default 1500 s).
cd /verif/coq
mkdir -p /verif/_work /verif/ocaml/gen
(
  flock 8
  /verif/tools/coqproject.sh
  if [ ! -f Makefile ] || [ _CoqProject -nt Makefile ]; then
    coq_makefile -f _CoqProject -o Makefile >/dev/null || exit 3
  fi
) 8>/verif/_work/.lock-coq-mk || exit 3
exec 9>/verif/_work/.lock-coq
if [ $# -eq 0 ]; then
  flock -x 9
else
  flock -s 9
  n=10
  for d in $(for t in "$@"; do echo "${t%%/*}"; done | sort -u); do
    eval "exec $n>/verif/_work/.lock-coq-$d"
    flock -x $n
    n=$((n+1))
  done
fi
ulimit -v 12000000
timeout ${COQ_TIMEOUT:-1500} make -k -j16 "$@"
