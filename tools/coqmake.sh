#!/bin/bash
# coqmake.sh [targets...]: serialised `make -k -j16` in /verif/coq (regenerates the Makefile
# when _CoqProject changed). Always use this instead of calling make directly, so that
# concurrent builds do not trample each other's .vo files.
cd /verif/coq
mkdir -p /verif/_work /verif/ocaml/gen
exec 9>/verif/_work/.lock-coq
flock 9
/verif/tools/coqproject.sh
if [ ! -f Makefile ] || [ _CoqProject -nt Makefile ]; then
  coq_makefile -f _CoqProject -o Makefile >/dev/null || exit 3
fi
ulimit -v 12000000
timeout ${COQ_TIMEOUT:-1500} make -k -j16 "$@"
