#!/bin/bash
# run_all.sh [quick|thorough]: run every registered check once, print a one-line summary each.
T=${1:-quick}
cd /verif
for id in $(python3 -c "import json; print(' '.join(c['property_id'] for c in json.load(open('MANIFEST.json'))['checks']))"); do
  s=$(date +%s)
  out=$(timeout 3000 ./check $id $T 2>&1); rc=$?
  e=$(( $(date +%s) - s ))
  v=$(echo "$out" | grep -c "^VIOLATION")
  k=$(echo "$out" | grep -c "^KNOWN-FINDING")
  echo "$id rc=$rc violations=$v known=$k ${e}s"
  if [ $rc -ne 0 ]; then echo "$out" | grep -A1 "^VIOLATION" | cut -c1-300 | head -6; fi
done
