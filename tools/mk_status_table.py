#!/usr/bin/env python3
"""Rewrites the table between the STATUS-TABLE markers of DESIGN.md from MANIFEST.json and the
evidence files of the last runs (numbers are those measured by the checks themselves)."""
import glob, json, os
m = json.load(open("/verif/MANIFEST.json"))
rows = []
for c in m["checks"]:
    pid = c["property_id"]
    try:
        e = json.load(open("/verif/evidence/%s.json" % pid))
    except OSError:
        continue
    cov = e["coverage"]
    axs = sorted({a.split(".")[-1] for v in cov.get("axioms_per_theorem", {}).values() for a in v})
    files = sorted(os.path.basename(f) for f in glob.glob("/verif/coq/Props/Properties_%s*.v" % pid))
    rows.append("| %s | %s | %s/%s | %s | %s | %s | %s s (%s) |" % (
        pid, c["level_claimed"]["category"], cov.get("discharged", "-"), cov.get("obligations", "-"),
        ", ".join(axs) if axs else "none (closed)", ", ".join(f.replace("Properties_", "").replace(".v", "") for f in files),
        cov.get("evaluations", "-"), e["wall_s"], e["tier"]))
table = ("| property | level | obligations discharged (theorems and examples of the Properties files + the table lemmas behind them) | axioms (Print Assumptions) | Properties files | cases run against the implementation | wall |\n"
         "|---|---|---|---|---|---|---|\n" + "\n".join(rows) + "\n")
p = "/verif/DESIGN.md"
s = open(p).read()
a, b = "<!-- STATUS-TABLE-BEGIN -->", "<!-- STATUS-TABLE-END -->"
i, j = s.index(a) + len(a), s.index(b)
open(p, "w").write(s[:i] + "\n" + table + s[j:])
print(len(rows), "rows")
