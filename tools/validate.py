#!/usr/bin/env python3-vt
"""Validate MANIFEST.json and every evidence file against the schemas in /root/.vp."""
import glob, json, sys
import jsonschema
ok = True
def v(path, schema):
    global ok
    try:
        jsonschema.validate(json.load(open(path)), json.load(open(schema)))
        print("valid  ", path)
    except Exception as e:
        ok = False
        print("INVALID", path, str(e)[:300])
v("/verif/MANIFEST.json", "/root/.vp/MANIFEST.schema.json")
for f in sorted(glob.glob("/verif/evidence/*.json")):
    v(f, "/root/.vp/EVIDENCE.schema.json")
ids = [json.loads(l)["id"] for l in open("/verif/properties.jsonl")]
m = json.load(open("/verif/MANIFEST.json"))
claimed = [c["property_id"] for c in m["checks"]]
na = [c["property_id"] for c in m.get("not_applicable", [])]
for i in ids:
    if (i in claimed) == (i in na):
        ok = False
        print("property", i, "must be exactly one of claimed / not_applicable")
sys.exit(0 if ok else 1)
