#!/usr/bin/env python3
"""Generates /verif/MANIFEST.json from the table below (kept valid at all times)."""
import json
HOOK_COMMITS = ["84a91c3"]
import glob
CLAIMED = {}
for f in sorted(glob.glob("/verif/manifest.d/*.json")):
    d = json.load(open(f))
    CLAIMED[d["id"]] = d
NOT_YET = {
}
def main():
    props = [json.loads(l) for l in open("/verif/properties.jsonl")]
    checks, na = [], []
    for p in props:
        i = p["id"]
        if i in CLAIMED:
            c = CLAIMED[i]
            checks.append({
              "property_id": i,
              "quick_cmd": "./check %s quick" % i,
              "thorough_cmd": "./check %s thorough" % i,
              "evidence_file": "/verif/evidence/%s.json" % i,
              "replay_cmd_template": "./check %s --replay {path}" % i,
              "engine": c["engine"],
              "level_claimed": {"category": c["category"], "text": c["text"], "design_ref": "DESIGN.md " + c["design"]},
              "level_note": c["note"],
              "technique": c["technique"],
            })
        else:
            na.append({"property_id": i, "reason": NOT_YET.get(i, "no check is registered for this property yet (machinery under construction; see DESIGN.md section 5 for the planned model and theorems)")})
    m = {
      "version": 1,
      "setup_cmd": "tools/setup.sh",
      "hooks": {"guard": "PRIMITIV_VERIF_HOOKS",
                "enable": "tools/build_impl.sh <variant> passes -DPRIMITIV_VERIF_HOOKS in CMAKE_CXX_FLAGS (variants plain/asan/tsan/cache); harness drivers are compiled with the same define",
                "baseline_off_cmd": "tools/baseline_off.sh",
                "source_commits": HOOK_COMMITS, "add_only": True},
      "engines": [],
      "checks": checks,
      "not_applicable": na,
      "notes": "One Coq development (coq/, logical root PV) + extracted OCaml model drivers + C++ drivers built against the current /repo tree. ./check <ID> quick|thorough. Genuine defects repaired by fix: commits are listed in known_findings.json.",
    }
    eng = {}
    for c in checks:
        eng.setdefault(c["engine"], []).append(c["property_id"])
    m["engines"] = [{"name": k, "path": "/verif/engines", "serves_properties": v, "kind_free_text": "Coq model + extracted OCaml driver + C++ driver + generator"} for k, v in sorted(eng.items())]
    json.dump(m, open("/verif/MANIFEST.json", "w"), indent=1)
main()
