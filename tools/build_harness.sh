#!/bin/bash
# build_harness.sh <variant> <name> [extra g++ args]: compile harness/<name>.cc against the
# build of the CURRENT /repo tree in _work/build-<variant>; prints the binary path.
set -e
V=$1; N=$2; shift 2
REPO=${PV_REPO:-/repo}
B=$(/verif/tools/build_impl.sh $V)
SFX=""
if [ "$REPO" != "/repo" ]; then SFX="-$(echo $REPO | md5sum | cut -c1-8)"; fi
OUT=/verif/_work/bin/${N}.$V$SFX
SAN=""
case $V in
  asan) SAN="-fsanitize=address,undefined -fno-sanitize-recover=all -fno-omit-frame-pointer" ;;
  tsan) SAN="-fsanitize=thread" ;;
esac
if [ -n "$PV_COVERAGE" ]; then SAN="$SAN --coverage -DPV_COVERAGE"; fi
mkdir -p /verif/_work/bin
g++ -std=c++11 -O1 -g -DPRIMITIV_VERIF_HOOKS $SAN -I$REPO -I$B -I/usr/include/eigen3 -I/verif/harness \
  /verif/harness/$N.cc -o $OUT.tmp.$$ -L$B/primitiv -lprimitiv -Wl,-rpath,$B/primitiv -lpthread "$@" || { rm -f $OUT.tmp.$$; exit 1; }
# rename into place: another check may be executing the previous binary of the same name
mv -f $OUT.tmp.$$ $OUT
echo $OUT
