#!/bin/bash
# Assemble coq/_CoqProject from the fragments in coq/_CoqProject.d (one per engine, so that
# engines can be developed independently). Files that are listed but do not exist (yet) are
# skipped, so that one engine's half-written fragment cannot break everybody's build.
# Rewrites the file only when it changes.
cd /verif/coq
{ echo "-Q . PV"
  echo "-arg -w -arg -notation-overridden,-deprecated-hint-without-locality,-deprecated-instance-without-locality"
  for f in $(ls _CoqProject.d/*.txt | sort); do
    grep -v '^\s*#' $f | grep -v '^\s*$' | while read -r v; do
      if [ -f "$v" ]; then echo "$v"; else echo "coqproject: skipping missing $v (listed in $f)" >&2; fi
    done
  done
} > _CoqProject.new.$$
if ! cmp -s _CoqProject.new.$$ _CoqProject; then mv _CoqProject.new.$$ _CoqProject; else rm _CoqProject.new.$$; fi
