#!/bin/bash
# Build the CURRENT working tree of /repo into /verif/_work/build-<variant>.
# usage: build_impl.sh <variant>   variants: plain asan tsan cache baseline
# prints the build directory on success.
set -e
V=${1:-plain}
REPO=${PV_REPO:-/repo}
W=/verif/_work
SFX=""
if [ "$REPO" != "/repo" ]; then SFX="-$(echo $REPO | md5sum | cut -c1-8)"; fi
B=$W/build-$V$SFX
mkdir -p $W
exec 9>$W/.lock-$V$SFX
flock 9
COMMON="-DPRIMITIV_USE_EIGEN=ON -DPRIMITIV_BUILD_C_API=ON -DCMAKE_BUILD_TYPE=None"
case $V in
  plain)    FLAGS="-O1 -g -Wno-error -DPRIMITIV_VERIF_HOOKS"; EXTRA="$COMMON" ;;
  asan)     FLAGS="-O1 -g -Wno-error -DPRIMITIV_VERIF_HOOKS -fsanitize=address,undefined -fno-sanitize-recover=all -fno-omit-frame-pointer"; EXTRA="$COMMON" ;;
  tsan)     FLAGS="-O1 -g -Wno-error -DPRIMITIV_VERIF_HOOKS -fsanitize=thread"; EXTRA="$COMMON" ;;
  cache)    FLAGS="-O1 -g -Wno-error -DPRIMITIV_VERIF_HOOKS"; EXTRA="$COMMON -DPRIMITIV_USE_CACHE=ON" ;;
  baseline) FLAGS="-Wno-error"; EXTRA="-DPRIMITIV_BUILD_TESTS=ON -DCMAKE_BUILD_TYPE=RelWithDebInfo" ;;
  *) echo "unknown variant $V" >&2; exit 2 ;;
esac
# PV_COVERAGE=1 (tools/coverage.sh): gcov instrumentation, used only to look for unexercised code
if [ -n "$PV_COVERAGE" ]; then FLAGS="$FLAGS --coverage"; fi
if [ ! -f $B/build.ninja ] || [ "$(cat $B/.pv_repo 2>/dev/null)" != "$REPO" ]; then
  rm -rf $B; mkdir -p $B
  cmake -G Ninja -S $REPO -B $B $EXTRA -DCMAKE_CXX_FLAGS="$FLAGS" >$B.cmake.log 2>&1 || { cat $B.cmake.log >&2; exit 3; }
  echo $REPO > $B/.pv_repo
else
  # re-run the configure step every time: the source lists are file(GLOB ..) results, so a source file
  # added to / removed from the tree is only noticed by a new configure (cheap; unchanged outputs are kept)
  cmake -S $REPO -B $B >$B.cmake.log 2>&1 || { cat $B.cmake.log >&2; exit 3; }
fi
cmake --build $B -j16 >$B.build.log 2>&1 || { tail -50 $B.build.log >&2; exit 4; }
echo $B
