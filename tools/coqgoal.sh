#!/bin/bash
# coqgoal.sh <file.v relative to coq/> <line>: show the proof state just before <line>
F=$1; L=$2
cd /verif/coq
D=$(dirname $F); T=$D/Tmp_goal_$$.v
head -n $((L-1)) $F > $T; echo "Show." >> $T
timeout 120 coqc -Q . PV -w -notation-overridden $T 2>&1 | tail -${3:-40}
rm -f $D/Tmp_goal_$$.* $D/.Tmp_goal_$$.*
