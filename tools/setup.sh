#!/bin/bash
# Run once after a fresh restore, offline: full build of the Coq development (all theorems,
# extraction) and of the OCaml model drivers, from files on disk only.
set -e
cd /verif
mkdir -p _work/bin ocaml/gen evidence
python3 translate/regen.py || true
tools/coqmake.sh 2>&1 | tail -40
for e in $(ls ocaml/*_driver.ml 2>/dev/null | sed 's|ocaml/||; s|_driver.ml||'); do
  tools/build_ocaml.sh $e
done
echo setup-done
