#!/bin/bash
# Run once after a fresh restore, offline: full build of the Coq development (all theorems,
# extraction) and of the OCaml model drivers, from files on disk only.
set -e
cd /verif
mkdir -p _work/bin ocaml/gen evidence
python3 translate/regen.py || true
# the setup must not die on a theorem that no longer checks (the tree under /repo may already differ from
# the one the generated files were committed for): every check rebuilds what it needs and reports
set +e
tools/coqmake.sh > _work/setup-coq.log 2>&1; CRC=$?
set -e
tail -40 _work/setup-coq.log
[ $CRC -eq 0 ] || echo "setup: the Coq build reported errors (rc=$CRC, see _work/setup-coq.log); the checks will report what does not hold"
for e in $(ls ocaml/*_driver.ml 2>/dev/null | sed 's|ocaml/||; s|_driver.ml||'); do
  tools/build_ocaml.sh $e || echo "setup: ocaml model driver $e not built (its check will report)"
done
echo setup-done
