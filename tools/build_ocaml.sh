#!/bin/bash
# build_ocaml.sh <engine>: compile ocaml/gen/<engine>_model.ml + ocaml/<engine>_driver.ml
# (prefixed by `module M = <Engine>_model` and ocaml/pvio.inc.ml) into _work/bin/<engine>_model
set -e
E=$1
cd /verif
W=_work/ocaml/$E
mkdir -p $W _work/bin
cp ocaml/gen/${E}_model.ml ocaml/gen/${E}_model.mli $W/
MOD="$(echo ${E:0:1} | tr a-z A-Z)${E:1}_model"
{ echo "module M = $MOD"; cat ocaml/pvio.inc.ml; cat ocaml/${E}_driver.ml; } > $W/${E}_main.ml
cd $W
ocamlfind ocamlopt -package zarith -linkpkg -O3 -w -a ${E}_model.mli ${E}_model.ml ${E}_main.ml -o /verif/_work/bin/${E}_model 2>&1 | grep -v "^$" || true
test -x /verif/_work/bin/${E}_model
