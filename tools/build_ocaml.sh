#!/bin/bash
# build_ocaml.sh <engine>: compile ocaml/gen/<engine>_model.ml + ocaml/<engine>_driver.ml
# (prefixed by `module M = <Engine>_model` and ocaml/pvio.inc.ml) into _work/bin/<engine>_model
set -e
E=$1
cd /verif
W=_work/ocaml/$E
mkdir -p $W _work/bin
cp ocaml/gen/${E}_model.ml ocaml/gen/${E}_model.mli $W/
MOD="$(echo ${E:0:1} | tr a-z A-Z)${E:1}_model"
{ echo "module M = $MOD"; cat ocaml/pvio.inc.ml; cat ocaml/${E}_driver.ml; } > $W/${E}_main.ml
cd $W
# compile to a private name and rename: a failed compile must not leave an older binary in place, and a
# binary that another check is executing must not be rewritten under it
T=/verif/_work/bin/.${E}_model.$$
rm -f $T
ocamlfind ocamlopt -package zarith -linkpkg -O3 -w -a ${E}_model.mli ${E}_model.ml ${E}_main.ml -o $T 2>&1 | grep -v "^$" || true
test -x $T || { rm -f /verif/_work/bin/${E}_model; echo "ocaml build of $E failed" >&2; exit 1; }
mv -f $T /verif/_work/bin/${E}_model
