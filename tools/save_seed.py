#!/usr/bin/env python3
"""save_seed.py <tag> <property> <caught_by> <ran...>: copy /tmp/seeds/<tag>/SEED_OUT into /verif/seeded/<tag>/ with meta.json"""
import json, os, shutil, sys
tag, prop, caught = sys.argv[1], sys.argv[2], sys.argv[3]
ran = sys.argv[4:]
src = "/tmp/seeds/%s/SEED_OUT" % tag
dst = "/verif/seeded/%s" % tag
os.makedirs(dst, exist_ok=True)
for f in os.listdir(src):
    if os.path.isfile(os.path.join(src, f)) and os.path.getsize(os.path.join(src, f)) < 2_000_000 and not f.startswith("demo") or f in ("demo.cc", "demo.c"):
        shutil.copy(os.path.join(src, f), os.path.join(dst, f))
readme = open(os.path.join(src, "README.md")).read() if os.path.exists(os.path.join(src, "README.md")) else ""
meta = {"property": prop, "written_by": "fresh sub-agent given only the property text and a scratch worktree of /repo",
        "needs_to_manifest": readme[:1500], "confirmed": "patch applies to /repo HEAD, library builds, pinned test suite passes with it (sub-agent run, re-checked by tools/try_seed.sh build), demo fails with / passes without the change (sub-agent run)",
        "ran": ran, "caught_by": caught}
json.dump(meta, open(os.path.join(dst, "meta.json"), "w"), indent=1)
print("saved", dst, os.listdir(dst))
