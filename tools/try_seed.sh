#!/bin/bash
# try_seed.sh <patch.diff> <ID> [<ID>...]: apply a breaking change to a scratch copy of /repo,
# run the quick checks of the given properties against it, report, clean up.
# (Equivalent to `git -C /repo apply` + run + `git checkout`, without disturbing /repo.)
P=$(readlink -f $1); shift
S=/var/tmp/pv-seed.$$
rsync -a --exclude _build --exclude .git /repo/ $S/
( cd $S && git init -q . >/dev/null 2>&1; patch -p1 -s < $P ) || { echo "patch does not apply"; rm -rf $S; exit 2; }
H=$(echo $S | md5sum | cut -c1-8)
cd /verif
for id in "$@"; do
  echo "== $id against $(basename $P)"
  PV_REPO=$S timeout 1500 ./check $id ${TIER:-quick} 2>&1 | grep -E "VIOLATION|KNOWN-FINDING|^$id |^  " | cut -c1-400 | head -${LINES_MAX:-12}
done
rm -rf $S /verif/_work/build-*-$H /verif/_work/bin/*-$H
# the translators wrote coq/Gen/*.v from the scratch tree: put the committed (= /repo) versions back
[ -n "$PV_NO_GEN_RESTORE" ] || git -C /verif checkout -- coq/Gen 2>/dev/null || true
