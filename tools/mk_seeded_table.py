#!/usr/bin/env python3
"""Rewrites the table between the SEEDED-TABLE markers of DESIGN.md from seeded/*/meta.json."""
import glob, json, os, re
rows = []
for f in sorted(glob.glob("/verif/seeded/*/meta.json")):
    tag = os.path.basename(os.path.dirname(f))
    m = json.load(open(f))
    patch = open(os.path.join(os.path.dirname(f), "patch.diff")).read()
    files = sorted(set(re.findall(r"^\+\+\+ b/(\S+)", patch, re.M)))
    rows.append("| `%s` | %s | %s | %s |" % (tag, m["property"], ", ".join("`%s`" % x.replace("primitiv/", "") for x in files),
                                             m["caught_by"].replace("|", "/").replace("\n", " ")))
table = "| seeded change | property | files touched | caught by (quick tier) |\n|---|---|---|---|\n" + "\n".join(rows) + "\n"
p = "/verif/DESIGN.md"
s = open(p).read()
a, b = "<!-- SEEDED-TABLE-BEGIN -->", "<!-- SEEDED-TABLE-END -->"
i, j = s.index(a) + len(a), s.index(b)
open(p, "w").write(s[:i] + "\n" + table + s[j:])
print(len(rows), "rows")
