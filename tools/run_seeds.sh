#!/bin/bash
# run_seeds.sh "<seeds>" "<ids>": run the quick checks of the given properties for several VERIF_SEED values
cd /verif
for seed in $1; do
  for id in $2; do
    s=$(date +%s)
    out=$(VERIF_SEED=$seed timeout 3000 ./check $id quick 2>&1); rc=$?
    e=$(( $(date +%s) - s ))
    echo "seed=$seed $id rc=$rc ${e}s"
    if [ $rc -ne 0 ]; then echo "$out" | grep -A1 "^VIOLATION" | cut -c1-300 | head -6; fi
  done
done
