(* Interface of the graph engine: the ABSTRACT operator family the model of
   Graph::add_operator / forward / backward is generic in, vectors over a commutative ring,
   and the per-operator obligation [LocalAdjoint] under which the reverse sweep of
   Graph::backward is the adjoint of the forward tangent (Graph/ADProof.v).
   Light file (Coq standard library only): the tensor engine imports it and instantiates
   [LocalAdjoint] per operator. No proofs about the graph here. *)
From Coq Require Import List NArith Ring.
Import ListNotations.

(* Operator::num_arguments(): a number, Operator::ANY or Operator::NONZERO *)
Inductive argreq := ArgExact (n : nat) | ArgAny | ArgNonZero.

(* One record per operator SET.  [O] = operator objects (class + attributes), [Sh] = what
   forward_shape computes, [V] = tensor values.
   f_inner o = Some p : has_inner_values() - the operator is functions::parameter(p); its
                        value is read through the live pointer to Parameter p's value and its
                        backward is `param.gradient() += *gy[0]`.
   f_dev o            : get_device() (None = nullptr: inherited from args[0]).
   f_rand o = Some (d, n) : random source on device d; forward consumes n units of d's stream.
   f_nop o = true     : BACKWARD_NOP (Input, Constant, Random*, StopGradient ...).
   f_fw o pos xs      : forward; [pos] = stream position of the operator's device at the call
                        (ignored by deterministic operators).
   f_bw o xs ys gys   : backward as the list of INCREMENTS it adds to args_g, one per argument
                        position (kernels only ever do gx[i] += ...; same node twice => sum). *)
Record OpFamily (O Sh V : Type) := {
  f_argn : O -> argreq;
  f_retn : O -> nat;
  f_inner : O -> option nat;
  f_dev : O -> option nat;
  f_rand : O -> option (nat * N);
  f_nop : O -> bool;
  f_shape : O -> list Sh -> option (list Sh);
  f_fw : O -> N -> list V -> list V;
  f_bw : O -> list V -> list V -> list V -> list V;
}.
Arguments f_argn {O Sh V}. Arguments f_retn {O Sh V}. Arguments f_inner {O Sh V}.
Arguments f_dev {O Sh V}. Arguments f_rand {O Sh V}. Arguments f_nop {O Sh V}.
Arguments f_shape {O Sh V}. Arguments f_fw {O Sh V}. Arguments f_bw {O Sh V}.

(* the increments the graph sees: none at all for BACKWARD_NOP operators *)
Definition eff_bw {O Sh V} (F : OpFamily O Sh V) (o : O) (xs ys gys : list V) : list V :=
  if f_nop F o then [] else f_bw F o xs ys gys.

(* What the graph needs from tensor values: zeros / ones of a shape and += . *)
Record ValOps (Sh V : Type) := {
  vzeros : Sh -> V;
  vones : Sh -> V;
  vadd : V -> V -> V;
}.
Arguments vzeros {Sh V}. Arguments vones {Sh V}. Arguments vadd {Sh V}.

(* ---- vectors over a commutative ring (flat tensors) ---- *)
Section Vec.
  Context {R : Type} (rO rI : R) (radd rmul rsub : R -> R -> R) (ropp : R -> R).

  Definition vec := list R.
  Fixpoint dot (a b : vec) : R :=
    match a, b with x :: a', y :: b' => radd (rmul x y) (dot a' b') | _, _ => rO end.
  Fixpoint vplus (a b : vec) : vec :=
    match a, b with x :: a', y :: b' => radd x y :: vplus a' b' | _, _ => [] end.
  Fixpoint dots (a b : list vec) : R :=
    match a, b with x :: a', y :: b' => radd (dot x y) (dots a' b') | _, _ => rO end.
  Definition vsum (a : vec) : R := fold_right radd rO a.

  Definition vec_ops {Sh} (size : Sh -> nat) : ValOps Sh vec :=
    {| vzeros := fun s => repeat rO (size s);
       vones := fun s => repeat rI (size s);
       vadd := vplus |}.

  (* Tangent (JVP) of an operator: f_jvp o pos xs dxs = tangents of the outputs. *)
  Definition JvpFamily (O : Type) := O -> N -> list vec -> list vec -> list vec.

  (* The obligation per operator (non-parameter operators only; the Parameter operator is
     handled by the graph).  For argument shapes ashs accepted by forward_shape (result shapes
     rshs), argument values xs and tangents dxs of those shapes, and any upstream gradients gys
     shaped like the outputs:
       sum_i <inc_i, dx_i> = sum_j <gy_j, jvp_j>      (increments pair with the JVP)
     the increments (possibly fewer than arguments: a missing increment is "nothing added")
     have the arguments' sizes and the tangents the outputs' sizes.  A BACKWARD_NOP operator
     (stop_gradient, input, constant, random) satisfies it iff its tangent pairs to 0. *)
  Definition LocalAdjoint {O Sh} (F : OpFamily O Sh vec) (jvp : JvpFamily O) (size : Sh -> nat) (o : O) : Prop :=
    forall pos ashs rshs xs dxs gys,
      f_shape F o ashs = Some rshs ->
      Forall2 (fun x sh => length x = size sh) xs ashs ->
      Forall2 (fun dx sh => length dx = size sh) dxs ashs ->
      Forall2 (fun gy sh => length gy = size sh) gys rshs ->
      let ys := f_fw F o pos xs in
      let incs := eff_bw F o xs ys gys in
      dots incs dxs = dots gys (jvp o pos xs dxs) /\
      (forall i inc, nth_error incs i = Some inc ->
         exists sh, nth_error ashs i = Some sh /\ length inc = size sh) /\
      Forall2 (fun t sh => length t = size sh) (jvp o pos xs dxs) rshs.
End Vec.
