(* Executable model of Graph::backward (core/graph.cc), of BACKWARD(Parameter)
   (`param_.gradient() += *gy[0]`), of Parameter::reset_gradient / Optimizer::reset_gradients /
   Optimizer::update (as an arbitrary per-parameter value update), and of HISTORIES of API
   calls over several graphs sharing one parameter store.  No proofs in this file. *)
From Coq Require Import List NArith Bool Arith.
From PV Require Import Graph.OpFamily Graph.Tape Graph.Lazy.
Import ListNotations.

Section Backward.
  Context {Op Sh V : Type}.
  Variable F : OpFamily Op Sh V.
  Variable VO : ValOps Sh V.
  Notation gstate := (@gstate Op Sh V).
  Notation slot := (@slot Sh V).
  Notation env := (@env V).

  Definition has_grad (s : slot) : bool := match s_grad s with Some _ => true | None => false end.
  (* enabled = enabled || cur_n.grad.valid() over all return values *)
  Definition enabled (rets : list slot) : bool := existsb has_grad rets.
  (* if (!grad.valid()) grad = zeros(shape, device) *)
  Definition mat_zero (s : slot) : slot :=
    match s_grad s with Some _ => s | None => set_grad s (Some (vzeros VO (s_shape s))) end.
  Definition grad_or_zero (s : slot) : V :=
    match s_grad s with Some x => x | None => vzeros VO (s_shape s) end.
  Definition add_inc (inc : V) (s : slot) : slot :=
    match s_grad s with Some gx => set_grad s (Some (vadd VO gx inc)) | None => s end.

  Definition add_pgrad (e : env) (p : nat) (gy : V) : env :=
    {| e_pval := e_pval e;
       e_pgrad := fun q => if Nat.eqb q p then vadd VO (e_pgrad e p) gy else e_pgrad e q;
       e_pos := e_pos e |}.

  Notation ops_t := (list (@opinfo Op Sh V)).

  (* "Gathers information of arguments": args_v[i] = value if valid else inner values (a
     non-parameter operator without value makes get_inner_values() throw: None); then the
     argument's gradient is materialised as zeros when invalid. *)
  Fixpoint gather_args (ops : ops_t) (e : env) (args : list (nat * nat)) : option (list V * ops_t) :=
    match args with
    | [] => Some ([], ops)
    | a :: rest =>
      match nth_error ops (fst a) with
      | None => None
      | Some arg_f =>
        match nth_error (o_rets arg_f) (snd a) with
        | None => None
        | Some arg_n =>
          let ov := match s_val arg_n with
                    | Some v => Some v
                    | None => match f_inner F (o_op arg_f) with
                              | Some p => Some (e_pval e p)
                              | None => None
                              end
                    end in
          match ov with
          | None => None
          | Some v =>
            match gather_args (upd_ops ops a mat_zero) e rest with
            | None => None
            | Some (vs, ops') => Some (v :: vs, ops')
            end
          end
        end
      end
    end.

  (* the effect of op->backward on args_g: position i gets += inc_i, in order (the same
     node in two positions receives both increments) *)
  Fixpoint add_incs (ops : ops_t) (args : list (nat * nat)) (incs : list V) : ops_t :=
    match args, incs with
    | a :: args', inc :: incs' => add_incs (upd_ops ops a (add_inc inc)) args' incs'
    | _, _ => ops
    end.

  Fixpoint all_vals (rets : list slot) : option (list V) :=
    match rets with
    | [] => Some []
    | s :: r => match s_val s, all_vals r with Some v, Some vs => Some (v :: vs) | _, _ => None end
    end.

  Definition clear_grads (oi : @opinfo Op Sh V) : opinfo :=
    set_rets oi (map (fun s => set_grad s None) (o_rets oi)).

  (* one iteration of the loop `for (oid = node.oid_; oid >= 0; --oid)` on ops_; the boolean
     says whether op->backward was called (false = `continue`) *)
  Definition bstep (k : nat) (ops : ops_t) (e : env) : option (ops_t * env * bool) :=
    match nth_error ops k with
    | None => None
    | Some cur =>
      if negb (enabled (o_rets cur)) then Some (ops, e, false)        (* continue *)
      else
        let ops1 := set_nth ops k (set_rets cur (map mat_zero (o_rets cur))) in
        match gather_args ops1 e (o_args cur) with
        | None => None
        | Some (xs, ops2) =>
          match nth_error ops2 k with
          | None => None
          | Some cur2 =>
            let gys := map grad_or_zero (o_rets cur2) in
            let r :=
              match f_inner F (o_op cur2) with
              | Some p => match gys with
                          | gy :: _ => Some (ops2, add_pgrad e p gy)   (* param_.gradient() += *gy[0] *)
                          | [] => None
                          end
              | None => match all_vals (o_rets cur2) with
                        | Some ys => Some (add_incs ops2 (o_args cur2) (eff_bw F (o_op cur2) xs ys gys), e)
                        | None => None
                        end
              end in
            match r with
            | None => None
            | Some (ops3, e3) =>
              match nth_error ops3 k with
              | None => None
              | Some cur3 => Some (set_nth ops3 k (clear_grads cur3), e3, true)   (* grad.invalidate() *)
              end
            end
          end
        end
    end.

  (* the whole loop from k down to 0; bl = operators whose backward was called, in order *)
  Fixpoint sweep (k : nat) (ops : ops_t) (e : env) (bl : list nat) : option (ops_t * env * list nat) :=
    match bstep k ops e with
    | None => None
    | Some (ops', e', called) =>
      let bl' := if called then bl ++ [k] else bl in
      match k with O => Some (ops', e', bl') | S k' => sweep k' ops' e' bl' end
    end.

  (* Graph::backward(node).  None = abort / unreachable *)
  Definition backward (g : gstate) (e : env) (n : nat * nat) : option (gstate * env) :=
    match get_slot g n with
    | None => None
    | Some last_n =>
      let r := match s_val last_n with
               | Some _ => Some (g, e)
               | None => match forward F g e n with
                         | Some (_, g1, e1) => Some (g1, e1)
                         | None => None
                         end
               end in
      match r with
      | None => None
      | Some (g1, e1) =>
        match sweep (fst n) (upd_ops (g_ops g1) n (fun s => set_grad s (Some (vones VO (s_shape s))))) e1 (g_blog g1) with
        | None => None
        | Some (ops', e', bl') => Some ({| g_ops := ops'; g_log := g_log g1; g_blog := bl' |}, e')
        end
      end
    end.

  (* ---- the parameter store ---- *)
  Definition mem (p : nat) (ps : list nat) : bool := existsb (Nat.eqb p) ps.
  (* Optimizer::update over the registered parameters ps: value := upd p value gradient
     (any rule; SGD in the harness).  Gradients are left as they are. *)
  Definition param_update (e : env) (ps : list nat) (upd : nat -> V -> V -> V) : env :=
    {| e_pval := fun p => if mem p ps then upd p (e_pval e p) (e_pgrad e p) else e_pval e p;
       e_pgrad := e_pgrad e; e_pos := e_pos e |}.
  Fixpoint lookup (p : nat) (ps : list (nat * Sh)) : option Sh :=
    match ps with
    | [] => None
    | (q, sh) :: r => if Nat.eqb p q then Some sh else lookup p r
    end.
  (* Parameter::reset_gradient for each (parameter, shape) of ps: grad_.reset(0) *)
  Definition reset_gradients (e : env) (ps : list (nat * Sh)) : env :=
    {| e_pval := e_pval e;
       e_pgrad := fun p => match lookup p ps with Some sh => vzeros VO sh | None => e_pgrad e p end;
       e_pos := e_pos e |}.
  Definition set_pgrad (e : env) (p : nat) (v : V) : env :=
    {| e_pval := e_pval e; e_pgrad := fun q => if Nat.eqb q p then v else e_pgrad e q; e_pos := e_pos e |}.

  (* ---- histories: several graphs, one parameter store, one set of devices ---- *)
  Record world := { w_graphs : list gstate; w_env : env }.
  Inductive cmd :=
  | CNewGraph
  | CAdd (gi : nat) (o : Op) (args : list (@node))
  | CForward (gi : nat) (a : nat * nat)
  | CBackward (gi : nat) (a : nat * nat)
  | CUpdate (ps : list nat) (upd : nat -> V -> V -> V)
  | CReset (ps : list (nat * Sh))
  | CSetGrad (p : nat) (v : V)          (* the user writes Parameter::gradient() *)
  | CDraw (d : nat) (n : N).            (* a direct Device::random_* call of n units *)

  Definition put_graph (w : world) (gi : nat) (g : gstate) (e : env) : world :=
    {| w_graphs := set_nth (w_graphs w) gi g; w_env := e |}.

  Definition run_cmd (w : world) (c : cmd) : res world :=
    match c with
    | CNewGraph => Ok {| w_graphs := w_graphs w ++ [empty_graph]; w_env := w_env w |}
    | CAdd gi o args =>
      match nth_error (w_graphs w) gi with
      | None => Abort
      | Some g => match add_op F gi g o args with
                  | Ok (g', _) => Ok (put_graph w gi g' (w_env w))
                  | Error => Error
                  | Abort => Abort
                  end
      end
    | CForward gi a =>
      match nth_error (w_graphs w) gi with
      | None => Abort
      | Some g => match forward F g (w_env w) a with
                  | Some (_, g', e') => Ok (put_graph w gi g' e')
                  | None => Abort
                  end
      end
    | CBackward gi a =>
      match nth_error (w_graphs w) gi with
      | None => Abort
      | Some g => match backward g (w_env w) a with
                  | Some (g', e') => Ok (put_graph w gi g' e')
                  | None => Abort
                  end
      end
    | CUpdate ps upd => Ok {| w_graphs := w_graphs w; w_env := param_update (w_env w) ps upd |}
    | CReset ps => Ok {| w_graphs := w_graphs w; w_env := reset_gradients (w_env w) ps |}
    | CSetGrad p v => Ok {| w_graphs := w_graphs w; w_env := set_pgrad (w_env w) p v |}
    | CDraw d n => Ok {| w_graphs := w_graphs w; w_env := bump (w_env w) d n |}
    end.

  (* a rejected / aborted call leaves the world as it was (the harness never continues after
     an abort; Error is caught and the history goes on) *)
  Definition run (w : world) (c : cmd) : world :=
    match run_cmd w c with Ok w' => w' | _ => w end.
  Definition run_all (w : world) (cs : list cmd) : world := fold_left run cs w.
End Backward.
