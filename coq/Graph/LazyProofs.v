(* Proofs about Graph::add_operator and Graph::forward (C05). *)
From Coq Require Import List NArith Bool Arith Lia.
From PV Require Import Graph.OpFamily Graph.Tape Graph.Lazy Graph.TapeLemmas.
Import ListNotations.
Local Open Scope N_scope.
Local Open Scope nat_scope.

Section LazyProofs.
  Context {Op Sh V : Type}.
  Variable F : OpFamily Op Sh V.
  Notation gstate := (@gstate Op Sh V).
  Notation opinfo := (@opinfo Op Sh V).
  Notation slot := (@slot Sh V).
  Notation env := (@env V).
  Notation ops_t := (list opinfo).

  (* ---------- add_operator computes nothing ---------- *)
  Lemma add_op_spec me (g g' : gstate) o args k :
    add_op F me g o args = Ok (g', k) ->
    k = length (g_ops g) /\ g_log g' = g_log g /\ g_blog g' = g_blog g /\
    exists oi, g_ops g' = g_ops g ++ [oi] /\ o_op oi = o /\ o_args oi = map snd args /\
               Forall (fun s : slot => s_val s = None /\ s_grad s = None) (o_rets oi) /\
               exists ss rs, check_nodes me g args = Ok ss /\ f_shape F o (map s_shape ss) = Some rs /\
                             map s_shape (o_rets oi) = rs.
  Proof.
    unfold add_op. intros H.
    destruct (negb (argn_ok (f_argn F o) (length args))); [discriminate|].
    match type of H with match ?r with _ => _ end = _ => destruct r as [d| |] end; try discriminate.
    destruct (check_nodes me g args) as [ss| |] eqn:Ec; try discriminate.
    destruct (f_shape F o (map s_shape ss)) as [rs|] eqn:Es; try discriminate.
    injection H as <- <-. cbn [g_ops g_log g_blog set_ops]. repeat split; auto.
    eexists. split; [reflexivity|]. cbn [o_op o_args o_rets]. repeat split; auto.
    - apply Forall_forall. intros s Hs. apply in_map_iff in Hs. destruct Hs as (sh & <- & _). auto.
    - exists ss, rs. repeat split; auto. rewrite map_map. cbn [s_shape]. apply map_id.
  Qed.

  (* ---------- vocabulary ---------- *)
  (* what a consumer reads for argument a: the memoised value, or the LIVE parameter value *)
  Definition aread (ops : ops_t) (e : env) (a : nat * nat) : option V :=
    match nth_error ops (fst a) with
    | Some oi => match f_inner F (o_op oi) with
                 | Some p => Some (e_pval e p)
                 | None => match nth_error (o_rets oi) (snd a) with Some s => s_val s | None => None end
                 end
    | None => None
    end.
  (* units of device d's stream consumed by the operators in l *)
  Definition draw_of (ops : ops_t) (d k : nat) : N :=
    match nth_error ops k with
    | Some oi => match f_rand F (o_op oi) with
                 | Some (d', n) => if Nat.eqb d' d then n else 0%N
                 | None => 0%N
                 end
    | None => 0%N
    end.
  Fixpoint draws (ops : ops_t) (d : nat) (l : list nat) : N :=
    match l with [] => 0%N | k :: r => (draw_of ops d k + draws ops d r)%N end.
  (* operator k holds exactly the outputs of ONE call of its forward on what consumers read *)
  Definition computed (ops : ops_t) (e : env) (k : nat) : Prop :=
    exists oi pos xs, nth_error ops k = Some oi /\
      Forall2 (fun a x => aread ops e a = Some x) (o_args oi) xs /\
      map s_val (o_rets oi) = map Some (f_fw F (o_op oi) pos xs) /\
      (f_rand F (o_op oi) = None -> pos = 0%N).

  Definition mono (ops ops' : ops_t) : Prop :=
    forall a s v, get_slot_ops ops a = Some s -> s_val s = Some v ->
      exists s', get_slot_ops ops' a = Some s' /\ s_val s' = Some v.

  (* the effect of one forward() (or of a sequence of them) asked for the operators [roots] *)
  Definition frel (g : gstate) (e : env) (g' : gstate) (e' : env) (roots : list nat) : Prop :=
    sv (g_ops g') = sv (g_ops g) /\ g_blog g' = g_blog g /\
    e_pval e' = e_pval e /\ e_pgrad e' = e_pgrad e /\
    mono (g_ops g) (g_ops g') /\
    exists new, g_log g' = g_log g ++ new /\ NoDup new /\
      (forall k, In k new -> (exists r, In r roots /\ anc (g_ops g) k r) /\ inner_of F (g_ops g) k = None /\
                             unev (g_ops g) k /\ evald (g_ops g') k /\ computed (g_ops g') e k) /\
      (forall k, ~ In k new -> nth_error (g_ops g') k = nth_error (g_ops g) k) /\
      (forall d, e_pos e' d = (e_pos e d + draws (g_ops g) d new)%N).

  Lemma frel_refl g e roots : frel g e g e roots.
  Proof.
    unfold frel. split; [reflexivity|]. split; [reflexivity|]. split; [reflexivity|]. split; [reflexivity|].
    split. { intros a s v H1 H2; eauto. }
    exists []. rewrite app_nil_r. split; [reflexivity|]. split; [constructor|]. split; [intros k []|].
    split; [reflexivity|]. intro d. simpl. lia.
  Qed.

  Lemma draws_app ops d l1 l2 : draws ops d (l1 ++ l2) = (draws ops d l1 + draws ops d l2)%N.
  Proof. induction l1 as [|k l1 IH]; simpl; [lia|]. rewrite IH. lia. Qed.
  Lemma draws_sv ops ops' d l : sv ops = sv ops' -> draws ops d l = draws ops' d l.
  Proof.
    intros H. induction l as [|k l IH]; simpl; auto. rewrite IH. f_equal.
    unfold draw_of. pose proof (sv_nth ops ops' k H) as Hk.
    destruct (nth_error ops k), (nth_error ops' k); try contradiction; auto. destruct Hk as (E & _). rewrite E. reflexivity.
  Qed.

  Lemma mono_aread ops ops' e e' a x : sv ops' = sv ops -> mono ops ops' -> e_pval e' = e_pval e ->
    aread ops e a = Some x -> aread ops' e' a = Some x.
  Proof.
    intros Hsv Hm Hp. unfold aread. pose proof (sv_nth ops' ops (fst a) Hsv) as Hk.
    destruct (nth_error ops (fst a)) as [oi|] eqn:E; [|discriminate].
    destruct (nth_error ops' (fst a)) as [oi'|] eqn:E'; [|contradiction]. destruct Hk as (Eo & _). rewrite Eo.
    destruct (f_inner F (o_op oi)); [rewrite Hp; auto|].
    destruct (nth_error (o_rets oi) (snd a)) as [s|] eqn:Es; [|discriminate]. intros Hv.
    destruct (Hm a s x) as (s' & Hg & Hv'); auto. { unfold get_slot_ops. rewrite E. exact Es. }
    unfold get_slot_ops in Hg. rewrite E' in Hg. rewrite Hg. exact Hv'.
  Qed.

  Lemma computed_mono ops ops' e e' k : sv ops' = sv ops -> mono ops ops' -> e_pval e' = e_pval e ->
    (nth_error ops' k = nth_error ops k \/ evald ops k) ->
    computed ops e k -> computed ops' e' k.
  Proof.
    intros Hsv Hm Hp Hk (oi & pos & xs & E & Hx & Hv & Hr).
    assert (Hx' : Forall2 (fun a x => aread ops' e' a = Some x) (o_args oi) xs).
    { eapply Forall2_impl; [|exact Hx]. intros a x Hax. eapply mono_aread; eauto. }
    destruct Hk as [Hk|Hk].
    - exists oi, pos, xs. rewrite Hk. auto.
    - pose proof (sv_nth ops' ops k Hsv) as Hs. rewrite E in Hs.
      destruct (nth_error ops' k) as [oi'|] eqn:E'; [|contradiction]. destruct Hs as (Eo & Ea & El & Em).
      exists oi', pos, xs. rewrite Eo, Ea. repeat split; auto.
      (* all values of oi are Some, so they persist slot by slot *)
      rewrite <- Hv. apply list_ext. intro j. rewrite !nth_error_map.
      destruct (nth_error (o_rets oi') j) as [s'|] eqn:Ej; destruct (nth_error (o_rets oi) j) as [s|] eqn:Ej0; simpl; auto.
      2:{ apply nth_error_None in Ej0. apply nth_error_lt in Ej. lia. }
      2:{ apply nth_error_None in Ej. apply nth_error_lt in Ej0. lia. }
      f_equal. destruct (s_val s) as [v|] eqn:Evs.
      + destruct (Hm (k, j) s v) as (s2 & Hg & Hv2); auto. { unfold get_slot_ops; simpl. rewrite E. exact Ej0. }
        unfold get_slot_ops in Hg; simpl in Hg. rewrite E' in Hg. congruence.
      + exfalso. destruct Hk as (oi0 & E0 & _ & Hd). rewrite E in E0. injection E0 as <-.
        unfold op_done in Hd. rewrite forallb_forall in Hd. specialize (Hd s (nth_error_In _ _ Ej0)).
        unfold has_val in Hd. rewrite Evs in Hd. discriminate.
  Qed.

  Lemma frel_evald g e g' e' roots k : frel g e g' e' roots -> evald (g_ops g) k -> evald (g_ops g') k.
  Proof.
    intros (Hsv & _ & _ & _ & Hm & new & _ & _ & Hin & Hout & _) Hev.
    destruct (in_dec Nat.eq_dec k new) as [Hk|Hk]; [apply Hin; auto|].
    destruct Hev as (oi & E & Hn & Hd). exists oi. rewrite Hout; auto.
  Qed.

  Lemma frel_trans g e g1 e1 g2 e2 R1 R2 R :
    frel g e g1 e1 R1 -> frel g1 e1 g2 e2 R2 ->
    (forall r, In r R1 -> exists r', In r' R /\ anc (g_ops g) r r') ->
    (forall r, In r R2 -> exists r', In r' R /\ anc (g_ops g) r r') ->
    frel g e g2 e2 R.
  Proof.
    intros H1 H2 C1 C2. pose proof (fun k => frel_evald g1 e1 g2 e2 R2 k H2) as Hev2.
    destruct H1 as (Hsv1 & Hb1 & Hp1 & Hg1 & Hm1 & new1 & L1 & N1 & I1 & O1 & D1).
    pose proof H2 as H2'.
    destruct H2 as (Hsv2 & Hb2 & Hp2 & Hg2 & Hm2 & new2 & L2 & N2 & I2 & O2 & D2).
    assert (Hdisj : forall x, In x new1 -> ~ In x new2).
    { intros x Hx1 Hx2. destruct (I1 x Hx1) as (_ & _ & _ & Hev & _). destruct (I2 x Hx2) as (_ & _ & Hun & _).
      eapply evald_unev; eauto. }
    split; [congruence|]. split; [congruence|]. split; [congruence|]. split; [congruence|]. split.
    { intros a s v Hs Hv. destruct (Hm1 a s v Hs Hv) as (s1 & Hs1 & Hv1). eauto. }
    exists (new1 ++ new2). split; [rewrite L2, L1, app_assoc; reflexivity|]. split; [apply nodup_app; auto|]. split; [|split].
    - intros k Hk. apply in_app_or in Hk. destruct Hk as [Hk|Hk].
      + destruct (I1 k Hk) as ((r & Hr & Ha) & Hi & Hu & Hev & Hc). split; [|split; [exact Hi|split; [exact Hu|split]]].
        * destruct (C1 r Hr) as (r' & Hr' & Ha'). exists r'. split; auto. eapply anc_trans; eauto.
        * apply Hev2; auto.
        * apply (computed_mono (g_ops g1) (g_ops g2) e e); auto.
      + destruct (I2 k Hk) as ((r & Hr & Ha) & Hi & Hu & Hev & Hc).
        assert (Hk1 : ~ In k new1) by (intro Hx; exact (Hdisj k Hx Hk)).
        split; [|split; [|split; [|split]]].
        * destruct (C2 r Hr) as (r' & Hr' & Ha'). exists r'. split; auto. eapply anc_trans; eauto. eapply sv_anc; eauto.
        * rewrite <- Hi. symmetry. apply sv_inner. exact Hsv1.
        * destruct Hu as (oi & E & Hn & Hu). exists oi. rewrite <- O1; auto.
        * exact Hev.
        * destruct Hc as (oi & pos & xs & E & Hx & Hv & Hr0). exists oi, pos, xs. repeat split; auto.
          eapply Forall2_impl; [|exact Hx]. intros a x. unfold aread. rewrite Hp1. auto.
    - intros k Hk. rewrite O2, O1; auto; intro; apply Hk, in_or_app; auto.
    - intro d. rewrite D2, D1, draws_app. rewrite (draws_sv (g_ops g1) (g_ops g) d new2 Hsv1). lia.
  Qed.

  (* ---------- the invariant of every reachable graph ---------- *)
  (* contract of the operator family: forward assigns all its outputs *)
  Hypothesis Hfw_len : forall o pos xs, length (f_fw F o pos xs) = f_retn F o.

  Definition ginv (ops : ops_t) : Prop :=
    wf_ops ops /\
    (forall k oi, nth_error ops k = Some oi -> length (o_rets oi) = f_retn F (o_op oi)) /\
    (forall k oi, nth_error ops k = Some oi ->
       (op_done oi = true \/ op_none oi = true) /\ (f_inner F (o_op oi) <> None -> op_none oi = true)) /\
    (forall k oi, nth_error ops k = Some oi -> o_rets oi <> [] -> op_done oi = true ->
       forall a, In a (o_args oi) -> inner_of F ops (fst a) = None -> evald ops (fst a)) /\
    (forall k oi, nth_error ops k = Some oi -> f_inner F (o_op oi) <> None -> o_args oi = []).

  Lemma store_vals_full (rets : list slot) outs : length outs = length rets ->
    map s_val (store_vals rets outs) = map Some outs /\
    map (fun s => set_val s None) (store_vals rets outs) = map (fun s => set_val s None) rets /\
    length (store_vals rets outs) = length rets.
  Proof.
    revert outs; induction rets as [|s r IH]; intros [|v outs] H; simpl in *; try lia; auto.
    destruct (IH outs) as (A & B & C); [lia|]. rewrite A, B, C. auto.
  Qed.

  Lemma op_none_val (oi : opinfo) j s : op_none oi = true -> nth_error (o_rets oi) j = Some s -> s_val s = None.
  Proof.
    unfold op_none. rewrite forallb_forall. intros H Hj. specialize (H s (nth_error_In _ _ Hj)).
    unfold has_val in H. destruct (s_val s); [discriminate|reflexivity].
  Qed.
  Lemma op_done_val (oi : opinfo) j s : op_done oi = true -> nth_error (o_rets oi) j = Some s -> s_val s <> None.
  Proof.
    unfold op_done. rewrite forallb_forall. intros H Hj. specialize (H s (nth_error_In _ _ Hj)).
    unfold has_val in H. destruct (s_val s); [discriminate|discriminate].
  Qed.

  (* evaluating one unevaluated operator whose arguments are readable *)
  Lemma eval_step (ops1 : ops_t) (e1 : env) i cur1 vs pos :
    ginv ops1 -> nth_error ops1 i = Some cur1 -> f_inner F (o_op cur1) = None ->
    op_none cur1 = true -> o_rets cur1 <> [] ->
    Forall2 (fun a x => aread ops1 e1 a = Some x) (o_args cur1) vs ->
    (forall a, In a (o_args cur1) -> inner_of F ops1 (fst a) = None -> evald ops1 (fst a)) ->
    (f_rand F (o_op cur1) = None -> pos = 0%N) ->
    let ops2 := set_nth ops1 i (set_rets cur1 (store_vals (o_rets cur1) (f_fw F (o_op cur1) pos vs))) in
    sv ops2 = sv ops1 /\ mono ops1 ops2 /\ ginv ops2 /\ evald ops2 i /\ computed ops2 e1 i /\
    (forall k, k <> i -> nth_error ops2 k = nth_error ops1 k) /\
    (forall j v, nth_error (f_fw F (o_op cur1) pos vs) j = Some v -> aread ops2 e1 (i, j) = Some v).
  Proof.
    intros (Hwf & Hlen & Hdich & Hclosed & Hinarg) Ei Hin Hnone Hne Hxs Hargs Hpos ops2.
    set (outs := f_fw F (o_op cur1) pos vs) in *.
    assert (Hlo : length outs = length (o_rets cur1)) by (unfold outs; rewrite Hfw_len; symmetry; eauto).
    destruct (store_vals_full (o_rets cur1) outs Hlo) as (SV & SS & SL).
    assert (Hi : i < length ops1) by (eapply nth_error_lt; eauto).
    assert (E2 : nth_error ops2 i = Some (set_rets cur1 (store_vals (o_rets cur1) outs))) by (apply nth_error_set_nth_eq; auto).
    assert (Hoth : forall k, k <> i -> nth_error ops2 k = nth_error ops1 k) by (intros k Hk; apply nth_error_set_nth_neq; auto).
    assert (Hsv : sv ops2 = sv ops1).
    { unfold sv, ops2. rewrite map_set_nth. apply set_nth_same. rewrite nth_error_map, Ei. simpl. f_equal.
      unfold strip_vals. cbn [o_rets set_rets o_op o_args]. rewrite SS. reflexivity. }
    assert (Hmono : mono ops1 ops2).
    { intros a s v Hs Hv. unfold get_slot_ops in *. destruct (Nat.eq_dec (fst a) i) as [Ea|Na].
      - rewrite Ea, Ei in Hs. rewrite (op_none_val cur1 (snd a) s Hnone Hs) in Hv. discriminate.
      - rewrite Hoth by auto. eauto. }
    assert (Hdone2 : op_done (set_rets cur1 (store_vals (o_rets cur1) outs)) = true).
    { unfold op_done. cbn [o_rets set_rets]. apply forallb_forall. intros s Hs.
      apply (in_map s_val) in Hs. rewrite SV in Hs. apply in_map_iff in Hs. destruct Hs as (v & Hv & _).
      unfold has_val. rewrite <- Hv. reflexivity. }
    assert (Hev2 : evald ops2 i).
    { eexists. split; [exact E2|]. split; [|exact Hdone2]. cbn [o_rets set_rets]. intro Hnil.
      apply (f_equal (@length _)) in Hnil. rewrite SL in Hnil. destruct (o_rets cur1); [congruence|discriminate]. }
    assert (Hargs_lt : forall a, In a (o_args cur1) -> fst a <> i).
    { intros a Ha. pose proof (Hwf i cur1 Ei) as Hf. rewrite Forall_forall in Hf. destruct (Hf a Ha). lia. }
    assert (Hev_mono : forall k, evald ops1 k -> evald ops2 k).
    { intros k (oi & E & Hn & Hd). destruct (Nat.eq_dec k i) as [->|Hk]; [exact Hev2|]. exists oi. rewrite Hoth; auto. }
    split; [exact Hsv|]. split; [exact Hmono|]. split; [|split; [exact Hev2|split; [|split; [exact Hoth|]]]].
    - split; [eapply sv_wf; [symmetry; exact Hsv|exact Hwf]|]. split; [|split; [|split]].
      4:{ intros k oi E Hi'. destruct (Nat.eq_dec k i) as [->|Hk].
          - rewrite E2 in E. injection E as <-. cbn [o_op set_rets] in Hi'. congruence.
          - rewrite Hoth in E by auto. eauto. }
      + intros k oi E. destruct (Nat.eq_dec k i) as [->|Hk].
        * rewrite E2 in E. injection E as <-. cbn [o_rets set_rets o_op]. rewrite SL. eauto.
        * rewrite Hoth in E by auto. eauto.
      + intros k oi E. destruct (Nat.eq_dec k i) as [->|Hk].
        * rewrite E2 in E. injection E as <-. split; [left; exact Hdone2|]. cbn [o_op set_rets]. congruence.
        * rewrite Hoth in E by auto. eauto.
      + intros k oi E Hn Hd a Ha Hia. rewrite (sv_inner F _ _ Hsv) in Hia.
        destruct (Nat.eq_dec k i) as [->|Hk].
        * rewrite E2 in E. injection E as <-. cbn [o_args set_rets] in Ha. apply Hev_mono. apply Hargs; auto.
        * rewrite Hoth in E by auto. apply Hev_mono. eapply Hclosed; eauto.
    - exists (set_rets cur1 (store_vals (o_rets cur1) outs)), pos, vs. split; [exact E2|]. cbn [o_args o_rets o_op set_rets].
      split; [|split; [exact SV|exact Hpos]].
      assert (Hin2 : forall a, In a (o_args cur1) -> aread ops2 e1 a = aread ops1 e1 a).
      { intros a Ha. unfold aread. rewrite Hoth by (apply Hargs_lt; auto). reflexivity. }
      eapply Forall2_impl_In; [|exact Hxs]. intros a x Ha Hax. cbv beta. rewrite Hin2; auto.
    - intros j v Hj. unfold aread. cbn [fst snd]. rewrite E2. cbn [o_op o_rets set_rets]. rewrite Hin.
      assert (Hm : nth_error (map s_val (store_vals (o_rets cur1) outs)) j = Some (Some v)) by (rewrite SV, nth_error_map; fold outs in Hj; rewrite Hj; reflexivity).
      rewrite nth_error_map in Hm. destruct (nth_error (store_vals (o_rets cur1) outs) j); simpl in Hm; congruence.
  Qed.

  Definition go_args (fu : nat) :=
    fix go (l : list (nat * nat)) (g : gstate) (e : env) : option (list V * gstate * env) :=
      match l with
      | [] => Some ([], g, e)
      | x :: l' => match fwd F fu g e x with
                   | None => None
                   | Some (v, g1, e1) => match go l' g1 e1 with
                                         | None => None
                                         | Some (vs, g2, e2) => Some (v :: vs, g2, e2)
                                         end
                   end
      end.

  Lemma aread_pval ops (e e' : env) a : e_pval e = e_pval e' -> aread ops e a = aread ops e' a.
  Proof. intros H. unfold aread. rewrite H. reflexivity. Qed.

  (* post-condition of forward requests for the nodes [roots], returning [vs] *)
  Definition fpost (g : gstate) (e : env) (g' : gstate) (e' : env) (roots : list (nat * nat)) (vs : list V) : Prop :=
    frel g e g' e' (map fst roots) /\ ginv (g_ops g') /\
    Forall2 (fun a x => aread (g_ops g') e a = Some x) roots vs /\
    (forall a, In a roots -> inner_of F (g_ops g) (fst a) = None -> evald (g_ops g') (fst a)).

  Lemma fpost_cons g e g1 e1 g2 e2 x v l vs :
    fpost g e g1 e1 [x] [v] -> fpost g1 e1 g2 e2 l vs -> fpost g e g2 e2 (x :: l) (v :: vs).
  Proof.
    intros (R1 & I1 & A1 & E1) (R2 & I2 & A2 & E2).
    assert (Hp1 : e_pval e1 = e_pval e) by (destruct R1 as (_ & _ & Hp & _); exact Hp).
    assert (Hsv1 : sv (g_ops g1) = sv (g_ops g)) by (destruct R1 as (Hs & _); exact Hs).
    split; [|split; [exact I2|split]].
    - eapply frel_trans; [exact R1|exact R2| |]; simpl; intros r Hr; exists r; split; auto using anc_refl.
      destruct Hr as [Hr|[]]; auto.
    - constructor.
      + inversion A1 as [|? ? ? ? Hx _]; subst. destruct R2 as (Hs2 & _ & _ & _ & Hm2 & _).
        eapply mono_aread; eauto.
      + eapply Forall2_impl; [|exact A2]. intros a y. cbv beta. rewrite (aread_pval _ e1 e); auto.
    - intros a [<-|Ha] Hi.
      + eapply frel_evald; [exact R2|]. apply E1; [left; reflexivity|exact Hi].
      + apply E2; auto. rewrite (sv_inner F _ _ Hsv1). exact Hi.
  Qed.

  Lemma fwd_spec fuel : forall g e a v g' e', ginv (g_ops g) ->
    fwd F fuel g e a = Some (v, g', e') -> fpost g e g' e' [a] [v].
  Proof.
    induction fuel as [|fu IH]; intros g e a v g' e' Hinv H; [discriminate|].
    cbn [fwd] in H. fold (go_args fu) in H.
    destruct (nth_error (g_ops g) (fst a)) as [cur|] eqn:Ecur; [|discriminate].
    destruct (f_inner F (o_op cur)) as [p|] eqn:Ein.
    { injection H as <- <- <-. split; [apply frel_refl|]. split; [exact Hinv|]. split.
      - constructor; [|constructor]. unfold aread. rewrite Ecur, Ein. reflexivity.
      - intros a0 [<-|[]] Hi. unfold inner_of in Hi. rewrite Ecur, Ein in Hi. discriminate. }
    destruct (nth_error (o_rets cur) (snd a)) as [cur_n|] eqn:Eslot; [|discriminate].
    assert (Hne : o_rets cur <> []) by (intro Hnil; rewrite Hnil in Eslot; destruct (snd a); discriminate).
    destruct (s_val cur_n) as [v0|] eqn:Eval.
    { injection H as <- <- <-. split; [apply frel_refl|]. split; [exact Hinv|]. split.
      - constructor; [|constructor]. unfold aread. rewrite Ecur, Ein, Eslot. exact Eval.
      - intros a0 [<-|[]] _. exists cur. split; [exact Ecur|]. split; [exact Hne|].
        destruct Hinv as (_ & _ & Hd & _ & _). destruct (Hd _ _ Ecur) as ([Hdone|Hnone] & _); [exact Hdone|].
        rewrite (op_none_val cur _ _ Hnone Eslot) in Eval. discriminate. }
    assert (Hgo : forall l g0 e0 vs g2 e2, ginv (g_ops g0) -> go_args fu l g0 e0 = Some (vs, g2, e2) -> fpost g0 e0 g2 e2 l vs).
    { induction l as [|x l IHl]; intros g0 e0 vs g2 e2 Hi0 Hg; simpl in Hg.
      - injection Hg as <- <- <-. split; [apply frel_refl|]. split; [exact Hi0|]. split; [constructor|intros a0 []].
      - destruct (fwd F fu g0 e0 x) as [[[vx g1] e1]|] eqn:Ex; [|discriminate].
        destruct (go_args fu l g1 e1) as [[[vs' g2'] e2']|] eqn:Er; [|discriminate].
        injection Hg as <- <- <-. pose proof (IH _ _ _ _ _ _ Hi0 Ex) as P1.
        eapply fpost_cons; [exact P1|]. apply IHl; [|exact Er]. destruct P1 as (_ & I1 & _); exact I1. }
    destruct (go_args fu (o_args cur) g e) as [[[vs g1] e1]|] eqn:Eg; [|discriminate].
    destruct (Hgo _ _ _ _ _ _ Hinv Eg) as (R1 & I1 & A1 & E1). clear Hgo IH.
    set (i := fst a) in *.
    pose proof R1 as (Hsv1 & Hb1 & Hp1 & Hg1 & Hm1 & new1 & L1 & N1 & In1 & O1 & D1).
    assert (Hwf : wf_ops (g_ops g)) by (destruct Hinv as (Hw & _); exact Hw).
    assert (Hi_notin : ~ In i new1).
    { intro Hin. destruct (In1 i Hin) as ((r & Hr & Hanc) & _). apply in_map_iff in Hr. destruct Hr as (x & <- & Hx).
      pose proof (anc_le (g_ops g) Hwf _ _ Hanc). pose proof (Hwf i cur Ecur) as Hf. rewrite Forall_forall in Hf.
      destruct (Hf x Hx). lia. }
    assert (Ecur1 : nth_error (g_ops g1) i = Some cur) by (rewrite O1; auto).
    rewrite Ecur1 in H.
    assert (Hnone : op_none cur = true).
    { destruct Hinv as (_ & _ & Hd & _ & _). destruct (Hd _ _ Ecur) as ([Hdone|Hnone] & _); [|exact Hnone].
      exfalso. exact (op_done_val cur _ _ Hdone Eslot Eval). }
    set (pos := match f_rand F (o_op cur) with Some (d, _) => e_pos e1 d | None => 0%N end).
    set (e2 := match f_rand F (o_op cur) with Some (d, n) => bump e1 d n | None => e1 end).
    assert (Hpair : (let '(outs, e2) := match f_rand F (o_op cur) with
                                        | Some (d, n) => (f_fw F (o_op cur) (e_pos e1 d) vs, bump e1 d n)
                                        | None => (f_fw F (o_op cur) 0%N vs, e1) end in
                     match nth_error outs (snd a) with
                     | Some v => Some (v, {| g_ops := set_nth (g_ops g1) i (set_rets cur (store_vals (o_rets cur) outs));
                                            g_log := g_log g1 ++ [i]; g_blog := g_blog g1 |}, e2)
                     | None => None end) =
                    match nth_error (f_fw F (o_op cur) pos vs) (snd a) with
                    | Some v => Some (v, {| g_ops := set_nth (g_ops g1) i (set_rets cur (store_vals (o_rets cur) (f_fw F (o_op cur) pos vs)));
                                           g_log := g_log g1 ++ [i]; g_blog := g_blog g1 |}, e2)
                    | None => None end).
    { unfold pos, e2. destruct (f_rand F (o_op cur)) as [[d n]|]; reflexivity. }
    rewrite Hpair in H. clear Hpair.
    destruct (nth_error (f_fw F (o_op cur) pos vs) (snd a)) as [v1|] eqn:Ev1; [|discriminate].
    injection H as <- <- <-.
    assert (A1' : Forall2 (fun a x => aread (g_ops g1) e1 a = Some x) (o_args cur) vs).
    { eapply Forall2_impl; [|exact A1]. intros b y. cbv beta. rewrite (aread_pval _ e1 e); auto. }
    assert (E1' : forall b, In b (o_args cur) -> inner_of F (g_ops g1) (fst b) = None -> evald (g_ops g1) (fst b)).
    { intros b Hb Hib. apply E1; auto. rewrite <- (sv_inner F _ _ Hsv1). exact Hib. }
    assert (Hpos : f_rand F (o_op cur) = None -> pos = 0%N) by (intro Hr; unfold pos; rewrite Hr; reflexivity).
    destruct (eval_step (g_ops g1) e1 i cur vs pos I1 Ecur1 Ein Hnone Hne A1' E1' Hpos) as (S2 & M2 & I2 & Ev2 & C2 & O2 & Rd2).
    set (ops2 := set_nth (g_ops g1) i (set_rets cur (store_vals (o_rets cur) (f_fw F (o_op cur) pos vs)))) in *.
    set (g2 := {| g_ops := ops2; g_log := g_log g1 ++ [i]; g_blog := g_blog g1 |}).
    assert (R2 : frel g1 e1 g2 e2 [i]).
    { unfold frel. cbn [g_ops g_log g_blog g2]. split; [exact S2|]. split; [reflexivity|].
      split; [unfold e2; destruct (f_rand F (o_op cur)) as [[d n]|]; reflexivity|].
      split; [unfold e2; destruct (f_rand F (o_op cur)) as [[d n]|]; reflexivity|].
      split; [exact M2|]. exists [i]. split; [reflexivity|]. split; [repeat constructor; simpl; tauto|]. split; [|split].
      - intros k [<-|[]]. split; [exists i; split; [left; reflexivity|apply anc_refl]|].
        split; [unfold inner_of; rewrite Ecur1; exact Ein|]. split; [exists cur; auto|]. split; [exact Ev2|exact C2].
      - intros k Hk. apply O2. intro; subst; apply Hk; left; reflexivity.
      - intro d'. simpl. unfold draw_of. rewrite Ecur1. unfold e2.
        destruct (f_rand F (o_op cur)) as [[d n]|]; cbn [bump e_pos]; [|lia].
        rewrite (Nat.eqb_sym d d'). destruct (Nat.eqb_spec d' d) as [->|Hd]; lia. }
    split; [|split; [exact I2|split]].
    - eapply frel_trans; [exact R1|exact R2| |]; simpl.
      + intros r Hr. exists i. split; [left; reflexivity|]. apply in_map_iff in Hr. destruct Hr as (x & <- & Hx).
        eapply anc_step; [|apply anc_refl]. unfold args_of. rewrite Ecur. exact Hx.
      + intros r [<-|[]]. exists i. split; [left; reflexivity|apply anc_refl].
    - constructor; [|constructor]. rewrite (aread_pval _ e e1) by auto. replace a with (i, snd a) by (unfold i; destruct a; reflexivity).
      apply Rd2. exact Ev1.
    - intros a0 [<-|[]] _. exact Ev2.
  Qed.

  (* every non-parameter ancestor of an evaluated operator is evaluated *)
  Lemma closed_anc (ops : ops_t) k : ginv ops -> evald ops k -> forall j, anc ops j k -> inner_of F ops j = None -> evald ops j.
  Proof.
    intros Hinv Hev j Ha. revert Hev. induction Ha as [k|j a k Hin Ha IH]; intros Hev Hj; auto.
    destruct Hinv as (Hwf & Hlen & Hd & Hcl & Hia). destruct Hev as (oi & E & Hn & Hdone).
    unfold args_of in Hin. rewrite E in Hin.
    destruct (inner_of F ops (fst a)) as [p|] eqn:Ei.
    - (* a parameter operator has no arguments: j is that operator itself *)
      inversion Ha as [|? b ? Hb _]; subst; [congruence|]. exfalso.
      unfold inner_of in Ei. unfold args_of in Hb. destruct (nth_error ops (fst a)) as [oa|] eqn:Ea; [|contradiction].
      rewrite (Hia _ _ Ea) in Hb by congruence. contradiction.
    - apply IH; auto. eapply Hcl; eauto.
  Qed.

  Lemma sv_slot (ops ops' : ops_t) a : sv ops = sv ops' -> get_slot_ops ops a <> None -> get_slot_ops ops' a <> None.
  Proof.
    intros H. unfold get_slot_ops. pose proof (sv_nth ops ops' (fst a) H) as Hk.
    destruct (nth_error ops (fst a)) as [oi|], (nth_error ops' (fst a)) as [oi'|]; try contradiction; auto.
    destruct Hk as (_ & _ & El & _). intros Hs Hn. apply nth_error_None in Hn. apply Hs. apply nth_error_None. lia.
  Qed.

  Lemma go_spec fu : forall l g0 e0 vs g2 e2, ginv (g_ops g0) ->
    go_args fu l g0 e0 = Some (vs, g2, e2) -> fpost g0 e0 g2 e2 l vs.
  Proof.
    induction l as [|x l IHl]; intros g0 e0 vs g2 e2 Hi0 Hg; simpl in Hg.
    - injection Hg as <- <- <-. split; [apply frel_refl|]. split; [exact Hi0|]. split; [constructor|intros a0 []].
    - destruct (fwd F fu g0 e0 x) as [[[vx g1] e1]|] eqn:Ex; [|discriminate].
      destruct (go_args fu l g1 e1) as [[[vs' g2'] e2']|] eqn:Er; [|discriminate].
      injection Hg as <- <- <-. pose proof (fwd_spec _ _ _ _ _ _ _ Hi0 Ex) as P1.
      eapply fpost_cons; [exact P1|]. apply IHl; [|exact Er]. destruct P1 as (_ & I1 & _); exact I1.
  Qed.

  (* fuel = oid + 1 is never exhausted *)
  Lemma fwd_fuel_enough fuel : forall g e a, ginv (g_ops g) -> get_slot_ops (g_ops g) a <> None ->
    fst a < fuel -> fwd F fuel g e a <> None.
  Proof.
    induction fuel as [|fu IH]; intros g e a Hinv Hslot Hlt; [lia|].
    cbn [fwd]. fold (go_args fu). unfold get_slot_ops in Hslot.
    destruct (nth_error (g_ops g) (fst a)) as [cur|] eqn:Ecur; [|congruence].
    destruct (f_inner F (o_op cur)) as [p|] eqn:Ein; [discriminate|].
    destruct (nth_error (o_rets cur) (snd a)) as [cur_n|] eqn:Eslot; [|congruence].
    destruct (s_val cur_n); [discriminate|].
    assert (Hgo : forall l g0 e0, ginv (g_ops g0) ->
              Forall (fun x => fst x < fu /\ get_slot_ops (g_ops g0) x <> None) l -> go_args fu l g0 e0 <> None).
    { induction l as [|x l IHl]; intros g0 e0 Hi0 Hl; simpl; [discriminate|].
      inversion Hl as [|? ? (Hx1 & Hx2) Hl']; subst.
      destruct (fwd F fu g0 e0 x) as [[[vx g1] e1]|] eqn:Ex; [|exfalso; exact (IH _ _ _ Hi0 Hx2 Hx1 Ex)].
      destruct (fwd_spec _ _ _ _ _ _ _ Hi0 Ex) as ((Hs & _) & I1 & _).
      destruct (go_args fu l g1 e1) as [[[vs g2] e2]|] eqn:Er; [discriminate|].
      exfalso. apply (IHl g1 e1 I1); [|exact Er]. eapply Forall_impl; [|exact Hl']. cbv beta. intros y (Hy1 & Hy2).
      split; auto. eapply sv_slot; [symmetry; exact Hs|exact Hy2]. }
    destruct (go_args fu (o_args cur) g e) as [[[vs g1] e1]|] eqn:Eg.
    2:{ exfalso. apply (Hgo (o_args cur) g e Hinv); [|exact Eg]. destruct Hinv as (Hwf & _).
        eapply Forall_impl; [|exact (Hwf _ _ Ecur)]. cbv beta. intros x (Hx & oa & Eoa & Hv). split; [lia|].
        unfold get_slot_ops. rewrite Eoa. intro Hn. apply nth_error_None in Hn. lia. }
    pose proof (go_spec _ _ _ _ _ _ _ Hinv Eg) as Hgo'.
    destruct Hgo' as ((Hs1 & _) & I1 & _).
    pose proof (sv_nth (g_ops g1) (g_ops g) (fst a) Hs1) as Hk. rewrite Ecur in Hk.
    destruct (nth_error (g_ops g1) (fst a)) as [cur1|] eqn:Ecur1; [|contradiction]. destruct Hk as (Eo & _ & El & _).
    assert (Hlen : forall pos, length (f_fw F (o_op cur) pos vs) = length (o_rets cur)).
    { intro pos. rewrite Hfw_len. destruct Hinv as (_ & Hl & _). symmetry. eauto. }
    destruct (f_rand F (o_op cur)) as [[d n]|].
    - destruct (nth_error (f_fw F (o_op cur) (e_pos e1 d) vs) (snd a)) eqn:En; [discriminate|].
      apply nth_error_None in En. rewrite Hlen in En. apply nth_error_lt in Eslot. lia.
    - destruct (nth_error (f_fw F (o_op cur) 0%N vs) (snd a)) eqn:En; [discriminate|].
      apply nth_error_None in En. rewrite Hlen in En. apply nth_error_lt in Eslot. lia.
  Qed.

  (* ---------- Graph::forward(node): evaluates exactly the unevaluated non-parameter ancestors ---------- *)
  Definition fexact (g : gstate) (e : env) (a : nat * nat) (v : V) (g' : gstate) (e' : env) : Prop :=
    sv (g_ops g') = sv (g_ops g) /\ g_blog g' = g_blog g /\ e_pval e' = e_pval e /\ e_pgrad e' = e_pgrad e /\
    mono (g_ops g) (g_ops g') /\ ginv (g_ops g') /\ aread (g_ops g') e a = Some v /\
    exists new, g_log g' = g_log g ++ new /\ NoDup new /\
      (forall k, In k new <-> anc (g_ops g) k (fst a) /\ inner_of F (g_ops g) k = None /\ unev (g_ops g) k) /\
      (forall k, In k new -> computed (g_ops g') e k) /\
      (forall k, anc (g_ops g) k (fst a) -> inner_of F (g_ops g) k = None -> evald (g_ops g') k) /\
      (forall k, ~ In k new -> nth_error (g_ops g') k = nth_error (g_ops g) k) /\
      (forall d, e_pos e' d = (e_pos e d + draws (g_ops g) d new)%N).

  Theorem forward_exact g e a : ginv (g_ops g) -> get_slot g a <> None ->
    exists v g' e', forward F g e a = Some (v, g', e') /\ fexact g e a v g' e'.
  Proof.
    intros Hinv Hslot. unfold forward. unfold get_slot in *.
    destruct (get_slot_ops (g_ops g) a) as [s0|] eqn:Es0; [|congruence].
    destruct (fwd F (S (fst a)) g e a) as [[[v g'] e']|] eqn:Ef.
    2:{ exfalso. eapply fwd_fuel_enough; [exact Hinv| |apply Nat.lt_succ_diag_r|exact Ef]. rewrite Es0. discriminate. }
    exists v, g', e'. split; [reflexivity|].
    destruct (fwd_spec _ _ _ _ _ _ _ Hinv Ef) as (R & I' & A & Ev).
    pose proof R as (Hsv & Hb & Hp & Hg & Hm & new & L & N & In1 & O1 & D1).
    split; [exact Hsv|]. split; [exact Hb|]. split; [exact Hp|]. split; [exact Hg|]. split; [exact Hm|]. split; [exact I'|].
    split; [inversion A; subst; assumption|].
    assert (Hcomplete : forall k, anc (g_ops g) k (fst a) -> inner_of F (g_ops g) k = None -> evald (g_ops g') k).
    { intros k Ha Hk. destruct (inner_of F (g_ops g) (fst a)) as [p|] eqn:Eroot.
      - (* the root is a parameter operator: it has no arguments, so k is the root *)
        exfalso. inversion Ha as [|? b ? Hbb _]; subst; [congruence|].
        unfold inner_of in Eroot. unfold args_of in Hbb. destruct (nth_error (g_ops g) (fst a)) as [oa|] eqn:Ea; [|contradiction].
        destruct Hinv as (_ & _ & _ & _ & Hia). rewrite (Hia _ _ Ea) in Hbb by congruence. contradiction.
      - apply (closed_anc (g_ops g') (fst a) I').
        + apply Ev; [left; reflexivity|exact Eroot].
        + eapply sv_anc; [symmetry; exact Hsv|exact Ha].
        + rewrite (sv_inner F _ _ Hsv). exact Hk. }
    exists new. split; [exact L|]. split; [exact N|]. split; [|split; [|split; [exact Hcomplete|split; [exact O1|exact D1]]]].
    - intro k. split.
      + intro Hk. destruct (In1 k Hk) as ((r & [<-|[]] & Ha) & Hi & Hu & _). auto.
      + intros (Ha & Hi & Hu). destruct (in_dec Nat.eq_dec k new) as [Hin|Hnin]; [exact Hin|]. exfalso.
        pose proof (Hcomplete k Ha Hi) as Hev. destruct Hu as (oi & E & Hn & Hnone).
        eapply evald_unev; [exact Hev|]. exists oi. rewrite O1; auto.
    - intros k Hk. apply In1. exact Hk.
  Qed.

  (* ---------- ginv holds initially and is preserved by add_operator ---------- *)
  Hypothesis Hsh_len : forall o shs rs, f_shape F o shs = Some rs -> length rs = f_retn F o.
  Hypothesis Hinner_argn : forall o p, f_inner F o = Some p -> f_argn F o = ArgExact 0.

  Lemma ginv_empty : ginv [].
  Proof.
    split; [|split; [|split; [|split]]]; intros k oi E; destruct k; discriminate.
  Qed.

  Lemma check_nodes_spec me (g : gstate) args ss : check_nodes me g args = Ok ss ->
    Forall2 (fun n s => fst n = me /\ get_slot g (snd n) = Some s) args ss.
  Proof.
    revert ss; induction args as [|n args IH]; intros ss H; simpl in H.
    - injection H as <-. constructor.
    - unfold check_node in H. destruct (Nat.eqb_spec (fst n) me) as [E|N]; simpl in H; [|discriminate].
      destruct (get_slot g (snd n)) as [s|] eqn:Es; [|discriminate].
      destruct (check_nodes me g args) as [ss'| |]; try discriminate. injection H as <-. constructor; auto.
  Qed.

  Lemma ginv_add me g o args g' k : ginv (g_ops g) -> add_op F me g o args = Ok (g', k) -> ginv (g_ops g').
  Proof.
    intros (Hwf & Hlen & Hd & Hcl & Hia) H.
    assert (Hargn : argn_ok (f_argn F o) (length args) = true).
    { unfold add_op in H. destruct (argn_ok (f_argn F o) (length args)); [reflexivity|discriminate]. }
    destruct (add_op_spec _ _ _ _ _ _ H) as (_ & _ & _ & oi & Eops & Eo & Ea & Hnew & ss & rs & Hc & Hs & Hm).
    rewrite Eops. pose proof (check_nodes_spec _ _ _ _ Hc) as Hc2.
    assert (Hold : forall j oj, nth_error (g_ops g) j = Some oj -> nth_error (g_ops g ++ [oi]) j = Some oj).
    { intros j oj E. rewrite nth_error_app1; [exact E|eapply nth_error_lt; eauto]. }
    assert (Hcase : forall j oj, nth_error (g_ops g ++ [oi]) j = Some oj ->
              (nth_error (g_ops g) j = Some oj) \/ (j = length (g_ops g) /\ oj = oi)).
    { intros j oj E. destruct (Nat.lt_ge_cases j (length (g_ops g))) as [Hlt|Hge].
      - rewrite nth_error_app1 in E by auto. auto.
      - rewrite nth_error_app2 in E by auto. destruct (j - length (g_ops g)) as [|m] eqn:Em; simpl in E.
        + injection E as <-. right. split; [lia|reflexivity].
        + destruct m; discriminate. }
    assert (Hnone_new : op_none oi = true).
    { unfold op_none. apply forallb_forall. intros s Hs0. rewrite Forall_forall in Hnew. destruct (Hnew s Hs0) as (Hv & _).
      unfold has_val. rewrite Hv. reflexivity. }
    assert (Hev_old : forall j, evald (g_ops g) j -> evald (g_ops g ++ [oi]) j).
    { intros j (oj & E & Hn & Hdn). exists oj. auto. }
    split; [|split; [|split; [|split]]].
    - intros j oj E. destruct (Hcase j oj E) as [E0|(-> & ->)].
      + eapply Forall_impl; [|exact (Hwf j oj E0)]. cbv beta. intros a (Hlt & oa & Eoa & Hv). split; auto. exists oa. auto.
      + rewrite Ea. apply Forall_forall. intros a Hin. apply in_map_iff in Hin. destruct Hin as (n & <- & Hn).
        destruct (Forall2_in_l _ _ _ Hc2 n Hn) as (s & _ & _ & Hg).
        unfold get_slot, get_slot_ops in Hg. destruct (nth_error (g_ops g) (fst (snd n))) as [oa|] eqn:Eoa; [|discriminate].
        split; [eapply nth_error_lt; eauto|]. exists oa. split; [auto|eapply nth_error_lt; eauto].
    - intros j oj E. destruct (Hcase j oj E) as [E0|(-> & ->)]; [eauto|].
      rewrite Eo. rewrite <- (map_length s_shape), Hm. eauto.
    - intros j oj E. destruct (Hcase j oj E) as [E0|(-> & ->)]; [eauto|]. split; [right; exact Hnone_new|auto].
    - intros j oj E Hn Hdn a Ha Hi. destruct (Hcase j oj E) as [E0|(-> & ->)].
      + apply Hev_old. eapply Hcl; eauto. unfold inner_of in *.
        pose proof (Hwf j oj E0) as Hf. rewrite Forall_forall in Hf. destruct (Hf a Ha) as (_ & oa & Eoa & _).
        rewrite (Hold _ _ Eoa) in Hi. rewrite Eoa. exact Hi.
      + exfalso. unfold op_done in Hdn. unfold op_none in Hnone_new. destruct (o_rets oi) as [|s r]; [congruence|].
        simpl in *. destruct (has_val s); simpl in *; discriminate.
    - intros j oj E Hi. destruct (Hcase j oj E) as [E0|(-> & ->)]; [eauto|].
      rewrite Eo in Hi. destruct (f_inner F o) as [p|] eqn:Ep; [|congruence].
      rewrite (Hinner_argn o p Ep) in Hargn. simpl in Hargn. apply Nat.eqb_eq in Hargn.
      rewrite Ea. destruct args; [reflexivity|discriminate].
  Qed.
End LazyProofs.
