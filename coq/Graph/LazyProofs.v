(* Proofs about Graph::add_operator and Graph::forward (C05). *)
From Coq Require Import List NArith Bool Arith Lia.
From PV Require Import Graph.OpFamily Graph.Tape Graph.Lazy.
Import ListNotations.

Section LazyProofs.
  Context {Op Sh V : Type}.
  Variable F : OpFamily Op Sh V.
  Notation gstate := (@gstate Op Sh V).
  Notation opinfo := (@opinfo Op Sh V).
  Notation slot := (@slot Sh V).
  Notation env := (@env V).

  (* ---------- add_operator computes nothing ---------- *)
  Lemma add_op_spec me (g g' : gstate) o args k :
    add_op F me g o args = Ok (g', k) ->
    k = length (g_ops g) /\ g_log g' = g_log g /\ g_blog g' = g_blog g /\
    exists oi, g_ops g' = g_ops g ++ [oi] /\ o_op oi = o /\ o_args oi = map snd args /\
               Forall (fun s : slot => s_val s = None /\ s_grad s = None) (o_rets oi) /\
               exists ss rs, check_nodes me g args = Ok ss /\ f_shape F o (map s_shape ss) = Some rs /\
                             map s_shape (o_rets oi) = rs.
  Proof.
    unfold add_op. intros H.
    destruct (negb (argn_ok (f_argn F o) (length args))); [discriminate|].
    match type of H with match ?r with _ => _ end = _ => destruct r as [d| |] end; try discriminate.
    destruct (check_nodes me g args) as [ss| |] eqn:Ec; try discriminate.
    destruct (f_shape F o (map s_shape ss)) as [rs|] eqn:Es; try discriminate.
    injection H as <- <-. cbn [g_ops g_log g_blog set_ops]. repeat split; auto.
    eexists. split; [reflexivity|]. cbn [o_op o_args o_rets]. repeat split; auto.
    - apply Forall_forall. intros s Hs. apply in_map_iff in Hs. destruct Hs as (sh & <- & _). auto.
    - exists ss, rs. repeat split; auto. rewrite map_map. cbn [s_shape]. apply map_id.
  Qed.
End LazyProofs.
