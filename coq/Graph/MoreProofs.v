(* order independence of deterministic values; composition of backward calls over histories *)
From Coq Require Import List NArith Bool Arith Lia.
From PV Require Import Graph.OpFamily Graph.Tape Graph.Lazy Graph.Backward Graph.TapeLemmas Graph.LazyProofs Graph.BackwardProofs Graph.HistoryProofs.
Import ListNotations.

Section More.
  Context {Op Sh V : Type}.
  Variable F : OpFamily Op Sh V.
  Variable VO : ValOps Sh V.
  Notation gstate := (@gstate Op Sh V).
  Notation opinfo := (@opinfo Op Sh V).
  Notation slot := (@slot Sh V).
  Notation env := (@env V).
  Notation ops_t := (list opinfo).
  Notation world := (@world Op Sh V).
  Notation cmd := (@cmd Op Sh V).
  Hypothesis Hfw_len : forall o pos xs, length (f_fw F o pos xs) = f_retn F o.

  (* ---------- order independence ---------- *)
  (* every evaluated operator holds the outputs of one forward call on what consumers read *)
  Definition allcomp (ops : ops_t) (e : env) : Prop :=
    forall k, evald ops k -> inner_of F ops k = None -> computed F ops e k.
  (* no random source among the ancestors (the operator itself included) *)
  Definition det (ops : ops_t) (k : nat) : Prop :=
    forall j oi, anc ops j k -> nth_error ops j = Some oi -> f_rand F (o_op oi) = None.

  Lemma det_values (ops1 ops2 : ops_t) e1 e2 : sv ops1 = sv ops2 -> ginv F ops1 -> ginv F ops2 ->
    allcomp ops1 e1 -> allcomp ops2 e2 -> e_pval e1 = e_pval e2 ->
    forall k oi1 oi2, nth_error ops1 k = Some oi1 -> nth_error ops2 k = Some oi2 ->
      evald ops1 k -> evald ops2 k -> det ops1 k -> map s_val (o_rets oi1) = map s_val (o_rets oi2).
  Proof.
    intros Hsv I1 I2 C1 C2 Hp k. induction k as [k IH] using lt_wf_ind.
    intros oi1 oi2 E1 E2 Ev1 Ev2 Hdet.
    assert (Hin1 : inner_of F ops1 k = None).
    { destruct (inner_of F ops1 k) as [p|] eqn:Ei; [|reflexivity]. exfalso.
      destruct I1 as (_ & _ & Hd & _). unfold inner_of in Ei. rewrite E1 in Ei.
      destruct (Hd k oi1 E1) as (_ & Hn). eapply evald_unev; [exact Ev1|].
      destruct Ev1 as (o & Eo & Hne & _). rewrite E1 in Eo. injection Eo as <-. exists oi1. split; [exact E1|]. split; [exact Hne|]. apply Hn. congruence. }
    assert (Hin2 : inner_of F ops2 k = None) by (rewrite <- (sv_inner F _ _ Hsv); exact Hin1).
    destruct (C1 k Ev1 Hin1) as (o1 & pos1 & xs1 & Eo1 & Hx1 & Hv1 & Hr1).
    destruct (C2 k Ev2 Hin2) as (o2 & pos2 & xs2 & Eo2 & Hx2 & Hv2 & Hr2).
    rewrite E1 in Eo1. injection Eo1 as <-. rewrite E2 in Eo2. injection Eo2 as <-.
    pose proof (sv_nth ops1 ops2 k Hsv) as Hk. rewrite E1, E2 in Hk. destruct Hk as (Eop & Eargs & _).
    assert (Hrand : f_rand F (o_op oi1) = None) by (apply (Hdet k oi1 (anc_refl _ _) E1)).
    rewrite (Hr1 Hrand) in Hv1. rewrite <- Eop in Hr2, Hv2. rewrite (Hr2 Hrand) in Hv2.
    rewrite Hv1, Hv2. f_equal. f_equal.
    (* the arguments read are equal *)
    rewrite <- Eargs in Hx2.
    apply (Forall2_fun (aread F ops1 e1) (o_args oi1)); [exact Hx1|].
    eapply Forall2_impl_In; [|exact Hx2]. intros a y Ha Hy. cbv beta. rewrite <- Hy.
    destruct I1 as (Hwf1 & _ & _ & Hcl1 & _). pose proof I2 as (_ & _ & _ & Hcl2 & _).
    pose proof (Hwf1 k oi1 E1) as Hf. rewrite Forall_forall in Hf. destruct (Hf a Ha) as (Hlt & oa1 & Ea1 & _).
    pose proof (sv_nth ops1 ops2 (fst a) Hsv) as Hka. rewrite Ea1 in Hka.
    destruct (nth_error ops2 (fst a)) as [oa2|] eqn:Ea2; [|contradiction]. destruct Hka as (Eoa & _).
    unfold aread. rewrite Ea1, Ea2, <- Eoa.
    destruct (f_inner F (o_op oa1)) as [p|] eqn:Eia; [rewrite Hp; reflexivity|].
    assert (Hia1 : inner_of F ops1 (fst a) = None) by (unfold inner_of; rewrite Ea1; exact Eia).
    assert (Hne1 : o_rets oi1 <> []) by (destruct Ev1 as (o & Eo & Hne & _); rewrite E1 in Eo; injection Eo as <-; exact Hne).
    assert (Hd1 : op_done oi1 = true) by (destruct Ev1 as (o & Eo & _ & Hd); rewrite E1 in Eo; injection Eo as <-; exact Hd).
    assert (Hne2 : o_rets oi2 <> []) by (destruct Ev2 as (o & Eo & Hne & _); rewrite E2 in Eo; injection Eo as <-; exact Hne).
    assert (Hd2 : op_done oi2 = true) by (destruct Ev2 as (o & Eo & _ & Hd); rewrite E2 in Eo; injection Eo as <-; exact Hd).
    pose proof (Hcl1 k oi1 E1 Hne1 Hd1 a Ha Hia1) as Eva1.
    assert (Eva2 : evald ops2 (fst a)).
    { apply (Hcl2 k oi2 E2 Hne2 Hd2 a); [rewrite <- Eargs; exact Ha|rewrite <- (sv_inner F _ _ Hsv); exact Hia1]. }
    assert (Hdeta : det ops1 (fst a)).
    { intros j oj Haj Ej. apply (Hdet j oj); [|exact Ej]. eapply anc_step; [|exact Haj]. unfold args_of. rewrite E1. exact Ha. }
    pose proof (IH (fst a) Hlt oa1 oa2 Ea1 Ea2 Eva1 Eva2 Hdeta) as Hvals.
    assert (E : option_map s_val (nth_error (o_rets oa1) (snd a)) = option_map s_val (nth_error (o_rets oa2) (snd a)))
      by (rewrite <- !nth_error_map, Hvals; reflexivity).
    destruct (nth_error (o_rets oa1) (snd a)), (nth_error (o_rets oa2) (snd a)); simpl in E; congruence.
  Qed.

  Fixpoint fwds (g : gstate) (e : env) (l : list (nat * nat)) : option (gstate * env) :=
    match l with
    | [] => Some (g, e)
    | a :: l' => match forward F g e a with Some (_, g1, e1) => fwds g1 e1 l' | None => None end
    end.

  Lemma forward_allcomp (g : gstate) e a v g' e' : ginv F (g_ops g) -> allcomp (g_ops g) e ->
    forward F g e a = Some (v, g', e') ->
    allcomp (g_ops g') e' /\ ginv F (g_ops g') /\ sv (g_ops g') = sv (g_ops g) /\ e_pval e' = e_pval e.
  Proof.
    intros Hinv Hc H.
    assert (Hslot : get_slot g a <> None) by (unfold forward in H; destruct (get_slot g a); discriminate).
    destruct (forward_exact F Hfw_len g e a Hinv Hslot) as (v0 & g0 & e0 & Hf & Hex). rewrite H in Hf. injection Hf as <- <- <-.
    destruct Hex as (Hsv & _ & Hp & _ & Hm & Hinv' & _ & new & _ & _ & Hiff & Hcn & _ & Hout & _).
    split; [|auto]. intros k Hev Hin. destruct (in_dec Nat.eq_dec k new) as [Hk|Hk].
    - apply (computed_mono F (g_ops g') (g_ops g') e e'); auto. intros b s x Hb Hx; eauto.
    - apply (computed_mono F (g_ops g) (g_ops g') e e'); auto.
      apply Hc.
      + destruct Hev as (oi & E & Hn & Hd). exists oi. rewrite <- Hout; auto.
      + rewrite <- (sv_inner F _ _ Hsv). exact Hin.
  Qed.

  Lemma fwds_allcomp l : forall (g : gstate) e g' e', ginv F (g_ops g) -> allcomp (g_ops g) e -> fwds g e l = Some (g', e') ->
    allcomp (g_ops g') e' /\ ginv F (g_ops g') /\ sv (g_ops g') = sv (g_ops g) /\ e_pval e' = e_pval e.
  Proof.
    induction l as [|a l IH]; intros g e g' e' Hinv Hc H; simpl in H.
    - injection H as <- <-. auto.
    - destruct (forward F g e a) as [[[v g1] e1]|] eqn:Ef; [|discriminate].
      destruct (forward_allcomp _ _ _ _ _ _ Hinv Hc Ef) as (C1 & I1 & S1 & P1).
      destruct (IH _ _ _ _ I1 C1 H) as (C2 & I2 & S2 & P2). split; [exact C2|]. split; [exact I2|]. split; congruence.
  Qed.

  (* Two request orders from the same state: every operator without a random ancestor that
     both orders have evaluated holds the same values. *)
  Theorem order_independent (g : gstate) e l1 l2 g1 e1 g2 e2 : ginv F (g_ops g) -> allcomp (g_ops g) e ->
    fwds g e l1 = Some (g1, e1) -> fwds g e l2 = Some (g2, e2) ->
    forall k oi1 oi2, nth_error (g_ops g1) k = Some oi1 -> nth_error (g_ops g2) k = Some oi2 ->
      evald (g_ops g1) k -> evald (g_ops g2) k -> det (g_ops g) k ->
      map s_val (o_rets oi1) = map s_val (o_rets oi2).
  Proof.
    intros Hinv Hc H1 H2 k oi1 oi2 E1 E2 Ev1 Ev2 Hd.
    destruct (fwds_allcomp _ _ _ _ _ Hinv Hc H1) as (C1 & I1 & S1 & P1).
    destruct (fwds_allcomp _ _ _ _ _ Hinv Hc H2) as (C2 & I2 & S2 & P2).
    eapply (det_values (g_ops g1) (g_ops g2) e1 e2); eauto; try congruence.
    intros j oj Ha Ej. pose proof (sv_nth (g_ops g1) (g_ops g) j S1) as Hk. rewrite Ej in Hk.
    destruct (nth_error (g_ops g) j) as [oj0|] eqn:Ej0; [|contradiction]. destruct Hk as (Eo & _). rewrite Eo.
    apply (Hd j oj0); [|exact Ej0]. eapply sv_anc; [exact S1|exact Ha].
  Qed.

  (* ---------- histories of backward calls compose ---------- *)
  (* commands that neither read nor overwrite parameter gradients *)
  Definition grad_free (c : cmd) : bool :=
    match c with CUpdate _ _ | CReset _ | CSetGrad _ _ => false | _ => true end.
  (* w2 is w with other parameter gradients: those obtained from g0 by the contributions acc *)
  Definition wsim (w w2 : world) (acc : list (nat * V)) (g0 : nat -> V) : Prop :=
    w_graphs w2 = w_graphs w /\ e_pval (w_env w2) = e_pval (w_env w) /\ e_pos (w_env w2) = e_pos (w_env w) /\
    forall p, e_pgrad (w_env w2) p = fold_left (vadd VO) (cs_for p acc) (g0 p).

  Lemma cs_for_app p (a b : list (nat * V)) : cs_for p (a ++ b) = cs_for p a ++ cs_for p b.
  Proof. unfold cs_for. rewrite filter_app, map_app. reflexivity. Qed.

  Lemma with_pgrad_twice (e : env) h : with_pgrad (with_pgrad e h) (e_pgrad e) = e.
  Proof. destruct e; reflexivity. Qed.

  Lemma backward_none_indep (g : gstate) e n h : backward F VO g e n = None -> backward F VO g (with_pgrad e h) n = None.
  Proof.
    intro H. destruct (backward F VO g (with_pgrad e h) n) as [[g' e']|] eqn:E; [|reflexivity]. exfalso.
    destruct (backward_only_adds F VO _ _ _ _ _ E) as (cs & Hall). destruct (Hall (e_pgrad e)) as (e0 & Hb & _).
    rewrite with_pgrad_twice in Hb. congruence.
  Qed.

  Lemma run_sim (w : world) c : grad_free c = true ->
    exists more, forall w2 acc g0, wsim w w2 acc g0 -> wsim (run F VO w c) (run F VO w2 c) (acc ++ more) g0.
  Proof.
    intro Hc.
    assert (Hsame : forall w2 acc g0, wsim w w2 acc g0 -> w_env w2 = with_pgrad (w_env w) (e_pgrad (w_env w2))).
    { intros w2 acc g0 (_ & A & B & _). apply env_eta; auto. }
    destruct c as [|gi o args|gi a|gi a|ps upd|ps|p v|d n]; try discriminate; unfold run; simpl.
    - exists []. intros w2 acc g0 (G & A & B & C). rewrite app_nil_r. split; [cbn [w_graphs]; rewrite G; reflexivity|auto].
    - exists []. intros w2 acc g0 (G & A & B & C). rewrite app_nil_r, G.
      destruct (nth_error (w_graphs w) gi) as [g|]; [|split; auto].
      destruct (add_op F gi g o args) as [[g' k]| |]; split; auto. cbn [put_graph w_graphs]. rewrite G. reflexivity.
    - exists []. intros w2 acc g0 Hs. pose proof (Hsame _ _ _ Hs) as He2. destruct Hs as (G & A & B & C). rewrite app_nil_r, G.
      destruct (nth_error (w_graphs w) gi) as [g|]; [|split; auto].
      assert (Hf : forward F g (w_env w2) a = match forward F g (w_env w) a with
                     | Some (v, g', e') => Some (v, g', with_pgrad e' (e_pgrad (w_env w2))) | None => None end).
      { rewrite He2 at 1. unfold forward. destruct (get_slot g a); [|reflexivity]. apply fwd_pgrad. }
      rewrite Hf. destruct (forward F g (w_env w) a) as [[[v g'] e']|] eqn:Ef; [|split; auto].
      split; [cbn [put_graph w_graphs]; rewrite G; reflexivity|]. cbn [put_graph w_env with_pgrad e_pval e_pos e_pgrad]. auto.
    - destruct (nth_error (w_graphs w) gi) as [g|] eqn:Eg.
      2:{ exists []. intros w2 acc g0 (G & A & B & C). rewrite app_nil_r, G, Eg. split; auto. }
      destruct (backward F VO g (w_env w) a) as [[g' e']|] eqn:Eb.
      + destruct (backward_only_adds F VO _ _ _ _ _ Eb) as (cs & Hall). exists cs.
        intros w2 acc g0 Hs. pose proof (Hsame _ _ _ Hs) as He2. destruct Hs as (G & A & B & C). rewrite G, Eg.
        destruct (Hall (e_pgrad (w_env w2))) as (e0 & Hb0 & P0 & Q0 & R0). rewrite <- He2 in Hb0. rewrite Hb0.
        split; [cbn [put_graph w_graphs]; rewrite G; reflexivity|]. cbn [put_graph w_env].
        split; [exact P0|]. split; [exact Q0|]. intro p. rewrite R0, cs_for_app, fold_left_app.
        rewrite C. reflexivity.
      + exists []. intros w2 acc g0 Hs. pose proof (Hsame _ _ _ Hs) as He2. destruct Hs as (G & A & B & C). rewrite app_nil_r, G, Eg.
        pose proof (backward_none_indep _ _ _ (e_pgrad (w_env w2)) Eb) as Hn. rewrite <- He2 in Hn. rewrite Hn. split; auto.
    - exists []. intros w2 acc g0 (G & A & B & C). rewrite app_nil_r. split; [exact G|]. cbn [w_env bump e_pval e_pos e_pgrad].
      split; [exact A|]. split; [rewrite B; reflexivity|exact C].
  Qed.

  (* backward_history: for every history of graph construction, forward and backward calls
     over any number of graphs sharing the parameters (no optimizer update / reset / direct
     write in between), there is ONE list of contributions, independent of the prior
     gradients, such that the final gradient of p is g0 p += its contributions in call order;
     graphs, parameter values and streams do not depend on g0 at all. *)
  Theorem backward_history cs : Forall (fun c => grad_free c = true) cs -> forall w : world,
    exists contribs, forall w2 acc g0, wsim w w2 acc g0 ->
      wsim (run_all F VO w cs) (run_all F VO w2 cs) (acc ++ contribs) g0.
  Proof.
    induction 1 as [|c cs Hc _ IH]; intro w.
    - exists []. intros w2 acc g0 Hs. rewrite app_nil_r. exact Hs.
    - destruct (run_sim w c Hc) as (m1 & H1). destruct (IH (run F VO w c)) as (m2 & H2).
      exists (m1 ++ m2). intros w2 acc g0 Hs. simpl. rewrite app_assoc. apply H2. apply H1. exact Hs.
  Qed.

  (* ---------- stream accounting: the device streams advance by exactly the random operators logged ---------- *)
  Hypothesis Hsh_len : forall o shs rs, f_shape F o shs = Some rs -> length rs = f_retn F o.
  Hypothesis Hinner_argn : forall o p, f_inner F o = Some p -> f_argn F o = ArgExact 0.
  Local Open Scope N_scope.

  Definition gdr (d : nat) (g : gstate) : N := draws F (g_ops g) d (g_log g).
  Fixpoint tot (d : nat) (gs : list gstate) : N := match gs with [] => 0 | g :: r => gdr d g + tot d r end.
  Definition cdraw1 (d : nat) (c : cmd) : N := match c with CDraw d' n => if Nat.eqb d' d then n else 0 | _ => 0 end.
  Fixpoint cdraws (d : nat) (cs : list cmd) : N := match cs with [] => 0 | c :: r => cdraw1 d c + cdraws d r end.

  Lemma draws_same (ops ops' : ops_t) d l :
    (forall k, In k l -> exists oi oi', nth_error ops k = Some oi /\ nth_error ops' k = Some oi' /\ o_op oi' = o_op oi) ->
    draws F ops' d l = draws F ops d l.
  Proof.
    induction l as [|k l IH]; intro H; simpl; auto. rewrite IH by (intros j Hj; apply H; right; exact Hj). f_equal.
    destruct (H k (or_introl eq_refl)) as (oi & oi' & E & E' & Eo). unfold draw_of. rewrite E, E', Eo. reflexivity.
  Qed.

  (* one call: the log grows by [new], the stream of every device by the draws of [new] *)
  Definition stream_step (g : gstate) (e : env) (g' : gstate) (e' : env) : Prop :=
    exists new, g_log g' = g_log g ++ new /\ (forall k, In k new -> nth_error (g_ops g) k <> None) /\
                forall d, e_pos e' d = e_pos e d + draws F (g_ops g) d new.

  Lemma frel_stream g e g1 e1 R : frel F g e g1 e1 R -> stream_step g e g1 e1.
  Proof.
    intros (_ & _ & _ & _ & _ & new & L & _ & In1 & _ & D). exists new. split; [exact L|]. split; [|exact D].
    intros k Hk. destruct (In1 k Hk) as (_ & _ & (oi & E & _) & _). congruence.
  Qed.

  Lemma gdr_step (g g' : gstate) e e' d : gok F g -> gext g g' -> stream_step g e g' e' ->
    e_pos e' d + gdr d g = e_pos e d + gdr d g'.
  Proof.
    intros (_ & _ & _ & Hlog) (_ & _ & Hop) (new & L & Hex & D). unfold gdr. rewrite L, draws_app, D.
    assert (E1 : draws F (g_ops g') d (g_log g) = draws F (g_ops g) d (g_log g)).
    { apply draws_same. intros k Hk. destruct (Hlog k Hk) as (oi & E & _). destruct (Hop k oi E) as (oi' & E' & Eo). eauto. }
    assert (E2 : draws F (g_ops g') d new = draws F (g_ops g) d new).
    { apply draws_same. intros k Hk. destruct (nth_error (g_ops g) k) as [oi|] eqn:E; [|exfalso; apply (Hex k Hk); exact E].
      destruct (Hop k oi E) as (oi' & E' & Eo). eauto. }
    rewrite E1, E2. lia.
  Qed.

  Lemma tot_set_nth d gs gi g g' : nth_error gs gi = Some g -> tot d (set_nth gs gi g') + gdr d g = tot d gs + gdr d g'.
  Proof.
    revert gi. induction gs as [|x gs IH]; intros [|gi] H; simpl in *; try discriminate.
    - injection H as ->. lia.
    - specialize (IH gi H). lia.
  Qed.
  Lemma tot_app d a b : tot d (a ++ b) = tot d a + tot d b.
  Proof. induction a as [|x a IH]; simpl; [reflexivity|]. rewrite IH. lia. Qed.

  Lemma run_stream (w : world) c d : winv F w ->
    e_pos (w_env (run F VO w c)) d + tot d (w_graphs w) = e_pos (w_env w) d + tot d (w_graphs (run F VO w c)) + cdraw1 d c.
  Proof.
    intro Hw. unfold run. destruct (run_cmd F VO w c) as [w'| |] eqn:Er.
    2,3: (assert (cdraw1 d c = 0) by (destruct c; simpl in *; try reflexivity; discriminate); lia).
    assert (Hg : forall gi g, nth_error (w_graphs w) gi = Some g -> gok F g).
    { intros gi g E. unfold winv in Hw. rewrite Forall_forall in Hw. apply Hw. eapply nth_error_In; eauto. }
    destruct c as [|gi o args|gi a|gi a|ps upd|ps|p v|d0 n]; simpl in Er; cbn [cdraw1].
    - injection Er as <-. cbn [w_graphs w_env]. rewrite tot_app. simpl. unfold gdr. simpl. lia.
    - destruct (nth_error (w_graphs w) gi) as [g|] eqn:Eg; [|discriminate].
      destruct (add_op F gi g o args) as [[g' k]| |] eqn:Ea; try discriminate. injection Er as <-.
      cbn [put_graph w_graphs w_env]. pose proof (tot_set_nth d _ _ _ g' Eg) as Ht.
      destruct (add_ok F Hsh_len Hinner_argn _ _ _ _ _ _ (Hg _ _ Eg) Ea) as (_ & Hx).
      assert (Hs : stream_step g (w_env w) g' (w_env w)).
      { destruct (add_op_spec F _ _ _ _ _ _ Ea) as (_ & El & _). exists []. rewrite app_nil_r. split; [exact El|].
        split; [intros k0 []|]. intro d1. simpl. lia. }
      pose proof (gdr_step _ _ _ _ d (Hg _ _ Eg) Hx Hs). lia.
    - destruct (nth_error (w_graphs w) gi) as [g|] eqn:Eg; [|discriminate].
      destruct (forward F g (w_env w) a) as [[[v g'] e']|] eqn:Ea; try discriminate. injection Er as <-.
      cbn [put_graph w_graphs w_env]. pose proof (tot_set_nth d _ _ _ g' Eg) as Ht.
      destruct (forward_ok F Hfw_len _ _ _ _ _ _ (Hg _ _ Eg) Ea) as (_ & Hx & Hex).
      assert (Hs : stream_step g (w_env w) g' e').
      { destruct Hex as (_ & _ & _ & _ & _ & _ & _ & new & L & _ & Hiff & _ & _ & _ & D). exists new. split; [exact L|]. split; [|exact D].
        intros k Hk. apply Hiff in Hk. destruct Hk as (_ & _ & (oi & E & _)). congruence. }
      pose proof (gdr_step _ _ _ _ d (Hg _ _ Eg) Hx Hs). lia.
    - destruct (nth_error (w_graphs w) gi) as [g|] eqn:Eg; [|discriminate].
      destruct (backward F VO g (w_env w) a) as [[g' e']|] eqn:Ea; try discriminate. injection Er as <-.
      cbn [put_graph w_graphs w_env]. pose proof (tot_set_nth d _ _ _ g' Eg) as Ht.
      pose proof (Hg _ _ Eg) as Hgok. destruct (backward_ok F VO Hfw_len _ _ _ _ _ Hgok Ea) as (_ & Hx & _).
      destruct Hgok as (Hinv & Hcl & _).
      destruct (backward_spec F VO Hfw_len _ _ _ _ _ Hinv Hcl Ea) as (g1 & e1 & R & _ & _ & Hl & _ & _ & _ & Hpos & _).
      assert (Hs : stream_step g (w_env w) g' e').
      { destruct (frel_stream _ _ _ _ _ R) as (new & L & Hex & D). exists new. split; [congruence|]. split; [exact Hex|].
        intro d1. rewrite Hpos. apply D. }
      pose proof (gdr_step _ _ _ _ d (Hg _ _ Eg) Hx Hs). lia.
    - injection Er as <-. cbn [w_graphs w_env param_update e_pos]. lia.
    - injection Er as <-. cbn [w_graphs w_env reset_gradients e_pos]. lia.
    - injection Er as <-. cbn [w_graphs w_env set_pgrad e_pos]. lia.
    - injection Er as <-. cbn [w_graphs w_env bump e_pos]. rewrite (Nat.eqb_sym d0 d). destruct (Nat.eqb_spec d d0) as [->|]; lia.
  Qed.

  (* For EVERY history: position of device d = initial position + draws of all random operators
     in the forward logs (i.e. evaluated ones, each once) + the direct draws of the history.
     Unevaluated random nodes contribute nothing. *)
  Theorem stream_account cs : forall (w : world) d, winv F w ->
    e_pos (w_env (run_all F VO w cs)) d + tot d (w_graphs w) =
    e_pos (w_env w) d + tot d (w_graphs (run_all F VO w cs)) + cdraws d cs.
  Proof.
    induction cs as [|c cs IH]; intros w d Hw; simpl; [lia|].
    pose proof (run_stream w c d Hw) as H1.
    pose proof (IH (run F VO w c) d (proj1 (run_ok F VO Hfw_len Hsh_len Hinner_argn w c Hw))) as H2. lia.
  Qed.

  Local Close Scope N_scope.
  (* ---------- shape_ok is an invariant of reachable worlds ---------- *)
  Definition wshape (w : world) : Prop := Forall (fun g : gstate => shape_ok F (g_ops g)) (w_graphs w).

  Lemma shape_ok_add me (g : gstate) o args g' k : shape_ok F (g_ops g) -> add_op F me g o args = Ok (g', k) -> shape_ok F (g_ops g').
  Proof.
    intros Hok H. destruct (add_op_spec F _ _ _ _ _ _ H) as (_ & _ & _ & oi & Eops & Eo & Ea & _ & ss & rs & Hc & Hs & Hm).
    pose proof (check_nodes_spec _ _ _ _ Hc) as Hc2. rewrite Eops.
    assert (Hold : forall a s, get_slot_ops (g_ops g) a = Some s -> get_slot_ops (g_ops g ++ [oi]) a = Some s).
    { intros a s Hs0. unfold get_slot_ops in *. destruct (nth_error (g_ops g) (fst a)) as [oa|] eqn:E; [|discriminate].
      rewrite nth_error_app1 by (eapply nth_error_lt; eauto). rewrite E. exact Hs0. }
    intros j oj E Hi. destruct (Nat.lt_ge_cases j (length (g_ops g))) as [Hlt|Hge].
    - rewrite nth_error_app1 in E by auto. destruct (Hok j oj E Hi) as (ashs & Hf2 & Hfs). exists ashs. split; [|exact Hfs].
      eapply Forall2_impl; [|exact Hf2]. intros a sh (s & Hs0 & Esh). exists s. auto.
    - rewrite nth_error_app2 in E by auto. destruct (j - length (g_ops g)) as [|m]; simpl in E; [|destruct m; discriminate].
      injection E as <-. exists (map s_shape ss). rewrite Eo, Hm. split; [|exact Hs]. rewrite Ea.
      clear - Hc2 Hold. induction Hc2 as [|n s l l' (_ & Hg) _ IH]; simpl; constructor; auto. exists s. split; [apply Hold; exact Hg|reflexivity].
  Qed.

  Lemma run_shape (w : world) c : winv F w -> wshape w -> wshape (run F VO w c).
  Proof.
    intros Hw Hs. unfold run. destruct (run_cmd F VO w c) as [w'| |] eqn:Er; auto.
    assert (Hg : forall gi g, nth_error (w_graphs w) gi = Some g -> gok F g /\ shape_ok F (g_ops g)).
    { intros gi g E. unfold winv, wshape in *. rewrite Forall_forall in Hw, Hs. split; [apply Hw|apply Hs]; eapply nth_error_In; eauto. }
    destruct c as [|gi o args|gi a|gi a|ps upd|ps|p v|d0 n]; simpl in Er; try (injection Er as <-; exact Hs).
    - injection Er as <-. unfold wshape. cbn [w_graphs]. apply Forall_app. split; [exact Hs|]. constructor; [|constructor].
      intros k oi E. destruct k; discriminate.
    - destruct (nth_error (w_graphs w) gi) as [g|] eqn:Eg; [|discriminate].
      destruct (add_op F gi g o args) as [[g' k]| |] eqn:Ea; try discriminate. injection Er as <-.
      apply Forall_set_nth; [exact Hs|]. eapply shape_ok_add; [|exact Ea]. apply (Hg _ _ Eg).
    - destruct (nth_error (w_graphs w) gi) as [g|] eqn:Eg; [|discriminate].
      destruct (forward F g (w_env w) a) as [[[v g'] e']|] eqn:Ea; try discriminate. injection Er as <-.
      apply Forall_set_nth; [exact Hs|]. destruct (Hg _ _ Eg) as (Hgok & Hsh).
      destruct (forward_ok F Hfw_len _ _ _ _ _ _ Hgok Ea) as (_ & _ & (Hsv & _)).
      eapply skel_shape_ok; [apply skel_sv; symmetry; exact Hsv|exact Hsh].
    - destruct (nth_error (w_graphs w) gi) as [g|] eqn:Eg; [|discriminate].
      destruct (backward F VO g (w_env w) a) as [[g' e']|] eqn:Ea; try discriminate. injection Er as <-.
      apply Forall_set_nth; [exact Hs|]. destruct (Hg _ _ Eg) as ((Hinv & Hcl & _) & Hsh).
      destruct (backward_spec F VO Hfw_len _ _ _ _ _ Hinv Hcl Ea) as (g1 & e1 & (Hsv & _) & _ & Hsg & _).
      eapply skel_shape_ok; [|exact Hsh]. eapply skel_trans; [apply skel_sv; symmetry; exact Hsv|apply skel_sg; symmetry; exact Hsg].
  Qed.

  Lemma run_all_shape cs : forall w : world, winv F w -> wshape w -> winv F (run_all F VO w cs) /\ wshape (run_all F VO w cs).
  Proof.
    induction cs as [|c cs IH]; intros w Hw Hs; simpl; [auto|].
    apply IH; [exact (proj1 (run_ok F VO Hfw_len Hsh_len Hinner_argn w c Hw))|apply run_shape; auto].
  Qed.
End More.
