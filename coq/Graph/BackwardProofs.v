(* Proofs about Graph::backward and the parameter store (C06). *)
From Coq Require Import List NArith Bool Arith Lia.
From PV Require Import Graph.OpFamily Graph.Tape Graph.Lazy Graph.Backward Graph.LazyProofs.
Import ListNotations.

Section BackwardProofs.
  Context {Op Sh V : Type}.
  Variable F : OpFamily Op Sh V.
  Variable VO : ValOps Sh V.
  Notation gstate := (@gstate Op Sh V).
  Notation slot := (@slot Sh V).
  Notation env := (@env V).

  (* ---------- reset_gradient()/reset_gradients() return exactly to zero ---------- *)
  Lemma reset_zero (e : env) ps p sh :
    lookup p ps = Some sh ->
    e_pgrad (reset_gradients VO e ps) p = vzeros VO sh /\
    e_pval (reset_gradients VO e ps) = e_pval e /\ e_pos (reset_gradients VO e ps) = e_pos e /\
    forall q, lookup q ps = None -> e_pgrad (reset_gradients VO e ps) q = e_pgrad e q.
  Proof.
    intros H. cbn [reset_gradients e_pgrad e_pval e_pos]. rewrite H. repeat split; auto.
    intros q Hq. rewrite Hq. reflexivity.
  Qed.
End BackwardProofs.
