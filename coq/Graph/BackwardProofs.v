(* Proofs about Graph::backward and the parameter store (C06): structure of one sweep step. *)
From Coq Require Import List NArith Bool Arith Lia.
From PV Require Import Graph.OpFamily Graph.Tape Graph.Lazy Graph.Backward Graph.TapeLemmas Graph.LazyProofs.
Import ListNotations.

Section BackwardProofs.
  Context {Op Sh V : Type}.
  Variable F : OpFamily Op Sh V.
  Variable VO : ValOps Sh V.
  Notation gstate := (@gstate Op Sh V).
  Notation opinfo := (@opinfo Op Sh V).
  Notation slot := (@slot Sh V).
  Notation env := (@env V).
  Notation ops_t := (list opinfo).

  (* ---------- reset_gradient()/reset_gradients() return exactly to zero ---------- *)
  Lemma reset_zero (e : env) ps p sh :
    lookup p ps = Some sh ->
    e_pgrad (reset_gradients VO e ps) p = vzeros VO sh /\
    e_pval (reset_gradients VO e ps) = e_pval e /\ e_pos (reset_gradients VO e ps) = e_pos e /\
    forall q, lookup q ps = None -> e_pgrad (reset_gradients VO e ps) q = e_pgrad e q.
  Proof.
    intros H. cbn [reset_gradients e_pgrad e_pval e_pos]. rewrite H. repeat split; auto.
    intros q Hq. rewrite Hq. reflexivity.
  Qed.

  (* ---------- slot-wise description of the updates a sweep step performs ---------- *)
  Definition map_op (ops : ops_t) (k : nat) (f : slot -> slot) : ops_t :=
    match nth_error ops k with
    | Some oi => set_nth ops k (set_rets oi (map f (o_rets oi)))
    | None => ops
    end.
  Definition clr (s : slot) : slot := set_grad s None.
  Definition fold_mat (ops : ops_t) (args : list (nat * nat)) : ops_t :=
    fold_left (fun o a => upd_ops o a (mat_zero VO)) args ops.

  Lemma map_op_get ops k f b : get_slot_ops (map_op ops k f) b =
    if Nat.eqb k (fst b) then option_map f (get_slot_ops ops b) else get_slot_ops ops b.
  Proof.
    unfold map_op, get_slot_ops. destruct (Nat.eqb_spec k (fst b)) as [<-|N].
    - destruct (nth_error ops k) as [oi|] eqn:E; [|rewrite E; reflexivity].
      rewrite nth_error_set_nth_eq by (eapply nth_error_lt; eauto). cbn [o_rets set_rets]. rewrite nth_error_map. reflexivity.
    - destruct (nth_error ops k) as [oi|] eqn:E; auto. rewrite nth_error_set_nth_neq by auto. reflexivity.
  Qed.
  Lemma map_op_other ops k f j : j <> k -> nth_error (map_op ops k f) j = nth_error ops j.
  Proof. intros H. unfold map_op. destruct (nth_error ops k); auto. apply nth_error_set_nth_neq. auto. Qed.
  Lemma map_op_at ops k f oi : nth_error ops k = Some oi -> nth_error (map_op ops k f) k = Some (set_rets oi (map f (o_rets oi))).
  Proof. intros E. unfold map_op. rewrite E. apply nth_error_set_nth_eq. eapply nth_error_lt; eauto. Qed.
  Lemma map_op_some ops k f oi : nth_error ops k = Some oi -> map_op ops k f = set_nth ops k (set_rets oi (map f (o_rets oi))).
  Proof. intros E. unfold map_op. rewrite E. reflexivity. Qed.
  Lemma map_op_length ops k f : length (map_op ops k f) = length ops.
  Proof. unfold map_op. destruct (nth_error ops k); auto. apply length_set_nth. Qed.

  Lemma fold_mat_other args : forall ops j, (forall a, In a args -> fst a <> j) -> nth_error (fold_mat ops args) j = nth_error ops j.
  Proof.
    induction args as [|a args IH]; intros ops j H; simpl; auto.
    unfold fold_mat in *. simpl. rewrite IH by (intros b Hb; apply H; right; exact Hb).
    apply upd_ops_other. intro E. apply (H a); [left; reflexivity|auto].
  Qed.
  Lemma add_incs_other args : forall (ops : ops_t) incs j, (forall a, In a args -> fst a <> j) ->
    nth_error (add_incs VO ops args incs) j = nth_error ops j.
  Proof.
    induction args as [|a args IH]; intros ops [|inc incs] j H; simpl; auto.
    rewrite IH by (intros b Hb; apply H; right; exact Hb).
    apply upd_ops_other. intro E. apply (H a); [left; reflexivity|auto].
  Qed.

  (* what backward reads for argument a: the value, else the live parameter value *)
  Definition bread (ops : ops_t) (e : env) (a : nat * nat) : option V :=
    match nth_error ops (fst a) with
    | Some oi => match nth_error (o_rets oi) (snd a) with
                 | Some s => match s_val s with
                             | Some v => Some v
                             | None => match f_inner F (o_op oi) with Some p => Some (e_pval e p) | None => None end
                             end
                 | None => None
                 end
    | None => None
    end.

  Lemma grad_only_sg (ops : ops_t) a f : (forall s, set_grad (f s) None = set_grad s None) -> sg (upd_ops ops a f) = sg ops.
  Proof.
    intros Hf. unfold upd_ops. destruct (nth_error ops (fst a)) as [oi|] eqn:E; auto.
    destruct (nth_error (o_rets oi) (snd a)) as [s|] eqn:Es; auto.
    unfold sg. rewrite map_set_nth. apply set_nth_same. rewrite nth_error_map, E. simpl. f_equal.
    unfold strip_grads, set_rets. cbn [o_op o_args o_rets]. f_equal. rewrite map_set_nth. symmetry. apply set_nth_same.
    rewrite nth_error_map, Es. simpl. f_equal. symmetry. apply Hf.
  Qed.
  Lemma map_op_sg (ops : ops_t) k f : (forall s, set_grad (f s) None = set_grad s None) -> sg (map_op ops k f) = sg ops.
  Proof.
    intros Hf. unfold map_op. destruct (nth_error ops k) as [oi|] eqn:E; auto.
    unfold sg. rewrite map_set_nth. apply set_nth_same. rewrite nth_error_map, E. simpl. f_equal.
    unfold strip_grads, set_rets. cbn [o_op o_args o_rets]. f_equal. rewrite map_map. apply map_ext. intro s. symmetry. apply Hf.
  Qed.
  Lemma mat_zero_grad_only s : set_grad (mat_zero VO s) None = set_grad s None.
  Proof. unfold mat_zero. destruct (s_grad s); reflexivity. Qed.
  Lemma add_inc_grad_only inc s : set_grad (add_inc VO inc s) None = set_grad s None.
  Proof. unfold add_inc. destruct (s_grad s); reflexivity. Qed.
  Lemma clr_grad_only s : set_grad (clr s) None = set_grad s None.
  Proof. reflexivity. Qed.
  Lemma fold_mat_sg args : forall ops : ops_t, sg (fold_mat ops args) = sg ops.
  Proof.
    induction args as [|a args IH]; intro ops; simpl; auto. unfold fold_mat in *. simpl.
    rewrite IH. apply grad_only_sg. apply mat_zero_grad_only.
  Qed.
  Lemma add_incs_sg args : forall (ops : ops_t) incs, sg (add_incs VO ops args incs) = sg ops.
  Proof.
    induction args as [|a args IH]; intros ops [|inc incs]; simpl; auto.
    rewrite IH. apply grad_only_sg. apply add_inc_grad_only.
  Qed.

  Lemma sg_nth (ops ops' : ops_t) k : sg ops = sg ops' ->
    match nth_error ops k, nth_error ops' k with
    | Some a, Some b => o_op a = o_op b /\ o_args a = o_args b /\ length (o_rets a) = length (o_rets b) /\
                        map s_val (o_rets a) = map s_val (o_rets b) /\ map s_shape (o_rets a) = map s_shape (o_rets b)
    | None, None => True
    | _, _ => False
    end.
  Proof.
    intros H. assert (E : nth_error (sg ops) k = nth_error (sg ops') k) by (rewrite H; reflexivity).
    unfold sg in E. rewrite !nth_error_map in E.
    destruct (nth_error ops k) as [a|], (nth_error ops' k) as [b|]; simpl in E; try discriminate; auto.
    injection E as E1 E2 E3. repeat split; auto.
    - apply (f_equal (@length _)) in E3. rewrite !map_length in E3. exact E3.
    - apply (f_equal (map s_val)) in E3. rewrite !map_map in E3. exact E3.
    - apply (f_equal (map s_shape)) in E3. rewrite !map_map in E3. exact E3.
  Qed.

  Lemma gather_args_spec args : forall (ops : ops_t) e xs ops',
    gather_args F VO ops e args = Some (xs, ops') ->
    ops' = fold_mat ops args /\ Forall2 (fun a x => bread ops e a = Some x) args xs.
  Proof.
    induction args as [|a args IH]; intros ops e xs ops' H; simpl in H.
    - injection H as <- <-. split; [reflexivity|constructor].
    - destruct (nth_error ops (fst a)) as [arg_f|] eqn:Ef; [|discriminate].
      destruct (nth_error (o_rets arg_f) (snd a)) as [arg_n|] eqn:En; [|discriminate].
      match type of H with match ?ov with _ => _ end = _ => destruct ov as [v|] eqn:Ev end; [|discriminate].
      destruct (gather_args F VO (upd_ops ops a (mat_zero VO)) e args) as [[vs ops2]|] eqn:Eg; [|discriminate].
      injection H as <- <-. destruct (IH _ _ _ _ Eg) as (E2 & F2). split; [exact E2|]. constructor.
      + unfold bread. rewrite Ef, En. exact Ev.
      + eapply Forall2_impl; [|exact F2]. intros b y. cbv beta. unfold bread.
        (* values are not touched by the materialisation of a gradient *)
        pose proof (sg_nth (upd_ops ops a (mat_zero VO)) ops (fst b) (grad_only_sg ops a _ (mat_zero_grad_only))) as Hk.
        destruct (nth_error (upd_ops ops a (mat_zero VO)) (fst b)) as [o1|], (nth_error ops (fst b)) as [o2|]; try contradiction; auto.
        destruct Hk as (Eo & _ & _ & Evals & _). rewrite Eo.
        assert (Es : option_map s_val (nth_error (o_rets o1) (snd b)) = option_map s_val (nth_error (o_rets o2) (snd b))).
        { rewrite <- !nth_error_map, Evals. reflexivity. }
        destruct (nth_error (o_rets o1) (snd b)) as [s1|], (nth_error (o_rets o2) (snd b)) as [s2|]; simpl in Es; try discriminate; auto.
        injection Es as ->. auto.
  Qed.

  Lemma all_vals_map_grad (rets : list slot) (f : slot -> slot) : (forall s, s_val (f s) = s_val s) -> all_vals (map f rets) = all_vals rets.
  Proof. intros Hf. induction rets as [|s r IH]; simpl; auto. rewrite Hf, IH. reflexivity. Qed.
  Lemma grad_or_zero_mat s : grad_or_zero VO (mat_zero VO s) = grad_or_zero VO s.
  Proof. unfold grad_or_zero, mat_zero. destruct (s_grad s) eqn:E; cbn [s_grad set_grad s_shape]; [rewrite E|]; reflexivity. Qed.

  (* The shape of one iteration of the sweep loop on a well-formed tape. *)
  Definition step_shape (k : nat) (ops : ops_t) (e : env) (ops' : ops_t) (e' : env) (c : bool) : Prop :=
    exists cur, nth_error ops k = Some cur /\
      ((c = false /\ enabled (o_rets cur) = false /\ ops' = ops /\ e' = e) \/
       (c = true /\ enabled (o_rets cur) = true /\
        let ops2 := fold_mat (map_op ops k (mat_zero VO)) (o_args cur) in
        let gys := map (grad_or_zero VO) (o_rets cur) in
        exists xs, Forall2 (fun a x => bread ops e a = Some x) (o_args cur) xs /\
          ((exists p gy rest, f_inner F (o_op cur) = Some p /\ gys = gy :: rest /\
                              ops' = map_op ops2 k clr /\ e' = add_pgrad VO e p gy) \/
           (f_inner F (o_op cur) = None /\ exists ys, all_vals (o_rets cur) = Some ys /\
              ops' = map_op (add_incs VO ops2 (o_args cur) (eff_bw F (o_op cur) xs ys gys)) k clr /\ e' = e)))).

  Lemma bstep_shape k (ops : ops_t) e ops' e' c : wf_ops ops ->
    bstep F VO k ops e = Some (ops', e', c) -> step_shape k ops e ops' e' c.
  Proof.
    intros Hwf H. unfold bstep in H. destruct (nth_error ops k) as [cur|] eqn:Ecur; [|discriminate].
    exists cur. split; [exact Ecur|].
    destruct (enabled (o_rets cur)) eqn:Een; simpl in H.
    2:{ injection H as <- <- <-. left. auto. }
    right.
    assert (Hargs : forall a, In a (o_args cur) -> fst a <> k).
    { intros a Ha. pose proof (Hwf k cur Ecur) as Hf. rewrite Forall_forall in Hf. destruct (Hf a Ha). lia. }
    assert (E1 : set_nth ops k (set_rets cur (map (mat_zero VO) (o_rets cur))) = map_op ops k (mat_zero VO)) by (unfold map_op; rewrite Ecur; reflexivity).
    rewrite E1 in H.
    destruct (gather_args F VO (map_op ops k (mat_zero VO)) e (o_args cur)) as [[xs ops2]|] eqn:Eg; [|discriminate].
    destruct (gather_args_spec _ _ _ _ _ Eg) as (-> & Hxs).
    assert (Ek2 : nth_error (fold_mat (map_op ops k (mat_zero VO)) (o_args cur)) k = Some (set_rets cur (map (mat_zero VO) (o_rets cur)))).
    { rewrite fold_mat_other by auto. apply map_op_at. exact Ecur. }
    rewrite Ek2 in H. cbn [o_op o_rets o_args set_rets] in H.
    assert (Hgys : map (grad_or_zero VO) (map (mat_zero VO) (o_rets cur)) = map (grad_or_zero VO) (o_rets cur)).
    { rewrite map_map. apply map_ext. intro s. apply grad_or_zero_mat. }
    rewrite Hgys in H.
    assert (Hxs' : Forall2 (fun a x => bread ops e a = Some x) (o_args cur) xs).
    { eapply Forall2_impl_In; [|exact Hxs]. intros a x Ha. cbv beta. unfold bread. rewrite map_op_other by (apply Hargs; auto). auto. }
    destruct (f_inner F (o_op cur)) as [p|] eqn:Ein.
    - destruct (map (grad_or_zero VO) (o_rets cur)) as [|gy rest] eqn:Eg0; [discriminate|].
      rewrite Ek2 in H. injection H as <- <- <-.
      split; [reflexivity|]. split; [reflexivity|]. cbv zeta. exists xs. split; [exact Hxs'|].
      left. exists p, gy, rest. repeat split; auto.
      rewrite (map_op_some _ _ _ _ Ek2). reflexivity.
    - rewrite all_vals_map_grad in H by (intro s; unfold mat_zero; destruct (s_grad s); reflexivity).
      destruct (all_vals (o_rets cur)) as [ys|] eqn:Ey; [|discriminate].
      match type of H with match nth_error ?o k with _ => _ end = _ => destruct (nth_error o k) as [cur3|] eqn:E3; [|discriminate] end.
      injection H as <- <- <-.
      split; [reflexivity|]. split; [reflexivity|]. cbv zeta. exists xs. split; [exact Hxs'|].
      right. split; [reflexivity|]. exists ys. split; [reflexivity|].
      split; [|reflexivity]. rewrite (map_op_some _ _ _ _ E3). reflexivity.
  Qed.

  (* ---------- the step, slot by slot ---------- *)
  Definition addr_eq (a b : nat * nat) : bool := (Nat.eqb (fst a) (fst b) && Nat.eqb (snd a) (snd b))%bool.
  Lemma addr_eq_spec a b : reflect (a = b) (addr_eq a b).
  Proof.
    unfold addr_eq. destruct a as [a1 a2], b as [b1 b2]; simpl.
    destruct (Nat.eqb_spec a1 b1), (Nat.eqb_spec a2 b2); simpl; constructor; congruence.
  Qed.
  Definition mem_addr (b : nat * nat) (args : list (nat * nat)) : bool := existsb (fun a => addr_eq a b) args.
  Fixpoint incs_for (b : nat * nat) (args : list (nat * nat)) (incs : list V) : list V :=
    match args, incs with
    | a :: args', inc :: incs' => if addr_eq a b then inc :: incs_for b args' incs' else incs_for b args' incs'
    | _, _ => []
    end.
  Definition add_all (l : list V) (s : slot) : slot := fold_left (fun s inc => add_inc VO inc s) l s.

  Lemma mat_zero_idem s : mat_zero VO (mat_zero VO s) = mat_zero VO s.
  Proof. unfold mat_zero. destruct (s_grad s) eqn:E; cbn [s_grad set_grad]; [rewrite E|]; reflexivity. Qed.

  Lemma fold_mat_get args : forall (ops : ops_t) b,
    get_slot_ops (fold_mat ops args) b =
    if mem_addr b args then option_map (mat_zero VO) (get_slot_ops ops b) else get_slot_ops ops b.
  Proof.
    induction args as [|a args IH]; intros ops b; simpl; auto.
    unfold fold_mat in *. simpl. rewrite IH, upd_ops_get. fold (addr_eq a b).
    destruct (addr_eq a b); simpl; destruct (mem_addr b args); auto.
    destruct (get_slot_ops ops b); simpl; auto. rewrite mat_zero_idem. reflexivity.
  Qed.
  Lemma add_incs_get args : forall (ops : ops_t) incs b,
    get_slot_ops (add_incs VO ops args incs) b = option_map (add_all (incs_for b args incs)) (get_slot_ops ops b).
  Proof.
    induction args as [|a args IH]; intros ops [|inc incs] b; simpl; try (destruct (get_slot_ops ops b); reflexivity).
    rewrite IH, upd_ops_get. fold (addr_eq a b). destruct (addr_eq a b); simpl; auto.
    destruct (get_slot_ops ops b); reflexivity.
  Qed.

  Definition step_slot (k : nat) (args : list (nat * nat)) (incs : list V) (b : nat * nat) (s : slot) : slot :=
    if Nat.eqb k (fst b) then clr s
    else add_all (incs_for b args incs) (if mem_addr b args then mat_zero VO s else s).

  (* one enabled step = every slot transformed by step_slot, for increments [incs] *)
  Definition step_incs (k : nat) (ops : ops_t) (e : env) (cur : opinfo) (incs : list V) : Prop :=
    exists xs, Forall2 (fun a x => bread ops e a = Some x) (o_args cur) xs /\
      match f_inner F (o_op cur) with
      | Some _ => incs = []
      | None => exists ys, all_vals (o_rets cur) = Some ys /\
                           incs = eff_bw F (o_op cur) xs ys (map (grad_or_zero VO) (o_rets cur))
      end.

  Lemma mem_addr_in b args : mem_addr b args = true -> In b args.
  Proof.
    unfold mem_addr. rewrite existsb_exists. intros (a & Ha & E). destruct (addr_eq_spec a b); [subst; auto|discriminate].
  Qed.
  Lemma incs_for_nil b args incs : mem_addr b args = false -> incs_for b args incs = [].
  Proof.
    revert incs; induction args as [|a args IH]; intros [|inc incs] H; simpl in *; auto.
    apply orb_false_iff in H. destruct H as (H1 & H2). rewrite H1. auto.
  Qed.

  Lemma fold_mat_length args : forall ops : ops_t, length (fold_mat ops args) = length ops.
  Proof. induction args as [|a l IH]; intro o; simpl; auto. unfold fold_mat in *. simpl. rewrite IH. apply upd_ops_length. Qed.
  Lemma add_incs_length args : forall (o : ops_t) incs, length (add_incs VO o args incs) = length o.
  Proof. induction args as [|a l IH]; intros o [|i incs]; simpl; auto. rewrite IH. apply upd_ops_length. Qed.

  (* the effect of the step on the parameter store: BACKWARD(Parameter) *)
  Definition step_env (e : env) (cur : opinfo) : env :=
    match f_inner F (o_op cur), map (grad_or_zero VO) (o_rets cur) with
    | Some p, gy :: _ => add_pgrad VO e p gy
    | _, _ => e
    end.

  Lemma step_get k (ops : ops_t) e ops' e' : wf_ops ops -> bstep F VO k ops e = Some (ops', e', true) ->
    exists cur incs, nth_error ops k = Some cur /\ enabled (o_rets cur) = true /\ step_incs k ops e cur incs /\
      (forall b, get_slot_ops ops' b = option_map (step_slot k (o_args cur) incs b) (get_slot_ops ops b)) /\
      length ops' = length ops /\ sg ops' = sg ops /\ e' = step_env e cur.
  Proof.
    intros Hwf H. destruct (bstep_shape _ _ _ _ _ _ Hwf H) as (cur & Ecur & [(Hc & _)|(_ & Hen & Hrest)]); [discriminate|].
    cbv zeta in Hrest. destruct Hrest as (xs & Hxs & Hcase).
    assert (Hargs : forall a, In a (o_args cur) -> fst a <> k).
    { intros a Ha. pose proof (Hwf k cur Ecur) as Hf. rewrite Forall_forall in Hf. destruct (Hf a Ha). lia. }
    assert (Hmem : forall b, k = fst b -> mem_addr b (o_args cur) = false).
    { intros b Hb. destruct (mem_addr b (o_args cur)) eqn:E; auto. apply mem_addr_in in E. exfalso. apply (Hargs b E). auto. }
    destruct Hcase as [(p & gy & rest & Ein & Egys & -> & ->)|(Ein & ys & Eys & -> & ->)].
    - exists cur, []. split; [exact Ecur|]. split; [exact Hen|]. split; [exists xs; split; [exact Hxs|rewrite Ein; reflexivity]|].
      split; [|split; [|split]].
      + intro b. rewrite map_op_get, fold_mat_get, map_op_get. unfold step_slot.
        destruct (Nat.eqb_spec k (fst b)) as [Hk|Hk].
        * rewrite (Hmem b Hk). destruct (get_slot_ops ops b); simpl; [f_equal; apply mat_zero_grad_only|reflexivity].
        * assert (Hnil : incs_for b (o_args cur) [] = []) by (destruct (o_args cur); reflexivity). rewrite Hnil.
          destruct (mem_addr b (o_args cur)); destruct (get_slot_ops ops b); reflexivity.
      + rewrite map_op_length, fold_mat_length. apply map_op_length.
      + rewrite map_op_sg by apply clr_grad_only. rewrite fold_mat_sg. apply map_op_sg. apply mat_zero_grad_only.
      + unfold step_env. rewrite Ein, Egys. reflexivity.
    - exists cur, (eff_bw F (o_op cur) xs ys (map (grad_or_zero VO) (o_rets cur))).
      split; [exact Ecur|]. split; [exact Hen|]. split; [exists xs; split; [exact Hxs|rewrite Ein; exists ys; auto]|].
      split; [|split; [|split]].
      + intro b. rewrite map_op_get, add_incs_get, fold_mat_get, map_op_get. unfold step_slot.
        destruct (Nat.eqb_spec k (fst b)) as [Hk|Hk].
        * rewrite (Hmem b Hk), (incs_for_nil _ _ _ (Hmem b Hk)).
          destruct (get_slot_ops ops b); simpl; [f_equal; apply mat_zero_grad_only|reflexivity].
        * destruct (mem_addr b (o_args cur)); destruct (get_slot_ops ops b); reflexivity.
      + rewrite map_op_length, add_incs_length, fold_mat_length. apply map_op_length.
      + rewrite map_op_sg by apply clr_grad_only. rewrite add_incs_sg, fold_mat_sg. apply map_op_sg. apply mat_zero_grad_only.
      + unfold step_env. rewrite Ein. reflexivity.
  Qed.
End BackwardProofs.
