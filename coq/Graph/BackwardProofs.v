(* Proofs about Graph::backward and the parameter store (C06): structure of one sweep step. *)
From Coq Require Import List NArith Bool Arith Lia.
From PV Require Import Graph.OpFamily Graph.Tape Graph.Lazy Graph.Backward Graph.TapeLemmas Graph.LazyProofs.
Import ListNotations.

Section BackwardProofs.
  Context {Op Sh V : Type}.
  Variable F : OpFamily Op Sh V.
  Variable VO : ValOps Sh V.
  Notation gstate := (@gstate Op Sh V).
  Notation opinfo := (@opinfo Op Sh V).
  Notation slot := (@slot Sh V).
  Notation env := (@env V).
  Notation ops_t := (list opinfo).

  (* ---------- reset_gradient()/reset_gradients() return exactly to zero ---------- *)
  Lemma reset_zero (e : env) ps p sh :
    lookup p ps = Some sh ->
    e_pgrad (reset_gradients VO e ps) p = vzeros VO sh /\
    e_pval (reset_gradients VO e ps) = e_pval e /\ e_pos (reset_gradients VO e ps) = e_pos e /\
    forall q, lookup q ps = None -> e_pgrad (reset_gradients VO e ps) q = e_pgrad e q.
  Proof.
    intros H. cbn [reset_gradients e_pgrad e_pval e_pos]. rewrite H. repeat split; auto.
    intros q Hq. rewrite Hq. reflexivity.
  Qed.

  (* ---------- slot-wise description of the updates a sweep step performs ---------- *)
  Definition map_op (ops : ops_t) (k : nat) (f : slot -> slot) : ops_t :=
    match nth_error ops k with
    | Some oi => set_nth ops k (set_rets oi (map f (o_rets oi)))
    | None => ops
    end.
  Definition clr (s : slot) : slot := set_grad s None.
  Definition fold_mat (ops : ops_t) (args : list (nat * nat)) : ops_t :=
    fold_left (fun o a => upd_ops o a (mat_zero VO)) args ops.

  Lemma map_op_get ops k f b : get_slot_ops (map_op ops k f) b =
    if Nat.eqb k (fst b) then option_map f (get_slot_ops ops b) else get_slot_ops ops b.
  Proof.
    unfold map_op, get_slot_ops. destruct (Nat.eqb_spec k (fst b)) as [<-|N].
    - destruct (nth_error ops k) as [oi|] eqn:E; [|rewrite E; reflexivity].
      rewrite nth_error_set_nth_eq by (eapply nth_error_lt; eauto). cbn [o_rets set_rets]. rewrite nth_error_map. reflexivity.
    - destruct (nth_error ops k) as [oi|] eqn:E; auto. rewrite nth_error_set_nth_neq by auto. reflexivity.
  Qed.
  Lemma map_op_other ops k f j : j <> k -> nth_error (map_op ops k f) j = nth_error ops j.
  Proof. intros H. unfold map_op. destruct (nth_error ops k); auto. apply nth_error_set_nth_neq. auto. Qed.
  Lemma map_op_at ops k f oi : nth_error ops k = Some oi -> nth_error (map_op ops k f) k = Some (set_rets oi (map f (o_rets oi))).
  Proof. intros E. unfold map_op. rewrite E. apply nth_error_set_nth_eq. eapply nth_error_lt; eauto. Qed.
  Lemma map_op_some ops k f oi : nth_error ops k = Some oi -> map_op ops k f = set_nth ops k (set_rets oi (map f (o_rets oi))).
  Proof. intros E. unfold map_op. rewrite E. reflexivity. Qed.
  Lemma map_op_length ops k f : length (map_op ops k f) = length ops.
  Proof. unfold map_op. destruct (nth_error ops k); auto. apply length_set_nth. Qed.

  Lemma fold_mat_other args : forall ops j, (forall a, In a args -> fst a <> j) -> nth_error (fold_mat ops args) j = nth_error ops j.
  Proof.
    induction args as [|a args IH]; intros ops j H; simpl; auto.
    unfold fold_mat in *. simpl. rewrite IH by (intros b Hb; apply H; right; exact Hb).
    apply upd_ops_other. intro E. apply (H a); [left; reflexivity|auto].
  Qed.
  Lemma add_incs_other args : forall (ops : ops_t) incs j, (forall a, In a args -> fst a <> j) ->
    nth_error (add_incs VO ops args incs) j = nth_error ops j.
  Proof.
    induction args as [|a args IH]; intros ops [|inc incs] j H; simpl; auto.
    rewrite IH by (intros b Hb; apply H; right; exact Hb).
    apply upd_ops_other. intro E. apply (H a); [left; reflexivity|auto].
  Qed.

  (* what backward reads for argument a: the value, else the live parameter value *)
  Definition bread (ops : ops_t) (e : env) (a : nat * nat) : option V :=
    match nth_error ops (fst a) with
    | Some oi => match nth_error (o_rets oi) (snd a) with
                 | Some s => match s_val s with
                             | Some v => Some v
                             | None => match f_inner F (o_op oi) with Some p => Some (e_pval e p) | None => None end
                             end
                 | None => None
                 end
    | None => None
    end.

  Lemma grad_only_sg (ops : ops_t) a f : (forall s, set_grad (f s) None = set_grad s None) -> sg (upd_ops ops a f) = sg ops.
  Proof.
    intros Hf. unfold upd_ops. destruct (nth_error ops (fst a)) as [oi|] eqn:E; auto.
    destruct (nth_error (o_rets oi) (snd a)) as [s|] eqn:Es; auto.
    unfold sg. rewrite map_set_nth. apply set_nth_same. rewrite nth_error_map, E. simpl. f_equal.
    unfold strip_grads, set_rets. cbn [o_op o_args o_rets]. f_equal. rewrite map_set_nth. symmetry. apply set_nth_same.
    rewrite nth_error_map, Es. simpl. f_equal. symmetry. apply Hf.
  Qed.
  Lemma map_op_sg (ops : ops_t) k f : (forall s, set_grad (f s) None = set_grad s None) -> sg (map_op ops k f) = sg ops.
  Proof.
    intros Hf. unfold map_op. destruct (nth_error ops k) as [oi|] eqn:E; auto.
    unfold sg. rewrite map_set_nth. apply set_nth_same. rewrite nth_error_map, E. simpl. f_equal.
    unfold strip_grads, set_rets. cbn [o_op o_args o_rets]. f_equal. rewrite map_map. apply map_ext. intro s. symmetry. apply Hf.
  Qed.
  Lemma mat_zero_grad_only s : set_grad (mat_zero VO s) None = set_grad s None.
  Proof. unfold mat_zero. destruct (s_grad s); reflexivity. Qed.
  Lemma add_inc_grad_only inc s : set_grad (add_inc VO inc s) None = set_grad s None.
  Proof. unfold add_inc. destruct (s_grad s); reflexivity. Qed.
  Lemma clr_grad_only s : set_grad (clr s) None = set_grad s None.
  Proof. reflexivity. Qed.
  Lemma fold_mat_sg args : forall ops : ops_t, sg (fold_mat ops args) = sg ops.
  Proof.
    induction args as [|a args IH]; intro ops; simpl; auto. unfold fold_mat in *. simpl.
    rewrite IH. apply grad_only_sg. apply mat_zero_grad_only.
  Qed.
  Lemma add_incs_sg args : forall (ops : ops_t) incs, sg (add_incs VO ops args incs) = sg ops.
  Proof.
    induction args as [|a args IH]; intros ops [|inc incs]; simpl; auto.
    rewrite IH. apply grad_only_sg. apply add_inc_grad_only.
  Qed.

  Lemma sg_nth (ops ops' : ops_t) k : sg ops = sg ops' ->
    match nth_error ops k, nth_error ops' k with
    | Some a, Some b => o_op a = o_op b /\ o_args a = o_args b /\ length (o_rets a) = length (o_rets b) /\
                        map s_val (o_rets a) = map s_val (o_rets b) /\ map s_shape (o_rets a) = map s_shape (o_rets b)
    | None, None => True
    | _, _ => False
    end.
  Proof.
    intros H. assert (E : nth_error (sg ops) k = nth_error (sg ops') k) by (rewrite H; reflexivity).
    unfold sg in E. rewrite !nth_error_map in E.
    destruct (nth_error ops k) as [a|], (nth_error ops' k) as [b|]; simpl in E; try discriminate; auto.
    injection E as E1 E2 E3. repeat split; auto.
    - apply (f_equal (@length _)) in E3. rewrite !map_length in E3. exact E3.
    - apply (f_equal (map s_val)) in E3. rewrite !map_map in E3. exact E3.
    - apply (f_equal (map s_shape)) in E3. rewrite !map_map in E3. exact E3.
  Qed.

  Lemma gather_args_spec args : forall (ops : ops_t) e xs ops',
    gather_args F VO ops e args = Some (xs, ops') ->
    ops' = fold_mat ops args /\ Forall2 (fun a x => bread ops e a = Some x) args xs.
  Proof.
    induction args as [|a args IH]; intros ops e xs ops' H; simpl in H.
    - injection H as <- <-. split; [reflexivity|constructor].
    - destruct (nth_error ops (fst a)) as [arg_f|] eqn:Ef; [|discriminate].
      destruct (nth_error (o_rets arg_f) (snd a)) as [arg_n|] eqn:En; [|discriminate].
      match type of H with match ?ov with _ => _ end = _ => destruct ov as [v|] eqn:Ev end; [|discriminate].
      destruct (gather_args F VO (upd_ops ops a (mat_zero VO)) e args) as [[vs ops2]|] eqn:Eg; [|discriminate].
      injection H as <- <-. destruct (IH _ _ _ _ Eg) as (E2 & F2). split; [exact E2|]. constructor.
      + unfold bread. rewrite Ef, En. exact Ev.
      + eapply Forall2_impl; [|exact F2]. intros b y. cbv beta. unfold bread.
        (* values are not touched by the materialisation of a gradient *)
        pose proof (sg_nth (upd_ops ops a (mat_zero VO)) ops (fst b) (grad_only_sg ops a _ (mat_zero_grad_only))) as Hk.
        destruct (nth_error (upd_ops ops a (mat_zero VO)) (fst b)) as [o1|], (nth_error ops (fst b)) as [o2|]; try contradiction; auto.
        destruct Hk as (Eo & _ & _ & Evals & _). rewrite Eo.
        assert (Es : option_map s_val (nth_error (o_rets o1) (snd b)) = option_map s_val (nth_error (o_rets o2) (snd b))).
        { rewrite <- !nth_error_map, Evals. reflexivity. }
        destruct (nth_error (o_rets o1) (snd b)) as [s1|], (nth_error (o_rets o2) (snd b)) as [s2|]; simpl in Es; try discriminate; auto.
        injection Es as ->. auto.
  Qed.

  Lemma all_vals_map_grad (rets : list slot) (f : slot -> slot) : (forall s, s_val (f s) = s_val s) -> all_vals (map f rets) = all_vals rets.
  Proof. intros Hf. induction rets as [|s r IH]; simpl; auto. rewrite Hf, IH. reflexivity. Qed.
  Lemma grad_or_zero_mat s : grad_or_zero VO (mat_zero VO s) = grad_or_zero VO s.
  Proof. unfold grad_or_zero, mat_zero. destruct (s_grad s) eqn:E; cbn [s_grad set_grad s_shape]; [rewrite E|]; reflexivity. Qed.

  (* The shape of one iteration of the sweep loop on a well-formed tape. *)
  Definition step_shape (k : nat) (ops : ops_t) (e : env) (ops' : ops_t) (e' : env) (c : bool) : Prop :=
    exists cur, nth_error ops k = Some cur /\
      ((c = false /\ enabled (o_rets cur) = false /\ ops' = ops /\ e' = e) \/
       (c = true /\ enabled (o_rets cur) = true /\
        let ops2 := fold_mat (map_op ops k (mat_zero VO)) (o_args cur) in
        let gys := map (grad_or_zero VO) (o_rets cur) in
        exists xs, Forall2 (fun a x => bread ops e a = Some x) (o_args cur) xs /\
          ((exists p gy rest, f_inner F (o_op cur) = Some p /\ gys = gy :: rest /\
                              ops' = map_op ops2 k clr /\ e' = add_pgrad VO e p gy) \/
           (f_inner F (o_op cur) = None /\ exists ys, all_vals (o_rets cur) = Some ys /\
              ops' = map_op (add_incs VO ops2 (o_args cur) (eff_bw F (o_op cur) xs ys gys)) k clr /\ e' = e)))).

  Lemma bstep_shape k (ops : ops_t) e ops' e' c : wf_ops ops ->
    bstep F VO k ops e = Some (ops', e', c) -> step_shape k ops e ops' e' c.
  Proof.
    intros Hwf H. unfold bstep in H. destruct (nth_error ops k) as [cur|] eqn:Ecur; [|discriminate].
    exists cur. split; [exact Ecur|].
    destruct (enabled (o_rets cur)) eqn:Een; simpl in H.
    2:{ injection H as <- <- <-. left. auto. }
    right.
    assert (Hargs : forall a, In a (o_args cur) -> fst a <> k).
    { intros a Ha. pose proof (Hwf k cur Ecur) as Hf. rewrite Forall_forall in Hf. destruct (Hf a Ha). lia. }
    assert (E1 : set_nth ops k (set_rets cur (map (mat_zero VO) (o_rets cur))) = map_op ops k (mat_zero VO)) by (unfold map_op; rewrite Ecur; reflexivity).
    rewrite E1 in H.
    destruct (gather_args F VO (map_op ops k (mat_zero VO)) e (o_args cur)) as [[xs ops2]|] eqn:Eg; [|discriminate].
    destruct (gather_args_spec _ _ _ _ _ Eg) as (-> & Hxs).
    assert (Ek2 : nth_error (fold_mat (map_op ops k (mat_zero VO)) (o_args cur)) k = Some (set_rets cur (map (mat_zero VO) (o_rets cur)))).
    { rewrite fold_mat_other by auto. apply map_op_at. exact Ecur. }
    rewrite Ek2 in H. cbn [o_op o_rets o_args set_rets] in H.
    assert (Hgys : map (grad_or_zero VO) (map (mat_zero VO) (o_rets cur)) = map (grad_or_zero VO) (o_rets cur)).
    { rewrite map_map. apply map_ext. intro s. apply grad_or_zero_mat. }
    rewrite Hgys in H.
    assert (Hxs' : Forall2 (fun a x => bread ops e a = Some x) (o_args cur) xs).
    { eapply Forall2_impl_In; [|exact Hxs]. intros a x Ha. cbv beta. unfold bread. rewrite map_op_other by (apply Hargs; auto). auto. }
    destruct (f_inner F (o_op cur)) as [p|] eqn:Ein.
    - destruct (map (grad_or_zero VO) (o_rets cur)) as [|gy rest] eqn:Eg0; [discriminate|].
      rewrite Ek2 in H. injection H as <- <- <-.
      split; [reflexivity|]. split; [reflexivity|]. cbv zeta. exists xs. split; [exact Hxs'|].
      left. exists p, gy, rest. repeat split; auto.
      rewrite (map_op_some _ _ _ _ Ek2). reflexivity.
    - rewrite all_vals_map_grad in H by (intro s; unfold mat_zero; destruct (s_grad s); reflexivity).
      destruct (all_vals (o_rets cur)) as [ys|] eqn:Ey; [|discriminate].
      match type of H with match nth_error ?o k with _ => _ end = _ => destruct (nth_error o k) as [cur3|] eqn:E3; [|discriminate] end.
      injection H as <- <- <-.
      split; [reflexivity|]. split; [reflexivity|]. cbv zeta. exists xs. split; [exact Hxs'|].
      right. split; [reflexivity|]. exists ys. split; [reflexivity|].
      split; [|reflexivity]. rewrite (map_op_some _ _ _ _ E3). reflexivity.
  Qed.

  (* ---------- the step, slot by slot ---------- *)
  Definition addr_eq (a b : nat * nat) : bool := (Nat.eqb (fst a) (fst b) && Nat.eqb (snd a) (snd b))%bool.
  Lemma addr_eq_spec a b : reflect (a = b) (addr_eq a b).
  Proof.
    unfold addr_eq. destruct a as [a1 a2], b as [b1 b2]; simpl.
    destruct (Nat.eqb_spec a1 b1), (Nat.eqb_spec a2 b2); simpl; constructor; congruence.
  Qed.
  Definition mem_addr (b : nat * nat) (args : list (nat * nat)) : bool := existsb (fun a => addr_eq a b) args.
  Fixpoint incs_for (b : nat * nat) (args : list (nat * nat)) (incs : list V) : list V :=
    match args, incs with
    | a :: args', inc :: incs' => if addr_eq a b then inc :: incs_for b args' incs' else incs_for b args' incs'
    | _, _ => []
    end.
  Definition add_all (l : list V) (s : slot) : slot := fold_left (fun s inc => add_inc VO inc s) l s.

  Lemma mat_zero_idem s : mat_zero VO (mat_zero VO s) = mat_zero VO s.
  Proof. unfold mat_zero. destruct (s_grad s) eqn:E; cbn [s_grad set_grad]; [rewrite E|]; reflexivity. Qed.

  Lemma fold_mat_get args : forall (ops : ops_t) b,
    get_slot_ops (fold_mat ops args) b =
    if mem_addr b args then option_map (mat_zero VO) (get_slot_ops ops b) else get_slot_ops ops b.
  Proof.
    induction args as [|a args IH]; intros ops b; simpl; auto.
    unfold fold_mat in *. simpl. rewrite IH, upd_ops_get. fold (addr_eq a b).
    destruct (addr_eq a b); simpl; destruct (mem_addr b args); auto.
    destruct (get_slot_ops ops b); simpl; auto. rewrite mat_zero_idem. reflexivity.
  Qed.
  Lemma add_incs_get args : forall (ops : ops_t) incs b,
    get_slot_ops (add_incs VO ops args incs) b = option_map (add_all (incs_for b args incs)) (get_slot_ops ops b).
  Proof.
    induction args as [|a args IH]; intros ops [|inc incs] b; simpl; try (destruct (get_slot_ops ops b); reflexivity).
    rewrite IH, upd_ops_get. fold (addr_eq a b). destruct (addr_eq a b); simpl; auto.
    destruct (get_slot_ops ops b); reflexivity.
  Qed.

  Definition step_slot (k : nat) (args : list (nat * nat)) (incs : list V) (b : nat * nat) (s : slot) : slot :=
    if Nat.eqb k (fst b) then clr s
    else add_all (incs_for b args incs) (if mem_addr b args then mat_zero VO s else s).

  (* one enabled step = every slot transformed by step_slot, for increments [incs] *)
  Definition step_incs (k : nat) (ops : ops_t) (e : env) (cur : opinfo) (incs : list V) : Prop :=
    exists xs, Forall2 (fun a x => bread ops e a = Some x) (o_args cur) xs /\
      match f_inner F (o_op cur) with
      | Some _ => incs = []
      | None => exists ys, all_vals (o_rets cur) = Some ys /\
                           incs = eff_bw F (o_op cur) xs ys (map (grad_or_zero VO) (o_rets cur))
      end.

  Lemma mem_addr_in b args : mem_addr b args = true -> In b args.
  Proof.
    unfold mem_addr. rewrite existsb_exists. intros (a & Ha & E). destruct (addr_eq_spec a b); [subst; auto|discriminate].
  Qed.
  Lemma incs_for_nil b args incs : mem_addr b args = false -> incs_for b args incs = [].
  Proof.
    revert incs; induction args as [|a args IH]; intros [|inc incs] H; simpl in *; auto.
    apply orb_false_iff in H. destruct H as (H1 & H2). rewrite H1. auto.
  Qed.

  Lemma fold_mat_length args : forall ops : ops_t, length (fold_mat ops args) = length ops.
  Proof. induction args as [|a l IH]; intro o; simpl; auto. unfold fold_mat in *. simpl. rewrite IH. apply upd_ops_length. Qed.
  Lemma add_incs_length args : forall (o : ops_t) incs, length (add_incs VO o args incs) = length o.
  Proof. induction args as [|a l IH]; intros o [|i incs]; simpl; auto. rewrite IH. apply upd_ops_length. Qed.

  (* the effect of the step on the parameter store: BACKWARD(Parameter) *)
  Definition step_env (e : env) (cur : opinfo) : env :=
    match f_inner F (o_op cur), map (grad_or_zero VO) (o_rets cur) with
    | Some p, gy :: _ => add_pgrad VO e p gy
    | _, _ => e
    end.

  Lemma step_get k (ops : ops_t) e ops' e' : wf_ops ops -> bstep F VO k ops e = Some (ops', e', true) ->
    exists cur incs, nth_error ops k = Some cur /\ enabled (o_rets cur) = true /\ step_incs k ops e cur incs /\
      (forall b, get_slot_ops ops' b = option_map (step_slot k (o_args cur) incs b) (get_slot_ops ops b)) /\
      length ops' = length ops /\ sg ops' = sg ops /\ e' = step_env e cur.
  Proof.
    intros Hwf H. destruct (bstep_shape _ _ _ _ _ _ Hwf H) as (cur & Ecur & [(Hc & _)|(_ & Hen & Hrest)]); [discriminate|].
    cbv zeta in Hrest. destruct Hrest as (xs & Hxs & Hcase).
    assert (Hargs : forall a, In a (o_args cur) -> fst a <> k).
    { intros a Ha. pose proof (Hwf k cur Ecur) as Hf. rewrite Forall_forall in Hf. destruct (Hf a Ha). lia. }
    assert (Hmem : forall b, k = fst b -> mem_addr b (o_args cur) = false).
    { intros b Hb. destruct (mem_addr b (o_args cur)) eqn:E; auto. apply mem_addr_in in E. exfalso. apply (Hargs b E). auto. }
    destruct Hcase as [(p & gy & rest & Ein & Egys & -> & ->)|(Ein & ys & Eys & -> & ->)].
    - exists cur, []. split; [exact Ecur|]. split; [exact Hen|]. split; [exists xs; split; [exact Hxs|rewrite Ein; reflexivity]|].
      split; [|split; [|split]].
      + intro b. rewrite map_op_get, fold_mat_get, map_op_get. unfold step_slot.
        destruct (Nat.eqb_spec k (fst b)) as [Hk|Hk].
        * rewrite (Hmem b Hk). destruct (get_slot_ops ops b); simpl; [f_equal; apply mat_zero_grad_only|reflexivity].
        * assert (Hnil : incs_for b (o_args cur) [] = []) by (destruct (o_args cur); reflexivity). rewrite Hnil.
          destruct (mem_addr b (o_args cur)); destruct (get_slot_ops ops b); reflexivity.
      + rewrite map_op_length, fold_mat_length. apply map_op_length.
      + rewrite map_op_sg by apply clr_grad_only. rewrite fold_mat_sg. apply map_op_sg. apply mat_zero_grad_only.
      + unfold step_env. rewrite Ein, Egys. reflexivity.
    - exists cur, (eff_bw F (o_op cur) xs ys (map (grad_or_zero VO) (o_rets cur))).
      split; [exact Ecur|]. split; [exact Hen|]. split; [exists xs; split; [exact Hxs|rewrite Ein; exists ys; auto]|].
      split; [|split; [|split]].
      + intro b. rewrite map_op_get, add_incs_get, fold_mat_get, map_op_get. unfold step_slot.
        destruct (Nat.eqb_spec k (fst b)) as [Hk|Hk].
        * rewrite (Hmem b Hk), (incs_for_nil _ _ _ (Hmem b Hk)).
          destruct (get_slot_ops ops b); simpl; [f_equal; apply mat_zero_grad_only|reflexivity].
        * destruct (mem_addr b (o_args cur)); destruct (get_slot_ops ops b); reflexivity.
      + rewrite map_op_length, add_incs_length, fold_mat_length. apply map_op_length.
      + rewrite map_op_sg by apply clr_grad_only. rewrite add_incs_sg, fold_mat_sg. apply map_op_sg. apply mat_zero_grad_only.
      + unfold step_env. rewrite Ein. reflexivity.
  Qed.

  (* ---------- invariants of the whole sweep ---------- *)
  Lemma sg_wf (ops ops' : ops_t) : sg ops = sg ops' -> wf_ops ops -> wf_ops ops'.
  Proof.
    intros H Hwf k oi E. pose proof (sg_nth ops ops' k H) as Hk. rewrite E in Hk.
    destruct (nth_error ops k) as [oi0|] eqn:E0; [|contradiction]. destruct Hk as (_ & Ea & _).
    rewrite <- Ea. eapply Forall_impl; [|exact (Hwf k oi0 E0)]. cbv beta. intros a (Hlt & oa & Eoa & Hv).
    split; auto. pose proof (sg_nth ops ops' (fst a) H) as Hk'. rewrite Eoa in Hk'.
    destruct (nth_error ops' (fst a)) as [ob|]; [|contradiction]. exists ob. split; auto. destruct Hk' as (_ & _ & El & _). lia.
  Qed.

  Lemma bstep_sg k (ops : ops_t) e ops' e' c : wf_ops ops -> bstep F VO k ops e = Some (ops', e', c) -> sg ops' = sg ops.
  Proof.
    intros Hwf H. destruct c.
    - destruct (step_get _ _ _ _ _ Hwf H) as (_ & _ & _ & _ & _ & _ & _ & Hs & _). exact Hs.
    - destruct (bstep_shape _ _ _ _ _ _ Hwf H) as (cur & _ & [(_ & _ & -> & _)|(Hc & _)]); [reflexivity|discriminate].
  Qed.

  Lemma sweep_inv (P : nat -> ops_t -> env -> list nat -> Prop) :
    (forall k ops e bl ops1 e1 c, wf_ops ops -> bstep F VO k ops e = Some (ops1, e1, c) ->
        P (S k) ops e bl -> P k ops1 e1 (if c then bl ++ [k] else bl)) ->
    forall k ops e bl ops' e' bl', wf_ops ops -> sweep F VO k ops e bl = Some (ops', e', bl') ->
      P (S k) ops e bl -> P 0 ops' e' bl'.
  Proof.
    intros Hstep. induction k as [|k IH]; intros ops e bl ops' e' bl' Hwf H HP; simpl in H.
    - destruct (bstep F VO 0 ops e) as [[[ops1 e1] c]|] eqn:Eb; [|discriminate]. injection H as <- <- <-.
      eapply Hstep; eauto.
    - destruct (bstep F VO (S k) ops e) as [[[ops1 e1] c]|] eqn:Eb; [|discriminate].
      eapply IH; [|exact H|eapply Hstep; eauto]. eapply sg_wf; [symmetry; eapply bstep_sg; eauto|exact Hwf].
  Qed.

  Definition gclear_from (n : nat) (ops : ops_t) : Prop :=
    forall b s, get_slot_ops ops b = Some s -> n <= fst b -> s_grad s = None.
  Definition gclean (ops : ops_t) : Prop := forall b s, get_slot_ops ops b = Some s -> s_grad s = None.

  Lemma enabled_false (oi : opinfo) j s : enabled (o_rets oi) = false -> nth_error (o_rets oi) j = Some s -> s_grad s = None.
  Proof.
    unfold enabled. intros H Hj. destruct (s_grad s) eqn:E; auto.
    assert (existsb has_grad (o_rets oi) = true); [|congruence].
    apply existsb_exists. exists s. split; [eapply nth_error_In; eauto|]. unfold has_grad. rewrite E. reflexivity.
  Qed.

  Lemma add_all_nil s : add_all [] s = s.
  Proof. reflexivity. Qed.

  (* sweep: only gradients change (no value, no shape, no structure), parameter values and
     streams are untouched, and at the end no node gradient is left *)
  Lemma sweep_clean k (ops : ops_t) e bl ops' e' bl' : wf_ops ops ->
    sweep F VO k ops e bl = Some (ops', e', bl') -> gclear_from (S k) ops ->
    sg ops' = sg ops /\ gclean ops' /\ e_pval e' = e_pval e /\ e_pos e' = e_pos e.
  Proof.
    intros Hwf H Hc.
    pose (P := fun (n : nat) (o : ops_t) (e1 : env) (_ : list nat) =>
                 sg o = sg ops /\ gclear_from n o /\ e_pval e1 = e_pval e /\ e_pos e1 = e_pos e).
    assert (HP : P 0 ops' e' bl').
    { eapply (sweep_inv P); [|exact Hwf|exact H|unfold P; auto].
      clear. intros k ops0 e0 bl ops1 e1 c Hwf Hb (Hs & Hcl & Hp & Hq). unfold P.
      split; [rewrite (bstep_sg _ _ _ _ _ _ Hwf Hb); exact Hs|].
      destruct c.
      - destruct (step_get _ _ _ _ _ Hwf Hb) as (cur & incs & Ecur & Hen & _ & Hget & _ & _ & ->).
        split; [|split].
        + intros b s Hb0 Hle. rewrite Hget in Hb0. destruct (get_slot_ops ops0 b) as [s0|] eqn:E0; [|discriminate].
          injection Hb0 as <-. unfold step_slot. destruct (Nat.eqb_spec k (fst b)) as [Hk|Hk]; [reflexivity|].
          assert (Hm : mem_addr b (o_args cur) = false).
          { destruct (mem_addr b (o_args cur)) eqn:Em; auto. apply mem_addr_in in Em.
            pose proof (Hwf k cur Ecur) as Hf. rewrite Forall_forall in Hf. destruct (Hf b Em). lia. }
          rewrite Hm, (incs_for_nil _ _ _ Hm). simpl. apply (Hcl b s0 E0). lia.
        + unfold step_env. destruct (f_inner F (o_op cur)); [destruct (map (grad_or_zero VO) (o_rets cur))|]; exact Hp.
        + unfold step_env. destruct (f_inner F (o_op cur)); [destruct (map (grad_or_zero VO) (o_rets cur))|]; exact Hq.
      - destruct (bstep_shape _ _ _ _ _ _ Hwf Hb) as (cur & Ecur & [(_ & Hen & -> & ->)|(Hcc & _)]); [|discriminate].
        split; [|auto]. intros b s Hb0 Hle. destruct (Nat.eq_dec (fst b) k) as [Hk|Hk].
        + unfold get_slot_ops in Hb0. rewrite Hk, Ecur in Hb0. eapply enabled_false; eauto.
        + apply (Hcl b s Hb0). lia. }
    destruct HP as (A & B & C & D). split; [exact A|]. split; [|auto]. intros b s Hb0. apply (B b s Hb0). lia.
  Qed.

  (* ---------- backward only ever ADDS to parameter gradients, independently of their content ---------- *)
  Definition with_pgrad (e : env) (g0 : nat -> V) : env := {| e_pval := e_pval e; e_pgrad := g0; e_pos := e_pos e |}.
  Definition apply_cs (e : env) (cs : list (nat * V)) : env :=
    fold_left (fun e c => add_pgrad VO e (fst c) (snd c)) cs e.

  Lemma apply_cs_app e cs1 cs2 : apply_cs e (cs1 ++ cs2) = apply_cs (apply_cs e cs1) cs2.
  Proof. unfold apply_cs. apply fold_left_app. Qed.
  Lemma apply_cs_pval cs : forall e, e_pval (apply_cs e cs) = e_pval e /\ e_pos (apply_cs e cs) = e_pos e.
  Proof. induction cs as [|c cs IH]; intro e; simpl; auto. destruct (IH (add_pgrad VO e (fst c) (snd c))) as (A & B). rewrite A, B. auto. Qed.
  (* the gradient of p after the contributions = the prior gradient with p's contributions added in order *)
  Definition cs_for (p : nat) (cs : list (nat * V)) : list V := map snd (filter (fun c => Nat.eqb (fst c) p) cs).
  Lemma apply_cs_pgrad cs : forall e p, e_pgrad (apply_cs e cs) p = fold_left (vadd VO) (cs_for p cs) (e_pgrad e p).
  Proof.
    induction cs as [|c cs IH]; intros e p; simpl; auto. rewrite IH. unfold cs_for. simpl. cbn [add_pgrad e_pgrad].
    rewrite (Nat.eqb_sym (fst c) p). destruct (Nat.eqb_spec p (fst c)) as [->|N]; simpl; reflexivity.
  Qed.

  Lemma gather_args_pval args : forall (ops : ops_t) e1 e2, e_pval e1 = e_pval e2 ->
    gather_args F VO ops e1 args = gather_args F VO ops e2 args.
  Proof.
    induction args as [|a args IH]; intros ops e1 e2 H; simpl; auto.
    destruct (nth_error ops (fst a)) as [arg_f|]; auto. destruct (nth_error (o_rets arg_f) (snd a)) as [arg_n|]; auto.
    rewrite H. destruct (match s_val arg_n with Some v => Some v | None => match f_inner F (o_op arg_f) with Some p => Some (e_pval e2 p) | None => None end end); auto.
    rewrite (IH _ e1 e2 H). reflexivity.
  Qed.

  Lemma bstep_indep k (ops : ops_t) e1 ops' e1' c : bstep F VO k ops e1 = Some (ops', e1', c) ->
    exists cs, e1' = apply_cs e1 cs /\
      forall e2, e_pval e2 = e_pval e1 -> bstep F VO k ops e2 = Some (ops', apply_cs e2 cs, c).
  Proof.
    intro H. unfold bstep in H. destruct (nth_error ops k) as [cur|] eqn:Ecur; [|discriminate].
    destruct (negb (enabled (o_rets cur))) eqn:Een.
    { injection H as <- <- <-. exists []. split; [reflexivity|]. intros e2 _. unfold bstep. rewrite Ecur, Een. reflexivity. }
    destruct (gather_args F VO (set_nth ops k (set_rets cur (map (mat_zero VO) (o_rets cur)))) e1 (o_args cur)) as [[xs ops2]|] eqn:Eg; [|discriminate].
    destruct (nth_error ops2 k) as [cur2|] eqn:E2; [|discriminate].
    destruct (f_inner F (o_op cur2)) as [p|] eqn:Ein.
    - destruct (map (grad_or_zero VO) (o_rets cur2)) as [|gy rest] eqn:Egy; [discriminate|].
      rewrite E2 in H. injection H as <- <- <-. exists [(p, gy)]. split; [reflexivity|].
      intros e2 He. unfold bstep. rewrite Ecur, Een, (gather_args_pval _ _ e2 e1 He), Eg, E2, Ein, Egy, E2. reflexivity.
    - destruct (all_vals (o_rets cur2)) as [ys|] eqn:Eys; [|discriminate].
      match type of H with match nth_error ?o k with _ => _ end = _ => destruct (nth_error o k) as [cur3|] eqn:E3; [|discriminate] end.
      injection H as <- <- <-. exists []. split; [reflexivity|].
      intros e2 He. unfold bstep. rewrite Ecur, Een, (gather_args_pval _ _ e2 e1 He), Eg, E2, Ein, Eys, E3. reflexivity.
  Qed.

  Lemma sweep_indep k : forall (ops : ops_t) e1 bl ops' e1' bl', sweep F VO k ops e1 bl = Some (ops', e1', bl') ->
    exists cs, e1' = apply_cs e1 cs /\
      forall e2, e_pval e2 = e_pval e1 -> sweep F VO k ops e2 bl = Some (ops', apply_cs e2 cs, bl').
  Proof.
    induction k as [|k IH]; intros ops e1 bl ops' e1' bl' H; simpl in H.
    - destruct (bstep F VO 0 ops e1) as [[[ops1 e1a] c]|] eqn:Eb; [|discriminate]. injection H as <- <- <-.
      destruct (bstep_indep _ _ _ _ _ _ Eb) as (cs & E & Hall). exists cs. split; [exact E|].
      intros e2 He. simpl. rewrite (Hall e2 He). reflexivity.
    - destruct (bstep F VO (S k) ops e1) as [[[ops1 e1a] c]|] eqn:Eb; [|discriminate].
      destruct (bstep_indep _ _ _ _ _ _ Eb) as (cs1 & E1 & Hall1).
      destruct (IH _ _ _ _ _ _ H) as (cs2 & E2 & Hall2). exists (cs1 ++ cs2).
      split; [rewrite apply_cs_app, <- E1; exact E2|].
      intros e2 He. simpl. rewrite (Hall1 e2 He). rewrite apply_cs_app. apply Hall2.
      rewrite E1. destruct (apply_cs_pval cs1 e2) as (A & _). destruct (apply_cs_pval cs1 e1) as (B & _). congruence.
  Qed.

  (* forward never reads nor writes parameter gradients *)
  Lemma fwd_pgrad fuel : forall (g : gstate) e a g0,
    fwd F fuel g (with_pgrad e g0) a =
    match fwd F fuel g e a with Some (v, g', e') => Some (v, g', with_pgrad e' g0) | None => None end.
  Proof.
    induction fuel as [|fu IH]; intros g e a g0; [reflexivity|].
    cbn [fwd]. fold (go_args F fu).
    destruct (nth_error (g_ops g) (fst a)) as [cur|]; [|reflexivity].
    destruct (f_inner F (o_op cur)); [reflexivity|].
    destruct (nth_error (o_rets cur) (snd a)) as [cur_n|]; [|reflexivity].
    destruct (s_val cur_n); [reflexivity|].
    assert (Hgo : forall l g1 e1, go_args F fu l g1 (with_pgrad e1 g0) =
              match go_args F fu l g1 e1 with Some (vs, g2, e2) => Some (vs, g2, with_pgrad e2 g0) | None => None end).
    { induction l as [|x l IHl]; intros g1 e1; simpl; [reflexivity|]. rewrite IH.
      destruct (fwd F fu g1 e1 x) as [[[vx g2] e2]|]; [|reflexivity]. rewrite IHl.
      destruct (go_args F fu l g2 e2) as [[[vs g3] e3]|]; reflexivity. }
    rewrite Hgo. destruct (go_args F fu (o_args cur) g e) as [[[vs g1] e1]|]; [|reflexivity].
    destruct (f_rand F (o_op cur)) as [[d n]|]; cbn [with_pgrad e_pos];
      destruct (nth_error (g_ops g1) (fst a)) as [cur1|]; try reflexivity;
      match goal with |- context [nth_error ?o (snd a)] => destruct (nth_error o (snd a)) end; reflexivity.
  Qed.

  Lemma with_pgrad_self (e : env) : with_pgrad e (e_pgrad e) = e.
  Proof. destruct e; reflexivity. Qed.

  (* backward_only_adds: there is a list of contributions cs, independent of the prior
     gradients, such that for EVERY prior gradient function g0 the call returns the same graph,
     the same parameter values / streams, and gradient(p) = g0 p += each contribution for p *)
  Theorem backward_only_adds (g : gstate) e n g' e' : backward F VO g e n = Some (g', e') ->
    exists cs, forall g0, exists e0',
      backward F VO g (with_pgrad e g0) n = Some (g', e0') /\
      e_pval e0' = e_pval e' /\ e_pos e0' = e_pos e' /\
      forall p, e_pgrad e0' p = fold_left (vadd VO) (cs_for p cs) (g0 p).
  Proof.
    unfold backward. destruct (get_slot g n) as [last_n|]; [|discriminate].
    intro H.
    assert (Hpre : exists g1 e1, (match s_val last_n with Some _ => Some (g, e) | None =>
                     match forward F g e n with Some (_, g1, e1) => Some (g1, e1) | None => None end end) = Some (g1, e1) /\
                   forall g0, (match s_val last_n with Some _ => Some (g, with_pgrad e g0) | None =>
                     match forward F g (with_pgrad e g0) n with Some (_, g1, e1) => Some (g1, e1) | None => None end end) = Some (g1, with_pgrad e1 g0)).
    { destruct (s_val last_n).
      - exists g, e. split; [reflexivity|]. intro g0. reflexivity.
      - unfold forward in *. destruct (get_slot g n); [|discriminate].
        destruct (fwd F (S (fst n)) g e n) as [[[v g1] e1]|] eqn:Ef; [|discriminate].
        exists g1, e1. split; [reflexivity|]. intro g0. rewrite fwd_pgrad, Ef. reflexivity. }
    destruct Hpre as (g1 & e1 & Hp1 & Hp2). rewrite Hp1 in H.
    destruct (sweep F VO (fst n) (upd_ops (g_ops g1) n (fun s => set_grad s (Some (vones VO (s_shape s))))) e1 (g_blog g1)) as [[[ops' e1'] bl']|] eqn:Es; [|discriminate].
    injection H as <- <-. destruct (sweep_indep _ _ _ _ _ _ _ Es) as (cs & Ecs & Hall).
    exists cs. intro g0. exists (apply_cs (with_pgrad e1 g0) cs). rewrite Hp2. rewrite (Hall (with_pgrad e1 g0) eq_refl).
    split; [reflexivity|]. rewrite Ecs.
    destruct (apply_cs_pval cs (with_pgrad e1 g0)) as (A & B). destruct (apply_cs_pval cs e1) as (A' & B').
    split; [rewrite A, A'; reflexivity|]. split; [rewrite B, B'; reflexivity|].
    intro p. rewrite apply_cs_pgrad. reflexivity.
  Qed.

  (* ---------- isolation: only ancestors of the target are ever touched ---------- *)
  Lemma add_all_grad_none l : forall s : slot, s_grad s = None -> s_grad (add_all l s) = None.
  Proof. induction l as [|x l IH]; intros s H; simpl; auto. apply IH. unfold add_inc. rewrite H. exact H. Qed.
  Lemma step_slot_grad k args incs b (s : slot) :
    s_grad (step_slot k args incs b s) <> None -> s_grad s <> None \/ (k <> fst b /\ In b args).
  Proof.
    unfold step_slot. destruct (Nat.eqb_spec k (fst b)) as [Hk|Hk]; [simpl; congruence|].
    destruct (mem_addr b args) eqn:Em.
    - intros _. right. split; auto. apply mem_addr_in. exact Em.
    - intro H. left. intro Hn. apply H. apply add_all_grad_none. exact Hn.
  Qed.

  Lemma sg_args (ops ops' : ops_t) : sg ops = sg ops' -> forall k, args_of ops k = args_of ops' k.
  Proof.
    intros H k. pose proof (sg_nth ops ops' k H) as Hk. unfold args_of.
    destruct (nth_error ops k), (nth_error ops' k); try contradiction; auto. tauto.
  Qed.
  Lemma sg_inner (ops ops' : ops_t) : sg ops = sg ops' -> forall k, inner_of F ops k = inner_of F ops' k.
  Proof.
    intros H k. pose proof (sg_nth ops ops' k H) as Hk. unfold inner_of.
    destruct (nth_error ops k), (nth_error ops' k); try contradiction; auto. destruct Hk as (E & _). rewrite E. reflexivity.
  Qed.
  Lemma sg_anc (ops ops' : ops_t) : sg ops = sg ops' -> forall j k, anc ops j k -> anc ops' j k.
  Proof.
    intros H j k Ha. induction Ha as [k|j a k Hin _ IH]; [constructor|].
    eapply anc_step; eauto. rewrite <- (sg_args _ _ H). exact Hin.
  Qed.

  Definition gsub (ops0 : ops_t) (T : nat) (ops : ops_t) : Prop :=
    forall b s, get_slot_ops ops b = Some s -> s_grad s <> None -> anc ops0 (fst b) T.

  Lemma enabled_true (oi : opinfo) : enabled (o_rets oi) = true -> exists j s, nth_error (o_rets oi) j = Some s /\ s_grad s <> None.
  Proof.
    unfold enabled. rewrite existsb_exists. intros (s & Hin & Hg). apply In_nth_error in Hin. destruct Hin as (j & Hj).
    exists j, s. split; auto. unfold has_grad in Hg. destruct (s_grad s); [discriminate|discriminate].
  Qed.

  Lemma sweep_anc k (ops : ops_t) e bl ops' e' bl' T : wf_ops ops ->
    sweep F VO k ops e bl = Some (ops', e', bl') -> gsub ops T ops ->
    (forall j, In j bl' -> In j bl \/ anc ops j T) /\
    (forall p, (forall j, anc ops j T -> inner_of F ops j <> Some p) -> e_pgrad e' p = e_pgrad e p).
  Proof.
    intros Hwf H Hg.
    pose (P := fun (n : nat) (o : ops_t) (e1 : env) (bl1 : list nat) =>
                 sg o = sg ops /\ gsub ops T o /\ (forall j, In j bl1 -> In j bl \/ anc ops j T) /\
                 (forall p, (forall j, anc ops j T -> inner_of F ops j <> Some p) -> e_pgrad e1 p = e_pgrad e p)).
    assert (HP : P 0 ops' e' bl').
    { eapply (sweep_inv P); [|exact Hwf|exact H|unfold P; auto].
      clear H Hg. intros k0 ops0 e0 bl0 ops1 e1 c Hwf0 Hb (Hs & Hgs & Hbl & Hpg). unfold P.
      split; [rewrite (bstep_sg _ _ _ _ _ _ Hwf0 Hb); exact Hs|].
      destruct c.
      - destruct (step_get _ _ _ _ _ Hwf0 Hb) as (cur & incs & Ecur & Hen & _ & Hget & _ & _ & ->).
        assert (Hk : anc ops k0 T).
        { destruct (enabled_true cur Hen) as (j & s & Hj & Hsg). apply (Hgs (k0, j) s); auto.
          unfold get_slot_ops. simpl. rewrite Ecur. exact Hj. }
        split; [|split].
        + intros b s Hb0 Hsg. rewrite Hget in Hb0. destruct (get_slot_ops ops0 b) as [s0|] eqn:E0; [|discriminate].
          injection Hb0 as <-. destruct (step_slot_grad _ _ _ _ _ Hsg) as [Hold|(_ & Hin)]; [eapply Hgs; eauto|].
          eapply anc_trans; [|exact Hk]. eapply anc_step; [|apply anc_refl]. rewrite <- (sg_args _ _ Hs). unfold args_of. rewrite Ecur. exact Hin.
        + intros j Hj. apply in_app_or in Hj. destruct Hj as [Hj|[<-|[]]]; auto.
        + intros p Hp. rewrite <- (Hpg p Hp). unfold step_env.
          destruct (f_inner F (o_op cur)) as [q|] eqn:Eq; [|reflexivity].
          destruct (map (grad_or_zero VO) (o_rets cur)); [reflexivity|]. cbn [add_pgrad e_pgrad].
          destruct (Nat.eqb_spec p q) as [->|N]; [|reflexivity]. exfalso. apply (Hp k0 Hk).
          rewrite <- (sg_inner _ _ Hs). unfold inner_of. rewrite Ecur. exact Eq.
      - destruct (bstep_shape _ _ _ _ _ _ Hwf0 Hb) as (cur & Ecur & [(_ & Hen & -> & ->)|(Hcc & _)]); [|discriminate]. auto. }
    destruct HP as (_ & _ & A & B). auto.
  Qed.

  (* ---------- blocked paths: what is not reached by a gradient-carrying path only ever sees zeros ---------- *)
  (* glive ops T k: a gradient-carrying path leads from the target operator T to operator k
     (every operator on the way, T included, has a real backward: not BACKWARD_NOP) *)
  Inductive glive (ops : ops_t) (T : nat) : nat -> Prop :=
  | gl_root : glive ops T T
  | gl_step k oi a : glive ops T k -> nth_error ops k = Some oi -> f_nop F (o_op oi) = false ->
                     In a (o_args oi) -> glive ops T (fst a).

  Lemma sg_glive (ops ops' : ops_t) T : sg ops = sg ops' -> forall k, glive ops T k -> glive ops' T k.
  Proof.
    intros H k Hg. induction Hg as [|k oi a _ IH E Hn Ha]; [constructor|].
    pose proof (sg_nth ops ops' k H) as Hk. rewrite E in Hk. destruct (nth_error ops' k) as [oi'|] eqn:E'; [|contradiction].
    destruct Hk as (Eo & Ea & _). eapply gl_step; [exact IH|exact E'| |]; congruence.
  Qed.

  Definition shape_ok (ops : ops_t) : Prop :=
    forall k oi, nth_error ops k = Some oi -> f_inner F (o_op oi) = None ->
      exists ashs, Forall2 (fun a sh => exists s, get_slot_ops ops a = Some s /\ s_shape s = sh) (o_args oi) ashs /\
                   f_shape F (o_op oi) ashs = Some (map s_shape (o_rets oi)).

  (* contract used only for the blocked-path theorem: `+= zeros` is all a backward does when
     every upstream gradient is zeros (backward is linear in gy), and zeros + zeros = zeros *)
  Hypothesis Hzz : forall sh, vadd VO (vzeros VO sh) (vzeros VO sh) = vzeros VO sh.
  Hypothesis Hbwz : forall o ashs rshs xs ys, f_shape F o ashs = Some rshs ->
    forall i inc, nth_error (f_bw F o xs ys (map (vzeros VO) rshs)) i = Some inc ->
      exists sh, nth_error ashs i = Some sh /\ inc = vzeros VO sh.

  Definition zgrad (s : slot) : Prop := forall x, s_grad s = Some x -> x = vzeros VO (s_shape s).

  Lemma add_all_zeros l : forall s : slot, zgrad s -> Forall (fun x => x = vzeros VO (s_shape s)) l -> zgrad (add_all l s).
  Proof.
    induction l as [|x l IH]; intros s Hz Hl; simpl; auto. inversion Hl as [|? ? Hx Hl']; subst.
    assert (Hsh : s_shape (add_inc VO (vzeros VO (s_shape s)) s) = s_shape s) by (unfold add_inc; destruct (s_grad s); reflexivity).
    apply IH.
    - unfold zgrad, add_inc. destruct (s_grad s) as [gx|] eqn:Eg; cbn [s_grad set_grad s_shape]; [|rewrite Eg; discriminate].
      intros y [= <-]. rewrite (Hz gx Eg). apply Hzz.
    - rewrite Hsh. exact Hl'.
  Qed.

  Lemma incs_for_zeros (ops : ops_t) b sb : get_slot_ops ops b = Some sb ->
    forall args incs,
    (forall i inc, nth_error incs i = Some inc -> exists a s, nth_error args i = Some a /\ get_slot_ops ops a = Some s /\ inc = vzeros VO (s_shape s)) ->
    Forall (fun x => x = vzeros VO (s_shape sb)) (incs_for b args incs).
  Proof.
    intros Hb. induction args as [|a args IH]; intros [|inc incs] H; simpl; try constructor.
    assert (Htail : Forall (fun x => x = vzeros VO (s_shape sb)) (incs_for b args incs)).
    { apply IH. intros i inc0 Hi. apply (H (S i) inc0 Hi). }
    destruct (addr_eq_spec a b) as [->|N]; [|exact Htail]. constructor; [|exact Htail].
    destruct (H 0 inc eq_refl) as (a0 & s0 & Ea & Es & ->). simpl in Ea. injection Ea as <-. congruence.
  Qed.

  Definition zero_of (ops : ops_t) (p : nat) (z : V) : Prop :=
    exists k oi s, nth_error ops k = Some oi /\ f_inner F (o_op oi) = Some p /\ In s (o_rets oi) /\ z = vzeros VO (s_shape s).

  Lemma sweep_blocked k (ops : ops_t) e bl ops' e' bl' T : wf_ops ops -> shape_ok ops ->
    sweep F VO k ops e bl = Some (ops', e', bl') ->
    (forall b s, get_slot_ops ops b = Some s -> ~ glive ops T (fst b) -> zgrad s) ->
    forall p, (forall j, glive ops T j -> inner_of F ops j <> Some p) ->
      exists zs, e_pgrad e' p = fold_left (vadd VO) zs (e_pgrad e p) /\ Forall (zero_of ops p) zs.
  Proof.
    intros Hwf Hsh H Hz.
    pose (P := fun (n : nat) (o : ops_t) (e1 : env) (bl1 : list nat) =>
                 sg o = sg ops /\ (forall b s, get_slot_ops o b = Some s -> ~ glive ops T (fst b) -> zgrad s) /\
                 (forall p, (forall j, glive ops T j -> inner_of F ops j <> Some p) ->
                    exists zs, e_pgrad e1 p = fold_left (vadd VO) zs (e_pgrad e p) /\ Forall (zero_of ops p) zs)).
    assert (HP : P 0 ops' e' bl').
    { eapply (sweep_inv P); [|exact Hwf|exact H|].
      2:{ unfold P. split; [reflexivity|]. split; [exact Hz|]. intros p _. exists []. split; [reflexivity|constructor]. }
      clear H Hz. intros k0 ops0 e0 bl0 ops1 e1 c Hwf0 Hb (Hs & Hzs & Hpg). unfold P.
      split; [rewrite (bstep_sg _ _ _ _ _ _ Hwf0 Hb); exact Hs|].
      destruct c.
      2:{ destruct (bstep_shape _ _ _ _ _ _ Hwf0 Hb) as (cur & Ecur & [(_ & Hen & -> & ->)|(Hcc & _)]); [|discriminate]. auto. }
      destruct (step_get _ _ _ _ _ Hwf0 Hb) as (cur & incs & Ecur & Hen & (xs & Hxs & Hincs) & Hget & _ & _ & ->).
      (* the original entry of k0: same operator, arguments, shapes *)
      pose proof (sg_nth ops0 ops k0 Hs) as Hk0. rewrite Ecur in Hk0.
      destruct (nth_error ops k0) as [cur0|] eqn:Ecur0; [|contradiction]. destruct Hk0 as (Eo & Ea & _ & _ & Eshp).
      (* upstream gradients of a non-live operator are all zeros *)
      assert (Hgys : ~ glive ops T k0 -> map (grad_or_zero VO) (o_rets cur) = map (vzeros VO) (map s_shape (o_rets cur))).
      { intro Hnl. rewrite map_map. apply list_ext. intro j. rewrite !nth_error_map.
        destruct (nth_error (o_rets cur) j) as [s|] eqn:Ej; [|reflexivity]. simpl. f_equal.
        unfold grad_or_zero. destruct (s_grad s) as [x|] eqn:Ex; [|reflexivity].
        apply (Hzs (k0, j) s); auto. unfold get_slot_ops. simpl. rewrite Ecur. exact Ej. }
      split.
      - intros b s Hb0 Hnl. rewrite Hget in Hb0. destruct (get_slot_ops ops0 b) as [s0|] eqn:E0; [|discriminate].
        injection Hb0 as <-. pose proof (Hzs b s0 E0 Hnl) as Hz0. unfold step_slot.
        destruct (Nat.eqb_spec k0 (fst b)) as [Hk|Hk]; [intros x; simpl; discriminate|].
        set (s1 := if mem_addr b (o_args cur) then mat_zero VO s0 else s0).
        assert (Hz1 : zgrad s1 /\ s_shape s1 = s_shape s0).
        { unfold s1. destruct (mem_addr b (o_args cur)); [|auto]. unfold mat_zero, zgrad.
          destruct (s_grad s0) eqn:Eg; [auto|]. cbn [s_grad set_grad s_shape]. split; [intros x [= <-]; reflexivity|reflexivity]. }
        destruct Hz1 as (Hz1 & Hsh1). apply add_all_zeros; [exact Hz1|]. rewrite Hsh1.
        destruct (f_inner F (o_op cur)) as [q|] eqn:Eq.
        { subst incs. destruct (o_args cur); constructor. }
        destruct Hincs as (ys & Hys & ->). unfold eff_bw.
        destruct (f_nop F (o_op cur)) eqn:Enop; [destruct (o_args cur); constructor|].
        destruct (mem_addr b (o_args cur)) eqn:Em; [|rewrite incs_for_nil by exact Em; constructor].
        (* b is an argument of k0; b not live and k0 has a real backward, so k0 is not live *)
        assert (Hnl0 : ~ glive ops T k0).
        { intro Hl. apply Hnl. apply mem_addr_in in Em. eapply gl_step; [exact Hl|exact Ecur0|congruence|congruence]. }
        rewrite (Hgys Hnl0).
        assert (Ein0 : f_inner F (o_op cur0) = None) by congruence.
        destruct (Hsh k0 cur0 Ecur0 Ein0) as (ashs & Hashs & Hfs).
        apply (incs_for_zeros ops0 b s0 E0). intros i inc Hi.
        rewrite Eshp, Eo in Hi. destruct (Hbwz _ _ _ xs ys Hfs i inc Hi) as (sh & Esh & ->).
        (* position i of the argument list has shape sh, also in the current state *)
        destruct (nth_error (o_args cur0) i) as [a|] eqn:Eai.
        2:{ apply nth_error_None in Eai. apply Forall2_length' in Hashs. apply nth_error_lt in Esh. lia. }
        assert (Hai : exists s, get_slot_ops ops a = Some s /\ s_shape s = sh).
        { clear - Hashs Eai Esh. revert i Eai Esh. induction Hashs as [|a0 sh0 l l' Hx _ IH]; intros [|i] Eai Esh; simpl in *; try discriminate.
          - injection Eai as <-. injection Esh as <-. exact Hx.
          - eapply IH; eauto. }
        destruct Hai as (sa & Esa & <-). exists a. rewrite Ea.
        (* same shape in ops0 *)
        pose proof (sg_nth ops0 ops (fst a) Hs) as Hka. unfold get_slot_ops in Esa |- *.
        destruct (nth_error ops (fst a)) as [oa|] eqn:Eoa; [|discriminate].
        destruct (nth_error ops0 (fst a)) as [oa0|] eqn:Eoa0; [|contradiction]. destruct Hka as (_ & _ & _ & _ & Eshs).
        assert (Hshape : option_map s_shape (nth_error (o_rets oa0) (snd a)) = option_map s_shape (nth_error (o_rets oa) (snd a)))
          by (rewrite <- !nth_error_map, Eshs; reflexivity).
        rewrite Esa in Hshape. destruct (nth_error (o_rets oa0) (snd a)) as [sa0|]; [|discriminate].
        simpl in Hshape. injection Hshape as Hshape. exists sa0. rewrite Hshape. auto.
      - intros p Hp. destruct (Hpg p Hp) as (zs & Ez & Hzs'). unfold step_env.
        destruct (f_inner F (o_op cur)) as [q|] eqn:Eq; [|exists zs; auto].
        destruct (map (grad_or_zero VO) (o_rets cur)) as [|gy rest] eqn:Egy; [exists zs; auto|].
        cbn [add_pgrad e_pgrad]. destruct (Nat.eqb_spec p q) as [->|N]; [|exists zs; auto].
        assert (Hnl0 : ~ glive ops T k0).
        { intro Hl. apply (Hp k0 Hl). unfold inner_of. rewrite Ecur0. congruence. }
        exists (zs ++ [gy]). rewrite fold_left_app. simpl. rewrite Ez. split; [reflexivity|].
        apply Forall_app. split; [exact Hzs'|]. constructor; [|constructor].
        pose proof (Hgys Hnl0) as Hg0. rewrite Eshp in Hg0. destruct (o_rets cur0) as [|s r] eqn:Er; [discriminate|].
        simpl in Hg0. injection Hg0 as -> _. exists k0, cur0, s. rewrite Er. repeat split; auto; [congruence|left; reflexivity]. }
    destruct HP as (_ & _ & A). exact A.
  Qed.
End BackwardProofs.
