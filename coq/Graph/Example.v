(* A small concrete operator family over Z-vectors (parameter, input, random source, add,
   multiply, stop_gradient, two-output split) used by the non-vacuity Examples of the
   Properties files: it satisfies every contract the theorems assume. *)
From Coq Require Import List NArith ZArith Bool Arith Lia.
From PV Require Import Graph.OpFamily Graph.Tape Graph.Lazy Graph.Backward.
Import ListNotations.
Local Open Scope Z_scope.

Inductive eop := EParam (p n : nat) | EInput (v : list Z) | ERand (n : nat) | EAdd | EMul | EStop | ESplit2.

Definition zvec := list Z.
Fixpoint zadd (a b : zvec) : zvec := match a, b with x :: a', y :: b' => (x + y) :: zadd a' b' | _, _ => [] end.
Fixpoint zmulg (gy b : zvec) : zvec :=            (* gy .* b, as long as gy *)
  match gy with [] => [] | g :: gy' => (g * hd 0 b) :: zmulg gy' (tl b) end.
Fixpoint zmul (a b : zvec) : zvec := match a, b with x :: a', y :: b' => (x * y) :: zmul a' b' | _, _ => [] end.

Definition e_fw (o : eop) (pos : N) (xs : list zvec) : list zvec :=
  match o, xs with
  | EParam _ _, _ => [[]]
  | EInput v, _ => [v]
  | ERand n, _ => [map (fun i => Z.of_N pos + Z.of_nat i) (seq 0 n)]
  | EAdd, [a; b] => [zadd a b]
  | EMul, [a; b] => [zmul a b]
  | EStop, [a] => [a]
  | ESplit2, [a] => [firstn (length a / 2) a; skipn (length a / 2) a]
  | ESplit2, _ => [[]; []]
  | _, _ => [[]]
  end.
Definition e_bw (o : eop) (xs ys gys : list zvec) : list zvec :=
  match o, xs, gys with
  | EAdd, _, [gy] => [gy; gy]
  | EMul, [a; b], [gy] => [zmulg gy b; zmulg gy a]
  | EMul, _, [gy] => [zmulg gy []; zmulg gy []]
  | ESplit2, _, [g1; g2] => [g1 ++ g2]
  | _, _, _ => []
  end.
Definition e_shape (o : eop) (shs : list nat) : option (list nat) :=
  match o, shs with
  | EParam _ n, [] => Some [n]
  | EInput v, [] => Some [length v]
  | ERand n, [] => Some [n]
  | EAdd, [n; m] => if Nat.eqb n m then Some [n] else None
  | EMul, [n; m] => if Nat.eqb n m then Some [n] else None
  | EStop, [n] => Some [n]
  | ESplit2, [n] => if Nat.even n then Some [Nat.div n 2; Nat.div n 2] else None
  | _, _ => None
  end.

Definition EF : OpFamily eop nat zvec := {|
  f_argn := fun o => match o with EParam _ _ | EInput _ | ERand _ => ArgExact 0 | EAdd | EMul => ArgExact 2 | EStop | ESplit2 => ArgExact 1 end;
  f_retn := fun o => match o with ESplit2 => 2%nat | _ => 1%nat end;
  f_inner := fun o => match o with EParam p _ => Some p | _ => None end;
  f_dev := fun o => match o with EParam _ _ | EInput _ | ERand _ => Some 0%nat | _ => None end;
  f_rand := fun o => match o with ERand n => Some (0%nat, N.of_nat n) | _ => None end;
  f_nop := fun o => match o with EInput _ | ERand _ | EStop => true | _ => false end;
  f_shape := e_shape;
  f_fw := e_fw;
  f_bw := e_bw |}.
Definition EV : ValOps nat zvec := {| vzeros := fun n => repeat 0 n; vones := fun n => repeat 1 n; vadd := zadd |}.

Lemma EF_fw_len o pos xs : length (f_fw EF o pos xs) = f_retn EF o.
Proof. destruct o; simpl; auto; destruct xs as [|a [|b [|c xs]]]; reflexivity. Qed.
Lemma EF_sh_len o shs rs : f_shape EF o shs = Some rs -> length rs = f_retn EF o.
Proof.
  destruct o; simpl; destruct shs as [|n1 [|n2 [|n3 shs]]]; simpl; try discriminate; try (intros [= <-]; reflexivity).
  - destruct (Nat.eqb n1 n2); [intros [= <-]; reflexivity|discriminate].
  - destruct (Nat.eqb n1 n2); [intros [= <-]; reflexivity|discriminate].
  - destruct (Nat.even n1); [intros [= <-]; reflexivity|discriminate].
Qed.
Lemma EF_inner_argn o p : f_inner EF o = Some p -> f_argn EF o = ArgExact 0.
Proof. destruct o; simpl; try discriminate. reflexivity. Qed.
Lemma EV_zz sh : vadd EV (vzeros EV sh) (vzeros EV sh) = vzeros EV sh.
Proof. simpl. induction sh; simpl; auto. f_equal. exact IHsh. Qed.
Lemma zmulg_zeros n b : zmulg (repeat 0 n) b = repeat 0 n.
Proof. revert b; induction n; intro b; simpl; auto. f_equal. apply IHn. Qed.
Lemma EF_bwz o ashs rshs xs ys : f_shape EF o ashs = Some rshs ->
  forall i inc, nth_error (f_bw EF o xs ys (map (vzeros EV) rshs)) i = Some inc ->
    exists sh, nth_error ashs i = Some sh /\ inc = vzeros EV sh.
Proof.
  destruct o; simpl; destruct ashs as [|n1 [|n2 [|n3 ashs]]]; simpl; try discriminate;
    try (intros [= <-] i inc; simpl; destruct i; discriminate).
  - destruct (Nat.eqb_spec n1 n2) as [->|]; [|discriminate]. intros [= <-] i inc. simpl.
    destruct i as [|[|i]]; simpl; try (intros [= <-]; eauto). destruct i; discriminate.
  - destruct (Nat.eqb_spec n1 n2) as [->|]; [|discriminate]. intros [= <-] i inc. simpl.
    destruct xs as [|a [|b [|c xs]]]; simpl; destruct i as [|[|i]]; simpl; try (intros [= <-]; rewrite zmulg_zeros; eauto); destruct i; discriminate.
  - destruct (Nat.even n1) eqn:En; [|discriminate]. intros [= <-] i inc. simpl.
    destruct i as [|i]; simpl; [|destruct i; discriminate]. intros [= <-]. exists n1. split; auto.
    rewrite <- repeat_app. f_equal. apply Nat.even_spec in En. destruct En as (h & ->).
    change (fst (Nat.divmod (2 * h) 1 0 1)) with (Nat.div (2 * h) 2). rewrite (Nat.mul_comm 2 h), Nat.div_mul by lia. lia.
Qed.

Local Close Scope Z_scope.
Local Open Scope nat_scope.
(* a history: two graphs sharing parameter 0; dropout-like mask r; stop_gradient branch *)
Definition ex_env : @env zvec :=
  {| e_pval := fun p => match p with O => [2; 3]%Z | _ => [5; 7]%Z end;
     e_pgrad := fun p => match p with O => [10; 20]%Z | _ => [30; 40]%Z end;
     e_pos := fun _ => 0%N |}.
Definition ex_w0 : @world eop nat zvec := {| w_graphs := []; w_env := ex_env |}.
Definition nd (g o v : nat) : @node := (g, (o, v)).
Definition ex_cmds : list (@cmd eop nat zvec) :=
  [ CNewGraph;
    CAdd 0 (EParam 0 2) [];                        (* 0 *)
    CAdd 0 (EParam 1 2) [];                        (* 1 *)
    CAdd 0 (ERand 2) [];                           (* 2 *)
    CAdd 0 EMul [nd 0 0 0; nd 0 2 0];              (* 3 = p0 * r *)
    CAdd 0 EStop [nd 0 1 0];                       (* 4 = stop_gradient p1 *)
    CAdd 0 EAdd [nd 0 3 0; nd 0 4 0];              (* 5 *)
    CAdd 0 (ERand 2) [];                           (* 6: never evaluated *)
    CAdd 0 EMul [nd 0 5 0; nd 0 5 0];              (* 7 = (..)^2 *) 
    CBackward 0 (5, 0);
    CForward 0 (7, 0);
    CBackward 0 (5, 0) ].
