(* Totality of the reverse sweep at the tape level (C01, graph level): on a well-formed tape
   whose operators are evaluated and whose arguments are readable ([tape_ready], a decidable
   condition on the tape alone), the sweep started at any node of the tape returns a result;
   hence the adjoint theorem of Graph/ADProof.v holds with its hypothesis `sweep ... = Some _`
   REMOVED.  [consistent_ready]: the hypothesis `consistent` of the adjoint theorem already gives
   readiness once every non-parameter operator is evaluated and Parameter operators take no
   arguments.  The operator family's forward / backward are total functions (f_fw, f_bw return
   lists): nothing is assumed of them here. *)
From Coq Require Import List NArith Bool Arith Lia Ring.
From PV Require Import Graph.OpFamily Graph.Tape Graph.Lazy Graph.Backward Graph.TapeLemmas
  Graph.LazyProofs Graph.BackwardProofs Graph.HistoryProofs Graph.FrameProofs Graph.MoreProofs Graph.Theorems
  Graph.ADProof Graph.Totality.
Import ListNotations.

Section TotalityAD.
  Context {R : Type} (rO rI : R) (radd rmul rsub : R -> R -> R) (ropp : R -> R).
  Hypothesis Rth : ring_theory rO rI radd rmul rsub ropp eq.
  Notation vec := (@OpFamily.vec R).
  Context {Op Sh : Type}.
  Variable F : OpFamily Op Sh vec.
  Variable jvp : JvpFamily (R := R) Op.
  Variable size : Sh -> nat.
  Notation VO := (vec_ops rO rI radd size).
  Notation opinfo := (@opinfo Op Sh vec).
  Notation env := (@env vec).
  Notation ops_t := (list opinfo).
  Variable tan : nat * nat -> vec.
  Variable dp : nat -> vec.

  Lemma all_vals_has_val (rets : list (@slot Sh vec)) ys : all_vals rets = Some ys -> forallb has_val rets = true.
  Proof.
    revert ys; induction rets as [|s r IH]; intros ys H; simpl in *; [reflexivity|].
    unfold has_val at 1. destruct (s_val s); [|discriminate]. destruct (all_vals r) as [vs|]; [|discriminate].
    simpl. eapply IH; reflexivity.
  Qed.

  (* the evaluated tapes the adjoint theorem talks about are ready *)
  Lemma consistent_ready (ops : ops_t) (e : env) :
    consistent F jvp tan dp ops e ->
    (forall k oi, nth_error ops k = Some oi -> f_inner F (o_op oi) = None -> all_vals (o_rets oi) <> None) ->
    (forall k oi p, nth_error ops k = Some oi -> f_inner F (o_op oi) = Some p -> o_args oi = []) ->
    tape_ready F ops.
  Proof.
    intros Hcons Hev Hpa. unfold tape_ready, tape_ready_b. apply forallb_forall. intros oi Hin.
    apply In_nth_error in Hin. destruct Hin as (k & Ek). unfold op_ready_b.
    pose proof (Hcons k oi Ek) as Hc. destruct (f_inner F (o_op oi)) as [p|] eqn:Ein.
    - rewrite (Hpa k oi p Ek Ein). reflexivity.
    - destruct (all_vals (o_rets oi)) as [ys|] eqn:Eys; [|exfalso; exact (Hev k oi Ek Ein Eys)].
      destruct (Hc ys eq_refl) as (pos & xs & Hxs & _).
      apply andb_true_iff. split; [|exact (all_vals_has_val _ _ Eys)].
      apply forallb_forall. intros a Ha. destruct (Forall2_in_l _ _ _ Hxs a Ha) as (x & _ & Hx).
      apply (readable_bread F ops e a). congruence.
  Qed.

  (* reverse_sweep_adjoint without the hypothesis that the sweep returns *)
  Theorem reverse_sweep_adjoint_total (ops0 : ops_t) (e0 : env) (ps : list nat) :
    wf_ops ops0 ->
    (forall k oi, nth_error ops0 k = Some oi -> f_inner F (o_op oi) = None -> LocalAdjoint rO radd rmul F jvp size (o_op oi)) ->
    shape_ok F ops0 -> consistent F jvp tan dp ops0 e0 -> rsized F size tan ops0 e0 -> NoDup ps ->
    (forall k oi p, nth_error ops0 k = Some oi -> f_inner F (o_op oi) = Some p -> In p ps) ->
    tape_ready F ops0 ->
    forall n sn bl, gclean ops0 -> psz F size ops0 e0 -> get_slot_ops ops0 n = Some sn ->
    exists ops' e' bl',
      sweep F VO (fst n) (upd_ops ops0 n (fun s => set_grad s (Some (vones VO (s_shape s))))) e0 bl = Some (ops', e', bl') /\
      ppot rO radd rmul dp ps e' = radd (ppot rO radd rmul dp ps e0) (dot rO radd rmul (vones VO (s_shape sn)) (tan n)) /\
      gclean ops' /\ e_pval e' = e_pval e0.
  Proof.
    intros Hwf HLA Hshape Hcons Hsized Hnd Hcover Hready n sn bl Hclean Hpsz Hn.
    destruct (sweep_seeded_total F VO ops0 e0 n sn bl Hwf Hready Hn) as (ops' & e' & bl' & Hs).
    exists ops', e', bl'. split; [exact Hs|].
    exact (reverse_sweep_adjoint rO rI radd rmul rsub ropp Rth F jvp size tan dp ops0 e0 ps
             Hwf HLA Hshape Hcons Hsized Hnd Hcover n sn bl ops' e' bl' Hclean Hpsz Hn Hs).
  Qed.

  (* Graph::backward on a graph whose operators are all ready and whose target is evaluated *)
  Theorem backward_adjoint_total (g : @gstate Op Sh vec) (e0 : env) (ps : list nat) :
    wf_ops (g_ops g) ->
    (forall k oi, nth_error (g_ops g) k = Some oi -> f_inner F (o_op oi) = None -> LocalAdjoint rO radd rmul F jvp size (o_op oi)) ->
    shape_ok F (g_ops g) -> consistent F jvp tan dp (g_ops g) e0 -> rsized F size tan (g_ops g) e0 -> NoDup ps ->
    (forall k oi p, nth_error (g_ops g) k = Some oi -> f_inner F (o_op oi) = Some p -> In p ps) ->
    tape_ready F (g_ops g) ->
    forall n sn v, gclean (g_ops g) -> psz F size (g_ops g) e0 -> get_slot g n = Some sn -> s_val sn = Some v ->
    exists g' e',
      backward F VO g e0 n = Some (g', e') /\
      ppot rO radd rmul dp ps e' = radd (ppot rO radd rmul dp ps e0) (dot rO radd rmul (vones VO (s_shape sn)) (tan n)) /\
      gclean (g_ops g') /\ e_pval e' = e_pval e0.
  Proof.
    intros Hwf HLA Hshape Hcons Hsized Hnd Hcover Hready n sn v Hclean Hpsz Hn Hv.
    destruct (sweep_seeded_total F VO (g_ops g) e0 n sn (g_blog g) Hwf Hready Hn) as (ops' & e' & bl' & Hs).
    assert (Hb : backward F VO g e0 n = Some ({| g_ops := ops'; g_log := g_log g; g_blog := bl' |}, e')).
    { unfold backward. rewrite Hn, Hv, Hs. reflexivity. }
    eexists _, e'. split; [exact Hb|].
    exact (backward_adjoint rO rI radd rmul rsub ropp Rth F jvp size tan dp (g_ops g) e0 ps
             Hwf HLA Hshape Hcons Hsized Hnd Hcover g n sn v _ e' eq_refl Hclean Hpsz Hn Hv Hb).
  Qed.

  (* Graph::backward on a graph satisfying the invariant of reachable graphs (later, unevaluated
     operators allowed): no readiness hypothesis, FamOK instead *)
  Theorem backward_adjoint_total_inv (HF : FamOK F) (g : @gstate Op Sh vec) (e0 : env) (ps : list nat) :
    ginv F (g_ops g) ->
    (forall k oi, nth_error (g_ops g) k = Some oi -> f_inner F (o_op oi) = None -> LocalAdjoint rO radd rmul F jvp size (o_op oi)) ->
    shape_ok F (g_ops g) -> consistent F jvp tan dp (g_ops g) e0 -> rsized F size tan (g_ops g) e0 -> NoDup ps ->
    (forall k oi p, nth_error (g_ops g) k = Some oi -> f_inner F (o_op oi) = Some p -> In p ps) ->
    forall n sn v, gclean (g_ops g) -> psz F size (g_ops g) e0 -> get_slot g n = Some sn -> s_val sn = Some v ->
    exists g' e',
      backward F VO g e0 n = Some (g', e') /\
      ppot rO radd rmul dp ps e' = radd (ppot rO radd rmul dp ps e0) (dot rO radd rmul (vones VO (s_shape sn)) (tan n)) /\
      gclean (g_ops g') /\ e_pval e' = e_pval e0.
  Proof.
    intros Hinv HLA Hshape Hcons Hsized Hnd Hcover n sn v Hclean Hpsz Hn Hv.
    assert (Hs : get_slot g n <> None) by congruence.
    destruct (backward_total F VO (proj1 HF) g e0 n Hinv Hclean Hs) as (g' & e' & Hb).
    exists g', e'. split; [exact Hb|].
    exact (backward_adjoint rO rI radd rmul rsub ropp Rth F jvp size tan dp (g_ops g) e0 ps
             (proj1 Hinv) HLA Hshape Hcons Hsized Hnd Hcover g n sn v g' e' eq_refl Hclean Hpsz Hn Hv Hb).
  Qed.

  (* on a graph of ANY world reachable by a history: well-formedness, shape_ok and the absence of
     node gradients are no longer hypotheses either - they hold on every reachable graph *)
  Theorem backward_adjoint_reachable (HF : FamOK F) (e : env) (cs : list (@cmd Op Sh vec)) gi
    (g : @gstate Op Sh vec) (e0 : env) (ps : list nat) :
    nth_error (w_graphs (run_all F VO {| w_graphs := []; w_env := e |} cs)) gi = Some g ->
    (forall k oi, nth_error (g_ops g) k = Some oi -> f_inner F (o_op oi) = None -> LocalAdjoint rO radd rmul F jvp size (o_op oi)) ->
    consistent F jvp tan dp (g_ops g) e0 -> rsized F size tan (g_ops g) e0 -> NoDup ps ->
    (forall k oi p, nth_error (g_ops g) k = Some oi -> f_inner F (o_op oi) = Some p -> In p ps) ->
    forall n sn v, psz F size (g_ops g) e0 -> get_slot g n = Some sn -> s_val sn = Some v ->
    exists g' e',
      backward F VO g e0 n = Some (g', e') /\
      ppot rO radd rmul dp ps e' = radd (ppot rO radd rmul dp ps e0) (dot rO radd rmul (vones VO (s_shape sn)) (tan n)) /\
      gclean (g_ops g') /\ e_pval e' = e_pval e0.
  Proof.
    intros Eg HLA Hcons Hsized Hnd Hcover n sn v Hpsz Hn Hv.
    destruct (T_reachable_invariant F VO HF e cs) as (Hw & Hsh).
    unfold winv, wshape in *. rewrite Forall_forall in Hw, Hsh.
    destruct (Hw g (nth_error_In _ _ Eg)) as (Hinv & Hclean & _). pose proof (Hsh g (nth_error_In _ _ Eg)) as Hshape.
    exact (backward_adjoint_total_inv HF g e0 ps Hinv HLA Hshape Hcons Hsized Hnd Hcover n sn v Hclean Hpsz Hn Hv).
  Qed.
End TotalityAD.
