(* The statements served to Props/Properties_C05.v and Properties_C06.v, with the contract of
   the operator family bundled in [FamOK] / [ZeroOK]. *)
From Coq Require Import List NArith Bool Arith Lia.
From PV Require Import Graph.OpFamily Graph.Tape Graph.Lazy Graph.Backward Graph.TapeLemmas
  Graph.LazyProofs Graph.BackwardProofs Graph.HistoryProofs Graph.FrameProofs Graph.MoreProofs.
Import ListNotations.

(* What the theorems assume about the (abstract) operator family:
   forward assigns every output; forward_shape returns one shape per output; an operator with
   inner values (the Parameter operator) takes no arguments. *)
Definition FamOK {Op Sh V} (F : OpFamily Op Sh V) : Prop :=
  (forall o pos xs, length (f_fw F o pos xs) = f_retn F o) /\
  (forall o shs rs, f_shape F o shs = Some rs -> length rs = f_retn F o) /\
  (forall o p, f_inner F o = Some p -> f_argn F o = ArgExact 0).
(* Only for the blocked-path theorem: zeros + zeros = zeros, and a backward whose upstream
   gradients are all zeros adds zeros (of the arguments' shapes). *)
Definition ZeroOK {Op Sh V} (F : OpFamily Op Sh V) (VO : ValOps Sh V) : Prop :=
  (forall sh, vadd VO (vzeros VO sh) (vzeros VO sh) = vzeros VO sh) /\
  (forall o ashs rshs xs ys, f_shape F o ashs = Some rshs ->
     forall i inc, nth_error (f_bw F o xs ys (map (vzeros VO) rshs)) i = Some inc ->
       exists sh, nth_error ashs i = Some sh /\ inc = vzeros VO sh).

Section Theorems.
  Context {Op Sh V : Type}.
  Variable F : OpFamily Op Sh V.
  Variable VO : ValOps Sh V.
  Hypothesis HF : FamOK F.
  Notation gstate := (@gstate Op Sh V).
  Notation env := (@env V).
  Notation world := (@world Op Sh V).

  Let H1 := proj1 HF.
  Let H2 := proj1 (proj2 HF).
  Let H3 := proj2 (proj2 HF).

  (* ---------------- C05 ---------------- *)
  Lemma T_forward_evaluates_exactly (g : gstate) (e : env) a : ginv F (g_ops g) -> get_slot g a <> None ->
    exists v g' e', forward F g e a = Some (v, g', e') /\ fexact F g e a v g' e'.
  Proof. exact (forward_exact F H1 g e a). Qed.

  Lemma T_value_immutable (w : world) cs gi g a s v : winv F w ->
    nth_error (w_graphs w) gi = Some g -> get_slot g a = Some s -> s_val s = Some v ->
    exists g' s', nth_error (w_graphs (run_all F VO w cs)) gi = Some g' /\ get_slot g' a = Some s' /\ s_val s' = Some v.
  Proof. exact (value_immutable F VO H1 H2 H3 w cs gi g a s v). Qed.

  Lemma T_evaluated_at_most_once (w : world) cs gi g' : winv F w ->
    nth_error (w_graphs (run_all F VO w cs)) gi = Some g' ->
    NoDup (g_log g') /\ (forall k, In k (g_log g') -> evald (g_ops g') k) /\ gclean (g_ops g').
  Proof. exact (evaluated_at_most_once F VO H1 H2 H3 w cs gi g'). Qed.

  Lemma T_reachable_invariant (e : env) cs :
    winv F (run_all F VO {| w_graphs := []; w_env := e |} cs) /\ wshape F (run_all F VO {| w_graphs := []; w_env := e |} cs).
  Proof. apply (run_all_shape F VO H1 H2 H3 cs); [apply winv_init|constructor]. Qed.

  Lemma T_order_independent (g : gstate) e l1 l2 g1 e1 g2 e2 : ginv F (g_ops g) -> allcomp F (g_ops g) e ->
    fwds F g e l1 = Some (g1, e1) -> fwds F g e l2 = Some (g2, e2) ->
    forall k oi1 oi2, nth_error (g_ops g1) k = Some oi1 -> nth_error (g_ops g2) k = Some oi2 ->
      evald (g_ops g1) k -> evald (g_ops g2) k -> det F (g_ops g) k ->
      map s_val (o_rets oi1) = map s_val (o_rets oi2).
  Proof. exact (order_independent F H1 g e l1 l2 g1 e1 g2 e2). Qed.

  (* every consumer reads the one memoised sample:
     (forward) an operator evaluated by forward() holds f_fw applied to [aread] of its arguments
               = the value slot of the argument (or the live parameter value);
     (backward) the argument values handed to an operator's backward are [bread] = the same
               value slots; both are stable (value_immutable) and the producer runs once
               (evaluated_at_most_once). *)
  Lemma T_random_single_sample :
    (forall (g : gstate) e a v g' e', ginv F (g_ops g) -> forward F g e a = Some (v, g', e') ->
       exists new, g_log g' = g_log g ++ new /\ forall k, In k new -> computed F (g_ops g') e k) /\
    (forall k (ops : list (@opinfo Op Sh V)) e ops' e', wf_ops ops -> bstep F VO k ops e = Some (ops', e', true) ->
       exists cur incs, nth_error ops k = Some cur /\ step_incs F VO k ops e cur incs) /\
    (forall (ops : list (@opinfo Op Sh V)) e a oi s v, nth_error ops (fst a) = Some oi -> nth_error (o_rets oi) (snd a) = Some s ->
       s_val s = Some v -> bread F ops e a = Some v /\ (f_inner F (o_op oi) = None -> aread F ops e a = Some v)).
  Proof.
    split; [|split].
    - intros g e a v g' e' Hi Hf.
      assert (Hslot : get_slot g a <> None) by (unfold forward in Hf; destruct (get_slot g a); discriminate).
      destruct (forward_exact F H1 g e a Hi Hslot) as (v0 & g0 & e0 & Hf0 & Hex). rewrite Hf in Hf0. injection Hf0 as <- <- <-.
      destruct Hex as (_ & _ & _ & _ & _ & _ & _ & new & L & _ & _ & Hc & _). exists new. auto.
    - intros k ops e ops' e' Hwf Hb. destruct (step_get F VO _ _ _ _ _ Hwf Hb) as (cur & incs & A & _ & B & _). eauto.
    - intros ops e a oi s v E1 E2 E3. unfold bread, aread. rewrite E1, E2, E3. split; [reflexivity|]. intros ->. reflexivity.
  Qed.

  Lemma T_stream_account cs (w : world) d : winv F w ->
    (e_pos (w_env (run_all F VO w cs)) d + tot F d (w_graphs w) =
     e_pos (w_env w) d + tot F d (w_graphs (run_all F VO w cs)) + cdraws d cs)%N.
  Proof. exact (stream_account F VO H1 H2 H3 cs w d). Qed.

  (* ---------------- C06 ---------------- *)
  Lemma T_backward_only_adds (g : gstate) e n g' e' : backward F VO g e n = Some (g', e') ->
    exists cs, forall g0, exists e0',
      backward F VO g (with_pgrad e g0) n = Some (g', e0') /\
      e_pval e0' = e_pval e' /\ e_pos e0' = e_pos e' /\
      forall p, e_pgrad e0' p = fold_left (vadd VO) (cs_for p cs) (g0 p).
  Proof. exact (backward_only_adds F VO g e n g' e'). Qed.

  Lemma T_later_nodes_irrelevant (g : gstate) e n g' e' x : backward F VO g e n = Some (g', e') ->
    backward F VO (gapp g x) e n = Some (gapp g' x, e').
  Proof. exact (later_nodes_irrelevant F VO g e n g' e' x). Qed.

  Lemma T_backward_history cs : Forall (fun c => grad_free c = true) cs -> forall w : world,
    exists contribs, forall w2 acc g0, wsim VO w w2 acc g0 ->
      wsim VO (run_all F VO w cs) (run_all F VO w2 cs) (acc ++ contribs) g0.
  Proof. exact (backward_history F VO cs). Qed.

  Lemma T_backward_again (g : gstate) e n g' e' : gok F g -> backward F VO g e n = Some (g', e') ->
    exists cs, (forall p, e_pgrad e' p = fold_left (vadd VO) (cs_for p cs) (e_pgrad e p)) /\
      forall e2, e_pval e2 = e_pval e -> exists g2 e2',
        backward F VO g' e2 n = Some (g2, e2') /\ g_ops g2 = g_ops g' /\ g_log g2 = g_log g' /\
        e_pval e2' = e_pval e2 /\ e_pos e2' = e_pos e2 /\
        forall p, e_pgrad e2' p = fold_left (vadd VO) (cs_for p cs) (e_pgrad e2 p).
  Proof. exact (backward_again F VO H1 g e n g' e'). Qed.

  Lemma T_non_ancestor_untouched (g : gstate) e n g' e' : ginv F (g_ops g) -> gclean (g_ops g) ->
    backward F VO g e n = Some (g', e') ->
    (forall j, In j (g_blog g') -> In j (g_blog g) \/ anc (g_ops g) j (fst n)) /\
    (forall p, (forall j, anc (g_ops g) j (fst n) -> inner_of F (g_ops g) j <> Some p) -> e_pgrad e' p = e_pgrad e p).
  Proof.
    intros A B C. destruct (backward_spec F VO H1 g e n g' e' A B C) as (g1 & e1 & _ & _ & _ & _ & _ & _ & _ & _ & X & Y). auto.
  Qed.

  Lemma T_blocked_gets_only_zero : ZeroOK F VO -> forall (g : gstate) e n g' e',
    ginv F (g_ops g) -> gclean (g_ops g) -> shape_ok F (g_ops g) -> backward F VO g e n = Some (g', e') ->
    forall p, (forall j, glive F (g_ops g) (fst n) j -> inner_of F (g_ops g) j <> Some p) ->
      exists zs, e_pgrad e' p = fold_left (vadd VO) zs (e_pgrad e p) /\ Forall (zero_of F VO (g_ops g) p) zs.
  Proof. intros (Z1 & Z2). exact (backward_blocked F VO H1 Z1 Z2). Qed.

  (* over exact arithmetic (x + 0 = x) `+= zeros` is the identity; bitwise in float32 it is not
     for x = -0.0f (known finding D12) *)
  Lemma T_blocked_identity_exact : ZeroOK F VO -> (forall x sh, vadd VO x (vzeros VO sh) = x) ->
    forall (g : gstate) e n g' e',
    ginv F (g_ops g) -> gclean (g_ops g) -> shape_ok F (g_ops g) -> backward F VO g e n = Some (g', e') ->
    forall p, (forall j, glive F (g_ops g) (fst n) j -> inner_of F (g_ops g) j <> Some p) -> e_pgrad e' p = e_pgrad e p.
  Proof.
    intros HZ Hid g e n g' e' A B C D p Hp.
    destruct (T_blocked_gets_only_zero HZ g e n g' e' A B C D p Hp) as (zs & -> & Hzs).
    generalize (e_pgrad e p) as x. induction Hzs as [|z zs (k & oi & s & _ & _ & _ & ->) _ IH]; intro x; simpl; auto.
    rewrite Hid. apply IH.
  Qed.

  Lemma T_backward_preserves_values (g : gstate) e n g' e' : gok F g -> backward F VO g e n = Some (g', e') ->
    gok F g' /\ gext g g' /\ e_pval e' = e_pval e.
  Proof. exact (backward_ok F VO H1 g e n g' e'). Qed.
End Theorems.
