(* Non-vacuity of the LocalAdjoint interface: the example operators of Graph/Example.v over the
   ring Z satisfy it (add, multiply - whose backward reads the argument values -,
   stop_gradient with zero tangent). *)
From Coq Require Import List NArith ZArith Bool Arith Lia Ring.
From PV Require Import Graph.OpFamily Graph.Tape Graph.Example.
Import ListNotations.
Local Open Scope Z_scope.

Definition zdot := dot (R := Z) 0 Z.add Z.mul.
Definition zdots := dots (R := Z) 0 Z.add Z.mul.

Definition ejvp : JvpFamily (R := Z) eop := fun o pos xs dxs =>
  match o, xs, dxs with
  | EAdd, _, [da; db] => [zadd da db]
  | EMul, [a; b], [da; db] => [zadd (zmul da b) (zmul a db)]
  | EStop, _, [da] => [repeat 0 (length da)]
  | _, _, _ => []
  end.

Lemma zdot_zeros n b : zdot (repeat 0 n) b = 0.
Proof. unfold zdot. revert b; induction n as [|n IH]; intros [|y b]; simpl; auto. Qed.

Lemma zadd_len a b n : length a = n -> length b = n -> length (zadd a b) = n.
Proof. revert a b; induction n as [|n IH]; intros [|x a] [|y b] H1 H2; simpl in *; try lia; auto; try (rewrite (IH a b); lia). Qed.
Lemma zmul_len a b n : length a = n -> length b = n -> length (zmul a b) = n.
Proof. revert a b; induction n as [|n IH]; intros [|x a] [|y b] H1 H2; simpl in *; try lia; auto; try (rewrite (IH a b); lia). Qed.
Lemma zmulg_len gy b : length (zmulg gy b) = length gy.
Proof. revert b; induction gy as [|g gy IH]; intro b; simpl; auto. Qed.

Lemma add_adjoint n : forall gy da db, length gy = n -> length da = n -> length db = n ->
  zdot gy da + (zdot gy db + 0) = zdot gy (zadd da db) + 0.
Proof.
  unfold zdot. induction n as [|n IH]; intros [|g gy] [|x da] [|y db] H1 H2 H3; simpl in *; try lia.
  specialize (IH gy da db ltac:(lia) ltac:(lia) ltac:(lia)). lia.
Qed.
Lemma mul_adjoint n : forall gy a b da db, length gy = n -> length a = n -> length b = n -> length da = n -> length db = n ->
  zdot (zmulg gy b) da + (zdot (zmulg gy a) db + 0) = zdot gy (zadd (zmul da b) (zmul a db)) + 0.
Proof.
  unfold zdot. induction n as [|n IH]; intros [|g gy] [|x a] [|y b] [|u da] [|w db] H1 H2 H3 H4 H5; simpl in *; try lia.
  specialize (IH gy a b da db ltac:(lia) ltac:(lia) ltac:(lia) ltac:(lia) ltac:(lia)). nia.
Qed.

Lemma F2_two {A B} (P : A -> B -> Prop) l s1 s2 : Forall2 P l [s1; s2] -> exists a b, l = [a; b] /\ P a s1 /\ P b s2.
Proof. intro H. inversion H as [|a ? l1 ? Pa H1]; subst. inversion H1 as [|b ? l2 ? Pb H2]; subst. inversion H2; subst. eauto. Qed.
Lemma F2_one {A B} (P : A -> B -> Prop) l s1 : Forall2 P l [s1] -> exists a, l = [a] /\ P a s1.
Proof. intro H. inversion H as [|a ? l1 ? Pa H1]; subst. inversion H1; subst. eauto. Qed.

Example LocalAdjoint_add : LocalAdjoint 0 Z.add Z.mul EF ejvp (fun n : nat => n) EAdd.
Proof.
  intros pos ashs rshs xs dxs gys Hs Hx Hdx Hgy. simpl in Hs.
  destruct ashs as [|n [|m [|? ?]]]; try discriminate. destruct (Nat.eqb_spec n m) as [->|]; [|discriminate]. injection Hs as <-.
  destruct (F2_two _ _ _ _ Hx) as (a & b & -> & Ha & Hb). destruct (F2_two _ _ _ _ Hdx) as (da & db & -> & Hda & Hdb).
  destruct (F2_one _ _ _ Hgy) as (gy & -> & Hg).
  cbv zeta. unfold eff_bw. simpl. split; [|split].
  - exact (add_adjoint _ gy da db Hg Hda Hdb).
  - intros [|[|i]] inc Hi; simpl in Hi; try (injection Hi as <-; eexists; split; [reflexivity|exact Hg]). destruct i; discriminate.
  - constructor; [|constructor]. apply zadd_len; auto.
Qed.

Example LocalAdjoint_mul : LocalAdjoint 0 Z.add Z.mul EF ejvp (fun n : nat => n) EMul.
Proof.
  intros pos ashs rshs xs dxs gys Hs Hx Hdx Hgy. simpl in Hs.
  destruct ashs as [|n [|m [|? ?]]]; try discriminate. destruct (Nat.eqb_spec n m) as [->|]; [|discriminate]. injection Hs as <-.
  destruct (F2_two _ _ _ _ Hx) as (a & b & -> & Ha & Hb). destruct (F2_two _ _ _ _ Hdx) as (da & db & -> & Hda & Hdb).
  destruct (F2_one _ _ _ Hgy) as (gy & -> & Hg).
  cbv zeta. unfold eff_bw. simpl. split; [|split].
  - exact (mul_adjoint _ gy a b da db Hg Ha Hb Hda Hdb).
  - intros [|[|i]] inc Hi; simpl in Hi; try (injection Hi as <-; eexists; split; [reflexivity|rewrite zmulg_len; exact Hg]). destruct i; discriminate.
  - constructor; [|constructor]. apply zadd_len; apply zmul_len; auto.
Qed.

Example LocalAdjoint_stop : LocalAdjoint 0 Z.add Z.mul EF ejvp (fun n : nat => n) EStop.
Proof.
  intros pos ashs rshs xs dxs gys Hs Hx Hdx Hgy. simpl in Hs.
  destruct ashs as [|n [|? ?]]; try discriminate. injection Hs as <-.
  destruct (F2_one _ _ _ Hdx) as (da & -> & Hda). destruct (F2_one _ _ _ Hgy) as (gy & -> & Hg).
  cbv zeta. unfold eff_bw. simpl. split; [|split].
  - fold (zdot gy (repeat 0 (length da))). clear. generalize (length da) as m. intro m. revert m. induction gy as [|g gy IH]; intros [|m]; simpl; auto.
    unfold zdot in *. simpl. specialize (IH m). lia.
  - intros i inc Hi. destruct i; discriminate.
  - constructor; [|constructor]. rewrite repeat_length. exact Hda.
Qed.
