(* later_nodes_irrelevant: operators appended after the target are never looked at.
   Every successful lookup in [ops] is the same lookup in [ops ++ x]. *)
From Coq Require Import List NArith Bool Arith Lia.
From PV Require Import Graph.OpFamily Graph.Tape Graph.Lazy Graph.Backward Graph.TapeLemmas Graph.LazyProofs Graph.BackwardProofs.
Import ListNotations.

Section Frame.
  Context {Op Sh V : Type}.
  Variable F : OpFamily Op Sh V.
  Variable VO : ValOps Sh V.
  Notation gstate := (@gstate Op Sh V).
  Notation opinfo := (@opinfo Op Sh V).
  Notation slot := (@slot Sh V).
  Notation env := (@env V).
  Notation ops_t := (list opinfo).

  Definition gapp (g : gstate) (x : ops_t) : gstate :=
    {| g_ops := g_ops g ++ x; g_log := g_log g; g_blog := g_blog g |}.

  Lemma nth_app_some {A} (l x : list A) i y : nth_error l i = Some y -> nth_error (l ++ x) i = Some y.
  Proof. intro H. rewrite nth_error_app1; [exact H|eapply nth_error_lt; eauto]. Qed.

  Lemma upd_ops_app (ops x : ops_t) a f : nth_error ops (fst a) <> None -> upd_ops (ops ++ x) a f = upd_ops ops a f ++ x.
  Proof.
    intro H. unfold upd_ops. destruct (nth_error ops (fst a)) as [oi|] eqn:E; [|congruence].
    rewrite (nth_app_some _ x _ _ E). destruct (nth_error (o_rets oi) (snd a)); auto.
    apply set_nth_app_l. eapply nth_error_lt; eauto.
  Qed.

  Lemma fwd_app x fuel : forall (g : gstate) e a v g' e', fwd F fuel g e a = Some (v, g', e') ->
    fwd F fuel (gapp g x) e a = Some (v, gapp g' x, e').
  Proof.
    induction fuel as [|fu IH]; intros g e a v g' e' H; [discriminate|].
    cbn [fwd] in *. fold (go_args F fu) in *. cbn [gapp g_ops].
    destruct (nth_error (g_ops g) (fst a)) as [cur|] eqn:Ecur; [|discriminate].
    rewrite (nth_app_some _ x _ _ Ecur).
    destruct (f_inner F (o_op cur)); [injection H as <- <- <-; reflexivity|].
    destruct (nth_error (o_rets cur) (snd a)) as [cur_n|]; [|discriminate].
    destruct (s_val cur_n); [injection H as <- <- <-; reflexivity|].
    assert (Hgo : forall l g0 e0 vs g2 e2, go_args F fu l g0 e0 = Some (vs, g2, e2) ->
              go_args F fu l (gapp g0 x) e0 = Some (vs, gapp g2 x, e2)).
    { induction l as [|y l IHl]; intros g0 e0 vs g2 e2 Hg; simpl in *.
      - injection Hg as <- <- <-. reflexivity.
      - destruct (fwd F fu g0 e0 y) as [[[vy g1] e1]|] eqn:Ey; [|discriminate].
        rewrite (IH _ _ _ _ _ _ Ey).
        destruct (go_args F fu l g1 e1) as [[[vs' g2'] e2']|] eqn:Er; [|discriminate].
        rewrite (IHl _ _ _ _ _ Er). injection Hg as <- <- <-. reflexivity. }
    destruct (go_args F fu (o_args cur) g e) as [[[vs g1] e1]|] eqn:Eg; [|discriminate].
    rewrite (Hgo _ _ _ _ _ _ Eg). cbn [gapp g_ops g_log g_blog].
    destruct (nth_error (g_ops g1) (fst a)) as [cur1|] eqn:Ecur1.
    2:{ destruct (f_rand F (o_op cur)) as [[d n]|]; discriminate. }
    rewrite (nth_app_some _ x _ _ Ecur1).
    assert (Hi : fst a < length (g_ops g1)) by (eapply nth_error_lt; eauto).
    destruct (f_rand F (o_op cur)) as [[d n]|].
    - destruct (nth_error (f_fw F (o_op cur) (e_pos e1 d) vs) (snd a)); [|discriminate].
      injection H as <- <- <-. rewrite (set_nth_app_l (g_ops g1) x (fst a)) by exact Hi. reflexivity.
    - destruct (nth_error (f_fw F (o_op cur) 0%N vs) (snd a)); [|discriminate].
      injection H as <- <- <-. rewrite (set_nth_app_l (g_ops g1) x (fst a)) by exact Hi. reflexivity.
  Qed.

  Lemma fwd_length fuel : forall (g : gstate) e a v g' e', fwd F fuel g e a = Some (v, g', e') -> length (g_ops g') = length (g_ops g).
  Proof.
    induction fuel as [|fu0 IH]; intros g0 e0 a v g' e' H; [discriminate|].
    cbn [fwd] in H. fold (go_args F fu0) in H.
    destruct (nth_error (g_ops g0) (fst a)) as [cur|]; [|discriminate].
    destruct (f_inner F (o_op cur)); [injection H as _ <- _; reflexivity|].
    destruct (nth_error (o_rets cur) (snd a)) as [cn|]; [|discriminate].
    destruct (s_val cn); [injection H as _ <- _; reflexivity|].
    assert (Hgo : forall l g2 e2 vs g3 e3, go_args F fu0 l g2 e2 = Some (vs, g3, e3) -> length (g_ops g3) = length (g_ops g2)).
    { induction l as [|y l IHl]; intros g2 e2 vs g3 e3 Hg; simpl in Hg.
      - injection Hg as _ <- _. reflexivity.
      - destruct (fwd F fu0 g2 e2 y) as [[[vy g4] e4]|] eqn:Ey; [|discriminate].
        destruct (go_args F fu0 l g4 e4) as [[[vs' g5] e5]|] eqn:Er; [|discriminate].
        injection Hg as _ <- _. rewrite (IHl _ _ _ _ _ Er). eapply IH; eauto. }
    destruct (go_args F fu0 (o_args cur) g0 e0) as [[[vs g4] e4]|] eqn:Eg; [|discriminate].
    pose proof (Hgo _ _ _ _ _ _ Eg) as Hl4.
    destruct (nth_error (g_ops g4) (fst a)) as [c1|]; [|destruct (f_rand F (o_op cur)) as [[? ?]|]; discriminate].
    destruct (f_rand F (o_op cur)) as [[d n0]|].
    - destruct (nth_error (f_fw F (o_op cur) (e_pos e4 d) vs) (snd a)); [|discriminate]. injection H as _ <- _. cbn [g_ops]. rewrite length_set_nth. exact Hl4.
    - destruct (nth_error (f_fw F (o_op cur) 0%N vs) (snd a)); [|discriminate]. injection H as _ <- _. cbn [g_ops]. rewrite length_set_nth. exact Hl4.
  Qed.

  Lemma gather_args_app x args : forall (ops : ops_t) e xs ops', gather_args F VO ops e args = Some (xs, ops') ->
    gather_args F VO (ops ++ x) e args = Some (xs, ops' ++ x) /\ Forall (fun a => fst a < length ops) args /\ length ops' = length ops.
  Proof.
    induction args as [|a args IH]; intros ops e xs ops' H; simpl in *.
    - injection H as <- <-. auto.
    - destruct (nth_error ops (fst a)) as [arg_f|] eqn:Ef; [|discriminate].
      rewrite (nth_app_some _ x _ _ Ef).
      destruct (nth_error (o_rets arg_f) (snd a)) as [arg_n|]; [|discriminate].
      match type of H with match ?ov with _ => _ end = _ => destruct ov as [v|] end; [|discriminate].
      destruct (gather_args F VO (upd_ops ops a (mat_zero VO)) e args) as [[vs ops2]|] eqn:Eg; [|discriminate].
      injection H as <- <-. destruct (IH _ _ _ _ Eg) as (E1 & E2 & E3).
      rewrite upd_ops_app by congruence. rewrite E1. rewrite upd_ops_length in *. split; [reflexivity|]. split; [|exact E3].
      constructor; [eapply nth_error_lt; eauto|exact E2].
  Qed.

  Lemma add_incs_app x args : forall (ops : ops_t) incs, Forall (fun a => fst a < length ops) args ->
    add_incs VO (ops ++ x) args incs = add_incs VO ops args incs ++ x.
  Proof.
    induction args as [|a args IH]; intros ops [|inc incs] H; simpl; auto.
    inversion H as [|? ? Ha Hr]; subst. rewrite upd_ops_app by (apply nth_error_Some; exact Ha).
    apply IH. rewrite upd_ops_length. exact Hr.
  Qed.

  Lemma bstep_app x k (ops : ops_t) e ops' e' c : bstep F VO k ops e = Some (ops', e', c) ->
    bstep F VO k (ops ++ x) e = Some (ops' ++ x, e', c).
  Proof.
    unfold bstep. intro H. destruct (nth_error ops k) as [cur|] eqn:Ecur; [|discriminate].
    rewrite (nth_app_some _ x _ _ Ecur).
    destruct (negb (enabled (o_rets cur))); [injection H as <- <- <-; reflexivity|].
    rewrite (set_nth_app_l ops x k) by (eapply nth_error_lt; eauto).
    destruct (gather_args F VO (set_nth ops k (set_rets cur (map (mat_zero VO) (o_rets cur)))) e (o_args cur)) as [[xs ops2]|] eqn:Eg; [|discriminate].
    destruct (gather_args_app x _ _ _ _ _ Eg) as (E1 & Hargs & Hl2). rewrite E1.
    destruct (nth_error ops2 k) as [cur2|] eqn:E2; [|discriminate]. rewrite (nth_app_some _ x _ _ E2).
    destruct (f_inner F (o_op cur2)).
    - destruct (map (grad_or_zero VO) (o_rets cur2)); [discriminate|]. rewrite E2 in H. rewrite (nth_app_some _ x _ _ E2).
      injection H as <- <- <-. rewrite (set_nth_app_l ops2 x k) by (eapply nth_error_lt; eauto). reflexivity.
    - destruct (all_vals (o_rets cur2)); [|discriminate].
      assert (Hargs2 : Forall (fun a => fst a < length ops2) (o_args cur2)).
      { (* cur2 has the arguments of cur: the entry k is only changed in its gradient slots *)
        assert (Ea : o_args cur2 = o_args cur).
        { destruct (gather_args_spec F VO _ _ _ _ _ Eg) as (-> & _).
          pose proof (sg_nth (fold_mat VO (set_nth ops k (set_rets cur (map (mat_zero VO) (o_rets cur)))) (o_args cur)) ops k) as Hk.
          rewrite E2, Ecur in Hk. apply Hk. rewrite fold_mat_sg.
          replace (set_nth ops k (set_rets cur (map (mat_zero VO) (o_rets cur)))) with (map_op ops k (mat_zero VO)) by (unfold map_op; rewrite Ecur; reflexivity).
          apply map_op_sg. apply mat_zero_grad_only. }
        rewrite Ea. rewrite Hl2. rewrite length_set_nth in Hargs. rewrite length_set_nth. exact Hargs. }
      rewrite (add_incs_app x _ _ _ Hargs2).
      match type of H with match nth_error ?o k with _ => _ end = _ => destruct (nth_error o k) as [cur3|] eqn:E3; [|discriminate] end.
      rewrite (nth_app_some _ x _ _ E3). injection H as <- <- <-.
      rewrite set_nth_app_l by (eapply nth_error_lt; eauto). reflexivity.
  Qed.

  Lemma sweep_app x k : forall (ops : ops_t) e bl ops' e' bl', sweep F VO k ops e bl = Some (ops', e', bl') ->
    sweep F VO k (ops ++ x) e bl = Some (ops' ++ x, e', bl').
  Proof.
    induction k as [|k IH]; intros ops e bl ops' e' bl' H; simpl in *.
    - destruct (bstep F VO 0 ops e) as [[[o1 e1] c]|] eqn:Eb; [|discriminate]. rewrite (bstep_app x _ _ _ _ _ _ Eb).
      injection H as <- <- <-. reflexivity.
    - destruct (bstep F VO (S k) ops e) as [[[o1 e1] c]|] eqn:Eb; [|discriminate]. rewrite (bstep_app x _ _ _ _ _ _ Eb).
      apply IH. exact H.
  Qed.

  (* Nodes created after the target do not influence the result: the same call on the graph
     extended by ANY later operators x gives the same result, with x untouched behind it. *)
  Theorem later_nodes_irrelevant (g : gstate) e n g' e' x : backward F VO g e n = Some (g', e') ->
    backward F VO (gapp g x) e n = Some (gapp g' x, e').
  Proof.
    unfold backward, get_slot, get_slot_ops. cbn [gapp g_ops]. intro H.
    destruct (nth_error (g_ops g) (fst n)) as [oi|] eqn:E; [|discriminate]. rewrite (nth_app_some _ x _ _ E).
    destruct (nth_error (o_rets oi) (snd n)) as [last_n|] eqn:Es; [|discriminate].
    assert (Hpre : exists g1 e1, (match s_val last_n with Some _ => Some (g, e) | None =>
                     match forward F g e n with Some (_, g1, e1) => Some (g1, e1) | None => None end end) = Some (g1, e1) /\
                   (match s_val last_n with Some _ => Some (gapp g x, e) | None =>
                     match forward F (gapp g x) e n with Some (_, g1, e1) => Some (g1, e1) | None => None end end) = Some (gapp g1 x, e1) /\
                   nth_error (g_ops g1) (fst n) <> None).
    { destruct (s_val last_n).
      - exists g, e. repeat split; auto. congruence.
      - unfold forward, get_slot, get_slot_ops in *. cbn [gapp g_ops]. rewrite E, Es in *. rewrite (nth_app_some _ x _ _ E), Es.
        destruct (fwd F (S (fst n)) g e n) as [[[v g1] e1]|] eqn:Ef; [|discriminate].
        fold (gapp g x). rewrite (fwd_app x _ _ _ _ _ _ _ Ef). exists g1, e1. repeat split; auto.
        apply nth_error_Some. rewrite (fwd_length _ _ _ _ _ _ _ Ef). eapply nth_error_lt; eauto. }
    destruct Hpre as (g1 & e1 & Hp1 & Hp2 & Hn1). rewrite Hp1 in H. rewrite Hp2. cbn [gapp g_ops g_log g_blog].
    rewrite upd_ops_app by exact Hn1.
    destruct (sweep F VO (fst n) (upd_ops (g_ops g1) n (fun s => set_grad s (Some (vones VO (s_shape s))))) e1 (g_blog g1)) as [[[ops' e1'] bl']|] eqn:Esw; [|discriminate].
    rewrite (sweep_app x _ _ _ _ _ _ _ Esw). injection H as <- <-. reflexivity.
  Qed.
End Frame.
