(* Non-vacuity of the totality theorems on the example family of Graph/Example.v:
   ex_hist = the history of Example.v (two backward calls, one forward, on a graph with a shared
   parameter, a random mask, a stop_gradient branch, a never evaluated operator) followed by a
   second graph, two REJECTED requests (Error: node of another graph; wrong argument count),
   a request using a two-output split of which one output is used, and two more backward
   calls.  Every request is valid (hist_valid), so the theorems apply: no step aborts and the
   strict run equals run_all; on the reached world a backward on every valid node returns, and an
   out-of-range node is exactly what makes the model abort (as CHECK_NODE does). *)
From Coq Require Import List NArith ZArith Bool Arith Lia.
From PV Require Import Graph.OpFamily Graph.Tape Graph.Lazy Graph.Backward Graph.TapeLemmas
  Graph.LazyProofs Graph.BackwardProofs Graph.HistoryProofs Graph.FrameProofs Graph.MoreProofs
  Graph.Theorems Graph.Example Graph.Totality Graph.TotalityTheorems.
Import ListNotations.

Definition ex_hist : list (@cmd eop nat zvec) :=
  ex_cmds ++
  [ CNewGraph;
    CAdd 1 EStop [nd 0 5 0];                       (* Error: node of graph 0 given to graph 1 *)
    CAdd 0 EAdd [nd 0 0 0];                        (* Error: wrong number of arguments *)
    CAdd 0 ESplit2 [nd 0 7 0];                     (* 8: two outputs *)
    CAdd 0 EMul [nd 0 8 1; nd 0 0 0];              (* Error: shapes 1 and 2 *)
    CAdd 1 (EParam 0 2) [];                        (* graph 1, operator 0: the shared parameter *)
    CAdd 1 EMul [nd 1 0 0; nd 1 0 0];              (* graph 1, operator 1 *)
    CBackward 0 (8, 1);
    CBackward 1 (1, 0);
    CUpdate [0; 1] (fun _ v g => zadd v g);
    CReset [(0, 2)];
    CBackward 1 (0, 0);                            (* a Parameter node as target *)
    CDraw 0 3%N;
    CForward 0 (6, 0) ].

Lemma EF_ok : FamOK EF.
Proof. split; [exact EF_fw_len|split; [exact EF_sh_len|exact EF_inner_argn]]. Qed.

Lemma ex_hist_valid : hist_valid EF EV ex_w0 ex_hist.
Proof. apply hist_valid_b_spec. vm_compute. reflexivity. Qed.

(* the rejected requests are really rejected (Error), the others Ok: the history exercises both
   non-Abort outcomes *)
Definition outcome (r : res (@world eop nat zvec)) : nat := match r with Ok _ => 0 | Error => 1 | Abort => 2 end.
Fixpoint outcomes (w : @world eop nat zvec) (cs : list (@cmd eop nat zvec)) : list nat :=
  match cs with [] => [] | c :: r => outcome (run_cmd EF EV w c) :: outcomes (run EF EV w c) r end.

Lemma ex_outcomes : outcomes ex_w0 ex_hist = [0;0;0;0;0;0;0;0;0;0;0;0; 0;1;1;0;1;0;0;0;0;0;0;0;0;0].
Proof. vm_compute. reflexivity. Qed.

Lemma ex_total :
  never_aborts EF EV ex_w0 ex_hist /\
  run_strict EF EV ex_w0 ex_hist = Some (run_all EF EV ex_w0 ex_hist) /\
  (let w := run_all EF EV ex_w0 ex_hist in
   exists g, nth_error (w_graphs w) 0 = Some g /\ length (g_ops g) = 9 /\
     (forall n, get_slot g n <> None -> exists g' e', backward EF EV g (w_env w) n = Some (g', e')) /\
     run_cmd EF EV w (CBackward 0 (9, 0)) = Abort /\ run_cmd EF EV w (CForward 0 (8, 2)) = Abort /\
     run_cmd EF EV w (CAdd 0 EStop [nd 0 9 0]) = Abort /\ run_cmd EF EV w (CAdd 1 EStop [nd 0 9 0]) = Error).
Proof.
  destruct (TT_history_never_aborts EF EV EF_ok ex_env ex_hist ex_hist_valid) as (A & B).
  split; [exact A|]. split; [exact B|]. cbv zeta.
  assert (Hg : exists g, nth_error (w_graphs (run_all EF EV ex_w0 ex_hist)) 0 = Some g /\ length (g_ops g) = 9)
    by (vm_compute; eexists; split; reflexivity).
  destruct Hg as (g & Eg & Hl). exists g. split; [exact Eg|]. split; [exact Hl|]. split.
  - intros n Hn. exact (TT_reachable_backward_total EF EV EF_ok ex_env ex_hist 0 g n Eg Hn _).
  - vm_compute. auto.
Qed.

Lemma ex_total_c06 :
  let w := run_all EF EV ex_w0 ex_hist in
  (exists g0 g1, w_graphs w = [g0; g1] /\ length (g_ops g0) = 9 /\ length (g_ops g1) = 2) /\
  forall gi g n, nth_error (w_graphs w) gi = Some g -> get_slot g n <> None ->
    exists g' e', backward EF EV g (w_env w) n = Some (g', e') /\
                  run_cmd EF EV w (CBackward gi n) = Ok (put_graph w gi g' e') /\ gok EF g'.
Proof.
  cbv zeta. split; [vm_compute; eexists _, _; split; [reflexivity|split; reflexivity]|].
  intros gi g n Eg Hn.
  destruct (TT_reachable_backward_step EF EV EF_ok ex_env ex_hist gi g n Eg Hn) as (g' & e' & A & B & C & _).
  exists g', e'. split; [exact A|]. split; [exact B|exact C].
Qed.
