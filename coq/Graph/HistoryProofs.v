(* Whole-call and whole-history theorems: invariants of every reachable world, value
   immutability, at-most-once evaluation, stream accounting, composition of backward calls. *)
From Coq Require Import List NArith Bool Arith Lia.
From PV Require Import Graph.OpFamily Graph.Tape Graph.Lazy Graph.Backward Graph.TapeLemmas Graph.LazyProofs Graph.BackwardProofs.
Import ListNotations.

Section HistoryProofs.
  Context {Op Sh V : Type}.
  Variable F : OpFamily Op Sh V.
  Variable VO : ValOps Sh V.
  Notation gstate := (@gstate Op Sh V).
  Notation opinfo := (@opinfo Op Sh V).
  Notation slot := (@slot Sh V).
  Notation env := (@env V).
  Notation ops_t := (list opinfo).
  Notation world := (@world Op Sh V).
  Notation cmd := (@cmd Op Sh V).

  (* contract of the operator family (see LazyProofs) *)
  Hypothesis Hfw_len : forall o pos xs, length (f_fw F o pos xs) = f_retn F o.
  Hypothesis Hsh_len : forall o shs rs, f_shape F o shs = Some rs -> length rs = f_retn F o.
  Hypothesis Hinner_argn : forall o p, f_inner F o = Some p -> f_argn F o = ArgExact 0.

  Lemma forallb_map {A B} (f : B -> bool) (g : A -> B) l : forallb (fun x => f (g x)) l = forallb f (map g l).
  Proof. induction l as [|x l IH]; simpl; auto. rewrite IH. reflexivity. Qed.
  Lemma op_done_vals (a b : opinfo) : map s_val (o_rets a) = map s_val (o_rets b) -> op_done a = op_done b.
  Proof.
    intro H. unfold op_done, has_val.
    rewrite (forallb_map (fun o : option V => match o with Some _ => true | None => false end) s_val (o_rets a)).
    rewrite (forallb_map (fun o : option V => match o with Some _ => true | None => false end) s_val (o_rets b)).
    rewrite H. reflexivity.
  Qed.
  Lemma op_none_vals (a b : opinfo) : map s_val (o_rets a) = map s_val (o_rets b) -> op_none a = op_none b.
  Proof.
    intro H. unfold op_none, has_val.
    rewrite (forallb_map (fun o : option V => negb match o with Some _ => true | None => false end) s_val (o_rets a)).
    rewrite (forallb_map (fun o : option V => negb match o with Some _ => true | None => false end) s_val (o_rets b)).
    rewrite H. reflexivity.
  Qed.

  Lemma sg_evald (ops ops' : ops_t) k : sg ops = sg ops' -> evald ops k -> evald ops' k.
  Proof.
    intros H (oi & E & Hn & Hd). pose proof (sg_nth ops ops' k H) as Hk. rewrite E in Hk.
    destruct (nth_error ops' k) as [oi'|] eqn:E'; [|contradiction]. destruct Hk as (_ & _ & El & Ev & _).
    exists oi'. split; [exact E'|]. split; [|rewrite <- (op_done_vals oi oi' Ev); exact Hd].
    intro Hnil. rewrite Hnil in El. destruct (o_rets oi); [congruence|discriminate].
  Qed.

  Lemma ginv_sg (ops ops' : ops_t) : sg ops = sg ops' -> ginv F ops -> ginv F ops'.
  Proof.
    intros H (Hwf & Hlen & Hd & Hcl & Hia).
    assert (Hback : forall k oi', nth_error ops' k = Some oi' -> exists oi, nth_error ops k = Some oi /\
               o_op oi = o_op oi' /\ o_args oi = o_args oi' /\ length (o_rets oi) = length (o_rets oi') /\
               map s_val (o_rets oi) = map s_val (o_rets oi')).
    { intros k oi' E. pose proof (sg_nth ops ops' k H) as Hk. rewrite E in Hk.
      destruct (nth_error ops k) as [oi|]; [|contradiction]. exists oi. tauto. }
    split; [eapply sg_wf; eauto|]. split; [|split; [|split]].
    - intros k oi' E. destruct (Hback k oi' E) as (oi & E0 & Eo & _ & El & _). rewrite <- El, <- Eo. eauto.
    - intros k oi' E. destruct (Hback k oi' E) as (oi & E0 & Eo & _ & _ & Ev).
      rewrite <- (op_done_vals _ _ Ev), <- (op_none_vals _ _ Ev), <- Eo. eauto.
    - intros k oi' E Hn Hdn a Ha Hi. destruct (Hback k oi' E) as (oi & E0 & Eo & Ea & El & Ev).
      eapply sg_evald; [exact H|]. eapply Hcl; [exact E0| | | |].
      + intro Hnil. rewrite Hnil in El. destruct (o_rets oi'); [congruence|discriminate].
      + rewrite (op_done_vals _ _ Ev). exact Hdn.
      + rewrite Ea. exact Ha.
      + rewrite (sg_inner F _ _ H). exact Hi.
    - intros k oi' E Hi. destruct (Hback k oi' E) as (oi & E0 & Eo & Ea & _). rewrite <- Ea. eapply Hia; eauto. congruence.
  Qed.

  Lemma sg_mono (ops ops' : ops_t) : sg ops = sg ops' -> mono ops ops'.
  Proof.
    intros H a s v Hs Hv. unfold get_slot_ops in *. pose proof (sg_nth ops ops' (fst a) H) as Hk.
    destruct (nth_error ops (fst a)) as [oi|]; [|discriminate].
    destruct (nth_error ops' (fst a)) as [oi'|]; [|contradiction]. destruct Hk as (_ & _ & _ & Ev & _).
    assert (E : option_map s_val (nth_error (o_rets oi) (snd a)) = option_map s_val (nth_error (o_rets oi') (snd a)))
      by (rewrite <- !nth_error_map, Ev; reflexivity).
    rewrite Hs in E. destruct (nth_error (o_rets oi') (snd a)) as [s'|]; [|discriminate].
    simpl in E. exists s'. split; [reflexivity|]. congruence.
  Qed.

  Lemma sv_gclean (ops ops' : ops_t) : sv ops' = sv ops -> gclean ops -> gclean ops'.
  Proof.
    intros H Hc b s' Hs. unfold get_slot_ops in *. pose proof (sv_nth ops' ops (fst b) H) as Hk.
    destruct (nth_error ops' (fst b)) as [oi'|]; [|discriminate].
    destruct (nth_error ops (fst b)) as [oi|] eqn:E; [|contradiction]. destruct Hk as (_ & _ & _ & Em).
    assert (E2 : nth_error (map (fun s : slot => set_val s None) (o_rets oi')) (snd b) =
                 nth_error (map (fun s : slot => set_val s None) (o_rets oi)) (snd b)) by (rewrite Em; reflexivity).
    rewrite !nth_error_map, Hs in E2. destruct (nth_error (o_rets oi) (snd b)) as [s|] eqn:Es; [|discriminate].
    simpl in E2. assert (Eg : s_grad (set_val s' None) = s_grad (set_val s None)) by congruence.
    cbn [s_grad set_val] in Eg. rewrite Eg.
    apply (Hc b s). unfold get_slot_ops. rewrite E. exact Es.
  Qed.

  (* ---------- one backward() call ---------- *)
  Lemma backward_spec (g : gstate) e n g' e' : ginv F (g_ops g) -> gclean (g_ops g) ->
    backward F VO g e n = Some (g', e') ->
    exists g1 e1, frel F g e g1 e1 [fst n] /\ ginv F (g_ops g1) /\
      sg (g_ops g') = sg (g_ops g1) /\ g_log g' = g_log g1 /\ gclean (g_ops g') /\ ginv F (g_ops g') /\
      e_pval e' = e_pval e /\ e_pos e' = e_pos e1 /\
      (forall j, In j (g_blog g') -> In j (g_blog g) \/ anc (g_ops g) j (fst n)) /\
      (forall p, (forall j, anc (g_ops g) j (fst n) -> inner_of F (g_ops g) j <> Some p) -> e_pgrad e' p = e_pgrad e p).
  Proof.
    intros Hinv Hcl H. unfold backward in H. destruct (get_slot g n) as [last_n|] eqn:Eslot; [|discriminate].
    assert (Hpre : exists g1 e1, (match s_val last_n with Some _ => Some (g, e) | None =>
                     match forward F g e n with Some (_, g1, e1) => Some (g1, e1) | None => None end end) = Some (g1, e1) /\
                   frel F g e g1 e1 [fst n] /\ ginv F (g_ops g1)).
    { destruct (s_val last_n).
      - exists g, e. split; [reflexivity|]. split; [apply frel_refl|exact Hinv].
      - unfold forward in *. rewrite Eslot in *.
        destruct (fwd F (S (fst n)) g e n) as [[[v g1] e1]|] eqn:Ef; [|discriminate].
        exists g1, e1. split; [reflexivity|]. destruct (fwd_spec F Hfw_len _ _ _ _ _ _ _ Hinv Ef) as (R & I1 & _). auto. }
    destruct Hpre as (g1 & e1 & Hp1 & R & I1). rewrite Hp1 in H.
    set (ops0 := upd_ops (g_ops g1) n (fun s => set_grad s (Some (vones VO (s_shape s))))) in *.
    destruct (sweep F VO (fst n) ops0 e1 (g_blog g1)) as [[[ops' e1'] bl']|] eqn:Es; [|discriminate].
    injection H as <- <-. cbn [g_ops g_log g_blog].
    pose proof R as (Hsv & Hb & Hp & Hg & Hm & _).
    assert (Hsg0 : sg ops0 = sg (g_ops g1)) by (apply grad_only_sg; reflexivity).
    assert (Hwf0 : wf_ops ops0) by (eapply sg_wf; [symmetry; exact Hsg0|]; destruct I1 as (Hw & _); exact Hw).
    assert (Hcl1 : gclean (g_ops g1)) by (eapply sv_gclean; eauto).
    assert (Hcf : gclear_from (S (fst n)) ops0).
    { intros b s Hs Hle. unfold ops0 in Hs. rewrite upd_ops_get in Hs.
      destruct (Nat.eqb_spec (fst n) (fst b)) as [E|N]; [lia|]. simpl in Hs. eapply Hcl1; eauto. }
    destruct (sweep_clean F VO _ _ _ _ _ _ _ Hwf0 Es Hcf) as (Hsg' & Hclean' & Hpv & Hpos).
    assert (Hgs : gsub ops0 (fst n) ops0).
    { intros b s Hs Hsg. unfold ops0 in Hs. rewrite upd_ops_get in Hs.
      destruct (Nat.eqb_spec (fst n) (fst b)) as [E|N]; [rewrite <- E; apply anc_refl|].
      simpl in Hs. exfalso. apply Hsg. eapply Hcl1; eauto. }
    destruct (sweep_anc F VO _ _ _ _ _ _ _ (fst n) Hwf0 Es Hgs) as (Hbl & Hpg).
    exists g1, e1. split; [exact R|]. split; [exact I1|]. split; [congruence|]. split; [reflexivity|]. split; [exact Hclean'|].
    split; [eapply ginv_sg; [|exact I1]; congruence|]. split; [congruence|]. split; [exact Hpos|].
    assert (Hanc : forall j, anc ops0 j (fst n) -> anc (g_ops g) j (fst n)).
    { intros j Ha. eapply sv_anc; [exact Hsv|]. eapply sg_anc; [exact Hsg0|exact Ha]. }
    split.
    - intros j Hj. destruct (Hbl j Hj) as [Hin|Ha]; [left; congruence|right; auto].
    - intros p Hpp. rewrite Hpg; [congruence|]. intros j Ha.
      rewrite (sg_inner F _ _ Hsg0), (sv_inner F _ _ Hsv). apply Hpp. apply Hanc. exact Ha.
  Qed.

  (* ---------- invariants of every reachable world ---------- *)
  Definition gok (g : gstate) : Prop :=
    ginv F (g_ops g) /\ gclean (g_ops g) /\ NoDup (g_log g) /\ (forall k, In k (g_log g) -> evald (g_ops g) k).
  (* what any API call may do to a graph: values persist, the forward log is only extended *)
  Definition gext (g g' : gstate) : Prop :=
    mono (g_ops g) (g_ops g') /\ (exists new, g_log g' = g_log g ++ new) /\
    (forall k oi, nth_error (g_ops g) k = Some oi -> exists oi', nth_error (g_ops g') k = Some oi' /\ o_op oi' = o_op oi).
  Lemma gext_refl g : gext g g.
  Proof. split; [intros a s v H1 H2; eauto|]. split; [exists []; rewrite app_nil_r; reflexivity|eauto]. Qed.
  Lemma gext_trans g1 g2 g3 : gext g1 g2 -> gext g2 g3 -> gext g1 g3.
  Proof.
    intros (M1 & (n1 & L1) & O1) (M2 & (n2 & L2) & O2). split; [|split].
    - intros a s v Hs Hv. destruct (M1 a s v Hs Hv) as (s1 & Hs1 & Hv1). eauto.
    - exists (n1 ++ n2). rewrite L2, L1, app_assoc. reflexivity.
    - intros k oi E. destruct (O1 k oi E) as (oi1 & E1 & Eo1). destruct (O2 k oi1 E1) as (oi2 & E2 & Eo2). exists oi2. split; congruence.
  Qed.

  Lemma gok_empty : gok empty_graph.
  Proof.
    split; [apply ginv_empty|]. split; [|split; [constructor|intros k []]].
    intros b s H. unfold get_slot_ops in H. simpl in H. destruct (fst b); discriminate.
  Qed.

  Lemma sv_ops_op (ops ops' : ops_t) : sv ops' = sv ops ->
    forall k oi, nth_error ops k = Some oi -> exists oi', nth_error ops' k = Some oi' /\ o_op oi' = o_op oi.
  Proof.
    intros H k oi E. pose proof (sv_nth ops' ops k H) as Hk. rewrite E in Hk.
    destruct (nth_error ops' k) as [oi'|]; [|contradiction]. exists oi'. split; [reflexivity|tauto].
  Qed.
  Lemma sg_ops_op (ops ops' : ops_t) : sg ops' = sg ops ->
    forall k oi, nth_error ops k = Some oi -> exists oi', nth_error ops' k = Some oi' /\ o_op oi' = o_op oi.
  Proof.
    intros H k oi E. pose proof (sg_nth ops' ops k H) as Hk. rewrite E in Hk.
    destruct (nth_error ops' k) as [oi'|]; [|contradiction]. exists oi'. split; [reflexivity|tauto].
  Qed.

  Lemma add_ok me g o args g' k : gok g -> add_op F me g o args = Ok (g', k) -> gok g' /\ gext g g'.
  Proof.
    intros (Hinv & Hcl & Hnd & Hlog) H.
    pose proof (ginv_add F Hsh_len Hinner_argn _ _ _ _ _ _ Hinv H) as Hinv'.
    destruct (add_op_spec F _ _ _ _ _ _ H) as (_ & El & _ & oi & Eops & _ & _ & Hnew & _).
    assert (Hold : forall j oj, nth_error (g_ops g) j = Some oj -> nth_error (g_ops g') j = Some oj).
    { intros j oj E. rewrite Eops, nth_error_app1; [exact E|eapply nth_error_lt; eauto]. }
    split; [split; [exact Hinv'|split; [|split]]|].
    - intros b s Hs. unfold get_slot_ops in Hs. rewrite Eops in Hs.
      destruct (Nat.lt_ge_cases (fst b) (length (g_ops g))) as [Hlt|Hge].
      + rewrite nth_error_app1 in Hs by auto. apply (Hcl b s). exact Hs.
      + rewrite nth_error_app2 in Hs by auto. destruct (fst b - length (g_ops g)) as [|m]; simpl in Hs; [|destruct m; discriminate].
        rewrite Forall_forall in Hnew. apply (Hnew s). eapply nth_error_In; eauto.
    - rewrite El. exact Hnd.
    - intros j Hj. rewrite El in Hj. destruct (Hlog j Hj) as (oj & E & Hn & Hd). exists oj. auto.
    - split; [|split; [exists []; rewrite app_nil_r; exact El|intros j oj E; exists oj; auto]].
      intros a s v Hs Hv. exists s. split; [|exact Hv]. unfold get_slot_ops in *.
      destruct (nth_error (g_ops g) (fst a)) as [oa|] eqn:E; [|discriminate]. rewrite (Hold _ _ E). exact Hs.
  Qed.

  Lemma forward_ok g e a v g' e' : gok g -> forward F g e a = Some (v, g', e') ->
    gok g' /\ gext g g' /\ fexact F g e a v g' e'.
  Proof.
    intros (Hinv & Hcl & Hnd & Hlog) H.
    assert (Hslot : get_slot g a <> None) by (unfold forward in H; destruct (get_slot g a); [discriminate|discriminate]).
    destruct (forward_exact F Hfw_len g e a Hinv Hslot) as (v0 & g0 & e0 & Hf & Hex). rewrite H in Hf. injection Hf as <- <- <-.
    pose proof Hex as (Hsv & Hb & Hp & Hg & Hm & Hinv' & Hv & new & L & N & Hiff & Hc & Hcomp & Hout & Hd).
    split; [|split; [|exact Hex]].
    - split; [exact Hinv'|]. split; [eapply sv_gclean; eauto|]. split.
      + rewrite L. apply nodup_app; auto. intros k Hk Hk2. apply Hiff in Hk2. destruct Hk2 as (_ & _ & Hu).
        eapply evald_unev; [apply Hlog; exact Hk|exact Hu].
      + intros k Hk. rewrite L in Hk. apply in_app_or in Hk. destruct Hk as [Hk|Hk].
        * destruct (in_dec Nat.eq_dec k new) as [Hin|Hnin].
          -- apply Hiff in Hin. destruct Hin as (Ha & Hi & _). apply Hcomp; auto.
          -- destruct (Hlog k Hk) as (oi & E & Hn & Hdn). exists oi. rewrite Hout; auto.
        * apply Hiff in Hk. destruct Hk as (Ha & Hi & _). apply Hcomp; auto.
    - split; [exact Hm|]. split; [exists new; exact L|apply sv_ops_op; exact Hsv].
  Qed.

  Lemma backward_ok g e n g' e' : gok g -> backward F VO g e n = Some (g', e') ->
    gok g' /\ gext g g' /\ e_pval e' = e_pval e.
  Proof.
    intros (Hinv & Hcl & Hnd & Hlog) H.
    destruct (backward_spec _ _ _ _ _ Hinv Hcl H) as (g1 & e1 & R & I1 & Hsg & Hl & Hcl' & Hinv' & Hpv & _).
    pose proof R as (Hsv & _ & _ & _ & Hm & new & L & N & In1 & O1 & _).
    assert (Hev1 : forall k, In k (g_log g1) -> evald (g_ops g1) k).
    { intros k Hk. rewrite L in Hk. apply in_app_or in Hk. destruct Hk as [Hk|Hk].
      - eapply frel_evald; [exact R|]. apply Hlog. exact Hk.
      - apply In1. exact Hk. }
    split; [|split; [|exact Hpv]].
    - split; [exact Hinv'|]. split; [exact Hcl'|]. split.
      + rewrite Hl, L. apply nodup_app; auto. intros k Hk Hk2. destruct (In1 k Hk2) as (_ & _ & Hu & _).
        eapply evald_unev; [apply Hlog; exact Hk|exact Hu].
      + intros k Hk. rewrite Hl in Hk. eapply sg_evald; [symmetry; exact Hsg|]. apply Hev1. exact Hk.
    - apply gext_trans with g1.
      + split; [exact Hm|]. split; [exists new; exact L|apply sv_ops_op; exact Hsv].
      + split; [apply sg_mono; symmetry; exact Hsg|]. split; [exists []; rewrite app_nil_r; exact Hl|apply sg_ops_op; exact Hsg].
  Qed.

  Definition winv (w : world) : Prop := Forall gok (w_graphs w).
  Definition wext (w w' : world) : Prop :=
    forall gi g, nth_error (w_graphs w) gi = Some g -> exists g', nth_error (w_graphs w') gi = Some g' /\ gext g g'.

  Lemma Forall_set_nth {A} (P : A -> Prop) l i x : Forall P l -> P x -> Forall P (set_nth l i x).
  Proof. intros H Hx. revert i. induction H as [|y l Hy Hl IH]; intros [|i]; simpl; constructor; auto. Qed.

  Lemma put_ext (w : world) gi g g' e : nth_error (w_graphs w) gi = Some g -> gext g g' -> wext w (put_graph w gi g' e).
  Proof.
    intros E Hx j gj Ej. unfold put_graph. cbn [w_graphs]. destruct (Nat.eq_dec j gi) as [->|N].
    - rewrite nth_error_set_nth_eq by (eapply nth_error_lt; eauto). exists g'. split; auto. congruence.
    - rewrite nth_error_set_nth_neq by auto. exists gj. split; auto. apply gext_refl.
  Qed.
  Lemma wext_refl w : wext w w.
  Proof. intros gi g E. exists g. split; auto. apply gext_refl. Qed.

  Lemma run_ok (w : world) c : winv w -> winv (run F VO w c) /\ wext w (run F VO w c).
  Proof.
    intros Hw. unfold run. destruct (run_cmd F VO w c) as [w'| |] eqn:Er; [|split; [exact Hw|apply wext_refl]..].
    destruct c as [|gi o args|gi a|gi a|ps upd|ps|p v|d n]; simpl in Er.
    - injection Er as <-. split; [|intros gi g E; exists g; split; [cbn [w_graphs]; rewrite nth_error_app1; [exact E|eapply nth_error_lt; eauto]|apply gext_refl]].
      unfold winv. cbn [w_graphs]. apply Forall_app. split; [exact Hw|]. constructor; [apply gok_empty|constructor].
    - destruct (nth_error (w_graphs w) gi) as [g|] eqn:Eg; [|discriminate].
      destruct (add_op F gi g o args) as [[g' k]| |] eqn:Ea; try discriminate. injection Er as <-.
      assert (Hg : gok g) by (unfold winv in Hw; rewrite Forall_forall in Hw; apply Hw; eapply nth_error_In; eauto).
      destruct (add_ok _ _ _ _ _ _ Hg Ea) as (Hok & Hx). split; [apply Forall_set_nth; auto|eapply put_ext; eauto].
    - destruct (nth_error (w_graphs w) gi) as [g|] eqn:Eg; [|discriminate].
      destruct (forward F g (w_env w) a) as [[[v g'] e']|] eqn:Ea; try discriminate. injection Er as <-.
      assert (Hg : gok g) by (unfold winv in Hw; rewrite Forall_forall in Hw; apply Hw; eapply nth_error_In; eauto).
      destruct (forward_ok _ _ _ _ _ _ Hg Ea) as (Hok & Hx & _). split; [apply Forall_set_nth; auto|eapply put_ext; eauto].
    - destruct (nth_error (w_graphs w) gi) as [g|] eqn:Eg; [|discriminate].
      destruct (backward F VO g (w_env w) a) as [[g' e']|] eqn:Ea; try discriminate. injection Er as <-.
      assert (Hg : gok g) by (unfold winv in Hw; rewrite Forall_forall in Hw; apply Hw; eapply nth_error_In; eauto).
      destruct (backward_ok _ _ _ _ _ Hg Ea) as (Hok & Hx & _). split; [apply Forall_set_nth; auto|eapply put_ext; eauto].
    - injection Er as <-. split; [exact Hw|intros gi g E; exists g; split; [exact E|apply gext_refl]].
    - injection Er as <-. split; [exact Hw|intros gi g E; exists g; split; [exact E|apply gext_refl]].
    - injection Er as <-. split; [exact Hw|intros gi g E; exists g; split; [exact E|apply gext_refl]].
    - injection Er as <-. split; [exact Hw|intros gi g E; exists g; split; [exact E|apply gext_refl]].
  Qed.

  Lemma run_all_ok cs : forall w : world, winv w -> winv (run_all F VO w cs) /\ wext w (run_all F VO w cs).
  Proof.
    induction cs as [|c cs IH]; intros w Hw; simpl; [split; [exact Hw|apply wext_refl]|].
    destruct (run_ok w c Hw) as (H1 & X1). destruct (IH _ H1) as (H2 & X2). split; [exact H2|].
    intros gi g E. destruct (X1 gi g E) as (g1 & E1 & G1). destruct (X2 gi g1 E1) as (g2 & E2 & G2).
    exists g2. split; [exact E2|eapply gext_trans; eauto].
  Qed.

  (* value_immutable: for EVERY history, once a slot is Some v it stays Some v (parameters are
     never memoised: their slots stay None and are read through the live store).
     at_most_once: the forward-call log of every graph stays duplicate-free for EVERY history *)
  Theorem value_immutable (w : world) cs gi g a s v : winv w ->
    nth_error (w_graphs w) gi = Some g -> get_slot g a = Some s -> s_val s = Some v ->
    exists g' s', nth_error (w_graphs (run_all F VO w cs)) gi = Some g' /\ get_slot g' a = Some s' /\ s_val s' = Some v.
  Proof.
    intros Hw Eg Hs Hv. destruct (run_all_ok cs w Hw) as (_ & X). destruct (X gi g Eg) as (g' & Eg' & (Hm & _)).
    destruct (Hm a s v Hs Hv) as (s' & Hs' & Hv'). eauto.
  Qed.

  Theorem evaluated_at_most_once (w : world) cs gi g' : winv w ->
    nth_error (w_graphs (run_all F VO w cs)) gi = Some g' ->
    NoDup (g_log g') /\ (forall k, In k (g_log g') -> evald (g_ops g') k) /\ gclean (g_ops g').
  Proof.
    intros Hw Eg. destruct (run_all_ok cs w Hw) as (H & _). unfold winv in H. rewrite Forall_forall in H.
    destruct (H g' (nth_error_In _ _ Eg)) as (_ & Hc & Hn & Hl). auto.
  Qed.

  Lemma winv_init (e : env) : winv {| w_graphs := []; w_env := e |}.
  Proof. constructor. Qed.

  (* ---------- blocked paths, at the level of one backward() call ---------- *)
  Definition skel (ops ops' : ops_t) : Prop :=
    forall k, match nth_error ops k, nth_error ops' k with
              | Some a, Some b => o_op a = o_op b /\ o_args a = o_args b /\ map s_shape (o_rets a) = map s_shape (o_rets b)
              | None, None => True
              | _, _ => False
              end.
  Lemma skel_sg (ops ops' : ops_t) : sg ops = sg ops' -> skel ops ops'.
  Proof. intros H k. pose proof (sg_nth ops ops' k H). destruct (nth_error ops k), (nth_error ops' k); tauto. Qed.
  Lemma skel_sv (ops ops' : ops_t) : sv ops = sv ops' -> skel ops ops'.
  Proof.
    intros H k. pose proof (sv_nth ops ops' k H) as Hk. destruct (nth_error ops k), (nth_error ops' k); try tauto.
    destruct Hk as (A & B & _ & C). repeat split; auto. apply (f_equal (map s_shape)) in C. rewrite !map_map in C. exact C.
  Qed.
  Lemma skel_sym (ops ops' : ops_t) : skel ops ops' -> skel ops' ops.
  Proof. intros H k. specialize (H k). destruct (nth_error ops k), (nth_error ops' k); try tauto. destruct H as (A & B & C). auto. Qed.
  Lemma skel_trans (o1 o2 o3 : ops_t) : skel o1 o2 -> skel o2 o3 -> skel o1 o3.
  Proof.
    intros H1 H2 k. specialize (H1 k). specialize (H2 k).
    destruct (nth_error o1 k), (nth_error o2 k), (nth_error o3 k); try tauto.
    destruct H1 as (A & B & C), H2 as (A' & B' & C'). repeat split; congruence.
  Qed.
  Lemma skel_glive (ops ops' : ops_t) T : skel ops ops' -> forall k, glive F ops T k -> glive F ops' T k.
  Proof.
    intros H k Hg. induction Hg as [|k oi a _ IH E Hn Ha]; [constructor|].
    specialize (H k). rewrite E in H. destruct (nth_error ops' k) as [oi'|] eqn:E'; [|contradiction].
    destruct H as (Eo & Ea & _). eapply gl_step; [exact IH|exact E'| |]; congruence.
  Qed.
  Lemma skel_inner (ops ops' : ops_t) : skel ops ops' -> forall k, inner_of F ops k = inner_of F ops' k.
  Proof.
    intros H k. specialize (H k). unfold inner_of. destruct (nth_error ops k), (nth_error ops' k); try tauto.
    destruct H as (E & _). rewrite E. reflexivity.
  Qed.
  Lemma skel_slot_shape (ops ops' : ops_t) a s : skel ops ops' -> get_slot_ops ops a = Some s ->
    exists s', get_slot_ops ops' a = Some s' /\ s_shape s' = s_shape s.
  Proof.
    intros H Hs. unfold get_slot_ops in *. specialize (H (fst a)).
    destruct (nth_error ops (fst a)) as [oi|]; [|discriminate]. destruct (nth_error ops' (fst a)) as [oi'|]; [|contradiction].
    destruct H as (_ & _ & Es).
    assert (E : option_map s_shape (nth_error (o_rets oi) (snd a)) = option_map s_shape (nth_error (o_rets oi') (snd a)))
      by (rewrite <- !nth_error_map, Es; reflexivity).
    rewrite Hs in E. destruct (nth_error (o_rets oi') (snd a)) as [s'|]; [|discriminate]. simpl in E. exists s'. split; congruence.
  Qed.
  Lemma skel_shape_ok (ops ops' : ops_t) : skel ops ops' -> shape_ok F ops -> shape_ok F ops'.
  Proof.
    intros H Hok k oi' E Hi. pose proof (H k) as Hk. rewrite E in Hk.
    destruct (nth_error ops k) as [oi|] eqn:E0; [|contradiction]. destruct Hk as (Eo & Ea & Es).
    destruct (Hok k oi E0) as (ashs & Hf2 & Hfs); [congruence|]. exists ashs. split; [|congruence].
    rewrite <- Ea. eapply Forall2_impl; [|exact Hf2]. intros a sh (s & Hs & Esh). cbv beta.
    destruct (skel_slot_shape _ _ _ _ H Hs) as (s' & Hs' & Esh'). exists s'. split; congruence.
  Qed.
  Lemma skel_zero_of (ops ops' : ops_t) p z : skel ops ops' -> zero_of F VO ops p z -> zero_of F VO ops' p z.
  Proof.
    intros H (k & oi & s & E & Hi & Hin & ->). pose proof (H k) as Hk. rewrite E in Hk.
    destruct (nth_error ops' k) as [oi'|] eqn:E'; [|contradiction]. destruct Hk as (Eo & _ & Es).
    apply In_nth_error in Hin. destruct Hin as (j & Hj).
    assert (Ej : option_map s_shape (nth_error (o_rets oi) j) = option_map s_shape (nth_error (o_rets oi') j))
      by (rewrite <- !nth_error_map, Es; reflexivity).
    rewrite Hj in Ej. destruct (nth_error (o_rets oi') j) as [s'|] eqn:Ej'; [|discriminate]. simpl in Ej.
    exists k, oi', s'. repeat split; auto; [congruence|eapply nth_error_In; eauto|congruence].
  Qed.

  Section Blocked.
    Hypothesis Hzz : forall sh, vadd VO (vzeros VO sh) (vzeros VO sh) = vzeros VO sh.
    Hypothesis Hbwz : forall o ashs rshs xs ys, f_shape F o ashs = Some rshs ->
      forall i inc, nth_error (f_bw F o xs ys (map (vzeros VO) rshs)) i = Some inc ->
        exists sh, nth_error ashs i = Some sh /\ inc = vzeros VO sh.

    (* A parameter none of whose operators is reached from the target by a gradient-carrying
       path (all paths cross stop_gradient / constant / input / random operators, or there is no
       path at all) only ever receives `+= zeros(its shape)`. *)
    Theorem backward_blocked (g : gstate) e n g' e' : ginv F (g_ops g) -> gclean (g_ops g) -> shape_ok F (g_ops g) ->
      backward F VO g e n = Some (g', e') ->
      forall p, (forall j, glive F (g_ops g) (fst n) j -> inner_of F (g_ops g) j <> Some p) ->
        exists zs, e_pgrad e' p = fold_left (vadd VO) zs (e_pgrad e p) /\ Forall (zero_of F VO (g_ops g) p) zs.
    Proof.
      intros Hinv Hcl Hshp H p Hp. unfold backward in H. destruct (get_slot g n) as [last_n|] eqn:Eslot; [|discriminate].
      assert (Hpre : exists g1 e1, (match s_val last_n with Some _ => Some (g, e) | None =>
                       match forward F g e n with Some (_, g1, e1) => Some (g1, e1) | None => None end end) = Some (g1, e1) /\
                     frel F g e g1 e1 [fst n] /\ ginv F (g_ops g1)).
      { destruct (s_val last_n).
        - exists g, e. split; [reflexivity|]. split; [apply frel_refl|exact Hinv].
        - unfold forward in *. rewrite Eslot in *.
          destruct (fwd F (S (fst n)) g e n) as [[[v g1] e1]|] eqn:Ef; [|discriminate].
          exists g1, e1. split; [reflexivity|]. destruct (fwd_spec F Hfw_len _ _ _ _ _ _ _ Hinv Ef) as (R & I1 & _). auto. }
      destruct Hpre as (g1 & e1 & Hp1 & R & I1). rewrite Hp1 in H.
      set (ops0 := upd_ops (g_ops g1) n (fun s => set_grad s (Some (vones VO (s_shape s))))) in *.
      destruct (sweep F VO (fst n) ops0 e1 (g_blog g1)) as [[[ops' e1'] bl']|] eqn:Es; [|discriminate].
      injection H as <- <-. pose proof R as (Hsv & _ & _ & Hg & _).
      assert (Hsg0 : sg ops0 = sg (g_ops g1)) by (apply grad_only_sg; reflexivity).
      assert (Hsk : skel (g_ops g) ops0).
      { eapply skel_trans; [apply skel_sv; symmetry; exact Hsv|apply skel_sg; symmetry; exact Hsg0]. }
      assert (Hwf0 : wf_ops ops0) by (eapply sg_wf; [symmetry; exact Hsg0|]; destruct I1 as (Hw & _); exact Hw).
      assert (Hcl1 : gclean (g_ops g1)) by (eapply sv_gclean; eauto).
      assert (Hz0 : forall b s, get_slot_ops ops0 b = Some s -> ~ glive F ops0 (fst n) (fst b) -> zgrad VO s).
      { intros b s Hs Hnl. unfold ops0 in Hs. rewrite upd_ops_get in Hs.
        destruct (Nat.eqb_spec (fst n) (fst b)) as [E|N]; [exfalso; apply Hnl; rewrite <- E; constructor|].
        simpl in Hs. intros x Hx. rewrite (Hcl1 b s Hs) in Hx. discriminate. }
      destruct (sweep_blocked F VO Hzz Hbwz _ _ _ _ _ _ _ (fst n) Hwf0 (skel_shape_ok _ _ Hsk Hshp) Es Hz0 p) as (zs & Ez & Hzs).
      - intros j Hl. rewrite <- (skel_inner _ _ Hsk). apply Hp. eapply skel_glive; [apply skel_sym; exact Hsk|exact Hl].
      - exists zs. split; [rewrite Ez; congruence|]. eapply Forall_impl; [|exact Hzs]. intros z. apply skel_zero_of. apply skel_sym. exact Hsk.
    Qed.
  End Blocked.

  (* ---------- repeated backward: every further call adds the same contributions ---------- *)
  Lemma slot_eq_grad (s s' : slot) : set_grad s None = set_grad s' None -> s_grad s = None -> s_grad s' = None -> s = s'.
  Proof. destruct s, s'; simpl. intros [= -> -> ->] -> ->. reflexivity. Qed.

  Lemma sg_gclean_eq (ops ops' : ops_t) : sg ops = sg ops' -> gclean ops -> gclean ops' -> ops = ops'.
  Proof.
    intros H Hc Hc'. apply list_ext. intro k.
    assert (E : nth_error (sg ops) k = nth_error (sg ops') k) by (rewrite H; reflexivity).
    unfold sg in E. rewrite !nth_error_map in E.
    destruct (nth_error ops k) as [a|] eqn:Ea, (nth_error ops' k) as [b|] eqn:Eb; simpl in E; try discriminate; auto.
    f_equal. injection E as E1 E2 E3. destruct a as [ao aa ar], b as [bo ba br]; simpl in *. subst. f_equal.
    apply list_ext. intro j.
    assert (Ej : nth_error (map (fun s : slot => set_grad s None) ar) j = nth_error (map (fun s : slot => set_grad s None) br) j) by (rewrite E3; reflexivity).
    rewrite !nth_error_map in Ej.
    destruct (nth_error ar j) as [s|] eqn:Es, (nth_error br j) as [s'|] eqn:Es'; simpl in Ej; try discriminate; auto.
    f_equal. assert (Ej' : set_grad s None = set_grad s' None) by congruence. clear Ej. apply slot_eq_grad; auto.
    - apply (Hc (k, j) s). unfold get_slot_ops. simpl. rewrite Ea. exact Es.
    - apply (Hc' (k, j) s'). unfold get_slot_ops. simpl. rewrite Eb. exact Es'.
  Qed.

  Lemma sweep_bl k : forall (ops : ops_t) e bl ops' e' bl', sweep F VO k ops e bl = Some (ops', e', bl') ->
    forall bl2, exists bl2', sweep F VO k ops e bl2 = Some (ops', e', bl2').
  Proof.
    induction k as [|k IH]; intros ops e bl ops' e' bl' H bl2; simpl in *.
    - destruct (bstep F VO 0 ops e) as [[[o1 e1] c]|]; [|discriminate]. injection H as <- <- _. eauto.
    - destruct (bstep F VO (S k) ops e) as [[[o1 e1] c]|]; [|discriminate]. eapply IH; eauto.
  Qed.

  Lemma env_eta (e e2 : env) : e_pval e2 = e_pval e -> e_pos e2 = e_pos e -> e2 = with_pgrad e (e_pgrad e2).
  Proof. destruct e, e2; simpl. intros -> ->. reflexivity. Qed.

  (* After one completed backward(n) the graph is a fixed point of backward(n): any further
     call (whatever the gradients are by then; same parameter values) leaves the operator list
     unchanged, consumes no random numbers and adds exactly the same contributions cs. *)
  Theorem backward_again (g : gstate) e n g' e' : gok g -> backward F VO g e n = Some (g', e') ->
    exists cs, (forall p, e_pgrad e' p = fold_left (vadd VO) (cs_for p cs) (e_pgrad e p)) /\
      forall e2, e_pval e2 = e_pval e -> exists g2 e2',
        backward F VO g' e2 n = Some (g2, e2') /\ g_ops g2 = g_ops g' /\ g_log g2 = g_log g' /\
        e_pval e2' = e_pval e2 /\ e_pos e2' = e_pos e2 /\
        forall p, e_pgrad e2' p = fold_left (vadd VO) (cs_for p cs) (e_pgrad e2 p).
  Proof.
    intros (Hinv & Hcl & Hnd & Hlog) H. pose proof H as H0.
    unfold backward in H. destruct (get_slot g n) as [last_n|] eqn:Eslot; [|discriminate].
    assert (Hpre : exists g1 e1, (match s_val last_n with Some _ => Some (g, e) | None =>
                     match forward F g e n with Some (_, g1, e1) => Some (g1, e1) | None => None end end) = Some (g1, e1) /\
                   fpost F g e g1 e1 [n] [match aread F (g_ops g1) e n with Some v => v | None => e_pval e 0 end]
                   \/ (g1 = g /\ e1 = e /\ s_val last_n <> None)).
    { destruct (s_val last_n) eqn:Ev.
      - exists g, e. right. split; [reflexivity|]. split; [reflexivity|discriminate].
      - unfold forward in *. rewrite Eslot in *.
        destruct (fwd F (S (fst n)) g e n) as [[[v g1] e1]|] eqn:Ef; [|discriminate].
        exists g1, e1. left. split; [reflexivity|]. pose proof (fwd_spec F Hfw_len _ _ _ _ _ _ _ Hinv Ef) as P.
        destruct P as (R & I1 & A & Ev'). inversion A as [|? ? ? ? Hx _]; subst. rewrite Hx. split; auto. }
    (* in both cases: g1 extends g, the target is readable in g1 *)
    assert (Hpre2 : exists g1 e1, (match s_val last_n with Some _ => Some (g, e) | None =>
                     match forward F g e n with Some (_, g1, e1) => Some (g1, e1) | None => None end end) = Some (g1, e1) /\
                    frel F g e g1 e1 [fst n] /\ ginv F (g_ops g1) /\
                    (inner_of F (g_ops g1) (fst n) = None -> exists s1 v1, get_slot g1 n = Some s1 /\ s_val s1 = Some v1)).
    { destruct Hpre as (g1 & e1 & [(Hp1 & R & I1 & A & Ev')|(-> & -> & Hsome)]).
      - exists g1, e1. split; [exact Hp1|]. split; [exact R|]. split; [exact I1|]. intros Hin.
        inversion A as [|? ? ? ? Hx _]; subst. unfold aread in Hx. unfold inner_of in Hin. unfold get_slot, get_slot_ops.
        destruct (nth_error (g_ops g1) (fst n)) as [oi|]; [|discriminate]. rewrite Hin in Hx.
        destruct (nth_error (o_rets oi) (snd n)) as [s1|]; [|discriminate]. destruct (s_val s1) as [v1|] eqn:Ev1; [|discriminate]. eauto.
      - exists g, e. destruct (s_val last_n) as [v0|] eqn:Ev0; [|congruence]. split; [reflexivity|]. split; [apply frel_refl|]. split; [exact Hinv|].
        intros _. exists last_n, v0. auto. }
    clear Hpre. destruct Hpre2 as (g1 & e1 & Hp1 & R & I1 & Hread). rewrite Hp1 in H.
    set (ops0 := upd_ops (g_ops g1) n (fun s => set_grad s (Some (vones VO (s_shape s))))) in *.
    destruct (sweep F VO (fst n) ops0 e1 (g_blog g1)) as [[[ops' e1'] bl']|] eqn:Es; [|discriminate].
    injection H as <- <-. cbn [g_ops g_log g_blog].
    pose proof R as (Hsv & _ & Hpv1 & Hpg1 & _).
    assert (Hsg0 : sg ops0 = sg (g_ops g1)) by (apply grad_only_sg; reflexivity).
    assert (Hwf0 : wf_ops ops0) by (eapply sg_wf; [symmetry; exact Hsg0|]; destruct I1 as (Hw & _); exact Hw).
    assert (Hcl1 : gclean (g_ops g1)) by (eapply sv_gclean; eauto).
    assert (Hcf : gclear_from (S (fst n)) ops0).
    { intros b s Hs Hle. unfold ops0 in Hs. rewrite upd_ops_get in Hs.
      destruct (Nat.eqb_spec (fst n) (fst b)) as [E|N]; [lia|]. simpl in Hs. eapply Hcl1; eauto. }
    destruct (sweep_clean F VO _ _ _ _ _ _ _ Hwf0 Es Hcf) as (Hsg' & Hclean' & Hpv & Hpos).
    assert (Hops : ops' = g_ops g1) by (apply sg_gclean_eq; [congruence|exact Hclean'|exact Hcl1]).
    destruct (sweep_indep F VO _ _ _ _ _ _ _ Es) as (cs & Ecs & Hall).
    exists cs. split.
    { intro p. rewrite Ecs, apply_cs_pgrad. rewrite Hpg1. reflexivity. }
    intros e2 He2.
    (* second call on g' : the forward part is the identity *)
    assert (Hslot2 : exists s2, get_slot {| g_ops := ops'; g_log := g_log g1; g_blog := bl' |} n = Some s2 /\
              (match s_val s2 with Some _ => Some ({| g_ops := ops'; g_log := g_log g1; g_blog := bl' |}, e2) | None =>
                 match forward F {| g_ops := ops'; g_log := g_log g1; g_blog := bl' |} e2 n with Some (_, g3, e3) => Some (g3, e3) | None => None end end)
              = Some ({| g_ops := ops'; g_log := g_log g1; g_blog := bl' |}, e2)).
    { unfold get_slot. cbn [g_ops]. rewrite Hops.
      assert (Hs1 : exists s1, get_slot_ops (g_ops g1) n = Some s1).
      { pose proof (sv_slot (g_ops g) (g_ops g1) n (eq_sym Hsv)) as Hx.
        destruct (get_slot_ops (g_ops g1) n) as [s1|]; [eauto|]. exfalso.
        apply Hx; [unfold get_slot in Eslot; rewrite Eslot; discriminate|reflexivity]. }
      destruct Hs1 as (s1 & Es1). exists s1. split; [exact Es1|].
      destruct (s_val s1) as [v1|] eqn:Ev1; [reflexivity|].
      destruct (inner_of F (g_ops g1) (fst n)) as [pp|] eqn:Ein.
      - unfold forward, get_slot. cbn [g_ops]. rewrite Es1. cbn [fwd g_ops]. unfold inner_of in Ein.
        destruct (nth_error (g_ops g1) (fst n)) as [oi|]; [|discriminate]. rewrite Ein. reflexivity.
      - destruct (Hread eq_refl) as (s1' & v1' & Hg1 & Hv1'). unfold get_slot in Hg1. congruence. }
    destruct Hslot2 as (s2 & Es2 & Hfw2).
    unfold backward. rewrite Es2, Hfw2. cbn [g_ops g_blog g_log]. rewrite Hops. fold ops0.
    assert (He21 : e_pval e2 = e_pval e1) by congruence.
    destruct (sweep_bl _ _ _ _ _ _ _ (Hall e2 He21) bl') as (bl2' & Es2').
    rewrite Es2'. eexists _, _. split; [reflexivity|]. cbn [g_ops g_log].
    destruct (apply_cs_pval VO cs e2) as (A & B).
    split; [first [exact Hops|symmetry; exact Hops|reflexivity]|]. split; [reflexivity|]. split; [exact A|]. split; [exact B|].
    intro p. apply apply_cs_pgrad.
  Qed.
End HistoryProofs.
