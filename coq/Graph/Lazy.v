(* Executable model of Graph::forward (forward_recursive with memoisation).  No proofs.
   The recursion is on the operator id: arguments refer to earlier operators (theorem
   [fwd_fuel_enough] in LazyProofs.v), so fuel = oid + 1 is never exhausted. *)
From Coq Require Import List NArith Bool Arith.
From PV Require Import Graph.OpFamily Graph.Tape.
Import ListNotations.

Section Lazy.
  Context {Op Sh V : Type}.
  Variable F : OpFamily Op Sh V.
  Notation gstate := (@gstate Op Sh V).
  Notation env := (@env V).

  Definition bump (e : env) (d : nat) (n : N) : env :=
    {| e_pval := e_pval e; e_pgrad := e_pgrad e;
       e_pos := fun d' => if Nat.eqb d' d then N.add (e_pos e d) n else e_pos e d' |}.

  (* `*rets_v[i] = ...` for every output the operator assigns *)
  Fixpoint store_vals (rets : list (@slot Sh V)) (outs : list V) : list slot :=
    match rets, outs with
    | s :: rets', v :: outs' => set_val s (Some v) :: store_vals rets' outs'
    | _, _ => rets
    end.

  (* forward_recursive(addr): returns the tensor pointed to by the result *)
  Fixpoint fwd (fuel : nat) (g : gstate) (e : env) (a : nat * nat) : option (V * gstate * env) :=
    match fuel with
    | O => None
    | S fu =>
      match nth_error (g_ops g) (fst a) with
      | None => None
      | Some cur =>
        match f_inner F (o_op cur) with
        | Some p => Some (e_pval e p, g, e)            (* get_inner_values()[vid]: live pointer *)
        | None =>
          match nth_error (o_rets cur) (snd a) with
          | None => None
          | Some cur_n =>
            match s_val cur_n with
            | Some v => Some (v, g, e)                 (* if (cur_n.value.valid()) return *)
            | None =>
              match (fix go (l : list (nat * nat)) (g : gstate) (e : env) : option (list V * gstate * env) :=
                       match l with
                       | [] => Some ([], g, e)
                       | x :: l' =>
                         match fwd fu g e x with
                         | None => None
                         | Some (v, g1, e1) =>
                           match go l' g1 e1 with
                           | None => None
                           | Some (vs, g2, e2) => Some (v :: vs, g2, e2)
                           end
                         end
                       end) (o_args cur) g e with
              | None => None
              | Some (vs, g1, e1) =>
                (* cur_f.op->forward(args_v, rets_v) *)
                let '(outs, e2) :=
                  match f_rand F (o_op cur) with
                  | Some (d, n) => (f_fw F (o_op cur) (e_pos e1 d) vs, bump e1 d n)
                  | None => (f_fw F (o_op cur) 0%N vs, e1)
                  end in
                match nth_error (g_ops g1) (fst a) with
                | None => None
                | Some cur1 =>
                  let rets' := store_vals (o_rets cur1) outs in
                  let g2 := {| g_ops := set_nth (g_ops g1) (fst a) (set_rets cur1 rets');
                               g_log := g_log g1 ++ [fst a]; g_blog := g_blog g1 |} in
                  match nth_error outs (snd a) with
                  | Some v => Some (v, g2, e2)
                  | None => None                        (* operator did not assign its output *)
                  end
                end
              end
            end
          end
        end
      end
    end.

  (* Graph::forward(node); None = std::abort() of CHECK_NODE (or the unreachable cases) *)
  Definition forward (g : gstate) (e : env) (a : nat * nat) : option (V * gstate * env) :=
    match get_slot g a with
    | None => None
    | Some _ => fwd (S (fst a)) g e a
    end.
End Lazy.
