(* Totality / never-stuck theorems of the graph engine.

   The executable model (Graph/Lazy.v, Graph/Backward.v) returns [option] / [res]:
     Error = the C++ raises primitiv::Error (a modelled outcome),
     Abort / None = EITHER std::abort() of CHECK_NODE (node id out of range: a modelled, definite
                    outcome of the C++) OR "the model has no answer" (fuel exhausted, a lookup
                    of an operator / return value / memoised value failed, the operator did not
                    assign an output).
   [run] maps both Error and Abort to "world unchanged", and every backward theorem of C06 / C01
   is conditional on [backward ... = Some _].  This file proves that the second reading of
   Abort / None NEVER happens on a reachable world:

     * sweep_total_tape   : on a well-formed tape whose operators are evaluated (tape_ready)
                            the reverse sweep from any operator of the tape returns Some;
     * backward_total     : on a graph satisfying the reachable invariant (ginv + gclean)
                            backward on a valid node returns Some;
     * run_cmd_never_aborts / abort_only_check_node : on a world satisfying winv, run_cmd yields
                            Abort ONLY for a request whose graph index does not exist or one of
                            whose nodes fails CHECK_NODE's range test (where the C++ calls
                            std::abort()), and for forward / backward exactly then;
     * history_never_aborts / run_strict_eq : along a history of valid requests no step aborts,
                            and [run_all] coincides with the strict semantics in which Abort is
                            fatal.
   Where the model can return None / Abort, and what excludes it (ginv, gclean = the invariant of
   reachable graphs, HistoryProofs.gok; FamOK = contract of the operator family):
     fwd   F1 fuel = 0                                   fuel = oid+1 and arguments have smaller ids (wf_ops)
           F2 operator id not in ops_                    CHECK_NODE for the root, wf_ops for arguments
           F3 return index not in rets                   CHECK_NODE for the root, wf_ops for arguments
           F4 an argument's recursive call is None       induction (LazyProofs.fwd_fuel_enough)
           F5 the operator vanished while its arguments were evaluated      sv is preserved
           F6 forward returned no value for the requested output            FamOK: |f_fw| = f_retn = |rets|
     forward / backward: get_slot = None                 this IS std::abort() of CHECK_NODE (kept)
     sweep B1/B3/B6 operator k not in the list           k <= oid of the valid target; lengths preserved
           G1/G2 an argument address not in the list     wf_ops
           G3 an argument has no value and is not a Parameter operator (C++: get_inner_values() throws)
                                                         gev: a gradient only sits on evaluated / Parameter
                                                         operators, whose arguments are evaluated / Parameters (ginv)
           B4 a Parameter operator without return value  an enabled operator has a return value
           B5 an output of the operator has no value     gev + ginv: evaluated operators hold ALL outputs
     run_cmd: no graph with that index                   not a request of the C++ API (no such object)
              check_node out of range in add_operator    this IS std::abort() of CHECK_NODE (kept)
   Not covered by the model at all (not an Abort, a limitation of the request language): forward /
   backward with a node of ANOTHER graph (C++: Error "Graph mismatched"); an Error thrown by an
   operator's own forward / backward (f_fw / f_bw are total; the harness' operators do not throw).
   Assumed of the operator family: FamOK only (forward assigns every output, forward_shape
   returns one shape per output, an operator with inner values takes no arguments).  f_fw / f_bw
   are total Coq functions: an operator's forward / backward has no Error / Abort outcome of its
   own in this model (forward_shape's rejection is the Error of add_operator). *)
From Coq Require Import List NArith Bool Arith Lia.
From PV Require Import Graph.OpFamily Graph.Tape Graph.Lazy Graph.Backward Graph.TapeLemmas
  Graph.LazyProofs Graph.BackwardProofs Graph.HistoryProofs.
Import ListNotations.

Section Totality.
  Context {Op Sh V : Type}.
  Variable F : OpFamily Op Sh V.
  Variable VO : ValOps Sh V.
  Notation gstate := (@gstate Op Sh V).
  Notation opinfo := (@opinfo Op Sh V).
  Notation slot := (@slot Sh V).
  Notation env := (@env V).
  Notation ops_t := (list opinfo).
  Notation world := (@world Op Sh V).
  Notation cmd := (@cmd Op Sh V).

  (* ---------- what one sweep step needs: readable arguments, evaluated outputs ---------- *)
  (* backward can read argument a: the memoised value, else the live parameter value *)
  Definition readable_b (ops : ops_t) (a : nat * nat) : bool :=
    match nth_error ops (fst a) with
    | Some oi => match nth_error (o_rets oi) (snd a) with
                 | Some s => match s_val s with
                             | Some _ => true
                             | None => match f_inner F (o_op oi) with Some _ => true | None => false end
                             end
                 | None => false
                 end
    | None => false
    end.
  (* operator oi can be back-propagated through: all arguments readable, and (unless it is a
     Parameter operator) all its outputs evaluated *)
  Definition op_ready_b (ops : ops_t) (oi : opinfo) : bool :=
    forallb (readable_b ops) (o_args oi) &&
    match f_inner F (o_op oi) with Some _ => true | None => op_done oi end.
  Definition tape_ready_b (ops : ops_t) : bool := forallb (op_ready_b ops) ops.
  Definition tape_ready (ops : ops_t) : Prop := tape_ready_b ops = true.

  Lemma readable_bread (ops : ops_t) (e : env) a : readable_b ops a = true <-> bread F ops e a <> None.
  Proof.
    unfold readable_b, bread. destruct (nth_error ops (fst a)) as [oi|]; [|split; [discriminate|congruence]].
    destruct (nth_error (o_rets oi) (snd a)) as [s|]; [|split; [discriminate|congruence]].
    destruct (s_val s); [split; [discriminate|reflexivity]|].
    destruct (f_inner F (o_op oi)); split; congruence.
  Qed.

  Lemma readable_sg (ops ops' : ops_t) a : sg ops = sg ops' -> readable_b ops a = readable_b ops' a.
  Proof.
    intros H. unfold readable_b. pose proof (sg_nth ops ops' (fst a) H) as Hk.
    destruct (nth_error ops (fst a)) as [o1|], (nth_error ops' (fst a)) as [o2|]; try contradiction; auto.
    destruct Hk as (Eo & _ & _ & Ev & _).
    assert (E : option_map s_val (nth_error (o_rets o1) (snd a)) = option_map s_val (nth_error (o_rets o2) (snd a)))
      by (rewrite <- !nth_error_map, Ev; reflexivity).
    destruct (nth_error (o_rets o1) (snd a)) as [s1|], (nth_error (o_rets o2) (snd a)) as [s2|]; simpl in E; try discriminate; auto.
    injection E as ->. rewrite Eo. reflexivity.
  Qed.

  Lemma forallb_ext_in {A} (f g : A -> bool) l : (forall x, In x l -> f x = g x) -> forallb f l = forallb g l.
  Proof. induction l as [|x l IH]; intro H; simpl; auto. rewrite (H x) by (left; reflexivity). rewrite IH; auto. intros; apply H; right; auto. Qed.

  Lemma sg_length (ops ops' : ops_t) : sg ops = sg ops' -> length ops = length ops'.
  Proof. intros H. apply (f_equal (@length _)) in H. unfold sg in H. rewrite !map_length in H. exact H. Qed.

  Lemma tape_ready_sg (ops ops' : ops_t) : sg ops = sg ops' -> tape_ready ops -> tape_ready ops'.
  Proof.
    intros H Hr. unfold tape_ready, tape_ready_b in *. rewrite forallb_forall in *. intros oi' Hin.
    apply In_nth_error in Hin. destruct Hin as (k & Ek). pose proof (sg_nth ops ops' k H) as Hk. rewrite Ek in Hk.
    destruct (nth_error ops k) as [oi|] eqn:E; [|contradiction]. destruct Hk as (Eo & Ea & _ & Ev & _).
    pose proof (Hr oi (nth_error_In _ _ E)) as Hoi. unfold op_ready_b in *. rewrite <- Ea, <- Eo, <- (op_done_vals oi oi' Ev).
    rewrite (forallb_ext_in (readable_b ops') (readable_b ops)); [exact Hoi|]. intros a _. symmetry. apply readable_sg. exact H.
  Qed.

  Lemma tape_ready_nth (ops : ops_t) k oi : tape_ready ops -> nth_error ops k = Some oi -> op_ready_b ops oi = true.
  Proof. unfold tape_ready, tape_ready_b. rewrite forallb_forall. intros H E. apply H. eapply nth_error_In; eauto. Qed.

  (* ---------- the pieces of one step never fail ---------- *)
  Lemma gather_args_total args : forall (ops : ops_t) (e : env),
    forallb (readable_b ops) args = true -> exists xs, gather_args F VO ops e args = Some (xs, fold_mat VO ops args).
  Proof.
    induction args as [|a args IH]; intros ops e H; simpl in *; [eexists; reflexivity|].
    apply andb_true_iff in H. destruct H as (Ha & Hr). unfold readable_b in Ha.
    destruct (nth_error ops (fst a)) as [arg_f|] eqn:Ef; [|discriminate].
    destruct (nth_error (o_rets arg_f) (snd a)) as [arg_n|] eqn:En; [|discriminate].
    assert (Hov : exists v, match s_val arg_n with Some v => Some v | None =>
                     match f_inner F (o_op arg_f) with Some p => Some (e_pval e p) | None => None end end = Some v).
    { destruct (s_val arg_n); [eauto|]. destruct (f_inner F (o_op arg_f)); [eauto|discriminate]. }
    destruct Hov as (v & ->).
    destruct (IH (upd_ops ops a (mat_zero VO)) e) as (xs & ->).
    { rewrite (forallb_ext_in _ (readable_b ops)); [exact Hr|]. intros b _. apply readable_sg.
      apply grad_only_sg. apply mat_zero_grad_only. }
    eexists. reflexivity.
  Qed.

  Lemma all_vals_done (rets : list slot) : forallb has_val rets = true -> exists ys, all_vals rets = Some ys.
  Proof.
    induction rets as [|s r IH]; simpl; intro H; [eexists; reflexivity|].
    apply andb_true_iff in H. destruct H as (Hs & Hr). destruct (IH Hr) as (ys & ->).
    unfold has_val in Hs. destruct (s_val s); [eexists; reflexivity|discriminate].
  Qed.

  (* one iteration of the sweep loop: defined as soon as the operator exists and, when it
     carries a gradient, is ready *)
  Lemma bstep_total k (ops : ops_t) (e : env) cur : wf_ops ops -> nth_error ops k = Some cur ->
    (enabled (o_rets cur) = true -> op_ready_b ops cur = true) ->
    exists ops' e' c, bstep F VO k ops e = Some (ops', e', c).
  Proof.
    intros Hwf Ecur Hready. unfold bstep. rewrite Ecur.
    destruct (enabled (o_rets cur)) eqn:Een; simpl; [|eauto].
    specialize (Hready eq_refl). unfold op_ready_b in Hready. apply andb_true_iff in Hready. destruct Hready as (Hargs_r & Hdone).
    assert (Hargs : forall a, In a (o_args cur) -> fst a <> k).
    { intros a Ha. pose proof (Hwf k cur Ecur) as Hf. rewrite Forall_forall in Hf. destruct (Hf a Ha). lia. }
    assert (E1 : set_nth ops k (set_rets cur (map (mat_zero VO) (o_rets cur))) = map_op ops k (mat_zero VO))
      by (unfold map_op; rewrite Ecur; reflexivity).
    rewrite E1.
    destruct (gather_args_total (o_args cur) (map_op ops k (mat_zero VO)) e) as (xs & ->).
    { rewrite (forallb_ext_in _ (readable_b ops)); [exact Hargs_r|]. intros b _. apply readable_sg.
      apply map_op_sg. apply mat_zero_grad_only. }
    assert (Ek2 : nth_error (fold_mat VO (map_op ops k (mat_zero VO)) (o_args cur)) k = Some (set_rets cur (map (mat_zero VO) (o_rets cur)))).
    { rewrite fold_mat_other by auto. apply map_op_at. exact Ecur. }
    rewrite Ek2. cbn [o_op o_rets o_args set_rets].
    destruct (f_inner F (o_op cur)) as [p|] eqn:Ein.
    - destruct (o_rets cur) as [|s0 r0] eqn:Er; [discriminate|]. cbn [map]. rewrite Ek2. eauto.
    - rewrite all_vals_map_grad by (intro s; unfold mat_zero; destruct (s_grad s); reflexivity).
      destruct (all_vals_done (o_rets cur) Hdone) as (ys & ->).
      rewrite add_incs_other by auto. rewrite Ek2. eauto.
  Qed.

  (* ---------- the whole sweep, for an invariant Q of the operator list ---------- *)
  Section SweepGen.
    Variable Q : ops_t -> Prop.
    Hypothesis Qstep : forall k (ops : ops_t) (e : env) ops' e' c, wf_ops ops -> Q ops ->
      bstep F VO k ops e = Some (ops', e', c) -> Q ops'.
    Hypothesis Qready : forall k (ops : ops_t) cur, wf_ops ops -> Q ops -> nth_error ops k = Some cur ->
      enabled (o_rets cur) = true -> op_ready_b ops cur = true.

    Lemma sweep_total_gen k : forall (ops : ops_t) (e : env) bl, wf_ops ops -> Q ops -> k < length ops ->
      exists ops' e' bl', sweep F VO k ops e bl = Some (ops', e', bl').
    Proof.
      induction k as [|k IH]; intros ops e bl Hwf HQ Hk.
      - destruct (nth_error ops 0) as [cur|] eqn:Ecur; [|apply nth_error_None in Ecur; lia].
        destruct (bstep_total 0 ops e cur Hwf Ecur (Qready 0 ops cur Hwf HQ Ecur)) as (ops1 & e1 & c & Eb).
        simpl. rewrite Eb. eauto.
      - destruct (nth_error ops (S k)) as [cur|] eqn:Ecur; [|apply nth_error_None in Ecur; lia].
        destruct (bstep_total (S k) ops e cur Hwf Ecur (Qready (S k) ops cur Hwf HQ Ecur)) as (ops1 & e1 & c & Eb).
        cbn [sweep]. rewrite Eb.
        pose proof (bstep_sg F VO _ _ _ _ _ _ Hwf Eb) as Hsg.
        apply IH.
        + eapply sg_wf; [symmetry; exact Hsg|exact Hwf].
        + eapply Qstep; eauto.
        + rewrite (sg_length _ _ Hsg). lia.
    Qed.
  End SweepGen.

  (* (a) tape level: a well-formed tape all of whose operators are ready (every non-parameter
     operator evaluated, every argument readable).  No other hypothesis on the tape. *)
  Theorem sweep_total_tape k (ops : ops_t) (e : env) bl : wf_ops ops -> tape_ready ops -> k < length ops ->
    exists ops' e' bl', sweep F VO k ops e bl = Some (ops', e', bl').
  Proof.
    apply (sweep_total_gen tape_ready).
    - intros k0 ops0 e0 ops' e' c Hwf HQ Hb. eapply tape_ready_sg; [symmetry; eapply bstep_sg; eauto|exact HQ].
    - intros k0 ops0 cur _ HQ E _. eapply tape_ready_nth; eauto.
  Qed.

  (* the sweep as Graph::backward starts it: seed ones(shape n) at a valid node n *)
  Theorem sweep_seeded_total (ops : ops_t) (e : env) n sn bl : wf_ops ops -> tape_ready ops ->
    get_slot_ops ops n = Some sn ->
    exists ops' e' bl',
      sweep F VO (fst n) (upd_ops ops n (fun s => set_grad s (Some (vones VO (s_shape s))))) e bl = Some (ops', e', bl').
  Proof.
    intros Hwf Hr Hn.
    assert (Hsg : sg (upd_ops ops n (fun s => set_grad s (Some (vones VO (s_shape s))))) = sg ops) by (apply grad_only_sg; reflexivity).
    apply sweep_total_tape.
    - eapply sg_wf; [symmetry; exact Hsg|exact Hwf].
    - eapply tape_ready_sg; [symmetry; exact Hsg|exact Hr].
    - rewrite upd_ops_length. unfold get_slot_ops in Hn. destruct (nth_error ops (fst n)) eqn:E; [|discriminate].
      eapply nth_error_lt; eauto.
  Qed.

  (* (b) graph level: the reachable invariant.  gev: a gradient only ever sits on an evaluated
     operator or on a Parameter operator *)
  Definition gev (ops : ops_t) : Prop :=
    forall b s, get_slot_ops ops b = Some s -> s_grad s <> None -> evald ops (fst b) \/ inner_of F ops (fst b) <> None.

  Lemma evald_done (ops : ops_t) k cur : evald ops k -> nth_error ops k = Some cur -> op_done cur = true.
  Proof. intros (oi & E & _ & Hd) E'. congruence. Qed.

  Lemma ginv_ready (ops : ops_t) k cur : ginv F ops -> nth_error ops k = Some cur ->
    evald ops k \/ f_inner F (o_op cur) <> None -> op_ready_b ops cur = true.
  Proof.
    intros (Hwf & Hlen & Hd & Hcl & Hia) Ecur Hk. unfold op_ready_b.
    destruct (f_inner F (o_op cur)) as [p|] eqn:Ein.
    - rewrite (Hia k cur Ecur) by congruence. reflexivity.
    - destruct Hk as [Hev|Hx]; [|congruence]. pose proof (evald_done ops k cur Hev Ecur) as Hdone. rewrite Hdone, andb_true_r.
      assert (Hne : o_rets cur <> []) by (destruct Hev as (oi & E & Hn & _); congruence).
      apply forallb_forall. intros a Ha. pose proof (Hwf k cur Ecur) as Hf. rewrite Forall_forall in Hf.
      destruct (Hf a Ha) as (_ & oa & Eoa & Hv). unfold readable_b. rewrite Eoa.
      destruct (nth_error (o_rets oa) (snd a)) as [s|] eqn:Es; [|apply nth_error_None in Es; lia].
      destruct (s_val s) eqn:Evs; [reflexivity|]. destruct (f_inner F (o_op oa)) eqn:Eia; [reflexivity|]. exfalso.
      assert (Heva : evald ops (fst a)) by (apply (Hcl k cur Ecur Hne Hdone a Ha); unfold inner_of; rewrite Eoa; exact Eia).
      pose proof (evald_done ops (fst a) oa Heva Eoa) as Hda. exact (op_done_val oa _ _ Hda Es Evs).
  Qed.

  Lemma sweep_total_graph k (ops : ops_t) (e : env) bl : ginv F ops -> gev ops -> k < length ops ->
    exists ops' e' bl', sweep F VO k ops e bl = Some (ops', e', bl').
  Proof.
    intros Hinv Hgev Hk.
    assert (Hwf : wf_ops ops) by (destruct Hinv as (Hw & _); exact Hw).
    apply (sweep_total_gen (fun o => ginv F o /\ gev o)); auto.
    - (* preserved by a step *)
      clear. intros k ops e ops' e' c Hwf (Hinv & Hgev) Hb.
      pose proof (bstep_sg F VO _ _ _ _ _ _ Hwf Hb) as Hsg.
      split; [eapply ginv_sg; [symmetry; exact Hsg|exact Hinv]|].
      destruct c.
      2:{ destruct (bstep_shape F VO _ _ _ _ _ _ Hwf Hb) as (cur & _ & [(_ & _ & -> & _)|(Hc & _)]); [exact Hgev|discriminate]. }
      destruct (step_get F VO _ _ _ _ _ Hwf Hb) as (cur & incs & Ecur & Hen & _ & Hget & _ & _ & _).
      assert (Htr : forall j, evald ops j \/ inner_of F ops j <> None -> evald ops' j \/ inner_of F ops' j <> None).
      { intros j [Hj|Hj]; [left; eapply sg_evald; [symmetry; exact Hsg|exact Hj]|right; rewrite (sg_inner F _ _ Hsg); exact Hj]. }
      intros b s Hs Hg. rewrite Hget in Hs. destruct (get_slot_ops ops b) as [s0|] eqn:E0; [|discriminate].
      injection Hs as <-. apply Htr. destruct (step_slot_grad _ _ _ _ _ _ Hg) as [Hold|(Hkb & Hin)]; [eapply Hgev; eauto|].
      (* b is an argument of the enabled operator k *)
      destruct (enabled_true cur Hen) as (j & sj & Hj & Hgj).
      assert (Hkk : evald ops k \/ inner_of F ops k <> None).
      { apply (Hgev (k, j) sj); auto. unfold get_slot_ops. simpl. rewrite Ecur. exact Hj. }
      destruct Hinv as (_ & _ & _ & Hcl & Hia).
      destruct Hkk as [Hev|Hin_k].
      + destruct (inner_of F ops (fst b)) eqn:Eib; [right; discriminate|]. left.
        destruct Hev as (oi & E & Hn & Hdn). rewrite Ecur in E. injection E as <-. eapply Hcl; eauto.
      + exfalso. unfold inner_of in Hin_k. rewrite Ecur in Hin_k. rewrite (Hia k cur Ecur Hin_k) in Hin. contradiction.
    - (* an enabled operator is ready *)
      clear. intros k ops cur _ (Hinv & Hgev) Ecur Hen.
      destruct (enabled_true cur Hen) as (j & sj & Hj & Hgj).
      apply (ginv_ready ops k cur Hinv Ecur).
      destruct (Hgev (k, j) sj) as [Hev|Hin]; auto.
      + unfold get_slot_ops. simpl. rewrite Ecur. exact Hj.
      + right. unfold inner_of in Hin. cbn [fst] in Hin. rewrite Ecur in Hin. exact Hin.
  Qed.

  (* contract of the operator family: forward assigns every output *)
  Hypothesis Hfw_len : forall o pos xs, length (f_fw F o pos xs) = f_retn F o.

  (* Graph::forward on a valid node of a graph satisfying the invariant never gets stuck
     (restates LazyProofs.forward_exact without the description of the result) *)
  Theorem forward_total (g : gstate) (e : env) a : ginv F (g_ops g) -> get_slot g a <> None ->
    exists v g' e', forward F g e a = Some (v, g', e').
  Proof. intros Hi Hs. destruct (forward_exact F Hfw_len g e a Hi Hs) as (v & g' & e' & H & _). eauto. Qed.

  (* the part of Graph::backward before the sweep: "force the forward operation" *)
  Lemma backward_pre (g : gstate) (e : env) n last_n : ginv F (g_ops g) -> gclean (g_ops g) -> get_slot g n = Some last_n ->
    exists g1 e1,
      (match s_val last_n with
       | Some _ => Some (g, e)
       | None => match forward F g e n with Some (_, g1, e1) => Some (g1, e1) | None => None end
       end) = Some (g1, e1) /\
      ginv F (g_ops g1) /\ gclean (g_ops g1) /\ length (g_ops g1) = length (g_ops g) /\
      (evald (g_ops g1) (fst n) \/ inner_of F (g_ops g1) (fst n) <> None).
  Proof.
    intros Hinv Hcl Hslot. destruct (s_val last_n) as [v0|] eqn:Ev.
    - exists g, e. split; [reflexivity|]. split; [exact Hinv|]. split; [exact Hcl|]. split; [reflexivity|]. left.
      unfold get_slot, get_slot_ops in Hslot. destruct (nth_error (g_ops g) (fst n)) as [cur|] eqn:Ecur; [|discriminate].
      exists cur. split; [exact Ecur|]. split; [intro Hnil; rewrite Hnil in Hslot; destruct (snd n); discriminate|].
      destruct Hinv as (_ & _ & Hd & _ & _). destruct (Hd _ _ Ecur) as ([Hdone|Hnone] & _); [exact Hdone|].
      rewrite (op_none_val cur _ _ Hnone Hslot) in Ev. discriminate.
    - assert (Hs : get_slot g n <> None) by congruence.
      destruct (forward_exact F Hfw_len g e n Hinv Hs) as (v & g1 & e1 & Hf & Hex). rewrite Hf.
      destruct Hex as (Hsv & _ & _ & _ & _ & Hinv1 & _ & new & _ & _ & _ & _ & Hcomp & _).
      exists g1, e1. split; [reflexivity|]. split; [exact Hinv1|]. split; [eapply sv_gclean; eauto|].
      split; [apply sv_length; exact Hsv|].
      destruct (inner_of F (g_ops g) (fst n)) as [p|] eqn:Ein.
      + right. rewrite (sv_inner F _ _ Hsv), Ein. discriminate.
      + left. apply Hcomp; [apply anc_refl|exact Ein].
  Qed.

  (* Graph::backward on a valid node of a graph satisfying the reachable invariant returns a
     result: neither the implied forward nor the sweep gets stuck. *)
  Theorem backward_total (g : gstate) (e : env) n : ginv F (g_ops g) -> gclean (g_ops g) -> get_slot g n <> None ->
    exists g' e', backward F VO g e n = Some (g', e').
  Proof.
    intros Hinv Hcl Hslot. unfold backward. destruct (get_slot g n) as [last_n|] eqn:Es; [|congruence].
    destruct (backward_pre g e n last_n Hinv Hcl Es) as (g1 & e1 & -> & Hinv1 & Hcl1 & Hlen & Hroot).
    set (ops0 := upd_ops (g_ops g1) n (fun s => set_grad s (Some (vones VO (s_shape s))))).
    assert (Hsg0 : sg ops0 = sg (g_ops g1)) by (apply grad_only_sg; reflexivity).
    destruct (sweep_total_graph (fst n) ops0 e1 (g_blog g1)) as (ops' & e' & bl' & ->).
    - eapply ginv_sg; [symmetry; exact Hsg0|exact Hinv1].
    - intros b s Hs Hg. unfold ops0 in Hs. rewrite upd_ops_get in Hs.
      destruct (Nat.eqb_spec (fst n) (fst b)) as [E|N].
      + rewrite <- E. destruct Hroot as [Hev|Hin]; [left; eapply sg_evald; [symmetry; exact Hsg0|exact Hev]|right; rewrite (sg_inner F _ _ Hsg0); exact Hin].
      + simpl in Hs. exfalso. apply Hg. eapply Hcl1; eauto.
    - unfold ops0. rewrite upd_ops_length, Hlen. unfold get_slot, get_slot_ops in Es.
      destruct (nth_error (g_ops g) (fst n)) eqn:E; [|discriminate]. eapply nth_error_lt; eauto.
    - eauto.
  Qed.

  (* conversely the only way for forward / backward to return None on such a graph is the
     range test of CHECK_NODE (where the C++ calls std::abort()) *)
  Corollary forward_none_iff (g : gstate) (e : env) a : ginv F (g_ops g) ->
    (forward F g e a = None <-> get_slot g a = None).
  Proof.
    intro Hi. split.
    - intro H. destruct (get_slot g a) eqn:E; [|reflexivity]. exfalso.
      destruct (forward_total g e a Hi) as (v & g' & e' & Hf); [congruence|congruence].
    - intro H. unfold forward. rewrite H. reflexivity.
  Qed.
  Corollary backward_none_iff (g : gstate) (e : env) n : ginv F (g_ops g) -> gclean (g_ops g) ->
    (backward F VO g e n = None <-> get_slot g n = None).
  Proof.
    intros Hi Hc. split.
    - intro H. destruct (get_slot g n) eqn:E; [|reflexivity]. exfalso.
      destruct (backward_total g e n Hi Hc) as (g' & e' & Hf); [congruence|congruence].
    - intro H. unfold backward. rewrite H. reflexivity.
  Qed.

  (* ---------- requests, histories ---------- *)
  (* a request the C++ answers without std::abort(): the graph exists and every node of the
     request that belongs to that graph passes CHECK_NODE's range test (a node of ANOTHER graph
     is legal: it makes add_operator raise Error) *)
  Definition cmd_valid (w : world) (c : cmd) : Prop :=
    match c with
    | CAdd gi o args => exists g, nth_error (w_graphs w) gi = Some g /\
                                  forall n, In n args -> fst n = gi -> get_slot g (snd n) <> None
    | CForward gi a => exists g, nth_error (w_graphs w) gi = Some g /\ get_slot g a <> None
    | CBackward gi a => exists g, nth_error (w_graphs w) gi = Some g /\ get_slot g a <> None
    | _ => True
    end.

  Lemma check_node_not_abort me (g : gstate) (n : node) : (fst n = me -> get_slot g (snd n) <> None) -> check_node me g n <> Abort.
  Proof.
    intro H. unfold check_node. destruct (Nat.eqb_spec (fst n) me) as [E|N]; simpl; [|discriminate].
    destruct (get_slot g (snd n)); [discriminate|]. exfalso. apply (H E). reflexivity.
  Qed.
  Lemma check_nodes_not_abort me (g : gstate) (args : list node) : (forall n, In n args -> fst n = me -> get_slot g (snd n) <> None) ->
    check_nodes me g args <> Abort.
  Proof.
    induction args as [|n args IH]; intro H; simpl; [discriminate|].
    pose proof (check_node_not_abort me g n (H n (or_introl eq_refl))) as Hn.
    destruct (check_node me g n); [|discriminate|congruence].
    assert (IH' : check_nodes me g args <> Abort) by (apply IH; intros; apply H; [right|]; assumption).
    destruct (check_nodes me g args); [discriminate|discriminate|congruence].
  Qed.
  Lemma add_op_not_abort me (g : gstate) o (args : list node) : (forall n, In n args -> fst n = me -> get_slot g (snd n) <> None) ->
    add_op F me g o args <> Abort.
  Proof.
    intro H. unfold add_op. destruct (negb (argn_ok (f_argn F o) (length args))); [discriminate|].
    pose proof (check_nodes_not_abort me g args H) as Hc.
    destruct (f_dev F o) as [d|].
    - destruct (check_nodes me g args) as [ss| |]; [|discriminate|congruence]. destruct (f_shape F o (map s_shape ss)); discriminate.
    - destruct args as [|a0 rest]; [discriminate|].
      pose proof (check_node_not_abort me g a0 (H a0 (or_introl eq_refl))) as H0.
      destruct (check_node me g a0); [|discriminate|congruence].
      destruct (check_nodes me g (a0 :: rest)) as [ss| |]; [|discriminate|congruence]. destruct (f_shape F o (map s_shape ss)); discriminate.
  Qed.

  (* the model never gets stuck on a valid request in a world satisfying the invariant *)
  Theorem run_cmd_never_aborts (w : world) c : winv F w -> cmd_valid w c -> run_cmd F VO w c <> Abort.
  Proof.
    intros Hw Hv. destruct c as [|gi o args|gi a|gi a|ps upd|ps|p v|d n]; simpl in *; try discriminate.
    - destruct Hv as (g & -> & Hargs). pose proof (add_op_not_abort gi g o args Hargs) as Ha.
      destruct (add_op F gi g o args) as [[g' k]| |]; [discriminate|discriminate|congruence].
    - destruct Hv as (g & Eg & Hs). rewrite Eg.
      assert (Hg : gok F g) by (unfold winv in Hw; rewrite Forall_forall in Hw; apply Hw; eapply nth_error_In; eauto).
      destruct Hg as (Hi & _). destruct (forward_total g (w_env w) a Hi Hs) as (v & g' & e' & ->). discriminate.
    - destruct Hv as (g & Eg & Hs). rewrite Eg.
      assert (Hg : gok F g) by (unfold winv in Hw; rewrite Forall_forall in Hw; apply Hw; eapply nth_error_In; eauto).
      destruct Hg as (Hi & Hc & _). destruct (backward_total g (w_env w) a Hi Hc Hs) as (g' & e' & ->). discriminate.
  Qed.

  (* exact reading of Abort: the graph index does not exist, or a node of the request fails the
     range test of CHECK_NODE - the cases in which the C++ has no object / calls std::abort() *)
  Theorem abort_only_check_node (w : world) c : winv F w -> run_cmd F VO w c = Abort ->
    match c with
    | CAdd gi _ args => nth_error (w_graphs w) gi = None \/
        exists g n, nth_error (w_graphs w) gi = Some g /\ In n args /\ fst n = gi /\ get_slot g (snd n) = None
    | CForward gi a | CBackward gi a => nth_error (w_graphs w) gi = None \/
        exists g, nth_error (w_graphs w) gi = Some g /\ get_slot g a = None
    | _ => False
    end.
  Proof.
    intros Hw H. destruct c as [|gi o args|gi a|gi a|ps upd|ps|p v|d n]; try (simpl in H; discriminate).
    - destruct (nth_error (w_graphs w) gi) as [g|] eqn:Eg; [right|left; reflexivity].
      assert (Hex : exists n, In n args /\ fst n = gi /\ get_slot g (snd n) = None).
      { clear Hw. simpl in H. rewrite Eg in H. induction args as [|n args IH].
        - exfalso. apply (add_op_not_abort gi g o []); [intros ? []|]. destruct (add_op F gi g o []) as [[? ?]| |]; congruence.
        - destruct (Nat.eq_dec (fst n) gi) as [En|Nn]; [destruct (get_slot g (snd n)) eqn:Es|].
          3:{ (* n belongs to another graph: look at the rest *)
              assert (Hrest : exists m, In m args /\ fst m = gi /\ get_slot g (snd m) = None).
              { destruct (List.Exists_dec (fun m => fst m = gi /\ get_slot g (snd m) = None) args) as [Hx|Hx].
                - intro m. destruct (Nat.eq_dec (fst m) gi); [|right; tauto]. destruct (get_slot g (snd m)); [right; intros (_ & ?); discriminate|left; auto].
                - apply Exists_exists in Hx. destruct Hx as (m & ? & ? & ?). eauto.
                - exfalso. apply (add_op_not_abort gi g o (n :: args)).
                  + intros m [<-|Hm] Em; [congruence|]. intro Hn. apply Hx. apply Exists_exists. exists m. auto.
                  + destruct (add_op F gi g o (n :: args)) as [[? ?]| |]; congruence. }
              destruct Hrest as (m & ? & ? & ?). exists m. split; [right|]; auto. }
          2:{ exists n. split; [left; reflexivity|auto]. }
          (* n is fine: some other node is not *)
          destruct (List.Exists_dec (fun m => fst m = gi /\ get_slot g (snd m) = None) args) as [Hx|Hx].
          + intro m. destruct (Nat.eq_dec (fst m) gi); [|right; tauto]. destruct (get_slot g (snd m)); [right; intros (_ & ?); discriminate|left; auto].
          + apply Exists_exists in Hx. destruct Hx as (m & ? & ? & ?). exists m. split; [right|]; auto.
          + exfalso. apply (add_op_not_abort gi g o (n :: args)).
            * intros m [<-|Hm] Em; [congruence|]. intro Hn. apply Hx. apply Exists_exists. exists m. auto.
            * destruct (add_op F gi g o (n :: args)) as [[? ?]| |]; congruence. }
      destruct Hex as (n & ? & ? & ?). exists g, n. auto.
    - destruct (nth_error (w_graphs w) gi) as [g|] eqn:Eg; [right|left; reflexivity]. exists g. split; [reflexivity|].
      destruct (get_slot g a) eqn:Es; [|reflexivity]. exfalso.
      apply (run_cmd_never_aborts w (CForward gi a) Hw); [simpl; exists g; split; [exact Eg|congruence]|exact H].
    - destruct (nth_error (w_graphs w) gi) as [g|] eqn:Eg; [right|left; reflexivity]. exists g. split; [reflexivity|].
      destruct (get_slot g a) eqn:Es; [|reflexivity]. exfalso.
      apply (run_cmd_never_aborts w (CBackward gi a) Hw); [simpl; exists g; split; [exact Eg|congruence]|exact H].
  Qed.

  (* forward / backward on an out-of-range node abort, as CHECK_NODE does *)
  Lemma invalid_node_aborts (w : world) gi g a : nth_error (w_graphs w) gi = Some g -> get_slot g a = None ->
    run_cmd F VO w (CForward gi a) = Abort /\ run_cmd F VO w (CBackward gi a) = Abort.
  Proof. intros Eg Hs. simpl. rewrite Eg. unfold forward, backward. rewrite Hs. auto. Qed.

  (* validity of a request is decidable *)
  Definition slot_ok_b (g : gstate) (a : nat * nat) : bool := match get_slot g a with Some _ => true | None => false end.
  Definition cmd_valid_b (w : world) (c : cmd) : bool :=
    match c with
    | CAdd gi o args =>
      match nth_error (w_graphs w) gi with
      | Some g => forallb (fun n : node => negb (Nat.eqb (fst n) gi) || slot_ok_b g (snd n)) args
      | None => false
      end
    | CForward gi a => match nth_error (w_graphs w) gi with Some g => slot_ok_b g a | None => false end
    | CBackward gi a => match nth_error (w_graphs w) gi with Some g => slot_ok_b g a | None => false end
    | _ => true
    end.
  Lemma slot_ok_b_spec (g : gstate) a : slot_ok_b g a = true <-> get_slot g a <> None.
  Proof. unfold slot_ok_b. destruct (get_slot g a); split; congruence. Qed.
  Lemma cmd_valid_b_spec (w : world) c : cmd_valid_b w c = true <-> cmd_valid w c.
  Proof.
    destruct c as [|gi o args|gi a|gi a|ps upd|ps|p v|d n]; simpl; try tauto.
    - destruct (nth_error (w_graphs w) gi) as [g|]; [|split; [discriminate|intros (g & Hg & _); discriminate]].
      rewrite forallb_forall. split.
      + intro H. exists g. split; [reflexivity|]. intros n Hn En. specialize (H n Hn). rewrite En, Nat.eqb_refl in H. simpl in H.
        apply slot_ok_b_spec. exact H.
      + intros (g0 & [= <-] & H) n Hn. destruct (Nat.eqb_spec (fst n) gi) as [E|N]; simpl; [|reflexivity].
        apply slot_ok_b_spec. apply H; auto.
    - destruct (nth_error (w_graphs w) gi) as [g|]; [|split; [discriminate|intros (g & Hg & _); discriminate]].
      rewrite slot_ok_b_spec. split; [intro H; exists g; auto|intros (g0 & [= <-] & H); exact H].
    - destruct (nth_error (w_graphs w) gi) as [g|]; [|split; [discriminate|intros (g & Hg & _); discriminate]].
      rewrite slot_ok_b_spec. split; [intro H; exists g; auto|intros (g0 & [= <-] & H); exact H].
  Qed.

  (* ---------- histories ---------- *)
  Hypothesis Hsh_len : forall o shs rs, f_shape F o shs = Some rs -> length rs = f_retn F o.
  Hypothesis Hinner_argn : forall o p, f_inner F o = Some p -> f_argn F o = ArgExact 0.

  (* every request is valid in the world it is issued in *)
  Fixpoint hist_valid (w : world) (cs : list cmd) : Prop :=
    match cs with [] => True | c :: r => cmd_valid w c /\ hist_valid (run F VO w c) r end.
  (* no step of the history yields Abort *)
  Fixpoint never_aborts (w : world) (cs : list cmd) : Prop :=
    match cs with [] => True | c :: r => run_cmd F VO w c <> Abort /\ never_aborts (run F VO w c) r end.
  (* the strict semantics: Abort is fatal (Error is caught, as in the harness) *)
  Fixpoint run_strict (w : world) (cs : list cmd) : option world :=
    match cs with
    | [] => Some w
    | c :: r => match run_cmd F VO w c with
                | Ok w' => run_strict w' r
                | Error => run_strict w r
                | Abort => None
                end
    end.

  Fixpoint hist_valid_b (w : world) (cs : list cmd) : bool :=
    match cs with [] => true | c :: r => cmd_valid_b w c && hist_valid_b (run F VO w c) r end.
  Lemma hist_valid_b_spec cs : forall w : world, hist_valid_b w cs = true <-> hist_valid w cs.
  Proof.
    induction cs as [|c cs IH]; intro w; simpl; [tauto|]. rewrite andb_true_iff, cmd_valid_b_spec, IH. tauto.
  Qed.

  Theorem history_never_aborts cs : forall w : world, winv F w -> hist_valid w cs -> never_aborts w cs.
  Proof.
    induction cs as [|c cs IH]; intros w Hw Hv; simpl in *; [exact I|]. destruct Hv as (Hc & Hr).
    split; [apply run_cmd_never_aborts; assumption|]. apply IH; [|exact Hr].
    destruct (run_ok F VO Hfw_len Hsh_len Hinner_argn w c Hw) as (H & _). exact H.
  Qed.

  Theorem run_strict_eq cs : forall w : world, never_aborts w cs -> run_strict w cs = Some (run_all F VO w cs).
  Proof.
    induction cs as [|c cs IH]; intros w H; simpl in *; [reflexivity|]. destruct H as (Hc & Hr).
    specialize (IH _ Hr). unfold run in *. destruct (run_cmd F VO w c); [exact IH|exact IH|congruence].
  Qed.

  (* reachable worlds: any history from the empty world (with ANY requests, valid or not: an
     aborted or rejected request leaves the world as it was) *)
  Theorem reachable_never_aborts (e : env) cs c :
    let w := run_all F VO {| w_graphs := []; w_env := e |} cs in
    cmd_valid w c -> run_cmd F VO w c <> Abort.
  Proof.
    intros w Hv. apply run_cmd_never_aborts; [|exact Hv].
    destruct (run_all_ok F VO Hfw_len Hsh_len Hinner_argn cs _ (winv_init F e)) as (H & _). exact H.
  Qed.

  Theorem reachable_backward_total (e : env) cs gi g n :
    nth_error (w_graphs (run_all F VO {| w_graphs := []; w_env := e |} cs)) gi = Some g ->
    get_slot g n <> None -> forall e1 : env, exists g' e', backward F VO g e1 n = Some (g', e').
  Proof.
    intros Eg Hs e1.
    destruct (run_all_ok F VO Hfw_len Hsh_len Hinner_argn cs _ (winv_init F e)) as (H & _).
    unfold winv in H. rewrite Forall_forall in H. destruct (H g (nth_error_In _ _ Eg)) as (Hi & Hc & _).
    exact (backward_total g e1 n Hi Hc Hs).
  Qed.

  Theorem reachable_forward_total (e : env) cs gi g a :
    nth_error (w_graphs (run_all F VO {| w_graphs := []; w_env := e |} cs)) gi = Some g ->
    get_slot g a <> None -> forall e1 : env, exists v g' e', forward F g e1 a = Some (v, g', e').
  Proof.
    intros Eg Hs e1.
    destruct (run_all_ok F VO Hfw_len Hsh_len Hinner_argn cs _ (winv_init F e)) as (H & _).
    unfold winv in H. rewrite Forall_forall in H. destruct (H g (nth_error_In _ _ Eg)) as (Hi & _).
    exact (forward_total g e1 a Hi Hs).
  Qed.
End Totality.
