(* Executable model of the state of primitiv::Graph (core/graph.{h,cc}) and of
   Graph::add_operator.  No proofs in this file.
   ops_ = list of OperatorInfo { op; args : (oid, vid); rets : NodeInfo { shape; device;
   value; grad } }.  Tensor::valid() is [Some].  Parameters live OUTSIDE the graph (env):
   the Parameter operator only holds a reference to them. *)
From Coq Require Import List NArith Bool Arith.
From PV Require Import Graph.OpFamily.
Import ListNotations.

(* outcome of an API call: value | primitiv::Error thrown | std::abort() (CHECK_NODE) *)
Inductive res (A : Type) := Ok (a : A) | Error | Abort.
Arguments Ok {A}. Arguments Error {A}. Arguments Abort {A}.

Fixpoint set_nth {A} (l : list A) (i : nat) (x : A) : list A :=
  match l, i with
  | [], _ => []
  | _ :: l', O => x :: l'
  | y :: l', S i' => y :: set_nth l' i' x
  end.

Section Tape.
  Context {Op Sh V : Type}.
  Variable F : OpFamily Op Sh V.

  Record slot := { s_shape : Sh; s_dev : nat; s_val : option V; s_grad : option V }.
  Record opinfo := { o_op : Op; o_args : list (nat * nat); o_rets : list slot }.
  (* one Graph object; g_log = operator ids whose Operator::forward ran, in call order;
     g_blog = operator ids whose Operator::backward ran, in call order (both are the call
     counters of the harness; they are not state of the real Graph) *)
  Record gstate := { g_ops : list opinfo; g_log : list nat; g_blog : list nat }.
  (* what lives outside the graphs: Parameter values / gradients, the random stream position
     of every device *)
  Record env := { e_pval : nat -> V; e_pgrad : nat -> V; e_pos : nat -> N }.

  Definition empty_graph : gstate := {| g_ops := []; g_log := []; g_blog := [] |}.

  Definition set_val (s : slot) (v : option V) : slot :=
    {| s_shape := s_shape s; s_dev := s_dev s; s_val := v; s_grad := s_grad s |}.
  Definition set_grad (s : slot) (g : option V) : slot :=
    {| s_shape := s_shape s; s_dev := s_dev s; s_val := s_val s; s_grad := g |}.
  Definition set_rets (oi : opinfo) (r : list slot) : opinfo :=
    {| o_op := o_op oi; o_args := o_args oi; o_rets := r |}.
  Definition set_ops (g : gstate) (ops : list opinfo) : gstate :=
    {| g_ops := ops; g_log := g_log g; g_blog := g_blog g |}.

  Definition get_slot_ops (ops : list opinfo) (a : nat * nat) : option slot :=
    match nth_error ops (fst a) with
    | Some oi => nth_error (o_rets oi) (snd a)
    | None => None
    end.
  Definition upd_ops (ops : list opinfo) (a : nat * nat) (f : slot -> slot) : list opinfo :=
    match nth_error ops (fst a) with
    | Some oi =>
      match nth_error (o_rets oi) (snd a) with
      | Some s => set_nth ops (fst a) (set_rets oi (set_nth (o_rets oi) (snd a) (f s)))
      | None => ops
      end
    | None => ops
    end.
  Definition get_slot (g : gstate) (a : nat * nat) : option slot := get_slot_ops (g_ops g) a.
  Definition upd_slot (g : gstate) (a : nat * nat) (f : slot -> slot) : gstate :=
    set_ops g (upd_ops (g_ops g) a f).

  (* CHECK_NODE(n) for a node (graph id, oid, vid) against graph [me]:
     other graph -> Error; out of range -> std::abort() *)
  Definition node := (nat * (nat * nat))%type.
  Definition check_node (me : nat) (g : gstate) (n : node) : res slot :=
    if negb (Nat.eqb (fst n) me) then Error
    else match get_slot g (snd n) with Some s => Ok s | None => Abort end.

  Fixpoint check_nodes (me : nat) (g : gstate) (ns : list node) : res (list slot) :=
    match ns with
    | [] => Ok []
    | n :: ns' =>
      match check_node me g n with
      | Ok s => match check_nodes me g ns' with Ok ss => Ok (s :: ss) | Error => Error | Abort => Abort end
      | Error => Error
      | Abort => Abort
      end
    end.

  Definition argn_ok (r : argreq) (argn : nat) : bool :=
    match r with
    | ArgNonZero => negb (Nat.eqb argn 0)
    | ArgAny => true
    | ArgExact k => Nat.eqb argn k
    end.

  (* Graph::add_operator, checks in source order:
     argument count -> device (own, else CHECK_NODE(args[0]) and inherit) -> CHECK_NODE per
     argument -> forward_shape -> push.  Returns the new graph and the id of the new operator
     (the nodes returned are (ret_oid, 0 .. retn-1)).  Nothing is evaluated. *)
  Definition add_op (me : nat) (g : gstate) (o : Op) (args : list node) : res (gstate * nat) :=
    if negb (argn_ok (f_argn F o) (length args)) then Error else
    let rdev : res nat :=
      match f_dev F o with
      | Some d => Ok d
      | None =>
        match args with
        | [] => Error                                  (* Bad device propagation *)
        | a0 :: _ => match check_node me g a0 with
                     | Ok s => Ok (s_dev s)
                     | Error => Error
                     | Abort => Abort
                     end
        end
      end in
    match rdev with
    | Error => Error
    | Abort => Abort
    | Ok d =>
      match check_nodes me g args with
      | Error => Error
      | Abort => Abort
      | Ok ss =>
        match f_shape F o (map s_shape ss) with
        | None => Error                                (* forward_shape threw *)
        | Some rs =>
          let rets := map (fun sh => {| s_shape := sh; s_dev := d; s_val := None; s_grad := None |}) rs in
          let oid := length (g_ops g) in
          Ok (set_ops g (g_ops g ++ [{| o_op := o; o_args := map snd args; o_rets := rets |}]), oid)
        end
      end
    end.
End Tape.
