(* C01, graph level: the reverse sweep of Graph::backward is the adjoint of the forward
   tangent.  Generalises design/prototypes/AD.v to this development's executable model
   (Graph/Backward.v: multi-output operators, zero materialisation of missing output
   gradients, invalidation, parameters outside the graph with prior gradients g0) over an
   ARBITRARY commutative ring.  The operator family stays abstract: the theorem needs, per
   non-parameter operator of the tape, [LocalAdjoint] (Graph/OpFamily.v), which the tensor
   engine proves per operator. *)
From Coq Require Import List NArith Bool Arith Lia Ring.
From PV Require Import Graph.OpFamily Graph.Tape Graph.Lazy Graph.Backward Graph.TapeLemmas Graph.LazyProofs Graph.BackwardProofs.
Import ListNotations.

Section AD.
  Context {R : Type} (rO rI : R) (radd rmul rsub : R -> R -> R) (ropp : R -> R).
  Hypothesis Rth : ring_theory rO rI radd rmul rsub ropp eq.
  Add Ring Rring : Rth.
  Infix "+!" := radd (at level 50, left associativity).
  Infix "*!" := rmul (at level 40, left associativity).
  Notation vec := (@OpFamily.vec R).
  Notation dot := (dot rO radd rmul).
  Notation dots := (dots rO radd rmul).
  Notation vplus := (vplus radd).

  Lemma dot_zeros_l n b : dot (repeat rO n) b = rO.
  Proof. revert b; induction n as [|n IH]; intros [|y b]; simpl; auto. rewrite IH. ring. Qed.
  Lemma dot_vplus a b c : length a = length b -> dot (vplus a b) c = dot a c +! dot b c.
  Proof.
    revert b c; induction a as [|x a IH]; intros [|y b] [|z c] H; simpl in *; try lia; try ring.
    rewrite IH by lia. ring.
  Qed.
  Lemma length_vplus a b : length a = length b -> length (vplus a b) = length a.
  Proof. revert b; induction a as [|x a IH]; intros [|y b] H; simpl in *; try lia. rewrite IH; lia. Qed.

  Context {Op Sh : Type}.
  Variable F : OpFamily Op Sh vec.
  Variable jvp : JvpFamily (R := R) Op.
  Variable size : Sh -> nat.
  Notation VO := (vec_ops rO rI radd size).
  Notation opinfo := (@opinfo Op Sh vec).
  Notation slot := (@slot Sh vec).
  Notation env := (@env vec).
  Notation ops_t := (list opinfo).

  Variable tan : nat * nat -> vec.     (* tangent of every node *)
  Variable dp : nat -> vec.            (* direction in parameter space *)

  (* ---------- potential of the live node gradients: sum <grad, tangent> ---------- *)
  Definition slot_pot (s : slot) (t : vec) : R := match s_grad s with Some x => dot x t | None => rO end.
  Fixpoint rets_pot (k v : nat) (rets : list slot) : R :=
    match rets with [] => rO | s :: r => slot_pot s (tan (k, v)) +! rets_pot k (S v) r end.
  Fixpoint ops_pot (k : nat) (ops : ops_t) : R :=
    match ops with [] => rO | oi :: r => rets_pot k 0 (o_rets oi) +! ops_pot (S k) r end.
  Definition pot (ops : ops_t) : R := ops_pot 0 ops.

  Lemma rets_pot_set k : forall rets v0 j s s', nth_error rets j = Some s ->
    rets_pot k v0 (set_nth rets j s') +! slot_pot s (tan (k, v0 + j)) = rets_pot k v0 rets +! slot_pot s' (tan (k, v0 + j)).
  Proof.
    induction rets as [|x rets IH]; intros v0 [|j] s s' H; simpl in *; try discriminate.
    - injection H as ->. rewrite Nat.add_0_r. ring.
    - specialize (IH (S v0) j s s' H). replace (v0 + S j) with (S v0 + j) by lia.
      transitivity (slot_pot x (tan (k, v0)) +! (rets_pot k (S v0) (set_nth rets j s') +! slot_pot s (tan (k, S v0 + j)))); [ring|].
      rewrite IH. ring.
  Qed.
  Lemma ops_pot_set : forall (ops : ops_t) k0 i oi oi', nth_error ops i = Some oi ->
    ops_pot k0 (set_nth ops i oi') +! rets_pot (k0 + i) 0 (o_rets oi) = ops_pot k0 ops +! rets_pot (k0 + i) 0 (o_rets oi').
  Proof.
    induction ops as [|x ops IH]; intros k0 [|i] oi oi' H; simpl in *; try discriminate.
    - injection H as ->. rewrite Nat.add_0_r. ring.
    - specialize (IH (S k0) i oi oi' H). replace (k0 + S i) with (S k0 + i) by lia.
      transitivity (rets_pot k0 0 (o_rets x) +! (ops_pot (S k0) (set_nth ops i oi') +! rets_pot (S k0 + i) 0 (o_rets oi))); [ring|].
      rewrite IH. ring.
  Qed.

  (* one slot update *)
  Lemma pot_upd (ops : ops_t) a f s : get_slot_ops ops a = Some s ->
    pot (upd_ops ops a f) +! slot_pot s (tan a) = pot ops +! slot_pot (f s) (tan a).
  Proof.
    unfold get_slot_ops, upd_ops, pot. destruct (nth_error ops (fst a)) as [oi|] eqn:E; [|discriminate].
    intro Hs. rewrite Hs. pose proof (ops_pot_set ops 0 (fst a) oi (set_rets oi (set_nth (o_rets oi) (snd a) (f s))) E) as H1.
    pose proof (rets_pot_set (fst a) (o_rets oi) 0 (snd a) s (f s) Hs) as H2. simpl in H1, H2.
    replace (tan a) with (tan (fst a, snd a)) by (destruct a; reflexivity).
    transitivity (ops_pot 0 ops +! rets_pot (fst a) 0 (set_nth (o_rets oi) (snd a) (f s)) +! slot_pot s (tan (fst a, snd a)) +! ropp (rets_pot (fst a) 0 (o_rets oi))).
    - rewrite <- H1. ring.
    - transitivity (ops_pot 0 ops +! (rets_pot (fst a) 0 (set_nth (o_rets oi) (snd a) (f s)) +! slot_pot s (tan (fst a, snd a))) +! ropp (rets_pot (fst a) 0 (o_rets oi))); [ring|].
      rewrite H2. ring.
  Qed.

  (* a whole operator at once *)
  Lemma pot_map_op (ops : ops_t) k f oi : nth_error ops k = Some oi ->
    pot (map_op ops k f) +! rets_pot k 0 (o_rets oi) = pot ops +! rets_pot k 0 (map f (o_rets oi)).
  Proof.
    intro E. unfold pot. rewrite (map_op_some _ _ _ _ E). exact (ops_pot_set ops 0 k oi (set_rets oi (map f (o_rets oi))) E).
  Qed.

  Lemma radd_cancel a b c : a +! c = b +! c -> a = b.
  Proof. intro H. transitivity (a +! c +! ropp c); [ring|]. rewrite H. ring. Qed.

  Lemma slot_pot_mat (s : slot) t : slot_pot (mat_zero VO s) t = slot_pot s t.
  Proof. unfold slot_pot, mat_zero. destruct s as [sh dv va [x|]]; simpl; [reflexivity|apply dot_zeros_l]. Qed.
  Lemma rets_pot_mat k : forall rets v0, rets_pot k v0 (map (mat_zero VO) rets) = rets_pot k v0 rets.
  Proof. induction rets as [|s r IH]; intro v0; simpl; auto. rewrite slot_pot_mat, IH. reflexivity. Qed.
  Lemma rets_pot_clr k : forall rets v0, rets_pot k v0 (map clr rets) = rO.
  Proof. induction rets as [|s r IH]; intro v0; simpl; auto. rewrite IH. unfold slot_pot. simpl. ring. Qed.
  Definition tans_of (k v0 n : nat) : list vec := map (fun v => tan (k, v)) (seq v0 n).
  Lemma rets_pot_dots k : forall rets v0,
    rets_pot k v0 rets = dots (map (grad_or_zero VO) rets) (tans_of k v0 (length rets)).
  Proof.
    induction rets as [|s r IH]; intro v0; simpl; auto. rewrite IH. f_equal.
    unfold slot_pot, grad_or_zero. destruct s as [sh dv va [x|]]; simpl; [reflexivity|]. symmetry. apply dot_zeros_l.
  Qed.

  Lemma pot_fold_mat args : forall ops : ops_t, pot (fold_mat VO ops args) = pot ops.
  Proof.
    induction args as [|a args IH]; intro ops; simpl; auto. unfold fold_mat in *. simpl. rewrite IH.
    destruct (get_slot_ops ops a) as [s|] eqn:E.
    - pose proof (pot_upd ops a (mat_zero VO) s E) as H. rewrite slot_pot_mat in H. eapply radd_cancel; eauto.
    - unfold upd_ops. unfold get_slot_ops in E. destruct (nth_error ops (fst a)) as [oi|]; auto. rewrite E. reflexivity.
  Qed.

  Lemma pot_add_incs args : forall (ops : ops_t) incs,
    (forall i inc, nth_error incs i = Some inc -> exists a s gx, nth_error args i = Some a /\
        get_slot_ops ops a = Some s /\ s_grad s = Some gx /\ length gx = length inc) ->
    pot (add_incs VO ops args incs) = pot ops +! dots incs (map tan args).
  Proof.
    induction args as [|a args IH]; intros ops [|inc incs] H; simpl; try ring.
    - destruct (H 0 inc eq_refl) as (a0 & s0 & gx0 & Ea0 & Es0 & Eg0 & El0). simpl in Ea0. injection Ea0 as <-.
      rewrite IH.
      + pose proof (pot_upd ops a (add_inc VO inc) s0 Es0) as Hu.
        assert (Hsp : slot_pot (add_inc VO inc s0) (tan a) = slot_pot s0 (tan a) +! dot inc (tan a)).
        { unfold slot_pot, add_inc. rewrite Eg0. cbn [s_grad set_grad vadd vec_ops]. apply dot_vplus. exact El0. }
        rewrite Hsp in Hu.
        assert (Hp : pot (upd_ops ops a (add_inc VO inc)) = pot ops +! dot inc (tan a)).
        { apply (radd_cancel _ _ (slot_pot s0 (tan a))). rewrite Hu. ring. }
        rewrite Hp. ring.
      + intros i inc' Hi. destruct (H (S i) inc' Hi) as (b & sb & gb & Eb & Esb & Egb & Elb). simpl in Eb.
        assert (Hget : get_slot_ops (upd_ops ops a (add_inc VO inc)) b =
                       if addr_eq a b then option_map (add_inc VO inc) (get_slot_ops ops b) else get_slot_ops ops b)
          by (rewrite upd_ops_get; reflexivity).
        destruct (addr_eq_spec a b) as [->|N].
        * rewrite Esb in Hget. simpl in Hget. rewrite Esb in Es0. injection Es0 as <-. exists b, (add_inc VO inc sb), (vplus gb inc).
          rewrite Egb in Eg0. injection Eg0 as <-.
          split; [exact Eb|]. split; [exact Hget|]. split; [unfold add_inc; rewrite Egb; reflexivity|].
          rewrite length_vplus by exact El0. exact Elb.
        * exists b, sb, gb. rewrite Hget. auto.
  Qed.

  (* ---------- sizes, consistency of the tangents with the evaluated tape ---------- *)
  Definition gsized (ops : ops_t) : Prop :=
    forall a s x, get_slot_ops ops a = Some s -> s_grad s = Some x -> length x = size (s_shape s).
  (* what backward reads for an argument has the size of that argument's shape; tangents too *)
  Definition rsized (ops : ops_t) (e : env) : Prop :=
    forall a s, get_slot_ops ops a = Some s ->
      length (tan a) = size (s_shape s) /\ forall x, bread F ops e a = Some x -> length x = size (s_shape s).
  Definition psized (ops : ops_t) (e : env) : Prop :=
    forall k oi p s, nth_error ops k = Some oi -> f_inner F (o_op oi) = Some p -> nth_error (o_rets oi) 0 = Some s ->
      length (e_pgrad e p) = size (s_shape s).
  (* the tangents are those of the forward pass in direction dp *)
  Definition consistent (ops : ops_t) (e : env) : Prop :=
    forall k oi, nth_error ops k = Some oi ->
      match f_inner F (o_op oi) with
      | Some p => length (o_rets oi) = 1 /\ tan (k, 0) = dp p
      | None => forall ys, all_vals (o_rets oi) = Some ys ->
                  exists pos xs, Forall2 (fun a x => bread F ops e a = Some x) (o_args oi) xs /\
                                 ys = f_fw F (o_op oi) pos xs /\
                                 tans_of k 0 (length (o_rets oi)) = jvp (o_op oi) pos xs (map tan (o_args oi))
      end.

  (* sum over the parameters ps of <gradient, direction> *)
  Fixpoint ppot (ps : list nat) (e : env) : R :=
    match ps with [] => rO | p :: r => dot (e_pgrad e p) (dp p) +! ppot r e end.
  Lemma ppot_add_other ps (e : env) p gy : ~ In p ps -> ppot ps (add_pgrad VO e p gy) = ppot ps e.
  Proof.
    induction ps as [|q ps IH]; intro H; simpl; auto. rewrite IH by (intro; apply H; right; auto).
    destruct (Nat.eqb_spec q p) as [->|N]; [exfalso; apply H; left; reflexivity|reflexivity].
  Qed.
  Lemma ppot_add ps (e : env) p gy : NoDup ps -> In p ps -> length (e_pgrad e p) = length gy ->
    ppot ps (add_pgrad VO e p gy) = ppot ps e +! dot gy (dp p).
  Proof.
    induction ps as [|q ps IH]; intros Hnd Hin Hl; [contradiction|]. inversion Hnd as [|? ? Hq Hnd']; subst. simpl.
    destruct (Nat.eqb_spec q p) as [->|N].
    - rewrite ppot_add_other by exact Hq. cbn [vadd vec_ops]. rewrite dot_vplus by exact Hl. ring.
    - destruct Hin as [->|Hin]; [congruence|]. rewrite IH by auto. ring.
  Qed.

  (* ---------- size bookkeeping of gradient slots ---------- *)
  Lemma gsized_upd (ops : ops_t) a f : gsized ops ->
    (forall s, get_slot_ops ops a = Some s -> forall x, s_grad (f s) = Some x -> length x = size (s_shape (f s))) ->
    gsized (upd_ops ops a f).
  Proof.
    intros Hg Hf b s x Hb Hx. rewrite upd_ops_get in Hb. fold (addr_eq a b) in Hb.
    destruct (addr_eq_spec a b) as [->|N]; [|eapply Hg; eauto].
    destruct (get_slot_ops ops b) as [s0|] eqn:E; [|discriminate]. simpl in Hb. injection Hb as <-. eapply Hf; eauto.
  Qed.
  Lemma gsized_map_op (ops : ops_t) k f : gsized ops ->
    (forall b s, fst b = k -> get_slot_ops ops b = Some s -> forall x, s_grad (f s) = Some x -> length x = size (s_shape (f s))) ->
    gsized (map_op ops k f).
  Proof.
    intros Hg Hf b s x Hb Hx. rewrite map_op_get in Hb. destruct (Nat.eqb_spec k (fst b)) as [E|N]; [|eapply Hg; eauto].
    destruct (get_slot_ops ops b) as [s0|] eqn:E0; [|discriminate]. simpl in Hb. injection Hb as <-. eapply Hf; eauto.
  Qed.
  Lemma mat_zero_sized (ops : ops_t) a (s : slot) : gsized ops -> get_slot_ops ops a = Some s ->
    forall x, s_grad (mat_zero VO s) = Some x -> length x = size (s_shape (mat_zero VO s)).
  Proof.
    intros Hg Hs x. unfold mat_zero. destruct (s_grad s) as [gx|] eqn:E.
    - rewrite E. intros [= <-]. eapply Hg; eauto.
    - cbn [s_grad set_grad s_shape]. intros [= <-]. simpl. apply repeat_length.
  Qed.
  Lemma gsized_fold_mat args : forall ops : ops_t, gsized ops -> gsized (fold_mat VO ops args).
  Proof.
    induction args as [|a args IH]; intros ops Hg; simpl; auto. unfold fold_mat in *. simpl. apply IH.
    apply gsized_upd; auto. intros s Hs. eapply mat_zero_sized; eauto.
  Qed.
  Lemma gsized_add_incs args : forall (ops : ops_t) incs, gsized ops ->
    (forall i inc, nth_error incs i = Some inc -> exists a s gx, nth_error args i = Some a /\
        get_slot_ops ops a = Some s /\ s_grad s = Some gx /\ length gx = length inc) ->
    gsized (add_incs VO ops args incs).
  Proof.
    induction args as [|a args IH]; intros ops [|inc incs] Hg H; simpl; auto.
    destruct (H 0 inc eq_refl) as (a0 & s0 & gx0 & Ea0 & Es0 & Eg0 & El0). simpl in Ea0. injection Ea0 as <-.
    apply IH.
    - apply gsized_upd; auto. intros s Hs x. rewrite Es0 in Hs. injection Hs as <-. unfold add_inc. rewrite Eg0.
      cbn [s_grad set_grad s_shape vadd vec_ops]. intros [= <-]. rewrite length_vplus by exact El0. eapply Hg; eauto.
    - intros i inc' Hi. destruct (H (S i) inc' Hi) as (b & sb & gb & Eb & Esb & Egb & Elb). simpl in Eb.
      assert (Hget : get_slot_ops (upd_ops ops a (add_inc VO inc)) b =
                     if addr_eq a b then option_map (add_inc VO inc) (get_slot_ops ops b) else get_slot_ops ops b)
        by (rewrite upd_ops_get; reflexivity).
      destruct (addr_eq_spec a b) as [->|N].
      + rewrite Esb in Hget. simpl in Hget. rewrite Esb in Es0. injection Es0 as <-. exists b, (add_inc VO inc sb), (vplus gb inc).
        rewrite Egb in Eg0. injection Eg0 as <-.
        split; [exact Eb|]. split; [exact Hget|]. split; [unfold add_inc; rewrite Egb; reflexivity|].
        rewrite length_vplus by exact El0. exact Elb.
      + exists b, sb, gb. rewrite Hget. auto.
  Qed.

  Lemma bread_sg (ops ops' : ops_t) (e e' : env) a : sg ops = sg ops' -> e_pval e = e_pval e' -> bread F ops e a = bread F ops' e' a.
  Proof.
    intros H Hp. unfold bread. pose proof (sg_nth ops ops' (fst a) H) as Hk.
    destruct (nth_error ops (fst a)) as [o1|], (nth_error ops' (fst a)) as [o2|]; try contradiction; auto.
    destruct Hk as (Eo & _ & _ & Ev & _).
    assert (E : option_map s_val (nth_error (o_rets o1) (snd a)) = option_map s_val (nth_error (o_rets o2) (snd a)))
      by (rewrite <- !nth_error_map, Ev; reflexivity).
    destruct (nth_error (o_rets o1) (snd a)) as [s1|], (nth_error (o_rets o2) (snd a)) as [s2|]; simpl in E; try discriminate; auto.
    injection E as ->. rewrite Eo, Hp. reflexivity.
  Qed.

  Lemma all_vals_spec (rets : list slot) ys : all_vals rets = Some ys -> map s_val rets = map Some ys.
  Proof.
    revert ys; induction rets as [|s r IH]; intros ys H; simpl in *; [injection H as <-; reflexivity|].
    destruct (s_val s) as [v|]; [|discriminate]. destruct (all_vals r) as [vs|]; [|discriminate]. injection H as <-.
    simpl. f_equal. apply IH. reflexivity.
  Qed.
End AD.
