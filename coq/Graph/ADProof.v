(* C01, graph level: the reverse sweep of Graph::backward is the adjoint of the forward
   tangent.  Generalises design/prototypes/AD.v to this development's executable model
   (Graph/Backward.v: multi-output operators, zero materialisation of missing output
   gradients, invalidation, parameters outside the graph with prior gradients g0) over an
   ARBITRARY commutative ring.  The operator family stays abstract: the theorem needs, per
   non-parameter operator of the tape, [LocalAdjoint] (Graph/OpFamily.v), which the tensor
   engine proves per operator. *)
From Coq Require Import List NArith Bool Arith Lia Ring.
From PV Require Import Graph.OpFamily Graph.Tape Graph.Lazy Graph.Backward Graph.TapeLemmas Graph.LazyProofs Graph.BackwardProofs.
Import ListNotations.

Section AD.
  Context {R : Type} (rO rI : R) (radd rmul rsub : R -> R -> R) (ropp : R -> R).
  Hypothesis Rth : ring_theory rO rI radd rmul rsub ropp eq.
  Add Ring Rring : Rth.
  Infix "+!" := radd (at level 50, left associativity).
  Infix "*!" := rmul (at level 40, left associativity).
  Notation vec := (@OpFamily.vec R).
  Notation dot := (dot rO radd rmul).
  Notation dots := (dots rO radd rmul).
  Notation vplus := (vplus radd).

  Lemma dot_zeros_l n b : dot (repeat rO n) b = rO.
  Proof. revert b; induction n as [|n IH]; intros [|y b]; simpl; auto. rewrite IH. ring. Qed.
  Lemma dot_vplus a b c : length a = length b -> dot (vplus a b) c = dot a c +! dot b c.
  Proof.
    revert b c; induction a as [|x a IH]; intros [|y b] [|z c] H; simpl in *; try lia; try ring.
    rewrite IH by lia. ring.
  Qed.
  Lemma length_vplus a b : length a = length b -> length (vplus a b) = length a.
  Proof. revert b; induction a as [|x a IH]; intros [|y b] H; simpl in *; try lia. rewrite IH; lia. Qed.

  Context {Op Sh : Type}.
  Variable F : OpFamily Op Sh vec.
  Variable jvp : JvpFamily (R := R) Op.
  Variable size : Sh -> nat.
  Notation VO := (vec_ops rO rI radd size).
  Notation opinfo := (@opinfo Op Sh vec).
  Notation slot := (@slot Sh vec).
  Notation env := (@env vec).
  Notation ops_t := (list opinfo).

  Variable tan : nat * nat -> vec.     (* tangent of every node *)
  Variable dp : nat -> vec.            (* direction in parameter space *)

  (* ---------- potential of the live node gradients: sum <grad, tangent> ---------- *)
  Definition slot_pot (s : slot) (t : vec) : R := match s_grad s with Some x => dot x t | None => rO end.
  Fixpoint rets_pot (k v : nat) (rets : list slot) : R :=
    match rets with [] => rO | s :: r => slot_pot s (tan (k, v)) +! rets_pot k (S v) r end.
  Fixpoint ops_pot (k : nat) (ops : ops_t) : R :=
    match ops with [] => rO | oi :: r => rets_pot k 0 (o_rets oi) +! ops_pot (S k) r end.
  Definition pot (ops : ops_t) : R := ops_pot 0 ops.

  Lemma rets_pot_set k : forall rets v0 j s s', nth_error rets j = Some s ->
    rets_pot k v0 (set_nth rets j s') +! slot_pot s (tan (k, v0 + j)) = rets_pot k v0 rets +! slot_pot s' (tan (k, v0 + j)).
  Proof.
    induction rets as [|x rets IH]; intros v0 [|j] s s' H; simpl in *; try discriminate.
    - injection H as ->. rewrite Nat.add_0_r. ring.
    - specialize (IH (S v0) j s s' H). replace (v0 + S j) with (S v0 + j) by lia.
      transitivity (slot_pot x (tan (k, v0)) +! (rets_pot k (S v0) (set_nth rets j s') +! slot_pot s (tan (k, S v0 + j)))); [ring|].
      rewrite IH. ring.
  Qed.
  Lemma ops_pot_set : forall (ops : ops_t) k0 i oi oi', nth_error ops i = Some oi ->
    ops_pot k0 (set_nth ops i oi') +! rets_pot (k0 + i) 0 (o_rets oi) = ops_pot k0 ops +! rets_pot (k0 + i) 0 (o_rets oi').
  Proof.
    induction ops as [|x ops IH]; intros k0 [|i] oi oi' H; simpl in *; try discriminate.
    - injection H as ->. rewrite Nat.add_0_r. ring.
    - specialize (IH (S k0) i oi oi' H). replace (k0 + S i) with (S k0 + i) by lia.
      transitivity (rets_pot k0 0 (o_rets x) +! (ops_pot (S k0) (set_nth ops i oi') +! rets_pot (S k0 + i) 0 (o_rets oi))); [ring|].
      rewrite IH. ring.
  Qed.

  (* one slot update *)
  Lemma pot_upd (ops : ops_t) a f s : get_slot_ops ops a = Some s ->
    pot (upd_ops ops a f) +! slot_pot s (tan a) = pot ops +! slot_pot (f s) (tan a).
  Proof.
    unfold get_slot_ops, upd_ops, pot. destruct (nth_error ops (fst a)) as [oi|] eqn:E; [|discriminate].
    intro Hs. rewrite Hs. pose proof (ops_pot_set ops 0 (fst a) oi (set_rets oi (set_nth (o_rets oi) (snd a) (f s))) E) as H1.
    pose proof (rets_pot_set (fst a) (o_rets oi) 0 (snd a) s (f s) Hs) as H2. simpl in H1, H2.
    replace (tan a) with (tan (fst a, snd a)) by (destruct a; reflexivity).
    transitivity (ops_pot 0 ops +! rets_pot (fst a) 0 (set_nth (o_rets oi) (snd a) (f s)) +! slot_pot s (tan (fst a, snd a)) +! ropp (rets_pot (fst a) 0 (o_rets oi))).
    - rewrite <- H1. ring.
    - transitivity (ops_pot 0 ops +! (rets_pot (fst a) 0 (set_nth (o_rets oi) (snd a) (f s)) +! slot_pot s (tan (fst a, snd a))) +! ropp (rets_pot (fst a) 0 (o_rets oi))); [ring|].
      rewrite H2. ring.
  Qed.

  (* a whole operator at once *)
  Lemma pot_map_op (ops : ops_t) k f oi : nth_error ops k = Some oi ->
    pot (map_op ops k f) +! rets_pot k 0 (o_rets oi) = pot ops +! rets_pot k 0 (map f (o_rets oi)).
  Proof.
    intro E. unfold pot. rewrite (map_op_some _ _ _ _ E). exact (ops_pot_set ops 0 k oi (set_rets oi (map f (o_rets oi))) E).
  Qed.

  Lemma radd_cancel a b c : a +! c = b +! c -> a = b.
  Proof. intro H. transitivity (a +! c +! ropp c); [ring|]. rewrite H. ring. Qed.

  Lemma slot_pot_mat (s : slot) t : slot_pot (mat_zero VO s) t = slot_pot s t.
  Proof. unfold slot_pot, mat_zero. destruct s as [sh dv va [x|]]; simpl; [reflexivity|apply dot_zeros_l]. Qed.
  Lemma rets_pot_mat k : forall rets v0, rets_pot k v0 (map (mat_zero VO) rets) = rets_pot k v0 rets.
  Proof. induction rets as [|s r IH]; intro v0; simpl; auto. rewrite slot_pot_mat, IH. reflexivity. Qed.
  Lemma rets_pot_clr k : forall rets v0, rets_pot k v0 (map clr rets) = rO.
  Proof. induction rets as [|s r IH]; intro v0; simpl; auto. rewrite IH. unfold slot_pot. simpl. ring. Qed.
  Definition tans_of (k v0 n : nat) : list vec := map (fun v => tan (k, v)) (seq v0 n).
  Lemma rets_pot_dots k : forall rets v0,
    rets_pot k v0 rets = dots (map (grad_or_zero VO) rets) (tans_of k v0 (length rets)).
  Proof.
    induction rets as [|s r IH]; intro v0; simpl; auto. rewrite IH. f_equal.
    unfold slot_pot, grad_or_zero. destruct s as [sh dv va [x|]]; simpl; [reflexivity|]. symmetry. apply dot_zeros_l.
  Qed.

  Lemma pot_fold_mat args : forall ops : ops_t, pot (fold_mat VO ops args) = pot ops.
  Proof.
    induction args as [|a args IH]; intro ops; simpl; auto. unfold fold_mat in *. simpl. rewrite IH.
    destruct (get_slot_ops ops a) as [s|] eqn:E.
    - pose proof (pot_upd ops a (mat_zero VO) s E) as H. rewrite slot_pot_mat in H. eapply radd_cancel; eauto.
    - unfold upd_ops. unfold get_slot_ops in E. destruct (nth_error ops (fst a)) as [oi|]; auto. rewrite E. reflexivity.
  Qed.

  Lemma pot_add_incs args : forall (ops : ops_t) incs,
    (forall i inc, nth_error incs i = Some inc -> exists a s gx, nth_error args i = Some a /\
        get_slot_ops ops a = Some s /\ s_grad s = Some gx /\ length gx = length inc) ->
    pot (add_incs VO ops args incs) = pot ops +! dots incs (map tan args).
  Proof.
    induction args as [|a args IH]; intros ops [|inc incs] H; simpl; try ring.
    - destruct (H 0 inc eq_refl) as (a0 & s0 & gx0 & Ea0 & Es0 & Eg0 & El0). simpl in Ea0. injection Ea0 as <-.
      rewrite IH.
      + pose proof (pot_upd ops a (add_inc VO inc) s0 Es0) as Hu.
        assert (Hsp : slot_pot (add_inc VO inc s0) (tan a) = slot_pot s0 (tan a) +! dot inc (tan a)).
        { unfold slot_pot, add_inc. rewrite Eg0. cbn [s_grad set_grad vadd vec_ops]. apply dot_vplus. exact El0. }
        rewrite Hsp in Hu.
        assert (Hp : pot (upd_ops ops a (add_inc VO inc)) = pot ops +! dot inc (tan a)).
        { apply (radd_cancel _ _ (slot_pot s0 (tan a))). rewrite Hu. ring. }
        rewrite Hp. ring.
      + intros i inc' Hi. destruct (H (S i) inc' Hi) as (b & sb & gb & Eb & Esb & Egb & Elb). simpl in Eb.
        assert (Hget : get_slot_ops (upd_ops ops a (add_inc VO inc)) b =
                       if addr_eq a b then option_map (add_inc VO inc) (get_slot_ops ops b) else get_slot_ops ops b)
          by (rewrite upd_ops_get; reflexivity).
        destruct (addr_eq_spec a b) as [->|N].
        * rewrite Esb in Hget. simpl in Hget. rewrite Esb in Es0. injection Es0 as <-. exists b, (add_inc VO inc sb), (vplus gb inc).
          rewrite Egb in Eg0. injection Eg0 as <-.
          split; [exact Eb|]. split; [exact Hget|]. split; [unfold add_inc; rewrite Egb; reflexivity|].
          rewrite length_vplus by exact El0. exact Elb.
        * exists b, sb, gb. rewrite Hget. auto.
  Qed.

  (* ---------- sizes, consistency of the tangents with the evaluated tape ---------- *)
  Definition gsized (ops : ops_t) : Prop :=
    forall a s x, get_slot_ops ops a = Some s -> s_grad s = Some x -> length x = size (s_shape s).
  (* what backward reads for an argument has the size of that argument's shape; tangents too *)
  Definition rsized (ops : ops_t) (e : env) : Prop :=
    forall a s, get_slot_ops ops a = Some s ->
      length (tan a) = size (s_shape s) /\ forall x, bread F ops e a = Some x -> length x = size (s_shape s).
  Definition psized (ops : ops_t) (e : env) : Prop :=
    forall k oi p s, nth_error ops k = Some oi -> f_inner F (o_op oi) = Some p -> nth_error (o_rets oi) 0 = Some s ->
      length (e_pgrad e p) = size (s_shape s).
  (* the tangents are those of the forward pass in direction dp *)
  Definition consistent (ops : ops_t) (e : env) : Prop :=
    forall k oi, nth_error ops k = Some oi ->
      match f_inner F (o_op oi) with
      | Some p => length (o_rets oi) = 1 /\ tan (k, 0) = dp p
      | None => forall ys, all_vals (o_rets oi) = Some ys ->
                  exists pos xs, Forall2 (fun a x => bread F ops e a = Some x) (o_args oi) xs /\
                                 ys = f_fw F (o_op oi) pos xs /\
                                 tans_of k 0 (length (o_rets oi)) = jvp (o_op oi) pos xs (map tan (o_args oi))
      end.

  (* sum over the parameters ps of <gradient, direction> *)
  Fixpoint ppot (ps : list nat) (e : env) : R :=
    match ps with [] => rO | p :: r => dot (e_pgrad e p) (dp p) +! ppot r e end.
  Lemma ppot_add_other ps (e : env) p gy : ~ In p ps -> ppot ps (add_pgrad VO e p gy) = ppot ps e.
  Proof.
    induction ps as [|q ps IH]; intro H; simpl; auto. rewrite IH by (intro; apply H; right; auto).
    destruct (Nat.eqb_spec q p) as [->|N]; [exfalso; apply H; left; reflexivity|reflexivity].
  Qed.
  Lemma ppot_add ps (e : env) p gy : NoDup ps -> In p ps -> length (e_pgrad e p) = length gy ->
    ppot ps (add_pgrad VO e p gy) = ppot ps e +! dot gy (dp p).
  Proof.
    induction ps as [|q ps IH]; intros Hnd Hin Hl; [contradiction|]. inversion Hnd as [|? ? Hq Hnd']; subst. simpl.
    destruct (Nat.eqb_spec q p) as [->|N].
    - rewrite ppot_add_other by exact Hq. cbn [vadd vec_ops]. rewrite dot_vplus by exact Hl. ring.
    - destruct Hin as [->|Hin]; [congruence|]. rewrite IH by auto. ring.
  Qed.

  (* ---------- size bookkeeping of gradient slots ---------- *)
  Lemma gsized_upd (ops : ops_t) a f : gsized ops ->
    (forall s, get_slot_ops ops a = Some s -> forall x, s_grad (f s) = Some x -> length x = size (s_shape (f s))) ->
    gsized (upd_ops ops a f).
  Proof.
    intros Hg Hf b s x Hb Hx. rewrite upd_ops_get in Hb. fold (addr_eq a b) in Hb.
    destruct (addr_eq_spec a b) as [->|N]; [|eapply Hg; eauto].
    destruct (get_slot_ops ops b) as [s0|] eqn:E; [|discriminate]. simpl in Hb. injection Hb as <-. eapply Hf; eauto.
  Qed.
  Lemma gsized_map_op (ops : ops_t) k f : gsized ops ->
    (forall b s, fst b = k -> get_slot_ops ops b = Some s -> forall x, s_grad (f s) = Some x -> length x = size (s_shape (f s))) ->
    gsized (map_op ops k f).
  Proof.
    intros Hg Hf b s x Hb Hx. rewrite map_op_get in Hb. destruct (Nat.eqb_spec k (fst b)) as [E|N]; [|eapply Hg; eauto].
    destruct (get_slot_ops ops b) as [s0|] eqn:E0; [|discriminate]. simpl in Hb. injection Hb as <-. eapply Hf; eauto.
  Qed.
  Lemma mat_zero_sized (ops : ops_t) a (s : slot) : gsized ops -> get_slot_ops ops a = Some s ->
    forall x, s_grad (mat_zero VO s) = Some x -> length x = size (s_shape (mat_zero VO s)).
  Proof.
    intros Hg Hs x. unfold mat_zero. destruct (s_grad s) as [gx|] eqn:E.
    - rewrite E. intros [= <-]. eapply Hg; eauto.
    - cbn [s_grad set_grad s_shape]. intros [= <-]. simpl. apply repeat_length.
  Qed.
  Lemma gsized_fold_mat args : forall ops : ops_t, gsized ops -> gsized (fold_mat VO ops args).
  Proof.
    induction args as [|a args IH]; intros ops Hg; simpl; auto. unfold fold_mat in *. simpl. apply IH.
    apply gsized_upd; auto. intros s Hs. eapply mat_zero_sized; eauto.
  Qed.
  Lemma gsized_add_incs args : forall (ops : ops_t) incs, gsized ops ->
    (forall i inc, nth_error incs i = Some inc -> exists a s gx, nth_error args i = Some a /\
        get_slot_ops ops a = Some s /\ s_grad s = Some gx /\ length gx = length inc) ->
    gsized (add_incs VO ops args incs).
  Proof.
    induction args as [|a args IH]; intros ops [|inc incs] Hg H; simpl; auto.
    destruct (H 0 inc eq_refl) as (a0 & s0 & gx0 & Ea0 & Es0 & Eg0 & El0). simpl in Ea0. injection Ea0 as <-.
    apply IH.
    - apply gsized_upd; auto. intros s Hs x. rewrite Es0 in Hs. injection Hs as <-. unfold add_inc. rewrite Eg0.
      cbn [s_grad set_grad s_shape vadd vec_ops]. intros [= <-]. rewrite length_vplus by exact El0. eapply Hg; eauto.
    - intros i inc' Hi. destruct (H (S i) inc' Hi) as (b & sb & gb & Eb & Esb & Egb & Elb). simpl in Eb.
      assert (Hget : get_slot_ops (upd_ops ops a (add_inc VO inc)) b =
                     if addr_eq a b then option_map (add_inc VO inc) (get_slot_ops ops b) else get_slot_ops ops b)
        by (rewrite upd_ops_get; reflexivity).
      destruct (addr_eq_spec a b) as [->|N].
      + rewrite Esb in Hget. simpl in Hget. rewrite Esb in Es0. injection Es0 as <-. exists b, (add_inc VO inc sb), (vplus gb inc).
        rewrite Egb in Eg0. injection Eg0 as <-.
        split; [exact Eb|]. split; [exact Hget|]. split; [unfold add_inc; rewrite Egb; reflexivity|].
        rewrite length_vplus by exact El0. exact Elb.
      + exists b, sb, gb. rewrite Hget. auto.
  Qed.

  Lemma bread_sg (ops ops' : ops_t) (e e' : env) a : sg ops = sg ops' -> e_pval e = e_pval e' -> bread F ops e a = bread F ops' e' a.
  Proof.
    intros H Hp. unfold bread. pose proof (sg_nth ops ops' (fst a) H) as Hk.
    destruct (nth_error ops (fst a)) as [o1|], (nth_error ops' (fst a)) as [o2|]; try contradiction; auto.
    destruct Hk as (Eo & _ & _ & Ev & _).
    assert (E : option_map s_val (nth_error (o_rets o1) (snd a)) = option_map s_val (nth_error (o_rets o2) (snd a)))
      by (rewrite <- !nth_error_map, Ev; reflexivity).
    destruct (nth_error (o_rets o1) (snd a)) as [s1|], (nth_error (o_rets o2) (snd a)) as [s2|]; simpl in E; try discriminate; auto.
    injection E as ->. rewrite Eo, Hp. reflexivity.
  Qed.

  Lemma all_vals_spec (rets : list slot) ys : all_vals rets = Some ys -> map s_val rets = map Some ys.
  Proof.
    revert ys; induction rets as [|s r IH]; intros ys H; simpl in *; [injection H as <-; reflexivity|].
    destruct (s_val s) as [v|]; [|discriminate]. destruct (all_vals r) as [vs|]; [|discriminate]. injection H as <-.
    simpl. f_equal. apply IH. reflexivity.
  Qed.

  (* ---------- the sweep preserves  potential(node gradients) + <parameter gradients, dp>  ---------- *)
  Section Sweep.
    Variable ops0 : ops_t.            (* the evaluated tape, no gradient anywhere *)
    Variable e0 : env.
    Variable ps : list nat.           (* the parameters: duplicate-free, covering the tape *)
    Hypothesis Hwf : wf_ops ops0.
    Hypothesis HLA : forall k oi, nth_error ops0 k = Some oi -> f_inner F (o_op oi) = None ->
      LocalAdjoint rO radd rmul F jvp size (o_op oi).
    Hypothesis Hshp : shape_ok F ops0.
    Hypothesis Hcons : consistent ops0 e0.
    Hypothesis Hrs : rsized ops0 e0.
    Hypothesis Hnd : NoDup ps.
    Hypothesis Hcover : forall k oi p, nth_error ops0 k = Some oi -> f_inner F (o_op oi) = Some p -> In p ps.

    Definition psz (e : env) : Prop := psized ops0 e.

    Lemma slot_sg (ops : ops_t) a s : sg ops = sg ops0 -> get_slot_ops ops a = Some s ->
      exists s0, get_slot_ops ops0 a = Some s0 /\ s_shape s0 = s_shape s /\ s_val s0 = s_val s.
    Proof.
      intros H Hs. unfold get_slot_ops in *. pose proof (sg_nth ops ops0 (fst a) H) as Hk.
      destruct (nth_error ops (fst a)) as [o1|]; [|discriminate]. destruct (nth_error ops0 (fst a)) as [o2|]; [|contradiction].
      destruct Hk as (_ & _ & _ & Ev & Es).
      assert (E1 : option_map s_val (nth_error (o_rets o1) (snd a)) = option_map s_val (nth_error (o_rets o2) (snd a)))
        by (rewrite <- !nth_error_map, Ev; reflexivity).
      assert (E2 : option_map s_shape (nth_error (o_rets o1) (snd a)) = option_map s_shape (nth_error (o_rets o2) (snd a)))
        by (rewrite <- !nth_error_map, Es; reflexivity).
      rewrite Hs in E1, E2. destruct (nth_error (o_rets o2) (snd a)) as [s0|]; [|discriminate]. simpl in *.
      exists s0. split; [reflexivity|]. split; congruence.
    Qed.

    Lemma step_pot k (ops : ops_t) e ops' e' :
      sg ops = sg ops0 -> e_pval e = e_pval e0 -> gsized ops -> psz e ->
      bstep F VO k ops e = Some (ops', e', true) ->
      pot ops' +! ppot ps e' = pot ops +! ppot ps e /\ gsized ops' /\ psz e' /\ e_pval e' = e_pval e0.
    Proof.
      intros Hsg Hpv Hgs Hps Hb.
      assert (Hwf' : wf_ops ops) by (eapply sg_wf; [symmetry; exact Hsg|exact Hwf]).
      destruct (bstep_shape F VO _ _ _ _ _ _ Hwf' Hb) as (cur & Ecur & [(Hc & _)|(_ & Hen & Hrest)]); [discriminate|].
      cbv zeta in Hrest. destruct Hrest as (xs & Hxs & Hcase).
      pose proof (sg_nth ops ops0 k Hsg) as Hk0. rewrite Ecur in Hk0.
      destruct (nth_error ops0 k) as [cur0|] eqn:Ecur0; [|contradiction]. destruct Hk0 as (Eo & Ea & El & Evals & Eshp).
      assert (Hargs : forall a, In a (o_args cur) -> fst a <> k).
      { intros a Ha. pose proof (Hwf' k cur Ecur) as Hf. rewrite Forall_forall in Hf. destruct (Hf a Ha). lia. }
      set (ops1 := map_op ops k (mat_zero VO)) in *.
      set (ops2 := fold_mat VO ops1 (o_args cur)) in *.
      set (gys := map (grad_or_zero VO) (o_rets cur)) in *.
      assert (Hp1 : pot ops1 = pot ops).
      { pose proof (pot_map_op ops k (mat_zero VO) cur Ecur) as H. rewrite rets_pot_mat in H. eapply radd_cancel; eauto. }
      assert (Hp2 : pot ops2 = pot ops) by (unfold ops2; rewrite pot_fold_mat; exact Hp1).
      assert (Ek2 : nth_error ops2 k = Some (set_rets cur (map (mat_zero VO) (o_rets cur)))).
      { unfold ops2. rewrite fold_mat_other by auto. apply map_op_at. exact Ecur. }
      assert (Hg1 : gsized ops1).
      { apply gsized_map_op; auto. intros b s _ Hs. eapply mat_zero_sized; eauto. }
      assert (Hg2 : gsized ops2) by (apply gsized_fold_mat; exact Hg1).
      assert (Hpotk : rets_pot k 0 (map (mat_zero VO) (o_rets cur)) = dots gys (tans_of k 0 (length (o_rets cur)))).
      { rewrite rets_pot_mat. apply rets_pot_dots. }
      (* sizes of the upstream gradients *)
      assert (Hgys : forall j s, nth_error (o_rets cur) j = Some s -> length (grad_or_zero VO s) = size (s_shape s)).
      { intros j s Hj. unfold grad_or_zero. destruct (s_grad s) as [x|] eqn:Ex; [|simpl; apply repeat_length].
        apply (Hgs (k, j) s x); auto. unfold get_slot_ops. simpl. rewrite Ecur. exact Hj. }
      destruct Hcase as [(p & gy & rest & Ein & Egys & -> & ->)|(Ein & ys & Eys & -> & ->)].
      - (* the Parameter operator *)
        pose proof (Hcons k cur0 Ecur0) as Hc0. rewrite <- Eo, Ein in Hc0. destruct Hc0 as (Hl1 & Htan).
        assert (Hl : length (o_rets cur) = 1) by congruence.
        destruct (o_rets cur) as [|s0 [|? ?]] eqn:Er; try discriminate.
        unfold gys in Egys. simpl in Egys. injection Egys as <- <-.
        pose proof (pot_map_op ops2 k clr _ Ek2) as H. cbn [o_rets set_rets] in H. rewrite rets_pot_clr, Hpotk in H.
        unfold gys, tans_of in H. simpl in H. rewrite Htan in H.
        assert (Hlen : length (e_pgrad e p) = length (grad_or_zero VO s0)).
        { rewrite (Hgys 0 s0) by reflexivity.
          assert (Hs00 : exists s00, nth_error (o_rets cur0) 0 = Some s00 /\ s_shape s00 = s_shape s0).
          { destruct (o_rets cur0) as [|s00 [|? ?]]; try discriminate. simpl in Eshp. injection Eshp as Eshp.
            exists s00. split; [reflexivity|congruence]. }
          destruct Hs00 as (s00 & E00 & <-). apply (Hps k cur0 p s00); auto. congruence. }
        assert (Hin : In p ps) by (apply (Hcover k cur0); [exact Ecur0|congruence]).
        rewrite (ppot_add ps e p _ Hnd Hin Hlen).
        split; [|split; [|split]].
        + transitivity (pot (map_op ops2 k clr) +! (dot (grad_or_zero VO s0) (dp p) +! rO) +! ppot ps e); [ring|]. rewrite H, Hp2. ring.
        + apply gsized_map_op; auto. intros b s _ _ x Hx. discriminate.
        + intros k1 oi1 p1 s1 E1 Ei1 Es1. cbn [add_pgrad e_pgrad]. destruct (Nat.eqb_spec p1 p) as [->|N]; [|eapply Hps; eauto].
          cbn [vadd vec_ops]. rewrite length_vplus by exact Hlen. eapply Hps; eauto.
        + exact Hpv.
      - (* an ordinary operator: LocalAdjoint *)
        pose proof (Hcons k cur0 Ecur0) as Hc0. rewrite <- Eo, Ein in Hc0.
        assert (Eys0 : all_vals (o_rets cur0) = Some ys).
        { clear - Eys Evals. revert ys Eys. generalize dependent (o_rets cur0). induction (o_rets cur) as [|s r IH]; intros r0 Ev ys Hy; destruct r0 as [|s0 r0]; simpl in *; try discriminate; auto.
          injection Ev as Es Er. rewrite <- Es. destruct (s_val s); [|discriminate]. destruct (all_vals r) as [vs|] eqn:Evs; [|discriminate].
          rewrite (IH r0 Er vs eq_refl). exact Hy. }
        destruct (Hc0 ys Eys0) as (pos & xs0 & Hxs0 & Hys & Htans).
        assert (Exs : xs = xs0).
        { apply (Forall2_fun (bread F ops e) (o_args cur)); [exact Hxs|]. rewrite Ea.
          eapply Forall2_impl; [|exact Hxs0]. intros a x. cbv beta. rewrite (bread_sg ops ops0 e e0 a Hsg Hpv). auto. }
        subst xs0. rewrite <- Ea, <- El in Htans.
        set (dxs := map tan (o_args cur)) in *.
        (* sizes for LocalAdjoint *)
        assert (Hslot_arg : forall a x, In a (o_args cur) -> bread F ops e a = Some x ->
                  exists s, get_slot_ops ops a = Some s /\ length x = size (s_shape s) /\ length (tan a) = size (s_shape s)).
        { intros a x Ha Hx. assert (Hs : exists s, get_slot_ops ops a = Some s).
          { unfold bread in Hx. unfold get_slot_ops. destruct (nth_error ops (fst a)) as [oa|]; [|discriminate].
            destruct (nth_error (o_rets oa) (snd a)) as [s|]; [eauto|discriminate]. }
          destruct Hs as (s & Hs). exists s. split; [exact Hs|]. destruct (slot_sg ops a s Hsg Hs) as (s0 & Hs0 & Esh & _).
          destruct (Hrs a s0 Hs0) as (Ht & Hb0). rewrite <- Esh. split; [|exact Ht]. apply Hb0.
          rewrite <- (bread_sg ops ops0 e e0 a Hsg Hpv). exact Hx. }
        destruct (Hshp k cur0 Ecur0 (eq_trans (f_equal (f_inner F) (eq_sym Eo)) Ein)) as (ashs & Hashs & Hfs).
        rewrite <- Ea in Hashs.
        (* the slot of an argument, in the current state, with the shape forward_shape saw *)
        assert (Harg_sh : forall a sh, In a (o_args cur) -> (exists s0, get_slot_ops ops0 a = Some s0 /\ s_shape s0 = sh) ->
                  exists s, get_slot_ops ops a = Some s /\ s_shape s = sh).
        { intros a sh _ (s0 & Hs0 & Esh). unfold get_slot_ops in *. pose proof (sg_nth ops ops0 (fst a) Hsg) as Hka.
          destruct (nth_error ops0 (fst a)) as [o2|]; [|discriminate]. destruct (nth_error ops (fst a)) as [o1|]; [|contradiction].
          destruct Hka as (_ & _ & _ & _ & Es).
          assert (E2 : option_map s_shape (nth_error (o_rets o1) (snd a)) = option_map s_shape (nth_error (o_rets o2) (snd a)))
            by (rewrite <- !nth_error_map, Es; reflexivity).
          rewrite Hs0 in E2. destruct (nth_error (o_rets o1) (snd a)) as [s|]; [|discriminate]. simpl in E2. exists s. split; congruence. }
        assert (HF1 : Forall2 (fun x sh => length x = size sh) xs ashs).
        { clear - Hxs Hashs Hslot_arg Harg_sh. revert ashs Hashs. induction Hxs as [|a x l l' Hax _ IH]; intros ashs Hashs; inversion Hashs as [|? sh ? shs Hsh Hrest]; subst; constructor.
          - destruct (Hslot_arg a x (or_introl eq_refl) Hax) as (s & Hs & A & _).
            destruct (Harg_sh a sh (or_introl eq_refl) Hsh) as (s' & Hs' & <-). congruence.
          - apply IH; auto; intros; [apply Hslot_arg|apply Harg_sh]; auto; right; auto. }
        assert (HF1' : Forall2 (fun dx sh => length dx = size sh) dxs ashs).
        { unfold dxs. clear - Hxs Hashs Hslot_arg Harg_sh. revert ashs Hashs. induction Hxs as [|a x l l' Hax _ IH]; intros ashs Hashs; inversion Hashs as [|? sh ? shs Hsh Hrest]; subst; simpl; constructor.
          - destruct (Hslot_arg a x (or_introl eq_refl) Hax) as (s & Hs & _ & B).
            destruct (Harg_sh a sh (or_introl eq_refl) Hsh) as (s' & Hs' & <-). congruence.
          - apply IH; auto; intros; [apply Hslot_arg|apply Harg_sh]; auto; right; auto. }
        assert (HF2 : Forall2 (fun gy sh => length gy = size sh) gys (map s_shape (o_rets cur0))).
        { rewrite <- Eshp. unfold gys. clear - Hgys. revert Hgys. generalize (o_rets cur) as rets.
          induction rets as [|s r IH]; intro Hg; simpl; constructor; [apply (Hg 0 s eq_refl)|].
          apply IH. intros j. apply (Hg (S j)). }
        destruct (HLA k cur0 Ecur0 (eq_trans (f_equal (f_inner F) (eq_sym Eo)) Ein) pos ashs _ xs dxs gys Hfs HF1 HF1' HF2) as (LA1 & LA2 & _).
        rewrite <- Eo, <- Hys in LA1, LA2.
        set (incs := eff_bw F (o_op cur) xs ys gys) in *.
        assert (Hincs : forall i inc, nth_error incs i = Some inc -> exists a s gx, nth_error (o_args cur) i = Some a /\
                  get_slot_ops ops2 a = Some s /\ s_grad s = Some gx /\ length gx = length inc).
        { intros i inc Hi. destruct (LA2 i inc Hi) as (sh & Hsh & Hlx).
          assert (Ha : exists a, nth_error (o_args cur) i = Some a /\ exists s0, get_slot_ops ops0 a = Some s0 /\ s_shape s0 = sh).
          { clear - Hashs Hsh. revert i Hsh. induction Hashs as [|a y l l' Hay _ IH]; intros [|i] Hx; simpl in *; try discriminate.
            - injection Hx as ->. eauto.
            - apply IH. exact Hx. }
          destruct Ha as (a & Eai & Hs0). pose proof (nth_error_In _ _ Eai) as Hain.
          destruct (Harg_sh a sh Hain Hs0) as (s & Hs & Eshs).
          assert (Hm : mem_addr a (o_args cur) = true).
          { unfold mem_addr. apply existsb_exists. exists a. split; auto. destruct (addr_eq_spec a a); congruence. }
          assert (Hget2 : get_slot_ops ops2 a = Some (mat_zero VO s)).
          { unfold ops2. rewrite fold_mat_get, Hm. unfold ops1. rewrite map_op_get.
            destruct (Nat.eqb_spec k (fst a)) as [E|N]; [exfalso; apply (Hargs a Hain); auto|]. rewrite Hs. reflexivity. }
          exists a, (mat_zero VO s). destruct (s_grad (mat_zero VO s)) as [gx|] eqn:Eg.
          - exists gx. repeat split; auto. rewrite (mat_zero_sized ops a s Hgs Hs gx Eg).
            assert (Hsh' : s_shape (mat_zero VO s) = s_shape s) by (unfold mat_zero; destruct (s_grad s); reflexivity). rewrite Hsh'. congruence.
          - exfalso. unfold mat_zero in Eg. destruct (s_grad s) eqn:E1; [congruence|discriminate]. }
        pose proof (pot_add_incs (o_args cur) ops2 incs Hincs) as Hp3. fold dxs in Hp3.
        assert (Ek3 : nth_error (add_incs VO ops2 (o_args cur) incs) k = Some (set_rets cur (map (mat_zero VO) (o_rets cur))))
          by (rewrite add_incs_other by auto; exact Ek2).
        pose proof (pot_map_op _ k clr _ Ek3) as H. cbn [o_rets set_rets] in H. rewrite rets_pot_clr, Hpotk in H.
        split; [|split; [|split]].
        + f_equal. apply (radd_cancel _ _ (dots gys (tans_of k 0 (length (o_rets cur))))). rewrite H, Hp3, Hp2, Htans, LA1. ring.
        + apply gsized_map_op; [apply gsized_add_incs; auto|]. intros b s _ _ x Hx. discriminate.
        + exact Hps.
        + exact Hpv.
    Qed.

    Lemma pot_gclean (ops : ops_t) : gclean ops -> pot ops = rO.
    Proof.
      intro Hc.
      assert (Hall : Forall (fun oi : opinfo => Forall (fun s : slot => s_grad s = None) (o_rets oi)) ops).
      { apply Forall_forall. intros oi Hoi. apply Forall_forall. intros s Hs.
        apply In_nth_error in Hoi. destruct Hoi as (k & Ek). apply In_nth_error in Hs. destruct Hs as (j & Ej).
        apply (Hc (k, j) s). unfold get_slot_ops. simpl. rewrite Ek. exact Ej. }
      unfold pot. generalize 0 as k0. clear Hc. induction Hall as [|oi r Hoi _ IH]; intro k0; simpl; [reflexivity|].
      rewrite IH. assert (Hr : forall v0, rets_pot k0 v0 (o_rets oi) = rO).
      { induction Hoi as [|s rr Hs _ IHr]; intro v0; simpl; [reflexivity|]. rewrite IHr. unfold slot_pot. rewrite Hs. ring. }
      rewrite Hr. ring.
    Qed.

    (* reverse_sweep_adjoint.  For the evaluated, gradient-free tape ops0 whose tangents in
       direction dp are [tan] (consistent), every operator family satisfying LocalAdjoint on the
       tape, every target node n, every prior gradients (those of e0):
         sum_p <grad_after p, dp p>  =  sum_p <g0 p, dp p>  +  <ones, tan n>
       i.e. the gradient ADDED to the parameters pairs with dp to the directional derivative
       of sum(n); the pass leaves no node gradient and no changed parameter value. *)
    Theorem reverse_sweep_adjoint n sn bl ops' e' bl' :
      gclean ops0 -> psz e0 -> get_slot_ops ops0 n = Some sn ->
      sweep F VO (fst n) (upd_ops ops0 n (fun s => set_grad s (Some (vones VO (s_shape s))))) e0 bl = Some (ops', e', bl') ->
      ppot ps e' = ppot ps e0 +! dot (vones VO (s_shape sn)) (tan n) /\ gclean ops' /\ e_pval e' = e_pval e0.
    Proof.
      intros Hcl Hps0 Hsn Hsw.
      set (seeded := upd_ops ops0 n (fun s => set_grad s (Some (vones VO (s_shape s))))) in *.
      assert (Hsg0 : sg seeded = sg ops0) by (apply grad_only_sg; reflexivity).
      assert (Hwf0 : wf_ops seeded) by (eapply sg_wf; [symmetry; exact Hsg0|exact Hwf]).
      assert (Hgs0 : gsized seeded).
      { apply gsized_upd; [intros a s x Hs Hx; rewrite (Hcl a s Hs) in Hx; discriminate|].
        intros s _ x. cbn [s_grad set_grad s_shape]. intros [= <-]. simpl. apply repeat_length. }
      assert (Hpot0 : pot seeded = dot (vones VO (s_shape sn)) (tan n)).
      { pose proof (pot_upd ops0 n (fun s => set_grad s (Some (vones VO (s_shape s)))) sn Hsn) as H. fold seeded in H.
        rewrite (pot_gclean ops0 Hcl) in H. unfold slot_pot in H. rewrite (Hcl n sn Hsn) in H. cbn [s_grad set_grad] in H.
        transitivity (pot seeded +! rO); [ring|]. rewrite H. ring. }
      set (C := pot seeded +! ppot ps e0).
      pose (P := fun (m : nat) (o : ops_t) (e1 : env) (_ : list nat) =>
                   sg o = sg ops0 /\ e_pval e1 = e_pval e0 /\ gsized o /\ psz e1 /\ pot o +! ppot ps e1 = C).
      assert (HP : P 0 ops' e' bl').
      { eapply (sweep_inv F VO P); [|exact Hwf0|exact Hsw|unfold P; auto].
        intros k o e1 bl1 o1 e2 c Hwfo Hb (A & B & G & S & Q). unfold P. destruct c.
        - destruct (step_pot k o e1 o1 e2 A B G S Hb) as (Q' & G' & S' & B').
          split; [rewrite (bstep_sg F VO _ _ _ _ _ _ Hwfo Hb); exact A|]. split; [exact B'|]. split; [exact G'|]. split; [exact S'|]. congruence.
        - destruct (bstep_shape F VO _ _ _ _ _ _ Hwfo Hb) as (cur & _ & [(_ & _ & -> & ->)|(Hcc & _)]); [auto|discriminate]. }
      destruct HP as (A & B & _ & _ & Q).
      assert (Hcf : gclear_from (S (fst n)) seeded).
      { intros b s Hs Hle. unfold seeded in Hs. rewrite upd_ops_get in Hs.
        destruct (Nat.eqb_spec (fst n) (fst b)) as [E|N]; [lia|]. simpl in Hs. eapply Hcl; eauto. }
      destruct (sweep_clean F VO _ _ _ _ _ _ _ Hwf0 Hsw Hcf) as (_ & Hclean' & _ & _).
      split; [|split; [exact Hclean'|exact B]].
      rewrite (pot_gclean ops' Hclean') in Q. unfold C in Q. rewrite Hpot0 in Q.
      transitivity (rO +! ppot ps e'); [ring|]. rewrite Q. ring.
    Qed.

    (* the same for Graph::backward itself on a graph whose target is already evaluated *)
    Corollary backward_adjoint (g : @gstate Op Sh vec) n sn v g' e' :
      g_ops g = ops0 -> gclean ops0 -> psz e0 -> get_slot g n = Some sn -> s_val sn = Some v ->
      backward F VO g e0 n = Some (g', e') ->
      ppot ps e' = ppot ps e0 +! dot (vones VO (s_shape sn)) (tan n) /\ gclean (g_ops g') /\ e_pval e' = e_pval e0.
    Proof.
      intros Eg Hcl Hps Hsn Hv H. unfold backward in H. rewrite Hsn, Hv in H. rewrite Eg in H.
      destruct (sweep F VO (fst n) (upd_ops ops0 n (fun s => set_grad s (Some (vones VO (s_shape s))))) e0 (g_blog g)) as [[[ops' e1] bl']|] eqn:Es; [|discriminate].
      injection H as <- <-. cbn [g_ops]. unfold get_slot in Hsn. rewrite Eg in Hsn.
      exact (reverse_sweep_adjoint n sn (g_blog g) ops' e1 bl' Hcl Hps Hsn Es).
    Qed.
  End Sweep.
End AD.

Check @reverse_sweep_adjoint.
Print Assumptions reverse_sweep_adjoint.
Print Assumptions backward_adjoint.
