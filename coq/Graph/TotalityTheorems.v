(* The totality statements served to Props/Properties_C05_total.v / Properties_C06_total.v, with
   the contract of the operator family bundled in [FamOK], and the headline theorems of
   C05 / C06 re-stated WITHOUT their `... = Some _` hypothesis: reachability (the invariant) and
   validity of the request imply that the call returns, and the returned state satisfies the
   conclusion. *)
From Coq Require Import List NArith Bool Arith Lia.
From PV Require Import Graph.OpFamily Graph.Tape Graph.Lazy Graph.Backward Graph.TapeLemmas
  Graph.LazyProofs Graph.BackwardProofs Graph.HistoryProofs Graph.FrameProofs Graph.MoreProofs
  Graph.Theorems Graph.Totality.
Import ListNotations.

Section TotalityTheorems.
  Context {Op Sh V : Type}.
  Variable F : OpFamily Op Sh V.
  Variable VO : ValOps Sh V.
  Hypothesis HF : FamOK F.
  Notation gstate := (@gstate Op Sh V).
  Notation env := (@env V).
  Notation world := (@world Op Sh V).
  Notation cmd := (@cmd Op Sh V).

  Let H1 := proj1 HF.
  Let H2 := proj1 (proj2 HF).
  Let H3 := proj2 (proj2 HF).

  Definition init_world (e : env) : world := {| w_graphs := []; w_env := e |}.

  (* ---------------- never stuck ---------------- *)
  Lemma TT_reachable_never_aborts (e : env) cs (c : cmd) :
    cmd_valid (run_all F VO (init_world e) cs) c -> run_cmd F VO (run_all F VO (init_world e) cs) c <> Abort.
  Proof. exact (reachable_never_aborts F VO H1 H2 H3 e cs c). Qed.

  Lemma TT_reachable_abort_only_check_node (e : env) cs (c : cmd) :
    let w := run_all F VO (init_world e) cs in
    run_cmd F VO w c = Abort ->
    match c with
    | CAdd gi _ args => nth_error (w_graphs w) gi = None \/
        exists g n, nth_error (w_graphs w) gi = Some g /\ In n args /\ fst n = gi /\ get_slot g (snd n) = None
    | CForward gi a | CBackward gi a => nth_error (w_graphs w) gi = None \/
        exists g, nth_error (w_graphs w) gi = Some g /\ get_slot g a = None
    | _ => False
    end.
  Proof.
    intros w. apply (abort_only_check_node F VO H1).
    destruct (run_all_ok F VO H1 H2 H3 cs _ (winv_init F e)) as (H & _). exact H.
  Qed.

  Lemma TT_history_never_aborts (e : env) cs :
    hist_valid F VO (init_world e) cs ->
    never_aborts F VO (init_world e) cs /\ run_strict F VO (init_world e) cs = Some (run_all F VO (init_world e) cs).
  Proof.
    intro Hv. pose proof (history_never_aborts F VO H1 H2 H3 cs _ (winv_init F e) Hv) as Hn.
    split; [exact Hn|]. apply run_strict_eq. exact Hn.
  Qed.

  (* the same from any world satisfying the invariant (a reachable world, by C05_reachable_invariant) *)
  Lemma TT_history_never_aborts_from (w : world) cs : winv F w -> hist_valid F VO w cs ->
    never_aborts F VO w cs /\ run_strict F VO w cs = Some (run_all F VO w cs).
  Proof.
    intros Hw Hv. pose proof (history_never_aborts F VO H1 H2 H3 cs _ Hw Hv) as Hn.
    split; [exact Hn|]. apply run_strict_eq. exact Hn.
  Qed.

  Lemma TT_reachable_forward_total (e : env) cs gi (g : gstate) a :
    nth_error (w_graphs (run_all F VO (init_world e) cs)) gi = Some g -> get_slot g a <> None ->
    forall e1 : env, exists v g' e', forward F g e1 a = Some (v, g', e').
  Proof. exact (reachable_forward_total F VO H1 H2 H3 e cs gi g a). Qed.

  Lemma TT_reachable_backward_total (e : env) cs gi (g : gstate) n :
    nth_error (w_graphs (run_all F VO (init_world e) cs)) gi = Some g -> get_slot g n <> None ->
    forall e1 : env, exists g' e', backward F VO g e1 n = Some (g', e').
  Proof. exact (reachable_backward_total F VO H1 H2 H3 e cs gi g n). Qed.

  Lemma TT_backward_total (g : gstate) (e : env) n : ginv F (g_ops g) -> gclean (g_ops g) -> get_slot g n <> None ->
    exists g' e', backward F VO g e n = Some (g', e').
  Proof. exact (backward_total F VO H1 g e n). Qed.

  Lemma TT_backward_none_iff (g : gstate) (e : env) n : ginv F (g_ops g) -> gclean (g_ops g) ->
    (backward F VO g e n = None <-> get_slot g n = None).
  Proof. exact (backward_none_iff F VO H1 g e n). Qed.

  Lemma TT_forward_none_iff (g : gstate) (e : env) a : ginv F (g_ops g) ->
    (forward F g e a = None <-> get_slot g a = None).
  Proof. exact (forward_none_iff F H1 g e a). Qed.

  (* ---------------- C05, strict histories ---------------- *)
  (* value immutability and at-most-once evaluation along a history of valid requests, in the
     STRICT semantics (an Abort would make run_strict None): the history runs to the end and the
     final world has the properties *)
  Lemma TT_value_immutable_strict (w : world) cs gi g a s v : winv F w -> hist_valid F VO w cs ->
    nth_error (w_graphs w) gi = Some g -> get_slot g a = Some s -> s_val s = Some v ->
    exists w' g' s', run_strict F VO w cs = Some w' /\
      nth_error (w_graphs w') gi = Some g' /\ get_slot g' a = Some s' /\ s_val s' = Some v.
  Proof.
    intros Hw Hv Eg Hs Hval. destruct (TT_history_never_aborts_from w cs Hw Hv) as (_ & Hr).
    destruct (T_value_immutable F VO HF w cs gi g a s v Hw Eg Hs Hval) as (g' & s' & A & B & C).
    exists (run_all F VO w cs), g', s'. auto.
  Qed.

  Lemma TT_evaluated_at_most_once_strict (w : world) cs : winv F w -> hist_valid F VO w cs ->
    exists w', run_strict F VO w cs = Some w' /\ winv F w' /\
      forall gi g', nth_error (w_graphs w') gi = Some g' ->
        NoDup (g_log g') /\ (forall k, In k (g_log g') -> evald (g_ops g') k) /\ gclean (g_ops g').
  Proof.
    intros Hw Hv. destruct (TT_history_never_aborts_from w cs Hw Hv) as (_ & Hr).
    exists (run_all F VO w cs). split; [exact Hr|]. split.
    - destruct (run_all_ok F VO H1 H2 H3 cs w Hw) as (H & _). exact H.
    - intros gi g' Eg. exact (T_evaluated_at_most_once F VO HF w cs gi g' Hw Eg).
  Qed.

  (* ---------------- C06 without `= Some` ---------------- *)
  Lemma TT_backward_preserves_values (g : gstate) e n : gok F g -> get_slot g n <> None ->
    exists g' e', backward F VO g e n = Some (g', e') /\ gok F g' /\ gext g g' /\ e_pval e' = e_pval e.
  Proof.
    intros Hg Hs. pose proof Hg as (Hi & Hc & _). destruct (TT_backward_total g e n Hi Hc Hs) as (g' & e' & Hb).
    exists g', e'. split; [exact Hb|]. exact (T_backward_preserves_values F VO HF g e n g' e' Hg Hb).
  Qed.

  Lemma TT_non_ancestor_untouched (g : gstate) e n : ginv F (g_ops g) -> gclean (g_ops g) -> get_slot g n <> None ->
    exists g' e', backward F VO g e n = Some (g', e') /\
      (forall j, In j (g_blog g') -> In j (g_blog g) \/ anc (g_ops g) j (fst n)) /\
      (forall p, (forall j, anc (g_ops g) j (fst n) -> inner_of F (g_ops g) j <> Some p) -> e_pgrad e' p = e_pgrad e p).
  Proof.
    intros Hi Hc Hs. destruct (TT_backward_total g e n Hi Hc Hs) as (g' & e' & Hb).
    exists g', e'. split; [exact Hb|]. exact (T_non_ancestor_untouched F VO HF g e n g' e' Hi Hc Hb).
  Qed.

  Lemma TT_backward_only_adds (g : gstate) e n : ginv F (g_ops g) -> gclean (g_ops g) -> get_slot g n <> None ->
    exists g' e' cs, backward F VO g e n = Some (g', e') /\ forall g0, exists e0',
      backward F VO g (with_pgrad e g0) n = Some (g', e0') /\
      e_pval e0' = e_pval e' /\ e_pos e0' = e_pos e' /\
      forall p, e_pgrad e0' p = fold_left (vadd VO) (cs_for p cs) (g0 p).
  Proof.
    intros Hi Hc Hs. destruct (TT_backward_total g e n Hi Hc Hs) as (g' & e' & Hb).
    destruct (T_backward_only_adds F VO g e n g' e' Hb) as (cs & Hcs). exists g', e', cs. auto.
  Qed.

  Lemma TT_k_calls_add_k_times (g : gstate) e n : gok F g -> get_slot g n <> None ->
    exists g' e' cs, backward F VO g e n = Some (g', e') /\
      (forall p, e_pgrad e' p = fold_left (vadd VO) (cs_for p cs) (e_pgrad e p)) /\
      forall e2, e_pval e2 = e_pval e -> exists g2 e2',
        backward F VO g' e2 n = Some (g2, e2') /\ g_ops g2 = g_ops g' /\ g_log g2 = g_log g' /\
        e_pval e2' = e_pval e2 /\ e_pos e2' = e_pos e2 /\
        forall p, e_pgrad e2' p = fold_left (vadd VO) (cs_for p cs) (e_pgrad e2 p).
  Proof.
    intros Hg Hs. pose proof Hg as (Hi & Hc & _). destruct (TT_backward_total g e n Hi Hc Hs) as (g' & e' & Hb).
    destruct (T_backward_again F VO HF g e n g' e' Hg Hb) as (cs & A & B). exists g', e', cs. auto.
  Qed.

  Lemma TT_blocked_gets_only_zero : ZeroOK F VO -> forall (g : gstate) e n,
    ginv F (g_ops g) -> gclean (g_ops g) -> shape_ok F (g_ops g) -> get_slot g n <> None ->
    exists g' e', backward F VO g e n = Some (g', e') /\
      forall p, (forall j, glive F (g_ops g) (fst n) j -> inner_of F (g_ops g) j <> Some p) ->
        exists zs, e_pgrad e' p = fold_left (vadd VO) zs (e_pgrad e p) /\ Forall (zero_of F VO (g_ops g) p) zs.
  Proof.
    intros HZ g e n Hi Hc Hsh Hs. destruct (TT_backward_total g e n Hi Hc Hs) as (g' & e' & Hb).
    exists g', e'. split; [exact Hb|]. exact (T_blocked_gets_only_zero F VO HF HZ g e n g' e' Hi Hc Hsh Hb).
  Qed.

  (* the same on every reachable world, for the request as the history language issues it:
     the step is Ok (never Abort, never Error), and the new world is the old one with graph gi
     replaced by the result of backward, which satisfies the protocol conclusions *)
  Lemma TT_reachable_backward_step (e : env) cs gi (g : gstate) n :
    let w := run_all F VO (init_world e) cs in
    nth_error (w_graphs w) gi = Some g -> get_slot g n <> None ->
    exists g' e', backward F VO g (w_env w) n = Some (g', e') /\
      run_cmd F VO w (CBackward gi n) = Ok (put_graph w gi g' e') /\
      gok F g' /\ gext g g' /\ e_pval e' = e_pval (w_env w) /\
      (forall j, In j (g_blog g') -> In j (g_blog g) \/ anc (g_ops g) j (fst n)) /\
      (forall p, (forall j, anc (g_ops g) j (fst n) -> inner_of F (g_ops g) j <> Some p) -> e_pgrad e' p = e_pgrad (w_env w) p).
  Proof.
    intros w Eg Hs.
    destruct (run_all_ok F VO H1 H2 H3 cs _ (winv_init F e)) as (Hw & _). fold (init_world e) in Hw. fold w in Hw.
    assert (Hg : gok F g) by (unfold winv in Hw; rewrite Forall_forall in Hw; apply Hw; eapply nth_error_In; eauto).
    destruct (TT_backward_preserves_values g (w_env w) n Hg Hs) as (g' & e' & Hb & A & B & C).
    exists g', e'. split; [exact Hb|]. split; [simpl; rewrite Eg, Hb; reflexivity|]. split; [exact A|]. split; [exact B|]. split; [exact C|].
    destruct Hg as (Hi & Hc & _). exact (T_non_ancestor_untouched F VO HF g (w_env w) n g' e' Hi Hc Hb).
  Qed.

  Lemma TT_reachable_forward_step (e : env) cs gi (g : gstate) a :
    let w := run_all F VO (init_world e) cs in
    nth_error (w_graphs w) gi = Some g -> get_slot g a <> None ->
    exists v g' e', forward F g (w_env w) a = Some (v, g', e') /\
      run_cmd F VO w (CForward gi a) = Ok (put_graph w gi g' e') /\ fexact F g (w_env w) a v g' e'.
  Proof.
    intros w Eg Hs.
    destruct (run_all_ok F VO H1 H2 H3 cs _ (winv_init F e)) as (Hw & _). fold (init_world e) in Hw. fold w in Hw.
    assert (Hg : gok F g) by (unfold winv in Hw; rewrite Forall_forall in Hw; apply Hw; eapply nth_error_In; eauto).
    destruct Hg as (Hi & _). destruct (T_forward_evaluates_exactly F HF g (w_env w) a Hi Hs) as (v & g' & e' & Hf & Hex).
    exists v, g', e'. split; [exact Hf|]. split; [simpl; rewrite Eg, Hf; reflexivity|exact Hex].
  Qed.
End TotalityTheorems.
