(* List / operator-list lemmas and the vocabulary of the graph proofs: ancestors, evaluated /
   unevaluated operators, well-formed tapes. *)
From Coq Require Import List NArith Bool Arith Lia.
From PV Require Import Graph.OpFamily Graph.Tape.
Import ListNotations.

Lemma length_set_nth {A} (l : list A) i x : length (set_nth l i x) = length l.
Proof. revert i; induction l as [|y l IH]; intros [|i]; simpl; auto. Qed.
Lemma nth_error_set_nth_eq {A} (l : list A) i x : i < length l -> nth_error (set_nth l i x) i = Some x.
Proof. revert i; induction l as [|y l IH]; intros [|i] H; simpl in *; try lia; auto. apply IH; lia. Qed.
Lemma nth_error_set_nth_neq {A} (l : list A) i j x : i <> j -> nth_error (set_nth l i x) j = nth_error l j.
Proof. revert i j; induction l as [|y l IH]; intros [|i] [|j] H; simpl; auto; try congruence. Qed.
Lemma set_nth_same {A} (l : list A) i x : nth_error l i = Some x -> set_nth l i x = l.
Proof. revert i; induction l as [|y l IH]; intros [|i] H; simpl in *; try discriminate; [congruence|]. f_equal; auto. Qed.
Lemma set_nth_set_nth {A} (l : list A) i x y : set_nth (set_nth l i x) i y = set_nth l i y.
Proof. revert i; induction l as [|z l IH]; intros [|i]; simpl; auto. f_equal; auto. Qed.
Lemma map_set_nth {A B} (f : A -> B) (l : list A) i x : map f (set_nth l i x) = set_nth (map f l) i (f x).
Proof. revert i; induction l as [|z l IH]; intros [|i]; simpl; auto. f_equal; auto. Qed.
Lemma set_nth_app_l {A} (l r : list A) i x : i < length l -> set_nth (l ++ r) i x = set_nth l i x ++ r.
Proof. revert i; induction l as [|z l IH]; intros [|i] H; simpl in *; try lia; auto. f_equal; apply IH; lia. Qed.
Lemma nth_error_lt {A} (l : list A) i x : nth_error l i = Some x -> i < length l.
Proof. intros H. apply nth_error_Some. congruence. Qed.
Lemma set_nth_ext {A} (l : list A) i x : (forall j, nth_error (set_nth l i x) j = nth_error l j) -> set_nth l i x = l.
Proof.
  intros H. destruct (nth_error l i) as [y|] eqn:E.
  - pose proof (H i) as Hi. rewrite nth_error_set_nth_eq in Hi by (eapply nth_error_lt; eauto).
    apply set_nth_same. congruence.
  - apply nth_error_None in E. clear H. revert i E. induction l as [|z l IH]; intros [|i] E; simpl in *; auto; try lia.
    f_equal. apply IH. lia.
Qed.
Lemma list_ext {A} (l l' : list A) : (forall j, nth_error l j = nth_error l' j) -> l = l'.
Proof.
  revert l'; induction l as [|x l IH]; intros [|y l'] H; auto.
  - specialize (H 0); discriminate.
  - specialize (H 0); discriminate.
  - f_equal. { specialize (H 0). simpl in H. congruence. } apply IH. intro j. apply (H (S j)).
Qed.
Lemma nodup_app {A} (l1 l2 : list A) : NoDup l1 -> NoDup l2 -> (forall x, In x l1 -> ~ In x l2) -> NoDup (l1 ++ l2).
Proof.
  induction l1 as [|a l1 IH]; intros H1 H2 Hd; simpl; auto.
  inversion H1 as [|a' l' Hna Hn1]; subst. constructor.
  - intro Hin. apply in_app_or in Hin. destruct Hin as [Hin|Hin]; [contradiction|]. apply (Hd a); [left; reflexivity|exact Hin].
  - apply IH; auto. intros x Hx. apply Hd. right; exact Hx.
Qed.

Lemma Forall2_impl {A B} (P Q : A -> B -> Prop) l l' : (forall a b, P a b -> Q a b) -> Forall2 P l l' -> Forall2 Q l l'.
Proof. intros H H2. induction H2; constructor; auto. Qed.

Lemma Forall2_impl_In {A B} (P Q : A -> B -> Prop) l l' :
  (forall a b, In a l -> P a b -> Q a b) -> Forall2 P l l' -> Forall2 Q l l'.
Proof. intros H H2. induction H2; constructor; [apply H; [left; reflexivity|assumption]|]. apply IHForall2. intros; apply H; [right|]; assumption. Qed.
Lemma Forall2_length' {A B} (P : A -> B -> Prop) l l' : Forall2 P l l' -> length l = length l'.
Proof. induction 1; simpl; auto. Qed.

Lemma Forall2_in_l {A B} (P : A -> B -> Prop) l l' : Forall2 P l l' -> forall a, In a l -> exists b, In b l' /\ P a b.
Proof. induction 1; intros a0 []; subst; [eexists; split; [left; reflexivity|assumption]|]. destruct (IHForall2 a0) as (b & ? & ?); auto. exists b; split; [right|]; assumption. Qed.

Lemma Forall2_fun {A B} (f : A -> option B) l xs ys :
  Forall2 (fun a x => f a = Some x) l xs -> Forall2 (fun a y => f a = Some y) l ys -> xs = ys.
Proof.
  intros H1. revert ys. induction H1 as [|a x l xs Hx _ IH]; intros ys H2; inversion H2; subst; auto.
  f_equal; [congruence|auto].
Qed.

Section TapeLemmas.
  Context {Op Sh V : Type}.
  Variable F : OpFamily Op Sh V.
  Notation opinfo := (@opinfo Op Sh V).
  Notation slot := (@slot Sh V).
  Notation ops_t := (list opinfo).

  Definition has_val (s : slot) : bool := match s_val s with Some _ => true | None => false end.
  Definition op_done (oi : opinfo) : bool := forallb has_val (o_rets oi).
  Definition op_none (oi : opinfo) : bool := forallb (fun s => negb (has_val s)) (o_rets oi).

  Definition args_of (ops : ops_t) (k : nat) : list (nat * nat) :=
    match nth_error ops k with Some oi => o_args oi | None => [] end.
  Definition inner_of (ops : ops_t) (k : nat) : option nat :=
    match nth_error ops k with Some oi => f_inner F (o_op oi) | None => None end.
  (* anc ops j k: operator j is k or an (argument-)ancestor of k *)
  Inductive anc (ops : ops_t) : nat -> nat -> Prop :=
  | anc_refl k : anc ops k k
  | anc_step j a k : In a (args_of ops k) -> anc ops j (fst a) -> anc ops j k.

  (* evaluated / not evaluated (operators with at least one return value) *)
  Definition evald (ops : ops_t) (k : nat) : Prop :=
    exists oi, nth_error ops k = Some oi /\ o_rets oi <> [] /\ op_done oi = true.
  Definition unev (ops : ops_t) (k : nat) : Prop :=
    exists oi, nth_error ops k = Some oi /\ o_rets oi <> [] /\ op_none oi = true.

  Lemma evald_unev ops k : evald ops k -> unev ops k -> False.
  Proof.
    intros (oi & E & Hn & Hd) (oi' & E' & _ & Hu). rewrite E in E'. injection E' as <-.
    unfold op_done, op_none in *. destruct (o_rets oi) as [|s r]; [congruence|]. simpl in *.
    destruct (has_val s); simpl in *; discriminate.
  Qed.

  (* the skeleton that no evaluation ever changes: everything but the value slots *)
  Definition strip_vals (oi : opinfo) : opinfo := set_rets oi (map (fun s => set_val s None) (o_rets oi)).
  Definition sv (ops : ops_t) : ops_t := map strip_vals ops.
  (* everything but the gradient slots *)
  Definition strip_grads (oi : opinfo) : opinfo := set_rets oi (map (fun s => set_grad s None) (o_rets oi)).
  Definition sg (ops : ops_t) : ops_t := map strip_grads ops.

  Lemma sv_nth ops ops' k : sv ops = sv ops' ->
    match nth_error ops k, nth_error ops' k with
    | Some a, Some b => o_op a = o_op b /\ o_args a = o_args b /\ length (o_rets a) = length (o_rets b) /\
                        map (fun s => set_val s None) (o_rets a) = map (fun s => set_val s None) (o_rets b)
    | None, None => True
    | _, _ => False
    end.
  Proof.
    intros H. assert (E : nth_error (sv ops) k = nth_error (sv ops') k) by (rewrite H; reflexivity).
    unfold sv in E. rewrite !nth_error_map in E.
    destruct (nth_error ops k) as [a|], (nth_error ops' k) as [b|]; simpl in E; try discriminate; auto.
    injection E as E1 E2 E3. repeat split; auto.
    apply (f_equal (@length _)) in E3. rewrite !map_length in E3. exact E3.
  Qed.
  Lemma sv_args ops ops' : sv ops = sv ops' -> forall k, args_of ops k = args_of ops' k.
  Proof.
    intros H k. pose proof (sv_nth ops ops' k H) as Hk. unfold args_of.
    destruct (nth_error ops k), (nth_error ops' k); try contradiction; auto. tauto.
  Qed.
  Lemma sv_inner ops ops' : sv ops = sv ops' -> forall k, inner_of ops k = inner_of ops' k.
  Proof.
    intros H k. pose proof (sv_nth ops ops' k H) as Hk. unfold inner_of.
    destruct (nth_error ops k), (nth_error ops' k); try contradiction; auto. destruct Hk as (E & _). rewrite E. reflexivity.
  Qed.
  Lemma sv_anc ops ops' : sv ops = sv ops' -> forall j k, anc ops j k -> anc ops' j k.
  Proof.
    intros H j k Ha. induction Ha as [k|j a k Hin _ IH]; [constructor|].
    eapply anc_step; eauto. rewrite <- (sv_args _ _ H). exact Hin.
  Qed.
  Lemma sv_length ops ops' : sv ops = sv ops' -> length ops = length ops'.
  Proof. intros H. apply (f_equal (@length _)) in H. unfold sv in H. rewrite !map_length in H. exact H. Qed.

  (* well-formed tape: arguments refer to existing return values of EARLIER operators *)
  Definition wf_ops (ops : ops_t) : Prop :=
    forall k oi, nth_error ops k = Some oi ->
      Forall (fun a => fst a < k /\ exists oa, nth_error ops (fst a) = Some oa /\ snd a < length (o_rets oa)) (o_args oi).

  Lemma anc_le ops : wf_ops ops -> forall j k, anc ops j k -> j <= k.
  Proof.
    intros Hwf j k Ha. induction Ha as [k|j a k Hin _ IH]; [lia|].
    unfold args_of in Hin. destruct (nth_error ops k) as [oi|] eqn:E; [|contradiction].
    pose proof (Hwf k oi E) as Hf. rewrite Forall_forall in Hf. destruct (Hf a Hin) as (Hlt & _). lia.
  Qed.
  Lemma anc_trans ops i j k : anc ops i j -> anc ops j k -> anc ops i k.
  Proof. intros H1 H2. induction H2 as [k|j a k Hin _ IH]; auto. eapply anc_step; eauto. Qed.

  Lemma sv_wf ops ops' : sv ops = sv ops' -> wf_ops ops -> wf_ops ops'.
  Proof.
    intros H Hwf k oi E. pose proof (sv_nth ops ops' k H) as Hk. rewrite E in Hk.
    destruct (nth_error ops k) as [oi0|] eqn:E0; [|contradiction]. destruct Hk as (_ & Ea & _).
    rewrite <- Ea. eapply Forall_impl; [|exact (Hwf k oi0 E0)]. cbv beta. intros a (Hlt & oa & Eoa & Hv).
    split; auto. pose proof (sv_nth ops ops' (fst a) H) as Hk'. rewrite Eoa in Hk'.
    destruct (nth_error ops' (fst a)) as [ob|]; [|contradiction]. exists ob. split; auto. destruct Hk' as (_ & _ & El & _). lia.
  Qed.

  (* upd_ops facts *)
  Lemma upd_ops_length (ops : ops_t) a f : length (upd_ops ops a f) = length ops.
  Proof. unfold upd_ops. destruct (nth_error ops (fst a)) as [oi|]; auto. destruct (nth_error (o_rets oi) (snd a)); auto. apply length_set_nth. Qed.
  Lemma upd_ops_other (ops : ops_t) a f k : k <> fst a -> nth_error (upd_ops ops a f) k = nth_error ops k.
  Proof. intros H. unfold upd_ops. destruct (nth_error ops (fst a)) as [oi|]; auto. destruct (nth_error (o_rets oi) (snd a)); auto. apply nth_error_set_nth_neq. auto. Qed.
  Lemma upd_ops_at (ops : ops_t) a f oi s : nth_error ops (fst a) = Some oi -> nth_error (o_rets oi) (snd a) = Some s ->
    nth_error (upd_ops ops a f) (fst a) = Some (set_rets oi (set_nth (o_rets oi) (snd a) (f s))).
  Proof. intros E1 E2. unfold upd_ops. rewrite E1, E2. apply nth_error_set_nth_eq. eapply nth_error_lt; eauto. Qed.
  Lemma upd_ops_get (ops : ops_t) a f b : get_slot_ops (upd_ops ops a f) b =
    if (Nat.eqb (fst a) (fst b) && Nat.eqb (snd a) (snd b))%bool then option_map f (get_slot_ops ops b) else get_slot_ops ops b.
  Proof.
    unfold get_slot_ops. destruct (Nat.eqb_spec (fst a) (fst b)) as [E|N]; simpl.
    - rewrite <- E. unfold upd_ops. destruct (nth_error ops (fst a)) as [oi|] eqn:E1.
      + destruct (nth_error (o_rets oi) (snd a)) as [s|] eqn:E2.
        * rewrite nth_error_set_nth_eq by (eapply nth_error_lt; eauto). cbn [o_rets set_rets].
          destruct (Nat.eqb_spec (snd a) (snd b)) as [E'|N'].
          -- rewrite <- E', nth_error_set_nth_eq by (eapply nth_error_lt; eauto). rewrite E2. reflexivity.
          -- rewrite nth_error_set_nth_neq by auto. reflexivity.
        * rewrite E1. destruct (Nat.eqb_spec (snd a) (snd b)) as [E'|N']; auto. rewrite <- E', E2. reflexivity.
      + rewrite E1. destruct (Nat.eqb (snd a) (snd b)); reflexivity.
    - rewrite upd_ops_other by auto. reflexivity.
  Qed.
End TapeLemmas.
