(* C19 -- the theorems about the interpreted REVIEWED program (Sem.v / RaceSem.v), obtained from
   the invariants of the program-point machines through the simulations of AbsRSpin.v/AbsSpin.v.
   Every statement quantifies over the client programs (any number of threads, arbitrary
   operation lists) and over every reachable state (any schedule, any length). *)
From Coq Require Import List NArith Bool Arith Lia.
From PV Require Import Spin.Lang Spin.Reviewed Spin.Sem Spin.RaceSem
  Spin.AbsRSpin Spin.RSpinInv Spin.RSpinRace Spin.AbsSpin.
Import ListNotations.
Local Open Scope N_scope.

Arguments owner_is : simpl never.
Arguments inc_count : simpl never.
Arguments dec_count : simpl never.

Definition rp := reviewed_prog.
Definition tat (m : mstate) (t : nat) : option tstate := nth_error (thr (fst m)) t.
Definition shm (m : mstate) : shared := sh (fst m).
Definition sane (m : mstate) : Prop := ovf (shm m) = false.   (* nobody ever nested 2^32 acquisitions *)

(* ====================================================================== RecursiveSpinlock *)

Lemma tat_conc A h t x : tat (conc A, h) t = Some x -> exists a, th A t = Some a /\ x = conc_th a.
Proof.
  unfold tat, th, conc; cbn [fst thr]. rewrite nth_error_map.
  destruct (nth_error (athr A) t) as [a|]; cbn; [|discriminate]. intros H; injection H as <-. eauto.
Qed.

(* a reachable state with one more step, seen on the machine *)
Lemma rstep_abs cl m t m' :
  reach rp KRSpin cl m -> mstep rp KRSpin t m = Some m' ->
  exists A A' ev, m = (conc A, snd m) /\ m' = (conc A', hb_step (snd m) t ev) /\
                  areach cl (A, snd m) /\ astep t A = Some (A', ev).
Proof.
  intros Hr Hs. destruct (reach_abs _ _ Hr) as (A & HA & HR). destruct m as [s h]; cbn [fst snd] in *. subst s.
  unfold rp in Hs. rewrite mstep_conc in Hs. unfold amstep in Hs; cbn [fst snd] in Hs.
  destruct (astep t A) as [[A' ev]|] eqn:E; [|discriminate]. injection Hs as <-.
  exists A, A', ev. auto.
Qed.

Lemma ovf_step_back cl m t m' :
  reach rp KRSpin cl m -> mstep rp KRSpin t m = Some m' -> sane m' -> sane m.
Proof.
  intros Hr Hs Hsane. destruct (rstep_abs _ _ _ _ Hr Hs) as (A & A' & ev & -> & -> & _ & Ha).
  unfold sane, shm in *; cbn [fst conc sh] in *. eapply ovf_mono; eauto.
Qed.

(* ---- mutual exclusion *)
Theorem rspin_mutex cl m t u x y :
  reach rp KRSpin cl m -> sane m ->
  tat m t = Some x -> tat m u = Some y -> 0 < depth x -> 0 < depth y -> t = u.
Proof.
  intros Hr Hsane Hx Hy Hdx Hdy. destruct (reach_abs _ _ Hr) as (A & HA & HR).
  destruct m as [s h]; cbn [fst snd] in *; subst s.
  pose proof (minv_reach _ _ _ HR Hsane) as HI.
  destruct (tat_conc _ _ _ _ Hx) as (a & Ha & ->). destruct (tat_conc _ _ _ _ Hy) as (b & Hb & ->).
  cbn [conc_th depth] in *.
  destruct (busy_is_winner A t a HI Ha) as [_ Hwt]; [right; lia|].
  destruct (busy_is_winner A u b HI Hb) as [_ Hwu]; [right; lia|].
  eapply winner_unique; eauto.
Qed.

(* ---- [fresh] is set exactly when a client operation has been started and not yet touched memory *)
Definition at_start (p : apc) : Prop :=
  match p with PDone | PAcc | PT0 _ | PU0 => True | _ => False end.
Definition finv (A : astate) : Prop := forall t a, th A t = Some a -> afresh a = true -> at_start (pc a).

Lemma astart_at_start d o r : at_start (pc (astart d o r)).
Proof. destruct r as [|[] r]; exact I. Qed.
Lemma fin_at_start a op v : at_start (pc (fin a op v)).
Proof. unfold fin. destruct (complete op v (adepth a) (aout a)). apply astart_at_start. Qed.

Lemma atstep_fresh t s a s' a' ev :
  atstep t s a = Some (s', a', ev) -> afresh a' = true -> at_start (pc a').
Proof.
  unfold atstep. destruct (pc a) as [| |c|c|c|c|c n| | |n| |]; intros H; try discriminate H;
    injection H as <- <- <-; intros Hf;
    repeat match goal with
           | |- context [if ?b then _ else _] => destruct b
           | |- context [match ?c with Direct => _ | InLock => _ end] => destruct c
           end; try apply fin_at_start; try (cbn in Hf; discriminate).
Qed.

Lemma finv_reach cl A h : areach cl (A, h) -> finv A.
Proof.
  intros H. remember (A, h) as m eqn:E. revert A h E.
  induction H as [|m m' t _ IH Hs]; intros A h E.
  - injection E as <- <-. intros t a Ha _. unfold th, ainit in Ha; cbn in Ha.
    apply nth_error_In, in_map_iff in Ha. destruct Ha as (ops & <- & _). apply astart_at_start.
  - subst m'. destruct m as [A0 h0]. unfold amstep in Hs; cbn [fst snd] in Hs.
    destruct (astep t A0) as [[A1 ev]|] eqn:Es; [|discriminate]. injection Hs as <- <-.
    specialize (IH A0 h0 eq_refl). unfold astep in Es. fold (th A0 t) in Es.
    destruct (th A0 t) as [a|] eqn:Ht; [|discriminate].
    destruct (atstep t (ash A0) a) as [[[s' a'] ev']|] eqn:Ea; [|discriminate].
    injection Es as <- <-. intros u b Hb Hf. destruct (Nat.eq_dec t u) as [->|Hne].
    + rewrite (th_upd_same _ _ _ _ _ Ht) in Hb. injection Hb as <-. eapply atstep_fresh; eauto.
    + rewrite th_upd_other in Hb by auto. eapply IH; eauto.
Qed.

(* ---- re-entrancy: the lock state as a function of the holder's nesting depth *)
Theorem rspin_reentrant_state cl m t x :
  reach rp KRSpin cl m -> sane m -> tat m t = Some x ->
  (0 < depth x -> flag (shm m) = true) /\
  (0 < depth x -> fresh x = true -> owner (shm m) = Some t /\ count (shm m) = depth x) /\
  (flag (shm m) = false -> depth x = 0 /\ owner (shm m) = None /\ count (shm m) = 0).
Proof.
  intros Hr Hsane Hx. destruct (reach_abs _ _ Hr) as (A & HA & HR).
  destruct m as [s h]; cbn [fst snd] in *; subst s.
  pose proof (minv_reach _ _ _ HR Hsane) as HI. pose proof (finv_reach _ _ _ HR) as HF.
  destruct (tat_conc _ _ _ _ Hx) as (a & Ha & ->). unfold shm; cbn [fst conc sh conc_th depth fresh].
  split; [|split].
  - intros Hd. apply (busy_is_winner A t a HI Ha). right; lia.
  - intros Hd Hf. destruct (busy_is_winner A t a HI Ha) as [_ (a0 & Ha0 & Hw & _)]; [right; lia|].
    rewrite Ha in Ha0. injection Ha0 as <-. specialize (HF t a Ha Hf). unfold winner_ok in Hw.
    destruct (pc a); try contradiction; tauto.
  - intros Ef. destruct HI as [_ HI]. rewrite Ef in HI. destruct HI as (Ho & Hc & Hall).
    destruct (Hall t a) as [_ Hd]; [discriminate|auto|]. auto.
Qed.

(* ---- one step of thread t, on the machine: case analysis on t's program point *)
Ltac step_cases Hs A t a Ht Ep :=
  let s' := fresh "s'" in let a' := fresh "a'" in let ev' := fresh "ev'" in let Ea := fresh "Ea" in
  unfold astep in Hs; fold (th A t) in Hs; rewrite Ht in Hs;
  destruct (atstep t (ash A) a) as [[[s' a'] ev']|] eqn:Ea; [|discriminate Hs];
  injection Hs as <- <-; unfold atstep in Ea;
  destruct (pc a) as [| |?c|?c|?c|?c|?c ?n| | |?n| |] eqn:Ep; try discriminate Ea; injection Ea as <- <- <-.

Lemma new_th A t a s' a2 x : th A t = Some a ->
  th {| ash := s'; athr := upd_nth (athr A) t a2 |} t = Some x -> x = a2.
Proof. intros Ht Hx. rewrite (th_upd_same _ _ _ _ _ Ht) in Hx. congruence. Qed.

Lemma set_flag_same s b : flag s = b -> set_flag s b = s.
Proof. intros <-. destruct s; reflexivity. Qed.

(* the nesting depth goes down only by the holder's unlock(), by one, and the flag is
   released exactly by the unlock that brings it to zero *)
Lemma a_release t A A' ev a a' :
  minv A -> ovf (ash A) = false -> astep t A = Some (A', ev) -> th A t = Some a -> th A' t = Some a' ->
  (adepth a' < adepth a ->
     cur_of (pc a) = Some CUnlock /\ adepth a' + 1 = adepth a /\ (adepth a' = 0 <-> flag (ash A') = false)) /\
  (flag (ash A) = true -> flag (ash A') = false -> adepth a = 1 /\ adepth a' = 0 /\ cur_of (pc a) = Some CUnlock).
Proof.
  intros HI Hov Hs Ht Ha'.
  step_cases Hs A t a Ht Ep;
    apply (new_th _ _ _ _ _ _ Ht) in Ha'; subst a';
    cbn [ash flag set_flag set_owner goto adepth cur_of];
    rewrite ?fin_depth; cbn [complete fst].
  - (* PAcc *) split; [lia|]. congruence.
  - (* PT0 *) split; [lia|]. discriminate.
  - (* PT1 *) split; [|congruence]. destruct (owner_is (ash A) t Self); [cbn; lia|].
    destruct c; rewrite ?fin_depth; cbn; lia.
  - split; [lia|]. congruence.
  - split; [lia|]. congruence.
  - (* PT4 *) split; [destruct c; cbn; lia|]. unfold inc_count; cbn. congruence.
  - (* PU0 *) destruct (owner_is (ash A) t Self) eqn:Eo.
    + split; [cbn; lia|]. congruence.
    + rewrite ?fin_depth; cbn [complete fst]. split; [|congruence]. intros Hlt.
      (* not the owner, so not a holder: depth 0 *)
      destruct (N.eq_dec (adepth a) 0) as [E0|E0]; [rewrite E0 in Hlt; cbn in Hlt; lia|].
      destruct (busy_is_winner A t a HI Ht) as [_ (a1 & Ha1 & Hw & _)]; [right; auto|].
      rewrite Ht in Ha1. injection Ha1 as <-. unfold winner_ok in Hw. rewrite Ep in Hw.
      rewrite (owner_is_self (ash A) t) in Eo by tauto. discriminate.
  - split; [lia|]. congruence.
  - (* PU2 *)
    destruct (busy_is_winner A t a HI Ht) as [Ef (a1 & Ha1 & Hw & _)]; [left; rewrite Ep; cbn; tauto|].
    rewrite Ht in Ha1. injection Ha1 as <-. unfold winner_ok in Hw. rewrite Ep in Hw.
    destruct Hw as (Ho & Hc & Hn & H1 & Hlt). subst n.
    destruct (dec_count_spec (ash A) _ H1 Hlt) as (Dc & Do & Df & Du & Dv).
    change ((count (ash A) + 4294967295) mod P32) with (count (dec_count (ash A) (count (ash A)))).
    rewrite Dc, Df, Ef. destruct (count (ash A) - 1 =? 0) eqn:Ez.
    + cbn [goto adepth]. split; [lia|]. discriminate.
    + apply N.eqb_neq in Ez. rewrite ?fin_depth; cbn [complete fst]. split; [|discriminate].
      intros _. split; [reflexivity|]. split; [lia|]. split; [lia|discriminate].
  - split; [lia|]. cbn. congruence.
  - (* PU4 *)
    destruct (busy_is_winner A t a HI Ht) as [Ef (a1 & Ha1 & Hw & _)]; [left; rewrite Ep; cbn; tauto|].
    rewrite Ht in Ha1. injection Ha1 as <-. unfold winner_ok in Hw. rewrite Ep in Hw.
    destruct Hw as (Ho & Hc & Hd). rewrite Hd. cbn. split; [|auto].
    intros _. split; [reflexivity|]. split; [reflexivity|]. split; auto.
Qed.

(* a thread that holds the lock facts *)
Lemma holder_facts A t a :
  minv A -> th A t = Some a -> adepth a <> 0 ->
  flag (ash A) = true /\ winner_ok (ash A) t a /\ others_out A (Some t).
Proof.
  intros HI Ht Hd. destruct (busy_is_winner A t a HI Ht) as [Ef (a1 & Ha1 & Hw & Ho)]; [right; auto|].
  rewrite Ht in Ha1. injection Ha1 as <-. auto.
Qed.

(* a thread with depth 0 while another thread holds: it is outside and not the owner *)
Lemma nonholder_facts A t a u b :
  minv A -> th A t = Some a -> th A u = Some b -> u <> t -> adepth b <> 0 ->
  flag (ash A) = true /\ outside (pc a) /\ adepth a = 0 /\ owner_is (ash A) t Self = false.
Proof.
  intros HI Ht Hu Hne Hd. destruct (holder_facts A u b HI Hu Hd) as (Ef & Hw & Ho).
  destruct (Ho t a) as [Hout Hd0]; [congruence|auto|]. split; [auto|]. split; [auto|]. split; [auto|].
  unfold winner_ok in Hw. destruct (pc b);
    first [ apply (owner_is_other _ u); [tauto|auto] | apply owner_is_none; tauto ].
Qed.

(* a thread with depth 0 is never the owner *)
Lemma depth0_not_owner A t a : minv A -> th A t = Some a -> adepth a = 0 -> outside (pc a) ->
  owner_is (ash A) t Self = false.
Proof.
  intros [_ HI] Ht Hd Hout. destruct (flag (ash A)).
  - destruct HI as (w & aw & Hw & Hwin & Ho). destruct (Nat.eq_dec t w) as [->|Hne].
    + rewrite Ht in Hw. injection Hw as <-. exfalso. eapply winner_not_idle; eauto.
    + unfold winner_ok in Hwin. destruct (pc aw);
        first [ apply (owner_is_other _ w); [tauto|auto] | apply owner_is_none; tauto ].
  - apply owner_is_none. tauto.
Qed.

(* try_lock() by the holder never fails *)
Lemma a_reacquire t A A' ev a a' :
  minv A -> astep t A = Some (A', ev) -> th A t = Some a -> th A' t = Some a' ->
  adepth a <> 0 -> cur_of (pc a) = Some CTry ->
  aout a' = aout a \/ (aout a' = true :: aout a /\ adepth a' = adepth a + 1).
Proof.
  intros HI Hs Ht Ha' Hd Hc. destruct (holder_facts A t a HI Ht Hd) as (Ef & Hw & _).
  step_cases Hs A t a Ht Ep; apply (new_th _ _ _ _ _ _ Ht) in Ha'; subst a';
    unfold winner_ok in Hw; rewrite Ep in Hw; cbn [cur_of] in Hc; try discriminate Hc.
  - left. destruct (flag (ash A)); reflexivity.
  - rewrite (owner_is_self (ash A) t) by tauto. left. reflexivity.
  - left. reflexivity.
  - left. reflexivity.
  - destruct c; try discriminate Hc. right. unfold fin, op_of. cbn [complete].
    split; [destruct (arest a) as [|[] r]; reflexivity | apply astart_depth].
Qed.

(* unlock() by a thread that does not hold the lock: one step, no effect *)
Lemma a_nonowner_unlock t A A' ev a a' :
  minv A -> astep t A = Some (A', ev) -> th A t = Some a -> th A' t = Some a' ->
  adepth a = 0 -> cur_of (pc a) = Some CUnlock ->
  ash A' = ash A /\ adepth a' = 0 /\ afresh a' = true /\ aout a' = aout a.
Proof.
  intros HI Hs Ht Ha' Hd Hc.
  assert (Hout : outside (pc a)).
  { destruct HI as [_ HI]. destruct (flag (ash A)).
    - destruct HI as (w & aw & Hw & Hwin & Ho). destruct (Nat.eq_dec t w) as [->|Hne].
      + rewrite Ht in Hw. injection Hw as <-. unfold winner_ok in Hwin.
        revert Hwin Hc. destruct (pc a) as [| |[]|[]|[]|[]|[]| | | | |]; cbn; intros Hwin Hc;
          try discriminate Hc; try exact I; exfalso; lia.
      + apply (Ho t a); [congruence|auto].
    - destruct HI as (_ & _ & Ho). apply (Ho t a); [discriminate|auto]. }
  pose proof (depth0_not_owner A t a HI Ht Hd Hout) as Hno.
  step_cases Hs A t a Ht Ep; apply (new_th _ _ _ _ _ _ Ht) in Ha'; subst a';
    cbn [cur_of] in Hc; try (destruct c; discriminate Hc); try discriminate Hc; try contradiction.
  rewrite Hno. cbn [ash]. split; [reflexivity|]. rewrite fin_depth, Hd.
  unfold fin. cbn [complete fst N.pred]. rewrite Hd.
  destruct (arest a) as [|[] r]; cbn; auto.
Qed.

(* lock()/try_lock() while ANOTHER thread holds the lock: no effect on the lock, and try_lock returns false *)
Lemma a_acquire_fails t A A' ev a a' u b :
  minv A -> astep t A = Some (A', ev) -> th A t = Some a -> th A' t = Some a' ->
  th A u = Some b -> u <> t -> adepth b <> 0 ->
  (cur_of (pc a) = Some CTry \/ cur_of (pc a) = Some CLock) ->
  ash A' = ash A /\ adepth a' = 0 /\
  (cur_of (pc a) = Some CTry -> (afresh a' = false /\ aout a' = aout a /\ cur_of (pc a') = Some CTry) \/
                                 aout a' = false :: aout a) /\
  (cur_of (pc a) = Some CLock -> afresh a' = false /\ cur_of (pc a') = Some CLock).
Proof.
  intros HI Hs Ht Ha' Hu Hne Hdb Hc.
  destruct (nonholder_facts A t a u b HI Ht Hu Hne Hdb) as (Ef & Hout & Hd & Hno).
  step_cases Hs A t a Ht Ep; apply (new_th _ _ _ _ _ _ Ht) in Ha'; subst a';
    cbn [cur_of] in Hc; try contradiction; try (destruct Hc as [Hc|Hc]; discriminate Hc).
  - (* PT0 *) rewrite Ef. cbn [ash goto adepth afresh aout pc cur_of].
    split; [apply set_flag_same; auto|]. split; [auto|].
    split; intros Hc'; [left|]; destruct c; try discriminate Hc'; auto.
  - (* PT1 *) rewrite Hno. cbn [ash]. split; [reflexivity|].
    destruct c; cbn [cur_of].
    + rewrite fin_depth. cbn [complete fst]. split; [auto|]. split; [|discriminate].
      intros _. right. unfold fin. cbn [complete]. destruct (arest a) as [|[] r]; reflexivity.
    + cbn [goto adepth afresh pc cur_of]. split; [auto|]. split; [discriminate|auto].
Qed.

(* lock_count_ overflows only at nesting depth 2^32 - 1 *)
Lemma a_overflow t A A' ev a :
  minv A -> astep t A = Some (A', ev) -> th A t = Some a ->
  ovf (ash A) = false -> ovf (ash A') = true -> adepth a = P32 - 1.
Proof.
  intros HI Hs Ht Hov Hov'.
  step_cases Hs A t a Ht Ep; cbn [ash ovf set_flag set_owner] in Hov'; try congruence.
  - (* PT4 *)
    destruct (busy_is_winner A t a HI Ht) as [Ef (a1 & Ha1 & Hw & _)]; [left; rewrite Ep; cbn; tauto|].
    rewrite Ht in Ha1. injection Ha1 as <-. unfold winner_ok in Hw. rewrite Ep in Hw.
    destruct Hw as (Ho & Hc & Hn & Hlt). unfold inc_count in Hov'; cbn [ovf] in Hov'.
    rewrite Hov in Hov'. cbn [orb] in Hov'. apply N.eqb_eq in Hov'. lia.
  - unfold dec_count in Hov'; cbn [ovf] in Hov'. congruence.
Qed.

(* ---- the same facts about the interpreted program *)
Lemma tat_th A h u : tat (conc A, h) u = option_map conc_th (th A u).
Proof. unfold tat, th, conc; cbn [fst thr]. apply nth_error_map. Qed.

Lemma rstep_abs' cl s h t m' :
  reach rp KRSpin cl (s, h) -> mstep rp KRSpin t (s, h) = Some m' ->
  exists A A' ev, s = conc A /\ m' = (conc A', hb_step h t ev) /\ areach cl (A, h) /\
                  astep t A = Some (A', ev).
Proof.
  intros Hr Hs. destruct (rstep_abs _ _ _ _ Hr Hs) as (A & A' & ev & E & -> & HR & Ha).
  cbn [snd] in *. injection E as ->. exists A, A', ev. auto.
Qed.

Ltac to_machine Hr Hs Hx Hx' A A' ev HR Ha a a' Hta Hta' :=
  let s := fresh "s" in let h := fresh "h" in
  match type of Hr with reach _ _ _ ?m => destruct m as [s h] end;
  destruct (rstep_abs' _ _ _ _ _ Hr Hs) as (A & A' & ev & -> & -> & HR & Ha);
  destruct (tat_conc _ _ _ _ Hx) as (a & Hta & ->);
  destruct (tat_conc _ _ _ _ Hx') as (a' & Hta' & ->);
  unfold sane, shm in *; cbn [fst snd conc sh conc_th depth cur fresh out] in *.

Theorem rspin_release_exact cl m t m' x x' :
  reach rp KRSpin cl m -> mstep rp KRSpin t m = Some m' -> sane m ->
  tat m t = Some x -> tat m' t = Some x' ->
  (depth x' < depth x ->
     cur x = Some CUnlock /\ depth x' + 1 = depth x /\ (depth x' = 0 <-> flag (shm m') = false)) /\
  (flag (shm m) = true -> flag (shm m') = false -> depth x = 1 /\ depth x' = 0 /\ cur x = Some CUnlock).
Proof.
  intros Hr Hs Hsane Hx Hx'. to_machine Hr Hs Hx Hx' A A' ev HR Ha a a' Hta Hta'.
  eapply a_release; eauto. eapply minv_reach; eauto.
Qed.

Theorem rspin_owner_reacquires cl m t m' x x' :
  reach rp KRSpin cl m -> mstep rp KRSpin t m = Some m' -> sane m ->
  tat m t = Some x -> tat m' t = Some x' -> 0 < depth x -> cur x = Some CTry ->
  out x' = out x \/ (out x' = true :: out x /\ depth x' = depth x + 1).
Proof.
  intros Hr Hs Hsane Hx Hx' Hd Hc. to_machine Hr Hs Hx Hx' A A' ev HR Ha a a' Hta Hta'.
  eapply a_reacquire; eauto; [eapply minv_reach; eauto | lia].
Qed.

Lemma others_same A A' ev t h h' : astep t A = Some (A', ev) ->
  forall u, u <> t -> tat (conc A', h') u = tat (conc A, h) u.
Proof. intros Ha u Hu. rewrite !tat_th. erewrite astep_other; eauto. Qed.

Theorem rspin_nonowner_unlock_noop cl m t m' x x' :
  reach rp KRSpin cl m -> mstep rp KRSpin t m = Some m' -> sane m ->
  tat m t = Some x -> tat m' t = Some x' -> depth x = 0 -> cur x = Some CUnlock ->
  shm m' = shm m /\ depth x' = 0 /\ fresh x' = true /\ out x' = out x /\
  (forall u, u <> t -> tat m' u = tat m u).
Proof.
  intros Hr Hs Hsane Hx Hx' Hd Hc. to_machine Hr Hs Hx Hx' A A' ev HR Ha a a' Hta Hta'.
  destruct (a_nonowner_unlock t A A' ev a a') as (E1 & E2 & E3 & E4); auto; [eapply minv_reach; eauto|].
  repeat (split; [assumption|]). eapply others_same; eauto.
Qed.

Theorem rspin_acquire_fails_no_effect cl m t m' x x' u y :
  reach rp KRSpin cl m -> mstep rp KRSpin t m = Some m' -> sane m ->
  tat m t = Some x -> tat m' t = Some x' ->
  tat m u = Some y -> u <> t -> 0 < depth y ->
  (cur x = Some CTry \/ cur x = Some CLock) ->
  shm m' = shm m /\ depth x' = 0 /\ (forall v, v <> t -> tat m' v = tat m v) /\
  (cur x = Some CTry -> (fresh x' = false /\ out x' = out x /\ cur x' = Some CTry) \/ out x' = false :: out x) /\
  (cur x = Some CLock -> fresh x' = false /\ cur x' = Some CLock).
Proof.
  intros Hr Hs Hsane Hx Hx' Hy Hne Hd Hc. to_machine Hr Hs Hx Hx' A A' ev HR Ha a a' Hta Hta'.
  destruct (tat_conc _ _ _ _ Hy) as (b & Htb & ->). cbn [conc_th depth] in Hd.
  destruct (a_acquire_fails t A A' ev a a' u b) as (E1 & E2 & E3 & E4); auto;
    [eapply minv_reach; eauto | lia |].
  split; [assumption|]. split; [assumption|]. split; [eapply others_same; eauto|]. auto.
Qed.

Theorem rspin_count_never_wraps cl m :
  reach rp KRSpin cl m -> sane m -> unf (shm m) = false /\ count (shm m) < P32.
Proof.
  intros Hr Hsane. destruct (reach_abs _ _ Hr) as (A & HA & HR).
  destruct m as [s h]; cbn [fst snd] in *; subst s. unfold sane, shm in *; cbn [fst conc sh] in *.
  destruct (minv_reach _ _ _ HR Hsane) as [Hu HI]. split; [auto|].
  destruct (flag (ash A)).
  - destruct HI as (w & aw & _ & Hw & _). unfold winner_ok in Hw.
    destruct (pc aw); try tauto; destruct Hw as (_ & -> & _); unfold P32; lia.
  - destruct HI as (_ & -> & _). unfold P32; lia.
Qed.

Theorem rspin_overflow_needs_full_nesting cl m t m' x :
  reach rp KRSpin cl m -> mstep rp KRSpin t m = Some m' -> sane m -> ~ sane m' ->
  tat m t = Some x -> depth x = P32 - 1.
Proof.
  intros Hr Hs Hsane Hns Hx. destruct m as [s h].
  destruct (rstep_abs' _ _ _ _ _ Hr Hs) as (A & A' & ev & -> & -> & HR & Ha).
  destruct (tat_conc _ _ _ _ Hx) as (a & Hta & ->).
  unfold sane, shm in *; cbn [fst snd conc sh conc_th depth] in *.
  eapply a_overflow; eauto; [eapply minv_reach; eauto|].
  destruct (ovf (ash A')); [reflexivity|contradiction].
Qed.

Theorem rspin_cs_accesses_ordered cl m :
  reach rp KRSpin cl m -> sane m -> race (snd m) = false.
Proof.
  intros Hr Hsane. destruct (reach_abs _ _ Hr) as (A & HA & HR).
  destruct m as [s h]; cbn [fst snd] in *; subst s. unfold sane, shm in *; cbn [fst conc sh] in *.
  apply (hinv_reach _ _ _ HR Hsane).
Qed.

(* the owner id names the thread that won the flag (relaxed accesses are enough: only that
   thread ever stores its own id, and it stores the empty id before it clears the flag) *)
Theorem rspin_owner_id_sound cl m w :
  reach rp KRSpin cl m -> sane m -> owner (shm m) = Some w ->
  flag (shm m) = true /\ exists x, tat m w = Some x /\ (0 < depth x \/ fresh x = false).
Proof.
  intros Hr Hsane Ho. destruct (reach_abs _ _ Hr) as (A & HA & HR).
  destruct m as [s h]; cbn [fst snd] in *; subst s. unfold sane, shm in *; cbn [fst conc sh] in *.
  pose proof (finv_reach _ _ _ HR) as HF.
  destruct (minv_reach _ _ _ HR Hsane) as [_ HI]. destruct (flag (ash A)).
  - split; [reflexivity|]. destruct HI as (w0 & aw & Hw & Hwin & _).
    assert (w0 = w).
    { unfold winner_ok in Hwin. destruct (pc aw); destruct Hwin as (Ho' & _); congruence. }
    subst w0. exists (conc_th aw). split; [rewrite tat_th, Hw; reflexivity|]. cbn [conc_th depth fresh].
    destruct (afresh aw) eqn:Ef; [left|right; reflexivity].
    specialize (HF w aw Hw Ef). unfold winner_ok in Hwin.
    destruct (pc aw); try contradiction; lia.
  - destruct HI as (Ho' & _). congruence.
Qed.

(* ---- progress: a test_and_set that finds the flag clear acquires the lock *)
Fixpoint arun (sched : list nat) (m : astate * hb) : astate * hb :=
  match sched with
  | [] => m
  | t :: r => match amstep t m with Some m' => arun r m' | None => arun r m end
  end.
Lemma run_conc sched A h :
  run rp KRSpin sched (conc A, h) = (conc (fst (arun sched (A, h))), snd (arun sched (A, h))).
Proof.
  revert A h; induction sched as [|t r IH]; intros A h; [reflexivity|].
  cbn [run arun]. unfold rp. rewrite mstep_conc. destruct (amstep t (A, h)) as [[A' h']|]; apply IH.
Qed.

Lemma amstep_at A h t a : th A t = Some a ->
  amstep t (A, h) =
  match atstep t (ash A) a with
  | Some (s', a', ev) => Some ({| ash := s'; athr := upd_nth (athr A) t a' |}, hb_step h t ev)
  | None => None
  end.
Proof.
  intros Ht. unfold amstep, astep; cbn [fst snd]. fold (th A t). rewrite Ht.
  destruct (atstep t (ash A) a) as [[[s' a'] ev]|]; reflexivity.
Qed.

Lemma foc_tas_pc a : foc (conc_th a) = FEx (ETas Acquire) -> exists c, pc a = PT0 c.
Proof. unfold conc_th; cbn [foc]. destruct (pc a); cbn; try discriminate. eauto. Qed.

Theorem rspin_lock_acquires_when_free cl m t x :
  reach rp KRSpin cl m -> sane m -> flag (shm m) = false ->
  tat m t = Some x -> foc x = FEx (ETas Acquire) ->
  exists m1, mstep rp KRSpin t m = Some m1 /\ flag (shm m1) = true /\
    exists x4, tat (run rp KRSpin [t; t; t] m1) t = Some x4 /\
               depth x4 = 1 /\ fresh x4 = true /\ rest x4 = List.tl (rest x) /\
               (cur x = Some CTry -> out x4 = true :: out x).
Proof.
  intros Hr Hsane Ef Hx Hfoc. destruct (reach_abs _ _ Hr) as (A & HA & HR).
  destruct m as [s h]; cbn [fst snd] in *; subst s.
  destruct (tat_conc _ _ _ _ Hx) as (a & Ha & ->).
  unfold sane, shm in *; cbn [fst conc sh] in *.
  destruct (minv_reach _ _ _ HR Hsane) as [_ HI]. rewrite Ef in HI. destruct HI as (Ho & Hc & Hall).
  destruct (Hall t a) as [_ Hd]; [discriminate|auto|].
  destruct (foc_tas_pc a Hfoc) as (c & Ep).
  unfold rp. rewrite mstep_conc, (amstep_at _ _ _ _ Ha). unfold atstep. rewrite Ep, Ef.
  eexists. split; [reflexivity|]. split; [reflexivity|].
  rewrite run_conc.
  set (A1 := {| ash := set_flag (ash A) true; athr := upd_nth (athr A) t (goto a (PT2 c)) |}).
  assert (H1 : th A1 t = Some (goto a (PT2 c))) by (eapply th_upd_same; eauto).
  cbn [arun]. rewrite (amstep_at _ _ _ _ H1). unfold atstep. cbn [pc goto ash A1].
  set (A2 := {| ash := set_owner (set_flag (ash A) true) (Some t);
                athr := upd_nth (athr A1) t (goto (goto a (PT2 c)) (PT3 c)) |}).
  assert (H2 : th A2 t = Some (goto (goto a (PT2 c)) (PT3 c))) by (eapply th_upd_same; eauto).
  rewrite (amstep_at _ _ _ _ H2). unfold atstep. cbn [pc goto ash A2].
  set (A3 := {| ash := set_owner (set_flag (ash A) true) (Some t);
                athr := upd_nth (athr A2) t (goto (goto (goto a (PT2 c)) (PT3 c))
                                               (PT4 c (count (set_owner (set_flag (ash A) true) (Some t))))) |}).
  assert (H3 : th A3 t = Some (goto (goto (goto a (PT2 c)) (PT3 c))
                                    (PT4 c (count (set_owner (set_flag (ash A) true) (Some t))))))
    by (eapply th_upd_same; eauto).
  rewrite (amstep_at _ _ _ _ H3). unfold atstep. cbn [pc goto ash A3 fst snd].
  eexists. split.
  { rewrite tat_th. erewrite th_upd_same by eauto. reflexivity. }
  cbn [conc_th depth fresh rest out cur]. unfold fin. cbn [adepth aout arest goto]. rewrite Hd.
  rewrite Ep. destruct c; cbn [op_of complete cur_of];
    destruct (arest a) as [|[] r]; cbn; repeat split; auto; discriminate.
Qed.

(* ====================================================================== Spinlock *)

Lemma stat_conc A h t x : tat (sconc A, h) t = Some x -> exists a, sth_at A t = Some a /\ x = sconc_th a.
Proof.
  unfold tat, sth_at, sconc; cbn [fst thr]. rewrite nth_error_map.
  destruct (nth_error (sthr A) t) as [a|]; cbn; [|discriminate]. intros H; injection H as <-. eauto.
Qed.

Theorem spin_mutex cl m t u x y :
  reach rp KSpin cl m -> tat m t = Some x -> tat m u = Some y -> 0 < depth x -> 0 < depth y -> t = u.
Proof.
  intros Hr Hx Hy Hdx Hdy. destruct (sreach_abs _ _ Hr) as (A & HA & HR).
  destruct m as [s h]; cbn [fst snd] in *; subst s.
  destruct (sinv_reach _ _ _ HR) as (_ & _ & _ & HI).
  destruct (stat_conc _ _ _ _ Hx) as (a & Ha & ->). destruct (stat_conc _ _ _ _ Hy) as (b & Hb & ->).
  cbn [sconc_th depth] in *. destruct (flag (ssh A)).
  - destruct HI as (w & aw & cs & _ & _ & Hoth & _).
    destruct (Nat.eq_dec t w) as [->|Ht]; destruct (Nat.eq_dec u w) as [->|Hu]; auto;
      try (rewrite (Hoth _ _ Ht Ha) in Hdx; lia); rewrite (Hoth _ _ Hu Hb) in Hdy; lia.
  - destruct HI as (Hall & _). rewrite (Hall _ _ Ha) in Hdx. lia.
Qed.

Theorem spin_cs_accesses_ordered cl m : reach rp KSpin cl m -> race (snd m) = false.
Proof.
  intros Hr. destruct (sreach_abs _ _ Hr) as (A & HA & HR).
  destruct m as [s h]; cbn [fst snd] in *. apply (sinv_reach _ _ _ HR).
Qed.

(* the flag is set exactly while some thread holds the lock *)
Theorem spin_flag_iff_held cl m :
  reach rp KSpin cl m ->
  (flag (shm m) = true <-> exists t x, tat m t = Some x /\ 0 < depth x) /\
  (forall t x, tat m t = Some x -> depth x <= 1).
Proof.
  intros Hr. destruct (sreach_abs _ _ Hr) as (A & HA & HR).
  destruct m as [s h]; cbn [fst snd] in *; subst s. unfold shm; cbn [fst sconc sh].
  destruct (sinv_reach _ _ _ HR) as (_ & _ & _ & HI). destruct (flag (ssh A)).
  - destruct HI as (w & aw & cs & Hw & Hd & Hoth & _). split.
    + split; [intros _|auto]. exists w, (sconc_th aw). unfold tat, sconc; cbn [fst thr].
      rewrite nth_error_map. fold (sth_at A w). rewrite Hw. cbn. split; [auto|lia].
    + intros t x Hx. destruct (stat_conc _ _ _ _ Hx) as (a & Ha & ->). cbn [sconc_th depth].
      destruct (Nat.eq_dec t w) as [->|Hne]; [rewrite Hw in Ha; injection Ha as <-; lia|].
      rewrite (Hoth _ _ Hne Ha). lia.
  - destruct HI as (Hall & _). split.
    + split; [discriminate|]. intros (t & x & Hx & Hd).
      destruct (stat_conc _ _ _ _ Hx) as (a & Ha & ->). cbn [sconc_th depth] in Hd.
      rewrite (Hall _ _ Ha) in Hd. lia.
    + intros t x Hx. destruct (stat_conc _ _ _ _ Hx) as (a & Ha & ->). cbn [sconc_th depth].
      rewrite (Hall _ _ Ha). lia.
Qed.

Lemma sstep_at A t a : sth_at A t = Some a ->
  sstep t A = match ststep t (ssh A) a with
              | Some (s', a', ev) => Some ({| ssh := s'; sthr := upd_nth (sthr A) t a' |}, ev)
              | None => None end.
Proof. intros Ht. unfold sstep. fold (sth_at A t). rewrite Ht. reflexivity. Qed.

Lemma stat_th A h u : tat (sconc A, h) u = option_map sconc_th (sth_at A u).
Proof. unfold tat, sth_at, sconc; cbn [fst thr]. apply nth_error_map. Qed.

(* try_lock()/lock() while another thread holds: the flag is already set, nothing changes,
   try_lock returns false, lock keeps spinning *)
Theorem spin_acquire_fails_no_effect cl m t x u y :
  reach rp KSpin cl m -> tat m t = Some x -> tat m u = Some y -> u <> t -> 0 < depth y ->
  (cur x = Some CTry \/ cur x = Some CLock) ->
  exists m' x', mstep rp KSpin t m = Some m' /\ tat m' t = Some x' /\
    shm m' = shm m /\ depth x' = depth x /\ depth x = 0 /\
    (forall v, v <> t -> tat m' v = tat m v) /\
    (cur x = Some CTry -> out x' = false :: out x) /\
    (cur x = Some CLock -> cur x' = Some CLock /\ foc x' = foc x).
Proof.
  intros Hr Hx Hy Hne Hd Hc. destruct (sreach_abs _ _ Hr) as (A & HA & HR).
  destruct m as [s h]; cbn [fst snd] in *; subst s.
  destruct (sinv_reach _ _ _ HR) as (_ & _ & _ & HI).
  destruct (stat_conc _ _ _ _ Hx) as (a & Ha & ->). destruct (stat_conc _ _ _ _ Hy) as (b & Hb & ->).
  unfold shm; cbn [fst sconc sh sconc_th depth cur out foc] in *.
  assert (Ef : flag (ssh A) = true /\ sdepth a = 0).
  { destruct (flag (ssh A)).
    - destruct HI as (w & aw & cs & Hw & Hdw & Hoth & _). split; [auto|].
      destruct (Nat.eq_dec u w) as [->|Hu]; [apply (Hoth t a); auto|].
      rewrite (Hoth u b Hu Hb) in Hd. lia.
    - destruct HI as (Hall & _). rewrite (Hall _ _ Hb) in Hd. lia. }
  destruct Ef as [Ef Hda].
  assert (Hp : spc_of a = QT Direct \/ spc_of a = QT InLock).
  { destruct (spc_of a) as [| |[]|]; cbn in Hc; destruct Hc as [Hc|Hc]; try discriminate Hc; auto. }
  unfold rp. rewrite smstep_conc. unfold smstep; cbn [fst snd]. rewrite (sstep_at _ _ _ Ha).
  unfold ststep. destruct Hp as [Ep|Ep]; rewrite Ep, Ef; cbn [negb].
  - eexists. eexists. split; [reflexivity|]. split; [rewrite stat_th; erewrite sth_upd_same by eauto; reflexivity|].
    cbn [fst sconc sh ssh sconc_th depth out cur]. split; [apply set_flag_same; auto|].
    rewrite sfin_depth. cbn [complete fst]. split; [auto|]. split; [auto|]. split.
    { intros v Hv. rewrite !stat_th. unfold sth_at; cbn [sthr]. rewrite nth_error_upd_other by auto. reflexivity. }
    split; [|discriminate]. intros _. unfold sfin; cbn [complete]. destruct (srest a) as [|[] r]; reflexivity.
  - eexists. eexists. split; [reflexivity|]. split; [rewrite stat_th; erewrite sth_upd_same by eauto; reflexivity|].
    cbn [fst sconc sh ssh sconc_th depth out cur foc sgoto spc_of sdepth scur scfg]. split; [apply set_flag_same; auto|].
    split; [auto|]. split; [auto|]. split.
    { intros v Hv. rewrite !stat_th. unfold sth_at; cbn [sthr]. rewrite nth_error_upd_other by auto. reflexivity. }
    split; [discriminate|]. intros _. auto.
Qed.

Theorem spin_lock_acquires_when_free cl m t x :
  reach rp KSpin cl m -> flag (shm m) = false -> tat m t = Some x -> foc x = FEx (ETas Acquire) ->
  exists m' x', mstep rp KSpin t m = Some m' /\ tat m' t = Some x' /\
                flag (shm m') = true /\ depth x' = 1 /\ fresh x' = true /\
                (cur x = Some CTry -> out x' = true :: out x).
Proof.
  intros Hr Ef Hx Hfoc. destruct (sreach_abs _ _ Hr) as (A & HA & HR).
  destruct m as [s h]; cbn [fst snd] in *; subst s.
  destruct (sinv_reach _ _ _ HR) as (_ & _ & _ & HI).
  destruct (stat_conc _ _ _ _ Hx) as (a & Ha & ->).
  unfold shm in *; cbn [fst sconc sh sconc_th depth cur out foc] in *.
  rewrite Ef in HI. destruct HI as (Hall & _). pose proof (Hall _ _ Ha) as Hd.
  assert (Hp : exists c, spc_of a = QT c) by (destruct (spc_of a); cbn in Hfoc; try discriminate; eauto).
  destruct Hp as (c & Ep).
  unfold rp. rewrite smstep_conc. unfold smstep; cbn [fst snd]. rewrite (sstep_at _ _ _ Ha).
  unfold ststep. rewrite Ep, Ef.
  destruct c; cbn [negb]; (eexists; eexists; split; [reflexivity|];
    split; [rewrite stat_th; erewrite sth_upd_same by eauto; reflexivity|]);
    cbn [fst sconc sh ssh sconc_th depth out cur fresh flag set_flag scur];
    (split; [reflexivity|]); rewrite sfin_depth, Hd; cbn [complete fst];
    (split; [reflexivity|]); unfold sfin; cbn [complete]; rewrite ?Hd;
    destruct (srest a) as [|[] r]; cbn; split; auto; discriminate.
Qed.

(* ====================================================================== schedules *)
(* running a schedule from a reachable state stays reachable (used by the non-vacuity examples) *)
Fixpoint wb_run (p : prog) (k : kind) (sched : list nat) (m : mstate) : bool :=
  match sched with
  | [] => true
  | t :: r => wb_ok k (fst m) t &&
              match mstep p k t m with Some m' => wb_run p k r m' | None => wb_run p k r m end
  end.

Lemma reach_run p k cl sched m :
  reach p k cl m -> wb_run p k sched m = true -> reach p k cl (run p k sched m).
Proof.
  revert m; induction sched as [|t r IH]; intros m Hr Hw; [exact Hr|].
  cbn [run wb_run] in *. apply andb_true_iff in Hw. destruct Hw as [Hw1 Hw2].
  destruct (mstep p k t m) as [m'|] eqn:E; [|auto].
  apply IH; auto. econstructor; eauto.
Qed.
