(* C19 -- happens-before invariant of the RecursiveSpinlock machine + monitor
   (after design/prototypes/Race.v): no conflicting non-atomic accesses (protected data,
   lock_count_) are ever unordered. *)
From Coq Require Import List NArith Bool Arith Lia.
From PV Require Import Spin.Lang Spin.Reviewed Spin.Sem Spin.RaceSem Spin.AbsRSpin Spin.RSpinInv.
Import ListNotations.
Local Open Scope N_scope.

Arguments owner_is : simpl never.
Arguments inc_count : simpl never.
Arguments dec_count : simpl never.

Definition winner (A : astate) (w : nat) : Prop :=
  exists a, th A w = Some a /\ winner_ok (ash A) w a /\ others_out A (Some w).

Lemma winner_not_idle s w a : winner_ok s w a -> outside (pc a) -> adepth a = 0 -> False.
Proof.
  unfold winner_ok. destruct (pc a); cbn; try contradiction; intros (_ & Hc & H1 & _) _ Hd; lia.
Qed.

Lemma winner_unique A w w' : winner A w -> winner A w' -> w = w'.
Proof.
  intros (a & Ha & Hw & Ho) (a' & Ha' & Hw' & _).
  destruct (Nat.eq_dec w w') as [|Hne]; auto. exfalso.
  destruct (Ho w' a') as [Hout Hd]; [congruence|auto|].
  exact (winner_not_idle _ _ _ Hw' Hout Hd).
Qed.

Lemma minv_winner A : minv A -> flag (ash A) = true -> exists w, winner A w.
Proof. intros [_ H] Ef. rewrite Ef in H. destruct H as (w & a & ?). exists w, a. auto. Qed.

(* threads other than t are not touched by a step of t *)
Lemma astep_other t A A' ev u : astep t A = Some (A', ev) -> t <> u -> th A' u = th A u.
Proof.
  unfold astep. destruct (nth_error (athr A) t) as [a|]; [|discriminate].
  destruct (atstep t (ash A) a) as [[[s' a'] ev']|]; [|discriminate].
  intros H Hne. injection H as <- <-. apply th_upd_other; auto.
Qed.

(* while the flag stays set the winner stays the same thread *)
Lemma winner_stable t A A' ev w :
  minv A' -> flag (ash A') = true -> astep t A = Some (A', ev) -> winner A w -> winner A' w.
Proof.
  intros HI' Ef' Hs (a & Ha & Hw & Ho).
  destruct (minv_winner A' HI' Ef') as (w' & a' & Ha' & Hw' & Ho').
  destruct (Nat.eq_dec w w') as [->|Hne]; [exists a'; auto|]. exfalso.
  destruct (Nat.eq_dec t w) as [->|Htw].
  - (* w moved; w' did not: it was outside with depth 0 *)
    rewrite (astep_other _ _ _ _ w' Hs) in Ha' by auto.
    destruct (Ho w' a') as [Hout Hd]; [congruence|auto|].
    exact (winner_not_idle _ _ _ Hw' Hout Hd).
  - (* w did not move, so it is still not idle, but in A' it is not the winner *)
    assert (Ha2 : th A' w = Some a) by (rewrite (astep_other _ _ _ _ w Hs); auto).
    destruct (Ho' w a) as [Hout Hd]; [congruence|auto|].
    exact (winner_not_idle _ _ _ Hw Hout Hd).
Qed.

Lemma winner_back t A A' ev w :
  minv A -> minv A' -> flag (ash A) = true -> flag (ash A') = true ->
  astep t A = Some (A', ev) -> winner A' w -> winner A w.
Proof.
  intros HI HI' Ef Ef' Hs Hw'. destruct (minv_winner A HI Ef) as (w0 & Hw0).
  pose proof (winner_stable _ _ _ _ _ HI' Ef' Hs Hw0) as Hw0'.
  rewrite (winner_unique _ _ _ Hw' Hw0'). exact Hw0.
Qed.

(* a thread that is not outside, or has positive depth, is the winner *)
Lemma busy_is_winner A t a :
  minv A -> th A t = Some a -> (~ outside (pc a) \/ adepth a <> 0) ->
  flag (ash A) = true /\ winner A t.
Proof.
  intros [_ H] Ha Hb. destruct (flag (ash A)).
  - split; [reflexivity|]. destruct H as (w & aw & Hw & Hwin & Ho).
    destruct (Nat.eq_dec t w) as [->|Hne]; [exists aw; auto|].
    destruct (Ho t a) as [Hout Hd]; [congruence|auto|]. tauto.
  - destruct H as (_ & _ & Ho). destruct (Ho t a) as [Hout Hd]; [discriminate|auto|]. tauto.
Qed.

(* what a step can emit, and what it does to the flag *)
Lemma step_events t A A' ev :
  minv A -> minv A' -> astep t A = Some (A', ev) ->
  match ev with
  | EvTas o ws => o = Acquire /\ ws = flag (ash A) /\ flag (ash A') = true /\ (ws = false -> winner A' t)
  | EvClear o => o = Release /\ flag (ash A) = true /\ winner A t /\ flag (ash A') = false
  | EvPlain l => l <> LOwner /\ flag (ash A) = true /\ winner A t /\ flag (ash A') = true
  | EvAtomicOwner _ | EvNone => flag (ash A') = flag (ash A)
  end.
Proof.
  intros HI HI' Hs. pose proof Hs as Hs0. unfold astep in Hs. fold (th A t) in Hs.
  destruct (th A t) as [a|] eqn:Ht; [|discriminate].
  destruct (atstep t (ash A) a) as [[[s' a'] ev']|] eqn:Ea; [|discriminate].
  injection Hs as <- <-.
  assert (Hbusy : ~ outside (pc a) \/ adepth a <> 0 -> flag (ash A) = true /\ winner A t)
    by (apply busy_is_winner; auto).
  unfold atstep in Ea.
  destruct (pc a) as [| |c|c|c|c|c n| | |n| |] eqn:Ep; try discriminate Ea;
    injection Ea as <- <- <-; cbn [ash flag set_flag set_owner].
  - (* PAcc *) destruct (0 <? adepth a) eqn:Ed; [|reflexivity].
    apply N.ltb_lt in Ed. destruct Hbusy as [Ef Hw]; [right; lia|].
    split; [discriminate|]. split; [auto|]. split; [auto|exact Ef].
  - (* PT0 *) split; [reflexivity|]. split; [reflexivity|]. split; [reflexivity|].
    intros Ef.
    destruct (minv_winner _ HI' eq_refl) as (w' & a' & Ha' & Hw' & Ho').
    destruct (Nat.eq_dec t w') as [->|Hne]; [exists a'; auto|]. exfalso.
    assert (Hta : th {| ash := set_flag (ash A) true; athr := upd_nth (athr A) t (goto a (if flag (ash A) then PT1 c else PT2 c)) |} t
                  = Some (goto a (if flag (ash A) then PT1 c else PT2 c))) by (eapply th_upd_same; eauto).
    destruct (Ho' t _ (fun E => Hne (f_equal (fun o => match o with Some x => x | None => t end) E)) Hta) as [Hout _].
    rewrite Ef in Hout. exact Hout.
  - reflexivity.
  - reflexivity.
  - (* PT3 *) destruct Hbusy as [Ef Hw]; [left; cbn; tauto|].
    split; [discriminate|]. split; [auto|]. split; [auto|exact Ef].
  - (* PT4 *) destruct Hbusy as [Ef Hw]; [left; cbn; tauto|].
    split; [discriminate|]. split; [auto|]. split; [auto|exact Ef].
  - reflexivity.
  - (* PU1 *) destruct Hbusy as [Ef Hw]; [left; cbn; tauto|].
    split; [discriminate|]. split; [auto|]. split; [auto|exact Ef].
  - (* PU2 *) destruct Hbusy as [Ef Hw]; [left; cbn; tauto|].
    split; [discriminate|]. split; [auto|]. split; [auto|exact Ef].
  - reflexivity.
  - (* PU4 *) destruct Hbusy as [Ef Hw]; [left; cbn; tauto|].
    split; [reflexivity|]. split; [auto|]. split; [auto|reflexivity].
Qed.

(* ---- the happens-before invariant *)
Definition last_below (l : option (option N * nat)) (k : N) (o : option nat) : Prop :=
  match l with
  | None => True
  | Some (j, u) => exists j', j = Some j' /\ (j' < k \/ (j' = k /\ o = Some u))
  end.

Definition hinv (A : astate) (h : hb) : Prop :=
  race h = false /\ (forall t, view h t <= gen h) /\ pub h <= gen h /\
  if flag (ash A)
  then forall w, winner A w ->
       exists cs, sec h w = Some cs /\ gen h = cs + 1 /\ cs <= view h w /\
                  (forall t, t <> w -> sec h t = None) /\
                  last_below (lastD h) cs (Some w) /\ last_below (lastC h) cs (Some w)
  else pub h = gen h /\ (forall t, sec h t = None) /\
       last_below (lastD h) (gen h) None /\ last_below (lastC h) (gen h) None.

Lemma updf_same {X} (f : nat -> X) t v : updf f t v t = v.
Proof. unfold updf. rewrite Nat.eqb_refl. reflexivity. Qed.
Lemma updf_other {X} (f : nat -> X) t u v : u <> t -> updf f t v u = f u.
Proof. unfold updf. intro H. apply Nat.eqb_neq in H. rewrite H. reflexivity. Qed.

Lemma last_below_open l k t : last_below l k None -> last_below l k (Some t).
Proof.
  unfold last_below. destruct l as [[j u]|]; auto. intros (j' & -> & [H|[_ H]]); [|discriminate].
  exists j'. auto.
Qed.
Lemma last_below_close l cs w : last_below l cs (Some w) -> last_below l (cs + 1) None.
Proof.
  unfold last_below. destruct l as [[j u]|]; auto. intros (j' & -> & H).
  exists j'. split; auto. left. destruct H as [H|[H _]]; lia.
Qed.
Lemma last_below_ordered h t l cs :
  last_below l cs (Some t) -> cs <= view h t -> ordered h t l = true.
Proof.
  unfold last_below, ordered. destruct l as [[j u]|]; auto. intros (j' & -> & H) Hv.
  apply orb_true_iff. destruct H as [H|[_ H]].
  - right. apply N.ltb_lt. lia.
  - left. injection H as ->. apply Nat.eqb_refl.
Qed.

Lemma hinv_step t A A' ev h :
  minv A -> minv A' -> astep t A = Some (A', ev) -> hinv A h -> hinv A' (hb_step h t ev).
Proof.
  intros HI HI' Hs (Hr & Hv & Hp & Hf).
  pose proof (step_events _ _ _ _ HI HI' Hs) as Hev.
  assert (Hback : flag (ash A) = true -> flag (ash A') = true -> forall w, winner A' w -> winner A w).
  { intros. eapply winner_back; eauto. }
  unfold hinv. destruct ev as [o ws|o|l|o|]; cbn [hb_step].
  - (* test_and_set *)
    destruct Hev as (-> & -> & Ef' & Hwin). cbn [is_acquire race pub gen view sec lastD lastC].
    rewrite Ef'. destruct (flag (ash A)) eqn:Ef.
    + (* fails: the view may grow up to what is published *)
      split; [auto|]. split. { intros u. unfold updf. destruct (Nat.eqb u t); auto. specialize (Hv t). lia. }
      split; [auto|]. intros w Hw. destruct (Hf w (Hback eq_refl Ef' w Hw)) as (cs & Hs1 & Hg & Hcv & Hn & HD & HC).
      exists cs. split; [auto|]. split; [auto|]. split; [|auto].
      unfold updf. destruct (Nat.eqb_spec w t) as [->|]; auto. lia.
    + (* wins: opens section [gen h] *)
      destruct Hf as (Hpg & Hsec & HD & HC).
      split; [auto|]. split. { intros u. unfold updf. destruct (Nat.eqb u t); [|specialize (Hv u)]; try lia. specialize (Hv t). lia. }
      split; [lia|]. intros w Hw. rewrite (winner_unique _ _ _ Hw (Hwin eq_refl)).
      exists (gen h). rewrite !updf_same. split; [auto|]. split; [auto|]. split; [lia|].
      split. { intros u Hu. rewrite updf_other by auto. apply Hsec. }
      split; apply last_below_open; auto.
  - (* clear: publishes the section *)
    destruct Hev as (-> & Ef & Hw & Ef'). rewrite Ef'. rewrite Ef in Hf.
    destruct (Hf t Hw) as (cs & Hs1 & Hg & Hcv & Hn & HD & HC).
    cbn [is_release race pub gen view sec lastD lastC].
    assert (Hpub : published h t = gen h).
    { unfold published. rewrite Hs1. replace (cs <=? view h t) with true by (symmetry; apply N.leb_le; auto).
      specialize (Hv t). lia. }
    rewrite Hpub. split; [auto|]. split; [auto|]. split; [lia|]. split; [auto|].
    split. { intros u. unfold updf. destruct (Nat.eqb u t) eqn:E; auto. apply Hn. apply Nat.eqb_neq; auto. }
    rewrite Hg. split; eapply last_below_close; eauto.
  - (* non-atomic access: by the winner, ordered after everything recorded *)
    destruct Hev as (Hl & Ef & Hw & Ef'). rewrite Ef'. rewrite Ef in Hf.
    destruct (Hf t Hw) as (cs & Hs1 & Hg & Hcv & Hn & HD & HC).
    assert (Hord : ordered h t (last_of h l) = true).
    { destruct l; cbn [last_of]; try congruence; eapply last_below_ordered; eauto. }
    cbn [race pub gen view sec lastD lastC]. rewrite Hord, Hr.
    split; [reflexivity|]. split; [auto|]. split; [auto|].
    intros w Hw'. rewrite (winner_unique _ _ _ (Hback Ef Ef' w Hw') Hw).
    exists cs. split; [auto|]. split; [auto|]. split; [auto|]. split; [auto|].
    rewrite Hs1.
    assert (Hme : last_below (Some (Some cs, t)) cs (Some t)).
    { unfold last_below. exists cs. split; [reflexivity | right; split; reflexivity]. }
    destruct l; [ split; [exact Hme | exact HC] | split; [exact HD | exact Hme] | congruence ].
  - (* atomic owner access: the monitor does not move *)
    rewrite Hev. split; [auto|]. split; [auto|]. split; [auto|].
    destruct (flag (ash A)) eqn:Ef; [|auto].
    intros w Hw. apply Hf. eapply Hback; eauto.
  - rewrite Hev. split; [auto|]. split; [auto|]. split; [auto|].
    destruct (flag (ash A)) eqn:Ef; [|auto].
    intros w Hw. apply Hf. eapply Hback; eauto.
Qed.

Lemma hinv_init clients : hinv (ainit clients) hb_init.
Proof.
  unfold hinv, ainit, hb_init; cbn. split; [auto|]. split; [intros; lia|]. split; [lia|].
  split; [auto|]. split; [auto|]. split; exact I.
Qed.

Theorem hinv_reach clients A h : areach clients (A, h) -> ovf (ash A) = false -> hinv A h.
Proof.
  intros H. remember (A, h) as m eqn:E. revert A h E.
  induction H as [|m m' t Hr IH Hs]; intros A h E Hov.
  - injection E as <- <-. apply hinv_init.
  - subst m'. destruct m as [A0 h0]. unfold amstep in Hs; cbn [fst snd] in Hs.
    destruct (astep t A0) as [[A1 ev]|] eqn:Es; [|discriminate]. injection Hs as <- <-.
    assert (Hov0 : ovf (ash A0) = false) by (eapply ovf_mono; eauto).
    eapply hinv_step; eauto.
    + eapply minv_reach; eauto.
    + eapply minv_step; eauto. eapply minv_reach; eauto.
Qed.
