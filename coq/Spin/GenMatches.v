(* C19 -- THE TIE (T): the program regenerated from primitiv/core/spinlock.h on this run is the
   reviewed program all semantic theorems are about.  Any change of a method body or of a
   memory order breaks exactly this obligation (the check then searches the model of the
   regenerated program for a failing schedule). *)
From PV Require Import Spin.Lang Spin.Reviewed Gen.SpinGen.

Theorem gen_matches : SpinGen.prog = reviewed_prog.
Proof. reflexivity. Qed.
