(* C19 -- instruction language for the method bodies of primitiv/core/spinlock.h.
   translate/gen_spin.py regenerates Gen/SpinGen.v (a value of type [prog]) from the clang
   AST of the header on every run; Spin/Reviewed.v holds the reviewed copy the theorems are
   about.  No proofs here. *)
From Coq Require Import List NArith Bool.
Import ListNotations.

(* memory order of an access; [NonAtomic] = the field is a plain (non-atomic) object *)
Inductive ord := NonAtomic | Relaxed | Consume | Acquire | Release | AcqRel | SeqCst.

(* thread-id values that occur in the code: std::this_thread::get_id() (also through a
   local initialised with it) and the default-constructed std::thread::id() *)
Inductive tidv := Self | Nobody.

Inductive meth := MTry | MLock | MUnlock.

(* expressions (all of type bool, or void for a call of a void method) *)
Inductive expr :=
| ETas (o : ord)                  (* ready_.test_and_set(o): true iff the flag was already set *)
| EOwnerNe (o : ord) (v : tidv)   (* locked_thread_id_.load(o) != v   (o = NonAtomic: plain read) *)
| EOwnerEq (o : ord) (v : tidv)   (* locked_thread_id_.load(o) == v *)
| EDecIsZero                      (* --lock_count_ == 0 *)
| ECall (m : meth)                (* this->m() *)
| ENot (e : expr)
| EConst (b : bool).

Inductive instr :=
| Clear (o : ord)                 (* ready_.clear(o) *)
| StoreOwner (v : tidv) (o : ord) (* locked_thread_id_.store(v, o)  (o = NonAtomic: plain assignment) *)
| IncCount                        (* ++lock_count_ *)
| DecCount                        (* --lock_count_ *)
| Do (e : expr)                   (* expression statement *)
| If (e : expr) (th el : list instr)
| While (e : expr) (body : list instr)
| Ret (e : option expr).

Record cls := { try_lock_body : list instr; lock_body : list instr; unlock_body : list instr }.
Record prog := { spin_cls : cls; rspin_cls : cls }.

(* which of the two classes a run is about *)
Inductive kind := KSpin | KRSpin.

Definition cls_of (p : prog) (k : kind) : cls :=
  match k with KSpin => spin_cls p | KRSpin => rspin_cls p end.
Definition body_of (c : cls) (m : meth) : list instr :=
  match m with MTry => try_lock_body c | MLock => lock_body c | MUnlock => unlock_body c end.

(* client operations: a thread runs an arbitrary list of these *)
Inductive cop := CLock | CTry | CUnlock | CAccess.

Definition is_acquire (o : ord) : bool :=
  match o with Acquire | AcqRel | SeqCst => true | _ => false end.
Definition is_release (o : ord) : bool :=
  match o with Release | AcqRel | SeqCst => true | _ => false end.
