(* C19 -- Identifiable / DefaultSettable: ids stay unique and resolvable, the default slot
   never dangles, for every history of atomic create / destroy / get / set_default steps
   (fewer than 2^64 - 1 objects created, so next_id_ does not wrap). *)
From Coq Require Import List NArith Bool Lia.
From PV Require Import Spin.Registry.
Import ListNotations.
Local Open Scope N_scope.

Inductive rreach : reg -> Prop :=
| rr_init : rreach reg_init
| rr_step r o r' v : rreach r -> reg_step r o = Some (r', v) ->
    (forall p, o = RCreate p -> next_id r + 1 < P64) -> rreach r'.

Lemma lookup_remove_same m k : lookup (remove m k) k = None.
Proof.
  induction m as [|[a b] m IH]; cbn; auto. destruct (N.eqb_spec a k); cbn; auto.
  destruct (N.eqb_spec a k); [contradiction|auto].
Qed.
Lemma lookup_remove_other m k k' : k' <> k -> lookup (remove m k) k' = lookup m k'.
Proof.
  intros Hne. induction m as [|[a b] m IH]; cbn; auto. destruct (N.eqb_spec a k); cbn.
  - subst a. destruct (N.eqb_spec k k'); [congruence|auto].
  - destruct (N.eqb_spec a k'); auto.
Qed.
Lemma lookup_emplace_fresh m k v k' :
  lookup m k = None -> lookup (emplace m k v) k' = if k =? k' then Some v else lookup m k'.
Proof. intros H. unfold emplace. rewrite H. reflexivity. Qed.

Definition rinv (r : reg) : Prop :=
  (forall p i, lookup (live r) p = Some i -> lookup (objects r) i = Some p /\ i < next_id r) /\
  (forall i p, lookup (objects r) i = Some p -> lookup (live r) p = Some i) /\
  (forall p, dflt r = Some p -> lookup (live r) p <> None).

Lemma rinv_step r o r' v :
  rinv r -> reg_step r o = Some (r', v) -> (forall p, o = RCreate p -> next_id r + 1 < P64) -> rinv r'.
Proof.
  intros (H1 & H2 & H3) Hs Hw. destruct o as [p|p|i|p|]; cbn in Hs.
  - (* create *)
    destruct (lookup (live r) p) eqn:El; [discriminate|]. injection Hs as <- <-.
    specialize (Hw p eq_refl).
    assert (Hfresh : lookup (objects r) (next_id r) = None).
    { destruct (lookup (objects r) (next_id r)) as [q|] eqn:E; auto.
      apply H2 in E. apply H1 in E. lia. }
    assert (Hn : (next_id r + 1) mod P64 = next_id r + 1) by (apply N.mod_small; auto).
    unfold rinv; cbn [live objects next_id dflt]. rewrite Hn. split; [|split].
    + intros q i Hq. cbn in Hq. rewrite lookup_emplace_fresh by auto. destruct (N.eqb_spec p q).
      * injection Hq as <-. subst q. rewrite N.eqb_refl. split; [auto|lia].
      * destruct (H1 q i Hq) as [Ho Hlt]. destruct (N.eqb_spec (next_id r) i); [lia|]. split; [auto|lia].
    + intros i q Hq. rewrite lookup_emplace_fresh in Hq by auto. cbn. destruct (N.eqb_spec (next_id r) i).
      * injection Hq as <-. subst i. rewrite N.eqb_refl. reflexivity.
      * pose proof (H2 i q Hq) as Hl. destruct (N.eqb_spec p q); [congruence|auto].
    + intros q Hq. cbn. destruct (N.eqb_spec p q); [discriminate|]. apply H3; auto.
  - (* destroy *)
    destruct (lookup (live r) p) as [i|] eqn:El; [|discriminate]. injection Hs as <- <-.
    unfold rinv; cbn [live objects next_id dflt]. split; [|split].
    + intros q j Hq. destruct (N.eq_dec q p) as [->|Hne]; [rewrite lookup_remove_same in Hq; discriminate|].
      rewrite lookup_remove_other in Hq by auto. destruct (H1 q j Hq) as [Ho Hlt]. split; [|auto].
      rewrite lookup_remove_other; auto. intros ->. destruct (H1 p i El) as [Ho' _]. congruence.
    + intros j q Hq. destruct (N.eq_dec j i) as [->|Hne]; [rewrite lookup_remove_same in Hq; discriminate|].
      rewrite lookup_remove_other in Hq by auto. pose proof (H2 j q Hq) as Hl.
      rewrite lookup_remove_other; auto. intros ->. congruence.
    + intros q Hq. destruct (dflt r) as [d|] eqn:Ed; [|discriminate].
      destruct (N.eqb_spec d p); [discriminate|]. injection Hq as <-.
      rewrite lookup_remove_other by auto. apply H3; auto.
  - injection Hs as <- <-. split; [|split]; auto.
  - destruct (lookup (live r) p) eqn:El; [|discriminate]. injection Hs as <- <-.
    unfold rinv; cbn [live objects next_id dflt]. split; [|split]; auto.
    intros q Hq. injection Hq as <-. congruence.
  - injection Hs as <- <-. split; [|split]; auto.
Qed.

Lemma rinv_reach r : rreach r -> rinv r.
Proof.
  induction 1 as [|r o r' v _ IH Hs Hw].
  - unfold rinv; cbn. split; [|split]; intros; discriminate.
  - eapply rinv_step; eauto.
Qed.

(* ids are unique among live objects, resolve to the object itself, ids of destroyed objects
   do not resolve, and a new id is fresh and larger than every id handed out before *)
Theorem ids_unique_resolvable r :
  rreach r ->
  (forall p i, lookup (live r) p = Some i -> reg_step r (RGet i) = Some (r, Some p)) /\
  (forall p q i, lookup (live r) p = Some i -> lookup (live r) q = Some i -> p = q) /\
  (forall i, (forall p, lookup (live r) p <> Some i) -> reg_step r (RGet i) = Some (r, None)) /\
  (forall p r' v, reg_step r (RCreate p) = Some (r', v) -> next_id r + 1 < P64 ->
     v = Some (next_id r) /\ next_id r' = next_id r + 1 /\
     (forall q j, lookup (live r) q = Some j -> j < next_id r) /\
     lookup (live r') p = Some (next_id r)).
Proof.
  intros HR. destruct (rinv_reach r HR) as (H1 & H2 & H3). split; [|split; [|split]].
  - intros p i Hl. cbn. destruct (H1 p i Hl) as [-> _]. reflexivity.
  - intros p q i Hp Hq. destruct (H1 p i Hp) as [Ho _]. destruct (H1 q i Hq) as [Ho' _]. congruence.
  - intros i Hn. cbn. destruct (lookup (objects r) i) as [p|] eqn:E; auto.
    exfalso. apply (Hn p). auto.
  - intros p r' v Hs Hw. cbn in Hs. destruct (lookup (live r) p) eqn:El; [discriminate|].
    injection Hs as <- <-. cbn [next_id live]. split; [auto|]. split; [apply N.mod_small; auto|].
    split; [intros q j Hq; apply (H1 q j Hq)|]. cbn. rewrite N.eqb_refl. reflexivity.
Qed.

(* the default slot never dangles; destroying the current default clears it, destroying
   another object leaves it alone *)
Theorem default_cleared_on_destroy r :
  rreach r ->
  (forall p, dflt r = Some p -> lookup (live r) p <> None /\ reg_step r RGetDefault = Some (r, Some p)) /\
  (forall p r' v, reg_step r (RDestroy p) = Some (r', v) ->
     (dflt r = Some p -> dflt r' = None) /\
     (forall q, dflt r = Some q -> q <> p -> dflt r' = Some q) /\
     lookup (live r') p = None).
Proof.
  intros HR. destruct (rinv_reach r HR) as (H1 & H2 & H3). split.
  - intros p Hd. split; [auto|]. cbn. rewrite Hd. reflexivity.
  - intros p r' v Hs. cbn in Hs. destruct (lookup (live r) p) eqn:El; [|discriminate].
    injection Hs as <- <-. cbn [dflt live]. split; [|split].
    + intros ->. rewrite N.eqb_refl. reflexivity.
    + intros q -> Hne. destruct (N.eqb_spec q p); [contradiction|reflexivity].
    + apply lookup_remove_same.
Qed.
