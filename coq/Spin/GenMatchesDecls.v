(* C19 -- second part of THE TIE (T), added after the audit of 1 October (translator blind spots):
   [gen_matches] compares the METHOD BODIES read from primitiv/core/spinlock.h with the reviewed
   program; it said nothing about
     * the declarations the model takes for granted -- lock_count_ is a std::uint32_t (the wrap
       theorems speak about 2^32), ready_ a std::atomic_flag starting clear, the owner an atomic
       thread id starting empty, no further member function that could touch these fields, the
       private Nonmovable base;  a `std::uint8_t lock_count_` or an extra `reset()` left
       Gen/SpinGen.v byte-identical;
     * the variant that is actually compiled: every build of /verif defines PRIMITIV_VERIF_HOOKS
       (ready_ becomes a verif::HookedFlag and scheduling points are inserted), the translator
       read the plain variant only.
   translate/gen_spin.py now also writes Gen/SpinDecls.v; the three obligations below fail when
   what it read is not what was reviewed.  They are deliberately plain equalities with reviewed
   constants: ANY change of a declaration must be looked at by a person. *)
From Coq Require Import List String.
From PV Require Import Spin.Lang Gen.SpinGen Gen.SpinDecls.
Import ListNotations.
Local Open Scope string_scope.

(* plain build (what users compile) *)
Definition reviewed_decls : list string :=
  ["Spinlock base private mixins::Nonmovable<Spinlock>";
   "Spinlock field ready_ : std::atomic_flag = (IntegerLiteral 0)";
   "Spinlock CXXMethodDecl try_lock : bool ()";
   "Spinlock CXXMethodDecl lock : void ()";
   "Spinlock CXXMethodDecl unlock : void ()";
   "RecursiveSpinlock base private mixins::Nonmovable<RecursiveSpinlock>";
   "RecursiveSpinlock field ready_ : std::atomic_flag = (IntegerLiteral 0)";
   "RecursiveSpinlock field locked_thread_id_ : std::atomic<std::thread::id> = (CXXTemporaryObjectExpr <std::thread::id>)";
   "RecursiveSpinlock field lock_count_ : std::uint32_t = unsigned int = (IntegerLiteral 0)";
   "RecursiveSpinlock CXXMethodDecl try_lock : bool ()";
   "RecursiveSpinlock CXXMethodDecl lock : void ()";
   "RecursiveSpinlock CXXMethodDecl unlock : void ()"].

(* -DPRIMITIV_VERIF_HOOKS build (what the harnesses run): same classes with ready_ : HookedFlag,
   whose two member functions forward to the std::atomic_flag they wrap with the caller's memory
   order, after one scheduling point each *)
Definition reviewed_decls_hooks : list string :=
  ["Spinlock base private mixins::Nonmovable<Spinlock>";
   "Spinlock field ready_ : verif::HookedFlag = primitiv::verif::HookedFlag = none";
   "Spinlock CXXMethodDecl try_lock : bool ()";
   "Spinlock CXXMethodDecl lock : void ()";
   "Spinlock CXXMethodDecl unlock : void ()";
   "RecursiveSpinlock base private mixins::Nonmovable<RecursiveSpinlock>";
   "RecursiveSpinlock field ready_ : verif::HookedFlag = primitiv::verif::HookedFlag = none";
   "RecursiveSpinlock field locked_thread_id_ : std::atomic<std::thread::id> = (CXXTemporaryObjectExpr <std::thread::id>)";
   "RecursiveSpinlock field lock_count_ : std::uint32_t = unsigned int = (IntegerLiteral 0)";
   "RecursiveSpinlock CXXMethodDecl try_lock : bool ()";
   "RecursiveSpinlock CXXMethodDecl lock : void ()";
   "RecursiveSpinlock CXXMethodDecl unlock : void ()";
   "RecursiveSpinlock::try_lock hook points [3 4 5]";
   "RecursiveSpinlock::unlock hook points [6 7 8]";
   "HookedFlag field flag_ : std::atomic_flag = (IntegerLiteral 0)";
   "HookedFlag CXXMethodDecl test_and_set : bool (std::memory_order)";
   "HookedFlag CXXMethodDecl clear : void (std::memory_order)";
   "HookedFlag::test_and_set hook points [1] body (ReturnStmt (CXXMemberCallExpr (MemberExpr test_and_set (MemberExpr flag_ (CXXThisExpr))) (DeclRefExpr order)))";
   "HookedFlag::clear hook points [2] body (CXXMemberCallExpr (MemberExpr clear (MemberExpr flag_ (CXXThisExpr))) (DeclRefExpr order))"].

Theorem gen_decls_reviewed : SpinDecls.decls = reviewed_decls.
Proof. reflexivity. Qed.

Theorem gen_decls_hooks_reviewed : SpinDecls.decls_hooks = reviewed_decls_hooks.
Proof. reflexivity. Qed.

(* the hooks-on variant, scheduling points erased, is the program [gen_matches] speaks about *)
Theorem gen_hooks_agree : SpinDecls.prog_hooks = SpinGen.prog.
Proof. reflexivity. Qed.
