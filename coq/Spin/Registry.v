(* C19 -- Identifiable<T> / DefaultSettable<T> (core/mixins/identifiable.h, default_settable.h).
   Constructor, destructor and get_object() of Identifiable run entirely under the static
   std::mutex, so under every interleaving each is one atomic step and a concurrent history
   is a sequence of these steps in the order the mutex was taken.  Objects are named by their
   address [p]; the registry keeps what the C++ keeps (next_id_, objects_, default_obj_) and,
   as ground truth, the list of live objects with the id stored in each (id_).
   Executable; no proofs here. *)
From Coq Require Import List NArith Bool.
Import ListNotations.
Local Open Scope N_scope.

Definition P64 : N := 18446744073709551616.

Record reg := {
  next_id : N;
  objects : list (N * N);        (* objects_ : id -> address *)
  dflt : option N;               (* default_obj_ *)
  live : list (N * N)            (* ground truth: (address, id_) of every live object *)
}.

Inductive rop :=
| RCreate (p : N)        (* Identifiable() of an object at address p *)
| RDestroy (p : N)       (* ~DefaultSettable(); ~Identifiable() *)
| RGet (id : N)          (* get_object(id) *)
| RSetDefault (p : N)    (* set_default(obj at p) *)
| RGetDefault.           (* get_default() *)

Fixpoint lookup (m : list (N * N)) (k : N) : option N :=
  match m with [] => None | (a, b) :: r => if a =? k then Some b else lookup r k end.
Definition remove (m : list (N * N)) (k : N) : list (N * N) :=
  filter (fun ab => negb (fst ab =? k)) m.
(* unordered_map::emplace: no effect when the key is present *)
Definition emplace (m : list (N * N)) (k v : N) : list (N * N) :=
  match lookup m k with Some _ => m | None => (k, v) :: m end.

Definition reg_init : reg := {| next_id := 0; objects := []; dflt := None; live := [] |}.

(* result: Some v = value returned (id for create, address for get/get_default),
   None = void or primitiv::Error *)
Definition reg_step (r : reg) (o : rop) : option (reg * option N) :=
  match o with
  | RCreate p =>
      match lookup (live r) p with
      | Some _ => None                              (* two live objects never share an address *)
      | None =>
          let i := next_id r in
          Some ({| next_id := (i + 1) mod P64; objects := emplace (objects r) i p;
                   dflt := dflt r; live := (p, i) :: live r |}, Some i)
      end
  | RDestroy p =>
      match lookup (live r) p with
      | None => None                                (* only live objects are destroyed *)
      | Some i =>
          Some ({| next_id := next_id r; objects := remove (objects r) i;
                   dflt := match dflt r with
                           | Some q => if q =? p then None else Some q
                           | None => None end;
                   live := remove (live r) p |}, None)
      end
  | RGet i => Some (r, lookup (objects r) i)
  | RSetDefault p =>
      match lookup (live r) p with
      | None => None                                (* set_default takes a reference to a live object *)
      | Some _ => Some ({| next_id := next_id r; objects := objects r; dflt := Some p; live := live r |}, None)
      end
  | RGetDefault => Some (r, dflt r)
  end.
