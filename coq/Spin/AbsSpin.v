(* C19 -- program-point machine for Spinlock (non-recursive), its simulation with the
   interpreted reviewed program, and the combined mutual-exclusion / happens-before invariant
   for well-bracketed clients (a client calls unlock() only while it holds the lock). *)
From Coq Require Import List NArith Bool Arith Lia.
From PV Require Import Spin.Lang Spin.Reviewed Spin.Sem Spin.RaceSem Spin.AbsRSpin Spin.RSpinRace.
Import ListNotations.
Local Open Scope N_scope.

Inductive spc :=
| QDone
| QAcc
| QT (c : cx)      (* about to test_and_set (try_lock called directly / from lock()) *)
| QU.              (* about to clear *)

Record sth := { spc_of : spc; srest : list cop; sdepth : N; sout : list bool; sfresh : bool }.

Definition scfg (p : spc) : focus * list frame :=
  match p with
  | QDone => (FDone, [])
  | QAcc => (FAccess, [])
  | QT c => (FEx (ETas Acquire), KNot :: KRet :: ctx c)
  | QU => (FSt [Clear Release], [])
  end.
Definition scur (p : spc) : option cop :=
  match p with
  | QDone => None | QAcc => Some CAccess
  | QT Direct => Some CTry | QT InLock => Some CLock | QU => Some CUnlock
  end.
Definition sconc_th (a : sth) : tstate :=
  {| foc := fst (scfg (spc_of a)); stk := snd (scfg (spc_of a)); cur := scur (spc_of a);
     rest := srest a; depth := sdepth a; out := sout a; fresh := sfresh a |}.

Definition sstart (d : N) (o : list bool) (ops : list cop) : sth :=
  match ops with
  | [] => {| spc_of := QDone; srest := []; sdepth := d; sout := o; sfresh := true |}
  | CAccess :: r => {| spc_of := QAcc; srest := r; sdepth := d; sout := o; sfresh := true |}
  | CLock :: r => {| spc_of := QT InLock; srest := r; sdepth := d; sout := o; sfresh := true |}
  | CTry :: r => {| spc_of := QT Direct; srest := r; sdepth := d; sout := o; sfresh := true |}
  | CUnlock :: r => {| spc_of := QU; srest := r; sdepth := d; sout := o; sfresh := true |}
  end.
Definition sfin (a : sth) (op : cop) (v : val) : sth :=
  let (d', o') := complete op v (sdepth a) (sout a) in sstart d' o' (srest a).
Definition sgoto (a : sth) (p : spc) : sth :=
  {| spc_of := p; srest := srest a; sdepth := sdepth a; sout := sout a; sfresh := false |}.

Definition ststep (t : nat) (s : shared) (a : sth) : option (shared * sth * event) :=
  match spc_of a with
  | QDone => None
  | QAcc => Some (s, sfin a CAccess None, if 0 <? sdepth a then EvPlain LData else EvNone)
  | QT Direct => Some (set_flag s true, sfin a CTry (Some (negb (flag s))), EvTas Acquire (flag s))
  | QT InLock =>
      Some (set_flag s true, if flag s then sgoto a (QT InLock) else sfin a CLock None, EvTas Acquire (flag s))
  | QU => Some (set_flag s false, sfin a CUnlock None, EvClear Release)
  end.

Definition ss : cls := reviewed_spin.

Lemma sstart_conc d o ops : start ss d o ops = sconc_th (sstart d o ops).
Proof. destruct ops as [|[] r]; reflexivity. Qed.

Lemma ststep_conc t s a :
  tstep ss t s (sconc_th a) =
  match ststep t s a with Some (s', a', ev) => Some (s', sconc_th a', ev) | None => None end.
Proof.
  destruct a as [p r d o f]. destruct p as [| |c|]; unfold ststep, sconc_th, tstep;
    cbn [spc_of srest sdepth sout sfresh scfg fst snd foc stk].
  - reflexivity.
  - unfold continue, sfin; cbn. rewrite sstart_conc. reflexivity.
  - destruct c; destruct (flag s); unfold continue, sfin; cbn; rewrite ?sstart_conc; reflexivity.
  - unfold continue, sfin; cbn. rewrite sstart_conc. reflexivity.
Qed.

Record sstate := { ssh : shared; sthr : list sth }.
Definition sconc (A : sstate) : state := {| sh := ssh A; thr := map sconc_th (sthr A) |}.
Definition sth_at (A : sstate) (t : nat) : option sth := nth_error (sthr A) t.

Definition sstep (t : nat) (A : sstate) : option (sstate * event) :=
  match nth_error (sthr A) t with
  | None => None
  | Some a =>
      match ststep t (ssh A) a with
      | None => None
      | Some (s', a', ev) => Some ({| ssh := s'; sthr := upd_nth (sthr A) t a' |}, ev)
      end
  end.

Lemma sstep_conc t A :
  step reviewed_prog KSpin t (sconc A) =
  match sstep t A with Some (A', ev) => Some (sconc A', ev) | None => None end.
Proof.
  unfold step, sstep, sconc; cbn [sh thr cls_of spin_cls reviewed_prog].
  rewrite nth_error_map. destruct (nth_error (sthr A) t) as [a|]; cbn [option_map]; [|reflexivity].
  fold ss. rewrite ststep_conc. destruct (ststep t (ssh A) a) as [[[s' a'] ev]|]; [|reflexivity].
  cbn [ssh sthr sh thr]. rewrite upd_nth_map. reflexivity.
Qed.

Definition sinit (clients : list (list cop)) : sstate :=
  {| ssh := init_shared; sthr := map (sstart 0 []) clients |}.
Lemma sinit_conc clients : init reviewed_prog KSpin clients = sconc (sinit clients).
Proof.
  unfold init, sconc, sinit; cbn [sh thr ssh sthr cls_of spin_cls reviewed_prog]. f_equal.
  rewrite map_map. apply map_ext. intros ops. apply sstart_conc.
Qed.

(* well-bracketed: the unlock of thread t is executed only with positive ghost depth *)
Definition swb (A : sstate) (t : nat) : bool :=
  match sth_at A t with
  | Some a => match spc_of a with QU => 0 <? sdepth a | _ => true end
  | None => true
  end.
Lemma swb_conc A t : wb_ok KSpin (sconc A) t = swb A t.
Proof.
  unfold wb_ok, swb, sth_at, sconc; cbn [thr]. rewrite nth_error_map.
  destruct (nth_error (sthr A) t) as [a|]; cbn [option_map]; [|reflexivity].
  destruct a as [p r d o f]; destruct p as [| |[]|]; reflexivity.
Qed.

Definition smstep (t : nat) (m : sstate * hb) : option (sstate * hb) :=
  match sstep t (fst m) with
  | Some (A', ev) => Some (A', hb_step (snd m) t ev)
  | None => None
  end.

Inductive sreach (clients : list (list cop)) : sstate * hb -> Prop :=
| sreach_init : sreach clients (sinit clients, hb_init)
| sreach_step m m' t : sreach clients m -> swb (fst m) t = true -> smstep t m = Some m' -> sreach clients m'.

Lemma smstep_conc t A h :
  mstep reviewed_prog KSpin t (sconc A, h) =
  match smstep t (A, h) with Some (A', h') => Some (sconc A', h') | None => None end.
Proof.
  unfold mstep, smstep; cbn [fst snd]. rewrite sstep_conc.
  destruct (sstep t A) as [[A' ev]|]; reflexivity.
Qed.

Theorem sreach_abs clients m :
  reach reviewed_prog KSpin clients m -> exists A, fst m = sconc A /\ sreach clients (A, snd m).
Proof.
  induction 1 as [|m m' t _ IH Hwb Hs].
  - exists (sinit clients). split; [apply sinit_conc | constructor].
  - destruct IH as (A & HA & HR). destruct m as [s h]; cbn [fst snd] in *. subst s.
    rewrite smstep_conc in Hs. destruct (smstep t (A, h)) as [[A' h']|] eqn:E; [|discriminate].
    injection Hs as <-. exists A'. split; [reflexivity|]. econstructor; eauto.
    cbn [fst]. rewrite <- swb_conc. exact Hwb.
Qed.

Theorem sabs_reach clients A h :
  sreach clients (A, h) -> reach reviewed_prog KSpin clients (sconc A, h).
Proof.
  intros H. remember (A, h) as m eqn:E. revert A h E.
  induction H as [|m m' t _ IH Hwb Hs]; intros A h E.
  - injection E as <- <-. unfold minit in *. rewrite <- sinit_conc. constructor.
  - subst m'. destruct m as [A0 h0]. eapply reach_step; [apply IH; reflexivity | |].
    + cbn [fst] in *. rewrite swb_conc. exact Hwb.
    + rewrite smstep_conc, Hs. reflexivity.
Qed.

(* ---- the invariant *)
Definition sinv (A : sstate) (h : hb) : Prop :=
  race h = false /\ (forall t, view h t <= gen h) /\ pub h <= gen h /\
  if flag (ssh A)
  then exists w a cs, sth_at A w = Some a /\ sdepth a = 1 /\
         (forall t b, t <> w -> sth_at A t = Some b -> sdepth b = 0) /\
         sec h w = Some cs /\ gen h = cs + 1 /\ cs <= view h w /\
         (forall t, t <> w -> sec h t = None) /\ last_below (lastD h) cs (Some w)
  else (forall t b, sth_at A t = Some b -> sdepth b = 0) /\
       pub h = gen h /\ (forall t, sec h t = None) /\ last_below (lastD h) (gen h) None.

Lemma sstart_depth d o r : sdepth (sstart d o r) = d.
Proof. destruct r as [|[] r]; reflexivity. Qed.
Lemma sfin_depth a op v : sdepth (sfin a op v) = fst (complete op v (sdepth a) (sout a)).
Proof. unfold sfin. destruct (complete op v (sdepth a) (sout a)). apply sstart_depth. Qed.

Lemma sth_upd_same A t a' s' b :
  sth_at A t = Some b -> sth_at {| ssh := s'; sthr := upd_nth (sthr A) t a' |} t = Some a'.
Proof. unfold sth_at; cbn. apply nth_error_upd_same. Qed.
Lemma sth_upd_other A t u a' s' :
  t <> u -> sth_at {| ssh := s'; sthr := upd_nth (sthr A) t a' |} u = sth_at A u.
Proof. unfold sth_at; cbn. apply nth_error_upd_other. Qed.

(* a step of t that keeps t's depth keeps everybody's depth *)
Lemma depths_keep A t a a' s' (P : nat -> N -> Prop) :
  sth_at A t = Some a -> sdepth a' = sdepth a ->
  (forall u b, sth_at A u = Some b -> P u (sdepth b)) ->
  forall u b, sth_at {| ssh := s'; sthr := upd_nth (sthr A) t a' |} u = Some b -> P u (sdepth b).
Proof.
  intros Ht Hd H u b Hb. destruct (Nat.eq_dec t u) as [->|Hne].
  - rewrite (sth_upd_same _ _ _ _ _ Ht) in Hb. injection Hb as <-. rewrite Hd. eauto.
  - rewrite sth_upd_other in Hb by auto. eauto.
Qed.

Lemma sinv_step t A A' ev h :
  sinv A h -> swb A t = true -> sstep t A = Some (A', ev) -> sinv A' (hb_step h t ev).
Proof.
  intros (Hr & Hv & Hp & Hf) Hwb Hs. unfold sstep in Hs. fold (sth_at A t) in Hs.
  unfold swb in Hwb.
  destruct (sth_at A t) as [a|] eqn:Ht; [|discriminate].
  destruct (ststep t (ssh A) a) as [[[s' a'] ev']|] eqn:Ea; [|discriminate].
  injection Hs as <- <-. unfold ststep in Ea. unfold sinv. cbn [ssh].
  (* depth facts in a uniform shape *)
  set (D0 := fun (B : sstate) (w : option nat) => forall u b, Some u <> w -> sth_at B u = Some b -> sdepth b = 0).
  assert (HD0keep : forall w a2 s2, sdepth a2 = sdepth a -> D0 A w ->
             D0 {| ssh := s2; sthr := upd_nth (sthr A) t a2 |} w).
  { intros w a2 s2 Hd H u b Hu Hb. destruct (Nat.eq_dec t u) as [->|Hne].
    - rewrite (sth_upd_same _ _ _ _ _ Ht) in Hb. injection Hb as <-. rewrite Hd. eapply H; eauto.
    - rewrite sth_upd_other in Hb by auto. eapply H; eauto. }
  destruct (spc_of a) as [| |c|] eqn:Ep; try discriminate Ea.
  - (* QAcc *)
    injection Ea as <- <- <-.
    assert (Hda : sdepth (sfin a CAccess None) = sdepth a) by (rewrite sfin_depth; reflexivity).
    destruct (flag (ssh A)) eqn:Ef.
    + destruct Hf as (w & aw & cs & Hw & Hdw & Hoth & Hs1 & Hg & Hcv & Hn & HD).
      destruct (Nat.eq_dec t w) as [->|Hne].
      * (* the holder accesses the data *)
        rewrite Hw in Ht. injection Ht as ->. rewrite Hdw. cbn [N.ltb N.compare hb_step].
        assert (Hord : ordered h w (lastD h) = true) by (eapply last_below_ordered; eauto).
        cbn [last_of race pub gen view sec lastD]. rewrite Hord, Hr.
        split; [reflexivity|]. split; [auto|]. split; [auto|].
        exists w, (sfin a CAccess None), cs. split; [eapply sth_upd_same; eauto|].
        split; [congruence|]. split.
        { intros u b Hu Hb. rewrite sth_upd_other in Hb by auto. eauto. }
        rewrite Hs1. repeat (split; [auto|]).
        unfold last_below. exists cs. split; [reflexivity | right; split; reflexivity].
      * (* somebody else: depth 0, no access *)
        rewrite (Hoth t a Hne Ht). cbn [N.ltb N.compare hb_step].
        split; [auto|]. split; [auto|]. split; [auto|].
        exists w, aw, cs. split; [rewrite sth_upd_other; auto|]. split; [auto|]. split; [|auto 10].
        intros u b Hu Hb. destruct (Nat.eq_dec t u) as [->|Hne2].
        -- rewrite (sth_upd_same _ _ _ _ _ Ht) in Hb. injection Hb as <-. rewrite Hda. eauto.
        -- rewrite sth_upd_other in Hb by auto. eauto.
    + destruct Hf as (Hall & Hpg & Hsec & HD).
      rewrite (Hall t a Ht). cbn [N.ltb N.compare hb_step].
      split; [auto|]. split; [auto|]. split; [auto|]. split; [|auto].
      intros u b Hb. destruct (Nat.eq_dec t u) as [->|Hne2].
      * rewrite (sth_upd_same _ _ _ _ _ Ht) in Hb. injection Hb as <-. rewrite Hda. eauto.
      * rewrite sth_upd_other in Hb by auto. eauto.
  - (* QT: test_and_set *)
    assert (Ea' : s' = set_flag (ssh A) true /\ ev' = EvTas Acquire (flag (ssh A)) /\
                  a' = (if flag (ssh A)
                        then match c with Direct => sfin a CTry (Some false) | InLock => sgoto a (QT InLock) end
                        else match c with Direct => sfin a CTry (Some true) | InLock => sfin a CLock None end)).
    { destruct c; injection Ea as <- <- <-; destruct (flag (ssh A)); auto. }
    destruct Ea' as (-> & -> & ->). clear Ea. cbn [flag set_flag hb_step is_acquire race pub gen view sec lastD].
    destruct (flag (ssh A)) eqn:Ef.
    + (* fails *)
      destruct Hf as (w & aw & cs & Hw & Hdw & Hoth & Hs1 & Hg & Hcv & Hn & HD).
      set (a2 := match c with Direct => sfin a CTry (Some false) | InLock => sgoto a (QT InLock) end).
      assert (Hda : sdepth a2 = sdepth a) by (unfold a2; destruct c; [rewrite sfin_depth|]; reflexivity).
      split; [auto|]. split. { intros u. unfold updf. destruct (Nat.eqb u t); auto. specialize (Hv t). lia. }
      split; [auto|].
      destruct (Nat.eq_dec t w) as [->|Hne].
      * rewrite Hw in Ht. injection Ht as ->.
        exists w, a2, cs. split; [eapply sth_upd_same; eauto|]. split; [congruence|]. split.
        { intros u b Hu Hb. rewrite sth_upd_other in Hb by auto. eauto. }
        split; [auto|]. split; [auto|]. split; [rewrite updf_same; lia|]. auto.
      * exists w, aw, cs. split; [rewrite sth_upd_other; auto|]. split; [auto|]. split.
        { intros u b Hu Hb. destruct (Nat.eq_dec t u) as [->|Hne2].
          - rewrite (sth_upd_same _ _ _ _ _ Ht) in Hb. injection Hb as <-. rewrite Hda. eauto.
          - rewrite sth_upd_other in Hb by auto. eauto. }
        split; [auto|]. split; [auto|]. split; [rewrite updf_other; auto|]. auto.
    + (* wins *)
      destruct Hf as (Hall & Hpg & Hsec & HD).
      set (a2 := match c with Direct => sfin a CTry (Some true) | InLock => sfin a CLock None end).
      assert (Hda : sdepth a2 = 1).
      { unfold a2; destruct c; rewrite sfin_depth, (Hall t a Ht); reflexivity. }
      split; [auto|]. split.
      { intros u. unfold updf. destruct (Nat.eqb u t); [specialize (Hv t)|specialize (Hv u)]; lia. }
      split; [lia|].
      exists t, a2, (gen h). split; [eapply sth_upd_same; eauto|]. split; [auto|]. split.
      { intros u b Hu Hb. rewrite sth_upd_other in Hb by auto. eauto. }
      rewrite !updf_same. split; [auto|]. split; [auto|]. split; [lia|]. split.
      { intros u Hu. rewrite updf_other by auto. apply Hsec. }
      apply last_below_open; auto.
  - (* QU: clear, by the holder (well-bracketed) *)
    injection Ea as <- <- <-. apply N.ltb_lt in Hwb.
    cbn [flag set_flag hb_step is_release race pub gen view sec lastD].
    destruct (flag (ssh A)) eqn:Ef.
    + destruct Hf as (w & aw & cs & Hw & Hdw & Hoth & Hs1 & Hg & Hcv & Hn & HD).
      destruct (Nat.eq_dec t w) as [->|Hne]; [|rewrite (Hoth t a Hne Ht) in Hwb; lia].
      rewrite Hw in Ht. injection Ht as ->.
      assert (Hpub : published h w = gen h).
      { unfold published. rewrite Hs1. replace (cs <=? view h w) with true by (symmetry; apply N.leb_le; auto).
        specialize (Hv w). lia. }
      rewrite Hpub. split; [auto|]. split; [auto|]. split; [lia|]. split.
      { intros u b Hb. destruct (Nat.eq_dec w u) as [->|Hne2].
        - rewrite (sth_upd_same _ _ _ _ _ Hw) in Hb. injection Hb as <-. rewrite sfin_depth, Hdw. reflexivity.
        - rewrite sth_upd_other in Hb by auto. eauto. }
      split; [auto|]. split.
      { intros u. unfold updf. destruct (Nat.eqb u w) eqn:E; auto. apply Hn. apply Nat.eqb_neq; auto. }
      rewrite Hg. eapply last_below_close; eauto.
    + destruct Hf as (Hall & _). rewrite (Hall t a Ht) in Hwb. lia.
Qed.

Lemma sinv_init clients : sinv (sinit clients) hb_init.
Proof.
  unfold sinv, sinit, hb_init; cbn. split; [auto|]. split; [intros; lia|]. split; [lia|].
  split; [|split; [auto|split; [auto|exact I]]].
  intros t b Hb. unfold sth_at in Hb; cbn in Hb. apply nth_error_In, in_map_iff in Hb.
  destruct Hb as (ops & <- & _). apply sstart_depth.
Qed.

Theorem sinv_reach clients A h : sreach clients (A, h) -> sinv A h.
Proof.
  intros H. remember (A, h) as m eqn:E. revert A h E.
  induction H as [|m m' t Hr IH Hwb Hs]; intros A h E.
  - injection E as <- <-. apply sinv_init.
  - subst m'. destruct m as [A0 h0]. unfold smstep in Hs; cbn [fst snd] in *.
    destruct (sstep t A0) as [[A1 ev]|] eqn:Es; [|discriminate]. injection Hs as <- <-.
    eapply sinv_step; eauto.
Qed.
