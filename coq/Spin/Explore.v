(* C19 -- bounded explorer over the interleavings of a few threads, for ANY program of Lang.v
   (it is run on the REGENERATED Gen/SpinGen.v when [gen_matches] no longer holds, to search
   for a schedule on which the changed code violates the property).  It never stands in for a
   theorem.  Executable; no proofs here. *)
From Coq Require Import List NArith Bool Arith.
From PV Require Import Spin.Lang Spin.Sem Spin.RaceSem.
Import ListNotations.
Local Open Scope N_scope.

(* reasons (also printed by the driver) *)
Inductive reason :=
| BadMutex            (* two threads between a successful acquire and the matching unlock *)
| BadRace             (* unordered conflicting non-atomic accesses *)
| BadWrap             (* lock_count_ wrapped *)
| BadQuiescent        (* no operation in progress, yet lock state and holders disagree (lost/early unlock) *)
| BadOwnerTryFails    (* RecursiveSpinlock: try_lock by the owner returned false *)
| BadStuck            (* a thread cannot continue (ill-formed program) *)
| BadSideEffect       (* a non-owner's unlock / a failing acquire changed the lock *)
| BadNoAcquire.       (* test_and_set found the flag clear but the operation does not acquire *)

Definition shared_eqb (a b : shared) : bool :=
  Bool.eqb (flag a) (flag b) && (count a =? count b) &&
  match owner a, owner b with
  | Some x, Some y => Nat.eqb x y | None, None => true | _, _ => false end.

Definition tget (s : state) (t : nat) : option tstate := nth_error (thr s) t.

Definition quiescent (s : state) : bool :=
  forallb (fun ts => fresh ts) (thr s).

Definition consistent (k : kind) (s : state) : bool :=
  match holders s with
  | [] => negb (flag (sh s)) && (count (sh s) =? 0) && match owner (sh s) with None => true | _ => false end
  | [w] =>
      flag (sh s) &&
      match k with
      | KSpin => true
      | KRSpin =>
          match owner (sh s), tget s w with
          | Some o, Some ts => Nat.eqb o w && (count (sh s) =? depth ts)
          | _, _ => false
          end
      end
  | _ => false
  end.

Definition is_acq (o : option cop) : bool :=
  match o with Some CTry | Some CLock => true | _ => false end.

(* run thread t alone until the operation it is in completes (at most n steps): the ghost
   depth or the try_lock log changes, or the thread is done *)
Fixpoint solo (p : prog) (k : kind) (t : nat) (n : nat) (d0 : N) (o0 : nat) (m : mstate) : mstate :=
  match n with
  | O => m
  | S n' =>
      match tget (fst m) t with
      | Some ts => if negb (depth ts =? d0) || negb (Nat.eqb (length (out ts)) o0) then m
                   else match mstep p k t m with Some m' => solo p k t n' d0 o0 m' | None => m end
      | None => m
      end
  end.

(* judge one step  m --t--> m'  *)
Definition judge (p : prog) (k : kind) (m : mstate) (t : nat) (ev : event) (m' : mstate) : option reason :=
  let s := fst m in let s' := fst m' in
  match tget s t, tget s' t with
  | Some ts, Some ts' =>
      if Nat.leb 2 (length (holders s')) then Some BadMutex
      else if race (snd m') then Some BadRace
      else if ovf (sh s') || unf (sh s') then Some BadWrap
      else if existsb (fun x => match foc x with FStuck => true | _ => false end) (thr s') then Some BadStuck
      else if quiescent s' && negb (consistent k s') then Some BadQuiescent
      else if match k with KRSpin => true | KSpin => false end
              && (0 <? depth ts) && Nat.ltb (length (out ts)) (length (out ts'))
              && match out ts' with false :: _ => true | _ => false end
              && match cur ts with Some CTry => true | _ => false end then Some BadOwnerTryFails
      else if (depth ts =? 0) && negb (shared_eqb (sh s) (sh s'))
              && ((match k, cur ts with KRSpin, Some CUnlock => true | _, _ => false end)
                  || (is_acq (cur ts) && existsb (fun u => negb (Nat.eqb u t)) (holders s)))
           then Some BadSideEffect
      else match ev with
           | EvTas _ false =>
               if is_acq (cur ts) && (depth ts =? 0) then
                 let m2 := solo p k t 8 (depth ts) (length (out ts)) m' in
                 match tget (fst m2) t with
                 | Some ts2 => if (depth ts2 =? 1) || Nat.leb 2 (length (holders (fst m2))) then None
                               else Some BadNoAcquire
                 | None => None
                 end
               else None
           | _ => None
           end
  | _, _ => None
  end.

Definition mstep_ev (p : prog) (k : kind) (t : nat) (m : mstate) : option (mstate * event) :=
  match step p k t (fst m) with
  | Some (s', ev) => Some ((s', hb_step (snd m) t ev), ev)
  | None => None
  end.

(* one SCHEDULER step of thread t: its next access, and -- because the real code has no
   scheduling point between the load and the store of ++lock_count_ / --lock_count_ -- the
   store half as well when the access was the load half.  Each micro step is judged. *)
Definition mid_rmw (s : state) (t : nat) : bool :=
  match tget s t with
  | Some ts => match foc ts with FIncW _ _ | FDecW _ _ _ => true | _ => false end
  | None => false
  end.

Definition adv (p : prog) (k : kind) (t : nat) (m : mstate) : option (mstate * option reason) :=
  match mstep_ev p k t m with
  | None => None
  | Some (m1, ev1) =>
      match judge p k m t ev1 m1 with
      | Some why => Some (m1, Some why)
      | None =>
          if mid_rmw (fst m1) t then
            match mstep_ev p k t m1 with
            | Some (m2, ev2) => Some (m2, judge p k m1 t ev2 m2)
            | None => Some (m1, None)
            end
          else Some (m1, None)
      end
  end.

(* depth-first search; returns the schedule (in order) and the reason *)
Fixpoint dfs (p : prog) (k : kind) (n : nat) (d : nat) (m : mstate) (pre : list nat)
  : option (list nat * reason) :=
  match d with
  | O => None
  | S d' =>
      (fix try (ts : list nat) : option (list nat * reason) :=
         match ts with
         | [] => None
         | t :: r =>
             let here :=
               if wb_ok k (fst m) t then
                 match adv p k t m with
                 | Some (m', Some why) => Some (rev (t :: pre), why)
                 | Some (m', None) => dfs p k n d' m' (t :: pre)
                 | None => None
                 end
               else None in
             match here with Some x => Some x | None => try r end
         end) (seq 0 n)
  end.

Definition explore (p : prog) (k : kind) (clients : list (list cop)) (d : nat) : option (list nat * reason) :=
  dfs p k (length clients) d (minit p k clients) [].

(* replay of one schedule with a per-step judgement: first failing prefix length and reason *)
Fixpoint judge_run (p : prog) (k : kind) (sched : list nat) (m : mstate) (i : nat) : option (nat * reason) :=
  match sched with
  | [] => None
  | t :: r =>
      match adv p k t m with
      | Some (m', Some why) => Some (S i, why)
      | Some (m', None) => judge_run p k r m' (S i)
      | None => judge_run p k r m (S i)
      end
  end.
