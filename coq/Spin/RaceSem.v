(* C19 -- happens-before monitor over the events of Sem.v (scalar-clock formulation of
   design/prototypes/Race.v, now parameterised by the memory orders found in the program).

   All synchronisation considered goes through the one flag `ready_`.  Critical sections are
   numbered by the winning test_and_set (flag was clear) that opens them.  [view t] = n means:
   every access made in a section numbered < n happens-before thread t's current point.
     * test_and_set(o) with an acquire order raises view t to what the latest clear published
       (a test_and_set is a read-modify-write, so it continues the release sequence of that
       clear: the published value stays in place);
     * clear(o) with a release order publishes what t knows: its view, plus its own section cs
       when that is contiguous (cs <= view t); a clear without release order publishes nothing
       (0) -- conservative;  the thread's section is closed by its clear;
     * relaxed accesses of the atomic owner id neither race nor synchronise.
   A non-atomic access (protected data, lock_count_, or the owner id when it is a plain field)
   by t is ORDERED after the previous access (j,u) to the same location iff u = t or that
   access was made in a section j < view t (accesses made outside any section are never
   ordered with another thread's).  Every pair of accesses to a location counts as
   conflicting (reads included) -- conservative.  [race] is sticky.
   The scalar abstraction is exact as long as sections do not overlap (mutual exclusion);
   the explorer reports overlapping sections separately.  No proofs here. *)
From Coq Require Import List NArith Bool Arith.
From PV Require Import Spin.Lang Spin.Sem.
Import ListNotations.
Local Open Scope N_scope.

Definition updf {A} (f : nat -> A) (t : nat) (v : A) : nat -> A :=
  fun u => if Nat.eqb u t then v else f u.

Record hb := {
  pub : N;                       (* published by the latest clear *)
  gen : N;                       (* number of sections opened so far *)
  view : nat -> N;
  sec : nat -> option N;         (* the open section of a thread *)
  lastD : option (option N * nat);   (* (section, thread) of the last access to the protected data *)
  lastC : option (option N * nat);   (* ... to lock_count_ *)
  lastO : option (option N * nat);   (* ... to locked_thread_id_ when it is a plain field *)
  race : bool
}.

Definition hb_init : hb :=
  {| pub := 0; gen := 0; view := fun _ => 0; sec := fun _ => None;
     lastD := None; lastC := None; lastO := None; race := false |}.

Definition ordered (h : hb) (t : nat) (prev : option (option N * nat)) : bool :=
  match prev with
  | None => true
  | Some (j, u) => Nat.eqb u t || match j with Some j' => j' <? view h t | None => false end
  end.

Definition published (h : hb) (t : nat) : N :=
  match sec h t with
  | Some cs => if cs <=? view h t then N.max (view h t) (cs + 1) else view h t
  | None => view h t
  end.

Definition last_of (h : hb) (l : loc) :=
  match l with LData => lastD h | LCount => lastC h | LOwner => lastO h end.

Definition hb_step (h : hb) (t : nat) (ev : event) : hb :=
  match ev with
  | EvTas o was_set =>
      let v := if is_acquire o then N.max (view h t) (pub h) else view h t in
      {| pub := pub h; gen := if was_set then gen h else gen h + 1;
         view := updf (view h) t v;
         sec := if was_set then sec h else updf (sec h) t (Some (gen h));
         lastD := lastD h; lastC := lastC h; lastO := lastO h; race := race h |}
  | EvClear o =>
      {| pub := if is_release o then published h t else 0; gen := gen h; view := view h;
         sec := updf (sec h) t None;
         lastD := lastD h; lastC := lastC h; lastO := lastO h; race := race h |}
  | EvPlain l =>
      let r := race h || negb (ordered h t (last_of h l)) in
      let me := Some (sec h t, t) in
      {| pub := pub h; gen := gen h; view := view h; sec := sec h;
         lastD := match l with LData => me | _ => lastD h end;
         lastC := match l with LCount => me | _ => lastC h end;
         lastO := match l with LOwner => me | _ => lastO h end;
         race := r |}
  | EvAtomicOwner _ | EvNone => h
  end.

(* the product: program state + monitor *)
Definition mstate := (state * hb)%type.

Definition mstep (p : prog) (k : kind) (t : nat) (m : mstate) : option mstate :=
  match step p k t (fst m) with
  | Some (s', ev) => Some (s', hb_step (snd m) t ev)
  | None => None
  end.

Definition minit (p : prog) (k : kind) (clients : list (list cop)) : mstate := (init p k clients, hb_init).

(* reachable states: any schedule; for Spinlock only steps of well-bracketed clients *)
Inductive reach (p : prog) (k : kind) (clients : list (list cop)) : mstate -> Prop :=
| reach_init : reach p k clients (minit p k clients)
| reach_step m m' t : reach p k clients m -> wb_ok k (fst m) t = true ->
    mstep p k t m = Some m' -> reach p k clients m'.

(* run a schedule (entries that name a thread that cannot move are skipped) *)
Fixpoint run (p : prog) (k : kind) (sched : list nat) (m : mstate) : mstate :=
  match sched with
  | [] => m
  | t :: r => match mstep p k t m with Some m' => run p k r m' | None => run p k r m end
  end.
