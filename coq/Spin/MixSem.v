(* C19 -- fine-grained interleaving semantics of Identifiable's constructor / destructor /
   get_object as translated (MixLang.v): any number of threads, each running an arbitrary list
   of operations create(p) | destroy(p) | get_object(i); one translated instruction per step
   (`next_id_++` is two steps: load, store); MLock blocks while another thread holds the
   class-wide mutex; leaving the function (end of the body, return, throw) releases it.
   Registry.v is the ATOMIC model (one step per operation); MixProofs.v proves that for the
   reviewed bodies every fine-grained execution is an atomic one.
   The shared state is the [reg] of Registry.v.  An operation whose precondition (create: the
   address is not occupied by a live object; destroy: the object is live) does not hold when it
   takes the mutex AS ITS FIRST ACTION is dropped -- such calls do not exist in C++.
   Also: a bounded explorer used when gen_matches_mixins breaks.  Executable; no proofs. *)
From Coq Require Import List NArith Bool Arith.
From PV Require Import Spin.Registry Spin.MixLang Spin.Sem.
Import ListNotations.
Local Open Scope N_scope.

Record mth := {
  code : list mi;            (* rest of the body of the operation in progress *)
  mop : option rop;          (* the operation in progress *)
  held : bool;               (* this thread's lock_guard holds mutex_ *)
  tmp : option N;            (* value of next_id_ loaded by the first half of next_id_++ *)
  fnd : option N;            (* result of objects_.find *)
  todo : list rop;
  mfresh : bool             (* no instruction of the current operation executed yet *)
}.

Record fstate := {
  shr : reg;
  mtx : option nat;
  unguarded : bool;          (* sticky: next_id_/objects_ touched by a thread that does not hold mutex_ *)
  ths : list mth
}.

Definition body (P : mixins) (o : rop) : list mi :=
  match o with
  | RCreate _ => id_ctor P | RDestroy _ => id_dtor P | RGet _ => id_get P | _ => []
  end.

Definition applicable (r : reg) (o : rop) : bool :=
  match o with
  | RCreate p => match lookup (live r) p with None => true | Some _ => false end
  | RDestroy p => match lookup (live r) p with None => false | Some _ => true end
  | RGet _ => true
  | _ => false
  end.

(* next operation of the client (the default-slot operations are not part of this model) *)
Fixpoint mstart (P : mixins) (ops : list rop) : mth :=
  match ops with
  | [] => {| code := []; mop := None; held := false; tmp := None; fnd := None; todo := []; mfresh := true |}
  | (RCreate _ | RDestroy _ | RGet _) as o :: r =>
      {| code := body P o; mop := Some o; held := false; tmp := None; fnd := None; todo := r; mfresh := true |}
  | _ :: r => mstart P r
  end.

Definition with_code (th : mth) (c : list mi) : mth :=
  {| code := c; mop := mop th; held := held th; tmp := tmp th; fnd := fnd th; todo := todo th; mfresh := false |}.

(* effect of the store half of id_ = next_id_++ on the registry: next_id_, and the object's id_ *)
Definition taken (r : reg) (p n : N) : reg :=
  {| next_id := (n + 1) mod P64; objects := objects r; dflt := dflt r; live := (p, n) :: live r |}.
Definition emplaced (r : reg) (p : N) : reg :=
  match lookup (live r) p with
  | Some i => {| next_id := next_id r; objects := emplace (objects r) i p; dflt := dflt r; live := live r |}
  | None => r
  end.
Definition erased (r : reg) (p : N) : reg :=
  match reg_step r (RDestroy p) with Some (r', _) => r' | None => r end.

Definition addr_of (o : option rop) : N :=
  match o with Some (RCreate p) | Some (RDestroy p) => p | _ => 0 end.
Definition key_of (o : option rop) : N := match o with Some (RGet i) => i | _ => 0 end.

(* result of one instruction of thread t: new registry, new mutex, touched shared data?, new thread
   ([None] in the last component = the function is left: return / throw / end of body) *)
Definition mexec (t : nat) (r : reg) (m : option nat) (th : mth)
  : option (reg * option nat * bool * option mth) :=
  match code th with
  | [] => None
  | MLock :: c =>
      match m with
      | Some _ => None                                              (* blocked *)
      | None =>
          if negb (mfresh th) || applicable r (match mop th with Some o => o | None => RGetDefault end)
          then Some (r, Some t, false,
                     Some {| code := c; mop := mop th; held := true; tmp := tmp th; fnd := fnd th; todo := todo th; mfresh := false |})
          else Some (r, None, false, None)                          (* impossible call: dropped *)
      end
  | MUnlock :: c =>
      Some (r, if held th then None else m, false,
            Some {| code := c; mop := mop th; held := false; tmp := tmp th; fnd := fnd th; todo := todo th; mfresh := false |})
  | MTakeId :: c =>
      match tmp th with
      | None => Some (r, m, true,
                      Some {| code := code th; mop := mop th; held := held th; tmp := Some (next_id r);
                              fnd := fnd th; todo := todo th; mfresh := false |})
      | Some n => Some (taken r (addr_of (mop th)) n, m, true,
                        Some {| code := c; mop := mop th; held := held th; tmp := None; fnd := fnd th; todo := todo th; mfresh := false |})
      end
  | MEmplace :: c => Some (emplaced r (addr_of (mop th)), m, true, Some (with_code th c))
  | MErase :: c => Some (erased r (addr_of (mop th)), m, true, Some (with_code th c))
  | MFind :: c =>
      Some (r, m, true,
            Some {| code := c; mop := mop th; held := held th; tmp := tmp th;
                    fnd := lookup (objects r) (key_of (mop th)); todo := todo th; mfresh := false |})
  | MThrowIfEnd :: c =>
      match fnd th with
      | None => Some (r, m, false, None)
      | Some _ => Some (r, m, false, Some (with_code th c))
      end
  | MRetFound :: _ => Some (r, m, false, None)
  | (MClearDefaultIfThis | MThrowIfNoDefault | MRetDefault | MSetDefault) :: c =>
      Some (r, m, false, Some (with_code th c))                     (* not part of this model *)
  end.

Definition fstep (P : mixins) (t : nat) (s : fstate) : option fstate :=
  match nth_error (ths s) t with
  | None => None
  | Some th =>
      match mexec t (shr s) (mtx s) th with
      | None => None
      | Some (r', m', touched, oth) =>
          let ung := unguarded s || (touched && negb (held th)) in
          match oth with
          | Some th' =>
              match code th' with
              | [] => (* end of the body: the guard goes out of scope, next operation *)
                  Some {| shr := r'; mtx := if held th' then None else m'; unguarded := ung;
                          ths := upd_nth (ths s) t (mstart P (todo th')) |}
              | _ => Some {| shr := r'; mtx := m'; unguarded := ung; ths := upd_nth (ths s) t th' |}
              end
          | None => (* return / throw: the guard is destroyed *)
              Some {| shr := r'; mtx := if held th then None else m'; unguarded := ung;
                      ths := upd_nth (ths s) t (mstart P (todo th)) |}
          end
      end
  end.

Definition finit (P : mixins) (clients : list (list rop)) : fstate :=
  {| shr := reg_init; mtx := None; unguarded := false; ths := map (mstart P) clients |}.

(* the store half of next_id_++ does not wrap (fewer than 2^64 - 1 objects created) *)
Definition no_wrap (s : fstate) (t : nat) : bool :=
  match nth_error (ths s) t with
  | Some th => match code th, tmp th with MTakeId :: _, Some n => n + 1 <? P64 | _, _ => true end
  | None => true
  end.

Inductive freach (P : mixins) (clients : list (list rop)) : fstate -> Prop :=
| freach_init : freach P clients (finit P clients)
| freach_step s s' t : freach P clients s -> no_wrap s t = true -> fstep P t s = Some s' ->
    freach P clients s'.

(* ---------------------------------------------------------------- explorer *)
Inductive mreason :=
| MBadUnresolvable      (* a live object's id does not resolve to it (duplicate ids included) *)
| MBadDeadResolvable    (* an id in objects_ does not belong to a live object *)
| MBadUnguarded.        (* next_id_/objects_ touched without holding mutex_ *)

Definition consistent_reg (r : reg) : bool :=
  forallb (fun pi => match lookup (objects r) (snd pi) with Some q => q =? fst pi | None => false end) (live r) &&
  forallb (fun ip => match lookup (live r) (snd ip) with Some j => j =? fst ip | None => false end) (objects r).

Definition quiescent_f (s : fstate) : bool :=
  match mtx s with
  | Some _ => false
  | None => forallb mfresh (ths s)
  end.

Definition mjudge (strict : bool) (s : fstate) : option mreason :=
  if quiescent_f s && negb (consistent_reg (shr s)) then
    if negb (forallb (fun pi => match lookup (objects (shr s)) (snd pi) with Some q => q =? fst pi | None => false end)
                     (live (shr s)))
    then Some MBadUnresolvable else Some MBadDeadResolvable
  else if strict && unguarded s then Some MBadUnguarded
  else None.

Fixpoint mdfs (P : mixins) (strict : bool) (n d : nat) (s : fstate) (pre : list nat) : option (list nat * mreason) :=
  match d with
  | O => None
  | S d' =>
      (fix try (ts : list nat) : option (list nat * mreason) :=
         match ts with
         | [] => None
         | t :: r =>
             let here :=
               match fstep P t s with
               | Some s' =>
                   match mjudge strict s' with
                   | Some why => Some (rev (t :: pre), why)
                   | None => mdfs P strict n d' s' (t :: pre)
                   end
               | None => None
               end in
             match here with Some x => Some x | None => try r end
         end) (seq 0 n)
  end.

Definition mexplore (P : mixins) (strict : bool) (clients : list (list rop)) (d : nat) : option (list nat * mreason) :=
  mdfs P strict (length clients) d (finit P clients) [].

(* run a schedule (entries that cannot move -- blocked, idle, wrapping -- are skipped) *)
Fixpoint frun (P : mixins) (sched : list nat) (s : fstate) : fstate :=
  match sched with
  | [] => s
  | t :: r => if no_wrap s t then match fstep P t s with Some s' => frun P r s' | None => frun P r s end
              else frun P r s
  end.
