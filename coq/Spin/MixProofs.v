(* C19 -- Identifiable: for the REVIEWED bodies (MixLang.reviewed_mixins) every access to
   next_id_ / objects_ happens while the thread holds mutex_, and therefore every fine-grained
   interleaving (MixSem.v: any number of threads, arbitrary operation lists, one translated
   instruction per step) is an execution of the ATOMIC model of Registry.v: whenever the
   mutex is free the registry is a state reachable by atomic create/destroy/get steps, so the
   theorems of RegistryProofs.v (ids unique, resolvable, never reused) hold there. *)
From Coq Require Import List NArith Bool Arith Lia.
From PV Require Import Spin.Registry Spin.RegistryProofs Spin.MixLang Spin.Sem Spin.MixSem Spin.AbsRSpin.
Import ListNotations.
Local Open Scope N_scope.

Definition R := reviewed_mixins.

(* position of the thread that holds the mutex, relative to the registry r *)
Definition mid (th : mth) (r : reg) : Prop :=
  held th = true /\
  match mop th with
  | Some (RCreate p) =>
      (code th = [MTakeId; MEmplace; MUnlock] /\ (tmp th = None \/ tmp th = Some (next_id r)) /\
       rreach r /\ lookup (live r) p = None) \/
      (code th = [MEmplace; MUnlock] /\
       exists r0, rreach r0 /\ lookup (live r0) p = None /\ next_id r0 + 1 < P64 /\ r = taken r0 p (next_id r0)) \/
      (code th = [MUnlock] /\ rreach r)
  | Some (RDestroy p) =>
      (code th = [MErase; MUnlock] /\ rreach r /\ lookup (live r) p <> None) \/
      (code th = [MUnlock] /\ rreach r)
  | Some (RGet i) =>
      rreach r /\ (code th = [MFind; MThrowIfEnd; MRetFound; MUnlock] \/
                   code th = [MThrowIfEnd; MRetFound; MUnlock] \/ code th = [MRetFound; MUnlock])
  | _ => False
  end.

Definition at_rest (th : mth) : Prop := exists ops, th = mstart R ops.

Definition finv (s : fstate) : Prop :=
  unguarded s = false /\
  match mtx s with
  | None => rreach (shr s) /\ forall t th, nth_error (ths s) t = Some th -> at_rest th
  | Some w => exists th, nth_error (ths s) w = Some th /\ mid th (shr s) /\
                         forall t th', t <> w -> nth_error (ths s) t = Some th' -> at_rest th'
  end.

Lemma mstart_cases ops :
  code (mstart R ops) = [] \/
  exists o r, ((exists p, o = RCreate p) \/ (exists p, o = RDestroy p) \/ (exists i, o = RGet i)) /\
    mstart R ops = {| code := body R o; mop := Some o; held := false; tmp := None; fnd := None; todo := r; mfresh := true |}.
Proof.
  induction ops as [|o r IH]; [left; reflexivity|].
  destruct o as [p|p|i|p|]; cbn [mstart]; try exact IH; right.
  - exists (RCreate p), r. split; [left; eauto | reflexivity].
  - exists (RDestroy p), r. split; [right; left; eauto | reflexivity].
  - exists (RGet i), r. split; [right; right; eauto | reflexivity].
Qed.

Lemma rest_upd s t th0 (P : nat -> Prop) r' m' u' ops :
  nth_error (ths s) t = Some th0 ->
  (forall u th, P u -> nth_error (ths s) u = Some th -> at_rest th) ->
  forall u th, (u = t \/ P u) ->
    nth_error (ths {| shr := r'; mtx := m'; unguarded := u'; ths := upd_nth (ths s) t (mstart R ops) |}) u = Some th ->
    at_rest th.
Proof.
  intros Ht H u th Hu Hn. cbn [ths] in Hn. destruct (Nat.eq_dec t u) as [->|Hne].
  - rewrite (nth_error_upd_same _ _ _ _ Ht) in Hn. injection Hn as <-. exists ops. reflexivity.
  - rewrite nth_error_upd_other in Hn by auto. destruct Hu as [->|Hu]; [congruence|]. eapply H; eauto.
Qed.

Lemma create_step r0 p :
  lookup (live r0) p = None ->
  reg_step r0 (RCreate p) = Some (emplaced (taken r0 p (next_id r0)) p, Some (next_id r0)).
Proof.
  intros Hl. cbn [reg_step]. rewrite Hl. unfold emplaced, taken; cbn [live lookup next_id objects dflt].
  rewrite N.eqb_refl. reflexivity.
Qed.

Lemma finv_step s s' t : finv s -> no_wrap s t = true -> fstep R t s = Some s' -> finv s'.
Proof.
  intros [Hu Hm] Hw Hs. unfold fstep in Hs. unfold no_wrap in Hw.
  destruct (nth_error (ths s) t) as [th|] eqn:Ht; [|discriminate].
  destruct (mtx s) as [w|] eqn:Em.
  - (* the mutex is held by w *)
    destruct Hm as (thw & Hw0 & Hmid & Hrest).
    destruct (Nat.eq_dec t w) as [->|Hne].
    + rewrite Hw0 in Ht. injection Ht as <-. destruct Hmid as [Hh Hmid].
      assert (Hrest' : forall r' m' u' ops u th',
                 (u = w \/ u <> w) ->
                 nth_error (ths {| shr := r'; mtx := m'; unguarded := u'; ths := upd_nth (ths s) w (mstart R ops) |}) u = Some th' ->
                 at_rest th').
      { intros. eapply (rest_upd s w thw (fun u => u <> w)); eauto. }
      assert (Hkeep : forall r' u' th2 u th',
                 u <> w ->
                 nth_error (ths {| shr := r'; mtx := Some w; unguarded := u'; ths := upd_nth (ths s) w th2 |}) u = Some th' ->
                 at_rest th').
      { intros r' u' th2 u th' Hu' Hn. cbn [ths] in Hn. rewrite nth_error_upd_other in Hn by auto. eauto. }
      assert (Hsame : forall r' m' u' th2,
                 nth_error (ths {| shr := r'; mtx := m'; unguarded := u'; ths := upd_nth (ths s) w th2 |}) w = Some th2).
      { intros. cbn [ths]. eapply nth_error_upd_same; eauto. }
      destruct thw as [c o h tm fn td fr]; cbn [held mop code tmp fnd todo mfresh] in *. subst h.
      destruct o as [[p|p|i|p|]|]; try contradiction.
      * (* constructor *)
        destruct Hmid as [(-> & Htm & Hr & Hl)|[(-> & r0 & Hr0 & Hl0 & Hnw & Hr)|(-> & Hr)]].
        -- destruct Htm as [->| ->]; unfold mexec in Hs; cbn [code tmp held mop addr_of fnd todo] in Hs.
           ++ injection Hs as <-. split; [cbn; rewrite Hu; reflexivity|]. cbn [mtx shr].
              eexists. split; [apply Hsame|]. split; [|apply Hkeep].
              split; [reflexivity|]. unfold with_code; cbn [mop code tmp held fnd todo mfresh]. left. auto.
           ++ cbn [code tmp] in Hw. injection Hs as <-. split; [cbn; rewrite Hu; reflexivity|]. cbn [mtx shr].
              eexists. split; [apply Hsame|]. split; [|apply Hkeep].
              split; [reflexivity|]. unfold with_code; cbn [mop code tmp held fnd todo mfresh]. right; left. split; [reflexivity|].
              exists (shr s). apply N.ltb_lt in Hw. auto.
        -- unfold mexec in Hs; cbn [code tmp held mop addr_of fnd todo with_code] in Hs.
           injection Hs as <-. split; [cbn; rewrite Hu; reflexivity|]. cbn [mtx shr].
           eexists. split; [apply Hsame|]. split; [|apply Hkeep].
           split; [reflexivity|]. unfold with_code; cbn [mop code tmp held fnd todo mfresh]. right; right. split; [reflexivity|].
           rewrite Hr. eapply rr_step; [exact Hr0 | apply create_step; auto |]. intros q Hq. exact Hnw.
        -- unfold mexec in Hs; cbn [code tmp held mop addr_of fnd todo with_code] in Hs.
           injection Hs as <-. split; [cbn; rewrite Hu; reflexivity|]. cbn [mtx shr].
           split; [auto|]. intros u th' Hn. eapply (Hrest' _ _ _ _ u th'); [|exact Hn]. destruct (Nat.eq_dec u w); auto.
      * (* destructor *)
        destruct Hmid as [(-> & Hr & Hl)|(-> & Hr)]; unfold mexec in Hs;
          cbn [code tmp held mop addr_of fnd todo with_code] in Hs; injection Hs as <-.
        -- split; [cbn; rewrite Hu; reflexivity|]. cbn [mtx shr].
           eexists. split; [apply Hsame|]. split; [|apply Hkeep].
           split; [reflexivity|]. unfold with_code; cbn [mop code tmp held fnd todo mfresh]. right. split; [reflexivity|].
           unfold erased. destruct (reg_step (shr s) (RDestroy p)) as [[r' v]|] eqn:E.
           ++ eapply rr_step; eauto. intros q Hq; discriminate.
           ++ cbn [reg_step] in E. destruct (lookup (live (shr s)) p); [discriminate|contradiction].
        -- split; [cbn; rewrite Hu; reflexivity|]. cbn [mtx shr].
           split; [auto|]. intros u th' Hn. eapply (Hrest' _ _ _ _ u th'); [|exact Hn]. destruct (Nat.eq_dec u w); auto.
      * (* get_object *)
        destruct Hmid as (Hr & [-> |[-> | ->]]); unfold mexec in Hs;
          cbn [code tmp held mop key_of fnd todo with_code] in Hs.
        -- injection Hs as <-. split; [cbn; rewrite Hu; reflexivity|]. cbn [mtx shr].
           eexists. split; [apply Hsame|]. split; [|apply Hkeep].
           split; [reflexivity|]. unfold with_code; cbn [mop code tmp held fnd todo mfresh]. auto.
        -- destruct fn as [q|]; injection Hs as <-.
           ++ split; [cbn; rewrite Hu; reflexivity|]. cbn [mtx shr].
              eexists. split; [apply Hsame|]. split; [|apply Hkeep].
              split; [reflexivity|]. unfold with_code; cbn [mop code tmp held fnd todo mfresh]. auto.
           ++ split; [cbn; rewrite Hu; reflexivity|]. cbn [mtx shr].
              split; [auto|]. intros u th' Hn. eapply (Hrest' _ _ _ _ u th'); [|exact Hn]. destruct (Nat.eq_dec u w); auto.
        -- injection Hs as <-. split; [cbn; rewrite Hu; reflexivity|]. cbn [mtx shr].
           split; [auto|]. intros u th' Hn. eapply (Hrest' _ _ _ _ u th'); [|exact Hn]. destruct (Nat.eq_dec u w); auto.
    + (* another thread: it is at rest, so either idle or blocked at its MLock *)
      destruct (Hrest t th Hne Ht) as (ops & ->).
      destruct (mstart_cases ops) as [Hc|(o & r & Ho & E)].
      * unfold mexec in Hs. rewrite Hc in Hs. discriminate.
      * rewrite E in Hs. unfold mexec in Hs. cbn [code] in Hs.
        destruct Ho as [(p & ->)|[(p & ->)|(i & ->)]]; cbn [body R reviewed_mixins id_ctor id_dtor id_get] in Hs; discriminate.
  - (* the mutex is free *)
    destruct Hm as (Hr & Hrest). destruct (Hrest t th Ht) as (ops & ->).
    destruct (mstart_cases ops) as [Hc|(o & r & Ho & E)].
    + unfold mexec in Hs. rewrite Hc in Hs. discriminate.
    + rewrite E in Hs. rewrite E in Ht. clear E. unfold mexec in Hs. cbn [code mfresh mop negb orb] in Hs.
      assert (Hdrop : finv {| shr := shr s; mtx := None; unguarded := unguarded s || false && negb false;
                              ths := upd_nth (ths s) t (mstart R r) |}).
      { split; [cbn; rewrite Hu; reflexivity|]. cbn [mtx shr]. split; [auto|].
        intros u th' Hn. eapply (rest_upd s t _ (fun _ => True)); eauto; destruct (Nat.eq_dec u t); auto. }
      assert (Hsame : forall r' m' u' th2,
                 nth_error (ths {| shr := r'; mtx := m'; unguarded := u'; ths := upd_nth (ths s) t th2 |}) t = Some th2).
      { intros. cbn [ths]. eapply nth_error_upd_same; eauto. }
      assert (Hkeep : forall r' u' th2 u th',
                 u <> t ->
                 nth_error (ths {| shr := r'; mtx := Some t; unguarded := u'; ths := upd_nth (ths s) t th2 |}) u = Some th' ->
                 at_rest th').
      { intros r' u' th2 u th' Hu' Hn. cbn [ths] in Hn. rewrite nth_error_upd_other in Hn by auto. eauto. }
      destruct Ho as [(p & ->)|[(p & ->)|(i & ->)]];
        cbn [body R reviewed_mixins id_ctor id_dtor id_get applicable held todo] in Hs.
      * destruct (lookup (live (shr s)) p) eqn:El; injection Hs as <-; [exact Hdrop|].
        split; [cbn; rewrite Hu; reflexivity|]. cbn [mtx shr].
        eexists. split; [apply Hsame|]. split; [|apply Hkeep].
        split; [reflexivity|]. unfold with_code; cbn [mop code tmp held fnd todo mfresh]. left. auto.
      * destruct (lookup (live (shr s)) p) eqn:El; injection Hs as <-; [|exact Hdrop].
        split; [cbn; rewrite Hu; reflexivity|]. cbn [mtx shr].
        eexists. split; [apply Hsame|]. split; [|apply Hkeep].
        split; [reflexivity|]. unfold with_code; cbn [mop code tmp held fnd todo mfresh]. left. split; [reflexivity|]. split; [auto|]. congruence.
      * injection Hs as <-. split; [cbn; rewrite Hu; reflexivity|]. cbn [mtx shr].
        eexists. split; [apply Hsame|]. split; [|apply Hkeep].
        split; [reflexivity|]. unfold with_code; cbn [mop code tmp held fnd todo mfresh]. auto.
Qed.

Lemma finv_init clients : finv (finit R clients).
Proof.
  split; [reflexivity|]. cbn [mtx finit shr ths]. split; [constructor|].
  intros t th Hn. apply nth_error_In, in_map_iff in Hn. destruct Hn as (ops & <- & _). exists ops. reflexivity.
Qed.

Theorem finv_reach clients s : freach R clients s -> finv s.
Proof. induction 1; [apply finv_init | eapply finv_step; eauto]. Qed.

(* every access to next_id_ / objects_ is made by a thread that holds mutex_ *)
Theorem identifiable_accesses_guarded clients s : freach R clients s -> unguarded s = false.
Proof. intros H. apply (finv_reach _ _ H). Qed.

(* the fine-grained executions are atomic ones: with the mutex free the registry is a state of
   the atomic model; while it is held, exactly the holder is inside an operation *)
Theorem identifiable_steps_atomic clients s :
  freach R clients s ->
  (mtx s = None -> rreach (shr s) /\ forall t th, nth_error (ths s) t = Some th -> held th = false /\ mfresh th = true) /\
  (forall w, mtx s = Some w ->
     (exists th, nth_error (ths s) w = Some th /\ held th = true) /\
     forall t th, t <> w -> nth_error (ths s) t = Some th -> held th = false /\ mfresh th = true).
Proof.
  intros H. destruct (finv_reach _ _ H) as [_ Hm].
  assert (Hrest : forall th, at_rest th -> held th = false /\ mfresh th = true).
  { intros th (ops & ->). induction ops as [|o r IH]; [auto|]. destruct o; cbn [mstart]; auto. }
  destruct (mtx s) as [w|].
  - destruct Hm as (th & Hn & [Hh _] & Hr). split; [discriminate|]. intros w0 E; injection E as <-.
    split; [eauto|]. intros t th' Hne Hn'. apply Hrest. eauto.
  - destruct Hm as (Hr & Hall). split; [|discriminate]. intros _. split; [auto|].
    intros t th Hn. apply Hrest. eauto.
Qed.

(* hence: ids unique and resolvable under every interleaving of constructors, destructors and
   get_object calls (statement of RegistryProofs.ids_unique_resolvable at every mutex-free point) *)
Theorem identifiable_ids_unique_concurrent clients s :
  freach R clients s -> mtx s = None ->
  let r := shr s in
  (forall p i, lookup (live r) p = Some i -> lookup (objects r) i = Some p) /\
  (forall p q i, lookup (live r) p = Some i -> lookup (live r) q = Some i -> p = q) /\
  (forall i, (forall p, lookup (live r) p <> Some i) -> lookup (objects r) i = None) /\
  (forall p i, lookup (live r) p = Some i -> i < next_id r).
Proof.
  intros H Em r. destruct (identifiable_steps_atomic _ _ H) as [Hf _]. destruct (Hf Em) as [Hr _].
  destruct (ids_unique_resolvable _ Hr) as (H1 & H2 & H3 & _). fold r in H1, H2, H3.
  destruct (rinv_reach _ Hr) as (I1 & _). fold r in I1.
  split; [|split; [|split]].
  - intros p i Hl. apply (I1 p i Hl).
  - exact H2.
  - intros i Hn. specialize (H3 i Hn). cbn in H3. injection H3 as E. exact E.
  - intros p i Hl. apply (I1 p i Hl).
Qed.

(* DefaultSettable (single-threaded): the reviewed bodies compute what Registry.v's default slot does *)
Fixpoint ds_run (c : list mi) (self arg : N) (d : option N) : option N * option (option N) :=
  match c with
  | [] => (d, None)
  | MClearDefaultIfThis :: r =>
      ds_run r self arg (match d with Some q => if q =? self then None else Some q | None => None end)
  | MThrowIfNoDefault :: r => match d with None => (d, Some None) | Some _ => ds_run r self arg d end
  | MRetDefault :: _ => (d, Some d)
  | MSetDefault :: r => ds_run r self arg (Some arg)
  | _ :: r => ds_run r self arg d
  end.

Theorem default_slot_bodies_match_registry r p :
  (forall r' v, reg_step r (RDestroy p) = Some (r', v) -> dflt r' = fst (ds_run (ds_dtor R) p 0 (dflt r))) /\
  (forall r' v, reg_step r (RSetDefault p) = Some (r', v) -> dflt r' = fst (ds_run (ds_set R) 0 p (dflt r))) /\
  (forall r' v, reg_step r RGetDefault = Some (r', v) ->
     r' = r /\ snd (ds_run (ds_get R) 0 0 (dflt r)) = Some v).
Proof.
  split; [|split]; intros r' v Hs; cbn in Hs.
  - destruct (lookup (live r) p); [|discriminate]. injection Hs as <- <-. reflexivity.
  - destruct (lookup (live r) p); [|discriminate]. injection Hs as <- <-. reflexivity.
  - injection Hs as <- <-. split; [reflexivity|]. cbn. destruct (dflt r); reflexivity.
Qed.

Lemma freach_frun P clients sched s : freach P clients s -> freach P clients (frun P sched s).
Proof.
  revert s; induction sched as [|t r IH]; intros s H; [exact H|]. cbn [frun].
  destruct (no_wrap s t) eqn:Ew; [|auto]. destruct (fstep P t s) as [s'|] eqn:E; [|auto].
  apply IH. econstructor; eauto.
Qed.
