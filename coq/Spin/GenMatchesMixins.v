(* C19 -- THE TIE (T) for the mixins: the bodies of Identifiable / DefaultSettable regenerated
   from primitiv/core/mixins/{identifiable,default_settable}.h on this run are the reviewed
   ones (in particular: the lock_guard is taken BEFORE next_id_ / objects_ are touched and
   held to the end of each body). *)
From PV Require Import Spin.MixLang Gen.MixinsGen.

Theorem gen_matches_mixins : MixinsGen.gen_mixins = reviewed_mixins.
Proof. reflexivity. Qed.
