(* C19 -- the never-stuck sweep (NeverStuck.v) run on the program REGENERATED from
   primitiv/core/spinlock.h on this run, independently of the obligation [gen_matches]: a change
   of the header that makes some thread-local run exceed the 64 units of fuel of Sem.norm (or
   park a thread where no access is enabled) breaks exactly this file. *)
From Coq Require Import List.
From PV Require Import Spin.Lang Spin.Sem Spin.RaceSem Spin.SpinProofs Spin.NeverStuck Gen.SpinGen.

Lemma gen_local_ok k : local_ok FUEL (cls_of SpinGen.prog k) = true.
Proof. destruct k; vm_compute; reflexivity. Qed.

Theorem gen_never_stuck k cl m t x :
  reach SpinGen.prog k cl m -> tat m t = Some x ->
  foc x <> FStuck /\
  (foc x <> FDone -> exists m', mstep SpinGen.prog k t m = Some m') /\
  (forall rs, after FUEL (cls_of SpinGen.prog k) (foc x) (stk x) = Some rs -> Forall (fun r => r <> NStuck) rs) /\
  Forall (fun r => r <> NStuck) (starts FUEL (cls_of SpinGen.prog k)).
Proof. apply local_ok_sound. apply gen_local_ok. Qed.
