(* C19 -- interleaving semantics of the spinlock programs (Lang.v): any number of threads,
   each running an arbitrary list of client operations lock | try_lock | unlock | access on
   ONE lock object of the chosen class, one shared-memory access per step.  Thread-local
   control (branches, calls, returns, starting the next client operation) is fused into the
   step of the access that precedes it, so a thread is always parked just before its next
   shared access -- exactly where the scheduling hooks of spinlock.h park the real threads.
   `++lock_count_` / `--lock_count_` are two accesses (load, then store).
   Executable; no proofs here. *)
From Coq Require Import List NArith Bool Arith.
From PV Require Import Spin.Lang.
Import ListNotations.
Local Open Scope N_scope.

Definition P32 : N := 4294967296.

Definition val := option bool.       (* None = void *)

Inductive frame :=
| KNot | KIf (th el : list instr) | KWhile (e : expr) (body : list instr) | KDo | KRet
| KBlock (rest : list instr) | KLoop (e : expr) (body : list instr) | KCall.

Inductive focus :=
| FEx (e : expr)                                  (* about to evaluate an access expression *)
| FSt (is : list instr)                           (* about to execute the access statement at the head *)
| FIncW (c : N) (is : list instr)                 (* second half of ++lock_count_: store c+1 *)
| FDecW (c : N) (asexpr : bool) (is : list instr) (* second half of --lock_count_: store c-1 *)
| FAccess                                         (* client: about to touch the protected data *)
| FDone | FStuck.

Inductive mode := Run (f : focus) | Val (v : val).
Inductive nres := NRest (f : focus) (k : list frame) | NDone (v : val) | NStuck.

Fixpoint unwind (k : list frame) : option (list frame) :=
  match k with [] => None | KCall :: k' => Some k' | _ :: k' => unwind k' end.

(* thread-local control up to the next shared access (or to the end of the client operation) *)
Fixpoint norm (fuel : nat) (c : cls) (m : mode) (k : list frame) : nres :=
  match fuel with O => NStuck | S fuel =>
  match m with
  | Run (FEx (ENot e)) => norm fuel c (Run (FEx e)) (KNot :: k)
  | Run (FEx (EConst b)) => norm fuel c (Val (Some b)) k
  | Run (FEx (ECall m')) => norm fuel c (Run (FSt (body_of c m'))) (KCall :: k)
  | Run (FSt []) =>
      match k with
      | KBlock is :: k' => norm fuel c (Run (FSt is)) k'
      | KLoop e body :: k' => norm fuel c (Run (FEx e)) (KWhile e body :: k')
      | KCall :: k' => norm fuel c (Val None) k'
      | [] => NDone None
      | _ => NStuck
      end
  | Run (FSt (Do e :: is)) => norm fuel c (Run (FEx e)) (KDo :: KBlock is :: k)
  | Run (FSt (If e th el :: is)) => norm fuel c (Run (FEx e)) (KIf th el :: KBlock is :: k)
  | Run (FSt (While e body :: is)) => norm fuel c (Run (FEx e)) (KWhile e body :: KBlock is :: k)
  | Run (FSt (Ret None :: _)) =>
      match unwind k with Some k' => norm fuel c (Val None) k' | None => NDone None end
  | Run (FSt (Ret (Some e) :: _)) => norm fuel c (Run (FEx e)) (KRet :: k)
  | Run f => NRest f k
  | Val v =>
      match k with
      | [] => NDone v
      | KNot :: k' => match v with Some b => norm fuel c (Val (Some (negb b))) k' | None => NStuck end
      | KIf th el :: k' =>
          match v with Some b => norm fuel c (Run (FSt (if b then th else el))) k' | None => NStuck end
      | KWhile e body :: k' =>
          match v with
          | Some true => norm fuel c (Run (FSt body)) (KLoop e body :: k')
          | Some false => norm fuel c (Run (FSt [])) k'
          | None => NStuck
          end
      | KDo :: k' => norm fuel c (Run (FSt [])) k'
      | KRet :: k' => match unwind k' with Some k'' => norm fuel c (Val v) k'' | None => NDone v end
      | _ => NStuck
      end
  end end.

Definition FUEL : nat := 64.

Record tstate := {
  foc : focus; stk : list frame;
  cur : option cop;        (* the client operation in progress *)
  rest : list cop;         (* client operations still to run *)
  depth : N;               (* ghost, client-visible: successful lock/try_lock minus unlock calls made while > 0 *)
  out : list bool;         (* results of the completed try_lock calls, latest first *)
  fresh : bool             (* no access of the current operation performed yet *)
}.

Definition meth_of (op : cop) : meth :=
  match op with CLock => MLock | CTry => MTry | _ => MUnlock end.

(* effect of a completed client operation on the client-visible ghost state *)
Definition complete (op : cop) (v : val) (d : N) (o : list bool) : N * list bool :=
  match op with
  | CTry => match v with Some true => (d + 1, true :: o) | Some false => (d, false :: o) | None => (d, o) end
  | CLock => (d + 1, o)
  | CUnlock => (N.pred d, o)
  | CAccess => (d, o)
  end.

(* start the next client operation (an operation without any access completes at once) *)
Fixpoint start (c : cls) (d : N) (o : list bool) (ops : list cop) : tstate :=
  match ops with
  | [] => {| foc := FDone; stk := []; cur := None; rest := []; depth := d; out := o; fresh := true |}
  | CAccess :: r => {| foc := FAccess; stk := []; cur := Some CAccess; rest := r; depth := d; out := o; fresh := true |}
  | op :: r =>
      match norm FUEL c (Run (FSt (body_of c (meth_of op)))) [] with
      | NRest f k => {| foc := f; stk := k; cur := Some op; rest := r; depth := d; out := o; fresh := true |}
      | NDone v => let (d', o') := complete op v d o in start c d' o' r
      | NStuck => {| foc := FStuck; stk := []; cur := Some op; rest := r; depth := d; out := o; fresh := true |}
      end
  end.

(* continue a thread after its access: run the local control, finish the operation if it ends *)
Definition continue (c : cls) (ts : tstate) (m : mode) (k : list frame) : tstate :=
  match norm FUEL c m k with
  | NRest f k' => {| foc := f; stk := k'; cur := cur ts; rest := rest ts; depth := depth ts; out := out ts; fresh := false |}
  | NDone v =>
      match cur ts with
      | Some op => let (d', o') := complete op v (depth ts) (out ts) in start c d' o' (rest ts)
      | None => {| foc := FStuck; stk := []; cur := None; rest := rest ts; depth := depth ts; out := out ts; fresh := false |}
      end
  | NStuck => {| foc := FStuck; stk := []; cur := cur ts; rest := rest ts; depth := depth ts; out := out ts; fresh := false |}
  end.

Definition park (ts : tstate) (f : focus) : tstate :=
  {| foc := f; stk := stk ts; cur := cur ts; rest := rest ts; depth := depth ts; out := out ts; fresh := false |}.

Record shared := {
  flag : bool; owner : option nat; count : N;
  ovf : bool;     (* sticky: ++lock_count_ executed at 2^32-1 *)
  unf : bool      (* sticky: --lock_count_ executed at 0 *)
}.

Record state := { sh : shared; thr : list tstate }.

(* what a step did to memory, for the happens-before monitor of RaceSem.v *)
Inductive loc := LData | LCount | LOwner.
Inductive event :=
| EvTas (o : ord) (was_set : bool)
| EvClear (o : ord)
| EvPlain (l : loc)                 (* non-atomic access (read or write) *)
| EvAtomicOwner (o : ord)           (* atomic access of locked_thread_id_ *)
| EvNone.                           (* `access` by a client that does not hold the lock: skipped *)

Definition owner_is (s : shared) (t : nat) (v : tidv) : bool :=
  match v, owner s with
  | Self, Some w => Nat.eqb w t
  | Self, None => false
  | Nobody, None => true
  | Nobody, Some _ => false
  end.
Definition owner_val (t : nat) (v : tidv) : option nat :=
  match v with Self => Some t | Nobody => None end.
Definition owner_event (o : ord) : event :=
  match o with NonAtomic => EvPlain LOwner | _ => EvAtomicOwner o end.

Definition set_flag (s : shared) (b : bool) : shared :=
  {| flag := b; owner := owner s; count := count s; ovf := ovf s; unf := unf s |}.
Definition set_owner (s : shared) (w : option nat) : shared :=
  {| flag := flag s; owner := w; count := count s; ovf := ovf s; unf := unf s |}.
Definition inc_count (s : shared) (c : N) : shared :=
  {| flag := flag s; owner := owner s; count := (c + 1) mod P32;
     ovf := ovf s || (c =? P32 - 1); unf := unf s |}.
Definition dec_count (s : shared) (c : N) : shared :=
  {| flag := flag s; owner := owner s; count := (c + (P32 - 1)) mod P32;
     ovf := ovf s; unf := unf s || (c =? 0) |}.

(* one access of a parked thread: new shared memory, new thread state, event *)
Definition tstep (c : cls) (t : nat) (s : shared) (ts : tstate) : option (shared * tstate * event) :=
  match foc ts with
  | FEx (ETas o) =>
      Some (set_flag s true, continue c ts (Val (Some (flag s))) (stk ts), EvTas o (flag s))
  | FEx (EOwnerNe o v) =>
      Some (s, continue c ts (Val (Some (negb (owner_is s t v)))) (stk ts), owner_event o)
  | FEx (EOwnerEq o v) =>
      Some (s, continue c ts (Val (Some (owner_is s t v))) (stk ts), owner_event o)
  | FEx EDecIsZero => Some (s, park ts (FDecW (count s) true []), EvPlain LCount)
  | FSt (Clear o :: is) => Some (set_flag s false, continue c ts (Run (FSt is)) (stk ts), EvClear o)
  | FSt (StoreOwner v o :: is) =>
      Some (set_owner s (owner_val t v), continue c ts (Run (FSt is)) (stk ts), owner_event o)
  | FSt (IncCount :: is) => Some (s, park ts (FIncW (count s) is), EvPlain LCount)
  | FSt (DecCount :: is) => Some (s, park ts (FDecW (count s) false is), EvPlain LCount)
  | FIncW c0 is => Some (inc_count s c0, continue c ts (Run (FSt is)) (stk ts), EvPlain LCount)
  | FDecW c0 ae is =>
      let s' := dec_count s c0 in
      Some (s', continue c ts (if ae then Val (Some (count s' =? 0)) else Run (FSt is)) (stk ts),
            EvPlain LCount)
  | FAccess =>
      Some (s, continue c ts (Val None) [], if 0 <? depth ts then EvPlain LData else EvNone)
  | _ => None
  end.

Fixpoint upd_nth {A} (l : list A) (n : nat) (x : A) : list A :=
  match l, n with
  | [], _ => []
  | _ :: r, O => x :: r
  | a :: r, S n' => a :: upd_nth r n' x
  end.

Definition step (p : prog) (k : kind) (t : nat) (s : state) : option (state * event) :=
  match nth_error (thr s) t with
  | None => None
  | Some ts =>
      match tstep (cls_of p k) t (sh s) ts with
      | None => None
      | Some (s', ts', ev) => Some ({| sh := s'; thr := upd_nth (thr s) t ts' |}, ev)
      end
  end.

Definition init_shared : shared := {| flag := false; owner := None; count := 0; ovf := false; unf := false |}.
Definition init (p : prog) (k : kind) (clients : list (list cop)) : state :=
  {| sh := init_shared; thr := map (start (cls_of p k) 0 []) clients |}.

(* Spinlock only: a well-bracketed client never calls unlock() without holding the lock
   (the step of thread t is the clear of an unlock started with ghost depth 0).
   RecursiveSpinlock needs no such condition. *)
Definition wb_ok (k : kind) (s : state) (t : nat) : bool :=
  match k with
  | KRSpin => true
  | KSpin =>
      match nth_error (thr s) t with
      | Some ts => match cur ts with Some CUnlock => 0 <? depth ts | _ => true end
      | None => true
      end
  end.

Definition holders (s : state) : list nat :=
  filter (fun t => match nth_error (thr s) t with Some ts => 0 <? depth ts | None => false end)
         (seq 0 (length (thr s))).
