(* C19 -- instruction language for the bodies of Identifiable<T> (constructor, destructor,
   get_object) and DefaultSettable<T> (destructor, get_default, set_default) of
   primitiv/core/mixins/{identifiable,default_settable}.h, with the scope of the
   std::lock_guard explicit.  translate/gen_mixins.py regenerates Gen/MixinsGen.v from the
   clang AST of an instantiation on every run; [reviewed_mixins] is the reviewed copy the
   theorems of MixProofs.v are about.  No proofs here. *)
From Coq Require Import List.
Import ListNotations.

Inductive mi :=
| MLock                 (* const std::lock_guard<std::mutex> lock(mutex_);  held up to the matching MUnlock *)
| MUnlock               (* end of the block in which the guard was declared *)
| MTakeId               (* id_ = next_id_++   (also as member initializer id_(next_id_++)): load next_id_, store next_id_ + 1 *)
| MEmplace              (* objects_.emplace(id_, static_cast<T *>(this)) *)
| MErase                (* objects_.erase(id_) *)
| MFind                 (* const auto it = objects_.find(id) *)
| MThrowIfEnd           (* if (it == objects_.end()) PRIMITIV_THROW_ERROR(...) *)
| MRetFound             (* return *it->second *)
| MClearDefaultIfThis   (* if (default_obj_ == static_cast<T *>(this)) default_obj_ = nullptr *)
| MThrowIfNoDefault     (* if (!default_obj_) PRIMITIV_THROW_ERROR(...) *)
| MRetDefault           (* return *default_obj_ *)
| MSetDefault.          (* default_obj_ = &obj *)

Record mixins := {
  id_ctor : list mi; id_dtor : list mi; id_get : list mi;
  ds_dtor : list mi; ds_get : list mi; ds_set : list mi
}.

Definition reviewed_mixins : mixins := {|
  (* Identifiable() { lock_guard lock(mutex_); id_ = next_id_++; objects_.emplace(id_, this); } *)
  id_ctor := [MLock; MTakeId; MEmplace; MUnlock];
  (* ~Identifiable() { lock_guard lock(mutex_); objects_.erase(id_); } *)
  id_dtor := [MLock; MErase; MUnlock];
  (* get_object(id) { lock_guard lock(mutex_); it = objects_.find(id); if (it == end) throw; return *it->second; } *)
  id_get := [MLock; MFind; MThrowIfEnd; MRetFound; MUnlock];
  ds_dtor := [MClearDefaultIfThis];
  ds_get := [MThrowIfNoDefault; MRetDefault];
  ds_set := [MSetDefault]
|}.
