(* C19 -- PROGRESS side of the spinlock model (audit finding: `Sem.norm` runs the thread-local
   control with FUEL = 64 and answers NStuck when the fuel runs out; a stuck thread cannot step,
   so every safety theorem holds vacuously for it).

   Part A  (any program of Lang.v, decided by a sweep):  [local_ok n c] enumerates the finite set
     [confs n c] of thread-local configurations (focus with the lock_count_ value read erased,
     control stack) that a thread running the class c can ever be parked in -- closed under
     "perform the access, for EVERY value it may read, then run the local control with n units of
     fuel" -- and checks that no such run, and no start of a client operation, answers NStuck and
     that every parked configuration has an enabled access.  [local_ok_sound]: if the sweep
     succeeds with n = FUEL then in EVERY reachable state of the interleaving semantics (any
     number of threads, any client programs, any schedule) no thread is stuck, every thread
     that has not finished its client program can perform its next access, and none of the
     [norm FUEL] calls that access can make answers NStuck.  The sweep is run by vm_compute for
     the regenerated program and for the reviewed one (both classes each).
   Part B  what [sane] excludes, and that it cannot be lost below 2^32 - 1 nested acquisitions.
   Part C  the multi-step form of "a waiting thread acquires the lock once it is free".

   NOT proved (and not true of a spinlock): that a thread calling lock() ever returns.  There is
   no fairness assumption on the scheduler and a test-and-set lock is not starvation-free, so
   no liveness property holds; what is proved is conditional on the thread being scheduled at a
   moment when the flag is clear. *)
From Coq Require Import List NArith Bool Arith Lia.
From PV Require Import Spin.Lang Spin.Reviewed Spin.Sem Spin.RaceSem
  Spin.AbsRSpin Spin.RSpinInv Spin.RSpinRace Spin.SpinProofs.
Import ListNotations.
Local Open Scope N_scope.

(* ====================================================================== A. never stuck *)

(* ---- decidable equality of local configurations *)
Definition ord_eq_dec (a b : ord) : {a = b} + {a <> b}. Proof. decide equality. Defined.
Definition tidv_eq_dec (a b : tidv) : {a = b} + {a <> b}. Proof. decide equality. Defined.
Definition meth_eq_dec (a b : meth) : {a = b} + {a <> b}. Proof. decide equality. Defined.
Fixpoint expr_eq_dec (a b : expr) : {a = b} + {a <> b}.
Proof. decide equality; auto using ord_eq_dec, tidv_eq_dec, meth_eq_dec, bool_dec. Defined.
Fixpoint instr_eq_dec (a b : instr) : {a = b} + {a <> b}.
Proof.
  decide equality; auto using ord_eq_dec, tidv_eq_dec, expr_eq_dec, (list_eq_dec instr_eq_dec).
  decide equality. apply expr_eq_dec.
Defined.
Definition frame_eq_dec (a b : frame) : {a = b} + {a <> b}.
Proof. decide equality; auto using expr_eq_dec, (list_eq_dec instr_eq_dec). Defined.
Definition focus_eq_dec (a b : focus) : {a = b} + {a <> b}.
Proof. decide equality; auto using expr_eq_dec, (list_eq_dec instr_eq_dec), N.eq_dec, bool_dec. Defined.

Definition conf := (focus * list frame)%type.
Definition conf_eq_dec (a b : conf) : {a = b} + {a <> b}.
Proof. decide equality; auto using focus_eq_dec, (list_eq_dec frame_eq_dec). Defined.

Definition mem (x : conf) (l : list conf) : bool :=
  existsb (fun y => if conf_eq_dec x y then true else false) l.
Lemma mem_In x l : mem x l = true -> In x l.
Proof.
  unfold mem. intros H. apply existsb_exists in H. destruct H as (y & Hy & E).
  destruct (conf_eq_dec x y) as [->|]; [auto|discriminate].
Qed.

(* the value of lock_count_ a thread holds between the two halves of ++/-- does not influence
   its control: erase it *)
Definition erase (f : focus) : focus :=
  match f with FIncW _ is => FIncW 0 is | FDecW _ ae is => FDecW 0 ae is | _ => f end.
Lemma erase_idem f : erase (erase f) = erase f.
Proof. destruct f; reflexivity. Qed.

(* what the access of a thread parked at (f, k) can lead to: one result of the local control
   (fuel n) per value the access may read; None: no access is enabled at f *)
Definition after (n : nat) (c : cls) (f : focus) (k : list frame) : option (list nres) :=
  let both := [norm n c (Val (Some true)) k; norm n c (Val (Some false)) k] in
  match f with
  | FEx (ETas _) | FEx (EOwnerNe _ _) | FEx (EOwnerEq _ _) => Some both
  | FEx EDecIsZero => Some [NRest (FDecW 0 true []) k]
  | FSt (Clear _ :: is) | FSt (StoreOwner _ _ :: is) => Some [norm n c (Run (FSt is)) k]
  | FSt (IncCount :: is) => Some [NRest (FIncW 0 is) k]
  | FSt (DecCount :: is) => Some [NRest (FDecW 0 false is) k]
  | FIncW _ is => Some [norm n c (Run (FSt is)) k]
  | FDecW _ ae is => Some (if ae then both else [norm n c (Run (FSt is)) k])
  | FAccess => Some [norm n c (Val None) []]
  | _ => None
  end.

(* the local control at the start of a client operation lock | try_lock | unlock *)
Definition starts (n : nat) (c : cls) : list nres :=
  map (fun op => norm n c (Run (FSt (body_of c (meth_of op)))) []) [CLock; CTry; CUnlock].

(* ---- the sweep *)
Definition add (l : list conf) (x : conf) : list conf := if mem x l then l else l ++ [x].
Definition rests (rs : list nres) : list conf :=
  flat_map (fun r => match r with NRest f k => [(erase f, k)] | _ => [] end) rs.
Definition expand (n : nat) (c : cls) (l : list conf) : list conf :=
  fold_left add
    (flat_map (fun x => match after n c (fst x) (snd x) with Some rs => rests rs | None => [] end) l) l.
Definition seed (n : nat) (c : cls) : list conf :=
  fold_left add (rests (starts n c)) [(FDone, []); (FAccess, [])].
Definition ROUNDS : nat := 24.
Definition confs (n : nat) (c : cls) : list conf := Nat.iter ROUNDS (expand n c) (seed n c).

Definition r_ok (cs : list conf) (r : nres) : bool :=
  match r with NStuck => false | NDone _ => true | NRest f k => mem (erase f, k) cs end.
Definition conf_ok (n : nat) (c : cls) (cs : list conf) (x : conf) : bool :=
  match fst x with
  | FDone => true
  | _ => match after n c (fst x) (snd x) with Some rs => forallb (r_ok cs) rs | None => false end
  end.
Definition sweep_ok (n : nat) (c : cls) (cs : list conf) (st : list nres) : bool :=
  mem (FDone, []) cs && mem (FAccess, []) cs && forallb (r_ok cs) st && forallb (conf_ok n c cs) cs.
Definition local_ok (n : nat) (c : cls) : bool := sweep_ok n c (confs n c) (starts n c).

Lemma sweep_ok_parts n c cs st : sweep_ok n c cs st = true ->
  In (FDone, []) cs /\ In (FAccess, []) cs /\
  (forall r, In r st -> r_ok cs r = true) /\ (forall x, In x cs -> conf_ok n c cs x = true).
Proof.
  unfold sweep_ok. intros H.
  apply andb_true_iff in H. destruct H as [H1 H4].
  apply andb_true_iff in H1. destruct H1 as [H1 H3].
  apply andb_true_iff in H1. destruct H1 as [H1 H2].
  split; [apply mem_In; auto|]. split; [apply mem_In; auto|].
  split; [apply forallb_forall; auto | apply forallb_forall; auto].
Qed.

Lemma local_ok_parts n c : local_ok n c = true ->
  In (FDone, []) (confs n c) /\ In (FAccess, []) (confs n c) /\
  (forall r, In r (starts n c) -> r_ok (confs n c) r = true) /\
  (forall x, In x (confs n c) -> conf_ok n c (confs n c) x = true).
Proof. unfold local_ok. generalize (confs n c) (starts n c). intros cs st. apply sweep_ok_parts. Qed.
Global Opaque confs.

(* ---- soundness of the sweep *)
Definition settle (c : cls) (ts : tstate) (r : nres) : tstate :=
  match r with
  | NRest f k' => {| foc := f; stk := k'; cur := cur ts; rest := rest ts; depth := depth ts; out := out ts; fresh := false |}
  | NDone v =>
      match cur ts with
      | Some op => let (d', o') := complete op v (depth ts) (out ts) in start c d' o' (rest ts)
      | None => {| foc := FStuck; stk := []; cur := None; rest := rest ts; depth := depth ts; out := out ts; fresh := false |}
      end
  | NStuck => {| foc := FStuck; stk := []; cur := cur ts; rest := rest ts; depth := depth ts; out := out ts; fresh := false |}
  end.
Lemma continue_settle c ts m k : continue c ts m k = settle c ts (norm FUEL c m k).
Proof. unfold continue, settle. destruct (norm FUEL c m k); reflexivity. Qed.

Lemma after_erase n c f k : after n c (erase f) k = after n c f k.
Proof. destruct f; reflexivity. Qed.

(* THE LINK between the semantics and the sweep: a step of a parked thread performs its access
   and then either runs one of the [norm FUEL] calls listed by [after], or parks in the middle
   of ++/--lock_count_ *)
Ltac use1 := eexists; eexists; split; [reflexivity|]; split; [left; reflexivity|]; left; reflexivity.
Ltac use2 := eexists; eexists; split; [reflexivity|]; split; [right; left; reflexivity|]; left; reflexivity.
Ltac usepark := eexists; eexists; split; [reflexivity|]; split; [left; reflexivity|]; right; eexists; split; reflexivity.

Lemma tstep_after c t s ts s' ts' ev :
  tstep c t s ts = Some (s', ts', ev) ->
  exists rs r, after FUEL c (foc ts) (stk ts) = Some rs /\ In r rs /\
    (ts' = settle c ts r \/ exists f', ts' = park ts f' /\ r = NRest (erase f') (stk ts)).
Proof.
  unfold tstep, after. destruct (foc ts) as [e|is|c0 is|c0 ae is| | |].
  - destruct e as [o|o v|o v| |m|e|b]; intros H; try discriminate H; injection H as <- <- <-;
      rewrite ?continue_settle.
    + destruct (flag s); [use1|use2].
    + destruct (owner_is s t v); cbn [negb]; [use2|use1].
    + destruct (owner_is s t v); [use1|use2].
    + usepark.
  - destruct is as [|[o|v o| | |e|e th el|e body|e] is]; intros H; try discriminate H; injection H as <- <- <-;
      rewrite ?continue_settle; [use1|use1|usepark|usepark].
  - intros H; injection H as <- <- <-. rewrite continue_settle. use1.
  - intros H; injection H as <- <- <-. rewrite continue_settle. destruct ae.
    + match goal with |- context [Val (Some (?x =? 0))] => destruct (x =? 0) end; [use1|use2].
    + use1.
  - intros H; injection H as <- <- <-. rewrite continue_settle. use1.
  - discriminate.
  - discriminate.
Qed.

Lemma after_enabled n c k rs t s ts :
  after n c (foc ts) k = Some rs -> tstep c t s ts <> None.
Proof.
  unfold tstep, after. cbv zeta.
  destruct (foc ts) as [e|is|c0 is|c0 ae is| | |]; intros H; try discriminate H; try discriminate.
  - destruct e; try discriminate H; discriminate.
  - destruct is as [|[] is]; try discriminate H; discriminate.
Qed.

Lemma conf_ok_after n c cs f k :
  conf_ok n c cs (erase f, k) = true -> f <> FDone ->
  exists rs, after n c f k = Some rs /\ forallb (r_ok cs) rs = true.
Proof.
  unfold conf_ok; cbn [fst snd]. rewrite after_erase. intros H Hnd.
  destruct (after n c f k) as [rs|] eqn:Ea.
  - exists rs. split; [reflexivity|]. destruct f; cbn [erase] in H; auto; exfalso; auto.
  - destruct f; cbn [erase] in H; try discriminate H. exfalso; auto.
Qed.

Definition cop_eq_dec (a b : cop) : {a = b} + {a <> b}. Proof. decide equality. Defined.
Lemma start_cons_eq c d o op r : op <> CAccess ->
  start c d o (op :: r) =
  match norm FUEL c (Run (FSt (body_of c (meth_of op)))) [] with
  | NRest f k => {| foc := f; stk := k; cur := Some op; rest := r; depth := d; out := o; fresh := true |}
  | NDone v => let (d', o') := complete op v d o in start c d' o' r
  | NStuck => {| foc := FStuck; stk := []; cur := Some op; rest := r; depth := d; out := o; fresh := true |}
  end.
Proof. destruct op; intros H; [reflexivity|reflexivity|reflexivity|exfalso; auto]. Qed.
Lemma starts_in n c op : op <> CAccess ->
  In (norm n c (Run (FSt (body_of c (meth_of op)))) []) (starts n c).
Proof.
  unfold starts. destruct op; intros H; cbn [map In];
    [left; reflexivity | right; left; reflexivity | right; right; left; reflexivity | exfalso; auto].
Qed.

(* a thread-local state of the sweep *)
Definition good (c : cls) (ts : tstate) : Prop :=
  In (erase (foc ts), stk ts) (confs FUEL c) /\ (cur ts = None -> foc ts = FDone).

Section Sound.
  Variable c : cls.
  Hypothesis Hok : local_ok FUEL c = true.

  Lemma ok_parts :
    In (FDone, []) (confs FUEL c) /\ In (FAccess, []) (confs FUEL c) /\
    (forall r, In r (starts FUEL c) -> r_ok (confs FUEL c) r = true) /\
    (forall x, In x (confs FUEL c) -> conf_ok FUEL c (confs FUEL c) x = true).
  Proof. apply local_ok_parts. exact Hok. Qed.

  Lemma start_good d o ops : good c (start c d o ops).
  Proof.
    destruct ok_parts as (HD & HA & HS & _).
    revert d o; induction ops as [|op r IH]; intros d o.
    - split; [exact HD | reflexivity].
    - destruct (cop_eq_dec op CAccess) as [->|Hna].
      + split; [exact HA | discriminate].
      + rewrite (start_cons_eq c d o op r Hna).
        specialize (HS _ (starts_in FUEL c op Hna)).
        destruct (norm FUEL c (Run (FSt (body_of c (meth_of op)))) []) as [f k|v|].
        * split; [apply mem_In; exact HS | discriminate].
        * destruct (complete op v d o) as [d' o']. apply IH.
        * discriminate HS.
  Qed.

  Lemma settle_good ts r :
    good c ts -> foc ts <> FDone -> r_ok (confs FUEL c) r = true -> good c (settle c ts r).
  Proof.
    intros [_ Hc] Hnd Hr. destruct r as [f k|v|]; cbn [settle].
    - split; [apply mem_In; exact Hr|]. cbn [cur foc]. intros E. exfalso. auto.
    - destruct (cur ts) as [op|]; [|exfalso; auto].
      destruct (complete op v (depth ts) (out ts)) as [d' o']. apply start_good.
    - discriminate Hr.
  Qed.

  Lemma tstep_good t s ts s' ts' ev :
    good c ts -> tstep c t s ts = Some (s', ts', ev) -> good c ts'.
  Proof.
    intros Hg Hs. destruct ok_parts as (_ & _ & _ & HC).
    pose proof Hg as [Hin Hcur]. specialize (HC _ Hin).
    assert (Hnd : foc ts <> FDone).
    { intros E. unfold tstep in Hs. rewrite E in Hs. discriminate. }
    destruct (tstep_after _ _ _ _ _ _ _ Hs) as (rs & r & Ha & Hr & Hts).
    destruct (conf_ok_after _ _ _ _ _ HC Hnd) as (rs' & Ha' & Hall).
    rewrite Ha in Ha'. injection Ha' as <-.
    rewrite forallb_forall in Hall. specialize (Hall _ Hr).
    destruct Hts as [->|(f' & -> & ->)].
    - apply settle_good; auto.
    - cbn [r_ok] in Hall. rewrite erase_idem in Hall. split; [apply mem_In; exact Hall|].
      unfold park; cbn [cur foc]. intros E. exfalso. auto.
  Qed.

  (* what a good thread-local state gives *)
  Lemma good_facts t s ts :
    good c ts ->
    foc ts <> FStuck /\
    (foc ts <> FDone -> tstep c t s ts <> None) /\
    (forall rs, after FUEL c (foc ts) (stk ts) = Some rs -> Forall (fun r => r <> NStuck) rs).
  Proof.
    intros [Hin _]. destruct ok_parts as (_ & _ & _ & HC). specialize (HC _ Hin).
    split; [|split].
    - intros E. destruct (conf_ok_after _ _ _ _ _ HC) as (rs & Ha & _); [rewrite E; discriminate|].
      rewrite E in Ha. discriminate Ha.
    - intros Hnd. destruct (conf_ok_after _ _ _ _ _ HC Hnd) as (rs & Ha & _).
      eapply after_enabled; eauto.
    - intros rs Ea.
      assert (Hnd : foc ts <> FDone) by (intros E; rewrite E in Ea; discriminate Ea).
      destruct (conf_ok_after _ _ _ _ _ HC Hnd) as (rs' & Ha & Hall).
      rewrite Ea in Ha. injection Ha as <-. rewrite forallb_forall in Hall.
      apply Forall_forall. intros r Hr E. subst r. specialize (Hall _ Hr). discriminate.
  Qed.
End Sound.

Definition all_good (c : cls) (s : state) : Prop :=
  forall t ts, nth_error (thr s) t = Some ts -> good c ts.

Lemma nth_error_upd_cases {A} (l : list A) n m x y :
  nth_error (upd_nth l n x) m = Some y -> (m = n /\ y = x) \/ nth_error l m = Some y.
Proof.
  revert n m; induction l as [|a l IH]; intros [|n] [|m] H; cbn in *; try discriminate; auto.
  - injection H as <-. auto.
  - destruct (IH _ _ H) as [[-> ->]|]; auto.
Qed.

Lemma all_good_reach p k cl m :
  local_ok FUEL (cls_of p k) = true -> reach p k cl m -> all_good (cls_of p k) (fst m).
Proof.
  intros Hok Hr. induction Hr as [|m m' t _ IH _ Hs].
  - intros t ts Ht. unfold minit, init in Ht; cbn [fst thr] in Ht.
    apply nth_error_In, in_map_iff in Ht. destruct Ht as (ops & <- & _). apply start_good; auto.
  - unfold mstep, step in Hs. destruct (nth_error (thr (fst m)) t) as [ts|] eqn:Et; [|discriminate].
    destruct (tstep (cls_of p k) t (sh (fst m)) ts) as [[[s' ts'] ev]|] eqn:Es; [|discriminate].
    injection Hs as <-. cbn [fst thr]. intros u x Hu.
    destruct (nth_error_upd_cases _ _ _ _ _ Hu) as [[-> ->]|Hu'].
    + eapply tstep_good; eauto.
    + eapply IH; eauto.
Qed.

(* THE THEOREM of part A *)
Theorem local_ok_sound p k cl m t x :
  local_ok FUEL (cls_of p k) = true ->
  reach p k cl m -> tat m t = Some x ->
  foc x <> FStuck /\
  (foc x <> FDone -> exists m', mstep p k t m = Some m') /\
  (forall rs, after FUEL (cls_of p k) (foc x) (stk x) = Some rs -> Forall (fun r => r <> NStuck) rs) /\
  Forall (fun r => r <> NStuck) (starts FUEL (cls_of p k)).
Proof.
  intros Hok Hr Hx. pose proof (all_good_reach _ _ _ _ Hok Hr t x Hx) as Hg.
  destruct (good_facts _ Hok t (sh (fst m)) x Hg) as (H1 & H2 & H3).
  split; [auto|]. split; [|split; [auto|]].
  - intros Hnd. specialize (H2 Hnd). unfold mstep, step. unfold tat in Hx. rewrite Hx.
    destruct (tstep (cls_of p k) t (sh (fst m)) x) as [[[s' ts'] ev]|]; [eauto|contradiction].
  - destruct (ok_parts _ Hok) as (_ & _ & HS & _). apply Forall_forall. intros r Hin E. subst r.
    specialize (HS _ Hin). discriminate.
Qed.

(* the sweeps (both classes of the reviewed program; the regenerated program is swept in
   Props/Properties_C19_progress.v, independently of [gen_matches]) *)
Lemma reviewed_local_ok k : local_ok FUEL (cls_of reviewed_prog k) = true.
Proof. destruct k; vm_compute; reflexivity. Qed.

(* ====================================================================== B. sane *)

(* [sane m] is [ovf (shm m) = false]; the only step that sets the sticky bit is the store half
   of ++lock_count_ by a thread that loaded 2^32 - 1 (the store wraps lock_count_ to 0) *)
Lemma tstep_sets_ovf c t s ts s' ts' ev :
  tstep c t s ts = Some (s', ts', ev) -> ovf s = false -> ovf s' = true ->
  exists is, foc ts = FIncW (P32 - 1) is /\ count s' = 0.
Proof.
  unfold tstep. intros H Ho Ho'.
  destruct (foc ts) as [e|is|c0 is|c0 ae is| | |]; try discriminate H.
  - destruct e; try discriminate H; injection H as <- <- <-; cbn in Ho'; congruence.
  - destruct is as [|[] is]; try discriminate H; injection H as <- <- <-; cbn in Ho'; congruence.
  - injection H as <- <- <-. unfold inc_count in *; cbn [ovf count] in *. rewrite Ho in Ho'. cbn [orb] in Ho'.
    apply N.eqb_eq in Ho'. subst c0. exists is. split; reflexivity.
  - injection H as <- <- <-. unfold dec_count in Ho'; cbn [ovf] in Ho'. congruence.
  - injection H as <- <- <-. congruence.
Qed.

Theorem sane_lost_only_by_wrapping_inc p k cl m t m' x :
  reach p k cl m -> mstep p k t m = Some m' -> sane m -> ~ sane m' -> tat m t = Some x ->
  exists is, foc x = FIncW (P32 - 1) is /\ count (shm m') = 0.
Proof.
  intros _ Hs Hsane Hns Hx. unfold mstep, step in Hs. unfold tat in Hx. rewrite Hx in Hs.
  destruct (tstep (cls_of p k) t (sh (fst m)) x) as [[[s' ts'] ev]|] eqn:Es; [|discriminate].
  injection Hs as <-. unfold sane, shm in *; cbn [fst sh] in *.
  eapply tstep_sets_ovf; eauto. destruct (ovf s'); [reflexivity|contradiction].
Qed.

(* histories in which the stepping thread never holds the lock 2^32 - 1 deep *)
Inductive reach_shallow (cl : list (list cop)) : mstate -> Prop :=
| rsh_init : reach_shallow cl (minit reviewed_prog KRSpin cl)
| rsh_step m m' t : reach_shallow cl m ->
    (forall x, tat m t = Some x -> depth x < P32 - 1) ->
    mstep reviewed_prog KRSpin t m = Some m' -> reach_shallow cl m'.

Theorem sane_preserved_below_full_nesting cl m :
  reach_shallow cl m -> reach reviewed_prog KRSpin cl m /\ sane m.
Proof.
  induction 1 as [|m m' t _ [IHr IHs] Hd Hs].
  - split; [constructor | reflexivity].
  - split; [econstructor; eauto|].
    destruct (ovf (shm m')) eqn:E; [|exact E]. exfalso.
    assert (Hns : ~ sane m') by (unfold sane; rewrite E; discriminate).
    unfold mstep, step in Hs. destruct (nth_error (thr (fst m)) t) as [x|] eqn:Ex; [|discriminate].
    assert (Hs' : mstep reviewed_prog KRSpin t m = Some m').
    { unfold mstep, step. rewrite Ex. exact Hs. }
    pose proof (rspin_overflow_needs_full_nesting cl m t m' x IHr Hs' IHs Hns Ex) as Hfull.
    specialize (Hd x Ex). lia.
Qed.

(* running a schedule from a shallow history (used by the non-vacuity example) *)
Fixpoint shallow_run (sched : list nat) (m : mstate) : bool :=
  match sched with
  | [] => true
  | t :: r => match tat m t with Some x => depth x <? P32 - 1 | None => true end &&
              match mstep reviewed_prog KRSpin t m with Some m' => shallow_run r m' | None => shallow_run r m end
  end.
Lemma reach_shallow_run cl sched m :
  reach_shallow cl m -> shallow_run sched m = true -> reach_shallow cl (run reviewed_prog KRSpin sched m).
Proof.
  revert m; induction sched as [|t r IH]; intros m Hr Hw; [exact Hr|].
  cbn [run shallow_run] in *. apply andb_true_iff in Hw. destruct Hw as [Hw1 Hw2].
  destruct (mstep reviewed_prog KRSpin t m) as [m'|] eqn:E; [|auto].
  apply IH; auto. econstructor; eauto.
  intros x Hx. rewrite Hx in Hw1. apply N.ltb_lt. exact Hw1.
Qed.

(* a client-side sufficient condition, for any program of Lang.v: the nesting depth of a thread
   never exceeds the number of lock()/try_lock() operations of its client program *)
Definition acq (op : cop) : N := match op with CLock | CTry => 1 | _ => 0 end.
Definition acqs (ops : list cop) : N := fold_right (fun op n => acq op + n) 0 ops.
Definition weight (ts : tstate) : N :=
  depth ts + match cur ts with Some op => acq op | None => 0 end + acqs (rest ts).

Lemma complete_le op v d o : fst (complete op v d o) <= d + acq op.
Proof. destruct op; cbn; try lia. destruct v as [[]|]; cbn; lia. Qed.

Lemma start_weight c d o ops : weight (start c d o ops) <= d + acqs ops.
Proof.
  revert d o; induction ops as [|op r IH]; intros d o;
    [unfold weight; cbn [start depth cur rest acqs fold_right]; lia|].
  assert (E : acqs (op :: r) = acq op + acqs r) by reflexivity. rewrite E.
  assert (Hgen : forall res,
    weight match res with
           | NRest f k => {| foc := f; stk := k; cur := Some op; rest := r; depth := d; out := o; fresh := true |}
           | NDone v => let (d', o') := complete op v d o in start c d' o' r
           | NStuck => {| foc := FStuck; stk := []; cur := Some op; rest := r; depth := d; out := o; fresh := true |}
           end <= d + (acq op + acqs r)).
  { intros [f k|v|]; unfold weight at 1; cbn [depth cur rest]; try lia.
    pose proof (complete_le op v d o) as Hc. destruct (complete op v d o) as [d' o']. cbn [fst] in Hc.
    specialize (IH d' o'). unfold weight in IH. lia. }
  destruct op; try apply Hgen. unfold weight; cbn [start depth cur rest acq]. lia.
Qed.

Lemma settle_weight c ts r : weight (settle c ts r) <= weight ts.
Proof.
  destruct r as [f k|v|]; cbn [settle]; try (unfold weight; cbn [depth cur rest]; lia).
  destruct (cur ts) as [op|] eqn:Ec; [|unfold weight; cbn [depth cur rest]; rewrite Ec; lia].
  pose proof (complete_le op v (depth ts) (out ts)) as Hc.
  destruct (complete op v (depth ts) (out ts)) as [d' o']. cbn [fst] in Hc.
  pose proof (start_weight c d' o' (rest ts)). unfold weight at 2. rewrite Ec. lia.
Qed.

Lemma tstep_weight c t s ts s' ts' ev : tstep c t s ts = Some (s', ts', ev) -> weight ts' <= weight ts.
Proof.
  intros H. destruct (tstep_after _ _ _ _ _ _ _ H) as (rs & r & _ & _ & [->|(f' & -> & _)]).
  - apply settle_weight.
  - unfold weight, park; cbn [depth cur rest]. lia.
Qed.

Lemma depth_bounded_by_acquires p k cl m B :
  (forall ops, In ops cl -> acqs ops <= B) -> reach p k cl m ->
  forall t x, tat m t = Some x -> weight x <= B.
Proof.
  intros HB Hr. induction Hr as [|m m' t _ IH _ Hs]; intros u x Hx; unfold tat in *.
  - unfold minit, init in Hx; cbn [fst thr] in Hx.
    apply nth_error_In, in_map_iff in Hx. destruct Hx as (ops & <- & Hin).
    pose proof (start_weight (cls_of p k) 0 [] ops). specialize (HB _ Hin). lia.
  - unfold mstep, step in Hs. destruct (nth_error (thr (fst m)) t) as [ts|] eqn:Et; [|discriminate].
    destruct (tstep (cls_of p k) t (sh (fst m)) ts) as [[[s' ts'] ev]|] eqn:Es; [|discriminate].
    injection Hs as <-. cbn [fst thr] in Hx.
    destruct (nth_error_upd_cases _ _ _ _ _ Hx) as [[-> ->]|Hx'].
    + pose proof (tstep_weight _ _ _ _ _ _ _ Es). specialize (IH _ _ Et). lia.
    + eapply IH; eauto.
Qed.

Theorem sane_if_fewer_acquires_than_counter cl m :
  (forall ops, In ops cl -> acqs ops < P32 - 1) ->
  reach reviewed_prog KRSpin cl m -> sane m /\ forall t x, tat m t = Some x -> depth x < P32 - 1.
Proof.
  intros HB Hr.
  assert (HB' : forall ops, In ops cl -> acqs ops <= P32 - 2).
  { intros ops Hin. specialize (HB _ Hin). unfold P32 in *. lia. }
  assert (Hd : forall m0, reach reviewed_prog KRSpin cl m0 -> forall t x, tat m0 t = Some x -> depth x < P32 - 1).
  { intros m0 Hr0 t x Hx. pose proof (depth_bounded_by_acquires _ _ _ _ _ HB' Hr0 t x Hx) as Hw.
    unfold weight in Hw. unfold P32 in *. lia. }
  split; [|apply Hd; auto].
  assert (Hsh : reach_shallow cl m).
  { induction Hr as [|m m' t Hr IH _ Hs]; [constructor|]. econstructor; eauto. }
  apply (sane_preserved_below_full_nesting cl m Hsh).
Qed.

(* ====================================================================== C. acquisition, multi-step *)

(* while w holds the flag, a step of any other thread changes neither the shared memory nor w *)
Lemma other_step_inert A w aw u A' ev :
  minv A -> th A w = Some aw -> (~ outside (pc aw) \/ adepth aw <> 0) ->
  u <> w -> astep u A = Some (A', ev) ->
  ash A' = ash A /\ th A' w = Some aw /\ minv A'.
Proof.
  intros HI Hw Hbusy Hne Hs.
  destruct (busy_is_winner A w aw HI Hw Hbusy) as [Ef (a1 & Ha1 & Hwin & Hoth)].
  rewrite Hw in Ha1. injection Ha1 as <-. destruct HI as [Hunf _].
  unfold astep in Hs. fold (th A u) in Hs. destruct (th A u) as [a|] eqn:Hu; [|discriminate].
  destruct (Hoth u a) as [Hout Hd]; [congruence|auto|].
  assert (Hno : owner_is (ash A) u Self = false).
  { unfold winner_ok in Hwin. destruct (pc aw);
      first [ apply (owner_is_other _ w); [tauto|auto] | apply owner_is_none; tauto ]. }
  destruct (atstep u (ash A) a) as [[[s' a'] ev']|] eqn:Ea; [|discriminate].
  injection Hs as <- <-. cbn [ash]. unfold atstep in Ea.
  assert (Hkeep : forall a2, outside (pc a2) -> adepth a2 = 0 ->
            ash A = ash A /\ th {| ash := ash A; athr := upd_nth (athr A) u a2 |} w = Some aw /\
            minv {| ash := ash A; athr := upd_nth (athr A) u a2 |}).
  { intros a2 Ho2 Hd2. split; [reflexivity|]. split; [rewrite th_upd_other; auto|].
    split; [exact Hunf|]. cbn [ash]. rewrite Ef. exists w, aw.
    split; [rewrite th_upd_other; auto|]. split; [auto|]. eapply others_upd; eauto. }
  destruct (pc a) as [| |c|c|c|c|c n| | |n| |] eqn:Ep; try contradiction; try discriminate Ea;
    injection Ea as <- <- <-.
  - apply Hkeep; [apply fin_outside | rewrite fin_depth, Hd; reflexivity].
  - rewrite (set_flag_same _ _ Ef). apply Hkeep; [rewrite Ef; exact I | exact Hd].
  - rewrite Hno. destruct c.
    + apply Hkeep; [apply fin_outside | rewrite fin_depth, Hd; reflexivity].
    + apply Hkeep; [exact I | exact Hd].
  - rewrite Hno. apply Hkeep; [apply fin_outside | rewrite fin_depth, Hd; reflexivity].
Qed.

(* ... hence neither does a whole schedule of other threads *)
Lemma others_run_inert sched : forall A h w aw,
  minv A -> th A w = Some aw -> (~ outside (pc aw) \/ adepth aw <> 0) -> ~ In w sched ->
  ash (fst (arun sched (A, h))) = ash A /\ th (fst (arun sched (A, h))) w = Some aw /\
  minv (fst (arun sched (A, h))).
Proof.
  induction sched as [|u r IH]; intros A h w aw HI Hw Hbusy Hnin; [cbn [arun fst]; auto|].
  assert (Hne : u <> w) by (intros ->; apply Hnin; left; reflexivity).
  assert (Hnin' : ~ In w r) by (intros H; apply Hnin; right; exact H).
  cbn [arun]. destruct (amstep u (A, h)) as [[A1 h1]|] eqn:Em; [|apply IH; auto].
  unfold amstep in Em; cbn [fst snd] in Em.
  destruct (astep u A) as [[A1' ev]|] eqn:Es; [|discriminate]. injection Em as -> <-.
  destruct (other_step_inert A w aw u A1 ev HI Hw Hbusy Hne Es) as (E1 & E2 & HI1).
  destruct (IH A1 (hb_step h u ev) w aw HI1 E2 Hbusy Hnin') as (F1 & F2 & F3).
  rewrite F1, E1. auto.
Qed.

Lemma arun_app s1 s2 m : arun (s1 ++ s2) m = arun s2 (arun s1 m).
Proof.
  revert m; induction s1 as [|t r IH]; intros m; [reflexivity|].
  cbn [app arun]. destruct (amstep t m); apply IH.
Qed.

(* one own step of t that leaves it busy, followed by any steps of other threads *)
Lemma own_then_others t o m a s' a' ev :
  minv (fst m) -> th (fst m) t = Some a -> atstep t (ash (fst m)) a = Some (s', a', ev) ->
  ovf s' = false -> (~ outside (pc a') \/ adepth a' <> 0) -> ~ In t o ->
  ash (fst (arun (t :: o) m)) = s' /\ th (fst (arun (t :: o) m)) t = Some a' /\
  minv (fst (arun (t :: o) m)).
Proof.
  destruct m as [A h]; cbn [fst]. intros HI Ht Ha Hov Hbusy Hnin.
  cbn [arun]. rewrite (amstep_at _ _ _ _ Ht), Ha.
  set (A1 := {| ash := s'; athr := upd_nth (athr A) t a' |}).
  assert (Hs : astep t A = Some (A1, ev)).
  { unfold astep. fold (th A t). rewrite Ht, Ha. reflexivity. }
  assert (HI1 : minv A1) by (eapply minv_step; eauto).
  assert (Ht1 : th A1 t = Some a') by (eapply th_upd_same; eauto).
  destruct (others_run_inert o A1 (hb_step h t ev) t a' HI1 Ht1 Hbusy Hnin) as (E1 & E2 & E3).
  auto.
Qed.

(* THE MULTI-STEP STATEMENT: if thread t is scheduled at its test_and_set while the flag is clear,
   then its next four own steps complete the acquisition HOWEVER they are interleaved with steps
   of the other threads (o1 .. o4: arbitrary schedules of other threads); meanwhile and
   afterwards nobody else gets in *)
Theorem rspin_lock_completes_under_interference cl m t x o1 o2 o3 o4 :
  reach rp KRSpin cl m -> sane m -> flag (shm m) = false ->
  tat m t = Some x -> foc x = FEx (ETas Acquire) ->
  ~ In t o1 -> ~ In t o2 -> ~ In t o3 -> ~ In t o4 ->
  let mf := run rp KRSpin ((t :: o1) ++ (t :: o2) ++ (t :: o3) ++ (t :: o4)) m in
  exists x4, tat mf t = Some x4 /\ depth x4 = 1 /\ fresh x4 = true /\ rest x4 = List.tl (rest x) /\
             (cur x = Some CTry -> out x4 = true :: out x) /\
             flag (shm mf) = true /\ owner (shm mf) = Some t /\ count (shm mf) = 1 /\ sane mf /\
             (forall u y, u <> t -> tat mf u = Some y -> depth y = 0).
Proof.
  intros Hr Hsane Ef Hx Hfoc N1 N2 N3 N4. destruct (reach_abs _ _ Hr) as (A & HA & HR).
  destruct m as [s h]; cbn [fst snd] in *; subst s.
  destruct (tat_conc _ _ _ _ Hx) as (a & Ha & ->).
  unfold sane, shm in *; cbn [fst conc sh] in *.
  pose proof (minv_reach _ _ _ HR Hsane) as HI0.
  pose proof HI0 as [_ HI]. rewrite Ef in HI. destruct HI as (Ho & Hc & Hall).
  destruct (Hall t a) as [_ Hd]; [discriminate|auto|].
  destruct (foc_tas_pc a Hfoc) as (c & Ep).
  rewrite run_conc. rewrite !arun_app. cbn [fst conc sh snd].
  (* step 1: the test_and_set wins *)
  set (m0 := (A, h)).
  assert (AT1 : atstep t (ash (fst m0)) a = Some (set_flag (ash A) true, goto a (PT2 c), EvTas Acquire false)).
  { unfold m0; cbn [fst]. unfold atstep. rewrite Ep, Ef. reflexivity. }
  assert (B1 : ~ outside (pc (goto a (PT2 c))) \/ adepth (goto a (PT2 c)) <> 0) by (left; cbn; tauto).
  destruct (own_then_others t o1 m0 a _ _ _ HI0 Ha AT1 Hsane B1 N1) as (S1 & T1 & I1).
  set (m1 := arun (t :: o1) m0) in *.
  (* step 2: store the owner id *)
  assert (AT2 : atstep t (ash (fst m1)) (goto a (PT2 c)) =
                Some (set_owner (ash (fst m1)) (Some t), goto (goto a (PT2 c)) (PT3 c), EvAtomicOwner Relaxed))
    by reflexivity.
  assert (OV2 : ovf (set_owner (ash (fst m1)) (Some t)) = false) by (rewrite S1; exact Hsane).
  assert (B2 : ~ outside (pc (goto (goto a (PT2 c)) (PT3 c))) \/ adepth (goto (goto a (PT2 c)) (PT3 c)) <> 0)
    by (left; cbn; tauto).
  destruct (own_then_others t o2 m1 _ _ _ _ I1 T1 AT2 OV2 B2 N2) as (S2 & T2 & I2).
  set (m2 := arun (t :: o2) m1) in *.
  (* step 3: load lock_count_ *)
  set (a3 := goto (goto (goto a (PT2 c)) (PT3 c)) (PT4 c (count (ash (fst m2))))).
  assert (AT3 : atstep t (ash (fst m2)) (goto (goto a (PT2 c)) (PT3 c)) = Some (ash (fst m2), a3, EvPlain LCount))
    by reflexivity.
  assert (OV3 : ovf (ash (fst m2)) = false) by (rewrite S2; exact OV2).
  assert (B3 : ~ outside (pc a3) \/ adepth a3 <> 0) by (left; cbn; tauto).
  destruct (own_then_others t o3 m2 _ _ _ _ I2 T2 AT3 OV3 B3 N3) as (S3 & T3 & I3).
  set (m3 := arun (t :: o3) m2) in *.
  assert (C2 : count (ash (fst m2)) = 0) by (rewrite S2, S1; exact Hc).
  (* step 4: store lock_count_ = 1; try_lock returns true *)
  assert (D4 : adepth (fin a3 (op_of c) (Some true)) = 1).
  { rewrite fin_depth. unfold a3; cbn [adepth goto]. rewrite Hd. destruct c; reflexivity. }
  assert (AT4 : atstep t (ash (fst m3)) a3 =
                Some (inc_count (ash (fst m3)) (count (ash (fst m2))), fin a3 (op_of c) (Some true), EvPlain LCount))
    by reflexivity.
  assert (OV4 : ovf (inc_count (ash (fst m3)) (count (ash (fst m2)))) = false).
  { rewrite S3, C2. unfold inc_count; cbn [ovf]. rewrite OV3. reflexivity. }
  assert (B4 : ~ outside (pc (fin a3 (op_of c) (Some true))) \/ adepth (fin a3 (op_of c) (Some true)) <> 0)
    by (right; rewrite D4; discriminate).
  destruct (own_then_others t o4 m3 _ _ _ _ I3 T3 AT4 OV4 B4 N4) as (S4 & T4 & I4).
  set (m4 := arun (t :: o4) m3) in *.
  exists (conc_th (fin a3 (op_of c) (Some true))).
  split; [rewrite tat_th, T4; reflexivity|].
  cbn [conc_th depth fresh rest out cur]. split; [exact D4|].
  assert (Hsh : ash (fst m4) = inc_count (set_owner (set_flag (ash A) true) (Some t)) 0).
  { rewrite S4, S3, C2, S2, S1. reflexivity. }
  split; [|split; [|split; [|split; [|split; [|split; [|split]]]]]].
  - unfold fin. destruct (complete (op_of c) (Some true) (adepth a3) (aout a3)). destruct (arest a3) as [|[] r]; reflexivity.
  - unfold fin, a3. cbn [adepth aout arest goto]. destruct c; cbn [op_of complete];
      destruct (arest a) as [|[] r]; reflexivity.
  - rewrite Ep. intros Hcur. unfold fin, a3. cbn [adepth aout arest goto]. destruct c; cbn [cur_of] in Hcur; try discriminate Hcur.
    cbn [op_of complete]. destruct (arest a) as [|[] r]; reflexivity.
  - rewrite Hsh. reflexivity.
  - rewrite Hsh. reflexivity.
  - rewrite Hsh. reflexivity.
  - rewrite Hsh. unfold inc_count; cbn [ovf set_owner set_flag]. rewrite Hsane. reflexivity.
  - intros u y Hu Hy. destruct (tat_conc _ _ _ _ Hy) as (b & Hb & ->). cbn [conc_th depth].
    destruct (busy_is_winner (fst m4) t _ I4 T4) as [_ (a1 & _ & _ & Hoth)]; [right; rewrite D4; discriminate|].
    destruct (Hoth u b) as [_ H0]; [congruence|auto|auto].
Qed.

(* ====================================================================== the reviewed program *)
Theorem reviewed_never_stuck k cl m t x :
  reach reviewed_prog k cl m -> tat m t = Some x ->
  foc x <> FStuck /\
  (foc x <> FDone -> exists m', mstep reviewed_prog k t m = Some m') /\
  (forall rs, after FUEL (cls_of reviewed_prog k) (foc x) (stk x) = Some rs -> Forall (fun r => r <> NStuck) rs) /\
  Forall (fun r => r <> NStuck) (starts FUEL (cls_of reviewed_prog k)).
Proof. apply local_ok_sound. apply reviewed_local_ok. Qed.
