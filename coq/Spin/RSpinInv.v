(* C19 -- the inductive invariant of the RecursiveSpinlock machine (AbsRSpin.v):
   mutual exclusion / ownership / count part (after design/prototypes/Spin.v). *)
From Coq Require Import List NArith Bool Arith Lia.
From PV Require Import Spin.Lang Spin.Reviewed Spin.Sem Spin.RaceSem Spin.AbsRSpin.
Import ListNotations.
Local Open Scope N_scope.

Arguments owner_is : simpl never.
Arguments inc_count : simpl never.
Arguments dec_count : simpl never.

Definition th (A : astate) (t : nat) : option ath := nth_error (athr A) t.

(* where a thread that does not hold the flag may be parked *)
Definition outside (p : apc) : Prop :=
  match p with PDone | PAcc | PT0 _ | PT1 _ | PU0 => True | _ => False end.

(* the thread w that won the flag, by program point *)
Definition winner_ok (s : shared) (w : nat) (a : ath) : Prop :=
  match pc a with
  | PT2 _ => owner s = None /\ count s = 0 /\ adepth a = 0
  | PU4 => owner s = None /\ count s = 0 /\ adepth a = 1
  | PU3 => owner s = Some w /\ count s = 0 /\ adepth a = 1
  | PT3 _ => owner s = Some w /\ count s = adepth a /\ count s < P32
  | PT4 _ n => owner s = Some w /\ count s = adepth a /\ n = count s /\ count s < P32
  | PU2 n => owner s = Some w /\ count s = adepth a /\ n = count s /\ 1 <= n /\ count s < P32
  | PDone | PAcc | PT0 _ | PT1 _ | PU0 | PU1 =>
      owner s = Some w /\ count s = adepth a /\ 1 <= count s /\ count s < P32
  end.

Definition others_out (A : astate) (w : option nat) : Prop :=
  forall t b, Some t <> w -> th A t = Some b -> outside (pc b) /\ adepth b = 0.

Definition minv (A : astate) : Prop :=
  unf (ash A) = false /\
  if flag (ash A)
  then exists w a, th A w = Some a /\ winner_ok (ash A) w a /\ others_out A (Some w)
  else owner (ash A) = None /\ count (ash A) = 0 /\ others_out A None.

(* ---- small facts *)
Lemma astart_outside d o r : outside (pc (astart d o r)).
Proof. destruct r as [|[] r]; exact I. Qed.
Lemma astart_depth d o r : adepth (astart d o r) = d.
Proof. destruct r as [|[] r]; reflexivity. Qed.
Lemma fin_outside a op v : outside (pc (fin a op v)).
Proof. unfold fin. destruct (complete op v (adepth a) (aout a)). apply astart_outside. Qed.
Lemma fin_depth a op v : adepth (fin a op v) = fst (complete op v (adepth a) (aout a)).
Proof. unfold fin. destruct (complete op v (adepth a) (aout a)). apply astart_depth. Qed.

Lemma winner_ok_start s w d o r :
  owner s = Some w -> count s = d -> 1 <= count s -> count s < P32 -> winner_ok s w (astart d o r).
Proof. intros. destruct r as [|[] r]; cbn; auto. Qed.
Lemma winner_ok_fin s w a op v :
  owner s = Some w -> count s = fst (complete op v (adepth a) (aout a)) -> 1 <= count s -> count s < P32 ->
  winner_ok s w (fin a op v).
Proof.
  intros. unfold fin. destruct (complete op v (adepth a) (aout a)) as [d' o'].
  apply winner_ok_start; auto.
Qed.

Lemma owner_is_self s w : owner s = Some w -> owner_is s w Self = true.
Proof. unfold owner_is. intros ->. apply Nat.eqb_refl. Qed.
Lemma owner_is_other s w t : owner s = Some w -> t <> w -> owner_is s t Self = false.
Proof. unfold owner_is. intros -> H. apply Nat.eqb_neq. auto. Qed.
Lemma owner_is_none s t : owner s = None -> owner_is s t Self = false.
Proof. unfold owner_is. intros ->. reflexivity. Qed.

Lemma th_upd_same A t a' s' b : th A t = Some b -> th {| ash := s'; athr := upd_nth (athr A) t a' |} t = Some a'.
Proof. unfold th; cbn. apply nth_error_upd_same. Qed.
Lemma th_upd_other A t u a' s' : t <> u -> th {| ash := s'; athr := upd_nth (athr A) t a' |} u = th A u.
Proof. unfold th; cbn. apply nth_error_upd_other. Qed.

(* after a step of t that leaves t outside with depth 0, everybody but w is still outside *)
Lemma others_upd A t a' s' (w : option nat) b :
  th A t = Some b -> others_out A w -> (Some t <> w -> outside (pc a') /\ adepth a' = 0) ->
  others_out {| ash := s'; athr := upd_nth (athr A) t a' |} w.
Proof.
  intros Ht Ho Ha u c Hu Hc. destruct (Nat.eq_dec t u) as [->|Hne].
  - rewrite (th_upd_same _ _ _ _ _ Ht) in Hc. injection Hc as <-. auto.
  - rewrite th_upd_other in Hc by auto. eapply Ho; eauto.
Qed.

Lemma others_release A w a' s' b :
  th A w = Some b -> others_out A (Some w) -> outside (pc a') -> adepth a' = 0 ->
  others_out {| ash := s'; athr := upd_nth (athr A) w a' |} None.
Proof.
  intros Hw Ho Hp Hd u c _ Hc. destruct (Nat.eq_dec w u) as [->|Hne].
  - rewrite (th_upd_same _ _ _ _ _ Hw) in Hc. injection Hc as <-. auto.
  - rewrite th_upd_other in Hc by auto. eapply Ho; eauto. congruence.
Qed.

Lemma ovf_mono t A A' ev : astep t A = Some (A', ev) -> ovf (ash A') = false -> ovf (ash A) = false.
Proof.
  unfold astep. destruct (nth_error (athr A) t) as [a|]; [|discriminate].
  unfold atstep. destruct (pc a); intros H; inversion H; subst; cbn; auto.
  intros Ho. apply orb_false_iff in Ho. tauto.
Qed.

Lemma mod_small_inc n : n < P32 -> (n =? P32 - 1) = false -> (n + 1) mod P32 = n + 1.
Proof. intros H E. apply N.eqb_neq in E. apply N.mod_small. unfold P32 in *. lia. Qed.
Lemma mod_small_dec n : 1 <= n -> n < P32 -> (n + (P32 - 1)) mod P32 = n - 1.
Proof.
  intros H1 H2. replace (n + (P32 - 1)) with ((n - 1) + 1 * P32) by (unfold P32 in *; lia).
  rewrite N.mod_add by (unfold P32; lia). apply N.mod_small. lia.
Qed.

Lemma inc_count_spec s n : n < P32 -> ovf (inc_count s n) = false ->
  count (inc_count s n) = n + 1 /\ n + 1 < P32 /\ owner (inc_count s n) = owner s /\
  flag (inc_count s n) = flag s /\ unf (inc_count s n) = unf s.
Proof.
  intros Hlt Hov. unfold inc_count in *; cbn [count owner flag unf ovf] in *.
  apply orb_false_iff in Hov. destruct Hov as [_ Hov].
  rewrite (mod_small_inc _ Hlt Hov). apply N.eqb_neq in Hov. repeat split; auto. unfold P32 in *; lia.
Qed.
Lemma dec_count_spec s n : 1 <= n -> n < P32 ->
  count (dec_count s n) = n - 1 /\ owner (dec_count s n) = owner s /\
  flag (dec_count s n) = flag s /\ unf (dec_count s n) = unf s /\ ovf (dec_count s n) = ovf s.
Proof.
  intros H1 Hlt. unfold dec_count; cbn [count owner flag unf ovf].
  rewrite (mod_small_dec _ H1 Hlt). repeat split; auto.
  replace (n =? 0) with false; [apply orb_false_r|]. symmetry. apply N.eqb_neq. lia.
Qed.

Lemma complete_unlock_zero v o : complete CUnlock v 0 o = (0, o).
Proof. reflexivity. Qed.

(* ---- the step lemma *)
Lemma minv_step t A A' ev :
  minv A -> astep t A = Some (A', ev) -> ovf (ash A') = false -> minv A'.
Proof.
  intros [Hunf Hinv] Hs Hov. unfold astep in Hs. fold (th A t) in Hs.
  destruct (th A t) as [a|] eqn:Ht; [|discriminate].
  destruct (atstep t (ash A) a) as [[[s' a'] ev']|] eqn:Ea; [|discriminate].
  injection Hs as <- <-. cbn [ash] in Hov. unfold minv. cbn [ash].
  destruct (flag (ash A)) eqn:Ef.
  - (* the flag is held by w *)
    destruct Hinv as (w & aw & Hw & Hwin & Hoth).
    destruct (Nat.eq_dec t w) as [->|Hne].
    + (* the winner moves *)
      rewrite Hw in Ht. injection Ht as ->.
      assert (Hoth' : forall s2 a2, others_out {| ash := s2; athr := upd_nth (athr A) w a2 |} (Some w)).
      { intros s2 a2. eapply others_upd; eauto. intros H; congruence. }
      assert (Hsame : forall s2 a2, th {| ash := s2; athr := upd_nth (athr A) w a2 |} w = Some a2).
      { intros. eapply th_upd_same; eauto. }
      unfold atstep in Ea. unfold winner_ok in Hwin.
      destruct (pc a) as [| |c|c|c|c|c n| | |n| |] eqn:Ep; try discriminate Ea;
        injection Ea as <- <- <-; cbn [flag set_flag set_owner unf ovf] in *; rewrite ?Ef.
      * (* PAcc *) split; [auto|]. exists w, (fin a CAccess None). split; [apply Hsame|]. split; [|apply Hoth'].
        apply winner_ok_fin; cbn; tauto.
      * (* PT0: test_and_set by the holder fails *) split; [auto|]. exists w, (goto a (PT1 c)).
        split; [apply Hsame|]. split; [|apply Hoth']. unfold winner_ok; cbn. tauto.
      * (* PT1: owner check passes *) split; [auto|]. rewrite (owner_is_self (ash A) w) by tauto.
        exists w, (goto a (PT3 c)). split; [apply Hsame|]. split; [|apply Hoth']. unfold winner_ok; cbn. tauto.
      * (* PT2 *) split; [auto|]. exists w, (goto a (PT3 c)). split; [apply Hsame|]. split; [|apply Hoth'].
        unfold winner_ok; cbn. destruct Hwin as (Ho & Hc & Hd). rewrite Hc, Hd. repeat split; auto; try (unfold P32; lia).
      * (* PT3 *) split; [auto|]. exists w, (goto a (PT4 c (count (ash A)))). split; [apply Hsame|]. split; [|apply Hoth'].
        unfold winner_ok; cbn. tauto.
      * (* PT4 *) destruct Hwin as (Ho & Hc & Hn & Hlt). subst n.
        destruct (inc_count_spec (ash A) _ Hlt Hov) as (Dc & Dlt & Do & Df & Du).
        rewrite Df, Ef, Du. split; [auto|].
        exists w, (fin a (op_of c) (Some true)). split; [apply Hsame|]. split; [|apply Hoth'].
        apply winner_ok_fin; rewrite ?Do, ?Dc; auto; try lia.
        rewrite Hc. destruct c; reflexivity.
      * (* PU0: owner check passes *) split; [auto|]. rewrite (owner_is_self (ash A) w) by tauto.
        exists w, (goto a PU1). split; [apply Hsame|]. split; [|apply Hoth']. unfold winner_ok; cbn. tauto.
      * (* PU1 *) split; [auto|]. exists w, (goto a (PU2 (count (ash A)))). split; [apply Hsame|]. split; [|apply Hoth'].
        unfold winner_ok; cbn. intuition.
      * (* PU2 *) destruct Hwin as (Ho & Hc & Hn & H1 & Hlt). subst n.
        change ((count (ash A) + 4294967295) mod P32) with (count (dec_count (ash A) (count (ash A)))).
        destruct (dec_count_spec (ash A) _ H1 Hlt) as (Dc & Do & Df & Du & Dv).
        rewrite Df, Ef, Du. split; [auto|]. rewrite Dc.
        destruct (count (ash A) - 1 =? 0) eqn:Ez.
        -- apply N.eqb_eq in Ez. exists w, (goto a PU3). split; [apply Hsame|]. split; [|apply Hoth'].
           unfold winner_ok; cbn [pc goto adepth]. rewrite Do, Dc. repeat split; auto; lia.
        -- apply N.eqb_neq in Ez. exists w, (fin a CUnlock None). split; [apply Hsame|]. split; [|apply Hoth'].
           apply winner_ok_fin; rewrite ?Do, ?Dc; auto; try lia.
           cbn [complete fst]. lia.
      * (* PU3 *) split; [auto|]. exists w, (goto a PU4). split; [apply Hsame|]. split; [|apply Hoth'].
        unfold winner_ok; cbn. tauto.
      * (* PU4: release *) split; [auto|]. destruct Hwin as (Ho & Hc & Hd).
        split; [auto|]. split; [auto|]. eapply others_release; eauto.
        -- apply fin_outside.
        -- rewrite fin_depth, Hd. reflexivity.
    + (* another thread moves: it is outside, has depth 0 and is not the owner *)
      destruct (Hoth t a) as [Hout Hd]; [congruence|auto|].
      assert (Hno : owner_is (ash A) t Self = false).
      { unfold winner_ok in Hwin. destruct (pc aw);
          first [ apply (owner_is_other _ w); [tauto|auto] | apply owner_is_none; tauto ]. }
      assert (Hkeep : forall a2, outside (pc a2) -> adepth a2 = 0 ->
                 unf (ash A) = false /\
                 exists w0 a0, th {| ash := ash A; athr := upd_nth (athr A) t a2 |} w0 = Some a0 /\
                               winner_ok (ash A) w0 a0 /\
                               others_out {| ash := ash A; athr := upd_nth (athr A) t a2 |} (Some w0)).
      { intros a2 Ho2 Hd2. split; [auto|]. exists w, aw. split; [rewrite th_upd_other; auto|]. split; [auto|].
        eapply others_upd; eauto. }
      unfold atstep in Ea. destruct (pc a) as [| |c|c|c|c|c n| | |n| |] eqn:Ep; try contradiction; try discriminate Ea;
        injection Ea as <- <- <-; cbn [flag set_flag unf]; rewrite ?Ef.
      * (* PAcc *) apply Hkeep; [apply fin_outside | rewrite fin_depth, Hd; reflexivity].
      * (* PT0: loses *)
        replace (set_flag (ash A) true) with (ash A) by (destruct (ash A); cbn in *; subst; reflexivity).
        apply Hkeep; [exact I | exact Hd].
      * (* PT1: not the owner *) rewrite Hno. destruct c.
        -- apply Hkeep; [apply fin_outside | rewrite fin_depth, Hd; reflexivity].
        -- apply Hkeep; [exact I | exact Hd].
      * (* PU0: not the owner: unlock returns *) rewrite Hno.
        apply Hkeep; [apply fin_outside | rewrite fin_depth, Hd; reflexivity].
  - (* the flag is clear: everybody is outside *)
    destruct Hinv as (Ho & Hc & Hall).
    destruct (Hall t a) as [Hout Hd]; [discriminate|auto|].
    assert (Hno : owner_is (ash A) t Self = false) by (apply owner_is_none; auto).
    assert (Hkeep : forall a2, outside (pc a2) -> adepth a2 = 0 ->
               unf (ash A) = false /\ owner (ash A) = None /\ count (ash A) = 0 /\
               others_out {| ash := ash A; athr := upd_nth (athr A) t a2 |} None).
    { intros a2 Ho2 Hd2. split; [auto|]. split; [auto|]. split; [auto|]. eapply others_upd; eauto. }
    unfold atstep in Ea. destruct (pc a) as [| |c|c|c|c|c n| | |n| |] eqn:Ep; try contradiction; try discriminate Ea;
      injection Ea as <- <- <-; cbn [flag set_flag unf]; rewrite ?Ef.
    + apply Hkeep; [apply fin_outside | rewrite fin_depth, Hd; reflexivity].
    + (* PT0: wins *) split; [auto|]. exists t, (goto a (PT2 c)). split; [eapply th_upd_same; eauto|].
      split; [unfold winner_ok; cbn; auto|].
      eapply others_upd; eauto.
      * intros u b Hu Hb. apply (Hall u b); auto. discriminate.
      * intros H; congruence.
    + rewrite Hno. destruct c.
      * apply Hkeep; [apply fin_outside | rewrite fin_depth, Hd; reflexivity].
      * apply Hkeep; [exact I | exact Hd].
    + rewrite Hno. apply Hkeep; [apply fin_outside | rewrite fin_depth, Hd; reflexivity].
Qed.

Lemma minv_init clients : minv (ainit clients).
Proof.
  unfold minv, ainit; cbn. repeat split; auto.
  - unfold th in H0; cbn in H0. apply nth_error_In, in_map_iff in H0. destruct H0 as (ops & <- & _).
    apply astart_outside.
  - unfold th in H0; cbn in H0. apply nth_error_In, in_map_iff in H0. destruct H0 as (ops & <- & _).
    apply astart_depth.
Qed.

Theorem minv_reach clients A h : areach clients (A, h) -> ovf (ash A) = false -> minv A.
Proof.
  intros H. remember (A, h) as m eqn:E. revert A h E.
  induction H as [|m m' t _ IH Hs]; intros A h E Hov.
  - injection E as <- <-. apply minv_init.
  - subst m'. destruct m as [A0 h0]. unfold amstep in Hs; cbn [fst snd] in Hs.
    destruct (astep t A0) as [[A1 ev]|] eqn:Es; [|discriminate]. injection Hs as <- <-.
    eapply minv_step; eauto. eapply IH; eauto. eapply ovf_mono; eauto.
Qed.
