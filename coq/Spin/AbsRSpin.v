(* C19 -- program-point machine for RecursiveSpinlock and the proof that the interpretive
   semantics (Sem.v) of the REVIEWED program is exactly this machine: every state reachable
   by Sem.step reviewed_prog KRSpin is the image [conc] of a state of the machine, step for
   step.  The program points are the parking positions of a thread (one per shared access),
   as in design/prototypes/Spin.v. *)
From Coq Require Import List NArith Bool Arith Lia.
From PV Require Import Spin.Lang Spin.Reviewed Spin.Sem Spin.RaceSem.
Import ListNotations.
Local Open Scope N_scope.

(* ---- list helpers *)
Lemma nth_error_upd_same {A} (l : list A) n x y :
  nth_error l n = Some y -> nth_error (upd_nth l n x) n = Some x.
Proof.
  revert n; induction l as [|a l IH]; intros [|n] H; simpl in *; try discriminate; auto.
Qed.
Lemma nth_error_upd_other {A} (l : list A) n m x :
  n <> m -> nth_error (upd_nth l n x) m = nth_error l m.
Proof.
  revert n m; induction l as [|a l IH]; intros [|n] [|m] H; simpl; auto; try congruence.
Qed.
Lemma upd_nth_map {A B} (f : A -> B) (l : list A) n x :
  upd_nth (map f l) n (f x) = map f (upd_nth l n x).
Proof.
  revert n; induction l as [|a l IH]; intros [|n]; simpl; auto. f_equal; apply IH.
Qed.
Lemma upd_nth_length {A} (l : list A) n x : length (upd_nth l n x) = length l.
Proof. revert n; induction l as [|a l IH]; intros [|n]; simpl; auto. Qed.

(* ---- program points *)
Inductive cx := Direct | InLock.      (* try_lock called by the client / from lock()'s loop *)

Inductive apc :=
| PDone                   (* client finished *)
| PAcc                    (* about to touch the protected data *)
| PT0 (c : cx)            (* try_lock: about to test_and_set *)
| PT1 (c : cx)            (* flag was set: about to load the owner id *)
| PT2 (c : cx)            (* flag was clear: about to store the owner id *)
| PT3 (c : cx)            (* about to load lock_count_ (++) *)
| PT4 (c : cx) (n : N)    (* about to store n+1 *)
| PU0                     (* unlock: about to load the owner id *)
| PU1                     (* about to load lock_count_ (--) *)
| PU2 (n : N)             (* about to store n-1 *)
| PU3                     (* about to store the empty owner id *)
| PU4.                    (* about to clear the flag *)

Record ath := { pc : apc; arest : list cop; adepth : N; aout : list bool; afresh : bool }.

Definition lock_loop : expr := ENot (ECall MTry).
Definition ctx (c : cx) : list frame :=
  match c with Direct => [] | InLock => [KCall; KNot; KWhile lock_loop []; KBlock []] end.
Definition try_tail : list instr := [IncCount; Ret (Some (EConst true))].
Definition try_then : list instr := [If (EOwnerNe Relaxed Self) [Ret (Some (EConst false))] []].
Definition try_else : list instr := [StoreOwner Self Relaxed].
Definition unl_rel : list instr := [StoreOwner Nobody Relaxed; Clear Release].
Definition unl_tail : list instr := [If EDecIsZero unl_rel []].

Definition cfg (p : apc) : focus * list frame :=
  match p with
  | PDone => (FDone, [])
  | PAcc => (FAccess, [])
  | PT0 c => (FEx (ETas Acquire), KIf try_then try_else :: KBlock try_tail :: ctx c)
  | PT1 c => (FEx (EOwnerNe Relaxed Self),
              KIf [Ret (Some (EConst false))] [] :: KBlock [] :: KBlock try_tail :: ctx c)
  | PT2 c => (FSt try_else, KBlock try_tail :: ctx c)
  | PT3 c => (FSt try_tail, ctx c)
  | PT4 c n => (FIncW n [Ret (Some (EConst true))], ctx c)
  | PU0 => (FEx (EOwnerNe Relaxed Self), [KIf [Ret None] []; KBlock unl_tail])
  | PU1 => (FEx EDecIsZero, [KIf unl_rel []; KBlock []])
  | PU2 n => (FDecW n true [], [KIf unl_rel []; KBlock []])
  | PU3 => (FSt unl_rel, [KBlock []])
  | PU4 => (FSt [Clear Release], [KBlock []])
  end.

Definition cur_of (p : apc) : option cop :=
  match p with
  | PDone => None
  | PAcc => Some CAccess
  | PT0 Direct | PT1 Direct | PT2 Direct | PT3 Direct | PT4 Direct _ => Some CTry
  | PT0 InLock | PT1 InLock | PT2 InLock | PT3 InLock | PT4 InLock _ => Some CLock
  | PU0 | PU1 | PU2 _ | PU3 | PU4 => Some CUnlock
  end.

Definition conc_th (a : ath) : tstate :=
  {| foc := fst (cfg (pc a)); stk := snd (cfg (pc a)); cur := cur_of (pc a);
     rest := arest a; depth := adepth a; out := aout a; fresh := afresh a |}.

(* start of the next client operation *)
Definition astart (d : N) (o : list bool) (ops : list cop) : ath :=
  match ops with
  | [] => {| pc := PDone; arest := []; adepth := d; aout := o; afresh := true |}
  | CAccess :: r => {| pc := PAcc; arest := r; adepth := d; aout := o; afresh := true |}
  | CLock :: r => {| pc := PT0 InLock; arest := r; adepth := d; aout := o; afresh := true |}
  | CTry :: r => {| pc := PT0 Direct; arest := r; adepth := d; aout := o; afresh := true |}
  | CUnlock :: r => {| pc := PU0; arest := r; adepth := d; aout := o; afresh := true |}
  end.

(* the current operation returns v: update the client's ghost state, start the next one *)
Definition fin (a : ath) (op : cop) (v : val) : ath :=
  let (d', o') := complete op v (adepth a) (aout a) in astart d' o' (arest a).
Definition goto (a : ath) (p : apc) : ath :=
  {| pc := p; arest := arest a; adepth := adepth a; aout := aout a; afresh := false |}.
Definition op_of (c : cx) : cop := match c with Direct => CTry | InLock => CLock end.

Definition atstep (t : nat) (s : shared) (a : ath) : option (shared * ath * event) :=
  match pc a with
  | PDone => None
  | PAcc => Some (s, fin a CAccess None, if 0 <? adepth a then EvPlain LData else EvNone)
  | PT0 c => Some (set_flag s true, goto a (if flag s then PT1 c else PT2 c), EvTas Acquire (flag s))
  | PT1 c =>
      Some (s,
            if owner_is s t Self then goto a (PT3 c)
            else match c with Direct => fin a CTry (Some false) | InLock => goto a (PT0 InLock) end,
            EvAtomicOwner Relaxed)
  | PT2 c => Some (set_owner s (Some t), goto a (PT3 c), EvAtomicOwner Relaxed)
  | PT3 c => Some (s, goto a (PT4 c (count s)), EvPlain LCount)
  | PT4 c n => Some (inc_count s n, fin a (op_of c) (Some true), EvPlain LCount)
  | PU0 => Some (s, if owner_is s t Self then goto a PU1 else fin a CUnlock None, EvAtomicOwner Relaxed)
  | PU1 => Some (s, goto a (PU2 (count s)), EvPlain LCount)
  | PU2 n =>
      let s' := dec_count s n in
      Some (s', if count s' =? 0 then goto a PU3 else fin a CUnlock None, EvPlain LCount)
  | PU3 => Some (set_owner s None, goto a PU4, EvAtomicOwner Relaxed)
  | PU4 => Some (set_flag s false, fin a CUnlock None, EvClear Release)
  end.

Definition rs : cls := reviewed_rspin.

Lemma start_conc d o ops : start rs d o ops = conc_th (astart d o ops).
Proof. destruct ops as [|[] r]; reflexivity. Qed.

Lemma complete_lock_val v d o : complete CLock v d o = complete CLock (Some true) d o.
Proof. reflexivity. Qed.

(* THE SIMULATION: one access of the interpreted reviewed program = one step of the machine *)
Lemma tstep_conc t s a :
  tstep rs t s (conc_th a) =
  match atstep t s a with
  | Some (s', a', ev) => Some (s', conc_th a', ev)
  | None => None
  end.
Proof.
  destruct a as [p r d o f]. destruct p as [| |c|c|c|c|c n| | |n| |]; unfold atstep, conc_th, tstep;
    cbn [pc arest adepth aout afresh cfg fst snd foc stk].
  - reflexivity.
  - unfold continue, fin; cbn. rewrite start_conc. reflexivity.
  - destruct (flag s); destruct c; reflexivity.
  - destruct (owner_is s t Self); destruct c; unfold continue, fin; cbn; rewrite ?start_conc; reflexivity.
  - destruct c; reflexivity.
  - destruct c; reflexivity.
  - destruct c; unfold continue, fin; cbn; rewrite start_conc; reflexivity.
  - destruct (owner_is s t Self); unfold continue, fin; cbn; rewrite ?start_conc; reflexivity.
  - reflexivity.
  - cbn zeta. destruct (count (dec_count s n) =? 0); unfold continue, fin; cbn; rewrite ?start_conc; reflexivity.
  - reflexivity.
  - unfold continue, fin; cbn; rewrite start_conc; reflexivity.
Qed.

(* ---- whole states *)
Record astate := { ash : shared; athr : list ath }.
Definition conc (A : astate) : state := {| sh := ash A; thr := map conc_th (athr A) |}.

Definition astep (t : nat) (A : astate) : option (astate * event) :=
  match nth_error (athr A) t with
  | None => None
  | Some a =>
      match atstep t (ash A) a with
      | None => None
      | Some (s', a', ev) => Some ({| ash := s'; athr := upd_nth (athr A) t a' |}, ev)
      end
  end.

Lemma step_conc t A :
  step reviewed_prog KRSpin t (conc A) =
  match astep t A with Some (A', ev) => Some (conc A', ev) | None => None end.
Proof.
  unfold step, astep, conc; cbn [sh thr cls_of rspin_cls reviewed_prog].
  rewrite nth_error_map. destruct (nth_error (athr A) t) as [a|]; cbn [option_map]; [|reflexivity].
  fold rs. rewrite tstep_conc. destruct (atstep t (ash A) a) as [[[s' a'] ev]|]; [|reflexivity].
  cbn [ash athr sh thr]. rewrite upd_nth_map. reflexivity.
Qed.

Definition ainit (clients : list (list cop)) : astate :=
  {| ash := init_shared; athr := map (astart 0 []) clients |}.

Lemma init_conc clients : init reviewed_prog KRSpin clients = conc (ainit clients).
Proof.
  unfold init, conc, ainit; cbn [sh thr ash athr cls_of rspin_cls reviewed_prog]. f_equal.
  rewrite map_map. apply map_ext. intros ops. apply start_conc.
Qed.

(* machine + monitor *)
Definition amstep (t : nat) (m : astate * hb) : option (astate * hb) :=
  match astep t (fst m) with
  | Some (A', ev) => Some (A', hb_step (snd m) t ev)
  | None => None
  end.

Inductive areach (clients : list (list cop)) : astate * hb -> Prop :=
| areach_init : areach clients (ainit clients, hb_init)
| areach_step m m' t : areach clients m -> amstep t m = Some m' -> areach clients m'.

Lemma mstep_conc t A h :
  mstep reviewed_prog KRSpin t (conc A, h) =
  match amstep t (A, h) with Some (A', h') => Some (conc A', h') | None => None end.
Proof.
  unfold mstep, amstep; cbn [fst snd]. rewrite step_conc.
  destruct (astep t A) as [[A' ev]|]; reflexivity.
Qed.

Theorem reach_abs clients m :
  reach reviewed_prog KRSpin clients m ->
  exists A, fst m = conc A /\ areach clients (A, snd m).
Proof.
  induction 1 as [|m m' t _ IH _ Hs].
  - exists (ainit clients). split; [apply init_conc | constructor].
  - destruct IH as (A & HA & HR). destruct m as [s h]; cbn [fst snd] in *. subst s.
    rewrite mstep_conc in Hs. destruct (amstep t (A, h)) as [[A' h']|] eqn:E; [|discriminate].
    injection Hs as <-. exists A'. split; [reflexivity|]. econstructor; eauto.
Qed.

Theorem abs_reach clients A h :
  areach clients (A, h) -> reach reviewed_prog KRSpin clients (conc A, h).
Proof.
  intros H. remember (A, h) as m eqn:E. revert A h E.
  induction H as [|m m' t _ IH Hs]; intros A h E.
  - injection E as <- <-. unfold minit in *. rewrite <- init_conc. constructor.
  - subst m'. destruct m as [A0 h0]. eapply reach_step; [apply IH; reflexivity | reflexivity |].
    rewrite mstep_conc, Hs. reflexivity.
Qed.
