(* C19 -- the REVIEWED transcription of spinlock.h (Spinlock and RecursiveSpinlock) in the
   language of Lang.v.  All semantic theorems are about this value; the obligation
   [gen_matches] (SpinProofs.v) ties it to what translate/gen_spin.py reads from the source. *)
From Coq Require Import List.
From PV Require Import Spin.Lang.
Import ListNotations.

Definition reviewed_spin : cls := {|
  (* bool try_lock() { return !ready_.test_and_set(std::memory_order_acquire); } *)
  try_lock_body := [ Ret (Some (ENot (ETas Acquire))) ];
  (* void lock() { while (!try_lock()); } *)
  lock_body := [ While (ENot (ECall MTry)) [] ];
  (* void unlock() { ready_.clear(std::memory_order_release); } *)
  unlock_body := [ Clear Release ]
|}.

Definition reviewed_rspin : cls := {|
  try_lock_body :=
    [ If (ETas Acquire)
         [ If (EOwnerNe Relaxed Self) [ Ret (Some (EConst false)) ] [] ]
         [ StoreOwner Self Relaxed ];
      IncCount;
      Ret (Some (EConst true)) ];
  lock_body := [ While (ENot (ECall MTry)) [] ];
  unlock_body :=
    [ If (EOwnerNe Relaxed Self) [ Ret None ] [];
      If EDecIsZero [ StoreOwner Nobody Relaxed; Clear Release ] [] ]
|}.

Definition reviewed_prog : prog := {| spin_cls := reviewed_spin; rspin_cls := reviewed_rspin |}.
