(* C20 -- executable model of the C API wrappers (primitiv/c/**/*.cc, c/internal/internal.h).
   No proofs in this file.

   A wrapper is
       PRIMITIV_C_STATUS f(args) try { null checks ; C++ calls ; outputs ; return OK; }
       catch (const std::exception &e) { return ErrorHandler::get_instance().handle(e); }
   The regenerated table (Gen/CApiTable.v) gives, per wrapper, the parameters with their type
   kind and the ordered EVENTS of the body.  The C++ API behind a wrapper is an ORACLE: it
   returns, or throws a std::exception with some message at some point of the body.  The model
   says what the wrapper then does, INCLUDING undefined behaviour (a NULL that is read without a
   check), an exception that escapes (no function-try-block), and a wrong status value; the
   theorems of CApiProofs.v show that none of these can happen for the rows of the table. *)
From Coq Require Import List String Ascii ZArith NArith Bool Arith.
Import ListNotations.
Local Open Scope string_scope.
Local Open Scope list_scope.

(* ------------------------------------------------------------------ table vocabulary *)

Inductive ptype :=
| PScalar                                   (* uint32_t, int32_t, size_t, float, PRIMITIV_C_BOOL *)
| PObjPtr (const : bool) (cls : string)     (* [const] primitivX_t * *)
| PObjPtrPtr (cls : string)                 (* primitivX_t **, const primitivX_t **, const primitivX_t *const * *)
| PDataPtr (const : bool)                   (* [const] uint32_t* / float* / size_t* / char* / PRIMITIV_C_BOOL* *)
| PCStr                                     (* const char * *)
| PCStrPtr.                                 (* const char ** *)

Inductive dkind := Dstar | Darrow | Ddelete | Dindex | Drange | Dcstr | Draw | Dsize.
Inductive helper := HCopyVector | HCopyString | HMoveVector.
Inductive size_src := SizeParam (i : nat) | SizeLocal (i : nat) | SizeUnknown.

Inductive use :=
| UCheck                      (* PRIMITIV_C_CHECK_NOT_NULL(p) as a top-level statement of the try block *)
| UCheckNested                (* the same test somewhere it does not dominate the rest of the body *)
| UDeref (d : dkind)          (* *to_cpp_ptr(p), to_cpp_ptr(p)->, delete, p[i], (p, p+n), C string, raw pointer
                                 handed to C++, `*size` inside a helper *)
| UStore                      (* *p = ... (evaluated after its right-hand side) *)
| UPass                       (* to_cpp_ptr(p) handed on as a pointer: NULL means "default object" *)
| UBuf (h : helper) (s : size_src)   (* p is the buffer argument of a size-query helper *)
| UElemCheckAll               (* for (i = 0; i < n; ++i) PRIMITIV_C_CHECK_NOT_NULL(p[i]);  at top level *)
| UElemCheckNested
| UElemUse                    (* the elements of the pointer array p are dereferenced / handed to C++ *)
| UUnknown.                   (* a use the translator does not understand *)

Record event := Ev { ev_param : nat; ev_use : use }.
Record param := mkParam { p_name : string; p_type : ptype; p_len : option nat }.
Record wrapper := {
  w_name : string; w_file : string;
  w_params : list param;
  w_events : list event;
  w_try : bool;            (* the body is a function-try-block *)
  w_catch_std : bool;      (* ... with a handler for const std::exception & *)
  w_handler : bool;        (* ... that is `return ErrorHandler::get_instance().handle(e);` *)
  w_rets : list Z          (* literal values returned inside the try block *)
}.

Inductive cmpop := CLt | CLe | CGt | CGe | CEq | CNe.
(* if (buf) { if ( *size CMP len + hc_cmp_plus ) throw msg; copy; } else { *size = len + hc_query_plus; } *)
Record helper_code := mkHelperCode {
  hc_cmp : cmpop; hc_cmp_plus : nat; hc_query_plus : nat; hc_copy_after_test : bool;
  hc_guard_plain : bool;   (* the outer condition is exactly `if (buf)` and the translator recognised the body *)
  hc_msg : string }.
Record handler_facts := mkHandlerFacts {
  hf_handle_returns : Z; hf_stores_what : bool; hf_reset_msg : string; hf_init_msg : string;
  hf_thread_local : bool }.

Definition PRIMITIV_C_OK : Z := 0%Z.
Definition PRIMITIV_C_ERROR : Z := (-1)%Z.

(* ------------------------------------------------------------------ small helpers *)

Definition is_pointer (t : ptype) : bool := match t with PScalar => false | _ => true end.
Definition ptype_of (w : wrapper) (i : nat) : ptype :=
  match nth_error (w_params w) i with Some p => p_type p | None => PScalar end.
Definition pname_of (w : wrapper) (i : nat) : string :=
  match nth_error (w_params w) i with Some p => p_name p | None => "?" end.
Definition null_msg (name : string) : string := ("Argument `" ++ name ++ "` must not be null.")%string.
Definition elem_null_msg (name : string) : string := null_msg (name ++ "[i]")%string.
(* libstdc++: std::string(nullptr) throws std::logic_error (stated as an assumption of C20) *)
Definition string_from_null_msg : string := "basic_string: construction from null is not valid".

Definition mem (i : nat) (l : list nat) : bool := existsb (Nat.eqb i) l.

Definition cmp_holds (c : cmpop) (a b : N) : bool :=
  match c with
  | CLt => N.ltb a b | CLe => N.leb a b | CGt => N.ltb b a | CGe => N.leb b a
  | CEq => N.eqb a b | CNe => negb (N.eqb a b)
  end.

(* ------------------------------------------------------------------ size-query helpers on lists *)

(* The caller's array is a list of its current contents (its length is the real capacity);
   NULL is None.  [payload] is what the helper copies when it copies: the vector's elements
   (std::copy / std::transform), or the characters followed by NUL (strcpy). *)
Inductive hres (A : Type) :=
| HOk (buf : option (list A)) (size : N)      (* returns; buffer contents and *size afterwards *)
| HThrow (msg : string).                       (* PRIMITIV_THROW_ERROR; nothing was written *)
Arguments HOk {A}. Arguments HThrow {A}.

Definition overwrite {A} (payload contents : list A) : list A :=
  payload ++ skipn (List.length payload) contents.

Definition run_helper {A} (hc : helper_code) (payload : list A) (len : N)
           (buf : option (list A)) (size : N) : hres A :=
  match buf with
  | Some contents =>
      if cmp_holds (hc_cmp hc) size (len + N.of_nat (hc_cmp_plus hc))
      then HThrow (hc_msg hc)
      else HOk (Some (overwrite payload contents)) size
  | None => HOk None (len + N.of_nat (hc_query_plus hc))
  end.

(* the size-query convention itself, as an executable specification (independent of the code
   read from internal.h): NULL buffer -> required size; too small -> error; else copy *)
Definition spec_helper {A} (msg : string) (payload : list A) (buf : option (list A)) (size : N) : hres A :=
  let need := N.of_nat (List.length payload) in
  match buf with
  | None => HOk None need
  | Some contents => if N.ltb size need then HThrow msg else HOk (Some (overwrite payload contents)) size
  end.

Definition NUL : ascii := Ascii.zero.
Definition copy_vector_to_array {A} (hc : helper_code) (src : list A) buf size :=
  run_helper hc src (N.of_nat (List.length src)) buf size.
Definition move_vector_to_array_of_c_ptrs {A} (hc : helper_code) (src : list A) buf size :=
  run_helper hc src (N.of_nat (List.length src)) buf size.
Definition copy_string_to_array (hc : helper_code) (str : list ascii) buf size :=
  run_helper hc (str ++ [NUL]) (N.of_nat (List.length str)) buf size.

(* what the payload needs: length src, resp. length str + 1 *)
Definition helper_extra (h : helper) : nat := match h with HCopyString => 1 | _ => 0 end.

(* ------------------------------------------------------------------ one call of a wrapper *)

Record env := {
  nulls : nat -> bool;        (* argument i is NULL *)
  elem_null : nat -> bool;    (* the (non-NULL) pointer array passed as argument i contains a NULL element *)
  scalar : nat -> N;          (* bit pattern of scalar argument i *)
  size_in : nat -> N;         (* *arg_i for a size_t * argument *)
  result_len : N              (* length of the vector / string the C++ call hands to a helper *)
}.
(* None: every C++ call made by the body returns.  Some (k, m): the C++ code that runs while
   event k is executed (or after the last event when k is beyond) throws a std::exception with
   what() = m.  Quantifying over k covers every position of the C++ calls inside the body. *)
Definition oracle := option (nat * string).

Inductive write := WStore (p : nat) | WSize (p : nat) (v : N) | WBuf (p : nat) (n : N).

Inductive outcome :=
| Done (ws : list write)
| Thrown (m : string) (ws : list write)
| Undefined (p : nat) (u : use).      (* NULL read without a check, or an event the model rejects *)

Section Body.
  Variable hcode : helper -> helper_code.
  Variable w : wrapper.
  Variable e : env.
  Variable o : oracle.

  Definition fires (k : nat) : option string :=
    match o with Some (j, m) => if Nat.eqb j k then Some m else None | None => None end.
  Definition pending (k : nat) : option string :=
    match o with Some (j, m) => if Nat.leb k j then Some m else None | None => None end.

  Definition is_zero (p : nat) : bool :=
    if is_pointer (ptype_of w p) then nulls e p else N.eqb (scalar e p) 0.

  Fixpoint exec (evs : list event) (k : nat) (ws : list write) : outcome :=
    match evs with
    | [] => match pending k with Some m => Thrown m ws | None => Done ws end
    | Ev p u :: rest =>
      match fires k with
      | Some m => Thrown m ws
      | None =>
        let continue := exec rest (S k) in
        match u with
        | UCheck => if is_zero p then Thrown (null_msg (pname_of w p)) ws else continue ws
        | UDeref _ => if nulls e p then Undefined p u else continue ws
        | UStore => if nulls e p then Undefined p u else continue (ws ++ [WStore p])
        | UPass => continue ws
        | UElemCheckAll =>
            if nulls e p then Undefined p u
            else if elem_null e p then Thrown (elem_null_msg (pname_of w p)) ws else continue ws
        | UElemUse =>
            if nulls e p then Undefined p u
            else if elem_null e p then
              match ptype_of w p with
              | PCStrPtr => Thrown string_from_null_msg ws
              | PDataPtr _ => continue ws
              | _ => Undefined p u
              end
            else continue ws
        | UBuf h src =>
            let hc := hcode h in
            let go (size : N) (sizeparam : option nat) :=
              if nulls e p then
                continue (ws ++ match sizeparam with
                                | Some q => [WSize q (result_len e + N.of_nat (hc_query_plus hc))]
                                | None => [] end)
              else if cmp_holds (hc_cmp hc) size (result_len e + N.of_nat (hc_cmp_plus hc))
                   then Thrown (hc_msg hc) ws
                   else continue (ws ++ [WBuf p (result_len e + N.of_nat (helper_extra h))]) in
            match src with
            | SizeParam q => if nulls e q then Undefined q u else go (size_in e q) (Some q)
            | SizeLocal q =>
                (* a NULL buffer would take the size-query path, write the size into the local
                   and return OK without delivering anything: the model rejects that *)
                if nulls e p then Undefined p u else go (scalar e q) None
            | SizeUnknown => Undefined p u
            end
        | UCheckNested | UElemCheckNested | UUnknown => Undefined p u
        end
      end
    end.

  Definition body : outcome := exec (w_events w) 0 [].
End Body.

(* What the caller sees. *)
Inductive cres :=
| CReturn (status : Z) (msg : option string) (ws : list write)
      (* msg = Some m: ErrorHandler::handle stored m in this thread's handler *)
| CEscape (m : string)        (* a C++ exception leaves the extern "C" function *)
| CUndefined (p : nat) (u : use).

Definition ok_status (w : wrapper) : Z :=
  match w_rets w with [r] => r | _ => 99%Z end.

Definition call (hcode : helper -> helper_code) (hf : handler_facts) (w : wrapper) (e : env) (o : oracle) : cres :=
  match body hcode w e o with
  | Done ws => CReturn (ok_status w) None ws
  | Thrown m ws =>
      if w_try w && w_catch_std w then
        if w_handler w
        then CReturn (hf_handle_returns hf) (if hf_stores_what hf then Some m else None) ws
        else CReturn 99%Z None ws
      else CEscape m
  | Undefined p u => CUndefined p u
  end.

(* ------------------------------------------------------------------ static checks on a row *)

Definition default_object_class (c : string) : bool :=
  String.eqb c "Device" || String.eqb c "Graph".

Definition is_deref_use (u : use) : bool :=
  match u with UDeref _ | UStore | UElemCheckAll | UElemUse | UBuf _ (SizeLocal _) => true | _ => false end.
(* a parameter the body reads through: NULL cannot be accepted there *)
Definition required (w : wrapper) (i : nat) : bool :=
  is_pointer (ptype_of w i) &&
  existsb (fun ev => Nat.eqb (ev_param ev) i && is_deref_use (ev_use ev)) (w_events w).
Definition size_params (w : wrapper) : list nat :=
  flat_map (fun ev => match ev_use ev with UBuf _ (SizeParam q) => [q] | _ => [] end) (w_events w).
Definition required_all (w : wrapper) (i : nat) : bool := required w i || mem i (size_params w).

Definition all_try_block (w : wrapper) : bool :=
  w_try w && w_catch_std w && w_handler w &&
  match w_rets w with [r] => Z.eqb r PRIMITIV_C_OK | _ => false end.

(* every dereferenced pointer parameter is null-checked before (checked = set of parameters
   whose top-level check has already been executed) *)
Fixpoint derefs_checked_from (w : wrapper) (evs : list event) (checked : list nat) : bool :=
  match evs with
  | [] => true
  | Ev p u :: rest =>
    match u with
    | UCheck => derefs_checked_from w rest (p :: checked)
    | UDeref _ | UStore | UElemCheckAll | UElemUse =>
        mem p checked && is_pointer (ptype_of w p) && derefs_checked_from w rest checked
    | UBuf _ (SizeParam q) => mem q checked && is_pointer (ptype_of w q) && derefs_checked_from w rest checked
    | UBuf _ (SizeLocal _) => mem p checked && is_pointer (ptype_of w p) && derefs_checked_from w rest checked
    | UBuf _ SizeUnknown => false
    | UCheckNested | UElemCheckNested | UUnknown => false
    | _ => derefs_checked_from w rest checked
    end
  end.
Definition derefs_checked (w : wrapper) : bool := derefs_checked_from w (w_events w) [].

(* no null check on a scalar; no null check on a pointer the body never reads through
   (a check on a pass-through `dev` would reject the NULL that means "default device") *)
Definition checks_pointers_only (w : wrapper) : bool :=
  forallb (fun ev => match ev_use ev with
                     | UCheck | UCheckNested => is_pointer (ptype_of w (ev_param ev))
                     | UElemCheckAll | UElemCheckNested =>
                         match ptype_of w (ev_param ev) with PObjPtrPtr _ | PCStrPtr => true | _ => false end
                     | _ => true end) (w_events w).
Definition checks_required_only (w : wrapper) : bool :=
  forallb (fun ev => match ev_use ev with
                     | UCheck => required_all w (ev_param ev)
                     | _ => true end) (w_events w).

(* arrays of object pointers: the elements are checked (all of them) before they are used *)
Fixpoint elems_checked_from (w : wrapper) (evs : list event) (echecked : list nat) : bool :=
  match evs with
  | [] => true
  | Ev p u :: rest =>
    match u with
    | UElemCheckAll => elems_checked_from w rest (p :: echecked)
    | UElemUse => match ptype_of w p with
                  | PObjPtrPtr _ => mem p echecked
                  | PCStrPtr | PDataPtr _ => true
                  | _ => false end && elems_checked_from w rest echecked
    | _ => elems_checked_from w rest echecked
    end
  end.
Definition elems_checked (w : wrapper) : bool := elems_checked_from w (w_events w) [].

(* pass-through only for the two classes whose C++ API reads nullptr as "the default object",
   and never together with a dereference of the same parameter *)
Definition pass_through_ok (w : wrapper) : bool :=
  forallb (fun ev => match ev_use ev with
                     | UPass => match ptype_of w (ev_param ev) with
                                | PObjPtr _ c => default_object_class c | _ => false end
                                && negb (required w (ev_param ev))
                     | _ => true end) (w_events w).

(* buffers: writable data / object-pointer arrays; the size comes from a size_t* parameter or a
   local copy of a scalar parameter *)
Definition buffers_ok (w : wrapper) : bool :=
  forallb (fun ev => match ev_use ev with
                     | UBuf _ src =>
                         match ptype_of w (ev_param ev) with PDataPtr false | PObjPtrPtr _ => true | _ => false end &&
                         match src with
                         | SizeParam q => match ptype_of w q with PDataPtr false => true | _ => false end
                         | SizeLocal q => negb (is_pointer (ptype_of w q))
                         | SizeUnknown => false end
                     | _ => true end) (w_events w).

(* the output is written last: after everything that can throw *)
Fixpoint store_last (evs : list event) : bool :=
  match evs with
  | [] => true
  | Ev _ UStore :: rest => match rest with [] => true | _ => false end
  | Ev _ (UBuf _ _) :: rest => match rest with [] => true | _ => false end
  | _ :: rest => store_last rest
  end.

Definition wf (w : wrapper) : bool :=
  all_try_block w && derefs_checked w && checks_pointers_only w && checks_required_only w &&
  elems_checked w && pass_through_ok w && buffers_ok w.

(* which check fails for a row, and at which parameter (used by the check to build the
   concrete failing call) *)
Definition diagnose (w : wrapper) : list (string * nat) :=
  (if all_try_block w then [] else [("all_try_blocks", 0)]) ++
  (if derefs_checked w then [] else
     map (fun i => ("derefs_are_checked", i))
         (filter (fun i => required_all w i &&
                           negb (derefs_checked_from w (filter (fun ev => Nat.eqb (ev_param ev) i ||
                                     match ev_use ev with UBuf _ (SizeParam q) => Nat.eqb q i | _ => false end)
                                                       (w_events w)) []))
                 (seq 0 (List.length (w_params w))))) ++
  (if checks_pointers_only w && checks_required_only w then [] else
     map (fun ev => ("checks_only_pointers", ev_param ev))
         (filter (fun ev => match ev_use ev with
                            | UCheck | UCheckNested => negb (required_all w (ev_param ev))
                            | _ => false end) (w_events w))) ++
  (if elems_checked w then [] else
     map (fun ev => ("array_elements_checked", ev_param ev))
         (filter (fun ev => match ev_use ev with UElemUse => true | _ => false end) (w_events w))) ++
  (if pass_through_ok w then [] else [("pass_through_default_objects", 0)]) ++
  (if buffers_ok w then [] else [("buffers_are_size_query", 0)]).

(* ------------------------------------------------------------------ expectations for probes *)

Definition valid_env (w : wrapper) (null_at : option nat) (elem_at : option nat) : env := {|
  nulls := fun i => match null_at with Some j => Nat.eqb i j | None => false end;
  elem_null := fun i => match elem_at with Some j => Nat.eqb i j | None => false end;
  scalar := fun _ => 1%N;
  size_in := fun _ => 1000000%N;
  result_len := 1%N |}.

Inductive expectation :=
| ExpOk                         (* returns PRIMITIV_C_OK *)
| ExpError (m : string)         (* returns PRIMITIV_C_ERROR, message m *)
| ExpSizeQuery                  (* returns PRIMITIV_C_OK and writes the required size *)
| ExpBad (what : string).       (* the model itself predicts a crash / escape / wrong status *)

Definition expect (hcode : helper -> helper_code) (hf : handler_facts) (w : wrapper)
           (null_at elem_at : option nat) : expectation :=
  match call hcode hf w (valid_env w null_at elem_at) None with
  | CReturn s None ws =>
      if Z.eqb s PRIMITIV_C_OK then
        if existsb (fun x => match x with WSize _ _ => true | _ => false end) ws then ExpSizeQuery else ExpOk
      else ExpBad "wrong-status"
  | CReturn s (Some m) _ => if Z.eqb s PRIMITIV_C_ERROR then ExpError m else ExpBad "wrong-status"
  | CEscape _ => ExpBad "exception-escapes"
  | CUndefined _ _ => ExpBad "undefined-behaviour"
  end.

(* ------------------------------------------------------------------ the per-thread handler *)

Definition tstate := nat -> string.        (* thread id -> message_ of its thread_local ErrorHandler *)
Definition upd (s : tstate) (t : nat) (m : string) : tstate := fun t' => if Nat.eqb t' t then m else s t'.
Definition init_state (hf : handler_facts) : tstate := fun _ => hf_init_msg hf.

Definition after_call (s : tstate) (t : nat) (r : cres) : tstate :=
  match r with CReturn _ (Some m) _ => upd s t m | _ => s end.

Definition chars (s : string) : list ascii := list_ascii_of_string s.

Inductive action :=
| ACall (w : wrapper) (e : env) (o : oracle)       (* any wrapper other than the two below *)
| AReset                                           (* primitivResetStatus() *)
| AGetMessage (buf : option (list ascii)) (size : option N).   (* primitivGetMessage(buf, size); size = None: NULL *)

Inductive observed :=
| OStatus (status : Z)
| OMessage (status : Z) (buf : option (list ascii)) (size : N)
| OBroken.

(* primitivGetMessage: CHECK_NOT_NULL(size); copy_string_to_array(get_message(), retval, size) *)
Definition step (hcode : helper -> helper_code) (hf : handler_facts) (s : tstate) (t : nat) (a : action)
  : observed * tstate :=
  match a with
  | ACall w e o =>
      let r := call hcode hf w e o in
      (match r with CReturn st _ _ => OStatus st | _ => OBroken end, after_call s t r)
  | AReset => (OStatus PRIMITIV_C_OK, upd s t (hf_reset_msg hf))
  | AGetMessage buf None =>
      (OStatus (hf_handle_returns hf), upd s t (null_msg "size"))
  | AGetMessage buf (Some size) =>
      match copy_string_to_array (hcode HCopyString) (chars (s t)) buf size with
      | HOk buf' size' => (OMessage PRIMITIV_C_OK buf' size', s)
      | HThrow m => (OStatus (hf_handle_returns hf), upd s t m)
      end
  end.

Fixpoint run (hcode : helper -> helper_code) (hf : handler_facts) (s : tstate) (tr : list (nat * action))
  : list observed * tstate :=
  match tr with
  | [] => ([], s)
  | (t, a) :: rest =>
      let '(ob, s') := step hcode hf s t a in
      let '(obs, s'') := run hcode hf s' rest in
      (ob :: obs, s'')
  end.

Definition lookup_helper (tbl : list (helper * helper_code)) (h : helper) : helper_code :=
  match find (fun x => match fst x, h with
                       | HCopyVector, HCopyVector | HCopyString, HCopyString | HMoveVector, HMoveVector => true
                       | _, _ => false end) tbl with
  | Some x => snd x
  | None => mkHelperCode CNe 0 0 false false ""
  end.
