(* C20 -- proofs about the wrapper model (Wrapper.v) and the REGENERATED table (Gen/CApiTable.v).
   Two kinds of statements:
   (i)  general lemmas about [exec]/[call]/[step] for an arbitrary row that passes the static
        checks [wf] and [store_last] (induction over the event list);
   (ii) finite obligations over the regenerated data, closed by vm_compute and lifted with
        forallb_forall: they are re-checked against what the code says now. *)
From Coq Require Import List String Ascii ZArith NArith Bool Arith Lia.
From PV Require Import CApi.Wrapper Gen.CApiTable.
Import ListNotations.
Local Open Scope list_scope.

Definition hcode : helper -> helper_code := lookup_helper helper_table.
Definition hf : handler_facts := handler_code.

(* ================================================================== 1. size-query helpers *)

(* the code `if (buf) { if ( *size CMP len + a) throw; copy } else *size = len + b` asks for
   exactly len + extra elements in both places, copies only after the test, and takes the
   copy branch for EVERY non-NULL buffer (hc_guard_plain; [run_helper] is the semantics of
   exactly that shape, so the flag is what licenses it) *)
Definition hc_equiv (hc : helper_code) (extra : nat) : bool :=
  match hc_cmp hc with
  | CLt => Nat.eqb (hc_cmp_plus hc) extra
  | CLe => Nat.eqb (S (hc_cmp_plus hc)) extra
  | _ => false
  end && Nat.eqb (hc_query_plus hc) extra && hc_copy_after_test hc && hc_guard_plain hc.

Lemma hc_equiv_cmp hc extra size len : hc_equiv hc extra = true ->
  cmp_holds (hc_cmp hc) size (len + N.of_nat (hc_cmp_plus hc)) = (size <? len + N.of_nat extra)%N.
Proof.
  unfold hc_equiv. intros H.
  apply andb_true_iff in H. destruct H as [H _].
  apply andb_true_iff in H. destruct H as [H _].
  apply andb_true_iff in H. destruct H as [H _].
  destruct (hc_cmp hc); try discriminate; apply Nat.eqb_eq in H; subst extra; cbn [cmp_holds].
  - reflexivity.
  - destruct (N.leb_spec size (len + N.of_nat (hc_cmp_plus hc)));
      destruct (N.ltb_spec size (len + N.of_nat (S (hc_cmp_plus hc)))); try reflexivity; lia.
Qed.

Lemma hc_equiv_query hc extra : hc_equiv hc extra = true -> hc_query_plus hc = extra.
Proof.
  unfold hc_equiv. intros H.
  apply andb_true_iff in H. destruct H as [H _].
  apply andb_true_iff in H. destruct H as [H _].
  apply andb_true_iff in H. destruct H as [_ H]. now apply Nat.eqb_eq in H.
Qed.

Lemma overwrite_firstn {A} (payload contents : list A) :
  firstn (List.length payload) (overwrite payload contents) = payload.
Proof.
  unfold overwrite. rewrite firstn_app, Nat.sub_diag, firstn_all. cbn. now rewrite app_nil_r.
Qed.

Lemma overwrite_skipn {A} (payload contents : list A) :
  skipn (List.length payload) (overwrite payload contents) = skipn (List.length payload) contents.
Proof.
  unfold overwrite. rewrite skipn_app, Nat.sub_diag, skipn_all. reflexivity.
Qed.

Lemma overwrite_length {A} (payload contents : list A) :
  List.length payload <= List.length contents ->
  List.length (overwrite payload contents) = List.length contents.
Proof.
  unfold overwrite. intros H. rewrite app_length, skipn_length. lia.
Qed.

(* The size-query convention, for ALL payloads, capacities and sizes:
   - NULL buffer: returns, *size := number of elements needed, nothing else written;
   - *size too small: throws, nothing written;
   - *size sufficient (and, as the caller promises, not larger than the real capacity): returns,
     the first [need] slots hold the data, every other slot and *size are unchanged and the
     array does not grow (no write outside it). *)
Definition size_query_spec {A} (f : option (list A) -> N -> hres A) (payload : list A) (msg : string) : Prop :=
  let need := N.of_nat (List.length payload) in
  (forall size, f None size = HOk None need) /\
  (forall contents size, (size < need)%N -> f (Some contents) size = HThrow msg) /\
  (forall contents size, (need <= size)%N -> (size <= N.of_nat (List.length contents))%N ->
     exists out, f (Some contents) size = HOk (Some out) size /\
                 firstn (List.length payload) out = payload /\
                 skipn (List.length payload) out = skipn (List.length payload) contents /\
                 List.length out = List.length contents).

Lemma run_helper_spec {A} hc extra (payload : list A) len :
  hc_equiv hc extra = true ->
  N.of_nat (List.length payload) = (len + N.of_nat extra)%N ->
  size_query_spec (run_helper hc payload len) payload (hc_msg hc).
Proof.
  intros Heq Hlen. unfold size_query_spec. rewrite Hlen. repeat split.
  - intros size. unfold run_helper. now rewrite (hc_equiv_query _ _ Heq).
  - intros contents size Hlt. unfold run_helper. rewrite (hc_equiv_cmp _ _ _ _ Heq).
    apply N.ltb_lt in Hlt. now rewrite Hlt.
  - intros contents size Hge Hcap. unfold run_helper. rewrite (hc_equiv_cmp _ _ _ _ Heq).
    destruct (N.ltb_spec size (len + N.of_nat extra)) as [Hc|Hc]; [lia|].
    exists (overwrite payload contents). repeat split.
    + apply overwrite_firstn.
    + apply overwrite_skipn.
    + apply overwrite_length. lia.
Qed.

Lemma run_helper_is_spec {A} hc extra (payload : list A) len buf size :
  hc_equiv hc extra = true ->
  N.of_nat (List.length payload) = (len + N.of_nat extra)%N ->
  run_helper hc payload len buf size = spec_helper (hc_msg hc) payload buf size.
Proof.
  intros Heq Hlen. unfold run_helper, spec_helper. rewrite Hlen. destruct buf as [c|].
  - now rewrite (hc_equiv_cmp _ _ _ _ Heq).
  - now rewrite (hc_equiv_query _ _ Heq).
Qed.

(* obligations over the regenerated helper table *)
Lemma helper_table_ok :
  hc_equiv (hcode HCopyVector) 0 = true /\ hc_equiv (hcode HMoveVector) 0 = true /\
  hc_equiv (hcode HCopyString) 1 = true.
Proof. vm_compute. repeat split; reflexivity. Qed.

Theorem size_query_protocol :
  (forall A (src : list A), size_query_spec (copy_vector_to_array (hcode HCopyVector) src) src (hc_msg (hcode HCopyVector))) /\
  (forall A (src : list A), size_query_spec (move_vector_to_array_of_c_ptrs (hcode HMoveVector) src) src (hc_msg (hcode HMoveVector))) /\
  (forall str, size_query_spec (copy_string_to_array (hcode HCopyString) str) (str ++ [NUL]) (hc_msg (hcode HCopyString))).
Proof.
  destruct helper_table_ok as (Hv & Hm & Hs). split; [|split].
  - intros A src. apply (run_helper_spec _ 0); [exact Hv|]. lia.
  - intros A src. apply (run_helper_spec _ 0); [exact Hm|]. lia.
  - intros str. apply (run_helper_spec _ 1); [exact Hs|]. rewrite app_length. cbn. lia.
Qed.

(* the three helpers as read from internal.h ARE the executable specification *)
Theorem helpers_meet_spec :
  (forall A (src : list A) buf size,
      copy_vector_to_array (hcode HCopyVector) src buf size = spec_helper (hc_msg (hcode HCopyVector)) src buf size) /\
  (forall A (src : list A) buf size,
      move_vector_to_array_of_c_ptrs (hcode HMoveVector) src buf size = spec_helper (hc_msg (hcode HMoveVector)) src buf size) /\
  (forall str buf size,
      copy_string_to_array (hcode HCopyString) str buf size = spec_helper (hc_msg (hcode HCopyString)) (str ++ [NUL]) buf size).
Proof.
  destruct helper_table_ok as (Hv & Hm & Hs). split; [|split].
  - intros A src buf size. apply (run_helper_is_spec _ 0); [exact Hv|]. lia.
  - intros A src buf size. apply (run_helper_is_spec _ 0); [exact Hm|]. lia.
  - intros str buf size. apply (run_helper_is_spec _ 1); [exact Hs|]. rewrite app_length. cbn. lia.
Qed.

(* ================================================================== 2. one call, any row *)

Section Exec.
  Variable hc : helper -> helper_code.
  Variable w : wrapper.
  Variable e : env.
  Variable o : oracle.

  Definition size_ok (h : helper) (size : N) : bool :=
    negb (cmp_holds (hc_cmp (hc h)) size (result_len e + N.of_nat (hc_cmp_plus (hc h)))).

  Definition passes (ev : event) : bool :=
    let p := ev_param ev in
    match ev_use ev with
    | UCheck => negb (is_zero w e p)
    | UDeref _ | UStore => negb (nulls e p)
    | UPass => true
    | UElemCheckAll => negb (nulls e p) && negb (elem_null e p)
    | UElemUse => negb (nulls e p) &&
                  (negb (elem_null e p) || match ptype_of w p with PDataPtr _ => true | _ => false end)
    | UBuf h (SizeParam q) => negb (nulls e q) && (nulls e p || size_ok h (size_in e q))
    | UBuf h (SizeLocal q) => negb (nulls e p) && size_ok h (scalar e q)
    | _ => false
    end.

  Lemma pending_split k :
    pending o k = None <-> fires o k = None /\ pending o (S k) = None.
  Proof.
    unfold pending, fires. destruct o as [[j m]|]; [|tauto].
    destruct (Nat.eqb_spec j k); destruct (Nat.leb_spec k j); destruct (Nat.leb_spec (S k) j);
      try lia; split; try tauto; intros; try discriminate; tauto.
  Qed.

  Lemma exec_done_iff evs : forall k ws,
    (exists ws', exec hc w e o evs k ws = Done ws') <->
    (pending o k = None /\ forallb passes evs = true).
  Proof.
    induction evs as [|[p u] rest IH]; intros k ws; cbn [exec forallb].
    - destruct (pending o k); split.
      + intros [? H]; discriminate.
      + intros [H _]; discriminate.
      + intros _. split; reflexivity.
      + intros _. eexists; reflexivity.
    - rewrite pending_split. unfold passes at 1. cbn [ev_param ev_use].
      destruct (fires o k) eqn:Hf.
      { split; [intros [? H]; discriminate | intros [[H _] _]; discriminate]. }
      destruct u as [| | d | | | h src | | | |]; cbn [negb andb orb].
      + (* UCheck *) destruct (is_zero w e p); cbn [negb andb].
        * split; [intros [? H]; discriminate | intros [_ H]; discriminate].
        * rewrite IH. tauto.
      + split; [intros [? H]; discriminate | intros [_ H]; discriminate].
      + destruct (nulls e p); cbn [negb andb].
        * split; [intros [? H]; discriminate | intros [_ H]; discriminate].
        * rewrite IH. tauto.
      + destruct (nulls e p); cbn [negb andb].
        * split; [intros [? H]; discriminate | intros [_ H]; discriminate].
        * rewrite IH. tauto.
      + rewrite IH. tauto.
      + (* UBuf *) destruct src as [q|q|].
        * destruct (nulls e q); cbn [negb andb].
          { split; [intros [? H]; discriminate | intros [_ H]; discriminate]. }
          destruct (nulls e p); cbn [orb].
          { rewrite IH. tauto. }
          unfold size_ok. destruct (cmp_holds _ _ _); cbn [negb andb].
          { split; [intros [? H]; discriminate | intros [_ H]; discriminate]. }
          rewrite IH. tauto.
        * destruct (nulls e p); cbn [negb andb].
          { split; [intros [? H]; discriminate | intros [_ H]; discriminate]. }
          unfold size_ok. destruct (cmp_holds _ _ _); cbn [negb andb].
          { split; [intros [? H]; discriminate | intros [_ H]; discriminate]. }
          rewrite IH. tauto.
        * split; [intros [? H]; discriminate | intros [_ H]; discriminate].
      + (* UElemCheckAll *) destruct (nulls e p); cbn [negb andb].
        * split; [intros [? H]; discriminate | intros [_ H]; discriminate].
        * destruct (elem_null e p); cbn [negb andb].
          { split; [intros [? H]; discriminate | intros [_ H]; discriminate]. }
          rewrite IH. tauto.
      + split; [intros [? H]; discriminate | intros [_ H]; discriminate].
      + (* UElemUse *) destruct (nulls e p); cbn [negb andb].
        * split; [intros [? H]; discriminate | intros [_ H]; discriminate].
        * destruct (elem_null e p); cbn [negb andb orb].
          { destruct (ptype_of w p); cbn [andb];
              try (split; [intros [? H]; discriminate | intros [_ H]; discriminate]).
            rewrite IH. tauto. }
          rewrite IH. tauto.
      + split; [intros [? H]; discriminate | intros [_ H]; discriminate].
  Qed.

  (* -- no undefined behaviour when dereferences and element uses are preceded by their checks *)
  Lemma exec_defined evs : forall k ws checked echecked,
    derefs_checked_from w evs checked = true ->
    elems_checked_from w evs echecked = true ->
    (forall p, mem p checked = true -> is_zero w e p = false) ->
    (forall p, mem p echecked = true -> elem_null e p = false) ->
    forall p u, exec hc w e o evs k ws <> Undefined p u.
  Proof.
    induction evs as [|[p u] rest IH]; intros k ws checked echecked Hd He I1 I2 p' u'; cbn [exec].
    - destruct (pending o k); discriminate.
    - destruct (fires o k); [discriminate|].
      assert (Hnull : forall q, mem q checked = true -> is_pointer (ptype_of w q) = true -> nulls e q = false).
      { intros q Hq Hp. specialize (I1 q Hq). unfold is_zero in I1. now rewrite Hp in I1. }
      cbn [derefs_checked_from elems_checked_from] in Hd, He.
      destruct u as [| | d | | | h src | | | |].
      + (* UCheck *) destruct (is_zero w e p) eqn:Hz; [discriminate|].
        apply (IH _ _ (p :: checked) echecked); auto.
        intros q Hq. cbn [mem existsb] in Hq. apply orb_true_iff in Hq. destruct Hq as [Hq|Hq]; [|now apply I1].
        apply Nat.eqb_eq in Hq. now subst q.
      + discriminate.
      + apply andb_true_iff in Hd. destruct Hd as [Hd Hr]. apply andb_true_iff in Hd. destruct Hd as [Hm Hp].
        rewrite (Hnull p Hm Hp). eapply IH; eauto.
      + apply andb_true_iff in Hd. destruct Hd as [Hd Hr]. apply andb_true_iff in Hd. destruct Hd as [Hm Hp].
        rewrite (Hnull p Hm Hp). eapply IH; eauto.
      + eapply IH; eauto.
      + (* UBuf *) destruct src as [q|q|]; [| |discriminate].
        * apply andb_true_iff in Hd. destruct Hd as [Hd Hr]. apply andb_true_iff in Hd. destruct Hd as [Hm Hp].
          rewrite (Hnull q Hm Hp).
          destruct (nulls e p); [eapply IH; eauto|].
          destruct (cmp_holds _ _ _); [discriminate|]. eapply IH; eauto.
        * apply andb_true_iff in Hd. destruct Hd as [Hd Hr]. apply andb_true_iff in Hd. destruct Hd as [Hm Hp].
          rewrite (Hnull p Hm Hp).
          destruct (cmp_holds _ _ _); [discriminate|]. eapply IH; eauto.
      + (* UElemCheckAll *)
        apply andb_true_iff in Hd. destruct Hd as [Hd Hr]. apply andb_true_iff in Hd. destruct Hd as [Hm Hp].
        rewrite (Hnull p Hm Hp).
        destruct (elem_null e p) eqn:Hen; [discriminate|].
        apply (IH _ _ checked (p :: echecked)); auto.
        intros q Hq. cbn [mem existsb] in Hq. apply orb_true_iff in Hq. destruct Hq as [Hq|Hq]; [|now apply I2].
        apply Nat.eqb_eq in Hq. now subst q.
      + discriminate.
      + (* UElemUse *)
        apply andb_true_iff in Hd. destruct Hd as [Hd Hr]. apply andb_true_iff in Hd. destruct Hd as [Hm Hp].
        rewrite (Hnull p Hm Hp).
        apply andb_true_iff in He. destruct He as [Ht He].
        destruct (elem_null e p) eqn:Hen; [|eapply IH; eauto].
        destruct (ptype_of w p) eqn:Hty; try discriminate; try (eapply IH; eauto).
        rewrite (I2 p Ht) in Hen. discriminate.
      + discriminate.
  Qed.

  (* -- why an exception was thrown *)
  Inductive reason (evs : list event) (m : string) : Prop :=
  | RCpp j : o = Some (j, m) -> reason evs m
  | RNull p : In (Ev p UCheck) evs -> is_zero w e p = true -> m = null_msg (pname_of w p) -> reason evs m
  | RElem p : In (Ev p UElemCheckAll) evs -> elem_null e p = true ->
              m = elem_null_msg (pname_of w p) -> reason evs m
  | RStr p : In (Ev p UElemUse) evs -> ptype_of w p = PCStrPtr -> elem_null e p = true ->
             m = string_from_null_msg -> reason evs m
  | RSize p h s : In (Ev p (UBuf h s)) evs -> nulls e p = false -> m = hc_msg (hc h) -> reason evs m.

  Lemma reason_cons ev evs m : reason evs m -> reason (ev :: evs) m.
  Proof.
    intros [j H|p H1 H2 H3|p H1 H2 H3|p H1 H2 H3 H4|p h s H1 H2 H3].
    - apply (RCpp _ _ j); assumption.
    - apply (RNull _ _ p); [now right|assumption|assumption].
    - apply (RElem _ _ p); [now right|assumption|assumption].
    - apply (RStr _ _ p); [now right|assumption|assumption|assumption].
    - apply (RSize _ _ p h s); [now right|assumption|assumption].
  Qed.

  Lemma fires_some k m : fires o k = Some m -> exists j, o = Some (j, m).
  Proof.
    unfold fires. destruct o as [[j m0]|] eqn:Ho; [|discriminate].
    destruct (Nat.eqb j k); [|discriminate]. intros H; inversion H; subst. eauto.
  Qed.
  Lemma pending_some k m : pending o k = Some m -> exists j, o = Some (j, m).
  Proof.
    unfold pending. destruct o as [[j m0]|] eqn:Ho; [|discriminate].
    destruct (Nat.leb k j); [|discriminate]. intros H; inversion H; subst. eauto.
  Qed.

  Lemma exec_thrown_reason evs : forall k ws m ws',
    exec hc w e o evs k ws = Thrown m ws' -> reason evs m.
  Proof.
    induction evs as [|[p u] rest IH]; intros k ws m ws'; cbn [exec].
    - destruct (pending o k) eqn:Hp; [|discriminate]. intros H; inversion H; subst.
      destruct (pending_some _ _ Hp) as [j Hj]. now apply (RCpp _ _ j).
    - destruct (fires o k) eqn:Hf.
      { intros H; inversion H; subst. destruct (fires_some _ _ Hf) as [j Hj]. now apply (RCpp _ _ j). }
      destruct u as [| | d | | | h src | | | |]; try discriminate.
      + destruct (is_zero w e p) eqn:Hz.
        { intros H; inversion H; subst. apply (RNull _ _ p); [now left|assumption|reflexivity]. }
        intros H; apply reason_cons; eapply IH; exact H.
      + destruct (nulls e p); [discriminate|]. intros H; apply reason_cons; eapply IH; exact H.
      + destruct (nulls e p); [discriminate|]. intros H; apply reason_cons; eapply IH; exact H.
      + intros H; apply reason_cons; eapply IH; exact H.
      + destruct src as [q|q|]; try discriminate.
        * destruct (nulls e q); [discriminate|].
          destruct (nulls e p) eqn:Hn; [intros H; apply reason_cons; eapply IH; exact H|].
          destruct (cmp_holds _ _ _).
          { intros H; inversion H; subst. apply (RSize _ _ p h (SizeParam q)); [now left|assumption|reflexivity]. }
          intros H; apply reason_cons; eapply IH; exact H.
        * destruct (nulls e p) eqn:Hn; [discriminate|].
          destruct (cmp_holds _ _ _).
          { intros H; inversion H; subst. apply (RSize _ _ p h (SizeLocal q)); [now left|assumption|reflexivity]. }
          intros H; apply reason_cons; eapply IH; exact H.
      + destruct (nulls e p); [discriminate|].
        destruct (elem_null e p) eqn:Hen.
        { intros H; inversion H; subst. apply (RElem _ _ p); [now left|assumption|reflexivity]. }
        intros H; apply reason_cons; eapply IH; exact H.
      + destruct (nulls e p); [discriminate|].
        destruct (elem_null e p) eqn:Hen; [|intros H; apply reason_cons; eapply IH; exact H].
        destruct (ptype_of w p) eqn:Hty; try discriminate.
        * intros H; apply reason_cons; eapply IH; exact H.
        * intros H; inversion H; subst. apply (RStr _ _ p); [now left|assumption|assumption|reflexivity].
  Qed.

  (* -- a failing call has written nothing: the output is produced by the last event, and C++
        code only runs while an event of the body is executed *)
  Definition oracle_within (n : nat) : Prop :=
    match o with Some (j, _) => j < n | None => True end.

  Lemma exec_thrown_writes evs : forall k ws m ws',
    store_last evs = true -> oracle_within (k + List.length evs) ->
    exec hc w e o evs k ws = Thrown m ws' -> ws' = ws.
  Proof.
    assert (Hend : forall k ws m ws', oracle_within k ->
              exec hc w e o [] k ws = Thrown m ws' -> ws' = ws).
    { intros k ws m ws' Ho. cbn [exec]. unfold pending. unfold oracle_within in Ho.
      destruct o as [[j m0]|]; [|discriminate].
      destruct (Nat.leb_spec k j); [lia|discriminate]. }
    induction evs as [|[p u] rest IH]; intros k ws m ws' Hs Ho.
    - apply Hend. now rewrite Nat.add_0_r in Ho.
    - cbn [List.length] in Ho. rewrite Nat.add_succ_r in Ho.
      cbn [exec]. destruct (fires o k); [intros H; now inversion H|].
      destruct u as [| | d | | | h src | | | |]; try discriminate; cbn [store_last] in Hs.
      + destruct (is_zero w e p); [intros H; now inversion H|]. now apply IH.
      + destruct (nulls e p); [discriminate|]. now apply IH.
      + destruct rest; [|discriminate].
        destruct (nulls e p); [discriminate|]. intros H.
        cbn [exec] in H. unfold pending, oracle_within in *. cbn [List.length] in Ho.
        destruct o as [[j m0]|]; [|discriminate].
        destruct (Nat.leb_spec (S k) j); [lia|discriminate].
      + now apply IH.
      + destruct rest; [|discriminate].
        assert (Hnone : forall ws1, exec hc w e o [] (S k) ws1 <> Thrown m ws').
        { intros ws1 H. cbn [exec] in H. unfold pending, oracle_within in *. cbn [List.length] in Ho.
          destruct o as [[j m0]|]; [|discriminate].
          destruct (Nat.leb_spec (S k) j); [lia|discriminate]. }
        destruct src as [q|q|]; try discriminate.
        * destruct (nulls e q); [discriminate|].
          destruct (nulls e p); [intros H; now apply Hnone in H|].
          destruct (cmp_holds _ _ _); [intros H; now inversion H|intros H; now apply Hnone in H].
        * destruct (nulls e p); [discriminate|].
          destruct (cmp_holds _ _ _); [intros H; now inversion H|intros H; now apply Hnone in H].
      + destruct (nulls e p); [discriminate|].
        destruct (elem_null e p); [intros H; now inversion H|]. now apply IH.
      + destruct (nulls e p); [discriminate|].
        destruct (elem_null e p); [|now apply IH].
        destruct (ptype_of w p); try discriminate; [now apply IH|intros H; now inversion H].
  Qed.
End Exec.

(* ------------------------------------------------------------------ static facts of a wf row *)

Lemma derefs_checked_pointers w evs : forall checked,
  derefs_checked_from w evs checked = true ->
  forall ev, In ev evs ->
    (is_deref_use (ev_use ev) = true -> is_pointer (ptype_of w (ev_param ev)) = true) /\
    (forall h q, ev_use ev = UBuf h (SizeParam q) -> is_pointer (ptype_of w q) = true) /\
    (match ev_use ev with UCheckNested | UElemCheckNested | UUnknown | UBuf _ SizeUnknown => False | _ => True end).
Proof.
  induction evs as [|[p u] rest IH]; intros checked Hd ev Hin; [destruct Hin|].
  cbn [derefs_checked_from] in Hd.
  destruct Hin as [<-|Hin].
  - cbn [ev_use ev_param].
    destruct u as [| | d | | | h src | | | |]; try discriminate; cbn [is_deref_use];
      repeat split; try discriminate; try tauto;
      try (intros _; apply andb_true_iff in Hd; destruct Hd as [Hd _];
           apply andb_true_iff in Hd; now destruct Hd as [_ Hd]).
    + destruct src as [q|q|]; try discriminate.
      intros _. apply andb_true_iff in Hd. destruct Hd as [Hd _].
      apply andb_true_iff in Hd. now destruct Hd as [_ Hd].
    + intros h0 q0 H. inversion H; subst. apply andb_true_iff in Hd. destruct Hd as [Hd _].
      apply andb_true_iff in Hd. now destruct Hd as [_ Hd].
    + destruct src as [q|q|]; try discriminate; exact I.
  - destruct u as [| | d | | | h src | | | |]; try discriminate;
      try (eapply IH; eauto; fail);
      try (apply andb_true_iff in Hd; destruct Hd as [_ Hd]; eapply IH; eauto; fail).
    destruct src as [q|q|]; try discriminate;
      apply andb_true_iff in Hd; destruct Hd as [_ Hd]; eapply IH; eauto.
Qed.

Definition has_elems (w : wrapper) (i : nat) : bool :=
  existsb (fun ev => Nat.eqb (ev_param ev) i &&
                     match ev_use ev with UElemCheckAll | UElemUse => true | _ => false end) (w_events w) &&
  match ptype_of w i with PDataPtr _ => false | _ => true end.

(* what the caller has to provide for the call to succeed *)
Record args_ok (w : wrapper) (e : env) : Prop := {
  ok_required : forall i, required_all w i = true -> nulls e i = false;
  ok_elems : forall i, has_elems w i = true -> elem_null e i = false;
  ok_sizes : forall p h src, In (Ev p (UBuf h src)) (w_events w) -> nulls e p = false ->
               size_ok hcode e h (match src with SizeParam q => size_in e q | SizeLocal q => scalar e q
                                                | SizeUnknown => 0%N end) = true
}.

Lemma in_size_params w p h q : In (Ev p (UBuf h (SizeParam q))) (w_events w) -> mem q (size_params w) = true.
Proof.
  intros H. unfold mem. apply existsb_exists. exists q. split; [|apply Nat.eqb_refl].
  unfold size_params. apply in_flat_map. eexists; split; [exact H|]. cbn. now left.
Qed.

Lemma size_params_in w q : mem q (size_params w) = true ->
  exists p h, In (Ev p (UBuf h (SizeParam q))) (w_events w).
Proof.
  unfold mem. intros H. apply existsb_exists in H. destruct H as [x [Hin Hx]].
  apply Nat.eqb_eq in Hx. subst x. unfold size_params in Hin. apply in_flat_map in Hin.
  destruct Hin as [[p u] [Hin Hq]]. cbn [ev_use] in Hq.
  destruct u as [| | d | | | h src | | | |]; try contradiction.
  destruct src as [q0|q0|]; try contradiction. destruct Hq as [<-|[]]. eauto.
Qed.

Lemma wf_parts w : wf w = true ->
  all_try_block w = true /\ derefs_checked w = true /\ checks_pointers_only w = true /\
  checks_required_only w = true /\ elems_checked w = true /\ pass_through_ok w = true /\ buffers_ok w = true.
Proof. unfold wf. rewrite !andb_true_iff. tauto. Qed.

Lemma try_parts w : all_try_block w = true ->
  w_try w = true /\ w_catch_std w = true /\ w_handler w = true /\ w_rets w = [PRIMITIV_C_OK].
Proof.
  unfold all_try_block. rewrite !andb_true_iff. intros [[[H1 H2] H3] H4]. repeat split; auto.
  destruct (w_rets w) as [|r [|]]; try discriminate. apply Z.eqb_eq in H4. now subst r.
Qed.

Lemma passes_iff_args_ok w e : wf w = true ->
  (forallb (passes hcode w e) (w_events w) = true <-> args_ok w e).
Proof.
  intros Hwf. destruct (wf_parts w Hwf) as (Htry & Hder & Hptr & Hreq & Helem & Hpass & Hbuf).
  pose proof (derefs_checked_pointers w _ _ Hder) as Hfacts.
  rewrite forallb_forall. split.
  - intros Hp. constructor.
    + intros i Hi. unfold required_all in Hi. apply orb_true_iff in Hi. destruct Hi as [Hi|Hi].
      * unfold required in Hi. apply andb_true_iff in Hi. destruct Hi as [_ Hi].
        apply existsb_exists in Hi. destruct Hi as [[p u] [Hin Hx]]. cbn [ev_param ev_use] in Hx.
        apply andb_true_iff in Hx. destruct Hx as [Hpi Hu]. apply Nat.eqb_eq in Hpi. subst p.
        specialize (Hp _ Hin). unfold passes in Hp. cbn [ev_param ev_use] in Hp.
        destruct u as [| | d | | | h src | | | |]; try discriminate;
          try (destruct (nulls e i); [discriminate|reflexivity]).
        destruct src as [q|q|]; try discriminate.
        destruct (nulls e i); [discriminate|reflexivity].
      * apply size_params_in in Hi. destruct Hi as [p [h Hin]].
        specialize (Hp _ Hin). unfold passes in Hp. cbn [ev_param ev_use] in Hp.
        destruct (nulls e i); [discriminate|reflexivity].
    + intros i Hi. unfold has_elems in Hi. apply andb_true_iff in Hi. destruct Hi as [Hi Hty].
      apply existsb_exists in Hi. destruct Hi as [[p u] [Hin Hx]]. cbn [ev_param ev_use] in Hx.
      apply andb_true_iff in Hx. destruct Hx as [Hpi Hu]. apply Nat.eqb_eq in Hpi. subst p.
      specialize (Hp _ Hin). unfold passes in Hp. cbn [ev_param ev_use] in Hp.
      destruct u as [| | d | | | h src | | | |]; try discriminate.
      * destruct (nulls e i); [discriminate|]. destruct (elem_null e i); [discriminate|reflexivity].
      * destruct (nulls e i); [discriminate|]. destruct (elem_null e i); [|reflexivity].
        destruct (ptype_of w i); discriminate.
    + intros p h src Hin Hn. specialize (Hp _ Hin). unfold passes in Hp. cbn [ev_param ev_use] in Hp.
      destruct src as [q|q|]; try discriminate.
      * apply andb_true_iff in Hp. destruct Hp as [_ Hp]. rewrite Hn in Hp. exact Hp.
      * apply andb_true_iff in Hp. now destruct Hp as [_ Hp].
  - intros [Hr He Hs] [p u] Hin.
    destruct (Hfacts _ Hin) as (Hptr1 & Hptr2 & Hno). cbn [ev_param ev_use] in *.
    assert (Hreqd : is_deref_use u = true -> nulls e p = false).
    { intros Hu. apply Hr. unfold required_all. apply orb_true_iff. left. unfold required.
      rewrite (Hptr1 Hu). cbn [andb]. apply existsb_exists. exists (Ev p u). split; [exact Hin|].
      cbn [ev_param ev_use]. now rewrite Nat.eqb_refl, Hu. }
    unfold passes. cbn [ev_param ev_use].
    destruct u as [| | d | | | h src | | | |]; try (destruct Hno; fail); cbn [is_deref_use] in *.
    + (* UCheck *)
      unfold checks_pointers_only in Hptr. rewrite forallb_forall in Hptr. specialize (Hptr _ Hin).
      unfold checks_required_only in Hreq. rewrite forallb_forall in Hreq. specialize (Hreq _ Hin).
      cbn [ev_param ev_use] in Hptr, Hreq. unfold is_zero. rewrite Hptr. now rewrite (Hr _ Hreq).
    + now rewrite Hreqd.
    + now rewrite Hreqd.
    + reflexivity.
    + destruct src as [q|q|]; try (destruct Hno; fail).
      * assert (Hq : nulls e q = false).
        { apply Hr. unfold required_all. apply orb_true_iff. right. eapply in_size_params; eauto. }
        rewrite Hq. cbn [negb andb]. destruct (nulls e p) eqn:Hn; [reflexivity|].
        cbn [orb]. exact (Hs _ _ _ Hin Hn).
      * rewrite (Hreqd eq_refl). cbn [negb andb]. exact (Hs _ _ _ Hin (Hreqd eq_refl)).
    + rewrite (Hreqd eq_refl). cbn [negb andb].
      destruct (ptype_of w p) eqn:Hty.
      all: try (rewrite He; [reflexivity|]; unfold has_elems; rewrite Hty; rewrite andb_true_r;
                apply existsb_exists; exists (Ev p UElemCheckAll); split; [exact Hin|];
                cbn [ev_param ev_use]; now rewrite Nat.eqb_refl).
      (* a check loop over a data array would be rejected by checks_pointers_only *)
      unfold checks_pointers_only in Hptr. rewrite forallb_forall in Hptr. specialize (Hptr _ Hin).
      cbn [ev_param ev_use] in Hptr. rewrite Hty in Hptr. discriminate.
    + rewrite (Hreqd eq_refl). cbn [negb andb].
      destruct (ptype_of w p) eqn:Hty; try (now rewrite orb_true_r).
      all: rewrite He; [reflexivity|]; unfold has_elems; rewrite Hty; rewrite andb_true_r;
           apply existsb_exists; exists (Ev p UElemUse); split; [exact Hin|];
           cbn [ev_param ev_use]; now rewrite Nat.eqb_refl.
Qed.

(* ------------------------------------------------------------------ the status protocol of a row *)

Definition handler_ok : Prop :=
  hf_handle_returns hf = PRIMITIV_C_ERROR /\ hf_stores_what hf = true /\
  hf_reset_msg hf = "OK"%string /\ hf_init_msg hf = "OK"%string /\ hf_thread_local hf = true.

Lemma handler_matches : handler_ok.
Proof. vm_compute. repeat split; reflexivity. Qed.

(* every message a failing call can leave in the handler *)
Definition error_message (w : wrapper) (e : env) (o : oracle) (m : string) : Prop :=
  (exists j, o = Some (j, m)) \/
  (exists p, In (Ev p UCheck) (w_events w) /\ nulls e p = true /\ m = null_msg (pname_of w p)) \/
  (exists p, In (Ev p UElemCheckAll) (w_events w) /\ elem_null e p = true /\ m = elem_null_msg (pname_of w p)) \/
  (exists p, In (Ev p UElemUse) (w_events w) /\ ptype_of w p = PCStrPtr /\ elem_null e p = true /\
             m = string_from_null_msg) \/
  (exists p h s, In (Ev p (UBuf h s)) (w_events w) /\ nulls e p = false /\ m = hc_msg (hcode h)).

Theorem row_status_protocol w : wf w = true -> store_last (w_events w) = true ->
  forall e o,
    (* the call returns to its caller: no undefined behaviour, no escaping exception *)
    (exists st msg ws, call hcode hf w e o = CReturn st msg ws) /\
    (* PRIMITIV_C_OK, handler untouched, exactly when the arguments are acceptable and C++ returns *)
    ((exists ws, call hcode hf w e o = CReturn PRIMITIV_C_OK None ws) <-> (o = None /\ args_ok w e)) /\
    (* otherwise PRIMITIV_C_ERROR with the message stored in the handler; nothing was written
       through the output pointers *)
    (~ (o = None /\ args_ok w e) ->
       exists m ws, call hcode hf w e o = CReturn PRIMITIV_C_ERROR (Some m) ws /\ error_message w e o m /\
                    (oracle_within o (List.length (w_events w)) -> ws = [])).
Proof.
  intros Hwf Hsl e o.
  pose proof handler_matches as (Hret & Hwhat & _).
  pose proof (passes_iff_args_ok w e Hwf) as Hpa.
  pose proof (exec_done_iff hcode w e o (w_events w) 0 []) as Hdone.
  destruct (wf_parts w Hwf) as (Htry0 & Hder & Hptr & Hreq & Helem & Hpass & Hbuf).
  assert (Hdef : forall p u, body hcode w e o <> Undefined p u).
  { intros p u. unfold body. eapply exec_defined; eauto; intros q Hq; discriminate. }
  destruct (try_parts w Htry0) as (Htry & Hc & Hh & Hrets).
  assert (Hok : ok_status w = PRIMITIV_C_OK).
  { unfold ok_status. now rewrite Hrets. }
  assert (Hpend : pending o 0 = None <-> o = None).
  { unfold pending. destruct o as [[j m]|]; cbn; split; intros; try discriminate; reflexivity. }
  unfold call, body in *. rewrite Htry, Hc, Hh, Hret, Hwhat, Hok. cbn [andb].
  destruct (exec hcode w e o (w_events w) 0 []) as [ws|m ws|p u] eqn:Hex.
  - assert (Hgood : o = None /\ args_ok w e).
    { destruct Hdone as [Hd _]. destruct (Hd (ex_intro _ ws eq_refl)) as [H1 H2].
      split; [now apply Hpend|now apply Hpa]. }
    split; [eauto|]. split; [split; [intros _; exact Hgood|eauto]|]. intros Hn. contradiction.
  - split; [eauto|]. split.
    + split; [intros [ws' H]; discriminate|].
      intros [Ho Ha]. destruct Hdone as [_ Hd].
      destruct Hd as [ws' H]; [split; [now apply Hpend|now apply Hpa]|]. discriminate.
    + intros _. exists m, ws. split; [reflexivity|]. split.
      * pose proof (exec_thrown_reason hcode w e o _ _ _ _ _ Hex) as R.
        unfold error_message.
        destruct R as [j H|p H1 H2 H3|p H1 H2 H3|p H1 H2 H3 H4|p h s H1 H2 H3].
        -- left. eauto.
        -- right. left. exists p. repeat split; auto.
           unfold checks_pointers_only in Hptr. rewrite forallb_forall in Hptr. specialize (Hptr _ H1).
           cbn [ev_use ev_param] in Hptr. unfold is_zero in H2. now rewrite Hptr in H2.
        -- right. right. left. exists p. auto.
        -- right. right. right. left. exists p. auto.
        -- right. right. right. right. exists p, h, s. auto.
      * intros Hw. eapply (exec_thrown_writes hcode w e o _ 0); [exact Hsl|exact Hw|exact Hex].
  - exfalso. eapply Hdef; eauto.
Qed.

(* ================================================================== 3. the regenerated table *)

Lemma table_all_try_blocks : forallb all_try_block table = true.
Proof. vm_compute. reflexivity. Qed.
Lemma table_derefs_checked : forallb derefs_checked table = true.
Proof. vm_compute. reflexivity. Qed.
Lemma table_checks_only_pointers :
  forallb (fun w => checks_pointers_only w && checks_required_only w) table = true.
Proof. vm_compute. reflexivity. Qed.
Lemma table_elems_checked : forallb elems_checked table = true.
Proof. vm_compute. reflexivity. Qed.
Lemma table_pass_through : forallb pass_through_ok table = true.
Proof. vm_compute. reflexivity. Qed.
Lemma table_buffers : forallb buffers_ok table = true.
Proof. vm_compute. reflexivity. Qed.
Lemma table_store_last : forallb (fun w => store_last (w_events w)) table = true.
Proof. vm_compute. reflexivity. Qed.
Lemma table_names_distinct : NoDup (map w_name table).
Proof.
  assert (H : forall l : list string, (fix nd (l : list string) : bool :=
              match l with [] => true | x :: r => negb (existsb (String.eqb x) r) && nd r end) l = true -> NoDup l).
  { induction l as [|x r IH]; intros H; constructor.
    - apply andb_true_iff in H. destruct H as [H _]. intros Hin.
      apply negb_true_iff in H. assert (existsb (String.eqb x) r = true); [|congruence].
      apply existsb_exists. exists x. split; [exact Hin|apply String.eqb_refl].
    - apply IH. apply andb_true_iff in H. tauto. }
  apply H. vm_compute. reflexivity.
Qed.

Lemma table_wf w : In w table -> wf w = true /\ store_last (w_events w) = true.
Proof.
  intros Hin. unfold wf.
  pose proof (proj1 (forallb_forall _ _) table_all_try_blocks _ Hin) as H1.
  pose proof (proj1 (forallb_forall _ _) table_derefs_checked _ Hin) as H2.
  pose proof (proj1 (forallb_forall _ _) table_checks_only_pointers _ Hin) as H3.
  pose proof (proj1 (forallb_forall _ _) table_elems_checked _ Hin) as H4.
  pose proof (proj1 (forallb_forall _ _) table_pass_through _ Hin) as H5.
  pose proof (proj1 (forallb_forall _ _) table_buffers _ Hin) as H6.
  pose proof (proj1 (forallb_forall _ _) table_store_last _ Hin) as H7.
  cbn beta in H3, H7. apply andb_true_iff in H3. destruct H3 as [H3 H3'].
  rewrite H1, H2, H3, H3', H4, H5, H6. split; [reflexivity|exact H7].
Qed.

(* -- the named table theorems, in the form stated in Properties_C20.v *)

Theorem all_try_blocks w : In w table ->
  w_try w = true /\ w_catch_std w = true /\ w_handler w = true /\ w_rets w = [PRIMITIV_C_OK].
Proof.
  intros Hin. pose proof (proj1 (forallb_forall _ _) table_all_try_blocks _ Hin) as H.
  now apply try_parts.
Qed.

(* position-wise: an event that reads through parameter p at position j is preceded by the
   top-level null check of p *)
Definition checked_before (w : wrapper) (j p : nat) : Prop :=
  exists i, i < j /\ nth_error (w_events w) i = Some (Ev p UCheck).

Lemma derefs_checked_from_sound w evs : forall checked,
  derefs_checked_from w evs checked = true ->
  forall j p u, nth_error evs j = Some (Ev p u) ->
    (is_deref_use u = true -> mem p checked = true \/ exists i, i < j /\ nth_error evs i = Some (Ev p UCheck)) /\
    (forall h q, u = UBuf h (SizeParam q) ->
        mem q checked = true \/ exists i, i < j /\ nth_error evs i = Some (Ev q UCheck)).
Proof.
  induction evs as [|[p0 u0] rest IH]; intros checked Hd j p u Hn; [destruct j; discriminate|].
  cbn [derefs_checked_from] in Hd.
  destruct j as [|j].
  - cbn in Hn. inversion Hn; subst p0 u0. clear Hn. split.
    + intros Hu. left.
      destruct u as [| | d | | | h src | | | |]; try discriminate;
        try (apply andb_true_iff in Hd; destruct Hd as [Hd _]; apply andb_true_iff in Hd; tauto).
      destruct src as [q|q|]; try discriminate.
      apply andb_true_iff in Hd; destruct Hd as [Hd _]; apply andb_true_iff in Hd; tauto.
    + intros h q ->. left.
      apply andb_true_iff in Hd; destruct Hd as [Hd _]; apply andb_true_iff in Hd; tauto.
  - cbn [nth_error] in Hn.
    assert (Hstep : forall checked', derefs_checked_from w rest checked' = true ->
              (forall x, mem x checked' = true -> mem x checked = true \/ (x = p0 /\ u0 = UCheck)) ->
              (is_deref_use u = true -> mem p checked = true \/
                  exists i, i < S j /\ nth_error (Ev p0 u0 :: rest) i = Some (Ev p UCheck)) /\
              (forall h q, u = UBuf h (SizeParam q) -> mem q checked = true \/
                  exists i, i < S j /\ nth_error (Ev p0 u0 :: rest) i = Some (Ev q UCheck))).
    { intros checked' Hd' Hsub. destruct (IH _ Hd' _ _ _ Hn) as [A B]. split.
      - intros Hu. destruct (A Hu) as [Hm|[i [Hi Hni]]].
        + destruct (Hsub _ Hm) as [Hm'|[-> ->]]; [now left|]. right. exists 0. split; [lia|reflexivity].
        + right. exists (S i). split; [lia|exact Hni].
      - intros h q Hq. destruct (B h q Hq) as [Hm|[i [Hi Hni]]].
        + destruct (Hsub _ Hm) as [Hm'|[-> ->]]; [now left|]. right. exists 0. split; [lia|reflexivity].
        + right. exists (S i). split; [lia|exact Hni]. }
    destruct u0 as [| | d | | | h0 src0 | | | |]; try discriminate.
    + apply (Hstep (p0 :: checked) Hd). intros x Hx. cbn [mem existsb] in Hx.
      apply orb_true_iff in Hx. destruct Hx as [Hx|Hx]; [|now left].
      apply Nat.eqb_eq in Hx. right. split; [now subst|reflexivity].
    + apply andb_true_iff in Hd. destruct Hd as [_ Hd]. apply (Hstep checked Hd). intros x Hx; now left.
    + apply andb_true_iff in Hd. destruct Hd as [_ Hd]. apply (Hstep checked Hd). intros x Hx; now left.
    + apply (Hstep checked Hd). intros x Hx; now left.
    + destruct src0 as [q0|q0|]; try discriminate;
        apply andb_true_iff in Hd; destruct Hd as [_ Hd]; apply (Hstep checked Hd); intros x Hx; now left.
    + apply andb_true_iff in Hd. destruct Hd as [_ Hd]. apply (Hstep checked Hd). intros x Hx; now left.
    + apply andb_true_iff in Hd. destruct Hd as [_ Hd]. apply (Hstep checked Hd). intros x Hx; now left.
Qed.

Theorem derefs_are_checked w : In w table ->
  forall j p u, nth_error (w_events w) j = Some (Ev p u) ->
    (is_deref_use u = true -> checked_before w j p) /\
    (forall h q, u = UBuf h (SizeParam q) -> checked_before w j q) /\
    u <> UUnknown /\ u <> UCheckNested /\ u <> UElemCheckNested.
Proof.
  intros Hin j p u Hn.
  pose proof (proj1 (forallb_forall _ _) table_derefs_checked _ Hin) as H. unfold derefs_checked in H.
  destruct (derefs_checked_from_sound w _ _ H _ _ _ Hn) as [A B].
  pose proof (derefs_checked_pointers w _ _ H _ (nth_error_In _ _ Hn)) as (_ & _ & C).
  cbn [ev_use] in C. split; [|split].
  - intros Hu. destruct (A Hu) as [Hm|Hx]; [discriminate|exact Hx].
  - intros h q Hq. destruct (B h q Hq) as [Hm|Hx]; [discriminate|exact Hx].
  - repeat split; intros ->; exact C.
Qed.

Theorem checks_only_pointers w : In w table ->
  forall p, In (Ev p UCheck) (w_events w) ->
    is_pointer (ptype_of w p) = true /\ required_all w p = true.
Proof.
  intros Hin p Hp.
  pose proof (proj1 (forallb_forall _ _) table_checks_only_pointers _ Hin) as H. cbn beta in H.
  apply andb_true_iff in H. destruct H as [H1 H2].
  unfold checks_pointers_only in H1. unfold checks_required_only in H2.
  rewrite forallb_forall in H1, H2. split; [exact (H1 _ Hp)|exact (H2 _ Hp)].
Qed.

Lemma elems_checked_from_sound w evs : forall echecked,
  elems_checked_from w evs echecked = true ->
  forall j p, nth_error evs j = Some (Ev p UElemUse) ->
    match ptype_of w p with
    | PObjPtrPtr _ => mem p echecked = true \/ exists i, i < j /\ nth_error evs i = Some (Ev p UElemCheckAll)
    | PCStrPtr | PDataPtr _ => True
    | _ => False
    end.
Proof.
  induction evs as [|[p0 u0] rest IH]; intros echecked He j p Hn; [destruct j; discriminate|].
  cbn [elems_checked_from] in He. destruct j as [|j].
  - cbn in Hn. inversion Hn; subst p0 u0. apply andb_true_iff in He. destruct He as [He _].
    destruct (ptype_of w p); try discriminate; auto.
  - cbn [nth_error] in Hn.
    assert (Hstep : forall ec', elems_checked_from w rest ec' = true ->
              (forall x, mem x ec' = true -> mem x echecked = true \/ (x = p0 /\ u0 = UElemCheckAll)) ->
              match ptype_of w p with
              | PObjPtrPtr _ => mem p echecked = true \/
                  exists i, i < S j /\ nth_error (Ev p0 u0 :: rest) i = Some (Ev p UElemCheckAll)
              | PCStrPtr | PDataPtr _ => True
              | _ => False end).
    { intros ec' He' Hsub. specialize (IH _ He' _ _ Hn). destruct (ptype_of w p); auto.
      destruct IH as [Hm|[i [Hi Hni]]].
      - destruct (Hsub _ Hm) as [Hm'|[-> ->]]; [now left|]. right. exists 0. split; [lia|reflexivity].
      - right. exists (S i). split; [lia|exact Hni]. }
    destruct u0 as [| | d | | | h0 src0 | | | |];
      try (apply (Hstep echecked He); intros x Hx; now left).
    + apply (Hstep (p0 :: echecked) He). intros x Hx. cbn [mem existsb] in Hx.
      apply orb_true_iff in Hx. destruct Hx as [Hx|Hx]; [|now left].
      apply Nat.eqb_eq in Hx. right. split; [now subst|reflexivity].
    + apply andb_true_iff in He. destruct He as [_ He]. apply (Hstep echecked He). intros x Hx; now left.
Qed.

(* arrays of object pointers: the loop `for i < n: CHECK_NOT_NULL(p[i])` precedes every use of
   the elements; C-string arrays rely on std::string(nullptr) throwing; data arrays have no
   pointer elements *)
Theorem array_elements_checked w : In w table ->
  forall j p, nth_error (w_events w) j = Some (Ev p UElemUse) ->
    match ptype_of w p with
    | PObjPtrPtr _ => exists i, i < j /\ nth_error (w_events w) i = Some (Ev p UElemCheckAll)
    | PCStrPtr | PDataPtr _ => True
    | _ => False
    end.
Proof.
  intros Hin j p Hn.
  pose proof (proj1 (forallb_forall _ _) table_elems_checked _ Hin) as H. unfold elems_checked in H.
  pose proof (elems_checked_from_sound w _ _ H _ _ Hn) as R.
  destruct (ptype_of w p); auto. destruct R as [Hm|Hx]; [discriminate|exact Hx].
Qed.

Theorem pass_through_default_objects w : In w table ->
  forall p, In (Ev p UPass) (w_events w) ->
    (exists c cls, ptype_of w p = PObjPtr c cls /\ (cls = "Device"%string \/ cls = "Graph"%string)) /\
    required w p = false.
Proof.
  intros Hin p Hp.
  pose proof (proj1 (forallb_forall _ _) table_pass_through _ Hin) as H.
  unfold pass_through_ok in H. rewrite forallb_forall in H. specialize (H _ Hp). cbn [ev_use ev_param] in H.
  apply andb_true_iff in H. destruct H as [H1 H2]. split; [|now apply negb_true_iff in H2].
  destruct (ptype_of w p) as [|c cls| | | |]; try discriminate. exists c, cls. split; [reflexivity|].
  unfold default_object_class in H1. apply orb_true_iff in H1.
  destruct H1 as [H1|H1]; apply String.eqb_eq in H1; auto.
Qed.

Theorem status_protocol w : In w table -> forall e o,
  (exists st msg ws, call hcode hf w e o = CReturn st msg ws) /\
  ((exists ws, call hcode hf w e o = CReturn PRIMITIV_C_OK None ws) <-> (o = None /\ args_ok w e)) /\
  (~ (o = None /\ args_ok w e) ->
     exists m ws, call hcode hf w e o = CReturn PRIMITIV_C_ERROR (Some m) ws /\ error_message w e o m /\
                  (oracle_within o (List.length (w_events w)) -> ws = [])).
Proof.
  intros Hin. destruct (table_wf w Hin) as [H1 H2]. now apply row_status_protocol.
Qed.

(* ================================================================== 4. the per-thread handler *)

Lemma call_ok_no_message hc w e o st msg ws :
  hf_handle_returns hf <> PRIMITIV_C_OK ->
  call hc hf w e o = CReturn st msg ws -> st = PRIMITIV_C_OK -> msg = None.
Proof.
  intros Hne. unfold call. destruct (body hc w e o); try discriminate.
  - intros H; now inversion H.
  - destruct (w_try w && w_catch_std w); [|discriminate]. destruct (w_handler w).
    + intros H; inversion H; subst. intros Hst. contradiction.
    + intros H; now inversion H.
Qed.

Definition status_of (ob : observed) : option Z :=
  match ob with OStatus s => Some s | OMessage s _ _ => Some s | OBroken => None end.

(* an operation of thread t never touches another thread's message *)
Theorem threads_independent s t a ob s' t' :
  step hcode hf s t a = (ob, s') -> t' <> t -> s' t' = s t'.
Proof.
  intros H Hne. assert (Hu : forall m, upd s t m t' = s t').
  { intros m. unfold upd. destruct (Nat.eqb_spec t' t); congruence. }
  destruct a as [w e o| |buf [size|]]; cbn [step] in H.
  - inversion H; subst. unfold after_call. destruct (call hcode hf w e o) as [st [m|] ws| |]; auto.
  - inversion H; subst. apply Hu.
  - destruct (copy_string_to_array _ _ _ _); inversion H; subst; auto.
  - inversion H; subst. apply Hu.
Qed.

(* a failing call leaves its message in the calling thread's handler ... *)
Theorem error_sets_message s t w e o st m ws :
  call hcode hf w e o = CReturn st (Some m) ws ->
  snd (step hcode hf s t (ACall w e o)) t = m.
Proof.
  intros H. cbn [step snd]. rewrite H. cbn [after_call]. unfold upd. now rewrite Nat.eqb_refl.
Qed.

(* ... an operation that returns PRIMITIV_C_OK and is not primitivResetStatus keeps it ... *)
Theorem ok_keeps_message s t a ob s' :
  step hcode hf s t a = (ob, s') -> a <> AReset -> status_of ob = Some PRIMITIV_C_OK -> s' = s.
Proof.
  pose proof handler_matches as (Hret & _).
  assert (Hne : hf_handle_returns hf <> PRIMITIV_C_OK) by (rewrite Hret; discriminate).
  intros H Ha Hst. destruct a as [w e o| |buf [size|]]; cbn [step] in H.
  - inversion H; subst. clear H. destruct (call hcode hf w e o) as [st msg ws| |] eqn:Hc; try discriminate.
    cbn [status_of] in Hst. inversion Hst; subst.
    now rewrite (call_ok_no_message _ _ _ _ _ _ _ Hne Hc eq_refl).
  - contradiction.
  - destruct (copy_string_to_array _ _ _ _).
    + inversion H; subst; reflexivity.
    + exfalso. apply Hne. inversion H; subst. cbn [status_of] in Hst. now inversion Hst.
  - exfalso. apply Hne. inversion H; subst. cbn [status_of] in Hst. now inversion Hst.
Qed.

(* ... through any interleaving with other threads, as long as this thread's own operations
   succeed and do not reset ... *)
Fixpoint quiet_for (t : nat) (tr : list (nat * action)) (obs : list observed) : Prop :=
  match tr, obs with
  | [], [] => True
  | (t', a) :: tr', ob :: obs' =>
      (t' = t -> a <> AReset /\ status_of ob = Some PRIMITIV_C_OK) /\ quiet_for t tr' obs'
  | _, _ => False
  end.

Theorem message_stable tr : forall s t obs s',
  run hcode hf s tr = (obs, s') -> quiet_for t tr obs -> s' t = s t.
Proof.
  induction tr as [|[t0 a] tr IH]; intros s t obs s' H Hq; cbn [run] in H.
  - now inversion H.
  - destruct (step hcode hf s t0 a) as [ob s1] eqn:Hs.
    destruct (run hcode hf s1 tr) as [obs1 s2] eqn:Hr. inversion H; subst. clear H.
    cbn [quiet_for] in Hq. destruct Hq as [Hq1 Hq2].
    rewrite (IH _ _ _ _ Hr Hq2).
    destruct (Nat.eq_dec t0 t) as [->|Hne].
    + destruct (Hq1 eq_refl) as [Ha Hst]. now rewrite (ok_keeps_message _ _ _ _ _ Hs Ha Hst).
    + eapply threads_independent; eauto.
Qed.

(* ... and primitivGetMessage returns exactly it (size query, then a sufficient buffer) ... *)
Theorem get_message_returns s t contents size :
  let m := chars (s t) in
  let need := N.of_nat (List.length m + 1) in
  step hcode hf s t (AGetMessage None (Some size)) = (OMessage PRIMITIV_C_OK None need, s) /\
  ((need <= size)%N -> (size <= N.of_nat (List.length contents))%N ->
   exists out, step hcode hf s t (AGetMessage (Some contents) (Some size)) = (OMessage PRIMITIV_C_OK (Some out) size, s) /\
               firstn (List.length m + 1) out = m ++ [NUL]).
Proof.
  intros m need. destruct size_query_protocol as (_ & _ & Hs). specialize (Hs m).
  destruct Hs as (Hq & _ & Hc).
  assert (Hl : List.length (m ++ [NUL]) = List.length m + 1) by (rewrite app_length; reflexivity).
  rewrite Hl in *. split.
  - cbn [step]. fold m. now rewrite Hq.
  - intros H1 H2. destruct (Hc contents size H1 H2) as [out (Ho & Hf & _)].
    exists out. split; [|exact Hf]. cbn [step]. fold m. now rewrite Ho.
Qed.

(* ... until primitivResetStatus, after which the message is "OK" again. *)
Theorem reset_clears s t :
  step hcode hf s t AReset = (OStatus PRIMITIV_C_OK, upd s t "OK"%string) /\ upd s t "OK"%string t = "OK"%string.
Proof.
  pose proof handler_matches as (_ & _ & Hr & _). cbn [step]. rewrite Hr. split; [reflexivity|].
  unfold upd. now rewrite Nat.eqb_refl.
Qed.

(* the hand-written [step] for the two status functions agrees with their rows of the table *)
Theorem status_rows_match :
  w_events w_primitivResetStatus = [] /\ w_params w_primitivResetStatus = [] /\
  forall e, (forall i, elem_null e i = false) ->
    match call hcode hf w_primitivGetMessage e None with
    | CReturn st msg ws =>
        if nulls e 1 then st = PRIMITIV_C_ERROR /\ msg = Some (null_msg "size")
        else match copy_string_to_array (hcode HCopyString) (repeat NUL (N.to_nat (result_len e)))
                     (if nulls e 0 then None else Some (repeat NUL (N.to_nat (size_in e 1)))) (size_in e 1) with
             | HOk _ size' => st = PRIMITIV_C_OK /\ msg = None /\
                              (nulls e 0 = true -> ws = [WSize 1 size'])
             | HThrow m => st = PRIMITIV_C_ERROR /\ msg = Some m
             end
    | _ => False
    end.
Proof.
  split; [reflexivity|]. split; [reflexivity|]. intros e _.
  unfold call, body. cbn [w_primitivGetMessage w_events w_try w_catch_std w_handler w_rets ok_status andb].
  cbn [exec fires pending]. unfold is_zero, ptype_of, pname_of.
  cbn [w_params nth_error p_type p_name is_pointer].
  destruct (nulls e 1) eqn:H1.
  - split; reflexivity.
  - unfold copy_string_to_array, run_helper. rewrite repeat_length, N2Nat.id.
    destruct (nulls e 0) eqn:H0; cbn [app].
    + split; [reflexivity|]. split; [reflexivity|]. intros _. reflexivity.
    + destruct (cmp_holds _ _ _).
      * split; reflexivity.
      * split; [reflexivity|]. split; [reflexivity|]. intros; discriminate.
Qed.
