(* C20 -- forwarding theorems over the REGENERATED table Gen/CApiFwd.v (translate/gen_capi_fwd.py,
   re-run on every ./check C20).  The finite facts are closed by vm_compute over the regenerated
   rows; the Prop statements follow by the soundness lemmas of CApi/Forwarding.v. *)
From Coq Require Import List String Ascii Bool Arith.
From PV Require Import CApi.Wrapper Gen.CApiTable CApi.Forwarding Gen.CApiFwd.
Import ListNotations.
Local Open Scope list_scope.

(* ---- finite facts ------------------------------------------------------------------------ *)

Lemma fwd_table_in_order_b : forallb row_in_order fwd_table = true.
Proof. vm_compute. reflexivity. Qed.

Lemma fwd_table_convs_b : forallb row_convs_ok fwd_table = true.
Proof. vm_compute. reflexivity. Qed.

Lemma fwd_exceptions_not_stale_b : stale_exceptions fwd_table = [].
Proof. vm_compute. reflexivity. Qed.

(* the two tables are read from the same definitions by two independent passes: same wrappers in
   the same order, same parameter names, and the parameters this pass sees written through
   (FOut / FBuf / FSize) are those with a store / buffer / `*size` event in the other table *)
Lemma fwd_table_names_b : strs_eqb (map w_name table) (map f_name fwd_table) = true.
Proof. vm_compute. reflexivity. Qed.

Lemma fwd_table_rows_match_b : forallb row_matches (combine table fwd_table) = true.
Proof. vm_compute. reflexivity. Qed.

Lemma fwd_table_twins_b : forallb (twin_ok fwd_table) fwd_table = true.
Proof. vm_compute. reflexivity. Qed.

(* ---- the statements ---------------------------------------------------------------------- *)

Lemma wrappers_forward_in_order r : In r fwd_table -> forwards_in_order r.
Proof.
  intro H. apply row_in_order_sound.
  exact (proj1 (forallb_forall row_in_order fwd_table) fwd_table_in_order_b r H).
Qed.

Lemma wrapper_conversions_reviewed r : In r fwd_table -> conversions_reviewed r.
Proof.
  intro H. apply row_convs_ok_sound.
  exact (proj1 (forallb_forall row_convs_ok fwd_table) fwd_table_convs_b r H).
Qed.

Lemma forwarding_exceptions_are_wrappers n : In n (map fst fwd_exceptions) -> In n (map f_name fwd_table).
Proof.
  intro H.
  destruct (str_mem n (map f_name fwd_table)) eqn:E; [apply str_mem_In; exact E |].
  assert (Hs : In n (stale_exceptions fwd_table)).
  { unfold stale_exceptions. apply filter_In. split; [exact H | rewrite E; reflexivity]. }
  rewrite fwd_exceptions_not_stale_b in Hs. destruct Hs.
Qed.

Lemma forwarding_table_complete :
  map w_name table = map f_name fwd_table /\
  forall w r, In (w, r) (combine table fwd_table) ->
    w_name w = f_name r /\
    map p_name (w_params w) = map fst (f_params r) /\
    wrapper_written w = written_params r.
Proof.
  split; [apply strs_eqb_eq; exact fwd_table_names_b |].
  intros w r H.
  pose proof (proj1 (forallb_forall row_matches (combine table fwd_table)) fwd_table_rows_match_b (w, r) H) as M.
  unfold row_matches in M.
  apply andb_true_iff in M. destruct M as [M M3].
  apply andb_true_iff in M. destruct M as [M1 M2].
  split; [apply String.eqb_eq; exact M1 |].
  split; [apply strs_eqb_eq; exact M2 | apply nats_eqb_eq; exact M3].
Qed.

Lemma node_tensor_twins_call_same r : In r fwd_table ->
  forall tn, tensor_twin_name (f_name r) = Some tn ->
  exists r', In r' fwd_table /\ f_name r' = tn /\
             map norm_callee (f_callees r) = map norm_callee (f_callees r').
Proof.
  intro H. apply twin_ok_sound.
  exact (proj1 (forallb_forall (twin_ok fwd_table) fwd_table) fwd_table_twins_b r H).
Qed.

Lemma twins_nonvacuous :
  tensor_twin_name "primitivApplyNodeMaxPool2d" = Some "primitivApplyTensorMaxPool2d"%string /\
  tensor_twin_name "primitivApplyNodeSumNodes" = Some "primitivApplyTensorSumTensors"%string /\
  tensor_twin_name "primitivLoadModel" = None /\
  norm_callee "uniform_node" = "uniform"%string /\ norm_callee "uniform_tensor" = "uniform"%string /\
  List.length (filter (fun r => match tensor_twin_name (f_name r) with Some _ => true | None => false end) fwd_table) >= 70.
Proof. repeat split; try (vm_compute; reflexivity). vm_compute. repeat constructor. Qed.

(* every wrapper of the C API table has a forwarding row and vice versa *)
Lemma forwarding_rows_both_ways :
  (forall w, In w table -> exists r, In r fwd_table /\ f_name r = w_name w) /\
  (forall r, In r fwd_table -> exists w, In w table /\ w_name w = f_name r).
Proof.
  destruct forwarding_table_complete as [E _].
  split.
  - intros w Hw. assert (Hn : In (w_name w) (map f_name fwd_table)) by (rewrite <- E; apply in_map; exact Hw).
    apply in_map_iff in Hn. destruct Hn as [r [Hr Hin]]. exists r. split; [exact Hin | exact Hr].
  - intros r Hr. assert (Hn : In (f_name r) (map w_name table)) by (rewrite E; apply in_map; exact Hr).
    apply in_map_iff in Hn. destruct Hn as [w [Hw Hin]]. exists w. split; [exact Hin | exact Hw].
Qed.

(* ---- non-vacuity material ---------------------------------------------------------------- *)

Definition swapped_maxpool_row : fwd_row := {|
  f_name := "primitivApplyTensorMaxPool2d"; f_file := "functions.cc"; f_parsed := true;
  f_params := f_params fw_primitivApplyTensorMaxPool2d;
  f_callees := ["max_pool2d"%string];
  (* ... padding1, stride1, stride0 : the last two scalars handed on in swapped order *)
  f_entries := [FwParam 0 FDeref ""; FwParam 1 FPlain ""; FwParam 2 FPlain ""; FwParam 3 FPlain "";
                FwParam 4 FPlain ""; FwParam 6 FPlain ""; FwParam 5 FPlain ""; FwParam 7 FOut ""] |}.
Definition dropped_param_row : fwd_row := {|
  f_name := "primitivApplyTensorMaxPool2d"; f_file := "functions.cc"; f_parsed := true;
  f_params := f_params fw_primitivApplyTensorMaxPool2d;
  f_callees := ["max_pool2d"%string];
  (* stride1 replaced by the literal 1 *)
  f_entries := [FwParam 0 FDeref ""; FwParam 1 FPlain ""; FwParam 2 FPlain ""; FwParam 3 FPlain "";
                FwParam 4 FPlain ""; FwParam 5 FPlain ""; FwLit "1"; FwParam 7 FOut ""] |}.
Definition bool_compared_row : fwd_row := {|
  f_name := "primitivLoadModel"; f_file := "model.cc"; f_parsed := true;
  f_params := f_params fw_primitivLoadModel;
  f_callees := ["->load"%string];
  (* load(path, with_stats == PRIMITIV_C_TRUE, to_cpp_ptr(device)) *)
  f_entries := [FwParam 0 FRecv ""; FwParam 1 FString ""; FwParam 2 FConv "($ == 1)"; FwParam 3 FPtr ""] |}.
Definition unparsed_row : fwd_row := {|
  f_name := "primitivLoadModel"; f_file := "model.cc"; f_parsed := false;
  f_params := f_params fw_primitivLoadModel; f_callees := []; f_entries := [] |}.

Lemma bool_never_compared_with_true : ~ In "($ == 1)"%string reviewed_convs.
Proof. vm_compute. intuition discriminate. Qed.

Lemma forwarding_nonvacuous :
  List.length fwd_table >= 200 /\
  In fw_primitivApplyTensorMaxPool2d fwd_table /\
  f_entries fw_primitivApplyTensorMaxPool2d =
    [FwParam 0 FDeref ""; FwParam 1 FPlain ""; FwParam 2 FPlain ""; FwParam 3 FPlain "";
     FwParam 4 FPlain ""; FwParam 5 FPlain ""; FwParam 6 FPlain ""; FwParam 7 FOut ""] /\
  forwarded fw_primitivApplyTensorMaxPool2d = [0; 1; 2; 3; 4; 5; 6] /\
  In fw_primitivLoadModel fwd_table /\
  f_entries fw_primitivLoadModel =
    [FwParam 0 FRecv ""; FwParam 1 FString ""; FwParam 2 FPlain "implicit:IntegralToBoolean"; FwParam 3 FPtr ""] /\
  row_in_order swapped_maxpool_row = false /\
  row_in_order dropped_param_row = false /\
  row_in_order unparsed_row = false /\ row_convs_ok unparsed_row = false /\
  row_in_order bool_compared_row = true /\ row_convs_ok bool_compared_row = false /\
  ~ In "($ == 1)"%string reviewed_convs.
Proof.
  assert (F1 : find (fun r => String.eqb (f_name r) "primitivApplyTensorMaxPool2d") fwd_table = Some fw_primitivApplyTensorMaxPool2d)
    by (vm_compute; reflexivity).
  assert (F2 : find (fun r => String.eqb (f_name r) "primitivLoadModel") fwd_table = Some fw_primitivLoadModel)
    by (vm_compute; reflexivity).
  repeat split; try (vm_compute; reflexivity).
  - vm_compute. repeat constructor.
  - exact (proj1 (find_some _ _ F1)).
  - exact (proj1 (find_some _ _ F2)).
  - vm_compute. intuition discriminate.
Qed.
