(* C20 -- forwarding of the wrapper parameters to the C++ callee: vocabulary of the regenerated
   table Gen/CApiFwd.v (translate/gen_capi_fwd.py), the REVIEWED exception list and the reviewed
   set of conversions, the executable checkers, and their soundness lemmas.  Nothing in this file
   depends on the regenerated table, so it keeps compiling when a row breaks a theorem (the engine
   then asks the checkers below for the offending rows).

   The clause of C20 this serves: "on success the effect and the returned data equal those of the
   corresponding C++ call for all argument values".  The C++ call is an oracle for the model of
   CApi/Wrapper.v; what CAN be decided on the wrapper's text is that the wrapper hands each of its
   own parameters to the C++ side exactly once, in declaration order, in a value-preserving form. *)
From Coq Require Import List String Ascii Bool Arith.
From PV Require Import CApi.Wrapper.
Import ListNotations.
Local Open Scope string_scope.
Local Open Scope list_scope.

(* ------------------------------------------------------------------ table vocabulary *)

Inductive fform :=
| FPlain       (* p itself is an argument of the callee (scalars, raw data pointers) *)
| FDeref       (* *to_cpp_ptr(p) *)
| FPtr         (* to_cpp_ptr(p) handed on as a pointer *)
| FRecv        (* to_cpp_ptr(p)->method(...) : the object the method is called on *)
| FDelete      (* delete to_cpp_ptr(p) *)
| FVecPtr      (* the p of std::vector<T>(p, p + n) *)
| FVecLen      (* the n of std::vector<T>(p, p + n); always right after its FVecPtr *)
| FString      (* std::string built from the const char * p *)
| FElemDeref   (* *to_cpp_ptr(p[i]) *)
| FElemPtr     (* to_cpp_ptr(p[i]) *)
| FConv        (* p inside an explicit conversion expression (text in the entry, `$` = p) *)
| FLocal       (* copied into a local variable *)
| FOut         (* *p = ... : out-parameter *)
| FBuf         (* buffer argument of a size-query helper: out-parameter *)
| FSize        (* size_t* argument of a size-query helper: in/out-parameter *)
| FOther.      (* any other appearance (loop bound, ...) *)

Inductive fentry :=
| FwParam (i : nat) (f : fform) (conv : string)   (* parameter i, form, conversion text *)
| FwLit (text : string)                           (* a literal / constant argument that is no parameter *)
| FwDefault.                                      (* a defaulted argument of the C++ callee *)

Record fwd_row := {
  f_name : string; f_file : string;
  f_parsed : bool;                       (* false: the translator could not read the wrapper *)
  f_params : list (string * string);     (* name, C type as spelled *)
  f_callees : list string;               (* C++ callees of the body, source order (informative) *)
  f_entries : list fentry
}.

(* ------------------------------------------------------------------ decidable equalities *)

Definition fform_eq_dec (a b : fform) : {a = b} + {a <> b}.
Proof. decide equality. Defined.

Definition fentry_eq_dec (a b : fentry) : {a = b} + {a <> b}.
Proof.
  decide equality; try apply string_dec; try apply fform_eq_dec; apply Nat.eq_dec.
Defined.

Definition entries_eqb (a b : list fentry) : bool := if list_eq_dec fentry_eq_dec a b then true else false.
Definition nats_eqb (a b : list nat) : bool := if list_eq_dec Nat.eq_dec a b then true else false.
Definition strs_eqb (a b : list string) : bool := if list_eq_dec string_dec a b then true else false.
Definition str_mem (s : string) (l : list string) : bool := existsb (String.eqb s) l.
Definition nat_mem (i : nat) (l : list nat) : bool := existsb (Nat.eqb i) l.

Lemma entries_eqb_eq a b : entries_eqb a b = true -> a = b.
Proof. unfold entries_eqb. destruct (list_eq_dec fentry_eq_dec a b); [auto | discriminate]. Qed.
Lemma nats_eqb_eq a b : nats_eqb a b = true -> a = b.
Proof. unfold nats_eqb. destruct (list_eq_dec Nat.eq_dec a b); [auto | discriminate]. Qed.
Lemma strs_eqb_eq a b : strs_eqb a b = true -> a = b.
Proof. unfold strs_eqb. destruct (list_eq_dec string_dec a b); [auto | discriminate]. Qed.
Lemma str_mem_In s l : str_mem s l = true -> In s l.
Proof.
  unfold str_mem. rewrite existsb_exists. intros [x [Hin Heq]].
  apply String.eqb_eq in Heq. subst. exact Hin.
Qed.

(* ------------------------------------------------------------------ REVIEWED exceptions
   Wrappers that legitimately reorder, drop, duplicate or combine parameters.  Each one is pinned
   to the exact entry list read from the source when it was reviewed (primitiv/c/functions.cc,
   optimizer.cc at /repo HEAD): any later change of such a wrapper breaks the theorem until it is
   reviewed again. *)

Definition split_entries (x dim n ys : nat) : list fentry :=
  [FwParam x FDeref ""; FwParam dim FPlain ""; FwParam n FPlain "";
   FwParam n FLocal "implicit:IntegralCast(uint32_t->size_t)"; FwParam ys FBuf ""].
Definition batch_split_entries : list fentry :=
  [FwParam 0 FDeref ""; FwParam 1 FPlain "";
   FwParam 1 FLocal "implicit:IntegralCast(uint32_t->size_t)"; FwParam 2 FBuf ""].
Definition add_array_entries : list fentry :=
  [FwParam 2 FOther ""; FwParam 0 FRecv ""; FwParam 1 FElemDeref ""].
Definition get_config_entries : list fentry :=
  [FwParam 0 FRecv ""; FwParam 1 FString ""; FwParam 1 FString ""; FwParam 2 FOut ""].
Definition set_config_entries : list fentry :=
  [FwParam 1 FPlain ""; FwParam 2 FPlain ""; FwParam 0 FRecv ""].
Definition selu_entries : list fentry :=
  [FwParam 0 FDeref ""; FwDefault; FwDefault; FwParam 1 FOut ""].

Definition r_split := "DUPLICATE: `n` is the argument of functions::split(x, dim, n) and, copied into `size_t size`, the capacity of the output array `ys` handed to move_vector_to_array_of_c_ptrs (the caller provides n slots)".
Definition r_batch_split := "DUPLICATE: `n` is the argument of functions::batch::split(x, n) and, copied into `size_t size`, the capacity of the output array `ys`".
Definition r_add_array := "COMBINE/REORDER: `for (i = 0; i < n; ++i) cc_optimizer->add( *to_cpp_ptr(array[i]))` -- the (array, n) pair becomes n calls of Optimizer::add, so the loop bound n is read before the receiver and the array".
Definition r_get_config := "DUPLICATE: Optimizer::get_configs(uint_configs, float_configs) takes no key; `key` selects the entry afterwards (`configs.find(key)` then `configs[key]`), so it is used twice and never handed to the callee".
Definition r_set_config := "REORDER: the map `{{key, value}}` is built first, then to_cpp_ptr(optimizer)->set_configs(uint_configs, float_configs) is called, so key and value are read before the receiver".
Definition r_selu := "DROP (C++ side): functions::selu(x, a, s) has two defaulted arguments the C API does not expose; the wrapper calls selu(x) exactly as the C++ call selu(x) does".

Definition fwd_exceptions : list (string * (list fentry * string)) :=
  [("primitivApplyNodeSplit", (split_entries 0 1 2 3, r_split));
   ("primitivApplyTensorSplit", (split_entries 0 1 2 3, r_split));
   ("primitivApplyNodeBatchSplit", (batch_split_entries, r_batch_split));
   ("primitivApplyTensorBatchSplit", (batch_split_entries, r_batch_split));
   ("primitivAddParametersToOptimizer", (add_array_entries, r_add_array));
   ("primitivAddModelsToOptimizer", (add_array_entries, r_add_array));
   ("primitivGetOptimizerIntConfig", (get_config_entries, r_get_config));
   ("primitivGetOptimizerFloatConfig", (get_config_entries, r_get_config));
   ("primitivSetOptimizerIntConfig", (set_config_entries, r_set_config));
   ("primitivSetOptimizerFloatConfig", (set_config_entries, r_set_config));
   ("primitivApplyNodeSelu", (selu_entries, r_selu));
   ("primitivApplyTensorSelu", (selu_entries, r_selu))].

Fixpoint lookup_exc (n : string) (l : list (string * (list fentry * string))) : option (list fentry * string) :=
  match l with
  | [] => None
  | (m, x) :: t => if String.eqb n m then Some x else lookup_exc n t
  end.
Definition reviewed_exception (n : string) : option (list fentry * string) := lookup_exc n fwd_exceptions.

(* ------------------------------------------------------------------ REVIEWED conversions
   primitiv/c/define.h: PRIMITIV_C_BOOL is uint32_t, PRIMITIV_C_TRUE "can not be compared with any
   PRIMITIV_C_BOOL values" -- every non-zero value means true.  So the implicit integral-to-bool
   conversion, `!= 0`, `!!` and a cast to bool are value-preserving; `$ == 1` (= PRIMITIV_C_TRUE)
   is NOT (2 and 0xffffffff would become false) and is deliberately absent, as is every other
   comparison / arithmetic on a parameter. *)

Definition reviewed_convs : list string :=
  [""; (* handed on unchanged *)
   "implicit:IntegralToBoolean";                      (* PRIMITIV_C_BOOL -> bool, non-zero = true *)
   "($ != 0)"; "(0 != $)"; "!!$"; "!($ == 0)"; "!(0 == $)";
   "static_cast<bool>($)"; "(bool)$"; "bool($)";
   "($ != 0) ? true : false"; "($ ? true : false)";
   "implicit:IntegralCast(uint32_t->size_t)";        (* widening copy `size_t size = n;` *)
   (* arrays of C handles seen as arrays of C++ object pointers (the handle IS the object pointer,
      cf. to_cpp_ptr in c/internal/internal.h) *)
   "reinterpret_cast<const Node *const *>($)";
   "reinterpret_cast<const Tensor *const *>($)"].

Definition conv_of (e : fentry) : string := match e with FwParam _ _ c => c | _ => "" end.
Definition entry_conv_ok (e : fentry) : bool := str_mem (conv_of e) reviewed_convs.
Definition row_convs_ok (r : fwd_row) : bool := f_parsed r && forallb entry_conv_ok (f_entries r).

(* ------------------------------------------------------------------ order / exactly-once checker *)

Definition is_out_form (f : fform) : bool := match f with FOut | FBuf | FSize => true | _ => false end.
(* forms a wrapper outside the exception list may use *)
Definition regular_form (f : fform) : bool :=
  match f with
  | FPlain | FDeref | FPtr | FRecv | FDelete | FVecPtr | FVecLen | FString | FConv | FOut | FBuf | FSize => true
  | FElemDeref | FElemPtr | FLocal | FOther => false
  end.

(* parameters written through *)
Definition out_params (r : fwd_row) : list nat :=
  flat_map (fun e => match e with FwParam i f _ => if is_out_form f then [i] else [] | _ => [] end) (f_entries r).
(* parameters handed to the C++ side, in the order the body does it *)
Definition forwarded (r : fwd_row) : list nat :=
  flat_map (fun e => match e with FwParam i f _ => if is_out_form f then [] else [i] | _ => [] end) (f_entries r).
(* the parameters that are not out-parameters, in declaration order *)
Definition in_params (r : fwd_row) : list nat :=
  filter (fun i => negb (nat_mem i (out_params r))) (seq 0 (List.length (f_params r))).
Definition written_params (r : fwd_row) : list nat :=
  filter (fun i => nat_mem i (out_params r)) (seq 0 (List.length (f_params r))).

Definition entry_regular (e : fentry) : bool :=
  match e with FwParam _ f _ => regular_form f | _ => false end.

Fixpoint vec_pairs_ok (l : list fentry) : bool :=
  match l with
  | [] => true
  | FwParam _ FVecPtr _ :: FwParam _ FVecLen _ :: t => vec_pairs_ok t
  | FwParam _ FVecPtr _ :: _ => false
  | FwParam _ FVecLen _ :: _ => false
  | _ :: t => vec_pairs_ok t
  end.

Definition regular_row_ok (r : fwd_row) : bool :=
  nats_eqb (forwarded r) (in_params r) && forallb entry_regular (f_entries r) && vec_pairs_ok (f_entries r).

Definition row_in_order (r : fwd_row) : bool :=
  f_parsed r &&
  match reviewed_exception (f_name r) with
  | Some (es, _) => entries_eqb (f_entries r) es
  | None => regular_row_ok r
  end.

(* the statement the checker decides *)
Definition forwards_in_order (r : fwd_row) : Prop :=
  f_parsed r = true /\
  match reviewed_exception (f_name r) with
  | Some (es, _) => f_entries r = es
  | None =>
      (* each parameter that is not written through is handed on exactly once, in declaration order *)
      forwarded r = in_params r /\
      (* nothing but the wrapper's own parameters reaches the callee, and only in a regular form *)
      (forall e, In e (f_entries r) -> exists i f c, e = FwParam i f c /\ regular_form f = true) /\
      vec_pairs_ok (f_entries r) = true
  end.

Lemma row_in_order_sound r : row_in_order r = true -> forwards_in_order r.
Proof.
  unfold row_in_order, forwards_in_order. intro H.
  apply andb_true_iff in H. destruct H as [Hp H]. split; [exact Hp |].
  destruct (reviewed_exception (f_name r)) as [[es why] |].
  - apply entries_eqb_eq. exact H.
  - unfold regular_row_ok in H.
    apply andb_true_iff in H. destruct H as [H Hv].
    apply andb_true_iff in H. destruct H as [Ho Hr].
    split; [apply nats_eqb_eq; exact Ho |]. split; [| exact Hv].
    intros e He. rewrite forallb_forall in Hr. specialize (Hr e He).
    destruct e as [i f c | t |]; simpl in Hr; try discriminate.
    exists i, f, c. split; [reflexivity | exact Hr].
Qed.

Definition conversions_reviewed (r : fwd_row) : Prop :=
  f_parsed r = true /\ forall i f c, In (FwParam i f c) (f_entries r) -> In c reviewed_convs.

Lemma row_convs_ok_sound r : row_convs_ok r = true -> conversions_reviewed r.
Proof.
  unfold row_convs_ok, conversions_reviewed. intro H.
  apply andb_true_iff in H. destruct H as [Hp H]. split; [exact Hp |].
  intros i f c Hin. rewrite forallb_forall in H. specialize (H _ Hin).
  unfold entry_conv_ok in H. simpl in H. apply str_mem_In. exact H.
Qed.

(* ------------------------------------------------------------------ agreement with the C API table
   (Gen/CApiTable.v, read from the same definitions by translate/gen_capi.py) *)

Definition is_write_use (u : use) : bool :=
  match u with UStore | UBuf _ _ | UDeref Dsize => true | _ => false end.
Definition wrapper_written (w : wrapper) : list nat :=
  filter (fun i => existsb (fun e => Nat.eqb (ev_param e) i && is_write_use (ev_use e)) (w_events w))
         (seq 0 (List.length (w_params w))).
Definition row_matches (wr : wrapper * fwd_row) : bool :=
  let (w, r) := wr in
  String.eqb (w_name w) (f_name r) && strs_eqb (map p_name (w_params w)) (map fst (f_params r)) &&
  nats_eqb (wrapper_written w) (written_params r).

(* ------------------------------------------------------------------ Node / Tensor twins
   Every function of c/functions.cc exists as primitivApplyNode<X> and primitivApplyTensor<X>
   (`...Nodes` / `...Tensors` for the list forms); both must call the same C++ function
   (`<f>_node` / `<f>_tensor` count as the same `<f>`). *)

Definition ends_with (suf s : string) : bool :=
  let ls := String.length s in let lf := String.length suf in
  Nat.leb lf ls && String.eqb (substring (ls - lf) lf s) suf.
Definition strip_suffix (suf s : string) : string :=
  if ends_with suf s then substring 0 (String.length s - String.length suf) s else s.
Definition norm_callee (c : string) : string := strip_suffix "_node" (strip_suffix "_tensor" c).
Definition tensor_twin_name (n : string) : option string :=
  if prefix "primitivApplyNode" n then
    let r := substring 17 (String.length n - 17) n in
    Some (String.append "primitivApplyTensor" (if ends_with "Nodes" r then String.append (strip_suffix "Nodes" r) "Tensors" else r))
  else None.
Definition find_row (n : string) (t : list fwd_row) : option fwd_row :=
  find (fun r => String.eqb (f_name r) n) t.
Definition twin_ok (t : list fwd_row) (r : fwd_row) : bool :=
  match tensor_twin_name (f_name r) with
  | None => true
  | Some tn =>
      match find_row tn t with
      | Some r' => strs_eqb (map norm_callee (f_callees r)) (map norm_callee (f_callees r'))
      | None => false
      end
  end.

Lemma twin_ok_sound t r : twin_ok t r = true ->
  forall tn, tensor_twin_name (f_name r) = Some tn ->
  exists r', In r' t /\ f_name r' = tn /\
             map norm_callee (f_callees r) = map norm_callee (f_callees r').
Proof.
  unfold twin_ok. intros H tn E. rewrite E in H.
  destruct (find_row tn t) as [r' |] eqn:Fr; [| discriminate].
  unfold find_row in Fr. apply find_some in Fr. destruct Fr as [Hin Hn].
  exists r'. split; [exact Hin |]. split; [apply String.eqb_eq; exact Hn | apply strs_eqb_eq; exact H].
Qed.

(* ------------------------------------------------------------------ what the engine asks for *)

Definition bad_rows (chk : fwd_row -> bool) (t : list fwd_row) : list string :=
  map f_name (filter (fun r => negb (chk r)) t).
(* exceptions that no longer name a wrapper *)
Definition stale_exceptions (t : list fwd_row) : list string :=
  filter (fun n => negb (str_mem n (map f_name t))) (map fst fwd_exceptions).
