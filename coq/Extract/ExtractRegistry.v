(* Extraction of the executable registry model.  Directives: those of ExtrOcamlBasic only. *)
From Coq Require Import Extraction ExtrOcamlBasic NArith List.
From PV Require Import Base.Err Registry.ModelReg.
Extraction Language OCaml.
Extraction "../ocaml/gen/reg_model.ml"
  empty_world add_param add_model has_submodel get_all_parameters get_trainable_parameters
  get_parameter get_submodel get_parameter1 get_submodel1
  empty_opt opt_add_param opt_add_model opt_registered opt_reset_gradients
  model_load_plan.
