(* Extraction of the executable graph model (add_operator / forward / backward / histories).
   Directives: those of ExtrOcamlBasic only.  The operator family and the value operations
   stay parameters of the extracted functions: the OCaml driver supplies them. *)
From Coq Require Import Extraction ExtrOcamlBasic NArith List.
From PV Require Import Graph.OpFamily Graph.Tape Graph.Lazy Graph.Backward.
Extraction Language OCaml.
Extraction "../ocaml/gen/graph_model.ml"
  empty_graph get_slot add_op forward backward param_update reset_gradients set_pgrad bump
  run_cmd run run_all eff_bw.
