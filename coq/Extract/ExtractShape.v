(* Extraction of the executable shape model.  Directives: those of ExtrOcamlBasic only. *)
From Coq Require Import Extraction ExtrOcamlBasic NArith List.
From PV Require Import Base.U32 Shape.ShapeImpl.
Extraction Language OCaml.
Extraction "../ocaml/gen/shape_model.ml"
  mk_shape scalar_shape get depth lower_volume size has_batch has_compatible_batch
  is_scalar is_column_vector is_matrix has_same_dims shape_eqb has_same_loo_dims
  update_dim update_batch reshape flatten scalar_op elementwise slice concat broadcast
  pick transpose permute_dims matmul conv2d pool2d batch_pick batch_slice batch_concat
  split batch_split sce reduce identity batch_sum.
