(* Extraction of the executable spinlock semantics, monitor and explorer.
   Directives: those of ExtrOcamlBasic only. *)
From Coq Require Import Extraction ExtrOcamlBasic NArith List.
From PV Require Import Spin.Lang Spin.Reviewed Spin.Sem Spin.RaceSem Spin.Explore Spin.Registry Gen.SpinGen Spin.MixLang Spin.MixSem Gen.MixinsGen.
Extraction Language OCaml.
Extraction "../ocaml/gen/spin_model.ml"
  reviewed_prog SpinGen.gen_prog minit mstep_ev adv wb_ok holders explore judge_run
  reg_init reg_step reviewed_mixins gen_mixins mexplore frun finit.
