(* Extraction of the index-program model of the Naive kernels together with the shape rules
   the Device front end applies (so the driver derives output shapes and rejections from the
   C09 model). ExtrOcamlBasic only. *)
From Coq Require Import Extraction ExtrOcamlBasic List Arith NArith.
From PV Require Import Base.U32 Shape.ShapeImpl Tensor.Kernels.
Extraction Language OCaml.
Extraction "../ocaml/gen/tensor_model.ml"
  mk_shape get depth has_same_dims has_same_loo_dims has_compatible_batch shape_eqb update_dim update_batch
  reshape flatten scalar_op elementwise slice concat broadcast pick transpose permute_dims matmul
  conv2d pool2d batch_pick batch_slice batch_concat split batch_split sce reduce batch_sum
  mkT tget tvolume tlower tsize identity_pairs slice_fw slice_bw pick_fw pick_bw concat_fw
  broadcast_fw flip_pairs transpose_fw permute_fw permute_bw batch_pick_fw batch_pick_bw
  batch_slice_fw batch_slice_bw batch_concat_fw axis_red arg_red batch_sum_red ab_fw scalar_fw
  ab_bw inplace_add matmul_contribs conv2d_triples pool2d_red.
