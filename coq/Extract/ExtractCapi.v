(* Extraction of the executable C API model and of the regenerated table.
   Directives: those of ExtrOcamlBasic only. *)
From Coq Require Import Extraction ExtrOcamlBasic NArith List String.
From PV Require Import CApi.Wrapper Gen.CApiTable.
Extraction Language OCaml.
Extraction "../ocaml/gen/capi_model.ml"
  table helper_table handler_code lookup_helper expect diagnose wf store_last call valid_env
  run_helper spec_helper copy_vector_to_array copy_string_to_array move_vector_to_array_of_c_ptrs
  required_all init_state step run chars N.add N.of_nat.
