(* Extraction of the executable random/initializer model.  Directives: those of ExtrOcamlBasic only. *)
From Coq Require Import Extraction ExtrOcamlBasic NArith ZArith List.
From PV Require Import Base.U32 Base.Scalar Shape.ShapeImpl Random.RandModel.
Extraction Language OCaml.
Extraction "../ocaml/gen/random_model.ml"
  of_bits fcmp flt fle fgt fge feq nextafter fzero fone val149 span_finite
  bernoulli_rejects uniform_rejects normal_rejects of_bool fixup
  step run gumbel dropout gumbel_elem dropout_elem
  fan_sum_2d conv_fan_in conv_fan_out conv_fan_sum apply_init devreq_request request_rejected
  devreq_rejected mk_shape get depth size is_matrix.
