(* Extraction of the executable optimizer / checkpoint model.  Directives: those of
   ExtrOcamlBasic only.  The scalar operations are an argument of every function. *)
From Coq Require Import Extraction ExtrOcamlBasic NArith List String.
From PV Require Import Base.Scalar Optim.OptModel Optim.Checkpoint.
Extraction Language OCaml.
Extraction "../ocaml/gen/optim_model.ml"
  mkOps new_optimizer set_epoch set_lr_scale set_weight_decay set_clipping
  add_param add_params update reset_gradients get_uint_configs get_float_configs set_configs
  set_gradient put_stat get_param kind_of
  train_step train checkpoint resume resume_add_first obs drop_stats.
