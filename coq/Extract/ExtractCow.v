(* Extraction of the executable copy-on-write model.  Directives: those of ExtrOcamlBasic only. *)
From Coq Require Import Extraction ExtrOcamlBasic NArith ZArith List.
From PV Require Import Base.U32 Shape.ShapeImpl Cow.Heap.
Extraction Language OCaml.
Extraction "../ocaml/gen/cow_model.ml"
  empty_store step run var observe live_count mk_shape reshape flatten dims batch has_batch nsize.
