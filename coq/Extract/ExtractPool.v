(* Extraction of the executable MemoryPool model.  Directives: those of ExtrOcamlBasic only. *)
From Coq Require Import Extraction ExtrOcamlBasic NArith List.
From PV Require Import Pool.ShiftsImpl Pool.PoolModel.
Extraction Language OCaml.
Extraction "../ocaml/gen/pool_model.ml"
  calculate_shifts ceil_log2 init_world step step_alloc_choice new_events lookup
  log_okb del_okb live_of.
