(* Extraction of the executable io model (msgpack codec, generic grammar, file format).
   Directives: those of ExtrOcamlBasic only. *)
From Coq Require Import Extraction ExtrOcamlBasic NArith ZArith List.
From PV Require Import Base.U32 Base.Err Shape.ShapeImpl Msgpack.Codec Msgpack.Generic Msgpack.FileFormat Msgpack.BigFile.
Extraction Language OCaml.
Extraction "../ocaml/gen/io_model.ml"
  be le len take rd_n
  w_nil r_nil w_bool r_bool w_u8 r_u8 w_u16 r_u16 w_u32 r_u32 w_u64 r_u64
  w_i8 r_i8 w_i16 r_i16 w_i32 r_i32 w_i64 r_i64 w_f32 r_f32 w_f64 r_f64
  str_hdr bin_hdr ext_hdr arr_hdr map_hdr param_file_prefix
  w_str r_str w_bin r_bin w_ext r_ext w_vec r_vec w_map r_map
  bytes_eqb assoc dedup_first
  Generic.parse1 Generic.parse_all Generic.int_value
  mk_shape size
  payload unle4 flat_index enc_shape enc_tensor enc_param_inner enc_param_file
  all_params model_entries enc_model_file
  hp_names uint_configs float_configs enc_opt_file
  rd_shape rd_tensor zeros
  load_parameter load_model load_optimizer run_load
  save_parameter save_model save_optimizer save_parameter_pinned run_save.
