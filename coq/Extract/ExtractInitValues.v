(* Extraction of the value-level model of the deterministic initializers (Random/InitValues.v).
   Directives: those of ExtrOcamlBasic only. *)
From Coq Require Import Extraction ExtrOcamlBasic NArith List.
From PV Require Import Base.U32 Shape.ShapeImpl Random.InitValues.
Extraction Language OCaml.
Extraction "../ocaml/gen/initvals_model.ml"
  constant_values identity_index identity_values init_tensor init_parameter mk_shape.
