(* Extraction of the Device front-end model (Tensor/FrontEnd.v) together with the Shape
   constructor, so that ocaml/frontend_driver.ml decides accept / reject (and the output shape of
   the forward entry points) with exactly the functions the front_end_* theorems are about.
   ExtrOcamlBasic only. *)
From Coq Require Import Extraction ExtrOcamlBasic List NArith.
From PV Require Import Base.U32 Shape.ShapeImpl Fault.Guards Tensor.FrontEnd.
Extraction Language OCaml.
Extraction "../ocaml/gen/frontend_model.ml"
  mk_shape
  fe_pick_fw fe_slice_fw fe_concat_fw fe_unary_fw fe_transpose_fw fe_permute_dims_fw fe_fw_x_const
  fe_scalar_fw fe_elementwise_fw fe_matmul_fw fe_conv2d_fw fe_max_pool2d_fw fe_flip_fw fe_reduce_fw
  fe_broadcast_fw fe_batch_pick_fw fe_batch_slice_fw fe_batch_concat_fw fe_batch_sum_fw fe_argmax
  fe_identity
  fe_pick_bw fe_slice_bw fe_unary_bw fe_transpose_bw fe_permute_dims_bw fe_bw_x_const
  fe_elementwise_bw fe_matmul_bw fe_conv2d_bw fe_max_pool2d_bw fe_flip_bw fe_reduce_bw
  fe_batch_pick_bw fe_batch_slice_bw fe_inplace_add.
