(* C13, part "reader checks" -- the three private functions of msgpack::Reader every read goes
   through, tied to the CURRENT msgpack/reader.h through the regenerated Gen/IoReaderChecks.v.
   Properties_C13_headers.v gives get_uintN / the overloads the meaning `take n` / `check_type t`
   of the model; that meaning presupposes what is stated here.  The stream is the model of
   std::istream in Msgpack/ReaderChecks.v (bytes left, failbit, eofbit; read(n) delivers n bytes
   or sets eofbit | failbit; get() delivers a byte or sets them; operator! is fail()).
   Nothing but statements closed by `exact <lemma>` and Print Assumptions. *)
From Coq Require Import List NArith Bool.
From PV Require Import Msgpack.Codec Msgpack.ReaderChecks Msgpack.ReaderChecksProofs Msgpack.ReaderChecksMatch Gen.IoReaderChecks.
Import ListNotations.
Local Open Scope N_scope.

(* READER_CHECK_EOF: the body of check_eof() as read from reader.h.  It throws exactly when the
   stream has failed (both branches of the inner eof() test throw) and changes nothing otherwise. *)
Theorem C13_reader_check_eof_throws_iff_failed s :
  run_check_eof READER_CHECK_EOF s = if is_fail s then OThrows else OVal tt s.
Proof. exact (source_check_eof s). Qed.
Print Assumptions C13_reader_check_eof_throws_iff_failed.

(* READER_READ: the body of read(ptr, size) (payload of str / bin / ext).  On every stream of
   bytes and every size it stores exactly `size` bytes and leaves the rest, or throws when fewer
   are left: the model's `take`.  The same two statements, `is_.read(c, n); check_eof();`, are the
   body of get_uint16/32/64 (matched word for word by the translator). *)
Theorem C13_reader_read_is_take n b :
  run_read READER_CHECK_EOF READER_READ n (fresh b) = of_reader (take n) b /\
  run_read READER_CHECK_EOF model_read n (fresh b) = of_reader (take n) b.
Proof. exact (conj (source_read n b) (source_getn n b)). Qed.
Print Assumptions C13_reader_read_is_take.

(* get_uint8() = `c = is_.get(); check_eof(); return c`: the model's rd8 (an empty stream throws
   instead of delivering the EOF value 255) *)
Theorem C13_reader_get8_is_rd8 b : run_get8 READER_CHECK_EOF (fresh b) = of_reader rd8 b.
Proof. exact (source_get8 b). Qed.
Print Assumptions C13_reader_get8_is_rd8.

(* READER_CHECK_TYPE: the body of check_type(expected): reads one byte by get_uint8() and throws
   unless it equals `expected`: the model's check_type *)
Theorem C13_reader_check_type_is_model t b :
  run_check_type READER_CHECK_EOF READER_CHECK_TYPE t (fresh b) = of_reader (check_type t) b.
Proof. exact (source_check_type t b). Qed.
Print Assumptions C13_reader_check_type_is_model.

(* nothing is ever delivered from a stream that failed earlier *)
Theorem C13_reader_failed_stream_throws r ef n t : let s := mkIs r true ef in
  run_read READER_CHECK_EOF READER_READ n s = OThrows /\ run_get8 READER_CHECK_EOF s = OThrows /\
  run_check_type READER_CHECK_EOF READER_CHECK_TYPE t s = OThrows.
Proof. exact (source_failed_stream r ef n t). Qed.
Print Assumptions C13_reader_failed_stream_throws.

(* READER_STREAM_USERS: the member functions of Reader in whose definition `is_` occurs, in source
   order: the stream is touched by check_eof, get_uint8/16/32/64, read and the constructor only,
   so every byte an operator>> consumes comes through one of the functions above (how each
   overload calls them is in READER_ROWS, Properties_C13_headers.v). *)
Theorem C13_reader_stream_only_through_checked_functions :
  READER_STREAM_USERS = [UCheckEof; UGet 8; UGet 16; UGet 32; UGet 64; URead; UCtor].
Proof. exact source_stream_users. Qed.
Print Assumptions C13_reader_stream_only_through_checked_functions.

(* a payload cut short, a type byte that differs, an empty stream; and what a read() that does not
   look at the stream state (no failbit, as with rdbuf()->sgetn) would be: not the rows above *)
Example C13_reader_checks_nonvacuous :
  run_read READER_CHECK_EOF READER_READ 3 (fresh [1; 2; 3; 4]) = OVal [1; 2; 3] (fresh [4]) /\
  run_read READER_CHECK_EOF READER_READ 5 (fresh [1; 2; 3; 4]) = OThrows /\
  run_read READER_CHECK_EOF READER_READ 0 (fresh []) = OVal [] (fresh []) /\
  run_check_type READER_CHECK_EOF READER_CHECK_TYPE 0xce (fresh [0xce; 7]) = OVal tt (fresh [7]) /\
  run_check_type READER_CHECK_EOF READER_CHECK_TYPE 0xce (fresh [0xcf; 7]) = OThrows /\
  run_check_type READER_CHECK_EOF READER_CHECK_TYPE 255 (fresh []) = OThrows /\
  run_get8 READER_CHECK_EOF (fresh []) = OThrows /\
  run_read KSkip READER_READ 5 (fresh [1; 2; 3; 4]) = OVal [1; 2; 3; 4] (mkIs [] true true) /\
  run_read READER_CHECK_EOF (kseq [KBad; KCheckEof]) 5 (fresh [1; 2; 3; 4]) = ONotUnderstood.
Proof. vm_compute. repeat split; reflexivity. Qed.
