(* C19, progress side -- answers the audit finding "Sem.norm runs a thread's local control with
   FUEL = 64 and returns NStuck when the fuel runs out; a stuck thread cannot step, so every
   safety theorem holds vacuously for it".
   Nothing but statements closed by `exact <lemma>` and Print Assumptions.

   WHAT IS PROVED
   * never stuck: in every reachable state (any number of threads, arbitrary client programs,
     any schedule of any length) of the program REGENERATED from spinlock.h on this run, and of
     the reviewed program, for both classes: no thread is in the stuck focus, every thread that
     has not finished its client program can perform its next access, and every [norm FUEL]
     call that access can lead to (one per value the access may read: [after], tied to the
     semantics by C19_step_runs_only_swept_local_control) returns a result other than NStuck;
     so do the [norm FUEL] calls that start a client operation.  Proof: a decision procedure
     [local_ok] sweeps the finite set [confs] of thread-local configurations (17 for
     RecursiveSpinlock, 5 for Spinlock) by vm_compute; C19_sweep_sound is its soundness for ANY
     program of Lang.v.  Bound: FUEL = 64 local steps are enough; the tight bounds are 11
     (RecursiveSpinlock) and 10 (Spinlock), see C19_fuel_needed.
   * sane: [sane m] (ovf = false) is lost only by the store half of ++lock_count_ executed by a
     thread that read 2^32 - 1, i.e. by the 2^32-th nested acquisition, which wraps
     lock_count_ to 0 (C19_sane_lost_only_by_wrapping_inc; the depth of that thread is then
     2^32 - 1 by C19_count_overflow_only_at_full_nesting).  From the initial state it is
     preserved along every history in which the stepping thread never holds the lock
     2^32 - 1 deep (C19_sane_preserved_below_full_nesting), in particular for all client
     programs with fewer than 2^32 - 1 lock()/try_lock() operations per thread
     (C19_sane_if_fewer_acquires_than_counter).
   * acquisition, multi-step (RecursiveSpinlock; for Spinlock the acquisition is the single
     test_and_set of C19_lock_acquires_when_free_spin): IF thread t is scheduled at its
     test_and_set while the flag is clear THEN its next four own steps complete the call with
     the lock held, for EVERY interleaving of these steps with steps of the other threads, and
     nobody else gets in meanwhile or afterwards (C19_lock_completes_under_interference_rspin).

   WHAT IS NOT PROVED, and is not true of a spinlock: that lock() ever returns.  There is no
   fairness assumption on the schedules (every schedule is a history), and a test-and-set lock
   is not starvation-free even under a weakly fair scheduler: a waiting thread may be scheduled
   only at moments when the flag is set.  All acquisition statements are therefore conditional
   on the scheduling assumption that t performs its test_and_set at a moment when the flag is
   clear; no liveness (termination of lock(), bounded waiting, lock-freedom of the clients) is
   claimed. *)
From Coq Require Import List NArith Bool.
From PV Require Import Spin.Lang Spin.Reviewed Spin.Sem Spin.RaceSem Spin.SpinProofs
  Spin.NeverStuck Spin.NeverStuckGen Gen.SpinGen.
Import ListNotations.
Local Open Scope N_scope.

(* ---------------------------------------------------------------- never stuck *)
Theorem C19_never_stuck_gen k cl m t x :
  reach SpinGen.prog k cl m -> tat m t = Some x ->
  foc x <> FStuck /\
  (foc x <> FDone -> exists m', mstep SpinGen.prog k t m = Some m') /\
  (forall rs, after FUEL (cls_of SpinGen.prog k) (foc x) (stk x) = Some rs -> Forall (fun r => r <> NStuck) rs) /\
  Forall (fun r => r <> NStuck) (starts FUEL (cls_of SpinGen.prog k)).
Proof. exact (gen_never_stuck k cl m t x). Qed.
Print Assumptions C19_never_stuck_gen.

Theorem C19_never_stuck_reviewed k cl m t x :
  reach reviewed_prog k cl m -> tat m t = Some x ->
  foc x <> FStuck /\
  (foc x <> FDone -> exists m', mstep reviewed_prog k t m = Some m') /\
  (forall rs, after FUEL (cls_of reviewed_prog k) (foc x) (stk x) = Some rs -> Forall (fun r => r <> NStuck) rs) /\
  Forall (fun r => r <> NStuck) (starts FUEL (cls_of reviewed_prog k)).
Proof. exact (reviewed_never_stuck k cl m t x). Qed.
Print Assumptions C19_never_stuck_reviewed.

(* the link between [after] and the semantics, for any class c: a step of a parked thread
   performs its access and then EITHER continues with one of the [norm FUEL] results listed by
   [after] ([settle] is what Sem.continue does with the result) OR parks between the two halves
   of ++/--lock_count_ *)
Theorem C19_step_runs_only_swept_local_control c t s ts s' ts' ev :
  tstep c t s ts = Some (s', ts', ev) ->
  (forall m k, continue c ts m k = settle c ts (norm FUEL c m k)) /\
  exists rs r, after FUEL c (foc ts) (stk ts) = Some rs /\ In r rs /\
    (ts' = settle c ts r \/ exists f', ts' = park ts f' /\ r = NRest (erase f') (stk ts)).
Proof. exact (fun H => conj (continue_settle c ts) (tstep_after c t s ts s' ts' ev H)). Qed.
Print Assumptions C19_step_runs_only_swept_local_control.

(* soundness of the sweep for ANY program p of Lang.v and either class *)
Theorem C19_sweep_sound p k cl m t x :
  local_ok FUEL (cls_of p k) = true -> reach p k cl m -> tat m t = Some x ->
  foc x <> FStuck /\
  (foc x <> FDone -> exists m', mstep p k t m = Some m') /\
  (forall rs, after FUEL (cls_of p k) (foc x) (stk x) = Some rs -> Forall (fun r => r <> NStuck) rs) /\
  Forall (fun r => r <> NStuck) (starts FUEL (cls_of p k)).
Proof. exact (local_ok_sound p k cl m t x). Qed.
Print Assumptions C19_sweep_sound.

Theorem C19_sweep_succeeds_gen k : local_ok FUEL (cls_of SpinGen.prog k) = true.
Proof. exact (gen_local_ok k). Qed.
Print Assumptions C19_sweep_succeeds_gen.

(* ---------------------------------------------------------------- sane *)
Theorem C19_sane_lost_only_by_wrapping_inc p k cl m t m' x :
  reach p k cl m -> mstep p k t m = Some m' -> sane m -> ~ sane m' -> tat m t = Some x ->
  exists is, foc x = FIncW (P32 - 1) is /\ count (shm m') = 0.
Proof. exact (sane_lost_only_by_wrapping_inc p k cl m t m' x). Qed.
Print Assumptions C19_sane_lost_only_by_wrapping_inc.

(* [reach_shallow cl m]: m is reached from the initial state by a history in which the thread
   that steps never holds the lock 2^32 - 1 deep *)
Theorem C19_sane_preserved_below_full_nesting cl m :
  reach_shallow cl m -> reach reviewed_prog KRSpin cl m /\ sane m.
Proof. exact (sane_preserved_below_full_nesting cl m). Qed.
Print Assumptions C19_sane_preserved_below_full_nesting.

(* any program, either class: the nesting depth of a thread (plus the acquire operations it has
   still to run) never exceeds the number of lock()/try_lock() operations of its client program *)
Theorem C19_depth_bounded_by_acquires p k cl m B :
  (forall ops, In ops cl -> acqs ops <= B) -> reach p k cl m ->
  forall t x, tat m t = Some x -> weight x <= B.
Proof. exact (depth_bounded_by_acquires p k cl m B). Qed.
Print Assumptions C19_depth_bounded_by_acquires.

Theorem C19_sane_if_fewer_acquires_than_counter cl m :
  (forall ops, In ops cl -> acqs ops < P32 - 1) ->
  reach reviewed_prog KRSpin cl m -> sane m /\ forall t x, tat m t = Some x -> depth x < P32 - 1.
Proof. exact (sane_if_fewer_acquires_than_counter cl m). Qed.
Print Assumptions C19_sane_if_fewer_acquires_than_counter.

(* ---------------------------------------------------------------- acquisition, multi-step *)
(* o1 .. o4: arbitrary schedules of threads other than t *)
Theorem C19_lock_completes_under_interference_rspin cl m t x o1 o2 o3 o4 :
  reach reviewed_prog KRSpin cl m -> sane m -> flag (shm m) = false ->
  tat m t = Some x -> foc x = FEx (ETas Acquire) ->
  ~ In t o1 -> ~ In t o2 -> ~ In t o3 -> ~ In t o4 ->
  let mf := run reviewed_prog KRSpin ((t :: o1) ++ (t :: o2) ++ (t :: o3) ++ (t :: o4)) m in
  exists x4, tat mf t = Some x4 /\ depth x4 = 1 /\ fresh x4 = true /\ rest x4 = List.tl (rest x) /\
             (cur x = Some CTry -> out x4 = true :: out x) /\
             flag (shm mf) = true /\ owner (shm mf) = Some t /\ count (shm mf) = 1 /\ sane mf /\
             (forall u y, u <> t -> tat mf u = Some y -> depth y = 0).
Proof. exact (rspin_lock_completes_under_interference cl m t x o1 o2 o3 o4). Qed.
Print Assumptions C19_lock_completes_under_interference_rspin.

(* ---------------------------------------------------------------- non-vacuity *)
(* the tight fuel bounds, and the size of the swept sets *)
Example C19_fuel_needed :
  local_ok 11 reviewed_rspin = true /\ local_ok 10 reviewed_rspin = false /\
  local_ok 10 reviewed_spin = true /\ local_ok 9 reviewed_spin = false /\
  length (confs FUEL reviewed_rspin) = 17%nat /\ length (confs FUEL reviewed_spin) = 5%nat.
Proof. vm_compute. repeat split; reflexivity. Qed.

(* the sweep is not blind: a lock() whose loop never reaches a shared access exhausts the fuel,
   the semantics parks the thread in the stuck focus, and the sweep says so *)
Definition local_livelock_prog : Lang.prog :=
  {| spin_cls := {| try_lock_body := try_lock_body reviewed_spin;
                    lock_body := [While (EConst true) []];
                    unlock_body := unlock_body reviewed_spin |};
     rspin_cls := reviewed_rspin |}.
Example C19_sweep_rejects_local_livelock :
  local_ok FUEL (cls_of local_livelock_prog KSpin) = false /\
  exists m x, reach local_livelock_prog KSpin [[CLock]] m /\ tat m 0%nat = Some x /\ foc x = FStuck.
Proof.
  split; [vm_compute; reflexivity|].
  eexists. eexists. split; [apply reach_init|]. split; vm_compute; reflexivity.
Qed.

(* one of the 17 swept configurations of RecursiveSpinlock: the owner check of a try_lock called from the loop of lock() *)
Example C19_swept_set_contains_owner_check_inside_lock :
  In (FEx (EOwnerNe Relaxed Self),
      [KIf [Ret (Some (EConst false))] []; KBlock []; KBlock [IncCount; Ret (Some (EConst true))];
       KCall; KNot; KWhile (ENot (ECall MTry)) []; KBlock []]) (confs FUEL reviewed_rspin).
Proof. vm_compute. tauto. Qed.

(* the hypotheses of the multi-step theorem are satisfiable, and its conclusion is what a run
   shows: thread 1 wins the flag after thread 0 released it; thread 0 (spinning in its second
   lock()) and thread 2 (try_lock, then a foreign unlock) interfere between all of thread 1's steps *)
Example C19_nonvacuous_interference :
  let cl := [[CLock; CUnlock; CLock]; [CLock; CAccess]; [CTry; CUnlock; CTry]] in
  let m := run reviewed_prog KRSpin [0;0;0;0; 0;0;0;0;0]%nat (minit reviewed_prog KRSpin cl) in
  reach reviewed_prog KRSpin cl m /\ sane m /\ flag (shm m) = false /\
  (exists x, tat m 1%nat = Some x /\ foc x = FEx (ETas Acquire)) /\
  let mf := run reviewed_prog KRSpin ((1 :: [0;2;0]) ++ (1 :: [2;2;0]) ++ (1 :: [0;0;2]) ++ (1 :: [2;0;0;2]))%nat m in
  map depth (thr (fst mf)) = [0; 1; 0] /\ owner (shm mf) = Some 1%nat /\ count (shm mf) = 1 /\
  map out (thr (fst mf)) = [[]; []; [false; false]].
Proof.
  cbv zeta. split; [apply reach_run; [apply reach_init | reflexivity]|].
  split; [reflexivity|]. split; [reflexivity|]. split; [eexists; split; reflexivity|].
  vm_compute. repeat split; reflexivity.
Qed.

(* a history that is NOT shallow does not exist below 2^32 - 1 acquisitions; a shallow one does *)
Example C19_nonvacuous_shallow :
  exists m, reach_shallow [[CLock; CLock; CTry; CAccess]] m /\
            (exists x, tat m 0%nat = Some x /\ depth x = 3 /\ weight x = 3) /\ count (shm m) = 3.
Proof.
  exists (run reviewed_prog KRSpin [0;0;0;0; 0;0;0;0; 0;0;0;0]%nat (minit reviewed_prog KRSpin [[CLock; CLock; CTry; CAccess]])).
  split.
  - apply reach_shallow_run; [apply rsh_init | vm_compute; reflexivity].
  - vm_compute. split; [eexists; split; [reflexivity|]; split; reflexivity | reflexivity].
Qed.
