(* C20 -- C API, clause "on success the effect and the returned data equal those of the
   corresponding C++ call for all argument values (including 0 and other boundary values)":
   the part of it that is decidable on the wrapper's text.  Nothing but statements closed by
   `exact <lemma>` and Print Assumptions.
   `fwd_table` (Gen/CApiFwd.v) is REGENERATED from /repo/primitiv/c/**/*.cc on every run by
   translate/gen_capi_fwd.py: per wrapper the parameter list, the C++ callees, and the ordered
   entries saying in which order and form the wrapper's own parameters reach the C++ side.
   `fwd_exceptions` and `reviewed_convs` are the REVIEWED lists of CApi/Forwarding.v.
   What the C++ callee then does with the arguments is the oracle of Properties_C20.v; equality of
   the results is tied dynamically (C++ twin comparisons of harness/capi_drv.cc). *)
From Coq Require Import List String Ascii Bool Arith.
From PV Require Import CApi.Wrapper Gen.CApiTable CApi.Forwarding Gen.CApiFwd CApi.ForwardingProofs.
Import ListNotations.
Local Open Scope list_scope.

(* every wrapper was read by the translator and, unless it is one of the reviewed exceptions
   (then its entries are exactly the reviewed ones), hands each parameter that is not an
   out-parameter to the C++ side exactly once and in declaration order (`forwarded r = in_params r`),
   hands on nothing else (no literal, no defaulted argument), only in the regular forms, and every
   std::vector is built from an adjacent (p, p + n) pair *)
Theorem C20_wrappers_forward_in_order r : In r fwd_table ->
  f_parsed r = true /\
  match reviewed_exception (f_name r) with
  | Some (es, _) => f_entries r = es
  | None =>
      forwarded r = in_params r /\
      (forall e, In e (f_entries r) -> exists i f c, e = FwParam i f c /\ regular_form f = true) /\
      vec_pairs_ok (f_entries r) = true
  end.
Proof. exact (wrappers_forward_in_order r). Qed.
Print Assumptions C20_wrappers_forward_in_order.

(* every conversion applied to a parameter on its way (implicit casts clang inserted, explicit
   conversion expressions, the cast behind a local alias) is in the reviewed set; in particular a
   PRIMITIV_C_BOOL is never compared with PRIMITIV_C_TRUE (c/define.h: any non-zero value is true) *)
Theorem C20_wrapper_conversions_reviewed r : In r fwd_table ->
  f_parsed r = true /\ forall i f c, In (FwParam i f c) (f_entries r) -> In c reviewed_convs.
Proof. exact (wrapper_conversions_reviewed r). Qed.
Print Assumptions C20_wrapper_conversions_reviewed.

Theorem C20_bool_never_compared_with_true : ~ In "($ == 1)"%string reviewed_convs.
Proof. exact bool_never_compared_with_true. Qed.
Print Assumptions C20_bool_never_compared_with_true.

(* the forwarding table and the C API table of Properties_C20.v (two independent passes over the
   same definitions) list the same wrappers in the same order, with the same parameter names, and
   agree on which parameters are written through *)
Theorem C20_forwarding_table_complete :
  map w_name table = map f_name fwd_table /\
  forall w r, In (w, r) (combine table fwd_table) ->
    w_name w = f_name r /\
    map p_name (w_params w) = map fst (f_params r) /\
    wrapper_written w = written_params r.
Proof. exact forwarding_table_complete. Qed.
Print Assumptions C20_forwarding_table_complete.

Theorem C20_forwarding_rows_both_ways :
  (forall w, In w table -> exists r, In r fwd_table /\ f_name r = w_name w) /\
  (forall r, In r fwd_table -> exists w, In w table /\ w_name w = f_name r).
Proof. exact forwarding_rows_both_ways. Qed.
Print Assumptions C20_forwarding_rows_both_ways.

(* the Node and the Tensor form of a function of c/functions.cc call the same C++ function
   (`<f>_node` / `<f>_tensor` normalised to `<f>`): a change of the callee on one side only is rejected *)
Theorem C20_node_tensor_twins_call_same r : In r fwd_table ->
  forall tn, tensor_twin_name (f_name r) = Some tn ->
  exists r', In r' fwd_table /\ f_name r' = tn /\
             map norm_callee (f_callees r) = map norm_callee (f_callees r').
Proof. exact (node_tensor_twins_call_same r). Qed.
Print Assumptions C20_node_tensor_twins_call_same.

Example C20_node_tensor_twins_nonvacuous :
  tensor_twin_name "primitivApplyNodeMaxPool2d" = Some "primitivApplyTensorMaxPool2d"%string /\
  tensor_twin_name "primitivApplyNodeSumNodes" = Some "primitivApplyTensorSumTensors"%string /\
  tensor_twin_name "primitivLoadModel" = None /\
  norm_callee "uniform_node" = "uniform"%string /\ norm_callee "uniform_tensor" = "uniform"%string /\
  List.length (filter (fun r => match tensor_twin_name (f_name r) with Some _ => true | None => false end) fwd_table) >= 70.
Proof. exact twins_nonvacuous. Qed.
Print Assumptions C20_node_tensor_twins_nonvacuous.

(* no reviewed exception outlives the wrapper it was written for *)
Theorem C20_forwarding_exceptions_are_wrappers n :
  In n (map fst fwd_exceptions) -> In n (map f_name fwd_table).
Proof. exact (forwarding_exceptions_are_wrappers n). Qed.
Print Assumptions C20_forwarding_exceptions_are_wrappers.

(* non-vacuity: the table is not empty, two concrete rows are as the source says, and the checker
   behind the theorems rejects a row with two scalars swapped (seeded change C20c), a row with a
   parameter replaced by a literal, an unparsed row, and `with_stats == PRIMITIV_C_TRUE` (C20f) *)
Example C20_forwarding_nonvacuous :
  List.length fwd_table >= 200 /\
  In fw_primitivApplyTensorMaxPool2d fwd_table /\
  f_entries fw_primitivApplyTensorMaxPool2d =
    [FwParam 0 FDeref ""; FwParam 1 FPlain ""; FwParam 2 FPlain ""; FwParam 3 FPlain "";
     FwParam 4 FPlain ""; FwParam 5 FPlain ""; FwParam 6 FPlain ""; FwParam 7 FOut ""] /\
  forwarded fw_primitivApplyTensorMaxPool2d = [0; 1; 2; 3; 4; 5; 6] /\
  In fw_primitivLoadModel fwd_table /\
  f_entries fw_primitivLoadModel =
    [FwParam 0 FRecv ""; FwParam 1 FString ""; FwParam 2 FPlain "implicit:IntegralToBoolean"; FwParam 3 FPtr ""] /\
  row_in_order swapped_maxpool_row = false /\
  row_in_order dropped_param_row = false /\
  row_in_order unparsed_row = false /\ row_convs_ok unparsed_row = false /\
  row_in_order bool_compared_row = true /\ row_convs_ok bool_compared_row = false /\
  ~ In "($ == 1)"%string reviewed_convs.
Proof. exact forwarding_nonvacuous. Qed.
Print Assumptions C20_forwarding_nonvacuous.
