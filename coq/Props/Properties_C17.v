(* C17 -- Random sources and initializers honour their contracts, reproducibly.
   Nothing but statements closed by `exact <lemma>` and Print Assumptions.

   Model: Random/RandModel.v.  binary32 values enter comparisons as ordinals (`FOrd z`, the
   sign-magnitude reading of the bit pattern, order-isomorphic to the float order; `FNaN`
   compares false with everything).  std::mt19937 and the libstdc++ distributions are an ORACLE
   (`oracle G`); what is assumed of it is the premise `oracle_ok` (lengths, and
   uniform_real_distribution(a, b) in the CLOSED interval [a, b], which the documented [a, b)
   implies).

   PARTIAL: that the oracle's draws follow the Bernoulli / uniform / normal / log-normal laws
   ("with the requested probability", "follow their distributions", "keeps each element with
   probability 1 - rate") cannot be stated about this model; those parts are tested
   statistically by engines/c17.py and are NOT proved.  Theorems whose property sentence has
   such a part carry the suffix _partial and the full sentence as a comment. *)
From Coq Require Import List ZArith NArith Bool Lia Reals Lra.
From PV Require Import Base.U32 Base.Scalar Shape.ShapeImpl Shape.ShapeSpec Random.RandModel
  Random.RandProofs.
Import ListNotations.

(* ---- the ordinal reading of binary32 is faithful: the order of ordinals is the order of the
   represented real numbers (val149 z = value * 2^149), with 0, 1.0f, the smallest denormal,
   FLT_MAX and (float).9999999 where they belong *)
Theorem C17_ordinal_order a b :
  ((a < b <-> val149 a < val149 b) /\ (a <= b <-> val149 a <= val149 b) /\ (a = b <-> val149 a = val149 b))%Z.
Proof. exact (ordinal_order a b). Qed.
Print Assumptions C17_ordinal_order.

Theorem C17_val149_landmarks :
  (val149 0 = 0 /\ val149 ONE_ORD = 2 ^ 149 /\ val149 1 = 1 /\
   val149 (INF_ORD - 1) = 2 ^ 277 - 2 ^ 253 /\ val149 GUMBEL_UP_ORD = 2 ^ 149 - 2 ^ 126)%Z.
Proof. exact val149_landmarks. Qed.
Print Assumptions C17_val149_landmarks.

(* ---- invalid parameters (p outside [0,1], upper < lower, sd <= 0) are rejected -------------
   The front ends accept EXACTLY: a non-NaN p with 0 <= p <= 1; non-NaN bounds lower <= upper whose
   binary32 difference upper - lower is finite (hence finite bounds); a non-NaN sd > 0.
   (device.cc after commits f9e31df / 922e9fd: `!(p >= 0 && p <= 1)`,
   `!(lower <= upper) || !std::isfinite(upper - lower)`, `!(sd > 0)`.) *)
Theorem C17_validation_spec :
  (forall p, bernoulli_rejects p = false <-> exists z, p = FOrd z /\ (0 <= z <= ONE_ORD)%Z) /\
  (forall lo up, uniform_rejects lo up = false <->
     exists a b, lo = FOrd a /\ up = FOrd b /\ (a <= b)%Z /\ span_finite (FOrd a) (FOrd b) = true) /\
  (forall sd, normal_rejects sd = false <-> exists z, sd = FOrd z /\ (0 < z)%Z).
Proof. exact validation_spec. Qed.
Print Assumptions C17_validation_spec.

(* in particular NaN parameters are rejected ... *)
Theorem C17_nan_rejected :
  bernoulli_rejects FNaN = true /\
  (forall x, uniform_rejects FNaN x = true /\ uniform_rejects x FNaN = true) /\
  normal_rejects FNaN = true.
Proof. exact nan_rejected. Qed.
Print Assumptions C17_nan_rejected.

(* ... and so are infinite bounds and finite bounds whose difference overflows binary32:
   (-3e38f, 3e38f) and (-FLT_MAX, FLT_MAX) are rejected, (-(2^127 - 2^103), 2^127 - 2^103) is accepted *)
Theorem C17_nonfinite_span_rejected :
  (forall x, uniform_rejects (FOrd (- INF_ORD)) x = true /\ uniform_rejects x (FOrd INF_ORD) = true) /\
  uniform_rejects (FOrd (-2137108966)) (FOrd 2137108966) = true /\
  uniform_rejects (FOrd (-2139095039)) (FOrd 2139095039) = true /\
  uniform_rejects (FOrd (-2130706431)) (FOrd 2130706431) = false.
Proof. exact nonfinite_span_rejected. Qed.
Print Assumptions C17_nonfinite_span_rejected.

(* A request is rejected exactly when its validation fails, and a rejected request draws nothing. *)
Theorem C17_rejected_draws_nothing {G} (O : oracle G) g r :
  (fst (step O g r) = Rejected <-> request_rejected r = true) /\
  (request_rejected r = true -> snd (step O g r) = g).
Proof. exact (step_rejected O g r). Qed.
Print Assumptions C17_rejected_draws_nothing.

(* ---- uniform yields values in (lower, upper] ------------------------------------------------
   Every element lies in (lower, upper] (equals upper when lower = upper); a draw other than
   lower is delivered unchanged, lower itself is replaced by upper. *)
Theorem C17_uniform_fixup_range {G} (O : oracle G) (HO : oracle_ok O) g lo up n ys g' :
  step O g (RUnif (FOrd lo) (FOrd up) n) = (Values ys, g') ->
  ((lo <= up)%Z /\ (Z.abs lo < INF_ORD)%Z /\ (Z.abs up < INF_ORD)%Z) /\ length ys = N.to_nat n /\
  Forall (fun y => exists z, y = FOrd z /\
                   ((lo < up)%Z -> (lo < z <= up)%Z) /\ (lo = up -> z = up)) ys /\
  Forall2 (fun x y => x = y \/ (x = FOrd lo /\ y = FOrd up))
          (fst (o_unif O (FOrd lo) (FOrd up) n g)) ys.
Proof. exact (uniform_fixup_range O HO g lo up n ys g'). Qed.
Print Assumptions C17_uniform_fixup_range.

(* the documented half-open contract of std::uniform_real_distribution suffices *)
Theorem C17_halfopen_suffices {G} (O : oracle G) : unif_halfopen O -> unif_closed O.
Proof. exact (halfopen_closed O). Qed.
Print Assumptions C17_halfopen_suffices.

(* ---- bernoulli yields only 0/1 [with the requested probability: NOT proved, tested] -------- *)
Theorem C17_bernoulli_zero_one_partial {G} (O : oracle G) (HO : oracle_ok O) g p n ys g' :
  step O g (RBern p n) = (Values ys, g') ->
  bernoulli_rejects p = false /\ length ys = N.to_nat n /\
  Forall (fun y => y = fzero \/ y = fone) ys /\
  ys = map of_bool (fst (o_bern O p n g)).
Proof. exact (bernoulli_zero_one O HO g p n ys g'). Qed.
Print Assumptions C17_bernoulli_zero_one_partial.

(* ---- normal / log_normal [follow their distributions: NOT proved, tested]: the values are the
   draws of std::normal_distribution(mean, sd) / std::lognormal_distribution(mean, sd), unchanged *)
Theorem C17_normal_passthrough_partial {G} (O : oracle G) (HO : oracle_ok O) g m sd n ys g' :
  (step O g (RNorm m sd n) = (Values ys, g') ->
     normal_rejects sd = false /\ length ys = N.to_nat n /\ (ys, g') = o_norm O m sd n g) /\
  (step O g (RLogNorm m sd n) = (Values ys, g') ->
     normal_rejects sd = false /\ length ys = N.to_nat n /\ (ys, g') = o_lognorm O m sd n g).
Proof. exact (normal_passthrough O HO g m sd n ys g'). Qed.
Print Assumptions C17_normal_passthrough_partial.

(* log_normal strictly positive: over the reals (binary32 under/overflow of expf is observed at
   run time by the check, see the evidence) *)
Theorem C17_lognormal_positive (m s z : R) : (0 < exp (m + s * z))%R.
Proof. exact (lognormal_positive m s z). Qed.
Print Assumptions C17_lognormal_positive.

(* ---- gumbel: the uniform request it makes is always accepted and delivers values strictly
   between 0 and 1, and the formula is inverse-transform sampling of Gumbel(mu, beta):
   F(x) = exp(-exp(-(x - mu)/beta)) maps the value computed from u back to u. *)
Theorem C17_gumbel_uniform_range {T} (O : ops T) (C : conv T) {G} (Og : oracle G)
        (HO : oracle_ok Og) mu beta n g :
  exists us g', step Og g (RUnif fzero (FOrd GUMBEL_UP_ORD) n) = (Values us, g') /\
    length us = N.to_nat n /\
    Forall (fun u => exists z, u = FOrd z /\ (0 < z < ONE_ORD)%Z) us /\
    gumbel O C Og mu beta n g = (Some (map (fun u => gumbel_elem O mu beta (offp C u)) us), g').
Proof. exact (gumbel_uniform_range O C Og HO mu beta n g). Qed.
Print Assumptions C17_gumbel_uniform_range.

Theorem C17_gumbel_inverse_cdf_partial (mu beta u : R) : (0 < u < 1)%R -> beta <> 0%R ->
  gumbel_elem Rops mu beta u = (mu - beta * ln (- ln u))%R /\
  exp (- exp (- ((gumbel_elem Rops mu beta u - mu) / beta))) = u.
Proof. exact (gumbel_inverse_cdf mu beta u). Qed.
Print Assumptions C17_gumbel_inverse_cdf_partial.

(* ---- dropout: identity when disabled; 0 * x at rate 1 (no draw); otherwise each element is 0
   or x * (1/(1-rate)), decided by one bernoulli(1 - rate) request [that the keep probability
   is 1 - rate: NOT proved, tested].  The two laws asked of the scalar multiplication hold in
   every ring; in binary32 x*1 = x holds exactly and x*0 = 0 holds for finite x (it is -0 for
   negative x and NaN for infinite x, as the correspondence run shows). *)
Theorem C17_dropout_disabled {T} (O : ops T) (C : conv T) {G} (Og : oracle G) rate xs g :
  dropout O C Og rate false xs g = (Some xs, g).
Proof. exact (dropout_disabled O C Og rate xs g). Qed.
Print Assumptions C17_dropout_disabled.

Theorem C17_dropout_rate_one {T} (O : ops T) (C : conv T) {G} (Og : oracle G) rate xs g :
  seqb O rate (sone O) = true ->
  dropout O C Og rate true xs g = (Some (map (fun x => smul O (szero O) x) xs), g).
Proof. exact (dropout_rate_one O C Og rate xs g). Qed.
Print Assumptions C17_dropout_rate_one.

Theorem C17_dropout_spec_partial {T} (O : ops T) (C : conv T) {G} (Og : oracle G)
        (HO : oracle_ok Og)
        (mul_0_r : forall x, smul O x (szero O) = szero O)
        (mul_1_r : forall x, smul O x (sone O) = x) rate xs g :
  seqb O rate (sone O) = false ->
  let p := ssub O (sone O) rate in
  (bernoulli_rejects (tofp C p) = true -> dropout O C Og rate true xs g = (None, g)) /\
  (bernoulli_rejects (tofp C p) = false ->
   exists ys g', dropout O C Og rate true xs g = (Some ys, g') /\
     g' = snd (o_bern Og (tofp C p) (N.of_nat (length xs)) g) /\
     Forall2 (fun x y => y = szero O \/ y = smul O (sdiv O (sone O) p) x) xs ys).
Proof. exact (dropout_spec O C Og HO mul_0_r mul_1_r rate xs g). Qed.
Print Assumptions C17_dropout_spec_partial.

Theorem C17_dropout_elem_R (rate x : R) : rate <> 1%R ->
  dropout_elem Rops rate x 1%R = (x / (1 - rate))%R /\ dropout_elem Rops rate x 0%R = 0%R.
Proof. exact (dropout_elem_R rate x). Qed.
Print Assumptions C17_dropout_elem_R.

(* ---- initializers produce what they name ---------------------------------------------------- *)
Theorem C17_plain_initializers {T} (O : ops T) (C : conv T) s k lo up m sd :
  apply_init O C (IConstant k) s = Some (QReset k) /\
  apply_init O C (IUniform lo up) s = Some (QUniform s lo up) /\
  apply_init O C (INormal m sd) s = Some (QNormal s m sd).
Proof. exact (plain_initializers O C s k lo up m sd). Qed.
Print Assumptions C17_plain_initializers.

(* Identity only for square matrices (and then the identity of that size, which the device accepts) *)
Theorem C17_identity_requires_square {T} (O : ops T) (C : conv T) s :
  (forall q, apply_init O C IIdentity s = Some q ->
             is_matrix s = true /\ get s 0 = get s 1 /\ q = QIdentity (get s 0)) /\
  (apply_init O C IIdentity s = None <-> (is_matrix s = false \/ get s 0 <> get s 1)).
Proof. exact (identity_requires_square O C s). Qed.
Print Assumptions C17_identity_requires_square.

Theorem C17_identity_accepted {T} (C : conv T) s : wf s -> is_matrix s = true -> get s 0 = get s 1 ->
  devreq_rejected C (QIdentity (get s 0)) = false.
Proof. exact (identity_accepted C s). Qed.
Print Assumptions C17_identity_accepted.

(* Xavier: bound = scale*sqrt(6/(fan_in+fan_out)), sd = scale*sqrt(2/(fan_in+fan_out)), the sum
   formed WITHOUT wrap-around (unbounded N; the code computes it in double, exact below 2^53, and
   the sums of admissible shapes are below 2^33: C17_conv2d_fans / C17_matrix_fans), for EVERY
   matrix shape resp. every shape of depth <= 4.  `ratio_exact` reads the double computation
   narrowed once as exact arithmetic. *)
Theorem C17_xavier_uniform_formula {T} (O : ops T) (C : conv T)
  (ratio_exact : forall scale c n, scaled_sqrt_ratio C scale c n =
                   smul O scale (ssqrt O (sdiv O (sof_N O c) (sof_N O n)))) scale s :
  (is_matrix s = false -> apply_init O C (IXavierUniform scale) s = None) /\
  (is_matrix s = true ->
   let bound := xavier_param O scale 6 (get s 0) (get s 1) in
   apply_init O C (IXavierUniform scale) s = Some (QUniform s (sneg O bound) bound)).
Proof. exact (xavier_uniform_formula O C ratio_exact scale s). Qed.
Print Assumptions C17_xavier_uniform_formula.

Theorem C17_xavier_normal_formula {T} (O : ops T) (C : conv T)
  (ratio_exact : forall scale c n, scaled_sqrt_ratio C scale c n =
                   smul O scale (ssqrt O (sdiv O (sof_N O c) (sof_N O n)))) scale s :
  (is_matrix s = false -> apply_init O C (IXavierNormal scale) s = None) /\
  (is_matrix s = true ->
   apply_init O C (IXavierNormal scale) s =
   Some (QNormal s (szero O) (xavier_param O scale 2 (get s 0) (get s 1)))).
Proof. exact (xavier_normal_formula O C ratio_exact scale s). Qed.
Print Assumptions C17_xavier_normal_formula.

(* the Conv2D fan definition: fan_in = s0*s1*s2, fan_out = s0*s1*s3; for a well-formed shape no
   partial product exceeds the volume (< 2^32) and the sum is positive and below 2^33, so the
   double arithmetic of the code is exact and the divisor is not zero *)
Theorem C17_conv2d_fans s : wf s -> (depth s <= 4)%N ->
  conv_fan_in s = (get s 0 * get s 1 * get s 2)%N /\
  conv_fan_out s = (get s 0 * get s 1 * get s 3)%N /\
  conv_fan_sum s = (get s 0 * get s 1 * get s 2 + get s 0 * get s 1 * get s 3)%N /\
  (get s 0 * get s 1 <= volume s)%N /\ (conv_fan_in s <= volume s)%N /\ (conv_fan_out s <= volume s)%N /\
  (0 < conv_fan_sum s < 2 * P32)%N.
Proof. exact (conv2d_fans s). Qed.
Print Assumptions C17_conv2d_fans.

Theorem C17_matrix_fans s : wf s -> is_matrix s = true ->
  fan_sum_2d s = (get s 0 + get s 1)%N /\ (0 < fan_sum_2d s < 2 * P32)%N.
Proof. exact (matrix_fans s). Qed.
Print Assumptions C17_matrix_fans.

Theorem C17_xavier_conv2d_formula {T} (O : ops T) (C : conv T)
  (ratio_exact : forall scale c n, scaled_sqrt_ratio C scale c n =
                   smul O scale (ssqrt O (sdiv O (sof_N O c) (sof_N O n)))) scale s :
  let fan_in := (get s 0 * get s 1 * get s 2)%N in
  let fan_out := (get s 0 * get s 1 * get s 3)%N in
  ((4 < depth s)%N -> apply_init O C (IXavierUniformConv2D scale) s = None /\
                      apply_init O C (IXavierNormalConv2D scale) s = None) /\
  ((depth s <= 4)%N ->
   let bound := xavier_param O scale 6 fan_in fan_out in
   apply_init O C (IXavierUniformConv2D scale) s = Some (QUniform s (sneg O bound) bound) /\
   apply_init O C (IXavierNormalConv2D scale) s =
   Some (QNormal s (szero O) (xavier_param O scale 2 fan_in fan_out))).
Proof. exact (xavier_conv2d_formula O C ratio_exact scale s). Qed.
Print Assumptions C17_xavier_conv2d_formula.

(* over the reals the parameter is the property's formula *)
Theorem C17_xavier_param_R scale c fi fo :
  xavier_param Rops scale c fi fo =
  (scale * sqrt (IZR (Z.of_N c) / (IZR (Z.of_N fi) + IZR (Z.of_N fo))))%R.
Proof. exact (xavier_param_R scale c fi fo). Qed.
Print Assumptions C17_xavier_param_R.

(* The form the code had before commit 50d7193 (sums in uint32) is REFUTED: for the admissible
   shapes {65536,32768} and {2^32-1} the uint32 sum is 0 while the true sum is 2^32 (the
   parameter became scale*sqrt(c/0) = inf).  Kept as evidence that the no-wrap statements above
   are not vacuous. *)
Theorem C17_uint32_fan_sum_refuted :
  (exists s, mk_shape [65536; 32768]%N 1 = Some s /\ wf s /\ (depth s <= 4)%N /\
             uint32_conv_fan_sum s = 0%N /\ conv_fan_sum s = 4294967296%N) /\
  (exists s, mk_shape [4294967295; 1]%N 1 = Some s /\ wf s /\ is_matrix s = true /\
             uint32_fan_sum_2d s = 0%N /\ fan_sum_2d s = 4294967296%N).
Proof. exact uint32_fan_sum_refuted. Qed.
Print Assumptions C17_uint32_fan_sum_refuted.

(* ---- a device constructed with a seed reproduces the same values for the same sequence of
   requests: what a device delivers is a function of its seed and of ITS OWN request sequence;
   requests served by other devices in between, and the run in which it happens, do not matter. *)
Theorem C17_seeded_replay {G} (O : oracle G) (seed_state : N -> G) seed
        (w1 w2 : world G) sch1 sch2 d1 d2 :
  w1 d1 = seed_state seed -> w2 d2 = seed_state seed ->
  on_device d1 sch1 = on_device d2 sch2 ->
  on_device d1 (fst (wrun O w1 sch1)) = on_device d2 (fst (wrun O w2 sch2)) /\
  snd (wrun O w1 sch1) d1 = snd (wrun O w2 sch2) d2 /\
  on_device d1 (fst (wrun O w1 sch1)) = fst (run O (seed_state seed) (on_device d1 sch1)).
Proof. exact (seeded_replay O seed_state seed w1 w2 sch1 sch2 d1 d2). Qed.
Print Assumptions C17_seeded_replay.

(* rejected requests are transparent for the stream *)
Theorem C17_rejected_transparent {G} (O : oracle G) rs g :
  filter (fun y => match y with Rejected => false | _ => true end) (fst (run O g rs)) =
  fst (run O g (filter (fun r => negb (request_rejected r)) rs)) /\
  snd (run O g rs) = snd (run O g (filter (fun r => negb (request_rejected r)) rs)).
Proof. exact (rejected_transparent O rs g). Qed.
Print Assumptions C17_rejected_transparent.

(* ---- non-vacuity --------------------------------------------------------------------------- *)
(* an oracle meeting the contract exists; a run with a bernoulli request, a rejected uniform
   request (upper < lower: no draw, the counter stays at 3) and a uniform request whose first
   draw equals lower (replaced by upper) *)
Example C17_nonvacuous_stream :
  oracle_ok ex_oracle /\
  run ex_oracle 0%N [RBern (FOrd 1056964608) 3; RUnif (FOrd 7) (FOrd 5) 2; RUnif (FOrd 5) (FOrd 7) 4] =
  ([Values [fone; fzero; fone]; Rejected; Values [FOrd 7; FOrd 6; FOrd 7; FOrd 7]], 7%N).
Proof. split; [exact ex_oracle_ok|vm_compute; reflexivity]. Qed.

(* two devices with the same seed inside one interleaved schedule *)
Example C17_nonvacuous_replay :
  let sch := [(0%nat, RUnif (FOrd 5) (FOrd 7) 2); (1%nat, RUnif (FOrd 5) (FOrd 7) 2);
              (0%nat, RBern fone 1); (2%nat, RNorm fzero fone 3); (1%nat, RBern fone 1)] in
  on_device 0 (fst (wrun ex_oracle (fun _ => 0%N) sch)) = [Values [FOrd 7; FOrd 6]; Values [fone]] /\
  on_device 0 sch = on_device 1 sch.
Proof. vm_compute. split; reflexivity. Qed.

(* the hypotheses of the dropout theorem are satisfiable (reals; the validation sees 0.5) *)
Example C17_nonvacuous_dropout :
  oracle_ok ex_oracle /\
  (forall x : R, smul Rops x (szero Rops) = szero Rops) /\
  (forall x : R, smul Rops x (sone Rops) = x) /\
  seqb Rops (1 / 2)%R (sone Rops) = false /\
  bernoulli_rejects (tofp Rconv_half (ssub Rops (sone Rops) (1 / 2)%R)) = false.
Proof.
  split; [exact ex_oracle_ok|]. split; [intro x; apply Rmult_0_r|]. split; [intro x; apply Rmult_1_r|].
  split; [|reflexivity]. cbn [seqb sone Rops]. destruct (Req_EM_T (1 / 2) 1) as [E|_]; [|reflexivity].
  exfalso. lra.
Qed.

(* well-formed shapes meeting the Xavier hypotheses, with their fans *)
Example C17_nonvacuous_fans :
  (exists s, mk_shape [3; 3; 2; 5]%N 1 = Some s /\ depth s = 4%N /\
             conv_fan_in s = 18%N /\ conv_fan_out s = 45%N /\ conv_fan_sum s = 63%N) /\
  (exists s, mk_shape [3; 4]%N 1 = Some s /\ is_matrix s = true /\ fan_sum_2d s = 7%N) /\
  (exists s, mk_shape [4; 4]%N 2 = Some s /\ is_matrix s = true /\ get s 0 = get s 1) /\
  (forall scale c n, scaled_sqrt_ratio Rconv scale c n =
     smul Rops scale (ssqrt Rops (sdiv Rops (sof_N Rops c) (sof_N Rops n)))).
Proof.
  split; [|split; [|split]].
  - exists (mkS [3; 3; 2; 5]%N 1%N 90%N). vm_compute. repeat split; reflexivity.
  - exists (mkS [3; 4]%N 1%N 12%N). vm_compute. repeat split; reflexivity.
  - exists (mkS [4; 4]%N 2%N 16%N). vm_compute. repeat split; reflexivity.
  - exact Rconv_ratio_exact.
Qed.
