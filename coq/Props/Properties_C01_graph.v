(* C01 -- graph level: calling backward() on a node y adds to each Parameter's gradient exactly
   the derivative of the sum of all elements of y.
   Nothing but statements closed by `exact <lemma>`, Print Assumptions, and non-vacuity Examples.

   "Derivative" is stated in adjoint form over an ARBITRARY commutative ring (ring_theory):
   [tan] assigns to every node its tangent in the parameter direction [dp] (a Parameter
   node's tangent is dp p, any other node's tangent is its operator's JVP applied to the
   tangents of its arguments: `consistent`); then
       sum_p <gradient_after p, dp p>  =  sum_p <gradient_before p, dp p>  +  <ones, tan y>
   for EVERY dp, i.e. the gradient ADDED to p is d(sum y)/dp.  Holds for every well-formed tape
   (arguments refer to earlier operators): fan-out, shared parameters (several Parameter
   operators of one parameter), the same node in several argument positions, multi-output
   operators with unused outputs (their missing gradients are zeros), parameters as targets.

   Two layers:
   * C01_graph_reverse_sweep_adjoint / C01_graph_backward_adjoint: any operator family, under
     the per-operator hypothesis LocalAdjoint (Graph/OpFamily.v) - made explicit here.
   * C01_graph_backward_is_adjoint_concrete (+ _call_): the CONCRETE family core_family of
     Tensor/GraphInst.v, whose forward / backward are the index programs of the Naive kernels
     (Tensor/Kernels.v, tied to /repo by the tensor engine); LocalAdjoint is no longer a
     hypothesis: C01_graph_core_local_adjoint proves it for every operator of the family from
     the kernel theorems (backward index program = transpose of the forward one, batch folding,
     product rule).  Operators covered: see the header of Tensor/GraphInst.v. *)
From Coq Require Import List NArith ZArith Bool Arith Ring.
From PV Require Import Graph.OpFamily Graph.Tape Graph.Lazy Graph.Backward Graph.TapeLemmas Graph.LazyProofs
  Graph.BackwardProofs Graph.ADProof Graph.Example Graph.ADExample
  Tensor.Kernels Tensor.AdjCore Tensor.GraphInst Tensor.GraphInstEx.
Import ListNotations.

(* the reverse sweep started at node n with the seed ones(shape n) *)
Theorem C01_graph_reverse_sweep_adjoint
  (R : Type) (rO rI : R) (radd rmul rsub : R -> R -> R) (ropp : R -> R)
  (Rth : ring_theory rO rI radd rmul rsub ropp eq)
  (Op Sh : Type) (F : OpFamily Op Sh (@OpFamily.vec R)) (jvp : JvpFamily (R := R) Op) (size : Sh -> nat)
  (tan : nat * nat -> @OpFamily.vec R) (dp : nat -> @OpFamily.vec R)
  (ops0 : list (@opinfo Op Sh (@OpFamily.vec R))) (e0 : @env (@OpFamily.vec R)) (ps : list nat)
  (Hwf : wf_ops ops0)
  (HLA : forall k oi, nth_error ops0 k = Some oi -> f_inner F (o_op oi) = None ->
           LocalAdjoint rO radd rmul F jvp size (o_op oi))
  (Hshape : shape_ok F ops0)
  (Hcons : consistent F jvp tan dp ops0 e0)
  (Hsized : rsized F size tan ops0 e0)
  (Hnodup : NoDup ps)
  (Hcover : forall k oi p, nth_error ops0 k = Some oi -> f_inner F (o_op oi) = Some p -> In p ps)
  (n : nat * nat) (sn : @slot Sh (@OpFamily.vec R)) (bl : list nat)
  (ops' : list (@opinfo Op Sh (@OpFamily.vec R))) (e' : @env (@OpFamily.vec R)) (bl' : list nat)
  (Hclean : gclean ops0)
  (Hpsized : psz F size ops0 e0)
  (Hn : get_slot_ops ops0 n = Some sn)
  (Hsweep : sweep F (vec_ops rO rI radd size) (fst n)
              (upd_ops ops0 n (fun s => set_grad s (Some (vones (vec_ops rO rI radd size) (s_shape s)))))
              e0 bl = Some (ops', e', bl')) :
  ppot rO radd rmul dp ps e' =
    radd (ppot rO radd rmul dp ps e0)
         (OpFamily.dot rO radd rmul (vones (vec_ops rO rI radd size) (s_shape sn)) (tan n)) /\
  gclean ops' /\ e_pval e' = e_pval e0.
Proof.
  exact (reverse_sweep_adjoint rO rI radd rmul rsub ropp Rth F jvp size tan dp ops0 e0 ps
           Hwf HLA Hshape Hcons Hsized Hnodup Hcover n sn bl ops' e' bl' Hclean Hpsized Hn Hsweep).
Qed.
Print Assumptions C01_graph_reverse_sweep_adjoint.

(* Graph::backward itself, on a graph whose target is evaluated *)
Theorem C01_graph_backward_adjoint
  (R : Type) (rO rI : R) (radd rmul rsub : R -> R -> R) (ropp : R -> R)
  (Rth : ring_theory rO rI radd rmul rsub ropp eq)
  (Op Sh : Type) (F : OpFamily Op Sh (@OpFamily.vec R)) (jvp : JvpFamily (R := R) Op) (size : Sh -> nat)
  (tan : nat * nat -> @OpFamily.vec R) (dp : nat -> @OpFamily.vec R)
  (ops0 : list (@opinfo Op Sh (@OpFamily.vec R))) (e0 : @env (@OpFamily.vec R)) (ps : list nat)
  (Hwf : wf_ops ops0)
  (HLA : forall k oi, nth_error ops0 k = Some oi -> f_inner F (o_op oi) = None ->
           LocalAdjoint rO radd rmul F jvp size (o_op oi))
  (Hshape : shape_ok F ops0)
  (Hcons : consistent F jvp tan dp ops0 e0)
  (Hsized : rsized F size tan ops0 e0)
  (Hnodup : NoDup ps)
  (Hcover : forall k oi p, nth_error ops0 k = Some oi -> f_inner F (o_op oi) = Some p -> In p ps)
  (g : @gstate Op Sh (@OpFamily.vec R)) (n : nat * nat) (sn : @slot Sh (@OpFamily.vec R))
  (v : @OpFamily.vec R) (g' : @gstate Op Sh (@OpFamily.vec R)) (e' : @env (@OpFamily.vec R))
  (Hg : g_ops g = ops0)
  (Hclean : gclean ops0)
  (Hpsized : psz F size ops0 e0)
  (Hn : get_slot g n = Some sn)
  (Hv : s_val sn = Some v)
  (Hb : backward F (vec_ops rO rI radd size) g e0 n = Some (g', e')) :
  ppot rO radd rmul dp ps e' =
    radd (ppot rO radd rmul dp ps e0)
         (OpFamily.dot rO radd rmul (vones (vec_ops rO rI radd size) (s_shape sn)) (tan n)) /\
  gclean (g_ops g') /\ e_pval e' = e_pval e0.
Proof.
  exact (backward_adjoint rO rI radd rmul rsub ropp Rth F jvp size tan dp ops0 e0 ps
           Hwf HLA Hshape Hcons Hsized Hnodup Hcover g n sn v g' e' Hg Hclean Hpsized Hn Hv Hb).
Qed.
Print Assumptions C01_graph_backward_adjoint.

(* every operator of the concrete family satisfies LocalAdjoint: for operand shapes accepted by
   its guard, <increments of its BACKWARD kernel programs, dx> = <gy, JVP(dx)>, with sizes *)
Theorem C01_graph_core_local_adjoint
  (R : Type) (rO rI : R) (radd rmul rsub : R -> R -> R) (ropp : R -> R)
  (Rth : ring_theory rO rI radd rmul rsub ropp eq) (o : @cop R) :
  LocalAdjoint rO radd rmul (core_family rO radd rmul rsub ropp) (core_jvp rO radd rmul rsub ropp) tsize o.
Proof. exact (core_LocalAdjoint rO rI radd rmul rsub ropp Rth o). Qed.
Print Assumptions C01_graph_core_local_adjoint.

(* end to end over the concrete family: no LocalAdjoint hypothesis left *)
Theorem C01_graph_backward_is_adjoint_concrete
  (R : Type) (rO rI : R) (radd rmul rsub : R -> R -> R) (ropp : R -> R)
  (Rth : ring_theory rO rI radd rmul rsub ropp eq)
  (tan : nat * nat -> @OpFamily.vec R) (dp : nat -> @OpFamily.vec R)
  (ops0 : list (@opinfo (@cop R) tshape (@OpFamily.vec R))) (e0 : @env (@OpFamily.vec R)) (ps : list nat)
  (Hwf : wf_ops ops0)
  (Hshape : shape_ok (core_family rO radd rmul rsub ropp) ops0)
  (Hcons : consistent (core_family rO radd rmul rsub ropp) (core_jvp rO radd rmul rsub ropp) tan dp ops0 e0)
  (Hsized : rsized (core_family rO radd rmul rsub ropp) tsize tan ops0 e0)
  (Hnodup : NoDup ps)
  (Hcover : forall k oi p, nth_error ops0 k = Some oi ->
              f_inner (core_family rO radd rmul rsub ropp) (o_op oi) = Some p -> In p ps)
  (n : nat * nat) (sn : @slot tshape (@OpFamily.vec R)) (bl : list nat)
  (ops' : list (@opinfo (@cop R) tshape (@OpFamily.vec R))) (e' : @env (@OpFamily.vec R)) (bl' : list nat)
  (Hclean : gclean ops0)
  (Hpsized : psz (core_family rO radd rmul rsub ropp) tsize ops0 e0)
  (Hn : get_slot_ops ops0 n = Some sn)
  (Hsweep : sweep (core_family rO radd rmul rsub ropp) (vec_ops rO rI radd tsize) (fst n)
              (upd_ops ops0 n (fun s => set_grad s (Some (vones (vec_ops rO rI radd tsize) (s_shape s)))))
              e0 bl = Some (ops', e', bl')) :
  ppot rO radd rmul dp ps e' =
    radd (ppot rO radd rmul dp ps e0)
         (OpFamily.dot rO radd rmul (vones (vec_ops rO rI radd tsize) (s_shape sn)) (tan n)) /\
  gclean ops' /\ e_pval e' = e_pval e0.
Proof.
  exact (C01_backward_is_adjoint_concrete rO rI radd rmul rsub ropp Rth tan dp ops0 e0 ps
           Hwf Hshape Hcons Hsized Hnodup Hcover n sn bl ops' e' bl' Hclean Hpsized Hn Hsweep).
Qed.
Print Assumptions C01_graph_backward_is_adjoint_concrete.

(* the same for a call of Graph::backward; right-hand side = sum of all elements of tan y *)
Theorem C01_graph_backward_call_is_adjoint_concrete
  (R : Type) (rO rI : R) (radd rmul rsub : R -> R -> R) (ropp : R -> R)
  (Rth : ring_theory rO rI radd rmul rsub ropp eq)
  (tan : nat * nat -> @OpFamily.vec R) (dp : nat -> @OpFamily.vec R)
  (g : @gstate (@cop R) tshape (@OpFamily.vec R)) (e0 : @env (@OpFamily.vec R)) (ps : list nat)
  (Hwf : wf_ops (g_ops g))
  (Hshape : shape_ok (core_family rO radd rmul rsub ropp) (g_ops g))
  (Hcons : consistent (core_family rO radd rmul rsub ropp) (core_jvp rO radd rmul rsub ropp) tan dp (g_ops g) e0)
  (Hsized : rsized (core_family rO radd rmul rsub ropp) tsize tan (g_ops g) e0)
  (Hnodup : NoDup ps)
  (Hcover : forall k oi p, nth_error (g_ops g) k = Some oi ->
              f_inner (core_family rO radd rmul rsub ropp) (o_op oi) = Some p -> In p ps)
  (n : nat * nat) (sn : @slot tshape (@OpFamily.vec R)) (v : @OpFamily.vec R)
  (g' : @gstate (@cop R) tshape (@OpFamily.vec R)) (e' : @env (@OpFamily.vec R))
  (Hclean : gclean (g_ops g))
  (Hpsized : psz (core_family rO radd rmul rsub ropp) tsize (g_ops g) e0)
  (Hn : get_slot g n = Some sn)
  (Hv : s_val sn = Some v)
  (Hb : backward (core_family rO radd rmul rsub ropp) (vec_ops rO rI radd tsize) g e0 n = Some (g', e')) :
  ppot rO radd rmul dp ps e' = radd (ppot rO radd rmul dp ps e0) (vsum rO radd (tan n)) /\
  gclean (g_ops g') /\ e_pval e' = e_pval e0.
Proof.
  exact (C01_backward_call_is_adjoint_concrete rO rI radd rmul rsub ropp Rth tan dp g e0 ps
           Hwf Hshape Hcons Hsized Hnodup Hcover n sn v g' e' Hclean Hpsized Hn Hv Hb).
Qed.
Print Assumptions C01_graph_backward_call_is_adjoint_concrete.

(* Non-vacuity of the abstract layer: the example family of Graph/Example.v over Z, whose
   LocalAdjoint is Graph/ADExample.v.  y = ((p*p) + p') * p with p, p' two Parameter operators
   of the SAME parameter 0 (shared parameter), node p used three times (fan-out), twice by one
   operator.  At p = (2,3): d sum(p^3 + p^2) / dp = 3p^2 + 2p = (16,33) is added to (10,20). *)
Example C01_graph_nonvacuous :
  wf_ops ad_ops0 /\
  (forall k oi, nth_error ad_ops0 k = Some oi -> f_inner EF (o_op oi) = None ->
     LocalAdjoint 0%Z Z.add Z.mul EF ejvp zsz (o_op oi)) /\
  shape_ok EF ad_ops0 /\ consistent EF ejvp ad_tan ad_dp ad_ops0 ad_env /\
  rsized EF zsz ad_tan ad_ops0 ad_env /\ gclean ad_ops0 /\ psz EF zsz ad_ops0 ad_env /\
  exists ops' e' bl',
    sweep EF zVO 4 ad_seeded ad_env [] = Some (ops', e', bl') /\
    e_pgrad e' 0 = [26; 53]%Z /\ bl' = [4; 3; 2; 1; 0] /\
    ppot 0%Z Z.add Z.mul ad_dp [0] e' = (ppot 0%Z Z.add Z.mul ad_dp [0%nat] ad_env + 311)%Z.
Proof.
  exact (conj ad_wf (conj ad_LA (conj ad_shape_ok (conj ad_consistent (conj ad_rsized (conj ad_gclean (conj ad_psz ad_run))))))).
Qed.

(* Non-vacuity of the concrete layer: y = sum_axis0(slice_{[1,3)}(w * x + w)) over core_family,
   w a batch-1 parameter of shape {4} broadcast (twice: multiply and add) against the input x
   of shape {4} x 2 samples.  The gradient added to w is (0, 10, 12, 0): the two samples are
   folded into the batch-1 parameter, the sliced-away rows get nothing. *)
Example C01_graph_concrete_nonvacuous :
  wf_ops cx_ops0 /\ shape_ok zF cx_ops0 /\ consistent zF zJ cx_tan cx_dp cx_ops0 cx_env /\
  rsized zF tsize cx_tan cx_ops0 cx_env /\ gclean cx_ops0 /\ psz zF tsize cx_ops0 cx_env /\
  exists ops' e' bl',
    sweep zF cVO 5 cx_seeded cx_env [] = Some (ops', e', bl') /\
    e_pgrad e' 0 = [100; 210; 312; 400]%Z /\ bl' = [5; 4; 3; 2; 1; 0] /\
    ppot 0%Z Z.add Z.mul cx_dp [0] e' = (ppot 0%Z Z.add Z.mul cx_dp [0%nat] cx_env + 1300)%Z.
Proof.
  exact (conj cx_wf (conj cx_shape_ok (conj cx_consistent (conj cx_rsized (conj cx_gclean (conj cx_psz cx_run)))))).
Qed.

(* Non-vacuity of the concrete layer, second tape (41 operators, four parameters W {2,3},
   v {2}, K {2,2}, a scalar c; minibatch of 2): matmul of the batch-1 W with the batched input, subtract
   and concat with the batch-1 v, a two-output split of which ONE output is used, flip,
   reshape, transpose, broadcast, permute_dims, pick, sum, batch::slice / concat / pick /
   split / sum, conv2d, multiply, stop_gradient, add, copy, the constant operators, negation
   and the four ...Scalar operators (scalar c of batch 1 against {2} x 2).  Every guard evaluates to true on these shapes (cy_shape_ok), the tangents are
   computed by the operators' JVPs, and the gradients are the hand-derived derivatives. *)
Example C01_graph_concrete_nonvacuous_all_ops :
  wf_ops cy_ops0 /\ shape_ok zF cy_ops0 /\ consistent zF zJ cy_tan cy_dp cy_ops0 cy_env /\
  rsized zF tsize cy_tan cy_ops0 cy_env /\ gclean cy_ops0 /\ psz zF tsize cy_ops0 cy_env /\
  (forall k oi p, nth_error cy_ops0 k = Some oi -> f_inner zF (o_op oi) = Some p -> In p [0; 1; 2; 3]) /\
  exists ops' e' bl',
    sweep zF cVO 40 cy_seeded cy_env [] = Some (ops', e', bl') /\
    e_pgrad e' 0 = [1430; 1430; 2002; 2002; 2574; 2574]%Z /\ e_pgrad e' 1 = [-565; -565]%Z /\
    e_pgrad e' 2 = [1933; 1657; 1105; 829]%Z /\ e_pgrad e' 3 = [-27]%Z /\ length bl' = 41 /\
    ppot 0%Z Z.add Z.mul cy_dp [0; 1; 2; 3] e' = (ppot 0%Z Z.add Z.mul cy_dp [0%nat; 1%nat; 2%nat; 3%nat] cy_env + 11565)%Z.
Proof.
  exact (conj cy_wf (conj cy_shape_ok (conj cy_consistent (conj cy_rsized (conj cy_gclean (conj cy_psz (conj cy_cover cy_run))))))).
Qed.
