(* C01 (backward yields the true derivative) -- bilinear operators and gradient accumulation.
   "True derivative" is the algebraic one: the forward kernel is bilinear, its differential in
   direction (dX, dW) is  dY = f(dX, W) + f(X, dW), and the backward kernel must ADD to (gx, gw) the
   adjoint of that differential:  <gx' - gx, dX> + <gw' - gw, dW> = <dY, gy>  (stated without
   subtraction).  Over any commutative semiring.  Statements only; proofs in Tensor/ProofsBilinear.v. *)
From Coq Require Import List Arith Lia Permutation Bool Sorted ZArith.
From PV Require Import Tensor.Kernels Tensor.Index Tensor.KernelProofs Tensor.ProofsBilinear.
Import ListNotations.

(* matmul_bw_impl = inplace_add(matmul(gy, b^T), ga); inplace_add(matmul(a^T, gy), gb):  <gy, A*dB + dA*B> = <gy*B^T, dA> + <A^T*gy, dB> *)
Theorem C01_matmul_bw_adjoint :
  forall (T : Type) (zero : T) (add mul : T -> T -> T),
    (forall a b : T, add a b = add b a) ->
    (forall a b c : T, add a (add b c) = add (add a b) c) ->
    (forall a : T, add zero a = a) ->
    (forall a b : T, mul a b = mul b a) ->
    (forall a b c : T, mul a (mul b c) = mul (mul a b) c) ->
    (forall a b c : T, mul a (add b c) = add (mul a b) (mul a c)) ->
    (forall a : T, mul a zero = zero) ->
    forall (d1 d2 d3 : nat) (A B dA dB G : nat -> nat -> T),
    mdot T zero add mul d1 d3 G
      (fun i k : nat => add (mmul T zero add mul d2 A dB i k) (mmul T zero add mul d2 dA B i k)) =
    add (mdot T zero add mul d1 d2 (mmul T zero add mul d3 G (mtrans T B)) dA)
      (mdot T zero add mul d2 d3 (mmul T zero add mul d1 (mtrans T A) G) dB).
Proof. exact matmul_bw_adjoint. Qed.
Print Assumptions C01_matmul_bw_adjoint.

(* the finite sums used above are the dot of Tensor/Index.v *)
Theorem C01_dot_sumn :
  forall (T : Type) (zero : T) (add mul : T -> T -> T),
    (forall a b : T, add a b = add b a) ->
    (forall a b c : T, add a (add b c) = add (add a b) c) ->
    (forall a : T, add zero a = a) ->
    forall a b : list T,
    length a = length b ->
    dot T zero add mul a b = sumn T zero add (length a) (fun i : nat => mul (nth i a zero) (nth i b zero)).
Proof. exact dot_sumn. Qed.
Print Assumptions C01_dot_sumn.

(* ANY bilinear kernel given by (y, x, w) triples whose backward kernel walks the same triples (gx[x] += gy[y]*w[w], gw[w] += gy[y]*x[x]) adds the adjoint of its differential *)
Theorem C01_triple_adjoint :
  forall (T : Type) (zero : T) (add mul : T -> T -> T),
    (forall a b : T, add a b = add b a) ->
    (forall a b c : T, add a (add b c) = add (add a b) c) ->
    (forall a : T, add zero a = a) ->
    (forall a b : T, mul a b = mul b a) ->
    (forall a b c : T, mul a (mul b c) = mul (mul a b) c) ->
    (forall a b c : T, mul (add a b) c = add (mul a c) (mul b c)) ->
    (forall a : T, mul zero a = zero) ->
    forall (p : list (nat * (nat * nat))) (X W dX dW gy gx gw : list T),
    Forall
      (fun e : nat * (nat * nat) =>
       fst e < length gy /\ fst (snd e) < length gx /\ snd (snd e) < length gw) p ->
    length dX = length gx ->
    length dW = length gw ->
    add (dot T zero add mul (incr_run T zero add (trip_bw_x T zero mul p gy W) gx) dX)
      (dot T zero add mul (incr_run T zero add (trip_bw_w T zero mul p gy X) gw) dW) =
    add (add (dot T zero add mul gx dX) (dot T zero add mul gw dW))
      (dot T zero add mul
         (incr_run T zero add (trip_dfw T zero add mul p X W dX dW) (repeat zero (length gy))) gy).
Proof. exact triple_adjoint. Qed.
Print Assumptions C01_triple_adjoint.

(* instance: conv2d_bw_impl (same triples as conv2d_fw_impl); a batch-1 image or kernel receives the sum over the samples *)
Theorem C01_conv2d_bw_adjoint :
  forall (sx sw sy : tshape) (xh xw xc wh ww yh yw yc B Vx Vw Vy p0 p1 s0 s1 d0 d1 : nat),
    tget sx 0 = xh ->
    tget sx 1 = xw ->
    tget sx 2 = xc ->
    tget sw 0 = wh ->
    tget sw 1 = ww ->
    tget sy 0 = yh ->
    tget sy 1 = yw ->
    tget sy 2 = yc ->
    tbatch sy = B ->
    tvolume sx = Vx ->
    tvolume sw = Vw ->
    tvolume sy = Vy ->
    Vy = yh * yw * yc ->
    Vx = xh * xw * xc ->
    Vw = wh * ww * xc * yc ->
    0 < wh ->
    0 < ww ->
    tbatch sx = 1 \/ tbatch sx = B ->
    tbatch sw = 1 \/ tbatch sw = B ->
    forall (T : Type) (zero : T) (add mul : T -> T -> T),
    (forall a b : T, add a b = add b a) ->
    (forall a b c : T, add a (add b c) = add (add a b) c) ->
    (forall a : T, add zero a = a) ->
    (forall a b : T, mul a b = mul b a) ->
    (forall a b c : T, mul a (mul b c) = mul (mul a b) c) ->
    (forall a b c : T, mul (add a b) c = add (mul a c) (mul b c)) ->
    (forall a : T, mul zero a = zero) ->
    forall X W dX dW gy gx gw : list T,
    length gy = tsize sy ->
    length gx = tsize sx ->
    length gw = tsize sw ->
    length dX = tsize sx ->
    length dW = tsize sw ->
    let p := conv2d_triples sx sw sy p0 p1 s0 s1 d0 d1 in
    add (dot T zero add mul (incr_run T zero add (trip_bw_x T zero mul p gy W) gx) dX)
      (dot T zero add mul (incr_run T zero add (trip_bw_w T zero mul p gy X) gw) dW) =
    add (add (dot T zero add mul gx dX) (dot T zero add mul gw dW))
      (dot T zero add mul
         (incr_run T zero add (trip_dfw T zero add mul p X W dX dW) (repeat zero (length gy))) gy).
Proof. exact conv2d_bw_adjoint. Qed.
Print Assumptions C01_conv2d_bw_adjoint.

(* the increments y[d] += v accumulate: cell j ends as its old content plus the increments addressed to j, in program order (the form LocalAdjoint needs: vjp(gx) = gx + vjp(0)) *)
Theorem C01_nth_incr_run :
  forall (T : Type) (zero : T) (add : T -> T -> T) (p : list (nat * T)) (y : list T) (j : nat),
    Forall (fun e : nat * T => fst e < length y) p ->
    nth j (incr_run T zero add p y) zero = fold_left add (map snd (cell j p)) (nth j y zero).
Proof. exact nth_incr_run. Qed.
Print Assumptions C01_nth_incr_run.

(* elementwise backward into a batch-1 operand: sum over the samples *)
Theorem C01_ab_bw_fold_a :
  forall (T : Type) (zero : T) (add : T -> T -> T) (sga sgb sgy : tshape) (V B : nat),
    tvolume sgy = V ->
    tbatch sgy = B ->
    forall (inc ga : list T) (i : nat),
    tbatch sga = 1 ->
    length ga = V ->
    i < V ->
    nth i (scatter T zero add (slots_a (ab_bw sga sgb sgy)) inc ga) zero =
    fold_left add (map (fun b : nat => nth (b * V + i) inc zero) (range B)) (nth i ga zero).
Proof. exact ab_bw_fold_a. Qed.
Print Assumptions C01_ab_bw_fold_a.

(* elementwise backward into a batched operand: per sample *)
Theorem C01_ab_bw_sample_a :
  forall (T : Type) (zero : T) (add : T -> T -> T) (sga sgb sgy : tshape) (V B : nat),
    tvolume sgy = V ->
    tbatch sgy = B ->
    forall (inc ga : list T) (b i : nat),
    1 < tbatch sga ->
    length ga = B * V ->
    b < B ->
    i < V ->
    nth (b * V + i) (scatter T zero add (slots_a (ab_bw sga sgb sgy)) inc ga) zero =
    add (nth (b * V + i) ga zero) (nth (b * V + i) inc zero).
Proof. exact ab_bw_sample_a. Qed.
Print Assumptions C01_ab_bw_sample_a.

(* inplace_add into a batch-1 gradient: sum over the samples *)
Theorem C01_inplace_add_fold :
  forall (T : Type) (zero : T) (add : T -> T -> T) (sx sy : tshape) (V B : nat),
    tvolume sy = V ->
    Nat.max (tbatch sx) (tbatch sy) = B ->
    forall (x y : list T) (i : nat),
    tbatch sy = 1 ->
    length y = V ->
    i < V ->
    nth i (scatter T zero add (inplace_add sx sy) x y) zero =
    fold_left add (map (fun b : nat => nth (bsel sx b * V + i) x zero) (range B)) (nth i y zero).
Proof. exact inplace_add_fold. Qed.
Print Assumptions C01_inplace_add_fold.

(* inplace_add into a batched gradient: per sample, a batch-1 source replicated *)
Theorem C01_inplace_add_sample :
  forall (T : Type) (zero : T) (add : T -> T -> T) (sx sy : tshape) (V B : nat),
    tvolume sy = V ->
    Nat.max (tbatch sx) (tbatch sy) = B ->
    forall (x y : list T) (b i : nat),
    1 < tbatch sy ->
    length y = B * V ->
    b < B ->
    i < V ->
    nth (b * V + i) (scatter T zero add (inplace_add sx sy) x y) zero =
    add (nth (b * V + i) y zero) (nth (bsel sx b * V + i) x zero).
Proof. exact inplace_add_sample. Qed.
Print Assumptions C01_inplace_add_sample.

(* ---- non-vacuity: the semiring laws are satisfiable (nat), and the identity is not 0 = 0 ---- *)
Example C01_nonvacuous_matmul :
  let A := fun i j => 1 + i + 2 * j in let B := fun j k => 2 + j + 3 * k in
  let dA := fun i j => 1 + i * j in let dB := fun j k => 3 + j + k in let G := fun i k => 1 + 2 * i + k in
  mdot nat 0 Nat.add Nat.mul 2 2 G
    (fun i k => mmul nat 0 Nat.add Nat.mul 2 A dB i k + mmul nat 0 Nat.add Nat.mul 2 dA B i k) = 350 /\
  mdot nat 0 Nat.add Nat.mul 2 2 (mmul nat 0 Nat.add Nat.mul 2 G (mtrans nat B)) dA
  + mdot nat 0 Nat.add Nat.mul 2 2 (mmul nat 0 Nat.add Nat.mul 2 (mtrans nat A) G) dB = 350.
Proof. vm_compute. split; reflexivity. Qed.

Example C01_nonvacuous_laws (A B dA dB G : nat -> nat -> nat) :
  mdot nat 0 Nat.add Nat.mul 2 3 G
    (fun i k => mmul nat 0 Nat.add Nat.mul 4 A dB i k + mmul nat 0 Nat.add Nat.mul 4 dA B i k)
  = mdot nat 0 Nat.add Nat.mul 2 4 (mmul nat 0 Nat.add Nat.mul 3 G (mtrans nat B)) dA
    + mdot nat 0 Nat.add Nat.mul 4 3 (mmul nat 0 Nat.add Nat.mul 2 (mtrans nat A) G) dB.
Proof.
  exact (C01_matmul_bw_adjoint nat 0 Nat.add Nat.mul Nat.add_comm Nat.add_assoc Nat.add_0_l
           Nat.mul_comm Nat.mul_assoc Nat.mul_add_distr_l Nat.mul_0_r 2 4 3 A B dA dB G).
Qed.

(* conv2d backward on a 3x3 image / 2x2 kernel, all-ones data: both sides computed *)
Example C01_nonvacuous_conv :
  let p := conv2d_triples (mkT [3; 3] 1) (mkT [2; 2] 1) (mkT [2; 2] 1) 0 0 1 1 1 1 in
  let X := [1;2;3;4;5;6;7;8;9] in let W := [1;2;3;4] in let gy := [1;2;3;4] in
  incr_run nat 0 Nat.add (trip_bw_x nat 0 Nat.mul p gy W) (repeat 0 9) = [4; 11; 6; 14; 30; 14; 6; 11; 4] /\
  incr_run nat 0 Nat.add (trip_bw_w nat 0 Nat.mul p gy X) (repeat 0 4) = [77; 67; 47; 37].
Proof. vm_compute. split; reflexivity. Qed.
