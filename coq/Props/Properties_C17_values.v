(* C17, value level of the two deterministic initializers -- answers the audit finding "the
   initializer model only produces a REQUEST (QReset k, QIdentity n); there is no theorem on the
   VALUES of Constant and Identity".  Nothing but statements closed by `exact <lemma>` and
   Print Assumptions.

   Model: coq/Random/InitValues.v, transcribed from initializer_impl.cc (Constant::apply,
   Identity::apply), device.cc (Device::identity), devices/naive/ops/identity.cc (zero fill, then
   dest[i * (size + 1)] = 1 in uint32 arithmetic), devices/naive/ops/reset_tensor.cc and
   parameter.cc (Parameter(shape, initializer, device): assert_shape rejects a batch).  Buffers
   are column-major: element (i, j) of an n x n matrix is at offset i + j * n.  The scalar type T
   and the two constants zero, one are parameters (the check instantiates them with the binary32
   bit patterns 0x00000000 and 0x3f800000 and compares every value of the real tensors, on
   devices::Naive and devices::Eigen, with the extracted model).  [init_tensor] = None means
   Initializer::apply throws (tensor unchanged); Some (s', v): afterwards the tensor has shape
   s' and values v.

   What the guard of Identity::apply examines: depth <= 2 and s[0] == s[1] -- NOT the batch
   size.  On a batched square shape the tensor is replaced by the batch-1 identity matrix
   (C17_identity_result_shape); through Parameter this cannot happen because Parameter rejects
   every batched shape before the initializer runs (C17_parameter_values).
   Eigen's setIdentity() (devices/eigen/ops/identity.cc) is library code: its agreement with
   this model is established by the correspondence run, not by a theorem. *)
From Coq Require Import List NArith Bool.
From PV Require Import Base.U32 Base.Scalar Shape.ShapeImpl Shape.ShapeSpec
  Random.RandModel Random.InitValues Random.InitValuesProofs.
Import ListNotations.
Local Open Scope N_scope.

(* Identity: n*n elements; element (i, j) is one if i = j and zero otherwise *)
Theorem C17_identity_values {T} (zero one : T) n : n * n < P32 ->
  length (identity_values zero one n) = N.to_nat (n * n) /\
  forall i j, i < n -> j < n ->
    nth (N.to_nat (i + j * n)) (identity_values zero one n) zero = if i =? j then one else zero.
Proof. exact (fun H => conj (identity_values_length zero one n H)
                            (fun i j Hi Hj => identity_values_spec zero one n i j H Hi Hj)). Qed.
Print Assumptions C17_identity_values.

(* the uint32 index i * (size + 1) of identity.cc never wraps: it is the diagonal offset *)
Theorem C17_identity_index_exact n i : n * n < P32 -> i < n -> identity_index n i = i + i * n.
Proof. exact (identity_index_exact n i). Qed.
Print Assumptions C17_identity_index_exact.

(* Identity is rejected exactly unless the shape is a matrix (depth <= 2, which includes scalars
   and the vector {1}) with equal dimensions; when accepted the result has the dimensions of s,
   batch 1, and the identity values *)
Theorem C17_identity_guard_and_result {T} (zero one : T) s : wf s ->
  (init_tensor zero one DIdentity s = None <-> (is_matrix s = false \/ get s 0 <> get s 1)) /\
  (forall s' v, init_tensor zero one DIdentity s = Some (s', v) ->
     is_matrix s = true /\ get s 0 = get s 1 /\
     s' = mkS (dims s) 1 (volume s) /\ wf s' /\ v = identity_values zero one (get s 0) /\
     length v = N.to_nat (volume s) /\
     (forall i j, i < get s 0 -> j < get s 0 ->
        nth (N.to_nat (i + j * get s 0)) v zero = if i =? j then one else zero)).
Proof. exact (identity_guard zero one s). Qed.
Print Assumptions C17_identity_guard_and_result.

(* the batch size is not examined: an unbatched tensor keeps its shape, a batched square one is
   REPLACED by a batch-1 tensor *)
Theorem C17_identity_result_shape {T} (zero one : T) s s' v : wf s ->
  init_tensor zero one DIdentity s = Some (s', v) ->
  (batch s = 1 -> s' = s) /\ (has_batch s = true -> s' <> s /\ batch s' = 1).
Proof. exact (identity_result_shape zero one s s' v). Qed.
Print Assumptions C17_identity_result_shape.

(* Constant k: accepted for EVERY shape, batched or not; the shape is kept and every one of the
   batch * volume elements is k *)
Theorem C17_constant_values {T} (zero one k : T) s :
  init_tensor zero one (DConstant k) s = Some (s, constant_values k s) /\
  length (constant_values k s) = N.to_nat (size s) /\
  Forall (fun x => x = k) (constant_values k s) /\
  (wf s -> size s = batch s * volume s).
Proof. exact (conj (proj1 (constant_every_shape zero one k s))
               (conj (proj1 (constant_values_spec k s))
                 (conj (proj2 (constant_values_spec k s)) (proj2 (constant_every_shape zero one k s))))). Qed.
Print Assumptions C17_constant_values.

(* Parameter(shape, initializer): every batched shape is rejected (for every initializer); an
   unbatched one gets the tensor-level values and the parameter's value keeps the declared shape *)
Theorem C17_parameter_values {T} (zero one : T) i s : wf s ->
  (has_batch s = true -> init_parameter zero one i s = None) /\
  (has_batch s = false -> init_parameter zero one i s = init_tensor zero one i s /\
     forall s' v, init_tensor zero one i s = Some (s', v) -> s' = s).
Proof. exact (parameter_values zero one i s). Qed.
Print Assumptions C17_parameter_values.

(* the value-level model accepts exactly where the request-level model of RandModel.v issues an
   accepted request *)
Theorem C17_values_agree_with_requests {T} (O : ops T) (C : conv T) (zero one : T) s : wf s ->
  (forall k, apply_init O C (IConstant k) s = Some (QReset k) /\
             init_tensor zero one (DConstant k) s = Some (s, constant_values k s)) /\
  (init_tensor zero one DIdentity s = None <-> apply_init O C IIdentity s = None) /\
  (forall s' v, init_tensor zero one DIdentity s = Some (s', v) ->
     apply_init O C IIdentity s = Some (QIdentity (get s 0)) /\
     devreq_rejected C (QIdentity (get s 0)) = false /\ mk_shape [get s 0; get s 0] 1 = Some s').
Proof. exact (values_agree_with_requests O C zero one s). Qed.
Print Assumptions C17_values_agree_with_requests.

(* ---------------------------------------------------------------- non-vacuity *)
Example C17_nonvacuous_identity_3 :
  identity_values 0 1 3 = [1;0;0; 0;1;0; 0;0;1] /\
  (exists s s', mk_shape [3; 3] 1 = Some s /\ init_tensor 0 1 DIdentity s = Some (s', identity_values 0 1 3) /\ s' = s) /\
  (exists s, mk_shape [] 1 = Some s /\ init_tensor 0 1 DIdentity s = Some (s, [1])) /\
  (exists s, mk_shape [2; 3] 1 = Some s /\ init_tensor 0 1 DIdentity s = None) /\
  (exists s, mk_shape [3] 1 = Some s /\ init_tensor 0 1 DIdentity s = None) /\
  (exists s, mk_shape [2; 2; 2] 1 = Some s /\ init_tensor 0 1 DIdentity s = None).
Proof.
  split; [vm_compute; reflexivity|].
  split; [exists (mkS [3; 3] 1 9), (mkS [3; 3] 1 9); vm_compute; repeat split; reflexivity|].
  split; [exists (mkS [] 1 1); vm_compute; split; reflexivity|].
  split; [exists (mkS [2; 3] 1 6); vm_compute; split; reflexivity|].
  split; [exists (mkS [3] 1 3); vm_compute; split; reflexivity|].
  exists (mkS [2; 2; 2] 1 8); vm_compute; split; reflexivity.
Qed.

(* a batched square shape: Identity replaces the tensor (batch 3 -> batch 1), Parameter rejects it,
   Constant fills all 12 elements *)
Example C17_nonvacuous_batched :
  exists s s1, mk_shape [2; 2] 3 = Some s /\ mk_shape [2; 2] 1 = Some s1 /\ has_batch s = true /\
    init_tensor 0 1 DIdentity s = Some (s1, [1;0;0;1]) /\
    init_parameter 0 1 DIdentity s = None /\ init_parameter 0 1 (DConstant 7) s = None /\
    init_tensor 0 1 (DConstant 7) s = Some (s, [7;7;7;7; 7;7;7;7; 7;7;7;7]).
Proof. exists (mkS [2; 2] 3 4), (mkS [2; 2] 1 4). vm_compute. repeat split; reflexivity. Qed.

(* the characterisation discriminates: writing with stride n instead of n + 1 (an off-by-one in
   identity.cc) yields a first column of ones, which C17_identity_values excludes *)
Example C17_stride_mutant_refuted :
  let wrong := fold_left (fun buf i => set_at buf (i * 3) 1) (seq 0 3) (repeat 0 9) in
  wrong = [1;0;0; 1;0;0; 1;0;0] /\ nth (N.to_nat (0 + 1 * 3)) wrong 0 <> (if 0 =? 1 then 1 else 0).
Proof. vm_compute. split; [reflexivity|discriminate]. Qed.
