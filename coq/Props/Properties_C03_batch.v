(* C03 (minibatch law) -- elementwise kernels with minibatch broadcasting, straight-line programs
   over them, gradient folding into batch-1 operands, and the batched bilinear kernels.
   Statements only; proofs in Tensor/ProofsBilinear.v.  All theorems speak about the index programs
   of Tensor/Kernels.v (tied to devices/naive/ops/*.cc by the differential check of the tensor engine).
     bsel s b                  = b if s has batch > 1, 0 if s has batch 1  (b * has_batch(s))
     block b V l               = elements b*V .. b*V+V-1 of l  (sample b)
     sample_or_shared s b V l  = block (bsel s b) V l
     unb s                     = s with batch 1
     esample b e               = the program e with every leaf replaced by its sample b (or itself
                                 when it is shared) *)
From Coq Require Import List Arith Lia Permutation Bool Sorted ZArith.
From PV Require Import Tensor.Kernels Tensor.Index Tensor.KernelProofs Tensor.ProofsBilinear.
Import ListNotations.

(* MAIN: for every straight-line program over the elementwise operators (unary, binary with broadcasting, scalar operand) and every assignment of batch sizes in {1,B} to the leaves accepted by the shape rules: evaluating the program on the b-th samples gives sample b of the batched evaluation (the single sample when the result is shared) *)
Theorem C03_batch_law_program :
  forall (T : Type) (zero : T) (B b : nat) (e : expr T),
    0 < B ->
    b < B ->
    wf T zero B e ->
    eval T zero (esample T b e) =
    (unb (fst (eval T zero e)),
     sample_or_shared (fst (eval T zero e)) b (tvolume (fst (eval T zero e))) (snd (eval T zero e))).
Proof. exact batch_law_program. Qed.
Print Assumptions C03_batch_law_program.

(* ... read off for a batched result *)
Theorem C03_batch_law_program_batched :
  forall (T : Type) (zero : T) (B b : nat) (e : expr T),
    0 < B ->
    b < B ->
    wf T zero B e ->
    1 < tbatch (fst (eval T zero e)) ->
    snd (eval T zero (esample T b e)) = block b (tvolume (fst (eval T zero e))) (snd (eval T zero e)).
Proof. exact batch_law_program_batched. Qed.
Print Assumptions C03_batch_law_program_batched.

(* ... and for a result all of whose leaves are shared *)
Theorem C03_batch_law_program_shared :
  forall (T : Type) (zero : T) (B b : nat) (e : expr T),
    0 < B ->
    b < B ->
    wf T zero B e ->
    tbatch (fst (eval T zero e)) = 1 -> snd (eval T zero (esample T b e)) = snd (eval T zero e).
Proof. exact batch_law_program_shared. Qed.
Print Assumptions C03_batch_law_program_shared.

(* CPUDEV_FW_AB (add subtract multiply divide pow): sample b (op a b) = op (sample_or_shared b a) (sample_or_shared b b) *)
Theorem C03_ab_fw_batch_law :
  forall (T : Type) (zero : T) (op : T -> T -> T) (sa sb sy : tshape) (V b : nat) (a bb : list T),
    tvolume sy = V ->
    b < tbatch sy ->
    block b V (ab_eval T zero op (ab_fw sa sb sy) a bb) =
    ab_eval T zero op (ab_fw (unb sa) (unb sb) (unb sy)) (sample_or_shared sa b V a)
      (sample_or_shared sb b V bb).
Proof. exact ab_fw_batch_law. Qed.
Print Assumptions C03_ab_fw_batch_law.

(* CPUDEV_FW_X_SCALAR: the same with a scalar-shaped second operand *)
Theorem C03_scalar_fw_batch_law :
  forall (T : Type) (zero : T) (op : T -> T -> T) (sx sk sy : tshape) (V b : nat) (x k : list T),
    tvolume sy = V ->
    b < tbatch sy ->
    block b V (ab_eval T zero op (scalar_fw sx sk sy) x k) =
    ab_eval T zero op (scalar_fw (unb sx) (unb sk) (unb sy)) (sample_or_shared sx b V x)
      (sample_or_shared sk b 1 k).
Proof. exact scalar_fw_batch_law. Qed.
Print Assumptions C03_scalar_fw_batch_law.

(* the index program restricted to sample b is the batch-1 program shifted to sample b of y and to sample b / the shared sample of each operand *)
Theorem C03_ab_fw_sample :
  forall (sa sb sy : tshape) (V B : nat),
    tvolume sy = V ->
    tbatch sy = B ->
    forall b : nat,
    b < B ->
    block b V (ab_fw sa sb sy) =
    map (shift3 (b * V) (bsel sa b * V) (bsel sb b * V)) (ab_fw (unb sa) (unb sb) (unb sy)).
Proof. exact ab_fw_sample. Qed.
Print Assumptions C03_ab_fw_sample.

(* the same for the scalar kernels *)
Theorem C03_scalar_fw_sample :
  forall (sx sk sy : tshape) (V B : nat),
    tvolume sy = V ->
    tbatch sy = B ->
    forall b : nat,
    b < B ->
    block b V (scalar_fw sx sk sy) =
    map (shift3 (b * V) (bsel sx b * V) (bsel sk b)) (scalar_fw (unb sx) (unb sk) (unb sy)).
Proof. exact scalar_fw_sample. Qed.
Print Assumptions C03_scalar_fw_sample.

(* add_bw ... pow_bw: the gradient slots touched for sample b are those of sample b, or the single shared sample of a batch-1 operand *)
Theorem C03_ab_bw_sample :
  forall (sga sgb sgy : tshape) (V B : nat),
    tvolume sgy = V ->
    tbatch sgy = B ->
    forall b : nat,
    b < B ->
    block b V (ab_bw sga sgb sgy) =
    map (shift3 (b * V) (bsel sga b * V) (bsel sgb b * V)) (ab_bw (unb sga) (unb sgb) (unb sgy)).
Proof. exact ab_bw_sample. Qed.
Print Assumptions C03_ab_bw_sample.

(* entry for sample b, element i reads a[(b or 0)*V + i] and b[(b or 0)*V + i] *)
Theorem C03_ab_fw_spec :
  forall (sa sb sy : tshape) (V B : nat),
    tvolume sy = V ->
    tbatch sy = B ->
    forall d ia ib : nat,
    In (d, (ia, ib)) (ab_fw sa sb sy) <->
    (exists b i : nat, b < B /\ i < V /\ d = b * V + i /\ ia = bsel sa b * V + i /\ ib = bsel sb b * V + i).
Proof. exact ab_fw_spec. Qed.
Print Assumptions C03_ab_fw_spec.

(* entry for sample b, element i reads x[(b or 0)*V + i] and k[b or 0] *)
Theorem C03_scalar_fw_spec :
  forall (sx sk sy : tshape) (V B : nat),
    tvolume sy = V ->
    tbatch sy = B ->
    forall d ix ik : nat,
    In (d, (ix, ik)) (scalar_fw sx sk sy) <->
    (exists b i : nat, b < B /\ i < V /\ d = b * V + i /\ ix = bsel sx b * V + i /\ ik = bsel sk b).
Proof. exact scalar_fw_spec. Qed.
Print Assumptions C03_scalar_fw_spec.

(* the backward kernels have the same index structure *)
Theorem C03_ab_bw_spec :
  forall (sga sgb sgy : tshape) (V B d ia ib : nat),
    tvolume sgy = V ->
    tbatch sgy = B ->
    In (d, (ia, ib)) (ab_bw sga sgb sgy) <->
    (exists b i : nat,
       b < B /\ i < V /\ d = b * V + i /\ ia = bsel sga b * V + i /\ ib = bsel sgb b * V + i).
Proof. exact ab_bw_spec. Qed.
Print Assumptions C03_ab_bw_spec.

(* the gradient reaching a batch-1 operand a is the SUM over the B samples of the per-sample increments (accumulated in sample order on top of the previous content) *)
Theorem C03_ab_bw_fold_a :
  forall (T : Type) (zero : T) (add : T -> T -> T) (sga sgb sgy : tshape) (V B : nat),
    tvolume sgy = V ->
    tbatch sgy = B ->
    forall (inc ga : list T) (i : nat),
    tbatch sga = 1 ->
    length ga = V ->
    i < V ->
    nth i (scatter T zero add (slots_a (ab_bw sga sgb sgy)) inc ga) zero =
    fold_left add (map (fun b : nat => nth (b * V + i) inc zero) (range B)) (nth i ga zero).
Proof. exact ab_bw_fold_a. Qed.
Print Assumptions C03_ab_bw_fold_a.

(* the same for operand b *)
Theorem C03_ab_bw_fold_b :
  forall (T : Type) (zero : T) (add : T -> T -> T) (sga sgb sgy : tshape) (V B : nat),
    tvolume sgy = V ->
    tbatch sgy = B ->
    forall (inc gb : list T) (i : nat),
    tbatch sgb = 1 ->
    length gb = V ->
    i < V ->
    nth i (scatter T zero add (slots_b (ab_bw sga sgb sgy)) inc gb) zero =
    fold_left add (map (fun b : nat => nth (b * V + i) inc zero) (range B)) (nth i gb zero).
Proof. exact ab_bw_fold_b. Qed.
Print Assumptions C03_ab_bw_fold_b.

(* a batched operand receives in sample b exactly the increment of sample b *)
Theorem C03_ab_bw_sample_a :
  forall (T : Type) (zero : T) (add : T -> T -> T) (sga sgb sgy : tshape) (V B : nat),
    tvolume sgy = V ->
    tbatch sgy = B ->
    forall (inc ga : list T) (b i : nat),
    1 < tbatch sga ->
    length ga = B * V ->
    b < B ->
    i < V ->
    nth (b * V + i) (scatter T zero add (slots_a (ab_bw sga sgb sgy)) inc ga) zero =
    add (nth (b * V + i) ga zero) (nth (b * V + i) inc zero).
Proof. exact ab_bw_sample_a. Qed.
Print Assumptions C03_ab_bw_sample_a.

(* the same for operand b *)
Theorem C03_ab_bw_sample_b :
  forall (T : Type) (zero : T) (add : T -> T -> T) (sga sgb sgy : tshape) (V B : nat),
    tvolume sgy = V ->
    tbatch sgy = B ->
    forall (inc gb : list T) (b i : nat),
    1 < tbatch sgb ->
    length gb = B * V ->
    b < B ->
    i < V ->
    nth (b * V + i) (scatter T zero add (slots_b (ab_bw sga sgb sgy)) inc gb) zero =
    add (nth (b * V + i) gb zero) (nth (b * V + i) inc zero).
Proof. exact ab_bw_sample_b. Qed.
Print Assumptions C03_ab_bw_sample_b.

(* inplace_add_impl (the accumulation step of every composite backward): index structure *)
Theorem C03_inplace_add_spec :
  forall (sx sy : tshape) (V B : nat),
    tvolume sy = V ->
    Nat.max (tbatch sx) (tbatch sy) = B ->
    forall d s : nat,
    In (d, s) (inplace_add sx sy) <->
    (exists b i : nat, b < B /\ i < V /\ d = bsel sy b * V + i /\ s = bsel sx b * V + i).
Proof. exact inplace_add_spec. Qed.
Print Assumptions C03_inplace_add_spec.

(* inplace_add into a batch-1 destination sums the samples of x (gradient of a shared operand) *)
Theorem C03_inplace_add_fold :
  forall (T : Type) (zero : T) (add : T -> T -> T) (sx sy : tshape) (V B : nat),
    tvolume sy = V ->
    Nat.max (tbatch sx) (tbatch sy) = B ->
    forall (x y : list T) (i : nat),
    tbatch sy = 1 ->
    length y = V ->
    i < V ->
    nth i (scatter T zero add (inplace_add sx sy) x y) zero =
    fold_left add (map (fun b : nat => nth (bsel sx b * V + i) x zero) (range B)) (nth i y zero).
Proof. exact inplace_add_fold. Qed.
Print Assumptions C03_inplace_add_fold.

(* inplace_add into a batched destination works per sample; a batch-1 x is replicated *)
Theorem C03_inplace_add_sample :
  forall (T : Type) (zero : T) (add : T -> T -> T) (sx sy : tshape) (V B : nat),
    tvolume sy = V ->
    Nat.max (tbatch sx) (tbatch sy) = B ->
    forall (x y : list T) (b i : nat),
    1 < tbatch sy ->
    length y = B * V ->
    b < B ->
    i < V ->
    nth (b * V + i) (scatter T zero add (inplace_add sx sy) x y) zero =
    add (nth (b * V + i) y zero) (nth (bsel sx b * V + i) x zero).
Proof. exact inplace_add_sample. Qed.
Print Assumptions C03_inplace_add_sample.

(* ... its program restricted to sample b is the batch-1 program shifted *)
Theorem C03_inplace_add_block :
  forall (sx sy : tshape) (V B : nat),
    tvolume sy = V ->
    Nat.max (tbatch sx) (tbatch sy) = B ->
    forall b : nat,
    1 < tbatch sy ->
    b < B ->
    block b V (inplace_add sx sy) =
    map (fun e : nat * nat => (b * V + fst e, bsel sx b * V + snd e)) (inplace_add (unb sx) (unb sy)).
Proof. exact inplace_add_block. Qed.
Print Assumptions C03_inplace_add_block.

(* matmul: sample bn of the result is the matrix product of the bn-th samples, a batch-1 operand being shared (bsel) *)
Theorem C03_matmul_value :
  forall (sa sb sy : tshape) (d1 d2 d3 B : nat),
    tget sa 0 = d1 ->
    tget sa 1 = d2 ->
    tget sb 1 = d3 ->
    tbatch sy = B ->
    tvolume sa = d1 * d2 ->
    tvolume sb = d2 * d3 ->
    tvolume sy = d1 * d3 ->
    tbatch sa = 1 \/ tbatch sa = B ->
    tbatch sb = 1 \/ tbatch sb = B ->
    forall (T : Type) (zero : T) (add mul : T -> T -> T),
    (forall a b : T, add a b = add b a) ->
    (forall a b c : T, add a (add b c) = add (add a b) c) ->
    (forall a : T, add zero a = a) ->
    forall (a b : list T) (bn i k : nat),
    bn < B ->
    i < d1 ->
    k < d3 ->
    nth (bn * (d1 * d3) + i + k * d1)
      (incr_run T zero add (bil_incr T zero mul (matmul_contribs sa sb sy) a b) (repeat zero (tsize sy)))
      zero =
    sum_list T zero add
      (map
         (fun j : nat =>
          mul (nth (bsel sa bn * (d1 * d2) + i + j * d1) a zero)
            (nth (bsel sb bn * (d2 * d3) + j + k * d2) b zero)) (range d2)).
Proof. exact matmul_value. Qed.
Print Assumptions C03_matmul_value.

(* conv2d: sample bn of the result is the convolution of the bn-th samples, a batch-1 image or kernel being shared (bsel inside conv_entry) *)
Theorem C03_conv2d_value :
  forall (sx sw sy : tshape) (xh xw xc wh ww yh yw yc B Vx Vw Vy p0 p1 s0 s1 d0 d1 : nat),
    tget sx 0 = xh ->
    tget sx 1 = xw ->
    tget sx 2 = xc ->
    tget sw 0 = wh ->
    tget sw 1 = ww ->
    tget sy 0 = yh ->
    tget sy 1 = yw ->
    tget sy 2 = yc ->
    tbatch sy = B ->
    tvolume sx = Vx ->
    tvolume sw = Vw ->
    tvolume sy = Vy ->
    Vy = yh * yw * yc ->
    Vx = xh * xw * xc ->
    Vw = wh * ww * xc * yc ->
    0 < wh ->
    0 < ww ->
    tbatch sx = 1 \/ tbatch sx = B ->
    tbatch sw = 1 \/ tbatch sw = B ->
    forall (T : Type) (zero : T) (add mul : T -> T -> T) (x w : list T) (bn y_c y_x y_y : nat),
    bn < B ->
    y_c < yc ->
    y_x < yw ->
    y_y < yh ->
    nth (bn * Vy + ((y_c * yw + y_x) * yh + y_y))
      (incr_run T zero add (bil_incr T zero mul (conv2d_triples sx sw sy p0 p1 s0 s1 d0 d1) x w)
         (repeat zero (tsize sy))) zero =
    fold_left add
      (map snd
         (bil_incr T zero mul
            (conv_group sx sw xh xw xc wh ww yh yw Vx Vw Vy p0 p1 s0 s1 d0 d1 bn y_c y_x y_y) x w)) zero.
Proof. exact conv2d_value. Qed.
Print Assumptions C03_conv2d_value.

(* ---- non-vacuity: x + k over nat, x batched (B = 2, two samples of a 2-vector), k shared ---- *)
Example C03_nonvacuous :
  let e := Bin nat Nat.add (Leaf nat (mkT [2] 2) [1; 2; 3; 4]) (Leaf nat (mkT [2] 1) [10; 20]) in
  wf nat 0 2 e /\
  eval nat 0 e = (mkT [2] 2, [11; 22; 13; 24]) /\
  eval nat 0 (esample nat 1 e) = (mkT [2] 1, [13; 24]).
Proof. vm_compute. repeat split; auto. Qed.

(* the sum over samples reaching a shared operand: B = 2, V = 2, increments 1 2 | 3 4 on top of 100 200 *)
Example C03_nonvacuous_fold :
  scatter nat 0 Nat.add (slots_a (ab_bw (mkT [2] 1) (mkT [2] 2) (mkT [2] 2))) [1; 2; 3; 4] [100; 200]
  = [104; 206].
Proof. vm_compute. reflexivity. Qed.
