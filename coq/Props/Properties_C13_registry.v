(* C13 x C16 -- the entries of a model file are the registry's enumeration, and a loaded key finds
   its Parameter through the registry's path lookup.
   Nothing but statements closed by `exact <lemma>` and Print Assumptions.

   [store]: io-level Parameter records (FileFormat.param) indexed by the registry's parameter
   ids; [model_file_entries s w m]: what Model::save of model m writes (FileFormat.entries built
   from ModelReg.get_all_parameters); [load_model_reg ws w' m']: Model::load of model m' - the
   loop of FileFormat.load_model with `params.find(key)` taken in get_all_parameters w' m' and
   load_inner run on the store record of the Parameter found.
   Shared objects: a Parameter registered under two paths (diamond, or the same object in two
   models) is written once per path with identical content; a load assigns it once per path, in
   file order.  The io engine's state has one record PER PATH; it coincides with the store
   exactly for registries without shared objects ([distinct_objects]); the round trip below
   also covers shared objects ([compatible]). *)
From Coq Require Import List Arith NArith Bool Sorted.
From PV Require Import Base.U32 Base.Err Shape.ShapeImpl Shape.ShapeSpec Shape.ShapeProofs Msgpack.Codec Msgpack.FileFormat
  Msgpack.FileProofs Msgpack.LoadAtomic Msgpack.FileRoundtrip.
From PV Require Import Registry.ModelReg Registry.RegOrder Registry.RegGraph Registry.RegProofs Registry.RegFile.
Import ListNotations.

(* The saved file holds exactly the full hierarchical paths of the parameters reachable from m,
   each once, with the record of the Parameter at that path, in std::map order: the registry's
   sorted order IS the io engine's order (sort_entries is the identity on it). *)
Theorem C13_saved_keys_are_exact_paths n w m s : reachable_world n w ->
  exists l, get_all_parameters w m = Some l /\
    model_file_entries s w m = entries_of s l /\ map fst (model_file_entries s w m) = map fst l /\
    sorted l /\ esorted (model_file_entries s w m) /\
    sort_entries (model_file_entries s w m) = model_file_entries s w m /\
    (forall k, In k (map fst (model_file_entries s w m)) <-> exists p, reach_param w m k p) /\
    (forall k r, In (k, r) (model_file_entries s w m) <-> exists p, reach_param w m k p /\ r = s p).
Proof. exact (fun H => saved_keys_are_exact_paths n w m s (reachable_Inv n w H)). Qed.
Print Assumptions C13_saved_keys_are_exact_paths.

(* ... so the hypothesis `NoDup (map fst es)` of C13_file_roundtrip_model holds for every
   reachable registry, shared objects or not (paths are distinct even when objects are not). *)
Theorem C13_saved_keys_nodup n w m s : reachable_world n w -> NoDup (map fst (model_file_entries s w m)).
Proof. exact (fun H => saved_keys_nodup n w m s (reachable_Inv n w H)). Qed.
Print Assumptions C13_saved_keys_nodup.

(* Model::load's params.find(key) is the hierarchical lookup get_parameter; every key of a file
   saved from m resolves in a model of the same structure, every other key is rejected. *)
Theorem C13_load_resolves_exactly_saved_keys n w m n' w' m' s l' : reachable_world n w -> reachable_world n' w' ->
  same_structure w m w' m' -> get_all_parameters w' m' = Some l' ->
  (forall k, map_find k l' = get_parameter w' m' k) /\
  (forall k, In k (map fst (model_file_entries s w m)) -> exists p', get_parameter w' m' k = Some p') /\
  (forall k, ~ In k (map fst (model_file_entries s w m)) -> get_parameter w' m' k = None).
Proof. exact (fun H H' => load_resolves_exactly_saved_keys n w m n' w' m' s l' (reachable_Inv n w H) (reachable_Inv n' w' H')). Qed.
Print Assumptions C13_load_resolves_exactly_saved_keys.

(* Round trip through the registry: save m (records s), load (same with_stats) into a model m' of
   the same structure whose parameters hold anything (s0): the load succeeds, consumes exactly
   the file, every Parameter of m' ends as the saved record of the Parameter of m under the same
   path (valid, saved shape and value words, zero gradient, statistics iff with_stats), and no
   other Parameter is touched.  [compatible]: two paths that end at the same object of m' carry
   the same record in the file. *)
Theorem C13_model_roundtrip_registry ws n w m n' w' m' s s0 rest :
  reachable_world n w -> reachable_world n' w' -> same_structure w m w' m' ->
  (forall k p, reach_param w m k p -> wf_path k /\ wf_param (s p)) ->
  (N.of_nat (length (model_file_entries s w m)) < 2 ^ 32)%N ->
  compatible s w m w' m' ->
  exists s', load_model_reg ws w' m' (enc_model_file ws (model_file_entries s w m) ++ rest, s0) = (Some tt, (rest, s')) /\
    (forall k p p', reach_param w m k p -> reach_param w' m' k p' -> s' p' = loaded ws (s p)) /\
    (forall q, (forall k, ~ reach_param w' m' k q) -> s' q = s0 q).
Proof. exact (fun H H' => model_roundtrip_registry ws n w m n' w' m' s s0 rest (reachable_Inv n w H) (reachable_Inv n' w' H')). Qed.
Print Assumptions C13_model_roundtrip_registry.

(* [compatible] holds when the loading model has no shared objects ... *)
Theorem C13_compatible_distinct_objects n w m w' m' s : reachable_world n w ->
  distinct_objects w' m' -> compatible s w m w' m'.
Proof. exact (fun H => compatible_distinct n w m w' m' s (reachable_Inv n w H)). Qed.
Print Assumptions C13_compatible_distinct_objects.

(* ... and when a model is loaded back into itself, whatever it shares (diamonds included). *)
Theorem C13_compatible_same_model n w m s : reachable_world n w -> compatible s w m w m.
Proof. exact (fun H => compatible_same n w m s (reachable_Inv n w H)). Qed.
Print Assumptions C13_compatible_same_model.

(* The io engine's Model::load (one record per path) IS the registry-level load seen through the
   enumeration, on every input, for loading models without shared objects. *)
Theorem C13_registry_load_refines_io ws n w m l : reachable_world n w -> get_all_parameters w m = Some l ->
  NoDup (map snd l) ->
  forall b s, load_model ws (b, entries_of s l) = lift_state l (load_model_reg ws w m (b, s)).
Proof. exact (fun H => load_model_reg_refines_io ws n w m l (reachable_Inv n w H)). Qed.
Print Assumptions C13_registry_load_refines_io.

(* The composition with C13_file_roundtrip_model (its hypotheses discharged from the registry). *)
Theorem C13_model_roundtrip_registry_via_io ws n w m n' w' m' l l' s s0 rest :
  reachable_world n w -> reachable_world n' w' ->
  get_all_parameters w m = Some l -> get_all_parameters w' m' = Some l' ->
  same_structure w m w' m' ->
  (forall k p, reach_param w m k p -> wf_path k /\ wf_param (s p)) ->
  (N.of_nat (length l) < 2 ^ 32)%N -> distinct_objects w' m' ->
  lift_state l' (load_model_reg ws w' m' (enc_model_file ws (entries_of s l) ++ rest, s0)) =
    (Some tt, (rest, map (fun kp => (fst kp, loaded ws (snd kp))) (entries_of s l))).
Proof. exact (fun H H' => model_roundtrip_registry_via_io ws n w m n' w' m' l l' s s0 rest (reachable_Inv n w H) (reachable_Inv n' w' H')). Qed.
Print Assumptions C13_model_roundtrip_registry_via_io.

(* C14_load_atomic_model carried over: whatever the file, success or failure at any point, every
   Parameter reachable in the loading model is as it was or one completely read record. *)
Theorem C14_load_atomic_registry ws n w m l file s res b' s' : reachable_world n w ->
  get_all_parameters w m = Some l -> distinct_objects w m ->
  load_model_reg ws w m (file, s) = (res, (b', s')) ->
  forall k p, reach_param w m k p -> s' p = s p \/ complete_record ws file (s' p).
Proof. exact (fun H => load_model_reg_atomic ws n w m l file s res b' s' (reachable_Inv n w H)). Qed.
Print Assumptions C14_load_atomic_registry.

(* Any well-formed model file loaded into ANY model (same structure or not): the load performs
   exactly the assignments of ModelReg.model_load_plan (for every key in file order: find it in
   get_all_parameters of the loading model; unknown key = Error, what was loaded before stays),
   each with the completely read record.  This is the abstraction at which the correspondence
   run (harness/reg_drv.cc, ops `sl` / `pv`) executes the real Model::save / Model::load. *)
Theorem C13_registry_load_any_model ws n' w' m' (es : entries) rest s0 : reachable_world n' w' ->
  Forall wf_entry es -> (N.of_nat (length es) < 2 ^ 32)%N ->
  exists b', load_model_reg ws w' m' (enc_model_file ws es ++ rest, s0) =
               (fst (model_load_plan w' m' es), (b', apply_plan ws (snd (model_load_plan w' m' es)) s0)) /\
             (fst (model_load_plan w' m' es) = Some tt -> b' = rest).
Proof. exact (fun H => load_model_reg_any ws n' w' m' es rest s0 (reachable_Inv n' w' H)). Qed.
Print Assumptions C13_registry_load_any_model.

(* ---- non-vacuity: the 3-level hierarchy of Properties_C16 (diamond: model 3 under "a" and "b";
   Parameter 0 registered as root "w" and as "b"/""; Parameter 1 under a/c/x and b/c/x) *)
Definition nA : name := [97%N].
Definition nB : name := [98%N].
Definition nC : name := [99%N].
Definition nW : name := [119%N].
Definition nX : name := [120%N].
Definition nE : name := [].
Definition hist3 : list op :=
  [AddP 0 nW 0; AddM 0 nA 1; AddM 0 nB 2; AddM 1 nC 3; AddM 2 nC 3; AddP 3 nX 1; AddP 1 nX 2; AddP 2 nE 0].
Definition w3 : world := run hist3 (empty_world 4).
(* the same structure without shared objects: "c" under "b" is model 4, parameters 10..14 *)
Definition hist5 : list op :=
  [AddP 0 nW 14; AddM 0 nA 1; AddM 0 nB 2; AddM 1 nC 3; AddM 2 nC 4; AddP 3 nX 10; AddP 1 nX 11; AddP 2 nE 12; AddP 4 nX 13].
Definition w5 : world := run hist5 (empty_world 5).

(* [rec p], [blank], [wf_rec]: example records, defined in Registry/RegFile.v *)
Example C13_registry_nonvacuous_worlds :
  reachable_world 4 w3 /\ reachable_world 5 w5 /\ wf_param (rec 0) /\ wf_param (rec 1) /\ wf_param (rec 2) /\
  map fst (model_file_entries rec w3 0) = [[nA; nC; nX]; [nA; nX]; [nB; nE]; [nB; nC; nX]; [nW]] /\
  map fst (model_file_entries rec w5 0) = map fst (model_file_entries rec w3 0) /\
  get_all_parameters w5 0 = Some [([nA; nC; nX], 10); ([nA; nX], 11); ([nB; nE], 12); ([nB; nC; nX], 13); ([nW], 14)].
Proof.
  split; [exists hist3; split; [unfold hist3; repeat constructor|reflexivity]|].
  split; [exists hist5; split; [unfold hist5; repeat constructor|reflexivity]|].
  split; [apply wf_rec; vm_compute; reflexivity|]. split; [apply wf_rec; vm_compute; reflexivity|].
  split; [apply wf_rec; vm_compute; reflexivity|]. vm_compute. repeat split.
Qed.

(* save the diamond hierarchy (with statistics), load it back into ITSELF from blank parameters:
   parameters 0, 1, 2 come back (each assigned once per path), parameter 3 (not registered)
   stays blank, the whole file is consumed; without statistics the statistics stay empty *)
Example C13_registry_nonvacuous_same_model :
  (let r := load_model_reg true w3 0 (enc_model_file true (model_file_entries rec w3 0) ++ [7%N], blank) in
   fst r = Some tt /\ fst (snd r) = [7%N] /\
   map (snd (snd r)) [0; 1; 2; 3] = [loaded true (rec 0); loaded true (rec 1); loaded true (rec 2); blank 3]) /\
  (let r := load_model_reg false w3 0 (enc_model_file false (model_file_entries rec w3 0), blank) in
   fst r = Some tt /\ map (snd (snd r)) [0; 1; 2] = [loaded false (rec 0); loaded false (rec 1); loaded false (rec 2)] /\
   p_stats (snd (snd r) 1) = []).
Proof. vm_compute. repeat split. Qed.

(* load the file of the diamond hierarchy into the structurally equal hierarchy without shared
   objects: every path receives the record saved under it (10 and 13 both that of parameter 1) *)
Example C13_registry_nonvacuous_fresh_hierarchy :
  let r := load_model_reg true w5 0 (enc_model_file true (model_file_entries rec w3 0), blank) in
  fst r = Some tt /\ fst (snd r) = [] /\
  map (snd (snd r)) [10; 11; 12; 13; 14; 0] =
    [loaded true (rec 1); loaded true (rec 2); loaded true (rec 0); loaded true (rec 1); loaded true (rec 0); blank 0].
Proof. vm_compute. repeat split. Qed.
Print Assumptions C13_registry_nonvacuous_fresh_hierarchy.

(* what [compatible] excludes: the file of the hierarchy WITHOUT shared objects loaded into the
   diamond hierarchy assigns the shared Parameter 1 twice with different records; the load still
   succeeds and the object keeps the record of the last path in map order (b/c/x = 13, not 10) *)
Example C13_registry_shared_target_last_path_wins :
  let r := load_model_reg true w3 0 (enc_model_file true (model_file_entries rec w5 0), blank) in
  fst r = Some tt /\ snd (snd r) 1 = loaded true (rec 13) /\ snd (snd r) 1 <> loaded true (rec 10) /\
  ~ compatible rec w5 0 w3 0.
Proof.
  split; [vm_compute; reflexivity|]. split; [vm_compute; reflexivity|]. split; [vm_compute; discriminate|].
  intros H.
  assert (R : forall w m k p, get_parameter w m k = Some p -> reachable_world (length w) w -> reach_param w m k p).
  { intros w m k p G Hw. apply (get_parameter_spec (length w) w (reachable_Inv _ _ Hw)). exact G. }
  assert (H3 : reachable_world 4 w3) by apply C13_registry_nonvacuous_worlds.
  assert (H5 : reachable_world 5 w5) by apply C13_registry_nonvacuous_worlds.
  assert (G1 : get_parameter w3 0 [nA; nC; nX] = Some 1) by (vm_compute; reflexivity).
  assert (G2 : get_parameter w3 0 [nB; nC; nX] = Some 1) by (vm_compute; reflexivity).
  assert (G3 : get_parameter w5 0 [nA; nC; nX] = Some 10) by (vm_compute; reflexivity).
  assert (G4 : get_parameter w5 0 [nB; nC; nX] = Some 13) by (vm_compute; reflexivity).
  specialize (H [nA; nC; nX] [nB; nC; nX] 1 10 13 (R w3 0 _ _ G1 H3) (R w3 0 _ _ G2 H3) (R w5 0 _ _ G3 H5) (R w5 0 _ _ G4 H5)).
  vm_compute in H. discriminate H.
Qed.
Print Assumptions C13_registry_shared_target_last_path_wins.

(* an unknown key is rejected: the file of a model with one more parameter does not load *)
Example C13_registry_unknown_key_rejected :
  let w6 := run (hist5 ++ [AddP 4 nW 15]) (empty_world 5) in
  fst (load_model_reg true w5 0 (enc_model_file true (model_file_entries rec w6 0), blank)) = None /\
  get_parameter w5 0 [nB; nC; nW] = None /\ get_parameter w6 0 [nB; nC; nW] = Some 15.
Proof. vm_compute. repeat split. Qed.
Print Assumptions C13_registry_unknown_key_rejected.
