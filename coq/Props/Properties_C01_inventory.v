(* C01 (and C02, C08: they read the same generated formulas) -- completeness of the translation of
   primitiv/devices/naive/ops.  Nothing but statements closed by `exact <lemma>`.

   Gen/ScalarInventory.v is regenerated from the tree on every check and lists EVERY *.cc of the
   directory (with the number of CPUDEV_* invocations and of hand-written Naive:: functions, and how
   many of each the translator turned into definitions of Gen/ScalarGen.v), EVERY macro defined in
   common.h, and every preprocessor directive other than #include inside the translated text.
   The theorems say that nothing in the directory is ignored in silence:
     - a file is either elementwise with every invocation and every hand-written function translated,
       or a kernel on the reviewed list Scalar/Inventory.v reviewed_kernels with the reviewed number
       of functions and no macro invocation; never UNKNOWN (new file, new hand-written kernel, an
       invocation of a macro kind the translator does not read);
     - every macro of common.h is a kind the translator reads or a helper with the reviewed body;
     - there is no #if / #ifdef / #else / #undef / local #define in the translated text.
   What they do NOT say: that the reading of a recognised construct is right (that is validated by
   the formula-vs-kernel run of engines/scalar.py). *)
From Coq Require Import String List.
From PV Require Import Scalar.Inventory Gen.ScalarInventory Scalar.InventoryCheck.
Import ListNotations.
Local Open Scope string_scope.

Theorem C01_inventory_every_file_translated_or_reviewed e :
  In e inv_files ->
  (fe_class e = FElementwise /\ fe_inv_translated e = fe_invocations e /\ fe_fn_translated e = fe_functions e)
  \/ (fe_class e = FKernel /\ fe_invocations e = 0 /\ In (fe_name e, fe_functions e) reviewed_kernels).
Proof. exact (every_file_classified e). Qed.
Print Assumptions C01_inventory_every_file_translated_or_reviewed.

Theorem C01_inventory_no_unknown_file e : In e inv_files -> fe_class e <> FUnknown.
Proof. exact (fun H => file_ok_not_unknown e (every_file_accounted_for e H)). Qed.
Print Assumptions C01_inventory_no_unknown_file.

Theorem C01_inventory_no_unknown_macro m : In m inv_macros -> snd m <> MUnknown.
Proof. exact (every_macro_known m). Qed.
Print Assumptions C01_inventory_no_unknown_macro.

Theorem C01_inventory_no_conditional_compilation : inv_conditionals = [].
Proof. exact no_conditional_compilation. Qed.
Print Assumptions C01_inventory_no_conditional_compilation.

(* non-vacuity: the inventory is populated (more than 15 elementwise files, more than 25 kernels),
   exp.cc is elementwise with its two invocations, pown.cc with its two hand-written functions,
   conv2d.cc is a reviewed kernel, the macro list contains a kind and the loop helper *)
Example C01_inventory_nonvacuous :
  Nat.ltb 15 (count_class FElementwise inv_files) = true /\
  Nat.ltb 25 (count_class FKernel inv_files) = true /\
  option_map fe_class (find_file "exp.cc" inv_files) = Some FElementwise /\
  option_map fe_invocations (find_file "exp.cc" inv_files) = Some 2 /\
  option_map fe_class (find_file "pown.cc" inv_files) = Some FElementwise /\
  option_map fe_functions (find_file "pown.cc" inv_files) = Some 2 /\
  option_map fe_class (find_file "conv2d.cc" inv_files) = Some FKernel /\
  In ("CPUDEV_FW_X", MKind) inv_macros /\ In ("REPEAT_OP", MHelper) inv_macros.
Proof. exact inventory_nonvacuous. Qed.
Print Assumptions C01_inventory_nonvacuous.
