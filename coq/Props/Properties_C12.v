(* C12 -- Optimizers implement their update rules over arbitrary training histories.
   Nothing but statements closed by `exact <lemma>`, Print Assumptions and non-vacuity examples.
   The statements are generic in the scalar type T and its operations O (Section variables);
   the ring laws are hypotheses of the <alg>_equations theorems ONLY (float32 is not a ring:
   there the tie is the bit-for-bit correspondence run of engines/c12.py).  Everything else
   (order, frame, epoch, registration, sign checks, invariant) uses no law on the scalars. *)
From Coq Require Import List NArith ZArith Bool String Arith Lia Reals Ring_theory.
From PV Require Import Base.Scalar Optim.OptModel Optim.OptLemmas Optim.OptProofs Optim.OptInv
  Optim.OptClipR Optim.OptExamples.
Import ListNotations.
Local Open Scope string_scope.

Section C12.
Variable T : Type.
Variable O : ops T.
Hypothesis Rth : is_ring O.          (* commutative ring; division and sqrt stay uninterpreted *)
Hypothesis Homp : somp_exact O.      (* somp b n = 1 - b^n *)

Declare Scope S_scope.
Delimit Scope S_scope with S.
Notation "x + y" := (sadd O x y) : S_scope.
Notation "x - y" := (ssub O x y) : S_scope.
Notation "x * y" := (smul O x y) : S_scope.
Notation "x / y" := (sdiv O x y) : S_scope.
Notation "1" := (sone O) : S_scope.
Notation "x ^ n" := (spown O x n) : S_scope.
Notation sqrt := (ssqrt O).
Notation el := (el T O).
Notation len := (@List.length T).

(* s = learning-rate scaling, g = the gradient update_parameter receives (after decay and
   clipping, see C12_update_order), i ranges over the elements of the parameter. *)

(* SGD: theta' = theta - (s eta) g; no statistics *)
Theorem C12_sgd_equations eta ep s (p p' : param T) n :
  update_parameter T O (SGD eta) ep s p = Some p' ->
  len (p_value p) = n -> len (p_grad p) = n ->
  p_stats p' = p_stats p /\ len (p_value p') = n /\
  forall i, i < n -> (el (p_value p') i = el (p_value p) i - (s * eta) * el (p_grad p) i)%S.
Proof. exact (sgd_equations T O Rth eta ep s p p' n). Qed.

(* MomentumSGD: m' = mu m - (s eta) g; theta' = theta + m' *)
Theorem C12_momentum_sgd_equations eta mu ep s (p p' : param T) m n :
  update_parameter T O (MomentumSGD eta mu) ep s p = Some p' ->
  get_stat "MomentumSGD.m" (p_stats p) = Some m ->
  len (p_value p) = n -> len (p_grad p) = n -> len m = n ->
  exists m', get_stat "MomentumSGD.m" (p_stats p') = Some m' /\ len m' = n /\ len (p_value p') = n /\
  forall i, i < n ->
    (el m' i = mu * el m i - (s * eta) * el (p_grad p) i /\
     el (p_value p') i = el (p_value p) i + el m' i)%S.
Proof. exact (momentum_sgd_equations T O Rth eta mu ep s p p' m n). Qed.

(* AdaGrad: m' = m + g g; theta' = theta - (s eta) g / (sqrt m' + eps) *)
Theorem C12_adagrad_equations eta eps ep s (p p' : param T) m n :
  update_parameter T O (AdaGrad eta eps) ep s p = Some p' ->
  get_stat "AdaGrad.m" (p_stats p) = Some m ->
  len (p_value p) = n -> len (p_grad p) = n -> len m = n ->
  exists m', get_stat "AdaGrad.m" (p_stats p') = Some m' /\ len m' = n /\ len (p_value p') = n /\
  forall i, i < n ->
    (el m' i = el m i + el (p_grad p) i * el (p_grad p) i /\
     el (p_value p') i = el (p_value p) i - ((s * eta) * el (p_grad p) i) / (sqrt (el m' i) + eps))%S.
Proof. exact (adagrad_equations T O Rth eta eps ep s p p' m n). Qed.

(* RMSProp: m' = alpha m + (1 - alpha) g g; theta' = theta - (s eta) g / (sqrt m' + eps) *)
Theorem C12_rmsprop_equations eta alpha eps ep s (p p' : param T) m n :
  update_parameter T O (RMSProp eta alpha eps) ep s p = Some p' ->
  get_stat "RMSProp.m" (p_stats p) = Some m ->
  len (p_value p) = n -> len (p_grad p) = n -> len m = n ->
  exists m', get_stat "RMSProp.m" (p_stats p') = Some m' /\ len m' = n /\ len (p_value p') = n /\
  forall i, i < n ->
    (el m' i = alpha * el m i + (1 - alpha) * (el (p_grad p) i * el (p_grad p) i) /\
     el (p_value p') i = el (p_value p) i - ((s * eta) * el (p_grad p) i) / (sqrt (el m' i) + eps))%S.
Proof. exact (rmsprop_equations T O Rth eta alpha eps ep s p p' m n). Qed.

(* AdaDelta: m2' = rho m2 + (1 - rho) g g; dx = sqrt((m1 + eps) / (m2' + eps)) g;
             m1' = rho m1 + (1 - rho) dx dx; theta' = theta - s dx *)
Theorem C12_adadelta_equations rho eps ep s (p p' : param T) m1 m2 n :
  update_parameter T O (AdaDelta rho eps) ep s p = Some p' ->
  get_stat "AdaDelta.m1" (p_stats p) = Some m1 -> get_stat "AdaDelta.m2" (p_stats p) = Some m2 ->
  len (p_value p) = n -> len (p_grad p) = n -> len m1 = n -> len m2 = n ->
  exists m1' m2' dx,
  get_stat "AdaDelta.m1" (p_stats p') = Some m1' /\ get_stat "AdaDelta.m2" (p_stats p') = Some m2' /\
  len m1' = n /\ len m2' = n /\ len dx = n /\ len (p_value p') = n /\
  forall i, i < n ->
    (el m2' i = rho * el m2 i + (1 - rho) * (el (p_grad p) i * el (p_grad p) i) /\
     el dx i = sqrt ((el m1 i + eps) / (el m2' i + eps)) * el (p_grad p) i /\
     el m1' i = rho * el m1 i + (1 - rho) * (el dx i * el dx i) /\
     el (p_value p') i = el (p_value p) i - s * el dx i)%S.
Proof. exact (adadelta_equations T O Rth rho eps ep s p p' m1 m2 n). Qed.

(* Adam with t = epoch + 1 (mod 2^32): m1' = b1 m1 + (1 - b1) g; m2' = b2 m2 + (1 - b2) g g;
   theta' = theta - (s alpha) (m1' / (1 - b1^t)) / (sqrt (m2' / (1 - b2^t)) + eps) *)
Theorem C12_adam_equations alpha b1 b2 eps ep s (p p' : param T) m1 m2 n :
  update_parameter T O (Adam alpha b1 b2 eps) ep s p = Some p' ->
  get_stat "Adam.m1" (p_stats p) = Some m1 -> get_stat "Adam.m2" (p_stats p) = Some m2 ->
  len (p_value p) = n -> len (p_grad p) = n -> len m1 = n -> len m2 = n ->
  let t := u32_succ ep in
  exists m1' m2',
  get_stat "Adam.m1" (p_stats p') = Some m1' /\ get_stat "Adam.m2" (p_stats p') = Some m2' /\
  len m1' = n /\ len m2' = n /\ len (p_value p') = n /\
  forall i, i < n ->
    (el m1' i = b1 * el m1 i + (1 - b1) * el (p_grad p) i /\
     el m2' i = b2 * el m2 i + (1 - b2) * (el (p_grad p) i * el (p_grad p) i) /\
     el (p_value p') i =
       el (p_value p) i - ((s * alpha) * (el m1' i / (1 - b1 ^ t))) / (sqrt (el m2' i / (1 - b2 ^ t)) + eps))%S.
Proof. exact (adam_equations T O Rth Homp alpha b1 b2 eps ep s p p' m1 m2 n). Qed.

(* every rule leaves the gradient, the set of statistics names and the statistics of other
   names alone (no law on the scalars) *)
Theorem C12_rule_frame a ep sc (p p' : param T) :
  update_parameter T O a ep sc p = Some p' ->
  p_grad p' = p_grad p /\ map fst (p_stats p') = map fst (p_stats p) /\
  (forall n, ~ In n (stat_names a) -> get_stat n (p_stats p') = get_stat n (p_stats p)).
Proof. exact (update_parameter_frame T O a ep sc p p'). Qed.

(* update(): weight decay (grad += l2 * value, when l2 > 0) first, then clipping by the joint
   norm sq of the DECAYED gradients of all registered parameters (scaling by clip / sqrt sq when
   clip > 0 and sq > clip^2), then the rule with the current epoch and lr scaling, then
   epoch + 1; unregistered parameters keep everything. *)
Theorem C12_update_order (s s' : state T) : NoDup (o_reg (st_opt s)) -> update T O s = Some s' ->
  let o := st_opt s in
  st_opt s' = with_epoch o (u32_succ (o_epoch o)) /\
  List.length (st_params s') = List.length (st_params s) /\
  (forall j, ~ In j (o_reg o) -> nth_error (st_params s') j = nth_error (st_params s) j) /\
  exists ps1 sq,
    decay_phase T O o (st_params s) = Some ps1 /\
    (sltb O (szero O) (o_clip o) = true -> sq_norm T O (o_reg o) ps1 (szero O) = Some sq) /\
    (forall j, In j (o_reg o) -> exists p p', get_param (st_params s) j = Some p /\
       update_parameter T O (o_alg o) (o_epoch o) (o_lr_scale o) (clipped T O o sq (decayed T O o p)) = Some p' /\
       get_param (st_params s') j = Some p').
Proof. exact (update_spec T O s s'). Qed.

Theorem C12_epoch_increments (s s' : state T) : update T O s = Some s' ->
  o_epoch (st_opt s') = ((o_epoch (st_opt s) + 1) mod 4294967296)%N /\
  o_alg (st_opt s') = o_alg (st_opt s) /\ o_lr_scale (st_opt s') = o_lr_scale (st_opt s) /\
  o_l2 (st_opt s') = o_l2 (st_opt s) /\ o_clip (st_opt s') = o_clip (st_opt s) /\
  o_reg (st_opt s') = o_reg (st_opt s).
Proof. exact (epoch_increments T O s s'). Qed.

Theorem C12_touches_only_registered (s s' : state T) j : update T O s = Some s' ->
  ~ In j (o_reg (st_opt s)) -> nth_error (st_params s') j = nth_error (st_params s) j.
Proof. exact (touches_only_registered T O s s' j). Qed.

(* on a well-formed state update() cannot throw, and the state stays well formed *)
Theorem C12_update_total (s : state T) : wf T s -> exists s', update T O s = Some s'.
Proof. exact (update_total T O s). Qed.

Theorem C12_update_preserves_invariant (s s' : state T) : wf T s -> update T O s = Some s' -> wf T s'.
Proof. exact (update_preserves_wf T O s s'). Qed.

(* registering a parameter twice / a model twice has no additional effect *)
Theorem C12_add_idempotent i (s s' : state T) : add_param T O i s = Some s' -> add_param T O i s' = Some s'.
Proof. exact (add_idempotent T O i s s'). Qed.

Theorem C12_add_model_idempotent ids (s s' : state T) :
  add_params T O ids s = Some s' -> add_params T O ids s' = Some s'.
Proof. exact (add_params_idempotent T O ids s s'). Qed.

(* a first registration appends the parameter, touches no other parameter and only creates
   the statistics that are missing (existing ones are kept with their contents) *)
Theorem C12_add_effect i (s s' : state T) : add_param T O i s = Some s' -> ~ In i (o_reg (st_opt s)) ->
  o_reg (st_opt s') = (o_reg (st_opt s) ++ [i])%list /\
  st_opt s' = with_reg (st_opt s) (o_reg (st_opt s) ++ [i])%list /\
  (forall j, j <> i -> nth_error (st_params s') j = nth_error (st_params s) j) /\
  (stat_names (o_alg (st_opt s)) = [] -> st_params s' = st_params s) /\
  (stat_names (o_alg (st_opt s)) <> [] -> exists p, get_param (st_params s) i = Some p /\
     get_param (st_params s') i = Some (configure_names T O (stat_names (o_alg (st_opt s))) p)).
Proof. exact (add_param_spec T O i s s'). Qed.

Theorem C12_configure_keeps_statistics names (p : param T) :
  let q := configure_names T O names p in
  p_value q = p_value p /\ p_grad q = p_grad p /\
  (forall n v, get_stat n (p_stats p) = Some v -> get_stat n (p_stats q) = Some v) /\
  (forall n, In n names -> get_stat n (p_stats p) = None ->
     get_stat n (p_stats q) = Some (zeros_like T O (p_value p))) /\
  (forall n, ~ In n names -> get_stat n (p_stats q) = get_stat n (p_stats p)).
Proof. exact (configure_names_spec T O names p). Qed.

(* negative scaling / decay / clipping settings are rejected: by the setters, by set_configs
   (= Optimizer::load, C API config setter), and hence along every sequence of calls *)
Theorem C12_negative_setters_rejected x (o : optimizer T) : sltb O x (szero O) = true ->
  set_lr_scale T O x o = None /\ set_weight_decay T O x o = None /\ set_clipping T O x o = None.
Proof. exact (negative_setters_rejected T O x o). Qed.

Theorem C12_set_configs_negative_rejected uc fc (o : optimizer T) key v :
  key = "Optimizer.lr_scale" \/ key = "Optimizer.l2_strength" \/ key = "Optimizer.clip_threshold" ->
  find_cfg key fc = Some v -> sltb O v (szero O) = true -> set_configs T O uc fc o = None.
Proof. exact (set_configs_negative_rejected T O uc fc o key v). Qed.

Theorem C12_negative_settings_rejected (l : list (api T)) (s : state T) :
  settings_ok T O (st_opt s) -> settings_ok T O (st_opt (fold_left (fun s a => run_api T O a s) l s)).
Proof. exact (negative_settings_rejected T O l s). Qed.

End C12.

(* gradient clipping over the reals *)
Theorem C12_clip_bounds_norm (o : optimizer R) (ps ps' : store R) :
  NoDup (o_reg o) -> (0 < o_clip o)%R -> clip_phase R Rops o ps = Some ps' ->
  exists S S',
    sq_norm R Rops (o_reg o) ps 0%R = Some S /\ sq_norm R Rops (o_reg o) ps' 0%R = Some S' /\
    (S' <= o_clip o * o_clip o)%R /\
    ((S <= o_clip o * o_clip o)%R -> ps' = ps) /\
    ((o_clip o * o_clip o < S)%R ->
       S' = (o_clip o * o_clip o)%R /\
       forall j, In j (o_reg o) -> exists p, get_param ps j = Some p /\
         get_param ps' j = Some (upd_grad p (ip_mulc R Rops (p_grad p) (o_clip o / sqrt S)%R))).
Proof. exact (clip_bounds_norm o ps ps'). Qed.

Print Assumptions C12_sgd_equations.
Print Assumptions C12_momentum_sgd_equations.
Print Assumptions C12_adagrad_equations.
Print Assumptions C12_rmsprop_equations.
Print Assumptions C12_adadelta_equations.
Print Assumptions C12_adam_equations.
Print Assumptions C12_rule_frame.
Print Assumptions C12_update_order.
Print Assumptions C12_epoch_increments.
Print Assumptions C12_touches_only_registered.
Print Assumptions C12_update_total.
Print Assumptions C12_update_preserves_invariant.
Print Assumptions C12_add_idempotent.
Print Assumptions C12_add_model_idempotent.
Print Assumptions C12_add_effect.
Print Assumptions C12_configure_keeps_statistics.
Print Assumptions C12_negative_setters_rejected.
Print Assumptions C12_set_configs_negative_rejected.
Print Assumptions C12_negative_settings_rejected.
Print Assumptions C12_clip_bounds_norm.

(* non-vacuity: the integers are a commutative ring with an exact [somp]; a concrete Adam state
   with decay and clipping on (one registered, one unregistered parameter) is well formed, its
   update succeeds, meets the hypotheses of C12_adam_equations, moves the registered parameter
   and keeps the other one; a negative setting is rejected by setter and set_configs. *)
Example C12_nonvacuous :
  is_ring Zops /\ somp_exact Zops /\ wf Z ex_state /\
  (exists s', update Z Zops ex_state = Some s' /\
     o_epoch (st_opt s') = 5%N /\
     get_param (st_params s') 1 = Some ex_p1 /\
     (exists p', get_param (st_params s') 0 = Some p' /\ p_value p' <> p_value ex_p0 /\
        get_stat "Adam.m1" (p_stats p') = Some [-23; 54; -75]%Z /\ p_grad p' = [13; -24; 42]%Z)) /\
  (exists p', update_parameter Z Zops (Adam 2 3 5 1)%Z 4%N 3%Z ex_p0 = Some p' /\
     get_stat "Adam.m1" (p_stats ex_p0) = Some [1; 2; 3]%Z /\ List.length (p_grad ex_p0) = 3) /\
  set_lr_scale Z Zops (-1)%Z ex_opt = None /\
  set_configs Z Zops [] [("Optimizer.lr_scale", (-1)%Z)] ex_opt = None /\
  set_configs Z Zops [("Optimizer.epoch", 9%N)] [("Adam.beta1", 7%Z)] ex_opt
    = Some (mkOpt (Adam 2 7 5 1)%Z 9%N 3%Z 1%Z 100%Z [0]).
Proof.
  split; [exact Zops_ring|]. split; [exact Zops_somp|]. split.
  { split; [repeat constructor; cbn; tauto|]. split.
    - intros j [<-|[]]. exists ex_p0. split; [reflexivity|].
      intros n [<-|[<-|[]]]; eexists; split; reflexivity.
    - intros [|[|[|j]]] p H; cbn in H; inversion H; subst; reflexivity. }
  split.
  { eexists. split; [vm_compute; reflexivity|]. split; [reflexivity|]. split; [reflexivity|].
    eexists. split; [reflexivity|]. split; [discriminate|split; reflexivity]. }
  split.
  { eexists. split; [vm_compute; reflexivity|]. split; reflexivity. }
  repeat split; reflexivity.
Qed.
