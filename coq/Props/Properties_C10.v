(* C10 -- failures are exceptions and change nothing: the parts owned by the fault engine.
   (State-preservation theorems of the individual components live with their engines:
   Properties_C16 (registry), C12 (optimizer), C14 (load), C05 (graph add); the index-safety
   consequences of the guards are Properties_C11*.) *)
From Coq Require Import NArith Lia Bool List.
From PV Require Import Base.U32 Base.Err Fault.Guards Shape.ShapeImpl Shape.ShapeSpec Shape.ShapeProofs Shape.ShapeRulesExtra.
Import ListNotations.
Local Open Scope N_scope.

(* the range guard of Device::slice_bw / batch_slice_bw accepts exactly the in-range requests,
   for ALL uint32 arguments including values near 2^32 *)
Theorem C10_range_guard_sound off len n : u32 off -> u32 len -> u32 n ->
  (range_guard64 off len n = true <-> off + len <= n).
Proof. exact (range_guard64_sound off len n). Qed.
Print Assumptions C10_range_guard_sound.

(* the pre-repair 32-bit guard let out-of-range requests through: the statement above is not
   true of it (witness offset = 2^32-1) *)
Theorem C10_range_guard32_refuted : exists off len n, u32 off /\ u32 len /\ u32 n /\
  range_guard32 off len n = true /\ ~ off + len <= n.
Proof. exact range_guard32_refuted. Qed.
Print Assumptions C10_range_guard32_refuted.

(* Shape::update_dim / update_batch validate before they mutate: a rejected request is
   characterised exactly, for all uint32 arguments, and (the functions being pure in the model:
   the C++ mutates only after the last check) there is no partial update to observe *)
Theorem C10_update_dim_rejects_exactly s dim m : wf s -> u32 dim -> u32 m ->
  (update_dim s dim m = None <-> ~ update_dim_admissible s dim m).
Proof. exact (update_dim_rejects_exactly s dim m). Qed.
Print Assumptions C10_update_dim_rejects_exactly.

Example C10_nonvacuous : range_guard64 4294967295 2 3 = false /\ range_guard64 1 2 3 = true.
Proof. vm_compute. split; reflexivity. Qed.
