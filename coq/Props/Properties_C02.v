(* C02 -- forward values equal the documented function: layout part.
   The coordinate bridge of the column-major layout and the exemplar kernel (slice);
   the other kernel families are in Properties_C02_<family>.v. *)
From Coq Require Import List Arith Lia.
From PV Require Import Tensor.Kernels Tensor.Index Tensor.KernelProofs.
Import ListNotations.

(* column-major layout with the minibatch as last axis: every flat index below
   base*n*r is uniquely low + base*(k + n*high) *)
Theorem C02_layout_split base n r i : 0 < base -> 0 < n -> i < base * n * r ->
  exists low k high, low < base /\ k < n /\ high < r /\ i = flat base n low k high.
Proof. exact (flat_split base n r i). Qed.
Print Assumptions C02_layout_split.

Theorem C02_layout_unique base n l1 k1 h1 l2 k2 h2 :
  l1 < base -> l2 < base -> k1 < n -> k2 < n ->
  flat base n l1 k1 h1 = flat base n l2 k2 h2 -> l1 = l2 /\ k1 = k2 /\ h1 = h2.
Proof. exact (flat_inj base n l1 k1 h1 l2 k2 h2). Qed.
Print Assumptions C02_layout_unique.

(* volume = (product below the axis) * axis * (product above), for every axis incl. >= depth *)
Theorem C02_volume_split s d : tvolume s = tlower s d * (tget s d * tupper s d).
Proof. exact (vol_split s d). Qed.
Print Assumptions C02_volume_split.

(* slice: y[low, j, high] = x[low, j + offset, high], nothing else is read or written *)
Theorem C02_slice_fw_spec sx sy dim off base nx ny R :
  tlower sy dim = base -> tget sy dim = ny -> tget sx dim = nx ->
  tsize sy = base * ny * R -> tsize sx = base * nx * R -> off + ny <= nx -> 0 < base -> 0 < ny ->
  forall d k s, In (d, (k, s)) (slice_fw sx sy dim off) <->
    exists low j high, low < base /\ j < ny /\ high < R /\ k = 0 /\
      d = flat base ny low j high /\ s = flat base nx low (j + off) high.
Proof. exact (slice_fw_spec sx sy dim off base nx ny R). Qed.
Print Assumptions C02_slice_fw_spec.

Example C02_nonvacuous :
  let sx := mkT [2; 3; 4] 2 in let sy := mkT [2; 2; 4] 2 in
  tlower sy 1 = 2 /\ tget sy 1 = 2 /\ tget sx 1 = 3 /\ tsize sy = 2 * 2 * 8 /\
  In (flat 2 2 1 1 5, (0, flat 2 3 1 2 5)) (slice_fw sx sy 1 1).
Proof. vm_compute. repeat split; auto 60. Qed.
