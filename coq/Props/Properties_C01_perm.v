(* C01 -- flip, transpose, permute_dims, and the sum / broadcast pair of the Naive backend: the
   backward kernel's index program is (a rearrangement of) the TRANSPOSED forward program, hence
   by Index.scatter_adjoint it computes the adjoint of the (linear) forward map, accumulating on
   top of the gradient already held:
       < bw(gy) accumulated into gx , dx >  =  < gx , dx >  +  < gy , fw(dx) >
   over any commutative (semi)ring given by add / mul / zero.  `fw_out p dx n` is the output buffer
   of the forward program p run on dx (Index.assign into n cells); `mov_transposed p` is
   gx[src] += gy[dst] for every pair y[dst] := x[src] of p.
   For reductions: the groups of sum partition the input, and broadcast_fw is literally the
   transposed program of sum_fw -- the reason each is the other's backward. *)
From Coq Require Import List Arith Lia Permutation Bool.
From PV Require Import Tensor.Kernels Tensor.Index Tensor.KernelProofs Tensor.ProofsPerm.
Import ListNotations.

(* ---- generic: a backward program that rearranges the transposed forward program ---- *)
Theorem C01_perm_kernel_adjoint (T : Type) (zero : T) (add mul : T -> T -> T)
  (add_comm : forall a b, add a b = add b a)
  (add_assoc : forall a b c, add a (add b c) = add (add a b) c)
  (add_0_l : forall a, add zero a = a)
  (mul_add_distr_r : forall a b c, mul (add a b) c = add (mul a c) (mul b c))
  (mul_0_r : forall a, mul a zero = zero)
  (q : acc) (fw : mov) (n : nat) (gy gx dx : list T)
  (Hq : Permutation q (mov_transposed fw)) (Hc : covers fw n)
  (Hk : forall e, In e fw -> fst (snd e) = 0)
  (Hb : acc_in_bounds q (length gx) (length gy)) (Hl : length dx = length gx)
  (Hg : length gy = n) :
  dot T zero add mul (scatter T zero add q gy gx) dx
  = add (dot T zero add mul gx dx) (dot T zero add mul gy (fw_out T zero fw dx n)).
Proof.
  exact (kernel_adjoint T zero add mul add_comm add_assoc add_0_l mul_add_distr_r mul_0_r
           q fw n gy gx dx Hq Hc Hk Hb Hl Hg).
Qed.
Print Assumptions C01_perm_kernel_adjoint.

(* ---- flip ---- *)
(* the pair set is symmetric (flipping twice is the identity) ... *)
Theorem C01_perm_flip_symmetric (s : tshape) (dim skip n R : nat)
  (Hskip : tlower s dim = skip) (Hn : tget s dim = n) (Hs : tsize s = skip * n * R)
  (Hs0 : 0 < skip) (Hn0 : 0 < n) (d sr : nat) :
  In (d, sr) (flip_pairs s dim) -> In (sr, d) (flip_pairs s dim).
Proof. exact (flip_pairs_symmetric s dim skip n R Hskip Hn Hs Hs0 Hn0 d sr). Qed.
Print Assumptions C01_perm_flip_symmetric.

(* ... and one-to-one *)
Theorem C01_perm_flip_functional (s : tshape) (dim skip n R : nat)
  (Hskip : tlower s dim = skip) (Hn : tget s dim = n) (Hs : tsize s = skip * n * R)
  (Hs0 : 0 < skip) (Hn0 : 0 < n) (d1 s1 d2 s2 : nat) :
  In (d1, s1) (flip_pairs s dim) -> In (d2, s2) (flip_pairs s dim) -> (d1 = d2 <-> s1 = s2).
Proof. exact (flip_pairs_functional s dim skip n R Hskip Hn Hs Hs0 Hn0 d1 s1 d2 s2). Qed.
Print Assumptions C01_perm_flip_functional.

(* so flip_bw (the same pairs, accumulated) is the transposed forward program *)
Theorem C01_perm_flip_bw_transposed (s : tshape) (dim skip n R : nat)
  (Hskip : tlower s dim = skip) (Hn : tget s dim = n) (Hs : tsize s = skip * n * R)
  (Hs0 : 0 < skip) (Hn0 : 0 < n) :
  Permutation (flip_pairs s dim) (mov_transposed (acc_as_mov (flip_pairs s dim))).
Proof. exact (flip_bw_transposed s dim skip n R Hskip Hn Hs Hs0 Hn0). Qed.
Print Assumptions C01_perm_flip_bw_transposed.

Theorem C01_perm_flip_adjoint (T : Type) (zero : T) (add mul : T -> T -> T)
  (add_comm : forall a b, add a b = add b a)
  (add_assoc : forall a b c, add a (add b c) = add (add a b) c)
  (add_0_l : forall a, add zero a = a)
  (mul_add_distr_r : forall a b c, mul (add a b) c = add (mul a c) (mul b c))
  (mul_0_r : forall a, mul a zero = zero)
  (s : tshape) (dim skip n R : nat) (gy gx dx : list T)
  (Hskip : tlower s dim = skip) (Hn : tget s dim = n) (Hs : tsize s = skip * n * R)
  (Hs0 : 0 < skip) (Hn0 : 0 < n)
  (Lx : length gx = tsize s) (Ly : length gy = tsize s) (Ld : length dx = tsize s) :
  dot T zero add mul (scatter T zero add (flip_pairs s dim) gy gx) dx
  = add (dot T zero add mul gx dx)
        (dot T zero add mul gy (fw_out T zero (acc_as_mov (flip_pairs s dim)) dx (tsize s))).
Proof.
  exact (flip_adjoint T zero add mul add_comm add_assoc add_0_l mul_add_distr_r mul_0_r
           s dim skip n R gy gx dx Hskip Hn Hs Hs0 Hn0 Lx Ly Ld).
Qed.
Print Assumptions C01_perm_flip_adjoint.

(* ---- transpose: transpose_bw_impl = inplace_add(transpose_fw(gy), gx) ---- *)
Theorem C01_perm_transpose_bw_transposed (sx sy : tshape) (d1 d2 bs : nat)
  (Hd1 : tget sx 0 = d1) (Hd2 : tget sx 1 = d2) (Hbs : tbatch sy = bs)
  (Hsx : tsize sx = d1 * d2 * bs) (Hsy : tsize sy = d2 * d1 * bs)
  (Hd1' : tget sy 0 = d2) (Hd2' : tget sy 1 = d1) (Hbs' : tbatch sx = bs) :
  Permutation (mov_as_acc (transpose_fw sy sx)) (mov_transposed (transpose_fw sx sy)).
Proof. exact (transpose_bw_transposed sx sy d1 d2 bs Hd1 Hd2 Hbs Hsx Hsy Hd1' Hd2' Hbs'). Qed.
Print Assumptions C01_perm_transpose_bw_transposed.

(* the forward map is a bijection: every x element is read exactly once *)
Theorem C01_perm_transpose_srcs_cover (sx sy : tshape) (d1 d2 bs : nat)
  (Hd1 : tget sx 0 = d1) (Hd2 : tget sx 1 = d2) (Hbs : tbatch sy = bs)
  (Hsx : tsize sx = d1 * d2 * bs) (Hsy : tsize sy = d2 * d1 * bs) :
  srcs_cover (transpose_fw sx sy) (tsize sx).
Proof. exact (transpose_fw_srcs_cover sx sy d1 d2 bs Hd1 Hd2 Hbs Hsx Hsy). Qed.
Print Assumptions C01_perm_transpose_srcs_cover.

Theorem C01_perm_transpose_adjoint (T : Type) (zero : T) (add mul : T -> T -> T)
  (add_comm : forall a b, add a b = add b a)
  (add_assoc : forall a b c, add a (add b c) = add (add a b) c)
  (add_0_l : forall a, add zero a = a)
  (mul_add_distr_r : forall a b c, mul (add a b) c = add (mul a c) (mul b c))
  (mul_0_r : forall a, mul a zero = zero)
  (sx sy : tshape) (d1 d2 bs : nat) (gy gx dx : list T)
  (Hd1 : tget sx 0 = d1) (Hd2 : tget sx 1 = d2) (Hbs : tbatch sy = bs)
  (Hsx : tsize sx = d1 * d2 * bs) (Hsy : tsize sy = d2 * d1 * bs)
  (Hd1' : tget sy 0 = d2) (Hd2' : tget sy 1 = d1) (Hbs' : tbatch sx = bs)
  (Lx : length gx = tsize sx) (Ly : length gy = tsize sy) (Ld : length dx = tsize sx) :
  dot T zero add mul (scatter T zero add (mov_as_acc (transpose_fw sy sx)) gy gx) dx
  = add (dot T zero add mul gx dx)
        (dot T zero add mul gy (fw_out T zero (transpose_fw sx sy) dx (tsize sy))).
Proof.
  exact (transpose_adjoint T zero add mul add_comm add_assoc add_0_l mul_add_distr_r mul_0_r
           sx sy d1 d2 bs gy gx dx Hd1 Hd2 Hbs Hsx Hsy Hd1' Hd2' Hbs' Lx Ly Ld).
Qed.
Print Assumptions C01_perm_transpose_adjoint.

(* ---- permute_dims: pgx[i] += pgy[j] over exactly the forward pairs y[j] := x[i] ---- *)
Theorem C01_perm_permute_bw_transposed (sx sy : tshape) (perm : list nat) :
  permute_bw sx sy perm = mov_transposed (permute_fw sx sy perm).
Proof. exact (permute_bw_transposed sx sy perm). Qed.
Print Assumptions C01_perm_permute_bw_transposed.

Theorem C01_perm_permute_adjoint (T : Type) (zero : T) (add mul : T -> T -> T)
  (add_comm : forall a b, add a b = add b a)
  (add_assoc : forall a b c, add a (add b c) = add (add a b) c)
  (add_0_l : forall a, add zero a = a)
  (mul_add_distr_r : forall a b c, mul (add a b) c = add (mul a c) (mul b c))
  (mul_0_r : forall a, mul a zero = zero)
  (sx sy : tshape) (perm : list nat) (nd : nat) (gy gx dx : list T)
  (Hnd : length perm = nd) (Hperm : Permutation perm (seq 0 nd)) (Hwfx : twf sx)
  (Hdx : tdepth sx <= nd) (Hdy : tdepth sy <= nd)
  (Hdims : forall b, b < nd -> tget sy b = tget sx (nth b perm 0)) (Hwfy : twf sy)
  (Hbat : tbatch sy = tbatch sx)
  (Lx : length gx = tsize sx) (Ly : length gy = tsize sy) (Ld : length dx = tsize sx) :
  dot T zero add mul (scatter T zero add (permute_bw sx sy perm) gy gx) dx
  = add (dot T zero add mul gx dx)
        (dot T zero add mul gy (fw_out T zero (permute_fw sx sy perm) dx (tsize sy))).
Proof.
  exact (permute_adjoint T zero add mul add_comm add_assoc add_0_l mul_add_distr_r mul_0_r
           sx sy perm nd gy gx dx Hnd Hperm Hwfx Hdx Hdy Hdims Hwfy Hbat Lx Ly Ld).
Qed.
Print Assumptions C01_perm_permute_adjoint.

(* ---- sum / broadcast ---- *)
(* every input element is scanned for exactly one output: the groups partition 0..size-1 *)
Theorem C01_perm_axis_red_partition (sx sy : tshape) (dim base n R : nat)
  (Hbase : tlower sy dim = base) (Hn : tget sx dim = n) (Hsy : tsize sy = base * R)
  (Hsx : tsize sx = base * n * R) (Hb0 : 0 < base) :
  Permutation (flat_map snd (axis_red sx sy dim)) (seq 0 (tsize sx)).
Proof. exact (axis_red_partition sx sy dim base n R Hbase Hn Hsy Hsx Hb0). Qed.
Print Assumptions C01_perm_axis_red_partition.

Theorem C01_perm_axis_red_group_unique (sx sy : tshape) (dim base n R : nat)
  (Hbase : tlower sy dim = base) (Hn : tget sx dim = n) (Hsy : tsize sy = base * R)
  (Hb0 : 0 < base) (d1 : nat) (g1 : list nat) (d2 : nat) (g2 : list nat) (s : nat) :
  In (d1, g1) (axis_red sx sy dim) -> In (d2, g2) (axis_red sx sy dim) ->
  In s g1 -> In s g2 -> d1 = d2 /\ g1 = g2.
Proof. exact (axis_red_group_unique sx sy dim base n R Hbase Hn Hsy Hb0 d1 g1 d2 g2 s). Qed.
Print Assumptions C01_perm_axis_red_group_unique.

(* broadcast_fw (small -> large) is, pair by pair and in the same order, the transposed index
   program of the sum along the same axis (large -> small) *)
Theorem C01_perm_broadcast_is_transposed_sum (sx sy : tshape) (dim base n R : nat)
  (Hbx : tlower sx dim = base) (Hby : tlower sy dim = base) (Hn : tget sx dim = n)
  (Hsy : tsize sy = base * R) :
  broadcast_fw sy sx dim n = red_transposed (axis_red sx sy dim).
Proof. exact (broadcast_is_transposed_sum sx sy dim base n R Hbx Hby Hn Hsy). Qed.
Print Assumptions C01_perm_broadcast_is_transposed_sum.

Theorem C01_perm_batch_sum_partition (sx sy : tshape) (bs V : nat)
  (Hbs : tbatch sx = bs) (Hsy : tsize sy = V) (Hsx : tsize sx = V * bs) :
  Permutation (flat_map snd (batch_sum_red sx sy)) (seq 0 (tsize sx)).
Proof. exact (batch_sum_partition sx sy bs V Hbs Hsy Hsx). Qed.
Print Assumptions C01_perm_batch_sum_partition.

(* ---- non-vacuity: the adjoint identity instantiated over Z on a concrete flip and a concrete
   3-axis permutation, hypotheses discharged by computation ---- *)
Example C01_perm_nonvacuous :
  let s := mkT [2; 3] 2 in
  (tlower s 1 = 2 /\ tget s 1 = 3 /\ tsize s = 2 * 3 * 2 /\ 0 < 2 /\ 0 < 3) /\
  In (0, 4) (flip_pairs s 1) /\ In (4, 0) (flip_pairs s 1) /\
  let px := mkT [2; 3; 4] 1 in let py := mkT [4; 2; 3] 1 in let perm := [2; 0; 1] in
  (length perm = 3 /\ Permutation perm (seq 0 3) /\ twf px /\ twf py /\
   tdepth px <= 3 /\ tdepth py <= 3 /\ (forall b, b < 3 -> tget py b = tget px (nth b perm 0)) /\
   tbatch py = tbatch px) /\
  In (9, 13) (permute_bw px py perm) /\
  broadcast_fw (mkT [2; 1] 1) (mkT [2; 3] 1) 1 3
    = red_transposed (axis_red (mkT [2; 3] 1) (mkT [2; 1] 1) 1).
Proof.
  cbv zeta.
  split; [repeat split; (reflexivity || lia)|].
  split; [vm_compute; repeat (first [left; reflexivity | right])|].
  split; [vm_compute; repeat (first [left; reflexivity | right])|].
  split; [|split; [vm_compute; repeat (first [left; reflexivity | right])|vm_compute; reflexivity]].
  split; [reflexivity|].
  split; [exact (perm_trans (perm_swap 0 2 [1]) (perm_skip 0 (perm_swap 1 2 [])))|].
  split; [split; [repeat (constructor; [lia|]); constructor|cbn; lia]|].
  split; [split; [repeat (constructor; [lia|]); constructor|cbn; lia]|].
  split; [cbn; lia|]. split; [cbn; lia|].
  split; [|reflexivity].
  intros b Hb. destruct b as [|[|[|b]]]; try reflexivity; lia.
Qed.
