(* C13 -- Save/load round trip is lossless and files obey the documented format.
   Nothing but statements closed by `exact <lemma>` and Print Assumptions. *)
From Coq Require Import List NArith ZArith Bool Lia.
From PV Require Import Msgpack.Codec Msgpack.Generic Msgpack.FileFormat Msgpack.CodecProofs Msgpack.GenericProofs
  Msgpack.ConstsMatch Gen.IoConsts.
Import ListNotations.
Local Open Scope N_scope.

(* The MessagePack Reader returns exactly what the Writer was given, for every supported type
   (nil, bool, uint8/16/32/64, int8/16/32/64, float, double, str, bin, ext, vector<T>,
   unordered_map<K,V>, arbitrarily nested), every value and every container size below 2^32,
   whatever follows in the stream. *)
Theorem C13_read_write t (x : val t) rest : wfv t x -> read t (write t x ++ rest) = Some (x, rest).
Proof. exact (fun H => read_write t x H rest). Qed.
Print Assumptions C13_read_write.

(* The length-prefix class chosen at each boundary (15/16, 31/32, 255/256, 65535/65536, 2^32-1). *)
Theorem C13_length_class_boundaries :
  str_hdr 0 = [0xa0] /\ str_hdr 31 = [0xbf] /\ str_hdr 32 = [0xd9; 32] /\ str_hdr 255 = [0xd9; 255] /\
  str_hdr 256 = [0xda; 1; 0] /\ str_hdr 65535 = [0xda; 255; 255] /\ str_hdr 65536 = [0xdb; 0; 1; 0; 0] /\
  str_hdr 4294967295 = [0xdb; 255; 255; 255; 255] /\
  bin_hdr 0 = [0xc4; 0] /\ bin_hdr 255 = [0xc4; 255] /\ bin_hdr 256 = [0xc5; 1; 0] /\ bin_hdr 65535 = [0xc5; 255; 255] /\
  bin_hdr 65536 = [0xc6; 0; 1; 0; 0] /\ bin_hdr 4294967295 = [0xc6; 255; 255; 255; 255] /\
  arr_hdr 0 = [0x90] /\ arr_hdr 15 = [0x9f] /\ arr_hdr 16 = [0xdc; 0; 16] /\ arr_hdr 65535 = [0xdc; 255; 255] /\
  arr_hdr 65536 = [0xdd; 0; 1; 0; 0] /\ arr_hdr 4294967295 = [0xdd; 255; 255; 255; 255] /\
  map_hdr 0 = [0x80] /\ map_hdr 15 = [0x8f] /\ map_hdr 16 = [0xde; 0; 16] /\ map_hdr 65535 = [0xde; 255; 255] /\
  map_hdr 65536 = [0xdf; 0; 1; 0; 0] /\ map_hdr 4294967295 = [0xdf; 255; 255; 255; 255] /\
  ext_hdr 7 1 = [0xd4; 7] /\ ext_hdr 7 2 = [0xd5; 7] /\ ext_hdr 7 4 = [0xd6; 7] /\ ext_hdr 7 8 = [0xd7; 7] /\
  ext_hdr 7 16 = [0xd8; 7] /\ ext_hdr (-1) 0 = [0xc7; 0; 255] /\ ext_hdr 7 3 = [0xc7; 3; 7] /\ ext_hdr 7 255 = [0xc7; 255; 7] /\
  ext_hdr 7 256 = [0xc8; 1; 0; 7] /\ ext_hdr 7 65535 = [0xc8; 255; 255; 7] /\ ext_hdr 7 65536 = [0xc9; 0; 1; 0; 0; 7] /\
  ext_hdr 7 4294967295 = [0xc9; 255; 255; 255; 255; 7].
Proof. exact length_class_boundaries. Qed.
Print Assumptions C13_length_class_boundaries.

(* The bytes written are valid MessagePack: the independent grammar parses them as exactly one
   object of the format family the specification prescribes for the type, with the same content. *)
Theorem C13_writer_emits_valid_msgpack t (x : val t) rest :
  wfv t x -> Generic.parse1 (write t x ++ rest) = Some (tree_of t x, rest).
Proof. exact (writer_emits_valid_msgpack t x rest). Qed.
Print Assumptions C13_writer_emits_valid_msgpack.

(* ... and so is anything the typed Reader accepts (also non-minimal length classes). *)
Theorem C13_typed_read_is_generic t b (x : val t) r :
  read t b = Some (x, r) -> Generic.parse1 b = Some (tree_of t x, r).
Proof. exact (typed_read_is_generic t b x r). Qed.
Print Assumptions C13_typed_read_is_generic.

(* an unordered_map filled by emplace answers find(k) with the first entry written for k *)
Theorem C13_map_first_entry_wins (l : list (bytes * N)) k :
  assoc bytes_eqb k (dedup_first bytes_eqb l) = assoc bytes_eqb k l.
Proof. exact (dedup_first_lookup bytes_eqb l k bytes_eqb_spec). Qed.
Print Assumptions C13_map_first_entry_wins.

(* (T) The constants of the model (version 0.1, data-type tags, type byte and size of every
   scalar overload, (limit, type byte) of every length class of str/bin/ext/array/map, the type
   bytes and masks the Reader tests) are the ones read out of file_format.h, msgpack/writer.h and
   msgpack/reader.h on this run. *)
Theorem C13_consts_match :
  model_version = (IoConsts.VER_MAJOR, IoConsts.VER_MINOR) /\
  (model_datatypes = DATATYPES /\ DATATYPE_COUNT = 5 /\ ASSERTS_EXACT = true) /\
  (model_writer_scalars = gen_writer_scalars /\ W_BIG_ENDIAN = true) /\
  (model_str_classes = STR_CLASSES /\ model_bin_classes = BIN_CLASSES /\ model_ext_fix = EXT_FIX /\
   model_ext_classes = EXT_CLASSES /\ model_arr_classes = ARR_CLASSES /\ model_map_classes = MAP_CLASSES) /\
  (model_reader_scalars = gen_reader_scalars /\ model_masks = gen_masks /\ model_reader_cases = gen_reader_cases /\ R_BIG_ENDIAN = true).
Proof. exact consts_match. Qed.
Print Assumptions C13_consts_match.

Example C13_nonvacuous :
  let t := KMap KStr (KVec KI16) in
  let x : val t := [([104; 105], [(-2)%Z; 300%Z]); ([], [])] in
  wfv t x /\ read t (write t x ++ [7]) = Some (x, [7]) /\
  write t x = [0x82; 0xa2; 104; 105; 0x92; 0xd1; 255; 254; 0xd1; 1; 44; 0xa0; 0x90].
Proof.
  split; [|split; vm_compute; reflexivity].
  cbn [wfv fst snd]. split; [vm_compute; reflexivity|].
  apply Forall_cons; [cbn [fst snd]; split; [vm_compute; reflexivity|split; [vm_compute; reflexivity|]]|].
  - apply Forall_cons; [lia|]. apply Forall_cons; [lia|]. apply Forall_nil.
  - apply Forall_cons; [|apply Forall_nil]. cbn [fst snd]. split; [vm_compute; reflexivity|]. split; [vm_compute; reflexivity|apply Forall_nil].
Qed.
