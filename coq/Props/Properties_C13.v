(* C13 -- Save/load round trip is lossless and files obey the documented format.
   Nothing but statements closed by `exact <lemma>` and Print Assumptions. *)
From Coq Require Import List NArith ZArith Bool Lia.
From PV Require Import Base.U32 Base.Err Shape.ShapeImpl Shape.ShapeSpec Shape.ShapeProofs Msgpack.Codec Msgpack.Generic Msgpack.FileFormat
  Msgpack.CodecProofs Msgpack.GenericProofs Msgpack.FileProofs Msgpack.LoadAtomic Msgpack.FileRoundtrip
  Msgpack.ConstsMatch Gen.IoConsts.
Import ListNotations.
Local Open Scope N_scope.

(* The MessagePack Reader returns exactly what the Writer was given, for every supported type
   (nil, bool, uint8/16/32/64, int8/16/32/64, float, double, str, bin, ext, vector<T>,
   unordered_map<K,V>, arbitrarily nested), every value and every container size below 2^32,
   whatever follows in the stream. *)
Theorem C13_read_write t (x : val t) rest : wfv t x -> read t (write t x ++ rest) = Some (x, rest).
Proof. exact (fun H => read_write t x H rest). Qed.
Print Assumptions C13_read_write.

(* The length-prefix class chosen at each boundary (15/16, 31/32, 255/256, 65535/65536, 2^32-1). *)
Theorem C13_length_class_boundaries :
  str_hdr 0 = [0xa0] /\ str_hdr 31 = [0xbf] /\ str_hdr 32 = [0xd9; 32] /\ str_hdr 255 = [0xd9; 255] /\
  str_hdr 256 = [0xda; 1; 0] /\ str_hdr 65535 = [0xda; 255; 255] /\ str_hdr 65536 = [0xdb; 0; 1; 0; 0] /\
  str_hdr 4294967295 = [0xdb; 255; 255; 255; 255] /\
  bin_hdr 0 = [0xc4; 0] /\ bin_hdr 255 = [0xc4; 255] /\ bin_hdr 256 = [0xc5; 1; 0] /\ bin_hdr 65535 = [0xc5; 255; 255] /\
  bin_hdr 65536 = [0xc6; 0; 1; 0; 0] /\ bin_hdr 4294967295 = [0xc6; 255; 255; 255; 255] /\
  arr_hdr 0 = [0x90] /\ arr_hdr 15 = [0x9f] /\ arr_hdr 16 = [0xdc; 0; 16] /\ arr_hdr 65535 = [0xdc; 255; 255] /\
  arr_hdr 65536 = [0xdd; 0; 1; 0; 0] /\ arr_hdr 4294967295 = [0xdd; 255; 255; 255; 255] /\
  map_hdr 0 = [0x80] /\ map_hdr 15 = [0x8f] /\ map_hdr 16 = [0xde; 0; 16] /\ map_hdr 65535 = [0xde; 255; 255] /\
  map_hdr 65536 = [0xdf; 0; 1; 0; 0] /\ map_hdr 4294967295 = [0xdf; 255; 255; 255; 255] /\
  ext_hdr 7 1 = [0xd4; 7] /\ ext_hdr 7 2 = [0xd5; 7] /\ ext_hdr 7 4 = [0xd6; 7] /\ ext_hdr 7 8 = [0xd7; 7] /\
  ext_hdr 7 16 = [0xd8; 7] /\ ext_hdr (-1) 0 = [0xc7; 0; 255] /\ ext_hdr 7 3 = [0xc7; 3; 7] /\ ext_hdr 7 255 = [0xc7; 255; 7] /\
  ext_hdr 7 256 = [0xc8; 1; 0; 7] /\ ext_hdr 7 65535 = [0xc8; 255; 255; 7] /\ ext_hdr 7 65536 = [0xc9; 0; 1; 0; 0; 7] /\
  ext_hdr 7 4294967295 = [0xc9; 255; 255; 255; 255; 7].
Proof. exact length_class_boundaries. Qed.
Print Assumptions C13_length_class_boundaries.

(* The bytes written are valid MessagePack: the independent grammar parses them as exactly one
   object of the format family the specification prescribes for the type, with the same content. *)
Theorem C13_writer_emits_valid_msgpack t (x : val t) rest :
  wfv t x -> Generic.parse1 (write t x ++ rest) = Some (tree_of t x, rest).
Proof. exact (writer_emits_valid_msgpack t x rest). Qed.
Print Assumptions C13_writer_emits_valid_msgpack.

(* ... and so is anything the typed Reader accepts (also non-minimal length classes). *)
Theorem C13_typed_read_is_generic t b (x : val t) r :
  read t b = Some (x, r) -> Generic.parse1 b = Some (tree_of t x, r).
Proof. exact (typed_read_is_generic t b x r). Qed.
Print Assumptions C13_typed_read_is_generic.

(* an unordered_map filled by emplace answers find(k) with the first entry written for k *)
Theorem C13_map_first_entry_wins (l : list (bytes * N)) k :
  assoc bytes_eqb k (dedup_first bytes_eqb l) = assoc bytes_eqb k l.
Proof. exact (dedup_first_lookup bytes_eqb l k bytes_eqb_spec). Qed.
Print Assumptions C13_map_first_entry_wins.

(* ---- files ----
   A Parameter file written with with_stats = ws, loaded (same ws) into ANY Parameter object p0
   (fresh or not), leaves exactly: valid, the saved shape, every 32-bit word of the value, a zero
   gradient, and the saved statistics with their names iff ws (none otherwise); the rest of the
   stream is untouched.  [wf_param]: a valid Parameter (public Shape of batch 1, as many 32-bit
   words as elements, fewer than 2^30 elements, distinct statistics names shorter than 2^32). *)
Theorem C13_file_roundtrip_parameter ws p p0 rest : wf_param p ->
  load_parameter ws (enc_param_file ws p ++ rest, p0) =
    (Some tt, (rest, mkP true (p_shape p) (p_value p) (zeros (p_shape p)) (if ws then p_stats p else []))).
Proof. exact (file_roundtrip_parameter ws p p0 rest). Qed.
Print Assumptions C13_file_roundtrip_parameter.

(* A Model file: [es] = get_all_parameters() of the saved model (full hierarchical paths, pairwise
   distinct), loaded into a model of the same structure [st0] whatever its parameters hold: every
   path ends up with the saved record as above. *)
Theorem C13_file_roundtrip_model ws (es st0 : entries) rest :
  Forall wf_entry es -> NoDup (map fst es) -> N.of_nat (length es) < 2 ^ 32 -> map fst st0 = map fst es ->
  load_model ws (enc_model_file ws es ++ rest, st0) =
    (Some tt, (rest, map (fun kp => (fst kp, loaded ws (snd kp))) es)).
Proof. exact (file_roundtrip_model ws es st0 rest). Qed.
Print Assumptions C13_file_roundtrip_model.

(* An Optimizer file (get_configs of o) loaded into an optimizer of the same algorithm gives back
   every setting: epoch, lr_scale, l2_strength, clip_threshold and the algorithm's own ones, bit
   for bit.  [wf_optim]: algorithm 0..5 with its number of settings, 32-bit words, and the three
   base settings not negative (no Optimizer can hold a negative one: the setters reject it). *)
Theorem C13_file_roundtrip_optimizer o o0 rest : wf_optim o -> o_kind o0 = o_kind o -> length (o_hp o0) = length (o_hp o) ->
  load_optimizer (enc_opt_file (uint_configs o) (float_configs o) ++ rest, o0) = (Some tt, (rest, o)).
Proof. exact (file_roundtrip_optimizer o o0 rest). Qed.
Print Assumptions C13_file_roundtrip_optimizer.

(* Tensor payload: the bin object of a tensor is the concatenation of its words in to_vector()
   order, each little-endian: byte j of element i is at offset 4 i + j and holds bits 8j..8j+7;
   the order is column-major with the batch as last dimension: the flat index of (c :: cs) in
   dimensions (d :: ds) is c + d * (flat index of cs in ds), and stays below the element count. *)
Theorem C13_payload_little_endian_column_major :
  (forall t, enc_tensor t = enc_shape (tshape t) ++ w_bin (payload (twords t))) /\
  (forall ws i j, (j < 4)%nat -> nth (4 * i + j) (payload ws) 0 = (nth i ws 0 / 256 ^ N.of_nat j) mod 256) /\
  (forall d ds c cs, flat_index (d :: ds) (c :: cs) = c + d * flat_index ds cs) /\
  (forall ds cs, length cs = length ds -> Forall2 (fun c d => c < d) cs ds -> flat_index ds cs < prodN ds).
Proof. exact (conj (fun t => eq_refl) (conj nth_payload (conj flat_index_cons flat_index_lt))). Qed.
Print Assumptions C13_payload_little_endian_column_major.

(* (T) The constants of the model (version 0.1, data-type tags, type byte and size of every
   scalar overload, (limit, type byte) of every length class of str/bin/ext/array/map, the type
   bytes and masks the Reader tests) are the ones read out of file_format.h, msgpack/writer.h and
   msgpack/reader.h on this run. *)
Theorem C13_consts_match :
  model_version = (IoConsts.VER_MAJOR, IoConsts.VER_MINOR) /\
  (model_datatypes = DATATYPES /\ DATATYPE_COUNT = 5 /\ ASSERTS_EXACT = true) /\
  (model_writer_scalars = gen_writer_scalars /\ W_BIG_ENDIAN = true) /\
  (model_str_classes = STR_CLASSES /\ model_bin_classes = BIN_CLASSES /\ model_ext_fix = EXT_FIX /\
   model_ext_classes = EXT_CLASSES /\ model_arr_classes = ARR_CLASSES /\ model_map_classes = MAP_CLASSES) /\
  (model_reader_scalars = gen_reader_scalars /\ model_masks = gen_masks /\ model_reader_cases = gen_reader_cases /\ R_BIG_ENDIAN = true).
Proof. exact consts_match. Qed.
Print Assumptions C13_consts_match.

Example C13_nonvacuous :
  let t := KMap KStr (KVec KI16) in
  let x : val t := [([104; 105], [(-2)%Z; 300%Z]); ([], [])] in
  wfv t x /\ read t (write t x ++ [7]) = Some (x, [7]) /\
  write t x = [0x82; 0xa2; 104; 105; 0x92; 0xd1; 255; 254; 0xd1; 1; 44; 0xa0; 0x90].
Proof.
  split; [|split; vm_compute; reflexivity].
  cbn [wfv fst snd]. split; [vm_compute; reflexivity|].
  apply Forall_cons; [cbn [fst snd]; split; [vm_compute; reflexivity|split; [vm_compute; reflexivity|]]|].
  - apply Forall_cons; [lia|]. apply Forall_cons; [lia|]. apply Forall_nil.
  - apply Forall_cons; [|apply Forall_nil]. cbn [fst snd]. split; [vm_compute; reflexivity|]. split; [vm_compute; reflexivity|apply Forall_nil].
Qed.

Example C13_nonvacuous_file :
  let sh := mkS [2; 3] 1 6 in
  let st := mkS [] 2 1 in
  let p := mkP true sh (mkT sh [0x7fc00001; 0x80000000; 0x7f800000; 1; 0xff812345; 0x3f800000]) (mkT sh [9; 9; 9; 9; 9; 9])
               [([109], mkT st [0xffc12345; 0])] in
  wf_param p /\ length (enc_param_file true p) = 80%nat /\
  fst (load_parameter true (enc_param_file true p, mkP false scalar_shape (mkT scalar_shape []) (mkT scalar_shape []) [])) = Some tt.
Proof.
  split; [|split; vm_compute; reflexivity].
  assert (W1 : wf (mkS [2; 3] 1 6)).
  { destruct (ShapeProofs.mk_shape_some [2; 3] 1 (mkS [2; 3] 1 6)) as [_ [_ W]]; [|vm_compute; reflexivity|vm_compute; reflexivity|exact W].
    apply Forall_cons; [vm_compute; reflexivity|]. apply Forall_cons; [vm_compute; reflexivity|]. apply Forall_nil. }
  assert (W2 : wf (mkS [] 2 1)).
  { destruct (ShapeProofs.mk_shape_some [] 2 (mkS [] 2 1)) as [_ [_ W]]; [apply Forall_nil|vm_compute; reflexivity|vm_compute; reflexivity|exact W]. }
  assert (T1 : wf_tensor (mkT (mkS [2; 3] 1 6) [0x7fc00001; 0x80000000; 0x7f800000; 1; 0xff812345; 0x3f800000])).
  { constructor; cbn [tshape twords]; [exact W1|vm_compute; reflexivity| |vm_compute; reflexivity].
    repeat (apply Forall_cons; [vm_compute; reflexivity|]). apply Forall_nil. }
  assert (T2 : wf_tensor (mkT (mkS [] 2 1) [0xffc12345; 0])).
  { constructor; cbn [tshape twords]; [exact W2|vm_compute; reflexivity| |vm_compute; reflexivity].
    repeat (apply Forall_cons; [vm_compute; reflexivity|]). apply Forall_nil. }
  apply mkWfP; cbn [p_valid p_value p_shape p_stats].
  - reflexivity.
  - exact T1.
  - reflexivity.
  - reflexivity.
  - vm_compute; reflexivity.
  - apply Forall_cons; [|apply Forall_nil]. split; [vm_compute; reflexivity|exact T2].
  - cbn [map fst]. apply NoDup_cons; [intros []|apply NoDup_nil].
Qed.
