(* C01 (element level) -- each generated elementwise backward formula is the true derivative of
   the generated forward formula on the smooth domain, for every operator with an elementwise
   kernel in primitiv/devices/naive/ops.  Statements only; proofs in Scalar/Deriv.v, Scalar/Pown.v
   (one lemma per operator there: d_exp, d_divide_b, ...; grouped here by kernel family because
   every Print Assumptions over the Reals costs more than a second).
   All theorems speak about Gen/ScalarGen.v, regenerated from the C++ on every check.
   `bw_op x y gy [k]` is the increment the kernel adds to gx[i]; Device::op_bw calls it with the
   forward value y = fw_op x, hence the shape  is_derive fw_op x (bw_op x (fw_op x) 1)  together
   with linearity in gy.  Domains are hypotheses (Coq totalises 1/0 and ln on x <= 0).
   std::pow(a, b) is modelled as Rpower a b = exp (b * ln a): meaningful for a > 0 only. *)
From Coq Require Import Reals ZArith Lra Lia.
From Coquelicot Require Import Coquelicot.
From PV Require Import Scalar.ScalarBase Gen.ScalarGen Scalar.Deriv Scalar.Pown.
Local Open Scope R_scope.

(* CPUDEV_FW_X / CPUDEV_BW_X: exp log sqrt sin cos tan tanh abs sigmoid softplus *)
Theorem C01s_d_unary x :
  (is_derive fw_exp x (bw_exp x (fw_exp x) 1)) /\
  (0 < x -> is_derive fw_log x (bw_log x (fw_log x) 1)) /\
  (0 < x -> is_derive fw_sqrt x (bw_sqrt x (fw_sqrt x) 1)) /\
  (is_derive fw_sin x (bw_sin x (fw_sin x) 1)) /\
  (is_derive fw_cos x (bw_cos x (fw_cos x) 1)) /\
  (cos x <> 0 -> is_derive fw_tan x (bw_tan x (fw_tan x) 1)) /\
  (is_derive fw_tanh x (bw_tanh x (fw_tanh x) 1)) /\
  (x <> 0 -> is_derive fw_abs x (bw_abs x (fw_abs x) 1)) /\
  (is_derive fw_sigmoid x (bw_sigmoid x (fw_sigmoid x) 1)) /\
  (is_derive fw_softplus x (bw_softplus x (fw_softplus x) 1)).
Proof. exact (d_unary_all x). Qed.
Print Assumptions C01s_d_unary.

(* CPUDEV_FW_X_CONST / CPUDEV_BW_X_CONST; the _l variants are k - x, k / x, k ^ x *)
Theorem C01s_d_const x k :
  (is_derive (fun x => fw_add_const x k) x (bw_add_const x (fw_add_const x k) 1 k)) /\
  (is_derive (fun x => fw_subtract_const_r x k) x (bw_subtract_const_r x (fw_subtract_const_r x k) 1 k)) /\
  (is_derive (fun x => fw_subtract_const_l x k) x (bw_subtract_const_l x (fw_subtract_const_l x k) 1 k)) /\
  (is_derive (fun x => fw_multiply_const x k) x (bw_multiply_const x (fw_multiply_const x k) 1 k)) /\
  (k <> 0 -> is_derive (fun x => fw_divide_const_r x k) x (bw_divide_const_r x (fw_divide_const_r x k) 1 k)) /\
  (x <> 0 -> is_derive (fun x => fw_divide_const_l x k) x (bw_divide_const_l x (fw_divide_const_l x k) 1 k)) /\
  (0 < x -> is_derive (fun x => fw_pow_const_r x k) x (bw_pow_const_r x (fw_pow_const_r x k) 1 k)) /\
  (0 < k -> is_derive (fun x => fw_pow_const_l x k) x (bw_pow_const_l x (fw_pow_const_l x k) 1 k)) /\
  (x <> 0 -> is_derive (fun x => fw_prelu x k) x (bw_prelu x (fw_prelu x k) 1 k)) /\
  (x <> 0 -> is_derive (fun x => fw_elu x k) x (bw_elu x (fw_elu x k) 1 k)).
Proof. exact (d_const_all x k). Qed.
Print Assumptions C01s_d_const.

(* relu = prelu(.,0), lrelu = prelu(.,0.01) (tensor_funcs.cc:266-272); selu = s * elu(x,a) (contrib/functions.h:31) *)
Theorem C01s_d_relu_lrelu_selu x a s :
  (x <> 0 -> is_derive (fun x => fw_prelu x 0) x (bw_prelu x (fw_prelu x 0) 1 0)) /\
  (x <> 0 -> is_derive (fun x => fw_prelu x (1 / 100)) x (bw_prelu x (fw_prelu x (1 / 100)) 1 (1 / 100))) /\
  (x <> 0 -> is_derive (fun x => fw_multiply_const (fw_elu x a) s) x
     (bw_elu x (fw_elu x a) (bw_multiply_const (fw_elu x a) (fw_multiply_const (fw_elu x a) s) 1 s) a)).
Proof. exact (d_relu_lrelu_selu_all x a s). Qed.
Print Assumptions C01s_d_relu_lrelu_selu.

(* pown.cc: the transcribed squaring loop is x^k for EVERY int32 k (incl. min_k = -2^31), and pown_bw is its derivative *)
Theorem C01s_pown x k :
  int32 k ->
  fw_pown x k = (if (0 <=? k)%Z then x ^ Z.abs_nat k else 1 / x ^ Z.abs_nat k) /\
  fw_pown x k = powerRZ x k /\
  (x <> 0 -> is_derive (fun x => fw_pown x k) x (bw_pown x (fw_pown x k) 1 k)) /\
  (forall y gy, bw_pown x y gy k = gy * bw_pown x y 1 k).
Proof. exact (pown_all x k). Qed.
Print Assumptions C01s_pown.

(* NOT covered by C01s_pown (hypothesis x <> 0): x^k is smooth at x = 0 for k >= 1 but pown_bw
   evaluates k * gy * y / x = 0/0 there.  Full statement that would be wanted:
     forall x k, int32 k -> (x <> 0 \/ (1 <= k)%Z) -> is_derive (fun x => fw_pown x k) x (bw_pown x (fw_pown x k) 1 k)
   refuted already in the totalised reals at x = 0, k = 1 (and NaN on the implementation for all k;
   the same 0/0 occurs in pow_const_r_bw and pow_bw at base 0). *)
Theorem C01s_pown_bw_at_zero_refuted :
  exists x k, int32 k /\ is_derive (fun x => fw_pown x k) x 1 /\ bw_pown x (fw_pown x k) 1 k <> 1.
Proof. exact pown_bw_at_zero_refuted. Qed.
Print Assumptions C01s_pown_bw_at_zero_refuted.

(* CPUDEV_FW_AB and the hand-written add/subtract/multiply/divide/pow _bw_impl loops: both partial derivatives *)
Theorem C01s_d_binary a b :
  (is_derive (fun a => fw_add a b) a (bw_add_a a b (fw_add a b) 1)) /\
  (is_derive (fun b => fw_add a b) b (bw_add_b a b (fw_add a b) 1)) /\
  (is_derive (fun a => fw_subtract a b) a (bw_subtract_a a b (fw_subtract a b) 1)) /\
  (is_derive (fun b => fw_subtract a b) b (bw_subtract_b a b (fw_subtract a b) 1)) /\
  (is_derive (fun a => fw_multiply a b) a (bw_multiply_a a b (fw_multiply a b) 1)) /\
  (is_derive (fun b => fw_multiply a b) b (bw_multiply_b a b (fw_multiply a b) 1)) /\
  (b <> 0 -> is_derive (fun a => fw_divide a b) a (bw_divide_a a b (fw_divide a b) 1)) /\
  (b <> 0 -> is_derive (fun b => fw_divide a b) b (bw_divide_b a b (fw_divide a b) 1)) /\
  (0 < a -> is_derive (fun a => fw_pow a b) a (bw_pow_a a b (fw_pow a b) 1)) /\
  (0 < a -> is_derive (fun b => fw_pow a b) b (bw_pow_b a b (fw_pow a b) 1)).
Proof. exact (d_binary_all a b). Qed.
Print Assumptions C01s_d_binary.

(* linearity in the upstream gradient: with the above, bw is the vector-Jacobian product *)
Theorem C01s_bw_linear x y gy k a b :
  (bw_abs x y gy = gy * bw_abs x y 1 /\ bw_exp x y gy = gy * bw_exp x y 1 /\ bw_log x y gy = gy * bw_log x y 1 /\
   bw_sin x y gy = gy * bw_sin x y 1 /\ bw_cos x y gy = gy * bw_cos x y 1 /\ bw_tan x y gy = gy * bw_tan x y 1 /\
   bw_tanh x y gy = gy * bw_tanh x y 1 /\ bw_sqrt x y gy = gy * bw_sqrt x y 1 /\
   bw_sigmoid x y gy = gy * bw_sigmoid x y 1 /\ bw_softplus x y gy = gy * bw_softplus x y 1) /\
  (bw_add_const x y gy k = gy * bw_add_const x y 1 k /\ bw_subtract_const_r x y gy k = gy * bw_subtract_const_r x y 1 k /\
   bw_subtract_const_l x y gy k = gy * bw_subtract_const_l x y 1 k /\ bw_multiply_const x y gy k = gy * bw_multiply_const x y 1 k /\
   bw_divide_const_r x y gy k = gy * bw_divide_const_r x y 1 k /\ bw_divide_const_l x y gy k = gy * bw_divide_const_l x y 1 k /\
   bw_pow_const_r x y gy k = gy * bw_pow_const_r x y 1 k /\ bw_pow_const_l x y gy k = gy * bw_pow_const_l x y 1 k /\
   bw_prelu x y gy k = gy * bw_prelu x y 1 k /\ bw_elu x y gy k = gy * bw_elu x y 1 k) /\
  (bw_add_a a b y gy = gy * bw_add_a a b y 1 /\ bw_add_b a b y gy = gy * bw_add_b a b y 1 /\
   bw_subtract_a a b y gy = gy * bw_subtract_a a b y 1 /\ bw_subtract_b a b y gy = gy * bw_subtract_b a b y 1 /\
   bw_multiply_a a b y gy = gy * bw_multiply_a a b y 1 /\ bw_multiply_b a b y gy = gy * bw_multiply_b a b y 1 /\
   bw_divide_a a b y gy = gy * bw_divide_a a b y 1 /\ bw_divide_b a b y gy = gy * bw_divide_b a b y 1 /\
   bw_pow_a a b y gy = gy * bw_pow_a a b y 1 /\ bw_pow_b a b y gy = gy * bw_pow_b a b y 1).
Proof. exact (bw_linear_all x y gy k a b). Qed.
Print Assumptions C01s_bw_linear.

(* non-vacuity: the domain hypotheses are satisfiable, and the formulas are not constant *)
Example C01s_nonvacuous :
  (0 < 2 /\ 2 <> 0 /\ cos 0 <> 0 /\ int32 (-2147483648) /\ int32 3) /\
  bw_multiply_a 2 3 6 1 = 3 /\ bw_divide_b 6 3 2 1 = - (2 / 3) /\ fw_pown 2 3 = 8 /\
  fw_pown 2 (-2147483648) = powerRZ 2 (-2147483648).
Proof.
  split; [|split; [|split; [|split]]].
  - rewrite cos_0. unfold int32. repeat split; try lra; try lia.
  - unfold bw_multiply_a. ring.
  - unfold bw_divide_b. field.
  - rewrite fw_pown_spec by (unfold int32; lia). simpl. ring.
  - apply fw_pown_powerRZ. unfold int32; lia.
Qed.
