(* C01 (element level) -- each generated elementwise backward formula is the true derivative of
   the generated forward formula on the smooth domain, for every operator with an elementwise
   kernel in primitiv/devices/naive/ops.  Statements only; proofs in Scalar/Deriv.v, Scalar/Pown.v.
   All theorems speak about Gen/ScalarGen.v, regenerated from the C++ on every check.
   `bw_op x y gy [k]` is the increment added to gx[i]; it is called with y = the forward value. *)
From Coq Require Import Reals ZArith Lra Lia.
From Coquelicot Require Import Coquelicot.
From PV Require Import Scalar.ScalarBase Gen.ScalarGen Scalar.Deriv Scalar.Pown.
Local Open Scope R_scope.

(* ---- unary ---- *)
Theorem C01s_d_exp x :
  is_derive fw_exp x (bw_exp x (fw_exp x) 1).
Proof. exact (d_exp x). Qed.
Print Assumptions C01s_d_exp.

Theorem C01s_d_log x :
  0 < x -> is_derive fw_log x (bw_log x (fw_log x) 1).
Proof. exact (d_log x). Qed.
Print Assumptions C01s_d_log.

Theorem C01s_d_sqrt x :
  0 < x -> is_derive fw_sqrt x (bw_sqrt x (fw_sqrt x) 1).
Proof. exact (d_sqrt x). Qed.
Print Assumptions C01s_d_sqrt.

Theorem C01s_d_sin x :
  is_derive fw_sin x (bw_sin x (fw_sin x) 1).
Proof. exact (d_sin x). Qed.
Print Assumptions C01s_d_sin.

Theorem C01s_d_cos x :
  is_derive fw_cos x (bw_cos x (fw_cos x) 1).
Proof. exact (d_cos x). Qed.
Print Assumptions C01s_d_cos.

Theorem C01s_d_tan x :
  cos x <> 0 -> is_derive fw_tan x (bw_tan x (fw_tan x) 1).
Proof. exact (d_tan x). Qed.
Print Assumptions C01s_d_tan.

Theorem C01s_d_tanh x :
  is_derive fw_tanh x (bw_tanh x (fw_tanh x) 1).
Proof. exact (d_tanh x). Qed.
Print Assumptions C01s_d_tanh.

Theorem C01s_d_abs x :
  x <> 0 -> is_derive fw_abs x (bw_abs x (fw_abs x) 1).
Proof. exact (d_abs x). Qed.
Print Assumptions C01s_d_abs.

Theorem C01s_d_sigmoid x :
  is_derive fw_sigmoid x (bw_sigmoid x (fw_sigmoid x) 1).
Proof. exact (d_sigmoid x). Qed.
Print Assumptions C01s_d_sigmoid.

Theorem C01s_d_softplus x :
  is_derive fw_softplus x (bw_softplus x (fw_softplus x) 1).
Proof. exact (d_softplus x). Qed.
Print Assumptions C01s_d_softplus.

(* ---- constant operand; _l variants are k - x, k / x, k ^ x ---- *)
Theorem C01s_d_add_const x k :
  is_derive (fun x => fw_add_const x k) x (bw_add_const x (fw_add_const x k) 1 k).
Proof. exact (d_add_const x k). Qed.
Print Assumptions C01s_d_add_const.

Theorem C01s_d_subtract_const_r x k :
  is_derive (fun x => fw_subtract_const_r x k) x (bw_subtract_const_r x (fw_subtract_const_r x k) 1 k).
Proof. exact (d_subtract_const_r x k). Qed.
Print Assumptions C01s_d_subtract_const_r.

Theorem C01s_d_subtract_const_l x k :
  is_derive (fun x => fw_subtract_const_l x k) x (bw_subtract_const_l x (fw_subtract_const_l x k) 1 k).
Proof. exact (d_subtract_const_l x k). Qed.
Print Assumptions C01s_d_subtract_const_l.

Theorem C01s_d_multiply_const x k :
  is_derive (fun x => fw_multiply_const x k) x (bw_multiply_const x (fw_multiply_const x k) 1 k).
Proof. exact (d_multiply_const x k). Qed.
Print Assumptions C01s_d_multiply_const.

Theorem C01s_d_divide_const_r x k :
  k <> 0 -> is_derive (fun x => fw_divide_const_r x k) x (bw_divide_const_r x (fw_divide_const_r x k) 1 k).
Proof. exact (d_divide_const_r x k). Qed.
Print Assumptions C01s_d_divide_const_r.

Theorem C01s_d_divide_const_l x k :
  x <> 0 -> is_derive (fun x => fw_divide_const_l x k) x (bw_divide_const_l x (fw_divide_const_l x k) 1 k).
Proof. exact (d_divide_const_l x k). Qed.
Print Assumptions C01s_d_divide_const_l.

Theorem C01s_d_pow_const_r x k :
  0 < x -> is_derive (fun x => fw_pow_const_r x k) x (bw_pow_const_r x (fw_pow_const_r x k) 1 k).
Proof. exact (d_pow_const_r x k). Qed.
Print Assumptions C01s_d_pow_const_r.

Theorem C01s_d_pow_const_l x k :
  0 < k -> is_derive (fun x => fw_pow_const_l x k) x (bw_pow_const_l x (fw_pow_const_l x k) 1 k).
Proof. exact (d_pow_const_l x k). Qed.
Print Assumptions C01s_d_pow_const_l.

Theorem C01s_d_prelu x k :
  x <> 0 -> is_derive (fun x => fw_prelu x k) x (bw_prelu x (fw_prelu x k) 1 k).
Proof. exact (d_prelu x k). Qed.
Print Assumptions C01s_d_prelu.

Theorem C01s_d_elu x k :
  x <> 0 -> is_derive (fun x => fw_elu x k) x (bw_elu x (fw_elu x k) 1 k).
Proof. exact (d_elu x k). Qed.
Print Assumptions C01s_d_elu.

(* relu = prelu(.,0), lrelu = prelu(.,0.01) (tensor_funcs.cc:266-272); selu = s * elu(x,a) (contrib/functions.h:31) *)
Theorem C01s_d_relu x :
  x <> 0 -> is_derive (fun x => fw_prelu x 0) x (bw_prelu x (fw_prelu x 0) 1 0).
Proof. exact (d_relu x). Qed.
Print Assumptions C01s_d_relu.

Theorem C01s_d_lrelu x :
  x <> 0 -> is_derive (fun x => fw_prelu x (1 / 100)) x (bw_prelu x (fw_prelu x (1 / 100)) 1 (1 / 100)).
Proof. exact (d_lrelu x). Qed.
Print Assumptions C01s_d_lrelu.

Theorem C01s_d_selu x a s :
  x <> 0 -> is_derive (fun x => fw_multiply_const (fw_elu x a) s) x
    (bw_elu x (fw_elu x a) (bw_multiply_const (fw_elu x a) (fw_multiply_const (fw_elu x a) s) 1 s) a).
Proof. exact (d_selu x a s). Qed.
Print Assumptions C01s_d_selu.

(* ---- pown: the squaring loop is x^k for every int32 k incl. min_k, and its derivative ---- *)
Theorem C01s_pown_loop_is_power x k :
  int32 k -> fw_pown x k = if (0 <=? k)%Z then x ^ Z.abs_nat k else 1 / x ^ Z.abs_nat k.
Proof. exact (fw_pown_spec x k). Qed.
Print Assumptions C01s_pown_loop_is_power.

Theorem C01s_pown_powerRZ x k :
  int32 k -> fw_pown x k = powerRZ x k.
Proof. exact (fw_pown_powerRZ x k). Qed.
Print Assumptions C01s_pown_powerRZ.

Theorem C01s_d_pown x k :
  int32 k -> x <> 0 -> is_derive (fun x => fw_pown x k) x (bw_pown x (fw_pown x k) 1 k).
Proof. exact (d_pown x k). Qed.
Print Assumptions C01s_d_pown.

(* ---- two tensor operands: both partial derivatives ---- *)
Theorem C01s_d_add_a a b :
  is_derive (fun a => fw_add a b) a (bw_add_a a b (fw_add a b) 1).
Proof. exact (d_add_a a b). Qed.
Print Assumptions C01s_d_add_a.

Theorem C01s_d_add_b a b :
  is_derive (fun b => fw_add a b) b (bw_add_b a b (fw_add a b) 1).
Proof. exact (d_add_b a b). Qed.
Print Assumptions C01s_d_add_b.

Theorem C01s_d_subtract_a a b :
  is_derive (fun a => fw_subtract a b) a (bw_subtract_a a b (fw_subtract a b) 1).
Proof. exact (d_subtract_a a b). Qed.
Print Assumptions C01s_d_subtract_a.

Theorem C01s_d_subtract_b a b :
  is_derive (fun b => fw_subtract a b) b (bw_subtract_b a b (fw_subtract a b) 1).
Proof. exact (d_subtract_b a b). Qed.
Print Assumptions C01s_d_subtract_b.

Theorem C01s_d_multiply_a a b :
  is_derive (fun a => fw_multiply a b) a (bw_multiply_a a b (fw_multiply a b) 1).
Proof. exact (d_multiply_a a b). Qed.
Print Assumptions C01s_d_multiply_a.

Theorem C01s_d_multiply_b a b :
  is_derive (fun b => fw_multiply a b) b (bw_multiply_b a b (fw_multiply a b) 1).
Proof. exact (d_multiply_b a b). Qed.
Print Assumptions C01s_d_multiply_b.

Theorem C01s_d_divide_a a b :
  b <> 0 -> is_derive (fun a => fw_divide a b) a (bw_divide_a a b (fw_divide a b) 1).
Proof. exact (d_divide_a a b). Qed.
Print Assumptions C01s_d_divide_a.

Theorem C01s_d_divide_b a b :
  b <> 0 -> is_derive (fun b => fw_divide a b) b (bw_divide_b a b (fw_divide a b) 1).
Proof. exact (d_divide_b a b). Qed.
Print Assumptions C01s_d_divide_b.

Theorem C01s_d_pow_a a b :
  0 < a -> is_derive (fun a => fw_pow a b) a (bw_pow_a a b (fw_pow a b) 1).
Proof. exact (d_pow_a a b). Qed.
Print Assumptions C01s_d_pow_a.

Theorem C01s_d_pow_b a b :
  0 < a -> is_derive (fun b => fw_pow a b) b (bw_pow_b a b (fw_pow a b) 1).
Proof. exact (d_pow_b a b). Qed.
Print Assumptions C01s_d_pow_b.

(* ---- linearity in gy: with the above, bw is the vector-Jacobian product ---- *)
Theorem C01s_bw_linear_unary x y gy :
  bw_abs x y gy = gy * bw_abs x y 1 /\
  bw_exp x y gy = gy * bw_exp x y 1 /\
  bw_log x y gy = gy * bw_log x y 1 /\
  bw_sin x y gy = gy * bw_sin x y 1 /\
  bw_cos x y gy = gy * bw_cos x y 1 /\
  bw_tan x y gy = gy * bw_tan x y 1 /\
  bw_tanh x y gy = gy * bw_tanh x y 1 /\
  bw_sqrt x y gy = gy * bw_sqrt x y 1 /\
  bw_sigmoid x y gy = gy * bw_sigmoid x y 1 /\
  bw_softplus x y gy = gy * bw_softplus x y 1.
Proof. exact (bw_linear_unary x y gy). Qed.
Print Assumptions C01s_bw_linear_unary.

Theorem C01s_bw_linear_const x y gy k :
  bw_add_const x y gy k = gy * bw_add_const x y 1 k /\
  bw_subtract_const_r x y gy k = gy * bw_subtract_const_r x y 1 k /\
  bw_subtract_const_l x y gy k = gy * bw_subtract_const_l x y 1 k /\
  bw_multiply_const x y gy k = gy * bw_multiply_const x y 1 k /\
  bw_divide_const_r x y gy k = gy * bw_divide_const_r x y 1 k /\
  bw_divide_const_l x y gy k = gy * bw_divide_const_l x y 1 k /\
  bw_pow_const_r x y gy k = gy * bw_pow_const_r x y 1 k /\
  bw_pow_const_l x y gy k = gy * bw_pow_const_l x y 1 k /\
  bw_prelu x y gy k = gy * bw_prelu x y 1 k /\
  bw_elu x y gy k = gy * bw_elu x y 1 k.
Proof. exact (bw_linear_const x y gy k). Qed.
Print Assumptions C01s_bw_linear_const.

Theorem C01s_bw_linear_binary a b y gy :
  bw_add_a a b y gy = gy * bw_add_a a b y 1 /\
  bw_add_b a b y gy = gy * bw_add_b a b y 1 /\
  bw_subtract_a a b y gy = gy * bw_subtract_a a b y 1 /\
  bw_subtract_b a b y gy = gy * bw_subtract_b a b y 1 /\
  bw_multiply_a a b y gy = gy * bw_multiply_a a b y 1 /\
  bw_multiply_b a b y gy = gy * bw_multiply_b a b y 1 /\
  bw_divide_a a b y gy = gy * bw_divide_a a b y 1 /\
  bw_divide_b a b y gy = gy * bw_divide_b a b y 1 /\
  bw_pow_a a b y gy = gy * bw_pow_a a b y 1 /\
  bw_pow_b a b y gy = gy * bw_pow_b a b y 1.
Proof. exact (bw_linear_binary a b y gy). Qed.
Print Assumptions C01s_bw_linear_binary.

Theorem C01s_bw_linear_pown x y gy k :
  bw_pown x y gy k = gy * bw_pown x y 1 k.
Proof. exact (bw_linear_pown x y gy k). Qed.
Print Assumptions C01s_bw_linear_pown.

(* non-vacuity: the domain hypotheses are satisfiable, and the formulas are not constant *)
Example C01s_nonvacuous :
  (0 < 2 /\ 2 <> 0 /\ cos 0 <> 0 /\ int32 (-2147483648) /\ int32 3) /\
  bw_multiply_a 2 3 6 1 = 3 /\ bw_divide_b 6 3 2 1 = - (2 / 3) /\ fw_pown 2 3 = 8 /\
  fw_pown 2 (-2147483648) = powerRZ 2 (-2147483648).
Proof.
  split; [|split; [|split; [|split]]].
  - rewrite cos_0. unfold int32. repeat split; try lra; try lia.
  - unfold bw_multiply_a. ring.
  - unfold bw_divide_b. field.
  - rewrite fw_pown_spec by (unfold int32; lia). simpl. ring.
  - apply fw_pown_powerRZ. unfold int32; lia.
Qed.
