(* C10 -- "Failures are reported as exceptions and change nothing": the component theorems that
   ARE the content of the property, under C10_ names.  Nothing but statements closed by
   `exact <lemma>` and Print Assumptions.  Each component's theorem is proved with its engine
   about that engine's executable model (tied to the real code by that engine's differential
   check); this file only collects them:
     graph       Graph/Tape.v add_op            (Fault/GraphErr.v on top of Graph/*.v)
     registry    Registry/ModelReg.v            (Registry/RegProofs.v)
     optimizer   Optim/OptModel.v               (Optim/OptInv.v, Fault/GraphErr.v)
     load        Msgpack/FileFormat.v           (Msgpack/LoadAtomic.v)
     tensors     Cow/Heap.v                     (Cow/CowProofs.v)
   and the allocation-failure theorem of the fault engine (Fault/AllocModel.v, AllocFail.v). *)
From Coq Require Import List NArith ZArith Bool Arith.
From Coq Require Strings.String.
From PV Require Import Graph.OpFamily Graph.Tape Graph.Lazy Graph.Backward Graph.TapeLemmas Graph.LazyProofs
  Graph.Example Fault.AllocModel Fault.AllocFail Fault.AllocRandom Fault.AllocExample Fault.GraphErr.
From PV Require Base.Err Base.Scalar Shape.ShapeImpl Cow.Heap Cow.CowProofs Registry.ModelReg Registry.RegProofs
  Optim.OptModel Optim.OptInv Msgpack.Codec Msgpack.FileFormat Msgpack.LoadAtomic.
Import ListNotations.

(* ------------------------------------------------------------------ Graph::add_operator *)
(* A call that is not accepted (Error: wrong argument count, no device, node of another graph,
   shapes rejected; or the abort of CHECK_NODE) leaves the WORLD - every graph with its operators,
   node values and gradients, the parameter store, the random streams - exactly as it was. *)
Theorem C10_graph_add_rejected_unchanged {Op Sh V} (F : OpFamily Op Sh V) (VO : ValOps Sh V)
  (w : @world Op Sh V) gi o args :
  (forall w', run_cmd F VO w (CAdd gi o args) <> Ok w') -> run F VO w (CAdd gi o args) = w.
Proof. exact (add_op_err_preserves_state F VO w gi o args). Qed.
Print Assumptions C10_graph_add_rejected_unchanged.

(* ... and every later call behaves as if the rejected one had never been made *)
Theorem C10_graph_add_error_history {Op Sh V} (F : OpFamily Op Sh V) (VO : ValOps Sh V)
  (w : @world Op Sh V) gi g o args :
  nth_error (w_graphs w) gi = Some g -> add_op F gi g o args = Error ->
  run_cmd F VO w (CAdd gi o args) = Error /\ run F VO w (CAdd gi o args) = w /\
  forall cs, run_all F VO w (CAdd gi o args :: cs) = run_all F VO w cs.
Proof. exact (add_op_error_world_unchanged F VO w gi g o args). Qed.
Print Assumptions C10_graph_add_error_history.

(* which calls raise Error: (a) wrong number of arguments (an empty list where arguments are
   required), (b) no device to inherit, (c) a node of ANOTHER graph among otherwise valid
   arguments - Error, never abort, never accepted -, (d) shapes that forward_shape rejects *)
Theorem C10_graph_add_rejects {Op Sh V} (F : OpFamily Op Sh V) me (g : @gstate Op Sh V) o args :
  (argn_ok (f_argn F o) (length args) = false -> add_op F me g o args = Error) /\
  (argn_ok (f_argn F o) (length args) = true -> f_dev F o = None -> args = [] -> add_op F me g o args = Error) /\
  (argn_ok (f_argn F o) (length args) = true ->
     (forall n, In n args -> fst n = me -> get_slot g (snd n) <> None) ->
     (exists n, In n args /\ fst n <> me) -> add_op F me g o args = Error) /\
  (argn_ok (f_argn F o) (length args) = true -> (f_dev F o = None -> args <> []) ->
     (forall n, In n args -> fst n = me /\ get_slot g (snd n) <> None) ->
     (forall ss, check_nodes me g args = Ok ss -> f_shape F o (map s_shape ss) = None) ->
     add_op F me g o args = Error).
Proof. exact (add_op_rejects F me g o args). Qed.
Print Assumptions C10_graph_add_rejects.

(* ------------------------------------------------------------------ Model::add *)
(* a rejected add(name, Parameter&) / add(name, Model&) leaves all five containers of all models
   unchanged (any world, not only the reachable ones) *)
Theorem C10_model_add_rejected_unchanged (w : ModelReg.world) m nm : m < length w ->
  (forall p w', ModelReg.add_param m nm p w = (None, w') -> w' = w) /\
  (forall c w', ModelReg.add_model m nm c w = (None, w') -> w' = w).
Proof. exact (RegProofs.rejected_add_unchanged w m nm). Qed.
Print Assumptions C10_model_add_rejected_unchanged.

(* ------------------------------------------------------------------ Optimizer *)
(* a negative scaling / decay / clipping value is rejected by the setters and by set_configs
   (= Optimizer::load, C API config setter) and the optimizer state is the old one: settings,
   epoch, algorithm constants, registered parameters, all parameters and statistics *)
Theorem C10_optimizer_rejected_setter_unchanged T (O : Scalar.ops T) x (s : OptModel.state T) :
  Scalar.sltb O x (Scalar.szero O) = true ->
  OptInv.run_api T O (OptInv.ASetLr T x) s = s /\ OptInv.run_api T O (OptInv.ASetL2 T x) s = s /\
  OptInv.run_api T O (OptInv.ASetClip T x) s = s.
Proof. exact (optimizer_rejected_setter_unchanged T O x s). Qed.
Print Assumptions C10_optimizer_rejected_setter_unchanged.

Section C10_set_configs.
Import Coq.Strings.String.
Local Open Scope string_scope.
Theorem C10_optimizer_rejected_set_configs_unchanged T (O : Scalar.ops T) uc fc (s : OptModel.state T) key v :
  key = "Optimizer.lr_scale" \/ key = "Optimizer.l2_strength" \/ key = "Optimizer.clip_threshold" ->
  OptModel.find_cfg key fc = Some v -> Scalar.sltb O v (Scalar.szero O) = true ->
  OptInv.run_api T O (OptInv.ASetConfigs T uc fc) s = s.
Proof. exact (optimizer_rejected_set_configs_unchanged T O uc fc s key v). Qed.
End C10_set_configs.
Print Assumptions C10_optimizer_rejected_set_configs_unchanged.

(* every call of the optimizer interface that is rejected (setter, set_configs, add, update,
   reset_gradients) leaves the state as it was *)
Theorem C10_optimizer_rejected_call_unchanged T (O : Scalar.ops T) (a : OptInv.api T) (s : OptModel.state T) :
  match a with
  | OptInv.ASetLr _ x => OptModel.set_lr_scale T O x (OptModel.st_opt s) = None
  | OptInv.ASetL2 _ x => OptModel.set_weight_decay T O x (OptModel.st_opt s) = None
  | OptInv.ASetClip _ x => OptModel.set_clipping T O x (OptModel.st_opt s) = None
  | OptInv.ASetEpoch _ _ => False
  | OptInv.ASetConfigs _ uc fc => OptModel.set_configs T O uc fc (OptModel.st_opt s) = None
  | OptInv.AAdd _ i => OptModel.add_param T O i s = None
  | OptInv.AUpdate _ => OptModel.update T O s = None
  | OptInv.AReset _ => OptModel.reset_gradients T O s = None
  end -> OptInv.run_api T O a s = s.
Proof. exact (optimizer_rejected_call_unchanged T O a s). Qed.
Print Assumptions C10_optimizer_rejected_call_unchanged.

(* ------------------------------------------------------------------ load *)
(* ANY bytes, ANY old state: a failed Parameter::load changes nothing; a successful one makes the
   parameter one completely read record (never a mixture of old and new members) *)
Theorem C10_load_failed_parameter_unchanged ws file p res b' p' :
  FileFormat.load_parameter ws (file, p) = (res, (b', p')) ->
  match res with None => p' = p | Some _ => LoadAtomic.complete_record ws file p' end.
Proof. exact (LoadAtomic.load_parameter_atomic ws file p res b' p'). Qed.
Print Assumptions C10_load_failed_parameter_unchanged.

(* Model::load, success or failure at any point: every parameter is all-old or all-new *)
Theorem C10_load_model_all_old_or_all_new ws file es res b' es' :
  FileFormat.load_model ws (file, es) = (res, (b', es')) -> LoadAtomic.rel_entries ws file es es'.
Proof. exact (LoadAtomic.load_model_atomic ws file es res b' es'). Qed.
Print Assumptions C10_load_model_all_old_or_all_new.

Theorem C10_load_failed_optimizer_unchanged file o b' o' :
  FileFormat.load_optimizer (file, o) = (None, (b', o')) -> o' = o.
Proof. exact (LoadAtomic.load_optimizer_atomic file o b' o'). Qed.
Print Assumptions C10_load_failed_optimizer_unchanged.

(* ------------------------------------------------------------------ invalid tensors *)
(* an invalid (default-constructed / moved-from) tensor used as ANY operand the operation reads:
   Error, and the whole store - every tensor, every buffer, every use count - is unchanged *)
Theorem C10_invalid_tensor_rejected_unchanged (s : Heap.state) o x :
  Heap.wf_op s o = true -> In x (CowProofs.reads o) -> Heap.var s x = Some Heap.Invalid ->
  Heap.step o s = (None, s).
Proof. exact (CowProofs.invalid_rejects s o x). Qed.
Print Assumptions C10_invalid_tensor_rejected_unchanged.

(* ------------------------------------------------------------------ allocation failure *)
(* Model: Fault/AllocModel.v = Graph/Lazy.v's forward with an allocation-outcome schedule sigma
   (sigma k = true: the k-th allocation fails), operators abstract, per-operator allocation plan
   [plan o xs] arbitrary; a multi-output operator assigns its outputs one by one, so a failure
   can leave SOME outputs of one operator valid.  Under the schedule that never fails the model
   IS the graph engine's forward: *)
Theorem C10_never_failing_schedule_is_forward {Op Sh V} (F : OpFamily Op Sh V) plan sigma
  (Hs : forall j, sigma j = false) (g : @gstate Op Sh V) e k a :
  match forwardA F plan sigma g e k a with
  | (AOk v, g', e', _) => forward F g e a = Some (v, g', e')
  | (AErr, _, _, _) => False
  | (AAbort, _, _, _) => forward F g e a = None
  end.
Proof. exact (forward_of_forwardA F plan sigma Hs g e k a). Qed.
Print Assumptions C10_never_failing_schedule_is_forward.

(* a graph in which nothing has been evaluated yet satisfies the invariant of the theorems below
   (ainv = well-formed tape /\ every memoised value of a deterministic node is its denotation /\
   an operator holding an output has readable arguments); every forward call, of any outcome,
   preserves it (part of [recovered]) *)
Theorem C10_alloc_invariant_initially {Op Sh V} (F : OpFamily Op Sh V) (ops : list (@opinfo Op Sh V)) e :
  wf_ops ops -> (forall b s, get_slot_ops ops b = Some s -> s_val s = None) -> ainv F ops e.
Proof. exact (ainv_unevaluated F ops e). Qed.
Print Assumptions C10_alloc_invariant_initially.

(* alloc_failure_recoverable.  a = a node with no random source among its ancestors, w = its
   value as a function of graph structure and parameter values ([detval]).  For EVERY schedule
   and EVERY failure position, a forward(a) that dies of an allocation failure:
   (1) changes nothing but value slots (operators, gradients, backward log, parameters, streams
       are as before: e_f = e, same skeleton) and shows no wrong value: a value present afterwards
       was there before or is exactly what a never-failing forward of that node returns;
   (2) only adds values;
   (3) forward(a) from the state left behind, once memory is available, returns exactly w - the
       value of the run that never failed - and the two final memos agree wherever both hold a
       value, both hold every node a demands, and both kept everything there was.
   ([recovered] spells this out; see Fault/AllocFail.v.) *)
Theorem C10_alloc_failure_recoverable {Op Sh V} (F : OpFamily Op Sh V) plan sigma
  (g : @gstate Op Sh V) e k a w g_f e_f k_f :
  ainv F (g_ops g) e -> get_slot g a <> None -> detval F (g_ops g) e a w ->
  forwardA F plan sigma g e k a = (AErr, g_f, e_f, k_f) ->
  (exists j, k <= j < k_f /\ sigma j = true) /\ recovered F g e a w g_f e_f.
Proof. exact (alloc_failure_recoverable F plan sigma g e k a w g_f e_f k_f). Qed.
Print Assumptions C10_alloc_failure_recoverable.

(* any number of failed attempts in a row, each under its own schedule *)
Theorem C10_alloc_failures_recoverable {Op Sh V} (F : OpFamily Op Sh V) plan (g : @gstate Op Sh V) e a w g_f e_f :
  ainv F (g_ops g) e -> get_slot g a <> None -> detval F (g_ops g) e a w ->
  failed_calls F plan a g e g_f e_f -> recovered F g e a w g_f e_f.
Proof. exact (alloc_failures_recoverable F plan g e a w g_f e_f). Qed.
Print Assumptions C10_alloc_failures_recoverable.

(* the memo a failed call leaves is contained, value for value, in the memo of the run that never
   failed: no partially built value, no value the successful run would not have *)
Theorem C10_alloc_failure_prefix {Op Sh V} (F : OpFamily Op Sh V) plan sigma
  (g : @gstate Op Sh V) e k a w g_f e_f k_f g_ok e_ok :
  ainv F (g_ops g) e -> get_slot g a <> None -> detval F (g_ops g) e a w ->
  forwardA F plan sigma g e k a = (AErr, g_f, e_f, k_f) -> forward F g e a = Some (w, g_ok, e_ok) ->
  forall b x, sval g_f b = Some x -> sval g_ok b = Some x.
Proof. exact (alloc_failure_prefix F plan sigma g e k a w g_f e_f k_f g_ok e_ok). Qed.
Print Assumptions C10_alloc_failure_prefix.

(* whatever the schedule of a retry: it returns w or fails again on an allocation; never a wrong
   value, never an abort *)
Theorem C10_retry_never_wrong {Op Sh V} (F : OpFamily Op Sh V) plan sigma (g : @gstate Op Sh V) e k a w r g' e' k' :
  ainv F (g_ops g) e -> get_slot g a <> None -> detval F (g_ops g) e a w ->
  forwardA F plan sigma g e k a = (r, g', e', k') ->
  match r with AOk v => v = w | AErr => exists j, k <= j < k' /\ sigma j = true | AAbort => False end.
Proof. exact (retry_never_wrong F plan sigma g e k a w r g' e' k'). Qed.
Print Assumptions C10_retry_never_wrong.

(* Random sources.  The real Random* operators have one output and draw only after their single
   allocation succeeded.  A HYPOTHETICAL two-output random source whose outputs are assigned one by
   one (like Split's) refutes exact recovery: *)
Theorem C10_alloc_failure_multi_output_random_refuted :
  exists (g : @gstate rop unit Z) e sigma a g_f e_f k_f g_ok e_ok v_ok g_r e_r v_r,
    forwardA RF plan1 sigma g e 0 a = (AErr, g_f, e_f, k_f) /\
    forward RF g e a = Some (v_ok, g_ok, e_ok) /\
    forward RF g_f e_f a = Some (v_r, g_r, e_r) /\
    v_r <> v_ok /\
    (exists b x y, sval g_f b = Some x /\ sval g_r b = Some y /\ x <> y).
Proof. exact alloc_failure_multi_output_random_refuted. Qed.
Print Assumptions C10_alloc_failure_multi_output_random_refuted.


(* Random sources included.  NO determinism assumption; instead what operator_impl.cc / device.cc
   guarantee for the Random operators: at most one output (rand1, part of rinv), and - built into
   the model - the draw happens only after the allocation succeeded.  rinv also says that a
   half-assigned operator is a deterministic one whose held values are its recomputation; every
   state reached without failures satisfies it (next theorem), and every forward call of any
   outcome preserves it.  For EVERY schedule and failure position: nothing but value slots and
   stream positions changed, the memo only grew, and the retry returns the value of the run
   that never failed, ends with EXACTLY its environment e_ok (all stream positions), and with a
   memo [sim]ilar to its memo: equal values wherever both hold one, and an operator whose slots
   differ is deterministic and recomputable on both sides (the two C10_similar_memos theorems). *)
Theorem C10_alloc_failure_recoverable_random {Op Sh V} (F : OpFamily Op Sh V) plan sigma
  (g : @gstate Op Sh V) e k a g_f e_f k_f v g_ok e_ok :
  rinv F (g_ops g) e ->
  forwardA F plan sigma g e k a = (AErr, g_f, e_f, k_f) -> forward F g e a = Some (v, g_ok, e_ok) ->
  sv (g_ops g_f) = sv (g_ops g) /\ g_blog g_f = g_blog g /\ e_pval e_f = e_pval e /\ e_pgrad e_f = e_pgrad e /\
  mono (g_ops g) (g_ops g_f) /\ rinv F (g_ops g_f) e_f /\
  exists g_r, forward F g_f e_f a = Some (v, g_r, e_ok) /\ sim F (g_ops g_r) (g_ops g_ok) e_ok /\
    mono (g_ops g_f) (g_ops g_r) /\
    (forall b s1 s2 x y, get_slot_ops (g_ops g_f) b = Some s1 -> get_slot_ops (g_ops g_ok) b = Some s2 ->
       s_val s1 = Some x -> s_val s2 = Some y -> x = y).
Proof. exact (alloc_failure_recoverable_random F plan sigma g e k a g_f e_f k_f v g_ok e_ok). Qed.
Print Assumptions C10_alloc_failure_recoverable_random.

(* ... and, as in the deterministic case, the failing run is a prefix of the never-failing one:
   every value visible after the failed call is, slot for slot, a value of the never-failing run
   (mono ops ops' = every slot holding v in ops holds v in ops') *)
Theorem C10_alloc_failure_prefix_random {Op Sh V} (F : OpFamily Op Sh V) plan sigma
  (g : @gstate Op Sh V) e k a g_f e_f k_f v g_ok e_ok :
  rinv F (g_ops g) e ->
  forwardA F plan sigma g e k a = (AErr, g_f, e_f, k_f) -> forward F g e a = Some (v, g_ok, e_ok) ->
  mono (g_ops g_f) (g_ops g_ok).
Proof. exact (alloc_failure_prefix_random F plan sigma g e k a g_f e_f k_f v g_ok e_ok). Qed.
Print Assumptions C10_alloc_failure_prefix_random.

Theorem C10_alloc_failures_recoverable_random {Op Sh V} (F : OpFamily Op Sh V) plan
  (g : @gstate Op Sh V) e a g_f e_f v g_ok e_ok :
  rinv F (g_ops g) e -> failed_calls F plan a g e g_f e_f -> forward F g e a = Some (v, g_ok, e_ok) ->
  rinv F (g_ops g_f) e_f /\ mono (g_ops g) (g_ops g_f) /\ exists g_r, forward F g_f e_f a = Some (v, g_r, e_ok).
Proof. exact (alloc_failures_recoverable_random F plan g e a g_f e_f v g_ok e_ok). Qed.
Print Assumptions C10_alloc_failures_recoverable_random.

(* every graph satisfying the graph engine's reachable invariant (Properties_C05) satisfies rinv,
   for a family whose random sources have at most one output *)
Theorem C10_alloc_random_invariant_reachable {Op Sh V} (F : OpFamily Op Sh V) (ops : list (@opinfo Op Sh V)) e :
  (forall o, f_rand F o <> None -> f_retn F o <= 1) -> ginv F ops -> rinv F ops e.
Proof. exact (rinv_of_ginv F ops e). Qed.
Print Assumptions C10_alloc_random_invariant_reachable.

Theorem C10_similar_memos_agree {Op Sh V} (F : OpFamily Op Sh V) (ops1 ops2 : list (@opinfo Op Sh V)) e :
  sim F ops1 ops2 e -> forall b s1 s2 x y,
  get_slot_ops ops1 b = Some s1 -> get_slot_ops ops2 b = Some s2 -> s_val s1 = Some x -> s_val s2 = Some y -> x = y.
Proof. exact (sim_values F ops1 ops2 e). Qed.
Print Assumptions C10_similar_memos_agree.

(* every random node holds the same sample (or none) in two similar memos *)
Theorem C10_similar_memos_same_samples {Op Sh V} (F : OpFamily Op Sh V) (ops1 ops2 : list (@opinfo Op Sh V)) e k oi1 oi2 :
  sim F ops1 ops2 e -> nth_error ops1 k = Some oi1 -> nth_error ops2 k = Some oi2 ->
  f_rand F (o_op oi1) <> None -> map s_val (o_rets oi1) = map s_val (o_rets oi2).
Proof. exact (sim_random_same F ops1 ops2 e k oi1 oi2). Qed.
Print Assumptions C10_similar_memos_same_samples.

(* non-vacuity: (i) the graph x -> split -> s0 + s0 of Fault/AllocExample.v meets every
   hypothesis of C10_alloc_failure_recoverable with the third allocation failing (split's second
   output): Error, s0 valid, s1 not; the retry returns the never-failing value;
   (ii) an add with a node of another graph is rejected and the world is unchanged;
   (iii) the graph r1, r2, r1 + r2, (r1 + r2) + r1 with two random sources meets the hypotheses of
   C10_alloc_failure_recoverable_random with the third allocation failing (both samples drawn). *)
Example C10_components_nonvacuous :
  (ainv EF (g_ops sp_g) ex_env /\ get_slot sp_g (2, 0) <> None /\ detval EF (g_ops sp_g) ex_env (2, 0) [2; 4]%Z /\
   sp_fail = (AErr, sp_gf, ex_env, 3) /\
   sp_vals sp_gf = [[Some [1; 2; 3; 4]%Z]; [Some [1; 2]%Z; None]; [None]; [None]]) /\
  (let w := run_all EF EV ex_w0 sp_cmds in
   run_cmd EF EV w (CAdd 0 EAdd [nd 0 2 0; nd 1 0 0]) = Error /\ run EF EV w (CAdd 0 EAdd [nd 0 2 0; nd 1 0 0]) = w) /\
  (rinv EF (g_ops rn_g) ex_env /\
   (exists g_f e_f, forwardA EF plan1 (fail_at 2) rn_g ex_env 0 (3, 0) = (AErr, g_f, e_f, 3) /\
      sp_vals g_f = [[Some [0; 1]%Z]; [Some [2; 3]%Z]; [None]; [None]] /\ e_pos e_f 0 = 4%N) /\
   (exists g_ok e_ok, forward EF rn_g ex_env (3, 0) = Some ([2; 5]%Z, g_ok, e_ok) /\ e_pos e_ok 0 = 4%N)).
Proof.
  split; [|split; [|exact alloc_failure_recoverable_random_nonvacuous]].
  - destruct alloc_failure_recoverable_nonvacuous as (A & B & C & D & _). split; [exact A|]. split; [exact B|]. split; [exact C|].
    split; [exact D|]. vm_compute. reflexivity.
  - vm_compute. split; reflexivity.
Qed.
