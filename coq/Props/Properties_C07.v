(* C07 -- Tensors have value semantics: copies and views never alias observably.
   Model: Cow/Heap.v (handles, buffers, use counts, copy-on-write, transcribed from
   tensor.{h,cc} / device.cc / the in-place kernels); specification: Cow/ValueSpec.v
   (every name holds its own value).  Nothing but statements closed by `exact <lemma>`,
   Print Assumptions, and non-vacuity examples. *)
From Coq Require Import List ZArith NArith Bool Arith.
From PV Require Import Base.U32 Shape.ShapeImpl Cow.Heap Cow.ValueSpec Cow.CowLemmas Cow.CowProofs.
Import ListNotations.
Local Open Scope nat_scope.

(* For EVERY history of operations from the empty store: the use count of each live buffer
   equals the number of Tensor objects (program variables, parameter-owned tensors, graph
   slots: all are names of the store) whose handle points at it, and is at least 1. *)
Theorem C07_count_invariant ops i b : let s := run ops empty_store in
  bufs s i = Some b -> count b = handles_on s i /\ 1 <= count b.
Proof. exact (count_invariant ops i b). Qed.
Print Assumptions C07_count_invariant.

(* After every history, every further operation (copy construction / assignment, move,
   reshape, flatten, deep copy, x = y + z, x = k * y, +=, -=, *=, reset, reset_by_vector,
   invalidate, destruction, accessors) returns exactly what the value-semantics
   specification returns (same value / same Error) and changes the abstraction of the
   store exactly as the specification says, at EVERY name. *)
Theorem C07_cow_refines_values ops o : let s := run ops empty_store in
  fst (step o s) = fst (vstep o (abs s)) /\
  forall z, abs (snd (step o s)) z = snd (vstep o (abs s)) z.
Proof. exact (cow_refines_values ops o). Qed.
Print Assumptions C07_cow_refines_values.

(* Whole histories: the meaning of the state reached by ANY history on the copy-on-write
   machine is the state reached by the same history on the value-semantics specification
   (vrun: every name holds its own value), at every name. *)
Theorem C07_history_refines ops x : abs (run ops empty_store) x = vrun ops (fun _ => ANone) x.
Proof. exact (history_refines ops x). Qed.
Print Assumptions C07_history_refines.

(* "never alias observably": a name that is not a target of the operation keeps its value,
   whatever sharing exists underneath (x and z may share one buffer before the step). *)
Theorem C07_never_alias ops o z : let s := run ops empty_store in
  ~ In z (targets o) -> abs (snd (step o s)) z = abs s z.
Proof. exact (cow_frame ops o z). Qed.
Print Assumptions C07_never_alias.

(* the specification itself only ever changes the targets *)
Theorem C07_spec_frame o e z : ~ In z (targets o) -> snd (vstep o e) z = e z.
Proof. exact (vstep_frame o e z). Qed.
Print Assumptions C07_spec_frame.

(* Moves transfer the value and leave the source invalid; nothing else changes. *)
Theorem C07_move_leaves_source_invalid ops x y : let s := run ops empty_store in
  exists_var s y = true -> x <> y ->
  let s' := snd (step (Move x y) s) in
  fst (step (Move x y) s) = Some OUnit /\ abs s' y = AInv /\ abs s' x = abs s y /\
  forall z, z <> x -> z <> y -> abs s' z = abs s z.
Proof. exact (move_leaves_source_invalid ops x y). Qed.
Print Assumptions C07_move_leaves_source_invalid.

(* x = std::move(x) changes nothing at all (any state). *)
Theorem C07_self_move_is_noop s x : exists_var s x = true -> step (Move x x) s = (Some OUnit, s).
Proof. exact (self_move_is_noop s x). Qed.
Print Assumptions C07_self_move_is_noop.

(* An invalid tensor rejects every access to its shape, device or contents and every
   arithmetic use (as either operand) with an Error, and the state is unchanged.
   For ANY state. `reads o` = the operands the operation accesses. *)
Theorem C07_invalid_rejects s o x : wf_op s o = true -> In x (reads o) -> var s x = Some Invalid ->
  step o s = (None, s).
Proof. exact (invalid_rejects s o x). Qed.
Print Assumptions C07_invalid_rejects.

Theorem C07_invalid_is_reported s x : var s x = Some Invalid ->
  step (IsValid x) s = (Some (OBool false), s).
Proof. exact (invalid_is_reported s x). Qed.
Print Assumptions C07_invalid_is_reported.

(* A buffer is live iff some handle points at it; every handle points at a live buffer of
   the right size; a buffer is released exactly once (the log of frees has no duplicate),
   never while a handle still points at it; every buffer ever allocated is live or was
   released. *)
Theorem C07_no_leak ops : let s := run ops empty_store in
  (forall i, bufs s i <> None <-> exists x d sh, var s x = Some (Hd d sh i)) /\
  (forall x d sh i, var s x = Some (Hd d sh i) ->
     exists b, bufs s i = Some b /\ length (contents b) = nsize sh) /\
  NoDup (freed s) /\
  (forall i, In i (freed s) -> bufs s i = None /\ forall x d sh, var s x <> Some (Hd d sh i)) /\
  (forall i, i < next s -> bufs s i <> None \/ In i (freed s)) /\
  (forall i, next s <= i -> bufs s i = None /\ ~ In i (freed s)).
Proof. exact (no_leak ops). Qed.
Print Assumptions C07_no_leak.

Theorem C07_nothing_left_at_end ops : let s := run ops empty_store in
  (forall x, var s x = None \/ var s x = Some Invalid) -> forall i, bufs s i = None.
Proof. exact (nothing_left_at_end ops). Qed.
Print Assumptions C07_nothing_left_at_end.

(* Self-aliasing, spelled out.  x += x / x -= x: the result is the pure function of the
   old value with itself; nobody else changes. *)
Theorem C07_self_inplace ops (f : bool) x d sh v : let s := run ops empty_store in
  abs s x = AVal d sh v ->
  let o := (if f then IAdd x x else ISub x x) in
  let g := (if f then Z.add else Z.sub) in
  fst (step o s) = Some OUnit /\
  abs (snd (step o s)) x = AVal d sh (inplace_spec g sh sh v v) /\
  forall z, z <> x -> abs (snd (step o s)) z = abs s z.
Proof. exact (self_inplace ops f x d sh v). Qed.
Print Assumptions C07_self_inplace.

(* x = x *)
Theorem C07_self_copy ops x : let s := run ops empty_store in
  exists_var s x = true -> forall z, abs (snd (step (Copy x x) s)) z = abs s z.
Proof. exact (self_copy ops x). Qed.
Print Assumptions C07_self_copy.

(* x = y.reshape(..), then a write through either one leaves the other unchanged *)
Theorem C07_view_then_write ops x y ds b k : let s := run ops empty_store in
  x <> y ->
  let s1 := snd (step (Reshape x y ds b) s) in
  fst (step (Reshape x y ds b) s) = Some OUnit ->
  abs (snd (step (IMulC x k) s1)) y = abs s y /\ abs (snd (step (IMulC y k) s1)) x = abs s1 x.
Proof. exact (view_then_write ops x y ds b k). Qed.
Print Assumptions C07_view_then_write.

(* ---- non-vacuity ---------------------------------------------------------------------- *)

Definition sh22 : shape := mkS [2; 2]%N 1%N 4%N.
Definition sh4 : shape := mkS [4]%N 1%N 4%N.
Definition hist1 : list op :=
  [ NewVec 0 0 [2; 2]%N 1%N [1; 2; 3; 4]%Z; Copy 1 0; Copy 2 0; Reshape 3 0 [4]%N 1%N ].
Definition hist2 : list op :=
  hist1 ++ [ IAdd 0 0; Move 4 1; ISub 2 2; IMulC 3 3%Z; Copy 0 0; Move 0 0 ].

(* four handles on one buffer: use count 4, one live buffer *)
Example C07_nonvacuous_sharing : let s := run hist1 empty_store in
  bufs s 0 = Some (mkB [1; 2; 3; 4]%Z 4) /\ handles_on s 0 = 4 /\ live_count s = 1 /\
  var s 3 = Some (Hd 0 sh4 0) /\ abs s 2 = AVal 0 sh22 [1; 2; 3; 4]%Z.
Proof. vm_compute. repeat split; reflexivity. Qed.

(* then x += x, a move, x -= x on a copy, *= on a view, x = x, x = move(x):
   every name has its own value; the moved-from name is invalid; 4 live buffers *)
Example C07_nonvacuous_history : let s := run hist2 empty_store in
  abs s 0 = AVal 0 sh22 [2; 4; 6; 8]%Z /\ abs s 1 = AInv /\ abs s 2 = AVal 0 sh22 [0; 0; 0; 0]%Z /\
  abs s 3 = AVal 0 sh4 [3; 6; 9; 12]%Z /\ abs s 4 = AVal 0 sh22 [1; 2; 3; 4]%Z /\
  live_count s = 4 /\ freed s = [] /\
  step (ToVector 1) s = (None, s) /\ step (IAdd 0 1) s = (None, s) /\
  wf_op s (IAdd 0 1) = true /\ In 1 (reads (IAdd 0 1)) /\ var s 1 = Some Invalid.
Proof. vm_compute. repeat split; try reflexivity. auto. Qed.

(* destruction of all names releases every buffer exactly once *)
Example C07_nonvacuous_release :
  let s := run (hist2 ++ [Destroy 0; Destroy 1; Destroy 2; Destroy 3; Destroy 4]) empty_store in
  live_count s = 0 /\ length (freed s) = 4 /\ NoDup (freed s) /\ next s = 4.
Proof. vm_compute. repeat split; try reflexivity. repeat constructor; simpl; intuition discriminate. Qed.
