(* C02 -- the composite functions of primitiv::functions at TENSOR level.
   Tensor/Composites.v transcribes log_softmax / softmax / softmax_cross_entropy (dense, sparse) /
   logsumexp / sum (core/tensor_funcs.cc:296-331) and mean / batch::mean / batch::normalize / selu /
   dropout / sum, mean over containers (contrib/functions.h) as the compositions of Device entry
   points the C++ writes, each entry point being its index program of Tensor/Kernels.v run on a
   tensor = (tshape, flat value list over R) with the regenerated elementwise formulas of
   Gen/ScalarGen.v.  The theorems give the value at every coordinate.
   Vocabulary:  abase x d = product of the extents below axis d, aext x d = x.shape()[d] (1 for
   d >= depth), aupper x d = product of the extents above d, ahigh x d = aupper x d * batch;
   at3 x d low k high = x[low, k, high] = element  flat (abase) (aext) low k high  of the data;
   sumexp_axis x d low high = sum_j exp x[low, j, high];  asum g n = sum_{j<n} g j;
   rok x = dims and batch positive, data length = shape size.
   Every statement holds for EVERY axis d (at or beyond the depth the extent is 1, see
   C02_comp_beyond_depth).  Float32 rounding is outside these theorems (engines/composites.py
   measures it on the real code). *)
From Coq Require Import List Arith Reals.
From PV Require Import Tensor.Kernels Tensor.Index Tensor.KernelProofs Tensor.ProofsGather
                       Tensor.ProofsPerm Tensor.ProofsBilinear Tensor.Composites
                       Scalar.ScalarBase Gen.ScalarGen Scalar.Stable.
Import ListNotations.

(* ---- the lifted kernels (generic scalar type) ---- *)
(* a reduction along an axis applies its per-group function to x[low, 0..n-1, high], in that order *)
Theorem C02_comp_reduce_value (T : Type) (zero : T) (f : list T -> T) (x : tensor T) (dim low high : nat) :
  twf (tsh x) -> low < tlower (tsh x) dim -> high < tupper (tsh x) dim * tbatch (tsh x) ->
  tnth T zero (t_reduce T zero f x dim) (flat (tlower (tsh x) dim) 1 low 0 high)
  = f (axis_slice T zero (tdat x) (tlower (tsh x) dim) (tget (tsh x) dim) low high).
Proof. exact (t_reduce_nth T zero f x dim low high). Qed.
Print Assumptions C02_comp_reduce_value.

(* broadcast(x, dim, size)[low, j, high] = x[low, 0, high] *)
Theorem C02_comp_broadcast_value (T : Type) (zero : T) (x : tensor T) (dim size low j high : nat) :
  twf (tsh x) -> tget (tsh x) dim = 1 -> 0 < size ->
  low < tlower (tsh x) dim -> j < size -> high < tupper (tsh x) dim * tbatch (tsh x) ->
  tnth T zero (t_broadcast T zero x dim size) (flat (tlower (tsh x) dim) size low j high)
  = tnth T zero x (flat (tlower (tsh x) dim) 1 low 0 high).
Proof. exact (t_broadcast_nth T zero x dim size low j high). Qed.
Print Assumptions C02_comp_broadcast_value.

(* a - b, a * b, a / b through the is_scalar dispatch of tensor_funcs.cc: whichever of the three
   kernels runs, sample bb element i is op a[bb or shared; i] b[bb or shared; i] *)
Theorem C02_comp_binary_value (T : Type) (zero : T) (op : T -> T -> T) (a b : tensor T) (V bb i : nat) :
  tvolume (tsh a) = V -> tvolume (tsh b) = V ->
  bb < Nat.max (tbatch (tsh a)) (tbatch (tsh b)) -> i < V ->
  tnth T zero (t_bin T zero op a b) (bb * V + i)
  = op (tnth T zero a (bsel (tsh a) bb * V + i)) (tnth T zero b (bsel (tsh b) bb * V + i)).
Proof. exact (t_bin_nth T zero op a b V bb i). Qed.
Print Assumptions C02_comp_binary_value.

(* ---- reductions and the softmax family ---- *)
(* sum(x, d)[low,0,high] = sum_j x[low,j,high];  logsumexp(x, d)[low,0,high] = ln sum_j exp x[low,j,high];
   mean(x, d)[low,0,high] = (sum_j x[low,j,high]) / n,  n = x.shape()[d] *)
Theorem C02_comp_sum_logsumexp_mean_spec (x : rten) (dim low high : nat) :
  rok x -> low < abase x dim -> high < ahigh x dim ->
  rnth (t_sum x dim) (flat (abase x dim) 1 low 0 high) = asum (fun j => at3 x dim low j high) (aext x dim) /\
  rnth (t_logsumexp x dim) (flat (abase x dim) 1 low 0 high) = ln (sumexp_axis x dim low high) /\
  rnth (t_mean x dim) (flat (abase x dim) 1 low 0 high)
  = (asum (fun j => at3 x dim low j high) (aext x dim) / INR (aext x dim))%R.
Proof.
  exact (fun Hok Hl Hh => conj (t_sum_spec x dim Hok low high Hl Hh)
          (conj (t_logsumexp_spec x dim Hok low high Hl Hh) (t_mean_spec x dim Hok low high Hl Hh))).
Qed.
Print Assumptions C02_comp_sum_logsumexp_mean_spec.

(* log_softmax(x)[low,k,high] = x[low,k,high] - ln sum_j exp x[low,j,high];
   softmax(x)[low,k,high] = exp x[low,k,high] / sum_j exp x[low,j,high], summing to 1 along the axis *)
Theorem C02_comp_softmax_spec (x : rten) (dim low high : nat) :
  rok x -> low < abase x dim -> high < ahigh x dim ->
  (forall k, k < aext x dim ->
     rnth (t_log_softmax x dim) (flat (abase x dim) (aext x dim) low k high)
     = (at3 x dim low k high - ln (sumexp_axis x dim low high))%R /\
     rnth (t_softmax x dim) (flat (abase x dim) (aext x dim) low k high)
     = (exp (at3 x dim low k high) / sumexp_axis x dim low high)%R) /\
  asum (fun k => rnth (t_softmax x dim) (flat (abase x dim) (aext x dim) low k high)) (aext x dim) = 1%R.
Proof.
  exact (fun Hok Hl Hh => conj
    (fun k Hk => conj (t_log_softmax_spec x dim Hok low high Hl Hh k Hk) (t_softmax_spec x dim Hok low high Hl Hh k Hk))
    (t_softmax_sums_to_one x dim Hok low high Hl Hh)).
Qed.
Print Assumptions C02_comp_softmax_spec.

(* dense targets of the shape of x (the Tensor version multiplies elementwise, tensor_funcs.cc:324):
   softmax_cross_entropy(x, t)[low,0,high] = - sum_k t[low,k,high] * log_softmax(x)[low,k,high] *)
Theorem C02_comp_sce_dense_spec (x t : rten) (dim low high : nat) :
  rok x -> low < abase x dim -> high < ahigh x dim -> rok t -> tsh t = tsh x ->
  rnth (t_sce x t dim) (flat (abase x dim) 1 low 0 high)
  = (- asum (fun k => at3 t dim low k high * (at3 x dim low k high - ln (sumexp_axis x dim low high))) (aext x dim))%R.
Proof. exact (fun Hok Hl Hh => t_sce_spec x dim Hok low high Hl Hh t). Qed.
Print Assumptions C02_comp_sce_dense_spec.

(* sparse targets: sample b of the result at [low, 0, hi] is -log_softmax(x)[low, ids[b or 0], hi] of
   sample b of x (of the shared sample when x has batch 1); hi ranges over the extents above d *)
Theorem C02_comp_sce_sparse_spec (x : rten) (ids : list nat) (dim b low hi : nat) :
  let B := Nat.max (tbatch (tsh x)) (length ids) in
  let bx := bidx (tbatch (tsh x)) b in
  let k := nth (bidx (length ids) b) ids 0 in
  rok x -> (tbatch (tsh x) = B \/ tbatch (tsh x) = 1) -> (length ids = B \/ length ids = 1) ->
  (forall q, q < length ids -> nth q ids 0 < aext x dim) ->
  b < B -> low < abase x dim -> hi < aupper x dim ->
  rnth (t_sce_sparse x ids dim) (b * (abase x dim * 1 * aupper x dim) + flat (abase x dim) 1 low 0 hi)
  = (- (at3 x dim low k (hi + aupper x dim * bx) - ln (sumexp_axis x dim low (hi + aupper x dim * bx))))%R.
Proof. exact (t_sce_sparse_spec x ids dim b low hi). Qed.
Print Assumptions C02_comp_sce_sparse_spec.

(* an axis at or beyond the depth acts on an extent-1 axis: [low, 0, high] = element low of sample high *)
Theorem C02_comp_beyond_depth (x : rten) (dim low high : nat) :
  rok x -> tdepth (tsh x) <= dim -> low < tvolume (tsh x) -> high < tbatch (tsh x) ->
  let p := flat (tvolume (tsh x)) 1 low 0 high in
  aext x dim = 1 /\ abase x dim = tvolume (tsh x) /\ ahigh x dim = tbatch (tsh x) /\
  rnth (t_logsumexp x dim) p = rnth x p /\ rnth (t_log_softmax x dim) p = 0%R /\
  rnth (t_softmax x dim) p = 1%R /\ rnth (t_sum x dim) p = rnth x p /\ rnth (t_mean x dim) p = rnth x p.
Proof. exact (beyond_depth_family x dim low high). Qed.
Print Assumptions C02_comp_beyond_depth.

(* ---- over the minibatch ---- *)
(* batch::sum(x)[i] = sum_b x[b; i];  batch::mean(x)[i] = (sum_b x[b; i]) / B *)
Theorem C02_comp_batch_mean_spec (x : rten) (i : nat) : rok x -> i < tvolume (tsh x) ->
  rnth (t_batch_sum x) i = asum (fun b => rnth x (b * tvolume (tsh x) + i)) (tbatch (tsh x)) /\
  rnth (t_batch_mean x) i
  = (asum (fun b => rnth x (b * tvolume (tsh x) + i)) (tbatch (tsh x)) / INR (tbatch (tsh x)))%R.
Proof. exact (fun Hok Hi => conj (t_batch_sum_spec x i Hi) (t_batch_mean_spec x i Hok Hi)). Qed.
Print Assumptions C02_comp_batch_mean_spec.

(* batch::normalize as written in contrib/functions.h:133-141.  B = 1: x is returned unchanged.
   B > 1: (x[b;i] - m_i) / sqrt (B/(B-1) * (q_i - m_i^2) + eps),  m_i = bmean x i = (1/B) sum_b x[b;i],
   q_i = bmeansq x i = (1/B) sum_b x[b;i]^2;  eps is the float 1e-8 of the source *)
Theorem C02_comp_batch_normalize_spec (eps : R) (x : rten) :
  (tbatch (tsh x) <= 1 -> t_batch_normalize eps x = x) /\
  (forall b i, rok x -> 1 < tbatch (tsh x) -> b < tbatch (tsh x) -> i < tvolume (tsh x) ->
     rnth (t_batch_normalize eps x) (b * tvolume (tsh x) + i)
     = ((rnth x (b * tvolume (tsh x) + i) - bmean x i)
        / sqrt (INR (tbatch (tsh x)) / (INR (tbatch (tsh x)) - 1) * (bmeansq x i - bmean x i * bmean x i) + eps))%R).
Proof. exact (conj (t_batch_normalize_single eps x) (t_batch_normalize_spec eps x)). Qed.
Print Assumptions C02_comp_batch_normalize_spec.

(* ---- elementwise helpers ---- *)
(* selu(x, a, s) = s * (x if x >= 0 else a (e^x - 1)), elementwise, shape of x *)
Theorem C02_comp_selu_spec (x : rten) (a s : R) : rok x ->
  tsh (t_selu x a s) = tsh x /\
  tdat (t_selu x a s) = map (fun v => (s * (if Rge_dec v 0 then v else a * (exp v - 1)))%R) (tdat x).
Proof. exact (t_selu_spec x a s). Qed.
Print Assumptions C02_comp_selu_spec.

(* dropout DISABLED is the identity for EVERY rate (rate 1 included), whatever the mask: the source
   tests `!enabled` before `rate == 1.` (contrib/functions.h:300-301) and so does the transcription *)
Theorem C02_comp_dropout_disabled_identity (x mask : rten) (rate : R) : t_dropout x rate false mask = x.
Proof. exact (t_dropout_disabled x rate mask). Qed.
Print Assumptions C02_comp_dropout_disabled_identity.

(* dropout enabled: rate 1 = zeros of the shape of x (`0 * x`); otherwise x * mask / (1 - rate) for the
   mask random::bernoulli returned (so rate 0 with an all-ones mask is the identity) *)
Theorem C02_comp_dropout_enabled_spec (x mask : rten) (rate : R) :
  (rok x -> tsh (t_dropout x 1 true mask) = tsh x /\ tdat (t_dropout x 1 true mask) = map (fun _ => 0%R) (tdat x)) /\
  (forall p, rok x -> rate <> 1%R -> tvolume (tsh mask) = tvolume (tsh x) -> tbatch (tsh mask) = tbatch (tsh x) ->
     p < tsize (tsh x) -> rnth (t_dropout x rate true mask) p = (rnth x p * rnth mask p / (1 - rate))%R) /\
  (forall p, rok x -> tvolume (tsh mask) = tvolume (tsh x) -> tbatch (tsh mask) = tbatch (tsh x) ->
     p < tsize (tsh x) -> rnth mask p = 1%R -> rnth (t_dropout x 0 true mask) p = rnth x p).
Proof.
  exact (conj (t_dropout_rate1 x mask) (conj (t_dropout_spec x rate mask) (t_dropout_rate0 x mask))).
Qed.
Print Assumptions C02_comp_dropout_enabled_spec.

(* the order of the two early returns matters: the transcription with `rate == 1.` tested first
   (t_dropout_swapped) violates the disabled-identity theorem at rate 1 *)
Example C02_comp_dropout_swapped_order_refuted :
  exists x mask : rten, rok x /\ t_dropout x 1 false mask = x /\ t_dropout_swapped x 1 false mask <> x.
Proof. exact t_dropout_swapped_breaks_disabled. Qed.

(* sum / mean over a non-empty container of variables of one shape: coordinatewise *)
Theorem C02_comp_container_spec (V B : nat) (x0 : rten) (xs : list rten) (p : nat) :
  same_shape V B x0 -> Forall (same_shape V B) xs -> p < B * V ->
  rnth (t_sum_list x0 xs) p = sum_list (map (fun t => rnth t p) (x0 :: xs)) /\
  rnth (t_mean_list x0 xs) p = (sum_list (map (fun t => rnth t p) (x0 :: xs)) / INR (length (x0 :: xs)))%R.
Proof. exact (fun H0 Hs Hp => conj (t_sum_list_spec V B x0 xs p H0 Hs Hp) (t_mean_list_spec V B x0 xs p H0 Hs Hp)). Qed.
Print Assumptions C02_comp_container_spec.

(* ---- non-vacuity: the {2,3}x2 tensor x[i] = i satisfies the hypotheses; hand-computed values ---- *)
Example C02_comp_nonvacuous :
  rok ex_x /\ abase ex_x 1 = 2 /\ aext ex_x 1 = 3 /\ ahigh ex_x 1 = 2 /\
  rnth (t_logsumexp ex_x 1) 3 = ln (exp 7 + exp 9 + exp 11) /\
  rnth (t_log_softmax ex_x 1) 9 = (9 - ln (exp 7 + exp 9 + exp 11))%R /\
  rnth (t_softmax ex_x 1) 9 = (exp 9 / (exp 7 + exp 9 + exp 11))%R /\
  (rnth (t_softmax ex_x 1) 7 + rnth (t_softmax ex_x 1) 9 + rnth (t_softmax ex_x 1) 11 = 1)%R /\
  rnth (t_mean ex_x 1) 3 = 9%R /\
  rnth (t_sce ex_x ex_x 1) 3 = (- (7 * (7 - ln (exp 7 + exp 9 + exp 11)) + 9 * (9 - ln (exp 7 + exp 9 + exp 11))
                                  + 11 * (11 - ln (exp 7 + exp 9 + exp 11))))%R /\
  rnth (t_sce_sparse ex_x [2; 0] 1) 3 = (- (7 - ln (exp 7 + exp 9 + exp 11)))%R /\
  rnth (t_softmax ex_x 4) 9 = 1%R /\ rnth (t_mean ex_x 4) 9 = 9%R /\
  rnth (t_batch_mean ex_x) 3 = 6%R /\
  (forall eps, rnth (t_batch_normalize eps ex_x) 9 = (3 / sqrt (18 + eps))%R) /\
  (forall eps, t_batch_normalize eps (mkTen (mkT [2; 3] 1) [0; 1; 2; 3; 4; 5]%R) = mkTen (mkT [2; 3] 1) [0; 1; 2; 3; 4; 5]%R) /\
  tdat (t_selu (mkTen (mkT [2] 1) [1; -1]%R) 2 3) = [3 * 1; 3 * (2 * (exp (-1) - 1))]%R.
Proof. exact composites_example. Qed.
