(* C01 / C03 -- gather family: every backward kernel is the TRANSPOSE of its forward index
   program (pair (d, s) of the backward, gx[d] += gy[s], iff pair (s, (0, d)) of the forward,
   y[s] := x[d]); when gx has batch 1 and gy batch B the forward is the per-sample program
   replicated over the B output samples reading the one shared input sample
   (`share_fw B V p`: sample b of y at offset b * V), so the backward FOLDS the B samples of
   gy onto the single sample of gx (C03 grad_fold). Instantiating Index.scatter_adjoint: over
   any commutative (semi)ring,
       <scatter bw gy gx, dx> = <gx, dx> + <gy, gather fw dx>
   i.e. the kernel adds to the prior gx exactly the adjoint of the forward map (LocalAdjoint
   of the gather-type operators; `gather` is the forward interpreter's output, see
   C02_gather_forward_semantics). pick / batch_pick handle batch sharing inside the same
   program (bidx), so their single statement covers the fold as well. *)
From Coq Require Import List Arith Lia Permutation.
From PV Require Import Tensor.Kernels Tensor.Index Tensor.KernelProofs Tensor.ProofsGather.
Import ListNotations.

Theorem C01_gather_slice_transpose (sx sy : tshape) (dim off base nx ny R Bx By : nat)
  (Hbase : tlower sx dim = base)
  (Hbasey : tlower sy dim = base)
  (Hnx : tget sx dim = nx)
  (Hny : tget sy dim = ny)
  (Hvx : tvolume sx = base * nx * R)
  (Hvy : tvolume sy = base * ny * R)
  (Hbx : tbatch sx = Bx)
  (Hby : tbatch sy = By)
  (Hcompat : Bx = By \/ Bx = 1 \/ By = 1)
  (HBx : 0 < Bx)
  (HBy : 0 < By)
  (Hoff : off + ny <= nx)
  (Hb0 : 0 < base)
  (Hn0 : 0 < ny)
  (Hsame : Bx = By)
  (d s : nat) :
  In (d, s) (slice_bw sy sx dim off) <-> In (s, (0, d)) (slice_fw sx sy dim off).
Proof. exact (slice_bw_transpose sx sy dim off base nx ny R Bx By Hbase Hbasey Hnx Hny Hvx Hvy Hbx Hby Hcompat HBx HBy Hoff Hb0 Hn0 Hsame d s). Qed.
Print Assumptions C01_gather_slice_transpose.

(* gx of batch 1, gy of batch By: all By samples fold onto the single sample *)
Theorem C01_gather_slice_transpose_fold (sx sy : tshape) (dim off base nx ny R Bx By : nat)
  (Hbase : tlower sx dim = base)
  (Hbasey : tlower sy dim = base)
  (Hnx : tget sx dim = nx)
  (Hny : tget sy dim = ny)
  (Hvx : tvolume sx = base * nx * R)
  (Hvy : tvolume sy = base * ny * R)
  (Hbx : tbatch sx = Bx)
  (Hby : tbatch sy = By)
  (Hcompat : Bx = By \/ Bx = 1 \/ By = 1)
  (HBx : 0 < Bx)
  (HBy : 0 < By)
  (Hoff : off + ny <= nx)
  (Hb0 : 0 < base)
  (Hn0 : 0 < ny)
  (Hone : Bx = 1)
  (d s : nat) :
  In (d, s) (slice_bw sy sx dim off) <->
  In (s, (0, d)) (share_fw By (base * ny * R) (slice_fw sx (mkT (tdims sy) 1) dim off)).
Proof. exact (slice_bw_transpose_fold sx sy dim off base nx ny R Bx By Hbase Hbasey Hnx Hny Hvx Hvy Hbx Hby Hcompat HBx HBy Hoff Hb0 Hn0 Hone d s). Qed.
Print Assumptions C01_gather_slice_transpose_fold.

(* includes the fold: with Bx = 1 the forward reads the shared sample for every b *)
Theorem C01_gather_pick_transpose (sx sy : tshape) (ids : list nat) (dim base n R B Bx : nat)
  (Hbase : tlower sy dim = base)
  (Hnx : tget sx dim = n)
  (Hvy : tvolume sy = base * 1 * R)
  (Hvx : tvolume sx = base * n * R)
  (Hby : tbatch sy = B)
  (Hbx : tbatch sx = Bx)
  (Hbc : Bx = B \/ Bx = 1)
  (Hic : length ids = B \/ length ids = 1)
  (Hids : forall b, b < length ids -> nth b ids 0 < n)
  (Hb0 : 0 < base)
  (d s : nat) :
  In (d, s) (pick_bw sy sx ids dim) <-> In (s, (0, d)) (pick_fw sx sy ids dim).
Proof. exact (pick_bw_transpose sx sy ids dim base n R B Bx Hbase Hnx Hvy Hvx Hby Hbx Hbc Hic Hids Hb0 d s). Qed.
Print Assumptions C01_gather_pick_transpose.

(* even as lists, in loop order *)
Theorem C01_gather_pick_literal (sx sy : tshape) (ids : list nat) (dim base n R B Bx : nat)
  (Hbase : tlower sy dim = base)
  (Hnx : tget sx dim = n)
  (Hvy : tvolume sy = base * 1 * R)
  (Hvx : tvolume sx = base * n * R)
  (Hby : tbatch sy = B)
  (Hbx : tbatch sx = Bx)
  (Hbc : Bx = B \/ Bx = 1)
  (Hic : length ids = B \/ length ids = 1)
  (Hids : forall b, b < length ids -> nth b ids 0 < n)
  (Hb0 : 0 < base) :
  pick_bw sy sx ids dim = transpose (pick_fw sx sy ids dim).
Proof. exact (pick_bw_eq sx sy ids dim base n R B Bx Hbase Hnx Hvy Hvx Hby Hbx Hbc Hic Hids Hb0). Qed.
Print Assumptions C01_gather_pick_literal.

Theorem C01_gather_batch_pick_transpose (sx sy : tshape) (ids : list nat) (V B Bx : nat)
  (Hvx : tvolume sx = V)
  (Hvy : tvolume sy = V)
  (Hby : tbatch sy = B)
  (Hbx : tbatch sx = Bx)
  (Hlen : length ids = B)
  (Hids : forall b, b < B -> nth b ids 0 < Bx)
  (d s : nat) :
  In (d, s) (batch_pick_bw sy sx ids) <-> In (s, (0, d)) (batch_pick_fw sx sy ids).
Proof. exact (batch_pick_bw_transpose sx sy ids V B Bx Hvx Hvy Hby Hbx Hlen Hids d s). Qed.
Print Assumptions C01_gather_batch_pick_transpose.

Theorem C01_gather_batch_slice_transpose (sx sy : tshape) (off V Bx By : nat)
  (Hvy : tvolume sy = V)
  (Hvx : tvolume sx = V)
  (Hby : tbatch sy = By)
  (Hbx : tbatch sx = Bx)
  (Hoff : off + By <= Bx)
  (HV : 0 < V)
  (d s : nat) :
  In (d, s) (batch_slice_bw sy sx off) <-> In (s, (0, d)) (batch_slice_fw sx sy off).
Proof. exact (batch_slice_bw_transpose sx sy off V Bx By Hvy Hvx Hby Hbx Hoff HV d s). Qed.
Print Assumptions C01_gather_batch_slice_transpose.

(* inplace_add sx sy: sx is the incoming gradient gy, sy the accumulator gx *)
Theorem C01_gather_inplace_add_transpose (sx sy : tshape) (V Bx By : nat)
  (Hvx : tvolume sx = V)
  (Hvy : tvolume sy = V)
  (Hbx : tbatch sx = Bx)
  (Hby : tbatch sy = By)
  (Hcompat : Bx = By \/ Bx = 1 \/ By = 1)
  (HBx : 0 < Bx)
  (HBy : 0 < By)
  (Hsame : By = Bx)
  (d s : nat) :
  In (d, s) (inplace_add sx sy) <-> In (s, (0, d)) (identity_pairs (tsize sy)).
Proof. exact (inplace_add_transpose sx sy V Bx By Hvx Hvy Hbx Hby Hcompat HBx HBy Hsame d s). Qed.
Print Assumptions C01_gather_inplace_add_transpose.

Theorem C01_gather_inplace_add_transpose_fold (sx sy : tshape) (V Bx By : nat)
  (Hvx : tvolume sx = V)
  (Hvy : tvolume sy = V)
  (Hbx : tbatch sx = Bx)
  (Hby : tbatch sy = By)
  (Hcompat : Bx = By \/ Bx = 1 \/ By = 1)
  (HBx : 0 < Bx)
  (HBy : 0 < By)
  (Hone : By = 1)
  (d s : nat) :
  In (d, s) (inplace_add sx sy) <-> In (s, (0, d)) (share_fw Bx V (identity_pairs V)).
Proof. exact (inplace_add_transpose_fold sx sy V Bx By Hvx Hvy Hbx Hby Hcompat HBx HBy Hone d s). Qed.
Print Assumptions C01_gather_inplace_add_transpose_fold.

Theorem C01_gather_slice_adjoint (T : Type) (zero : T) (add mul : T -> T -> T)
  (add_comm : forall a b, add a b = add b a)
  (add_assoc : forall a b c, add a (add b c) = add (add a b) c)
  (add_0_l : forall a, add zero a = a)
  (mul_add_distr_r : forall a b c, mul (add a b) c = add (mul a c) (mul b c))
  (sx sy : tshape) (dim off base nx ny R Bx By : nat)
  (Hbase : tlower sx dim = base)
  (Hbasey : tlower sy dim = base)
  (Hnx : tget sx dim = nx)
  (Hny : tget sy dim = ny)
  (Hvx : tvolume sx = base * nx * R)
  (Hvy : tvolume sy = base * ny * R)
  (Hbx : tbatch sx = Bx)
  (Hby : tbatch sy = By)
  (Hcompat : Bx = By \/ Bx = 1 \/ By = 1)
  (HBx : 0 < Bx)
  (HBy : 0 < By)
  (Hoff : off + ny <= nx)
  (Hb0 : 0 < base)
  (Hn0 : 0 < ny)
  (Hsame : Bx = By)
  (gy gx dx : list T)
  (Hgx : length gx = tsize sx) (Hgy : length gy = tsize sy) (Hdx : length dx = tsize sx) :
  dot T zero add mul (scatter T zero add (slice_bw sy sx dim off) gy gx) dx =
  add (dot T zero add mul gx dx)
      (dot T zero add mul gy (gather T zero (slice_fw sx sy dim off) (tsize sy) dx)).
Proof.
  exact (adjoint_pair_scatter T zero add mul add_comm add_assoc add_0_l mul_add_distr_r _ _ _ _ gy gx dx
           (slice_pair_same sx sy dim off base nx ny R Bx By Hbase Hbasey Hnx Hny Hvx Hvy Hbx Hby Hcompat HBx HBy Hoff Hb0 Hn0 Hsame) Hgx Hgy Hdx).
Qed.
Print Assumptions C01_gather_slice_adjoint.

Theorem C01_gather_slice_adjoint_fold (T : Type) (zero : T) (add mul : T -> T -> T)
  (add_comm : forall a b, add a b = add b a)
  (add_assoc : forall a b c, add a (add b c) = add (add a b) c)
  (add_0_l : forall a, add zero a = a)
  (mul_add_distr_r : forall a b c, mul (add a b) c = add (mul a c) (mul b c))
  (sx sy : tshape) (dim off base nx ny R Bx By : nat)
  (Hbase : tlower sx dim = base)
  (Hbasey : tlower sy dim = base)
  (Hnx : tget sx dim = nx)
  (Hny : tget sy dim = ny)
  (Hvx : tvolume sx = base * nx * R)
  (Hvy : tvolume sy = base * ny * R)
  (Hbx : tbatch sx = Bx)
  (Hby : tbatch sy = By)
  (Hcompat : Bx = By \/ Bx = 1 \/ By = 1)
  (HBx : 0 < Bx)
  (HBy : 0 < By)
  (Hoff : off + ny <= nx)
  (Hb0 : 0 < base)
  (Hn0 : 0 < ny)
  (Hone : Bx = 1)
  (gy gx dx : list T)
  (Hgx : length gx = tsize sx) (Hgy : length gy = tsize sy) (Hdx : length dx = tsize sx) :
  dot T zero add mul (scatter T zero add (slice_bw sy sx dim off) gy gx) dx =
  add (dot T zero add mul gx dx)
      (dot T zero add mul gy (gather T zero (share_fw By (base * ny * R) (slice_fw sx (mkT (tdims sy) 1) dim off)) (tsize sy) dx)).
Proof.
  exact (adjoint_pair_scatter T zero add mul add_comm add_assoc add_0_l mul_add_distr_r _ _ _ _ gy gx dx
           (slice_pair_fold sx sy dim off base nx ny R Bx By Hbase Hbasey Hnx Hny Hvx Hvy Hbx Hby Hcompat HBx HBy Hoff Hb0 Hn0 Hone) Hgx Hgy Hdx).
Qed.
Print Assumptions C01_gather_slice_adjoint_fold.

Theorem C01_gather_pick_adjoint (T : Type) (zero : T) (add mul : T -> T -> T)
  (add_comm : forall a b, add a b = add b a)
  (add_assoc : forall a b c, add a (add b c) = add (add a b) c)
  (add_0_l : forall a, add zero a = a)
  (mul_add_distr_r : forall a b c, mul (add a b) c = add (mul a c) (mul b c))
  (sx sy : tshape) (ids : list nat) (dim base n R B Bx : nat)
  (Hbase : tlower sy dim = base)
  (Hnx : tget sx dim = n)
  (Hvy : tvolume sy = base * 1 * R)
  (Hvx : tvolume sx = base * n * R)
  (Hby : tbatch sy = B)
  (Hbx : tbatch sx = Bx)
  (Hbc : Bx = B \/ Bx = 1)
  (Hic : length ids = B \/ length ids = 1)
  (Hids : forall b, b < length ids -> nth b ids 0 < n)
  (Hb0 : 0 < base)
  (gy gx dx : list T)
  (Hgx : length gx = tsize sx) (Hgy : length gy = tsize sy) (Hdx : length dx = tsize sx) :
  dot T zero add mul (scatter T zero add (pick_bw sy sx ids dim) gy gx) dx =
  add (dot T zero add mul gx dx)
      (dot T zero add mul gy (gather T zero (pick_fw sx sy ids dim) (tsize sy) dx)).
Proof.
  exact (adjoint_pair_scatter T zero add mul add_comm add_assoc add_0_l mul_add_distr_r _ _ _ _ gy gx dx
           (pick_pair sx sy ids dim base n R B Bx Hbase Hnx Hvy Hvx Hby Hbx Hbc Hic Hids Hb0) Hgx Hgy Hdx).
Qed.
Print Assumptions C01_gather_pick_adjoint.

Theorem C01_gather_batch_pick_adjoint (T : Type) (zero : T) (add mul : T -> T -> T)
  (add_comm : forall a b, add a b = add b a)
  (add_assoc : forall a b c, add a (add b c) = add (add a b) c)
  (add_0_l : forall a, add zero a = a)
  (mul_add_distr_r : forall a b c, mul (add a b) c = add (mul a c) (mul b c))
  (sx sy : tshape) (ids : list nat) (V B Bx : nat)
  (Hvx : tvolume sx = V)
  (Hvy : tvolume sy = V)
  (Hby : tbatch sy = B)
  (Hbx : tbatch sx = Bx)
  (Hlen : length ids = B)
  (Hids : forall b, b < B -> nth b ids 0 < Bx)
  (gy gx dx : list T)
  (Hgx : length gx = tsize sx) (Hgy : length gy = tsize sy) (Hdx : length dx = tsize sx) :
  dot T zero add mul (scatter T zero add (batch_pick_bw sy sx ids) gy gx) dx =
  add (dot T zero add mul gx dx)
      (dot T zero add mul gy (gather T zero (batch_pick_fw sx sy ids) (tsize sy) dx)).
Proof.
  exact (adjoint_pair_scatter T zero add mul add_comm add_assoc add_0_l mul_add_distr_r _ _ _ _ gy gx dx
           (batch_pick_pair sx sy ids V B Bx Hvx Hvy Hby Hbx Hlen Hids) Hgx Hgy Hdx).
Qed.
Print Assumptions C01_gather_batch_pick_adjoint.

Theorem C01_gather_batch_slice_adjoint (T : Type) (zero : T) (add mul : T -> T -> T)
  (add_comm : forall a b, add a b = add b a)
  (add_assoc : forall a b c, add a (add b c) = add (add a b) c)
  (add_0_l : forall a, add zero a = a)
  (mul_add_distr_r : forall a b c, mul (add a b) c = add (mul a c) (mul b c))
  (sx sy : tshape) (off V Bx By : nat)
  (Hvy : tvolume sy = V)
  (Hvx : tvolume sx = V)
  (Hby : tbatch sy = By)
  (Hbx : tbatch sx = Bx)
  (Hoff : off + By <= Bx)
  (HV : 0 < V)
  (gy gx dx : list T)
  (Hgx : length gx = tsize sx) (Hgy : length gy = tsize sy) (Hdx : length dx = tsize sx) :
  dot T zero add mul (scatter T zero add (batch_slice_bw sy sx off) gy gx) dx =
  add (dot T zero add mul gx dx)
      (dot T zero add mul gy (gather T zero (batch_slice_fw sx sy off) (tsize sy) dx)).
Proof.
  exact (adjoint_pair_scatter T zero add mul add_comm add_assoc add_0_l mul_add_distr_r _ _ _ _ gy gx dx
           (batch_slice_pair sx sy off V Bx By Hvy Hvx Hby Hbx Hoff HV) Hgx Hgy Hdx).
Qed.
Print Assumptions C01_gather_batch_slice_adjoint.

(* backward of copy / reshape / flatten (forward = identity movement); gy has shape sx, gx shape sy *)
Theorem C01_gather_inplace_add_adjoint (T : Type) (zero : T) (add mul : T -> T -> T)
  (add_comm : forall a b, add a b = add b a)
  (add_assoc : forall a b c, add a (add b c) = add (add a b) c)
  (add_0_l : forall a, add zero a = a)
  (mul_add_distr_r : forall a b c, mul (add a b) c = add (mul a c) (mul b c))
  (sx sy : tshape) (V Bx By : nat)
  (Hvx : tvolume sx = V)
  (Hvy : tvolume sy = V)
  (Hbx : tbatch sx = Bx)
  (Hby : tbatch sy = By)
  (Hcompat : Bx = By \/ Bx = 1 \/ By = 1)
  (HBx : 0 < Bx)
  (HBy : 0 < By)
  (Hsame : By = Bx)
  (gy gx dx : list T)
  (Hgx : length gx = tsize sy) (Hgy : length gy = tsize sx) (Hdx : length dx = tsize sy) :
  dot T zero add mul (scatter T zero add (inplace_add sx sy) gy gx) dx =
  add (dot T zero add mul gx dx)
      (dot T zero add mul gy (gather T zero (identity_pairs (tsize sy)) (tsize sx) dx)).
Proof.
  exact (adjoint_pair_scatter T zero add mul add_comm add_assoc add_0_l mul_add_distr_r _ _ _ _ gy gx dx
           (inplace_add_pair_same sx sy V Bx By Hvx Hvy Hbx Hby Hcompat HBx HBy Hsame) Hgx Hgy Hdx).
Qed.
Print Assumptions C01_gather_inplace_add_adjoint.

Theorem C01_gather_inplace_add_adjoint_fold (T : Type) (zero : T) (add mul : T -> T -> T)
  (add_comm : forall a b, add a b = add b a)
  (add_assoc : forall a b c, add a (add b c) = add (add a b) c)
  (add_0_l : forall a, add zero a = a)
  (mul_add_distr_r : forall a b c, mul (add a b) c = add (mul a c) (mul b c))
  (sx sy : tshape) (V Bx By : nat)
  (Hvx : tvolume sx = V)
  (Hvy : tvolume sy = V)
  (Hbx : tbatch sx = Bx)
  (Hby : tbatch sy = By)
  (Hcompat : Bx = By \/ Bx = 1 \/ By = 1)
  (HBx : 0 < Bx)
  (HBy : 0 < By)
  (Hone : By = 1)
  (gy gx dx : list T)
  (Hgx : length gx = tsize sy) (Hgy : length gy = tsize sx) (Hdx : length dx = tsize sy) :
  dot T zero add mul (scatter T zero add (inplace_add sx sy) gy gx) dx =
  add (dot T zero add mul gx dx)
      (dot T zero add mul gy (gather T zero (share_fw Bx V (identity_pairs V)) (tsize sx) dx)).
Proof.
  exact (adjoint_pair_scatter T zero add mul add_comm add_assoc add_0_l mul_add_distr_r _ _ _ _ gy gx dx
           (inplace_add_pair_fold sx sy V Bx By Hvx Hvy Hbx Hby Hcompat HBx HBy Hone) Hgx Hgy Hdx).
Qed.
Print Assumptions C01_gather_inplace_add_adjoint_fold.

(* the premises are satisfiable (x = [2,3,4]x2, ids (2,0), axis 1; ring = nat), and the identity
   then holds for concrete vectors: gx = 1..48, dx = 2..49, gy = 3..18 *)
Example C01_gather_nonvacuous :
  let sx := mkT [2; 3; 4] 2 in let sy := mkT [2; 1; 4] 2 in
  let gx := seq 1 48 in let dx := seq 2 48 in let gy := seq 3 16 in
  dot nat 0 Nat.add Nat.mul (scatter nat 0 Nat.add (pick_bw sy sx [2; 0] 1) gy gx) dx =
  dot nat 0 Nat.add Nat.mul gx dx +
  dot nat 0 Nat.add Nat.mul gy (gather nat 0 (pick_fw sx sy [2; 0] 1) 16 dx).
Proof.
  intros sx sy gx dx gy.
  assert (Hids : forall b, b < length [2; 0] -> nth b [2; 0] 0 < 3).
  { intros b Hb. destruct b as [|[|b]]; cbn in *; lia. }
  apply (C01_gather_pick_adjoint nat 0 Nat.add Nat.mul Nat.add_comm Nat.add_assoc Nat.add_0_l
           Nat.mul_add_distr_r sx sy [2; 0] 1 2 3 4 2 2); first [reflexivity | lia | left; reflexivity | right; left; reflexivity | assumption].
Qed.

(* batch fold, concretely: gx = [2,3,4]x1 receives the slices of both samples of gy = [2,2,4]x2 *)
Example C01_gather_nonvacuous_fold :
  let sx := mkT [2; 3; 4] 1 in let sy := mkT [2; 2; 4] 2 in
  In (flat 2 3 1 (1 + 1) 3, 0 * 16 + flat 2 2 1 1 3) (slice_bw sy sx 1 1) /\
  In (flat 2 3 1 (1 + 1) 3, 1 * 16 + flat 2 2 1 1 3) (slice_bw sy sx 1 1).
Proof.
  intros sx sy.
  split.
  - apply (C01_gather_slice_transpose_fold sx sy 1 1 2 3 2 4 1 2); try first [reflexivity | lia | left; reflexivity | right; left; reflexivity | assumption].
    apply share_fw_In. exists 0, (flat 2 2 1 1 3). split; [auto with arith|]. split; [reflexivity|].
    vm_compute. repeat (first [left; reflexivity | right]).
  - apply (C01_gather_slice_transpose_fold sx sy 1 1 2 3 2 4 1 2); try first [reflexivity | lia | left; reflexivity | right; left; reflexivity | assumption].
    apply share_fw_In. exists 1, (flat 2 2 1 1 3). split; [auto with arith|]. split; [reflexivity|].
    vm_compute. repeat (first [left; reflexivity | right]).
Qed.
