(* C13, part "headers" -- the length / number headers of the MessagePack Writer and Reader, tied to
   the CURRENT msgpack/writer.h and msgpack/reader.h through the regenerated Gen/IoHeaders.v.
   Nothing but statements closed by `exact <lemma>` and Print Assumptions. *)
From Coq Require Import List NArith ZArith Bool.
From PV Require Import Msgpack.Codec Msgpack.HeaderRows Msgpack.ReaderRows Msgpack.HeaderRowsProofs Msgpack.ReaderRowsProofs
  Msgpack.HeadersMatch Gen.IoHeaders Shape.ShapeImpl Msgpack.FileFormat Msgpack.FileProofs Msgpack.BigFile Msgpack.BigFileProofs.
Import ListNotations.
Local Open Scope N_scope.

(* WRITER_ROWS: one row per leaf of the if / else-if / switch tree of every Writer overload (the
   guard range, the switch selection, the byte expressions of the buffer in source order, the
   buffer size and the write count), as read from writer.h on this run.  Evaluated with the
   meaning of the C++ operators (PRIMITIV_UC(e) = low 8 bits of e, first row whose guard holds),
   they give, for EVERY kind, every value / size v the C++ type can hold (up to 2^64 - 1) and
   every ext type, exactly what the model's writer emits in front of the payload -- or throw
   exactly when the model says Error (str / bin / ext of 2^32 bytes and more), or write nothing
   (array / map of 2^32 elements and more). *)
Theorem C13_writer_headers_match k v ty : v < dom k -> interp WRITER_ROWS k v (twos 1 ty) = w_model k v ty.
Proof. exact (writer_headers_match k v ty). Qed.
Print Assumptions C13_writer_headers_match.

(* The integer overloads: v is the two's complement image of x.  The byte PRIMITIV_UC(x >> k) of a
   signed x (arithmetic shift, then the low 8 bits) is the byte the rows compute from the image
   whenever it lies inside the type, and the model's signed writers emit the image. *)
Theorem C13_signed_shift_is_image_shift (w : nat) (x : Z) (k : N) : k + 8 <= 8 * N.of_nat w ->
  Z.to_N ((Z.shiftr x (Z.of_N k)) mod 256)%Z = N.shiftr (twos w x) k mod 256.
Proof. exact (signed_shift_byte w x k). Qed.
Print Assumptions C13_signed_shift_is_image_shift.
Theorem C13_signed_writers_emit_image x :
  w_i8 x = T_I8 :: be 1 (twos 1 x) /\ w_i16 x = T_I16 :: be 2 (twos 2 x) /\
  w_i32 x = T_I32 :: be 4 (twos 4 x) /\ w_i64 x = T_I64 :: be 8 (twos 8 x).
Proof. exact (w_int_image x). Qed.
Print Assumptions C13_signed_writers_emit_image.

(* ... and what follows the header in each overload (raw payload of `size` bytes, element loop,
   pair loop, delegation of the two string overloads to write_string) is what the model appends;
   every overload of the file is accounted for; PRIMITIV_UC is the cast to char. *)
Theorem C13_writer_payload_forms :
  WRITER_PAYS = model_pays /\ WRITER_STR_ENTRY = [PStrDelegate; PStrDelegate] /\ WRITER_UNKNOWN = 0 /\ WRITER_UC_IS_CHAR_CAST = true.
Proof. exact writer_rest_match. Qed.
Print Assumptions C13_writer_payload_forms.

(* The header the source computes for a payload, followed by the payload, is the encoding of the
   proved writer (the one of C13_read_write / C13_writer_emits_valid_msgpack). *)
Theorem C13_source_header_then_payload :
  (forall s, len s < 2 ^ 32 -> interp WRITER_ROWS HkStr (len s) 0 = OWrite (str_hdr (len s)) /\ w_str s = str_hdr (len s) ++ s) /\
  (forall s, len s < 2 ^ 32 -> interp WRITER_ROWS HkBin (len s) 0 = OWrite (bin_hdr (len s)) /\ w_bin s = bin_hdr (len s) ++ s) /\
  (forall ty s, len s < 2 ^ 32 ->
     interp WRITER_ROWS HkExt (len s) (twos 1 ty) = OWrite (ext_hdr ty (len s)) /\ w_ext (ty, s) = ext_hdr ty (len s) ++ s) /\
  (forall A (we : A -> bytes) l, N.of_nat (length l) < 2 ^ 32 ->
     interp WRITER_ROWS HkArr (N.of_nat (length l)) 0 = OWrite (arr_hdr (N.of_nat (length l))) /\
     w_vec we l = arr_hdr (N.of_nat (length l)) ++ flat_map we l) /\
  (forall K V (wk : K -> bytes) (wv : V -> bytes) l, N.of_nat (length l) < 2 ^ 32 ->
     interp WRITER_ROWS HkMap (N.of_nat (length l)) 0 = OWrite (map_hdr (N.of_nat (length l))) /\
     w_map wk wv l = map_hdr (N.of_nat (length l)) ++ flat_map (fun kv => wk (fst kv) ++ wv (snd kv)) l).
Proof. exact source_header_then_payload. Qed.
Print Assumptions C13_source_header_then_payload.

(* READER_GETS: the (index, shift) terms of get_uint8/16/32/64; READER_ROWS: per overload the tests
   on the type byte in source order and where the value / size comes from.  On every type byte
   and every stream of bytes they give what the model's Reader computes between the type byte
   and the payload (the word of a scalar, the size of str / bin / ext / array / map), or throw. *)
Theorem C13_reader_headers_match k t b : t < 256 -> is_bytes b ->
  rinterp READER_GETS READER_ROWS k t b = r_model k t b.
Proof. exact (reader_headers_match k t b). Qed.
Print Assumptions C13_reader_headers_match.

(* r_model is that part of the proved Reader *)
Theorem C13_reader_model_is_codec :
  r_str = rbind rd8 (fun t => rbind (r_model HkStr t) take) /\
  r_bin = rbind rd8 (fun t => rbind (r_model HkBin t) take) /\
  r_ext = rbind rd8 (fun t => rbind (r_model HkExt t)
            (fun size => rbind rd8 (fun ty => rbind (take size) (fun d => rret (untwos 1 ty, d))))) /\
  (forall A (rd : reader A), r_vec rd = rbind rd8 (fun t => rbind (r_model HkArr t) (rd_n rd))) /\
  (forall K V (rk : reader K) (rv : reader V), r_map rk rv = rbind rd8 (fun t => rbind (r_model HkMap t) (rd_n (r_pair rk rv)))) /\
  (forall b, r_u8 b = rbind rd8 (r_model HkU8) b) /\ (forall b, r_u16 b = rbind rd8 (r_model HkU16) b) /\
  (forall b, r_u32 b = rbind rd8 (r_model HkU32) b) /\ (forall b, r_u64 b = rbind rd8 (r_model HkU64) b) /\
  (forall b, r_i8 b = rbind rd8 (fun t => rmap (untwos 1) (r_model HkI8 t)) b) /\
  (forall b, r_i16 b = rbind rd8 (fun t => rmap (untwos 2) (r_model HkI16 t)) b) /\
  (forall b, r_i32 b = rbind rd8 (fun t => rmap (untwos 4) (r_model HkI32 t)) b) /\
  (forall b, r_i64 b = rbind rd8 (fun t => rmap (untwos 8) (r_model HkI64 t)) b) /\
  (forall b, r_f32 b = rbind rd8 (r_model HkF32) b) /\ (forall b, r_f64 b = rbind rd8 (r_model HkF64) b) /\
  (forall b, rmap (fun _ => 0) r_nil b = rbind rd8 (r_model HkNil) b) /\
  (forall b, rmap (fun x : bool => if x then 1 else 0) r_bool b = rbind rd8 (r_model HkBool) b).
Proof.
  exact (conj r_str_model (conj r_bin_model (conj r_ext_model (conj (@r_vec_model) (conj (@r_map_model)
         (conj r_u8_model (conj r_u16_model (conj r_u32_model (conj r_u64_model (conj r_i8_model (conj r_i16_model
         (conj r_i32_model (conj r_i64_model (conj r_f32_model (conj r_f64_model (conj r_nil_model r_bool_model)))))))))))))))).
Qed.
Print Assumptions C13_reader_model_is_codec.

(* A Parameter file is a prefix that depends on the shape alone (version, data type, shape, bin
   header of 4 * size bytes), the little-endian words, and the statistics part: the `bigparam`
   correspondence compares exactly this prefix and the total length on a 16 MiB file. *)
Theorem C13_parameter_file_prefix ws p : wf_param p ->
  enc_param_file ws p = param_file_prefix (tshape (p_value p)) ++ payload (twords (p_value p)) ++ param_file_suffix ws p /\
  len (enc_param_file ws p) = len (param_file_prefix (tshape (p_value p))) + size (tshape (p_value p)) * 4 + len (param_file_suffix ws p).
Proof. exact (fun W => conj (param_file_split ws p W) (param_file_length ws p W)). Qed.
Print Assumptions C13_parameter_file_prefix.

(* the 16 MiB boundary of bin32 / str32 (top byte of the length), through the source's rows *)
Example C13_headers_nonvacuous :
  interp WRITER_ROWS HkBin 16777216 0 = OWrite [0xc6; 1; 0; 0; 0] /\
  interp WRITER_ROWS HkStr 16777217 0 = OWrite [0xdb; 1; 0; 0; 1] /\
  interp WRITER_ROWS HkExt 70000 (twos 1 (-2)) = OWrite [0xc9; 0; 1; 17; 112; 254] /\
  interp WRITER_ROWS HkBin 4294967296 0 = OThrow /\
  interp WRITER_ROWS HkArr 4294967296 0 = OWrite [] /\
  rinterp READER_GETS READER_ROWS HkBin 0xc6 [1; 0; 0; 0; 7] = Some (16777216, [7]) /\
  rinterp READER_GETS READER_ROWS HkU64 0xcf [1; 2; 3; 4; 5; 6; 7; 8] = Some (72623859790382856, []) /\
  length WRITER_ROWS = 37%nat /\ length READER_ROWS = 33%nat.
Proof. vm_compute. repeat split; reflexivity. Qed.
