(* C03 (minibatch law) -- program level, extended operator set.  Statements only; proofs in
   Tensor/ProofsBatchSample.v (per-kernel sample lemmas) and Tensor/ProofsBatchLaw.v (language,
   batch_law_program_ext, batch_only_movers, grad_fold).  All theorems speak about the index
   programs of Tensor/Kernels.v (tied to devices/naive/ops/*.cc by the differential check of the
   tensor engine).
     xexpr / xeval / xwf B / xsample b   the extended language, its evaluation through the kernels'
                                         index programs, acceptance with minibatch size B, and the
                                         same program on the b-th samples alone
     sample_pair T b (s, v)              = (unb s, sample_or_shared s b (tvolume s) v)
     set_dim / with_batch / unb          Shape::resize_dim / resize_batch / batch 1
     mov_eval, red_vals, bil_val         outputs of data-movement / reduction / bilinear programs
   Which functions of primitiv::functions the language covers is listed at the top of
   Tensor/ProofsBatchLaw.v. *)
From Coq Require Import List Arith Lia Permutation Bool.
From PV Require Import Tensor.Kernels Tensor.Index Tensor.KernelProofs Tensor.ProofsBilinear
                       Tensor.ProofsGather Tensor.ProofsPerm Tensor.ProofsBatchSample Tensor.ProofsBatchLaw.
Import ListNotations.

(* MAIN (extended operator set: elementwise, slice/split, pick, concat, broadcast, flip, transpose, permute_dims, reshape/flatten, axis reductions, matmul, conv2d, max_pool2d - each through its index program of Tensor/Kernels.v): for every program accepted with minibatch size B (every operand batch 1 or B, shape rules of core/shape_ops.cc), evaluating it on the b-th samples alone (a batch-1 leaf shared, a per-sample pick index list reduced to its b-th entry) gives (batch-1 shape, sample b of the batched evaluation - the single sample when the result is shared) *)
Theorem C03_batch_law_program_ext :
  forall (T : Type) (zero : T) (add mul : T -> T -> T) (B b : nat) (e : xexpr T),
  0 < B ->
  b < B ->
  xwf T zero add mul B e ->
  xeval T zero add mul (xsample T b e) = sample_pair T b (xeval T zero add mul e).
Proof. exact batch_law_program_ext. Qed.
Print Assumptions C03_batch_law_program_ext.

(* ... read off for a batched result: elements b*V .. b*V+V-1 *)
Theorem C03_batch_law_program_ext_batched :
  forall (T : Type) (zero : T) (add mul : T -> T -> T) (B b : nat) (e : xexpr T),
  0 < B ->
  b < B ->
  xwf T zero add mul B e ->
  1 < tbatch (fst (xeval T zero add mul e)) ->
  snd (xeval T zero add mul (xsample T b e)) =
  block b (tvolume (fst (xeval T zero add mul e))) (snd (xeval T zero add mul e)).
Proof. exact batch_law_program_ext_batched. Qed.
Print Assumptions C03_batch_law_program_ext_batched.

(* ... and for a result all of whose leaves are shared *)
Theorem C03_batch_law_program_ext_shared :
  forall (T : Type) (zero : T) (add mul : T -> T -> T) (B b : nat) (e : xexpr T),
  0 < B ->
  b < B ->
  xwf T zero add mul B e ->
  tbatch (fst (xeval T zero add mul e)) = 1 ->
  snd (xeval T zero add mul (xsample T b e)) = snd (xeval T zero add mul e).
Proof. exact batch_law_program_ext_shared. Qed.
Print Assumptions C03_batch_law_program_ext_shared.

(* the shape of the per-sample run is the batch-1 version of the batched shape *)
Theorem C03_batch_law_program_ext_shape :
  forall (T : Type) (zero : T) (add mul : T -> T -> T) (B b : nat) (e : xexpr T),
  0 < B ->
  b < B ->
  xwf T zero add mul B e ->
  fst (xeval T zero add mul (xsample T b e)) = unb (fst (xeval T zero add mul e)).
Proof. exact batch_law_program_ext_shape. Qed.
Print Assumptions C03_batch_law_program_ext_shape.

(* every accepted program yields a well-formed shape with batch 1 or B and exactly shape-many values *)
Theorem C03_xeval_good :
  forall (T : Type) (zero : T) (add mul : T -> T -> T) (B : nat) (e : xexpr T),
  0 < B -> xwf T zero add mul B e -> good T B (xeval T zero add mul e).
Proof. exact xeval_good. Qed.
Print Assumptions C03_xeval_good.

(* batch sizes other than equal-or-1 are rejected: results of accepted programs feeding one operator have compatible batches *)
Theorem C03_accepted_batches_compatible :
  forall (T : Type) (zero : T) (add mul : T -> T -> T) (B : nat) (e1 e2 : xexpr T),
  0 < B ->
  xwf T zero add mul B e1 ->
  xwf T zero add mul B e2 ->
  tbatch (fst (xeval T zero add mul e1)) = tbatch (fst (xeval T zero add mul e2)) \/
  tbatch (fst (xeval T zero add mul e1)) = 1 \/ tbatch (fst (xeval T zero add mul e2)) = 1.
Proof. exact accepted_batches_compatible. Qed.
Print Assumptions C03_accepted_batches_compatible.

(* ... and no minibatch size accepts operands with two different batch sizes > 1 *)
Theorem C03_mixed_batches_rejected :
  forall (T : Type) (zero : T) (add mul op : T -> T -> T) (s1 : tshape) (v1 : list T) 
    (s2 : tshape) (v2 : list T) (B : nat),
  1 < tbatch s1 ->
  1 < tbatch s2 ->
  tbatch s1 <> tbatch s2 -> ~ xwf T zero add mul B (XBin T op (XLeaf T s1 v1) (XLeaf T s2 v2)).
Proof. exact mixed_batches_rejected. Qed.
Print Assumptions C03_mixed_batches_rejected.

(* the language extends the elementwise language of ProofsBilinear: same evaluation *)
Theorem C03_embed_eval :
  forall (T : Type) (zero : T) (add mul : T -> T -> T) (e : expr T),
  xeval T zero add mul (embed T e) = eval T zero e.
Proof. exact embed_eval. Qed.
Print Assumptions C03_embed_eval.

(* ... same per-sample program *)
Theorem C03_embed_sample :
  forall (T : Type) (b : nat) (e : expr T), xsample T b (embed T e) = embed T (esample T b e).
Proof. exact embed_sample. Qed.
Print Assumptions C03_embed_sample.

(* ... and its accepted programs (with positive leaf dims) are accepted *)
Theorem C03_embed_wf :
  forall (T : Type) (zero : T) (add mul : T -> T -> T) (B : nat) (e : expr T),
  wf T zero B e -> leaves_twf T e -> xwf T zero add mul B (embed T e).
Proof. exact embed_wf. Qed.
Print Assumptions C03_embed_wf.

(* ONLY THE BATCH NAMESPACE MOVES DATA ACROSS SAMPLES, positive half: EVERY operator of the language applied to accepted operands satisfies the sample law *)
Theorem C03_batch_only_movers :
  forall (T : Type) (zero : T) (add mul : T -> T -> T) (B b : nat) (e : xexpr T),
  0 < B ->
  b < B ->
  single_op T e ->
  xwf T zero add mul B e ->
  xeval T zero add mul (xsample T b e) = sample_pair T b (xeval T zero add mul e).
Proof. exact batch_only_movers. Qed.
Print Assumptions C03_batch_only_movers.

(* ... hence non-interference for whole programs: two runs whose b-th samples, shared operands and attributes coincide have the same sample b, whatever the other samples hold *)
Theorem C03_no_cross_sample_flow :
  forall (T : Type) (zero : T) (add mul : T -> T -> T) (B b : nat) (e e' : xexpr T),
  0 < B ->
  b < B ->
  xwf T zero add mul B e ->
  xwf T zero add mul B e' ->
  xsample T b e = xsample T b e' ->
  sample_pair T b (xeval T zero add mul e) = sample_pair T b (xeval T zero add mul e').
Proof. exact no_cross_sample_flow. Qed.
Print Assumptions C03_no_cross_sample_flow.

(* (the hypothesis of no_cross_sample_flow is met by a leaf changed in one element of another sample c <> b) *)
Theorem C03_leaf_change_elsewhere :
  forall T : Type,
  T ->
  forall (s : tshape) (x : list T) (b c i : nat) (v : T),
  1 < tbatch s ->
  b <> c ->
  i < tvolume s ->
  c * tvolume s + i < length x ->
  xsample T b (XLeaf T s (upd T x (c * tvolume s + i) v)) = xsample T b (XLeaf T s x).
Proof. exact leaf_change_elsewhere. Qed.
Print Assumptions C03_leaf_change_elsewhere.

(* negative half, through the index programs of the batch namespace (explicit witnesses, nat values): batch::sum - overwriting sample 1 changes sample 0 of the result *)
Theorem C03_batch_sum_moves :
  moves_across_samples (batch_sum_val {| tdims := [1]; tbatch := 2 |}) 1 1.
Proof. exact batch_sum_moves. Qed.
Print Assumptions C03_batch_sum_moves.

(* batch::pick with ids = [1; 0] *)
Theorem C03_batch_pick_moves :
  moves_across_samples (batch_pick_val {| tdims := [1]; tbatch := 2 |} [1; 0]) 1 1.
Proof. exact batch_pick_moves. Qed.
Print Assumptions C03_batch_pick_moves.

(* batch::slice / batch::split with offset 1 *)
Theorem C03_batch_slice_moves :
  moves_across_samples (batch_slice_val {| tdims := [1]; tbatch := 2 |} 1 1) 1 1.
Proof. exact batch_slice_moves. Qed.
Print Assumptions C03_batch_slice_moves.

(* batch::concat: sample 0 of the second operand becomes sample 2 of the result *)
Theorem C03_batch_concat_moves :
  moves_across_samples
    (fun x : list nat =>
     batch_concat_val
       [({| tdims := [1]; tbatch := 2 |}, [1; 2]); ({| tdims := [1]; tbatch := 2 |}, x)]) 1 1.
Proof. exact batch_concat_moves. Qed.
Print Assumptions C03_batch_concat_moves.

(* batch::sum of the sample-0 part alone is 1, sample 0 of the batched result is 3: the sample law fails *)
Theorem C03_batch_sum_violates_law :
  let sx := {| tdims := [1]; tbatch := 2 |} in
  let x := [1; 2] in
  twf sx /\
  length x = tsize sx /\
  batch_sum_val (unb sx) (sample_or_shared sx 0 (tvolume sx) x) = [1] /\
  sample_or_shared (unb sx) 0 (tvolume sx) (batch_sum_val sx x) = [3].
Proof. exact batch_sum_violates_law. Qed.
Print Assumptions C03_batch_sum_violates_law.

(* batch::concat of the per-sample parts has two samples, a sample of the batched result one *)
Theorem C03_batch_concat_violates_law :
  let rs := [({| tdims := [1]; tbatch := 2 |}, [1; 2]); ({| tdims := [1]; tbatch := 2 |}, [3; 4])] in
  length (batch_concat_val (map (sample_pair nat 0) rs)) = 2 /\
  batch_concat_val (map (sample_pair nat 0) rs) = [1; 3] /\ block 0 1 (batch_concat_val rs) = [1].
Proof. exact batch_concat_violates_law. Qed.
Print Assumptions C03_batch_concat_violates_law.

(* PER-KERNEL SAMPLE LEMMAS. slice_fw (slice, split): sample b of the result = the kernel at batch-1 shapes on sample b of x *)
Theorem C03_slice_sample :
  forall (T : Type) (zero : T) (sx : tshape) (dim off n : nat) (x : list T) (b : nat),
  twf sx ->
  slice_ok sx dim off n ->
  b < tbatch sx ->
  block b (tvolume (set_dim sx dim n)) (slice_val T zero sx dim off n x) =
  slice_val T zero (unb sx) dim off n (block b (tvolume sx) x).
Proof. exact slice_sample. Qed.
Print Assumptions C03_slice_sample.

(* pick_fw: sample b picks, in sample b of x (or its shared sample), the index given for sample b (or the shared index) *)
Theorem C03_pick_sample :
  forall (T : Type) (zero : T) (sx : tshape) (ids : list nat) (dim : nat) (x : list T) (b : nat),
  twf sx ->
  pick_ok sx ids dim ->
  b < tbatch (pick_shape sx ids dim) ->
  block b (tvolume (pick_shape sx ids dim)) (pick_val T zero sx ids dim x) =
  pick_val T zero (unb sx) [nth (bidx (length ids) b) ids 0] dim (block (bsel sx b) (tvolume sx) x).
Proof. exact pick_sample. Qed.
Print Assumptions C03_pick_sample.

(* concat_fw, any number of operands with batch B or 1 (sample_pair b = (batch-1 shape, sample_or_shared b)) *)
Theorem C03_concat_sample :
  forall (T : Type) (zero : T) (rs : list (tshape * list T)) (dim b : nat),
  Forall twf (map fst rs) ->
  concat_ok (map fst rs) dim ->
  b < maxb (map fst rs) ->
  block b (tvolume (concat_shape (map fst rs) dim)) (concat_val T zero rs dim) =
  concat_val T zero (map (sample_pair T b) rs) dim.
Proof. exact concat_sample. Qed.
Print Assumptions C03_concat_sample.

(* broadcast_fw *)
Theorem C03_broadcast_sample :
  forall (T : Type) (zero : T) (sx : tshape) (dim size : nat) (x : list T) (b : nat),
  twf sx ->
  broadcast_ok sx dim size ->
  b < tbatch sx ->
  block b (tvolume (set_dim sx dim size)) (broadcast_val T zero sx dim size x) =
  broadcast_val T zero (unb sx) dim size (block b (tvolume sx) x).
Proof. exact broadcast_sample. Qed.
Print Assumptions C03_broadcast_sample.

(* flip_fw *)
Theorem C03_flip_sample :
  forall (T : Type) (zero : T) (s : tshape) (dim : nat) (x : list T) (b : nat),
  twf s ->
  b < tbatch s ->
  block b (tvolume s) (flip_val T zero s dim x) = flip_val T zero (unb s) dim (block b (tvolume s) x).
Proof. exact flip_sample. Qed.
Print Assumptions C03_flip_sample.

(* transpose_fw *)
Theorem C03_transpose_sample :
  forall (T : Type) (zero : T) (sx : tshape) (x : list T) (b : nat),
  transpose_ok sx ->
  b < tbatch sx ->
  block b (tvolume (transpose_shape sx)) (transpose_val T zero sx x) =
  transpose_val T zero (unb sx) (block b (tvolume sx) x).
Proof. exact transpose_sample. Qed.
Print Assumptions C03_transpose_sample.

(* permute_dims_fw, arbitrary permutation *)
Theorem C03_permute_sample :
  forall (T : Type) (zero : T) (sx : tshape) (perm : list nat) (x : list T) (b : nat),
  twf sx ->
  permute_ok sx perm ->
  b < tbatch sx ->
  block b (tvolume (permute_shape sx perm)) (permute_val T zero sx perm x) =
  permute_val T zero (unb sx) perm (block b (tvolume sx) x).
Proof. exact permute_sample. Qed.
Print Assumptions C03_permute_sample.

(* sum_fw / max_fw / min_fw / logsumexp_fw (axis_red) with ANY per-slice function f *)
Theorem C03_reduce_sample :
  forall (T : Type) (zero : T) (f : list T -> T) (sx : tshape) (dim : nat) (x : list T) (b : nat),
  twf sx ->
  b < tbatch sx ->
  block b (tvolume (set_dim sx dim 1)) (reduce_val T zero f sx dim x) =
  reduce_val T zero f (unb sx) dim (block b (tvolume sx) x).
Proof. exact reduce_sample. Qed.
Print Assumptions C03_reduce_sample.

(* matmul_fw (8x8x8 blocked), operands with batch B or 1, contributions added in program order (no algebraic law of add/mul needed) *)
Theorem C03_matmul_sample :
  forall (T : Type) (zero : T) (add mul : T -> T -> T) (sa sb : tshape) (a bb : list T) (b : nat),
  matmul_ok sa sb ->
  b < tbatch (matmul_shape sa sb) ->
  block b (tvolume (matmul_shape sa sb)) (matmul_val T zero add mul sa sb a bb) =
  matmul_val T zero add mul (unb sa) (unb sb) (sample_or_shared sa b (tvolume sa) a)
    (sample_or_shared sb b (tvolume sb) bb).
Proof. exact matmul_sample. Qed.
Print Assumptions C03_matmul_sample.

(* conv2d_fw, image and kernel with batch B or 1 *)
Theorem C03_conv2d_sample :
  forall (T : Type) (zero : T) (add mul : T -> T -> T) (sx sw : tshape) (p0 p1 s0 s1 d0 d1 : nat)
    (x w : list T) (b : nat),
  twf sx ->
  twf sw ->
  conv2d_ok sx sw p0 p1 s0 s1 d0 d1 ->
  b < tbatch (conv2d_shape sx sw p0 p1 s0 s1 d0 d1) ->
  block b (tvolume (conv2d_shape sx sw p0 p1 s0 s1 d0 d1))
    (conv2d_val T zero add mul sx sw p0 p1 s0 s1 d0 d1 x w) =
  conv2d_val T zero add mul (unb sx) (unb sw) p0 p1 s0 s1 d0 d1 (sample_or_shared sx b (tvolume sx) x)
    (sample_or_shared sw b (tvolume sw) w).
Proof. exact conv2d_sample. Qed.
Print Assumptions C03_conv2d_sample.

(* max_pool2d_fw with ANY per-window function f *)
Theorem C03_pool2d_sample :
  forall (T : Type) (zero : T) (f : list T -> T) (sx : tshape) (w0 w1 p0 p1 s0 s1 : nat) 
    (x : list T) (b : nat),
  twf sx ->
  pool2d_ok sx w0 w1 p0 p1 s0 s1 ->
  b < tbatch sx ->
  block b (tvolume (pool2d_shape sx w0 w1 p0 p1 s0 s1)) (pool2d_val T zero f sx w0 w1 p0 p1 s0 s1 x) =
  pool2d_val T zero f (unb sx) w0 w1 p0 p1 s0 s1 (block b (tvolume sx) x).
Proof. exact pool2d_sample. Qed.
Print Assumptions C03_pool2d_sample.

(* reshape / flatten / copy (identity movement) *)
Theorem C03_reshape_sample :
  forall (T : Type) (zero : T) (sx : tshape) (dims : list nat) (x : list T) (b : nat),
  reshape_ok sx dims ->
  b < tbatch sx ->
  block b (tvolume (reshape_shape sx dims)) (copy_val T zero (tsize sx) x) =
  copy_val T zero (tsize (unb sx)) (block b (tvolume sx) x).
Proof. exact reshape_sample. Qed.
Print Assumptions C03_reshape_sample.

(* softmax = exp(x - broadcast(logsumexp(x))) is a program of the language; its per-sample program is the same composite *)
Theorem C03_x_softmax_sample :
  forall (T : Type) (b : nat) (exp_ : T -> T) (sub : T -> T -> T) (lse : list T -> T) 
    (dim n : nat) (e : xexpr T),
  xsample T b (x_softmax T exp_ sub lse dim n e) = x_softmax T exp_ sub lse dim n (xsample T b e).
Proof. exact x_softmax_sample. Qed.
Print Assumptions C03_x_softmax_sample.

(* softmax_cross_entropy(x, t) likewise *)
Theorem C03_x_softmax_cross_entropy_sample :
  forall (T : Type) (b : nat) (neg : T -> T) (mulop : T -> T -> T) (sum : list T -> T)
    (sub : T -> T -> T) (lse : list T -> T) (dim n : nat) (e t : xexpr T),
  xsample T b (x_softmax_cross_entropy T neg mulop sum sub lse dim n e t) =
  x_softmax_cross_entropy T neg mulop sum sub lse dim n (xsample T b e) (xsample T b t).
Proof. exact x_softmax_cross_entropy_sample. Qed.
Print Assumptions C03_x_softmax_cross_entropy_sample.

(* softmax_cross_entropy(x, ids) likewise, the id list reduced to its b-th entry *)
Theorem C03_x_softmax_cross_entropy_ids_sample :
  forall (T : Type) (b : nat) (neg : T -> T) (sub : T -> T -> T) (lse : list T -> T) 
    (dim n : nat) (ids : list nat) (e : xexpr T),
  xsample T b (x_softmax_cross_entropy_ids T neg sub lse dim n ids e) =
  x_softmax_cross_entropy_ids T neg sub lse dim n [nth (bidx (length ids) b) ids 0] (xsample T b e).
Proof. exact x_softmax_cross_entropy_ids_sample. Qed.
Print Assumptions C03_x_softmax_cross_entropy_ids_sample.

(* the generic fact behind the data-movement kernels: if every entry (d, k, s) of the per-sample program reappears in the batched one as (b*Vy + d, k, off k + s), sample b of the batched output is the per-sample output *)
Theorem C03_mov_sample :
  forall (T : Type) (zero : T) (P P1 : mov) (xs xs' : list (list T)) (off : nat -> nat) (n Vy b : nat),
  NoDup (map fst P) ->
  (forall i : nat, i < Vy -> In i (map fst P1)) ->
  (forall d k s : nat,
   In (d, (k, s)) P1 ->
   In (b * Vy + d, (k, off k + s)) P /\ nth s (nth k xs' []) zero = nth (off k + s) (nth k xs []) zero) ->
  (b + 1) * Vy <= n -> block b Vy (mov_eval T zero P n xs) = mov_eval T zero P1 Vy xs'.
Proof. exact mov_sample. Qed.
Print Assumptions C03_mov_sample.

(* the generic fact behind the bilinear kernels (batch loop outermost, every sample runs the same nest shifted) *)
Theorem C03_bil_sample :
  forall (T : Type) (zero : T) (add mul : T -> T -> T) (P1 : list (nat * (nat * nat))) 
    (B Vy : nat) (oa ob : nat -> nat) (a bb : list T) (b : nat),
  Forall (fun e : nat * (nat * nat) => fst e < Vy) P1 ->
  b < B ->
  block b Vy
    (bil_val T zero add mul (flat_map2 B (fun b' : nat => map (shift3 (b' * Vy) (oa b') (ob b')) P1))
       (B * Vy) a bb) = bil_val T zero add mul P1 Vy (skipn (oa b) a) (skipn (ob b) bb).
Proof. exact bil_sample. Qed.
Print Assumptions C03_bil_sample.

(* the generic fact behind the reductions *)
Theorem C03_axis_nest_sample :
  forall (T : Type) (zero : T) (f : list T -> T) (base n U B : nat) (x : list T) (b : nat),
  0 < base ->
  b < B ->
  block b (base * U) (red_vals T zero f (axis_nest base n (U * B)) x) =
  red_vals T zero f (axis_nest base n U) (block b (base * n * U) x).
Proof. exact axis_nest_sample. Qed.
Print Assumptions C03_axis_nest_sample.

(* matmul_contribs = for each sample the SAME blocked nest, shifted to sample b of y and to sample b (or the shared sample) of a and b *)
Theorem C03_matmul_blocks :
  forall sa sb sy : tshape,
  matmul_contribs sa sb sy =
  flat_map2 (tbatch sy)
    (fun b : nat =>
     map
       (shift3 (b * (tget sa 0 * tget sb 1)) (bsel sa b * (tget sa 0 * tget sa 1))
          (bsel sb b * (tget sa 1 * tget sb 1))) (mm_body (tget sa 0) (tget sa 1) (tget sb 1))).
Proof. exact matmul_blocks. Qed.
Print Assumptions C03_matmul_blocks.

(* conv2d_triples likewise *)
Theorem C03_conv2d_blocks :
  forall (sx sw sy : tshape) (p0 p1 s0 s1 d0 d1 : nat),
  conv2d_triples sx sw sy p0 p1 s0 s1 d0 d1 =
  flat_map2 (tbatch sy)
    (fun bn : nat =>
     map (shift3 (bn * tvolume sy) (bsel sx bn * tvolume sx) (bsel sw bn * tvolume sw))
       (conv_body (tget sx 0) (tget sx 1) (tget sx 2) (tget sw 0) (tget sw 1) 
          (tget sy 0) (tget sy 1) (tget sy 2) p0 p1 s0 s1 d0 d1)).
Proof. exact conv2d_blocks. Qed.
Print Assumptions C03_conv2d_blocks.

(* the value semantics used above is the imperative interpreter `assign` of Tensor/Index.v run on a fresh output buffer *)
Theorem C03_mov_eval_assign :
  forall (T : Type) (zero : T) (fw : list (nat * (nat * nat))) (n : nat) (xs : list (list T)),
  covers fw n -> assign T zero fw xs (repeat None n) = map Some (mov_eval T zero fw n xs).
Proof. exact mov_eval_assign. Qed.
Print Assumptions C03_mov_eval_assign.

(* ... and for one operand the `gather` of ProofsGather *)
Theorem C03_mov_eval_gather :
  forall (T : Type) (zero : T) (fw : mov) (n : nat) (x : list T),
  single fw -> mov_eval T zero fw n [x] = gather T zero fw n x.
Proof. exact mov_eval_gather. Qed.
Print Assumptions C03_mov_eval_gather.

(* ... and for reductions the `red_eval` of ProofsPerm *)
Theorem C03_red_vals_red_eval :
  forall (T : Type) (zero : T) (f : list T -> T) (p : red) (x : list T),
  red_vals T zero f p x = map snd (red_eval T zero f p x).
Proof. exact red_vals_red_eval. Qed.
Print Assumptions C03_red_vals_red_eval.

(* GRAD_FOLD. A batched backward program whose destination is shared runs the per-sample programs Q b (each reading sample b of gy) one after the other on the one destination *)
Theorem C03_scatter_fold_shared :
  forall (T : Type) (zero : T) (add : T -> T -> T) (Q : nat -> acc) (B V : nat) (gy gx : list T),
  (forall b : nat, b < B -> Forall (fun e : nat * nat => snd e < V) (Q b)) ->
  scatter T zero add
    (flat_map2 B (fun b : nat => map (fun e : nat * nat => (fst e, b * V + snd e)) (Q b))) gy gx =
  fold_left (fun (g : list T) (b : nat) => scatter T zero add (Q b) (block b V gy) g) (range B) gx.
Proof. exact scatter_fold_shared. Qed.
Print Assumptions C03_scatter_fold_shared.

(* element view: cell i = old content + for b = 0..B-1, in this order, the increments sample b addresses to cell i *)
Theorem C03_nth_fold_scatter :
  forall (T : Type) (zero : T) (add : T -> T -> T) (Q : nat -> acc) (G : nat -> list T) 
    (l : list nat) (gx : list T) (i : nat),
  (forall b : nat, In b l -> Forall (fun e : nat * nat => fst e < length gx) (Q b)) ->
  nth i (fold_left (fun (g : list T) (b : nat) => scatter T zero add (Q b) (G b) g) l gx) zero =
  fold_left
    (fun (a : T) (b : nat) =>
     fold_left add (map (fun e : nat * nat => nth (snd e) (G b) zero) (cell i (Q b))) a) l
    (nth i gx zero).
Proof. exact nth_fold_scatter. Qed.
Print Assumptions C03_nth_fold_scatter.

(* inplace_add (the += of every composite backward) into a batch-1 gradient = the batch-1 kernel applied to sample 0, 1, ..., B-1 of the incoming gradient in turn *)
Theorem C03_inplace_add_grad_fold :
  forall (T : Type) (zero : T) (add : T -> T -> T) (sx sy : tshape) (x y : list T),
  tbatch sy = 1 ->
  0 < tbatch sx ->
  scatter T zero add (inplace_add sx sy) x y =
  fold_left
    (fun (g : list T) (b : nat) =>
     scatter T zero add (inplace_add (unb sx) sy) (block b (tvolume sy) x) g) 
    (range (tbatch sx)) y.
Proof. exact inplace_add_grad_fold. Qed.
Print Assumptions C03_inplace_add_grad_fold.

(* add_bw ... pow_bw, operand a of batch 1 (inc[d] = the increment derived from gy[d]) *)
Theorem C03_ab_bw_grad_fold_a :
  forall (T : Type) (zero : T) (add : T -> T -> T) (sga sgb sgy : tshape) (inc ga : list T),
  tbatch sga = 1 ->
  scatter T zero add (slots_a (ab_bw sga sgb sgy)) inc ga =
  fold_left
    (fun (g : list T) (b : nat) =>
     scatter T zero add (slots_a (ab_bw sga (unb sgb) (unb sgy))) (block b (tvolume sgy) inc) g)
    (range (tbatch sgy)) ga.
Proof. exact ab_bw_grad_fold_a. Qed.
Print Assumptions C03_ab_bw_grad_fold_a.

(* the same for operand b *)
Theorem C03_ab_bw_grad_fold_b :
  forall (T : Type) (zero : T) (add : T -> T -> T) (sga sgb sgy : tshape) (inc gb : list T),
  tbatch sgb = 1 ->
  scatter T zero add (slots_b (ab_bw sga sgb sgy)) inc gb =
  fold_left
    (fun (g : list T) (b : nat) =>
     scatter T zero add (slots_b (ab_bw (unb sga) sgb (unb sgy))) (block b (tvolume sgy) inc) g)
    (range (tbatch sgy)) gb.
Proof. exact ab_bw_grad_fold_b. Qed.
Print Assumptions C03_ab_bw_grad_fold_b.

(* slice_bw (BACKWARD of slice and split) into a batch-1 gx *)
Theorem C03_slice_bw_grad_fold :
  forall (T : Type) (zero : T) (add : T -> T -> T) (sy sx : tshape) (dim off base nx ny R : nat)
    (gy gx : list T),
  tlower sx dim = base ->
  tlower sy dim = base ->
  tget sx dim = nx ->
  tget sy dim = ny ->
  tvolume sx = base * nx * R ->
  tvolume sy = base * ny * R ->
  off + ny <= nx ->
  0 < base ->
  0 < ny ->
  tbatch sx = 1 ->
  0 < tbatch sy ->
  scatter T zero add (slice_bw sy sx dim off) gy gx =
  fold_left
    (fun (g : list T) (b : nat) =>
     scatter T zero add (slice_bw (unb sy) sx dim off) (block b (tvolume sy) gy) g)
    (range (tbatch sy)) gx.
Proof. exact slice_bw_grad_fold. Qed.
Print Assumptions C03_slice_bw_grad_fold.

(* pick_bw into a batch-1 gx: the per-sample kernel of sample b uses ids[b] (or the shared id) *)
Theorem C03_pick_bw_grad_fold :
  forall (T : Type) (zero : T) (add : T -> T -> T) (sy sx : tshape) (ids : list nat)
    (dim base n R : nat) (gy gx : list T),
  tlower sy dim = base ->
  tget sx dim = n ->
  tvolume sy = base * 1 * R ->
  tvolume sx = base * n * R ->
  length ids = tbatch sy \/ length ids = 1 ->
  (forall b : nat, b < length ids -> nth b ids 0 < n) ->
  0 < base ->
  tbatch sx = 1 ->
  scatter T zero add (pick_bw sy sx ids dim) gy gx =
  fold_left
    (fun (g : list T) (b : nat) =>
     scatter T zero add (pick_bw (unb sy) sx [nth (bidx (length ids) b) ids 0] dim)
       (block b (tvolume sy) gy) g) (range (tbatch sy)) gx.
Proof. exact pick_bw_grad_fold. Qed.
Print Assumptions C03_pick_bw_grad_fold.

(* ---- non-vacuity: B = 3, nat values.  x = three 2x2 matrices (batched), w = one 2-vector SHARED by
   all samples (batch 1).  e = sum along axis 0 of ( x . w  +  slice(concat([w, w], 0), 0, 0..2) ):
   matmul, concat, slice, elementwise add with a shared operand, axis reduction. ---- *)
Example C03_program_nonvacuous :
  let x := XLeaf nat (mkT [2; 2] 3) [1; 2; 3; 4; 5; 6; 7; 8; 9; 10; 11; 12] in
  let w := XLeaf nat (mkT [2] 1) [1; 10] in
  let e := XReduce nat nsum 0
             (XBin nat Nat.add (XMatmul nat x w) (XSlice nat 0 0 2 (XConcat nat 0 [w; w]))) in
  xwf nat 0 Nat.add Nat.mul 3 e /\
  xeval nat 0 Nat.add Nat.mul e = (mkT [1; 1] 3, [84; 172; 260]) /\
  xeval nat 0 Nat.add Nat.mul (xsample nat 1 e) = (mkT [1; 1] 1, [172]).
Proof.
  split; [|split; vm_compute; reflexivity].
  vm_compute. repeat split; try (repeat constructor; fail); auto.
  - discriminate.
  - intros [|[|[|i]]]; reflexivity.
Qed.

(* the gradient of the shared w in that program is folded over the 3 samples: inplace_add of a
   3-sample gradient [1 2 | 3 4 | 5 6] into the batch-1 accumulator [100 200] *)
Example C03_program_nonvacuous_fold :
  scatter nat 0 Nat.add (inplace_add (mkT [2] 3) (mkT [2] 1)) [1; 2; 3; 4; 5; 6] [100; 200] = [109; 212] /\
  fold_left (fun g b => scatter nat 0 Nat.add (inplace_add (unb (mkT [2] 3)) (mkT [2] 1)) (block b 2 [1; 2; 3; 4; 5; 6]) g)
            (range 3) [100; 200] = [109; 212].
Proof. vm_compute. split; reflexivity. Qed.
