(* Property C04 -- lazy Node API and eager Tensor API agree; static shapes are sound.
   Theorems over the tables REGENERATED from /repo on every run (Gen/OpTables.v) and over the
   abstract API model instantiated at the table computed from them (Tables/ApiTable.v). *)
From Coq Require Import List String Bool Arith.
From PV Require Import Tables.OpSyntax Tables.OpUtil Tables.OpRows Tables.OpCheck Tables.ApiModel
     Tables.ApiTable Tables.OpFacts Tables.ApiFacts Gen.OpTables.
From Coq Require Import NArith.
From PV Require Import Base.U32 Shape.ShapeImpl Shape.ShapeSpec Tables.CompositeShapes Tables.CompositeProofs.
Import ListNotations.

(* ---- finite theorems over the regenerated tables *)
Theorem C04_arity_ok :
  (forall r, In r R -> arity_row_ok r = true) /\
  (forall o, In o op_classes -> class_ok o = true /\ class_used o = true).
Proof. exact arity_ok. Qed.
Print Assumptions C04_arity_ok.

Theorem C04_delegation_ok : forall r, In r R -> deleg_row_ok r = true.
Proof. exact delegation_ok. Qed.
Print Assumptions C04_delegation_ok.

Theorem C04_shape_rule_ok : forall r, In r R -> shape_row_ok r = true.
Proof. exact shape_rule_ok. Qed.
Print Assumptions C04_shape_rule_ok.

Theorem C04_same_functions :
  (forall f, In f (api_node_funcs node_funcs) -> node_fn_mapped f = true) /\
  (forall t, In t (api_tensor_funcs tensor_funcs) -> tensor_fn_covered t = true).
Proof. exact same_functions. Qed.
Print Assumptions C04_same_functions.

Theorem C04_cache_variant_ok : cache_delta_ok = true /\ tables_nonempty = true.
Proof. exact cache_variant_ok. Qed.
Print Assumptions C04_cache_variant_ok.

Theorem C04_api_table_facts : table_ok api_table = true.
Proof. exact api_table_facts. Qed.
Print Assumptions C04_api_table_facts.

(* ---- the model theorems: for every program (list of function applications on earlier results) *)
Theorem C04_node_value_eq_tensor_value :
  forall T Sh Attr shape_of cond_sem shape_sem guard_sem val_sem,
    commutative_ok T Sh Attr shape_of cond_sem shape_sem guard_sem val_sem ->
    forall p, evaluate T Sh Attr shape_of cond_sem shape_sem guard_sem val_sem p =
              eager T Sh Attr shape_of cond_sem shape_sem guard_sem val_sem p.
Proof. exact node_value_eq_tensor_value. Qed.
Print Assumptions C04_node_value_eq_tensor_value.

Theorem C04_node_shape_sound :
  forall T Sh Attr shape_of cond_sem shape_sem guard_sem val_sem,
    kernels_follow_rules T Sh Attr shape_of shape_sem val_sem ->
    composite_shapes_agree Sh Attr shape_sem ->
    forall p res, eager T Sh Attr shape_of cond_sem shape_sem guard_sem val_sem p = inl res ->
                  create Sh Attr cond_sem shape_sem p = inl (map (map shape_of) res).
Proof. exact node_shape_sound. Qed.
Print Assumptions C04_node_shape_sound.

Theorem C04_same_calls_rejected :
  forall T Sh Attr shape_of cond_sem shape_sem guard_sem val_sem,
    kernels_follow_rules T Sh Attr shape_of shape_sem val_sem ->
    composite_shapes_agree Sh Attr shape_sem ->
    commutative_ok T Sh Attr shape_of cond_sem shape_sem guard_sem val_sem ->
    forall p,
      (forall res, eager T Sh Attr shape_of cond_sem shape_sem guard_sem val_sem p = inl res ->
                   create Sh Attr cond_sem shape_sem p = inl (map (map shape_of) res) /\
                   evaluate T Sh Attr shape_of cond_sem shape_sem guard_sem val_sem p = inl res) /\
      (forall m e, eager T Sh Attr shape_of cond_sem shape_sem guard_sem val_sem p = inr (m, e) -> e <> EGuard ->
                   exists e', create Sh Attr cond_sem shape_sem p = inr (m, e')) /\
      (forall m e, eager T Sh Attr shape_of cond_sem shape_sem guard_sem val_sem p = inr (m, e) ->
                   evaluate T Sh Attr shape_of cond_sem shape_sem guard_sem val_sem p = inr (m, e)) /\
      (forall m e, create Sh Attr cond_sem shape_sem p = inr (m, e) ->
                   exists m' e', eager T Sh Attr shape_of cond_sem shape_sem guard_sem val_sem p = inr (m', e') /\
                                 m' <= m /\ (m' < m -> e' = EGuard)).
Proof. exact same_calls_rejected. Qed.
Print Assumptions C04_same_calls_rejected.

(* ---- the four composite operators: over the executable shape-rule model (Shape/ShapeImpl.v),
   FWD_SHAPE(op) is the shape of the composite Tensor function, errors included.  This is
   hypothesis composite_shapes_agree of the theorems above, proved at that model. *)
Theorem C04_composite_shapes_agree :
  (forall x t dim, wf x -> wf t -> u32 dim -> sce_dense_tensor x t dim = sce x t dim) /\
  (forall x ids dim, wf x -> Forall u32 ids -> u32 (N.of_nat (List.length ids)) -> u32 dim ->
     sce_sparse_tensor x ids dim = pick x ids dim) /\
  (forall x dim n, wf x -> u32 dim -> u32 n ->
     split_tensor x dim n = option_map (fun s => repeat s (N.to_nat n)) (split x dim n)) /\
  (forall x n, wf x -> u32 n ->
     batch_split_tensor x n = option_map (fun s => repeat s (N.to_nat n)) (batch_split x n)).
Proof. exact (conj sce_dense_agree (conj sce_sparse_agree (conj split_agree batch_split_agree))). Qed.
Print Assumptions C04_composite_shapes_agree.

(* the guard `n == 0 || total % n != 0` that the Node functions split / batch::split evaluate
   before constructing the operator rejects exactly what the Tensor composite and FWD_SHAPE reject *)
Theorem C04_split_guards_agree :
  (forall x dim n, wf x -> u32 dim -> u32 n ->
     (node_split_guard x dim n = true <-> split_tensor x dim n = None) /\
     (node_split_guard x dim n = true <-> split x dim n = None)) /\
  (forall x n, wf x -> u32 n ->
     (node_batch_split_guard x n = true <-> batch_split_tensor x n = None) /\
     (node_batch_split_guard x n = true <-> batch_split x n = None)).
Proof. exact (conj split_guard_agree batch_split_guard_agree). Qed.
Print Assumptions C04_split_guards_agree.

(* ---- non-vacuity *)
Local Open Scope string_scope.

(* the tables are populated: 72 operator classes, 85 rows (76 operator rows of which 4 special,
   4 throw rows, 5 composite rows), 80 model rows *)
Example C04_nonvacuous_tables :
  (List.length op_classes, List.length R, List.length (filter is_op_row R), List.length (filter is_special R),
   List.length (filter is_throw_row R), List.length (filter is_composite_row R), List.length api_table)
  = (72, 85, 76, 4, 4, 5, 80).
Proof. vm_compute. reflexivity. Qed.

(* the scalar-L row of subtract: the call site passes (b, a), FORWARD(SubtractScalarL) computes
   x[1] - x[0]; the composition is subtract on the roles in order, and the static shape is
   scalar_op(shape b, shape a), the rule of Device::subtract_scalar_l_fw(b, a) *)
Example C04_nonvacuous_swap :
  option_map (fun r => (fw r, tfw r, nshape r))
             (find (fun r => match row_op r with Some c => seqb c "SubtractScalarL" | None => false end) R)
  = Some (RFun "functions" "subtract" ["X"; "X"] [Id "$0"; Id "$1"],
          RDev "subtract_scalar_l_fw" (Meth (Id "$0") "device" []) [Id "$1"; Id "$0"],
          Some (Call "shape_ops::scalar_op" [Meth (Id "$1") "shape" []; Meth (Id "$0") "shape" []])).
Proof. vm_compute. reflexivity. Qed.

(* the checkers do reject: a SoftmaxCrossEntropy class declaring one argument (the pinned tree's
   defect D1) against the real two-argument call site *)
Example C04_nonvacuous_arity_rejects :
  arity_pass (CNum 1) (Some 2) = false /\ arity_pass (CNum 2) (Some 2) = true /\
  arity_pass CNonzero (Some 0) = false.
Proof. vm_compute. repeat split; reflexivity. Qed.

(* the hypotheses of the model theorems are satisfiable, and a program with shared results,
   a multi-result operator and a variadic one is accepted by both APIs with equal results *)
Example C04_nonvacuous_model :
  kernels_follow_rules nat nat nat (fun x => x) toy_shape toy_val /\
  composite_shapes_agree nat nat toy_shape /\
  commutative_ok nat nat nat (fun x => x) toy_cond toy_shape toy_guard toy_val /\
  eager nat nat nat (fun x => x) toy_cond toy_shape toy_guard toy_val toy_prog = inl [[3]; [3]; [2]; [2]; [3]; [2]] /\
  evaluate nat nat nat (fun x => x) toy_cond toy_shape toy_guard toy_val toy_prog = inl [[3]; [3]; [2]; [2]; [3]; [2]] /\
  create nat nat toy_cond toy_shape toy_prog = inl [[3]; [3]; [2]; [2]; [3]; [2]] /\
  eager nat nat nat (fun x => x) toy_cond toy_shape toy_guard toy_val toy_bad_prog = inr (1, ENoRow) /\
  create nat nat toy_cond toy_shape toy_bad_prog = inr (1, ENoRow).
Proof.
  split. exact toy_kernels. split. exact toy_composite. split. exact toy_commutative.
  vm_compute. repeat split; reflexivity.
Qed.

(* the composite really computes something: x = [2,3]x2, t = [2,3]x1, axis 0 -> [1,3]x2; and the
   calls that used to differ (scalar t, split of axis 8 into one part) agree *)
Example C04_nonvacuous_composite :
  (sce_dense_tensor (mkS [2;3] 2 6) (mkS [2;3] 1 6) 0 = Some (mkS [1;3] 2 3))%N /\
  (sce_dense_tensor (mkS [3] 1 3) (mkS [] 1 1) 0 = None /\ sce (mkS [3] 1 3) (mkS [] 1 1) 0 = None)%N /\
  (split_tensor (mkS [3] 1 3) 8 1 = Some [mkS [3] 1 3] /\ split (mkS [3] 1 3) 8 1 = Some (mkS [3] 1 3))%N /\
  (split_tensor (mkS [4;2] 1 8) 0 2 = Some [mkS [2;2] 1 4; mkS [2;2] 1 4])%N /\
  (node_split_guard (mkS [4;2] 1 8) 0 2 = false /\ node_split_guard (mkS [4;2] 1 8) 0 3 = true /\
   node_split_guard (mkS [4;2] 1 8) 0 2147483648 = true /\ split_tensor (mkS [4;2] 1 8) 0 3 = None)%N.
Proof. vm_compute. repeat split; reflexivity. Qed.
