(* C03 (minibatch law) -- the GRADIENT half at program level.  Statements only; proofs in
   Tensor/ProofsBatchGrad.v (example in Tensor/ProofsBatchGradEx.v).
     dexpr                     the differentiable fragment of the expression language xexpr of
                               Tensor/ProofsBatchLaw.v over a commutative ring R: DLeaf k (entry k of the
                               environment env: an input or a parameter), DConst, DUn u e, DBin o e1 e2,
                               DConcat dim es with
                                 u: negate, x+k, x-k, k-x, x*k, slice, pick, broadcast, flip, transpose,
                                    permute_dims, sum along an axis, reshape / flatten
                                 o: add, subtract, multiply (B-vs-1 minibatch broadcasting), matmul, conv2d,
                                    x+k, x-k, k-x, x*k with a scalar-shaped tensor k
                                 concat of any number of operands
     erase env e               the program as an xexpr (forward = xeval through the kernel index programs)
     dwf B env e               accepted with minibatch size B (shape rules of core/shape_ops.cc)
     dback / grad env e gy     the reverse sweep: every operator adds to its operands the increments its
                               BACKWARD kernel programs compute - d_bw of the descriptors of core_family
                               (Tensor/GraphInst.v: ab_bw, slice_bw, pick_bw, inplace_add folding, matmul of
                               transposes ...) at the shapes the shape rules compute; a leaf does gx += gy
     dtan env denv e           the tangent program in direction denv (again an xexpr)
     env_s b env, dsample b e  the b-th samples of the environment (a batch-1 entry is shared), the
                               per-sample program (a per-sample pick index list reduced to its b-th entry)
     vsum l n                  the elementwise sum of the vectors l (length n)
   Not covered by dexpr: the elementwise functions with analytic derivatives, divide / pow, max / min /
   logsumexp / max_pool2d (no polynomial tangent over a ring; not in core_family). *)
From Coq Require Import List NArith ZArith Bool Arith Lia Ring.
From PV Require Import Graph.OpFamily Tensor.Kernels Tensor.Index Tensor.KernelProofs Tensor.ProofsBilinear
  Tensor.ProofsGather Tensor.ProofsPerm Tensor.ProofsBatchSample Tensor.ProofsBatchLaw Tensor.AdjCore
  Tensor.GraphInst Tensor.ProofsBatchGrad Tensor.ProofsBatchGradEx.
Import ListNotations.

(* MAIN. The gradient reaching a batch-1 operand (a shared leaf, in particular every Parameter) is the SUM over the B samples of the per-sample gradients: run the reverse sweep on the batched program with upstream gradient gy, and on the per-sample program b with upstream gradient sample b of gy; leaf k of batch 1 receives from the batched run the elementwise sum over b < B of what it receives from the per-sample runs *)
Theorem C03_grad_shared_is_sum :
  forall (R : Type) (rO rI : R) (radd rmul rsub : R -> R -> R) (ropp : R -> R),
  ring_theory rO rI radd rmul rsub ropp eq ->
  forall (B : nat) (env : lenv) (e : dexpr) (gy : list R) (k : nat),
  0 < B ->
  env_ok B env ->
  dwf rO radd rmul rsub ropp B env e ->
  let sy := fst (xeval R rO radd rmul (erase rO radd rmul rsub ropp env e)) in
  let sk := fst (nth k env (dleaf rO)) in
  tbatch sy = B ->
  length gy = tsize sy ->
  k < length env ->
  tbatch sk = 1 ->
  nth k (grad rO radd rmul rsub ropp env e gy) [] =
  vsum rO radd
    (map
       (fun b : nat =>
        nth k (grad rO radd rmul rsub ropp (env_s b env) (dsample b e) (block b (tvolume sy) gy)) [])
       (range B)) (tsize sk).
Proof. exact @grad_shared_is_sum. Qed.
Print Assumptions C03_grad_shared_is_sum.

(* ... and a leaf of batch B: sample c of its gradient from the batched run is its gradient from the per-sample run c *)
Theorem C03_grad_batched_is_sample :
  forall (R : Type) (rO rI : R) (radd rmul rsub : R -> R -> R) (ropp : R -> R),
  ring_theory rO rI radd rmul rsub ropp eq ->
  forall (B : nat) (env : lenv) (e : dexpr) (gy : list R) (k c : nat),
  0 < B ->
  env_ok B env ->
  dwf rO radd rmul rsub ropp B env e ->
  let sy := fst (xeval R rO radd rmul (erase rO radd rmul rsub ropp env e)) in
  let sk := fst (nth k env (dleaf rO)) in
  tbatch sy = B ->
  length gy = tsize sy ->
  k < length env ->
  tbatch sk = B ->
  c < B ->
  block c (tvolume sk) (nth k (grad rO radd rmul rsub ropp env e gy) []) =
  nth k (grad rO radd rmul rsub ropp (env_s c env) (dsample c e) (block c (tvolume sy) gy)) [].
Proof. exact @grad_batched_is_sample. Qed.
Print Assumptions C03_grad_batched_is_sample.

(* the common root of the two: for EVERY direction denv the pairing <grad, denv> of the batched run is the sum over the samples of the pairings of the per-sample runs with the per-sample directions *)
Theorem C03_grad_pairing :
  forall (R : Type) (rO rI : R) (radd rmul rsub : R -> R -> R) (ropp : R -> R),
  ring_theory rO rI radd rmul rsub ropp eq ->
  forall (B : nat) (env : lenv) (denv : list (list R)) (e : dexpr) (gy : list R),
  0 < B ->
  env_ok B env ->
  sized denv env ->
  dwf rO radd rmul rsub ropp B env e ->
  let sy := fst (xeval R rO radd rmul (erase rO radd rmul rsub ropp env e)) in
  tbatch sy = B ->
  length gy = tsize sy ->
  dots rO radd rmul (grad rO radd rmul rsub ropp env e gy) denv =
  sum_list R rO radd
    (map
       (fun b : nat =>
        dots rO radd rmul
          (grad rO radd rmul rsub ropp (env_s b env) (dsample b e) (block b (tvolume sy) gy))
          (denv_s b env denv)) (range B)).
Proof. exact @grad_pairing. Qed.
Print Assumptions C03_grad_pairing.

(* the reverse sweep of a program is the adjoint of its tangent program (per operator: describe_LA, the kernel adjoint theorems of C01); acc = gradients accumulated before *)
Theorem C03_dback_adjoint :
  forall (R : Type) (rO rI : R) (radd rmul rsub : R -> R -> R) (ropp : R -> R),
  ring_theory rO rI radd rmul rsub ropp eq ->
  forall (B : nat) (env : lenv) (denv : list (list R)) (e : dexpr),
  0 < B ->
  env_ok B env ->
  sized denv env ->
  dwf rO radd rmul rsub ropp B env e ->
  forall (gy : list R) (acc : list (list R)),
  sized acc env ->
  length gy = tsize (fst (xeval R rO radd rmul (erase rO radd rmul rsub ropp env e))) ->
  sized (dback rO radd rmul rsub ropp env e gy acc) env /\
  dots rO radd rmul (dback rO radd rmul rsub ropp env e gy acc) denv =
  radd (dots rO radd rmul acc denv)
    (OpFamily.dot rO radd rmul gy (snd (xeval R rO radd rmul (dtan rO radd rmul rsub ropp env denv e)))).
Proof. exact @dback_adjoint. Qed.
Print Assumptions C03_dback_adjoint.

(* the tangent program obeys the minibatch law (it is a program of xexpr: batch_law_program_ext) *)
Theorem C03_dtan_batch_law :
  forall (R : Type) (rO : R) (radd rmul rsub : R -> R -> R) (ropp : R -> R) 
    (B b : nat) (env : lenv) (denv : list (list R)) (e : dexpr),
  0 < B ->
  b < B ->
  env_ok B env ->
  sized denv env ->
  dwf rO radd rmul rsub ropp B env e ->
  xeval R rO radd rmul (dtan rO radd rmul rsub ropp (env_s b env) (denv_s b env denv) (dsample b e)) =
  sample_pair R b (xeval R rO radd rmul (dtan rO radd rmul rsub ropp env denv e)).
Proof. exact @dtan_batch_law. Qed.
Print Assumptions C03_dtan_batch_law.

(* the forward half for these programs: the per-sample program evaluates to sample b of the batched evaluation *)
Theorem C03_erase_batch_law :
  forall (R : Type) (rO : R) (radd rmul rsub : R -> R -> R) (ropp : R -> R) 
    (B b : nat) (env : lenv) (e : dexpr),
  0 < B ->
  b < B ->
  env_ok B env ->
  dwf rO radd rmul rsub ropp B env e ->
  xeval R rO radd rmul (erase rO radd rmul rsub ropp (env_s b env) (dsample b e)) =
  sample_pair R b (xeval R rO radd rmul (erase rO radd rmul rsub ropp env e)).
Proof. exact @erase_batch_law. Qed.
Print Assumptions C03_erase_batch_law.

(* accepted programs are accepted programs of the expression language of Properties_C03_program.v *)
Theorem C03_dwf_xw :
  forall (R : Type) (rO : R) (radd rmul rsub : R -> R -> R) (ropp : R -> R) 
    (B : nat) (env : lenv) (e : dexpr),
  env_ok B env ->
  dwf rO radd rmul rsub ropp B env e -> xwf R rO radd rmul B (erase rO radd rmul rsub ropp env e).
Proof. exact @dwf_xw. Qed.
Print Assumptions C03_dwf_xw.

(* the per-sample program of an accepted program is accepted with minibatch size 1 *)
Theorem C03_dwf_sample :
  forall (R : Type) (rO : R) (radd rmul rsub : R -> R -> R) (ropp : R -> R) 
    (B b : nat) (env : lenv) (e : dexpr),
  0 < B ->
  b < B ->
  env_ok B env ->
  dwf rO radd rmul rsub ropp B env e -> dwf rO radd rmul rsub ropp 1 (env_s b env) (dsample b e).
Proof. exact @dwf_sample. Qed.
Print Assumptions C03_dwf_sample.

(* ---- non-vacuity: B = 3 over Z.  x = three 2-vectors (batched), w = one 2-vector and M = one 2x2 matrix, both
   SHARED by all samples (batch 1); w is used twice.  y = sum_axis0(w * matmul(M, x) + w), gy = [1 | 10 | 100].
   The hypotheses of the theorems hold ... ---- *)
Example C03_gradient_nonvacuous_hyps :
  env_ok 3 bg_env /\
  dwf 0%Z Z.add Z.mul Z.sub Z.opp 3 bg_env bg_prog /\
  bg_eval bg_env bg_prog = ({| tdims := [1; 1]; tbatch := 3 |}, [300%Z; 620%Z; 940%Z]) /\
  length bg_gy = tsize (fst (bg_eval bg_env bg_prog)).
Proof. exact bg_hyps. Qed.

(* ... the kernels compute: grad w = [2568; 3741] = [8; 11] + [160; 230] + [2400; 3500], grad M likewise the sum of the three per-sample gradients, grad x sample by sample ... *)
Example C03_gradient_nonvacuous_values :
  bg_grad bg_env bg_prog bg_gy =
  [[50%Z; 110%Z; 500%Z; 1100%Z; 5000%Z; 11000%Z]; [2568%Z; 3741%Z]; [5310%Z; 10620%Z; 6420%Z; 12840%Z]] /\
  map (fun b : nat => bg_grad (env_s b bg_env) (dsample b bg_prog) (block b 1 bg_gy)) [0; 1; 2] =
  [[[50%Z; 110%Z]; [8%Z; 11%Z]; [10%Z; 20%Z; 20%Z; 40%Z]];
   [[500%Z; 1100%Z]; [160%Z; 230%Z]; [300%Z; 600%Z; 400%Z; 800%Z]];
   [[5000%Z; 11000%Z]; [2400%Z; 3500%Z]; [5000%Z; 10000%Z; 6000%Z; 12000%Z]]] /\
  vsum 0%Z Z.add [[8%Z; 11%Z]; [160%Z; 230%Z]; [2400%Z; 3500%Z]] 2 = [2568%Z; 3741%Z] /\
  vsum 0%Z Z.add
    [[10%Z; 20%Z; 20%Z; 40%Z]; [300%Z; 600%Z; 400%Z; 800%Z]; [5000%Z; 10000%Z; 6000%Z; 12000%Z]] 4 =
  [5310%Z; 10620%Z; 6420%Z; 12840%Z] /\
  map (fun b : nat => bg_eval (env_s b bg_env) (dsample b bg_prog)) [0; 1; 2] =
  [({| tdims := [1; 1]; tbatch := 1 |}, [300%Z]); ({| tdims := [1; 1]; tbatch := 1 |}, [620%Z]);
   ({| tdims := [1; 1]; tbatch := 1 |}, [940%Z])].
Proof. vm_compute. repeat split. Qed.

(* ... and this is what C03_grad_shared_is_sum says for the leaves w (1) and M (2) *)
Example C03_gradient_nonvacuous_applied :
  forall k : nat,
  k = 1 \/ k = 2 ->
  nth k (bg_grad bg_env bg_prog bg_gy) [] =
  vsum 0%Z Z.add
    (map (fun b : nat => nth k (bg_grad (env_s b bg_env) (dsample b bg_prog) (block b 1 bg_gy)) [])
       (range 3)) (tsize (fst (nth k bg_env (dleaf 0%Z)))).
Proof. exact bg_applied. Qed.

(* ---- a second program over the same environment with the n-ary concat, slice and a constant factor:
   y = sum_axis0(slice_{axis 0, [1,3)}(concat([w, x * w, 3 * w], 0))): accepted, evaluated ... ---- *)
Example C03_gradient_nonvacuous2_hyps :
  dwf 0%Z Z.add Z.mul Z.sub Z.opp 3 bg_env bg_prog2 /\
  bg_eval bg_env bg_prog2 = ({| tdims := [1; 1]; tbatch := 3 |}, [30%Z; 50%Z; 70%Z]).
Proof. exact bg2_hyps. Qed.

(* ... grad w = [531; 111] = [1; 1] + [30; 10] + [500; 100] ... *)
Example C03_gradient_nonvacuous2_values :
  bg_grad bg_env bg_prog2 bg_gy = [[10%Z; 0%Z; 100%Z; 0%Z; 1000%Z; 0%Z]; [531%Z; 111%Z]; [0%Z; 0%Z; 0%Z; 0%Z]] /\
  map (fun b : nat => bg_grad (env_s b bg_env) (dsample b bg_prog2) (block b 1 bg_gy)) [0; 1; 2] =
  [[[10%Z; 0%Z]; [1%Z; 1%Z]; [0%Z; 0%Z; 0%Z; 0%Z]]; [[100%Z; 0%Z]; [30%Z; 10%Z]; [0%Z; 0%Z; 0%Z; 0%Z]];
   [[1000%Z; 0%Z]; [500%Z; 100%Z]; [0%Z; 0%Z; 0%Z; 0%Z]]] /\
  vsum 0%Z Z.add [[1%Z; 1%Z]; [30%Z; 10%Z]; [500%Z; 100%Z]] 2 = [531%Z; 111%Z].
Proof. vm_compute. repeat split. Qed.

(* ... as C03_grad_shared_is_sum says *)
Example C03_gradient_nonvacuous2_applied :
  nth 1 (bg_grad bg_env bg_prog2 bg_gy) [] =
  vsum 0%Z Z.add
    (map (fun b : nat => nth 1 (bg_grad (env_s b bg_env) (dsample b bg_prog2) (block b 1 bg_gy)) []) (range 3)) 2.
Proof. exact bg2_applied. Qed.
