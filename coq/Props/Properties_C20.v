(* C20 -- C API: status-code protocol, size-query convention, per-thread messages.
   Nothing but statements closed by `exact <lemma>` and Print Assumptions.
   `table`, `helper_table`, `handler_code` are REGENERATED from /repo/primitiv/c on every run
   (translate/gen_capi.py); `hcode`/`hf` are those data.  The C++ API behind a wrapper is the
   oracle `o` (None: returns; Some (k, m): throws a std::exception with what() = m while event
   k of the body runs); `e` gives, for ALL argument values, which pointers are NULL, which
   arrays hold a NULL element, the scalar values, the values of *size and the length of the
   returned data.  Exceptions not derived from std::exception cannot be exhibited by the model. *)
From Coq Require Import List String Ascii ZArith NArith Bool Arith.
From PV Require Import CApi.Wrapper Gen.CApiTable CApi.CApiProofs.
Import ListNotations.
Local Open Scope list_scope.

(* ---- finite theorems over the regenerated table ---------------------------------------- *)

(* every wrapper body is `try { ...; return PRIMITIV_C_OK; } catch (const std::exception &e)
   { return ErrorHandler::get_instance().handle(e); }` *)
Theorem C20_all_try_blocks w : In w table ->
  w_try w = true /\ w_catch_std w = true /\ w_handler w = true /\ w_rets w = [PRIMITIV_C_OK].
Proof. exact (all_try_blocks w). Qed.
Print Assumptions C20_all_try_blocks.

(* every event that reads or writes through a pointer parameter (or through the size_t* of a
   size-query helper) comes after the top-level PRIMITIV_C_CHECK_NOT_NULL of that parameter;
   the translator understood every use *)
Theorem C20_derefs_are_checked w : In w table ->
  forall j p u, nth_error (w_events w) j = Some (Ev p u) ->
    (is_deref_use u = true -> checked_before w j p) /\
    (forall h q, u = UBuf h (SizeParam q) -> checked_before w j q) /\
    u <> UUnknown /\ u <> UCheckNested /\ u <> UElemCheckNested.
Proof. exact (derefs_are_checked w). Qed.
Print Assumptions C20_derefs_are_checked.

(* a null check is only ever applied to a pointer, and only to one the body reads through
   (never to a scalar value, never to a pass-through `dev`/`g`) *)
Theorem C20_checks_only_pointers w : In w table ->
  forall p, In (Ev p UCheck) (w_events w) ->
    is_pointer (ptype_of w p) = true /\ required_all w p = true.
Proof. exact (checks_only_pointers w). Qed.
Print Assumptions C20_checks_only_pointers.

(* arrays of object pointers: all elements are null-checked before any of them is used *)
Theorem C20_array_elements_checked w : In w table ->
  forall j p, nth_error (w_events w) j = Some (Ev p UElemUse) ->
    match ptype_of w p with
    | PObjPtrPtr _ => exists i, i < j /\ nth_error (w_events w) i = Some (Ev p UElemCheckAll)
    | PCStrPtr | PDataPtr _ => True
    | _ => False
    end.
Proof. exact (array_elements_checked w). Qed.
Print Assumptions C20_array_elements_checked.

(* the only pointers handed on unchecked are Device* / Graph* (NULL = default object) *)
Theorem C20_pass_through_default_objects w : In w table ->
  forall p, In (Ev p UPass) (w_events w) ->
    (exists c cls, ptype_of w p = PObjPtr c cls /\ (cls = "Device"%string \/ cls = "Graph"%string)) /\
    required w p = false.
Proof. exact (pass_through_default_objects w). Qed.
Print Assumptions C20_pass_through_default_objects.

Theorem C20_table_names_distinct : NoDup (map w_name table).
Proof. exact table_names_distinct. Qed.
Print Assumptions C20_table_names_distinct.

(* ---- the status protocol: every table entry, all argument values, every oracle ---------- *)

(* (1) the call returns (no undefined behaviour, no escaping exception);
   (2) PRIMITIV_C_OK with the handler untouched  <->  the C++ calls return and every required
       pointer is non-NULL, every element of a pointer array is non-NULL and every non-NULL
       size-query buffer is large enough;
   (3) otherwise PRIMITIV_C_ERROR, the message (the C++ what(), or "Argument `p` must not be
       null.", or the helper's size message) is stored in the handler, and nothing was written
       through an output pointer. *)
Theorem C20_status_protocol w : In w table -> forall e o,
  (exists st msg ws, call hcode hf w e o = CReturn st msg ws) /\
  ((exists ws, call hcode hf w e o = CReturn PRIMITIV_C_OK None ws) <-> (o = None /\ args_ok w e)) /\
  (~ (o = None /\ args_ok w e) ->
     exists m ws, call hcode hf w e o = CReturn PRIMITIV_C_ERROR (Some m) ws /\ error_message w e o m /\
                  (oracle_within o (List.length (w_events w)) -> ws = [])).
Proof. exact (status_protocol w). Qed.
Print Assumptions C20_status_protocol.

(* ---- the size-query convention of the three helpers, all lengths ------------------------ *)

Theorem C20_size_query_protocol :
  (forall A (src : list A), size_query_spec (copy_vector_to_array (hcode HCopyVector) src) src (hc_msg (hcode HCopyVector))) /\
  (forall A (src : list A), size_query_spec (move_vector_to_array_of_c_ptrs (hcode HMoveVector) src) src (hc_msg (hcode HMoveVector))) /\
  (forall str, size_query_spec (copy_string_to_array (hcode HCopyString) str) (str ++ [NUL]) (hc_msg (hcode HCopyString))).
Proof. exact size_query_protocol. Qed.
Print Assumptions C20_size_query_protocol.

(* the helpers read from c/internal/internal.h compute exactly the executable specification of
   the convention (spec_helper, which does not depend on the code) *)
Theorem C20_helpers_meet_spec :
  (forall A (src : list A) buf size,
      copy_vector_to_array (hcode HCopyVector) src buf size = spec_helper (hc_msg (hcode HCopyVector)) src buf size) /\
  (forall A (src : list A) buf size,
      move_vector_to_array_of_c_ptrs (hcode HMoveVector) src buf size = spec_helper (hc_msg (hcode HMoveVector)) src buf size) /\
  (forall str buf size,
      copy_string_to_array (hcode HCopyString) str buf size = spec_helper (hc_msg (hcode HCopyString)) (str ++ [NUL]) buf size).
Proof. exact helpers_meet_spec. Qed.
Print Assumptions C20_helpers_meet_spec.

(* ---- the thread-local handler ------------------------------------------------------------ *)

Theorem C20_handler_matches : handler_ok.
Proof. exact handler_matches. Qed.
Print Assumptions C20_handler_matches.

Theorem C20_threads_independent s t a ob s' t' :
  step hcode hf s t a = (ob, s') -> t' <> t -> s' t' = s t'.
Proof. exact (threads_independent s t a ob s' t'). Qed.
Print Assumptions C20_threads_independent.

Theorem C20_error_sets_message s t w e o st m ws :
  call hcode hf w e o = CReturn st (Some m) ws ->
  snd (step hcode hf s t (ACall w e o)) t = m.
Proof. exact (error_sets_message s t w e o st m ws). Qed.
Print Assumptions C20_error_sets_message.

(* the message stays retrievable through any interleaving in which this thread's own calls
   succeed and are not primitivResetStatus *)
Theorem C20_message_stable tr s t obs s' :
  run hcode hf s tr = (obs, s') -> quiet_for t tr obs -> s' t = s t.
Proof. exact (message_stable tr s t obs s'). Qed.
Print Assumptions C20_message_stable.

Theorem C20_get_message_returns s t contents size :
  let m := chars (s t) in
  let need := N.of_nat (List.length m + 1) in
  step hcode hf s t (AGetMessage None (Some size)) = (OMessage PRIMITIV_C_OK None need, s) /\
  ((need <= size)%N -> (size <= N.of_nat (List.length contents))%N ->
   exists out, step hcode hf s t (AGetMessage (Some contents) (Some size)) = (OMessage PRIMITIV_C_OK (Some out) size, s) /\
               firstn (List.length m + 1) out = m ++ [NUL]).
Proof. exact (get_message_returns s t contents size). Qed.
Print Assumptions C20_get_message_returns.

Theorem C20_reset_clears s t :
  step hcode hf s t AReset = (OStatus PRIMITIV_C_OK, upd s t "OK"%string) /\ upd s t "OK"%string t = "OK"%string.
Proof. exact (reset_clears s t). Qed.
Print Assumptions C20_reset_clears.

(* the hand-written step for primitivResetStatus / primitivGetMessage agrees with their rows *)
Theorem C20_status_rows_match :
  w_events w_primitivResetStatus = [] /\ w_params w_primitivResetStatus = [] /\
  forall e, (forall i, elem_null e i = false) ->
    match call hcode hf w_primitivGetMessage e None with
    | CReturn st msg ws =>
        if nulls e 1 then st = PRIMITIV_C_ERROR /\ msg = Some (null_msg "size")
        else match copy_string_to_array (hcode HCopyString) (repeat NUL (N.to_nat (result_len e)))
                     (if nulls e 0 then None else Some (repeat NUL (N.to_nat (size_in e 1)))) (size_in e 1) with
             | HOk _ size' => st = PRIMITIV_C_OK /\ msg = None /\
                              (nulls e 0 = true -> ws = [WSize 1 size'])
             | HThrow m => st = PRIMITIV_C_ERROR /\ msg = Some m
             end
    | _ => False
    end.
Proof. exact status_rows_match. Qed.
Print Assumptions C20_status_rows_match.

(* ---- non-vacuity ------------------------------------------------------------------------ *)

Local Open Scope string_scope.
Local Open Scope list_scope.

(* a real row: valid arguments give OK and the data; NULL object -> the null message; NULL
   buffer -> the required size; NULL size -> error; short buffer -> error; C++ throws -> its
   message; nothing is written on any error *)
Example C20_nonvacuous_status :
  let w := w_primitivGetShapeDims in
  let env n sz := {| nulls := fun i => match n with Some j => Nat.eqb i j | None => false end;
                     elem_null := fun _ => false; scalar := fun _ => 0%N;
                     size_in := fun _ => sz; result_len := 3%N |} in
  In w table /\
  call hcode hf w (env None 3%N) None = CReturn PRIMITIV_C_OK None [WBuf 1 3%N] /\
  call hcode hf w (env (Some 0) 3%N) None = CReturn PRIMITIV_C_ERROR (Some "Argument `shape` must not be null.") [] /\
  call hcode hf w (env (Some 1) 0%N) None = CReturn PRIMITIV_C_OK None [WSize 2 3%N] /\
  call hcode hf w (env (Some 2) 3%N) None = CReturn PRIMITIV_C_ERROR (Some "Argument `size` must not be null.") [] /\
  call hcode hf w (env None 2%N) None = CReturn PRIMITIV_C_ERROR (Some "Size is not enough to copy a vector.") [] /\
  call hcode hf w (env None 3%N) (Some (2, "boom")) = CReturn PRIMITIV_C_ERROR (Some "boom") [].
Proof.
  split; [unfold table; repeat (try (left; reflexivity); right)|].
  vm_compute. repeat split; reflexivity.
Qed.

(* the table really contains unchecked pass-through pointers, size-query buffers and arrays of
   object pointers whose elements are checked *)
Example C20_nonvacuous_table :
  (exists w p, In w table /\ In (Ev p UPass) (w_events w) /\ required_all w p = false) /\
  (exists w p h q, In w table /\ In (Ev p (UBuf h (SizeParam q))) (w_events w) /\ required_all w p = false) /\
  (exists w p c, In w table /\ In (Ev p UElemUse) (w_events w) /\ ptype_of w p = PObjPtrPtr c) /\
  16 <= List.length table.
Proof.
  split; [|split; [|split]].
  - exists w_primitivApplyNodeInput, 3.
    split; [unfold table; repeat (try (left; reflexivity); right)|].
    split; [cbn [w_primitivApplyNodeInput w_events]; repeat (try (left; reflexivity); right)|reflexivity].
  - exists w_primitivGetShapeDims, 1, HCopyVector, 2.
    split; [unfold table; repeat (try (left; reflexivity); right)|].
    split; [cbn [w_primitivGetShapeDims w_events]; repeat (try (left; reflexivity); right)|reflexivity].
  - exists w_primitivAddModelsToOptimizer, 1, "Model".
    split; [unfold table; repeat (try (left; reflexivity); right)|].
    split; [cbn [w_primitivAddModelsToOptimizer w_events]; repeat (try (left; reflexivity); right)|reflexivity].
  - apply Nat.leb_le. vm_compute. reflexivity.
Qed.

Example C20_nonvacuous_size_query :
  copy_vector_to_array (hcode HCopyVector) [1; 2; 3] None 0%N = HOk None 3%N /\
  copy_vector_to_array (hcode HCopyVector) [1; 2; 3] (Some [9; 9; 9; 9]) 2%N = HThrow "Size is not enough to copy a vector." /\
  copy_vector_to_array (hcode HCopyVector) [1; 2; 3] (Some [9; 9; 9; 9]) 3%N = HOk (Some [1; 2; 3; 9]) 3%N /\
  copy_string_to_array (hcode HCopyString) (chars "ab") None 0%N = HOk None 3%N /\
  copy_string_to_array (hcode HCopyString) (chars "ab") (Some (chars "zzzz")) 2%N = HThrow "Size is not enough to copy a string." /\
  copy_string_to_array (hcode HCopyString) (chars "ab") (Some (chars "zzzz")) 3%N = HOk (Some (chars "ab" ++ [NUL] ++ chars "z")) 3%N.
Proof. vm_compute. repeat split; reflexivity. Qed.

(* two threads fail with different messages; each reads its own; thread 1 resets, thread 2's
   message survives; a failing primitivGetMessage (NULL size) replaces the message *)
Example C20_nonvacuous_threads :
  let w := w_primitivGetShapeDims in
  let env n := {| nulls := fun i => Nat.eqb i n; elem_null := fun _ => false; scalar := fun _ => 0%N;
                  size_in := fun _ => 3%N; result_len := 3%N |} in
  let '(obs, s) := run hcode hf (init_state hf)
       [(1, ACall w (env 0) None); (2, ACall w (env 2) None);
        (1, AGetMessage None (Some 0%N)); (2, AGetMessage None (Some 0%N));
        (1, AReset); (2, ACall w (env 1) None); (1, AGetMessage None (Some 0%N))] in
  obs = [OStatus PRIMITIV_C_ERROR; OStatus PRIMITIV_C_ERROR;
         OMessage PRIMITIV_C_OK None 35%N; OMessage PRIMITIV_C_OK None 34%N;
         OStatus PRIMITIV_C_OK; OStatus PRIMITIV_C_OK; OMessage PRIMITIV_C_OK None 3%N] /\
  s 1 = "OK" /\ s 2 = "Argument `size` must not be null." /\ s 3 = "OK".
Proof. vm_compute. repeat split; reflexivity. Qed.
