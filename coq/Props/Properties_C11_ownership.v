(* C11 -- "Every buffer obtained from a device is released exactly once ...": the ownership
   theorems, under C11_ names.  Nothing but statements closed by `exact <lemma>` and Print
   Assumptions.  Model of buffers / handles / use counts: Cow/Heap.v (proved in
   Cow/CowProofs.v; every Tensor object - program variables, parameter-owned tensors, graph
   slots - is a NAME of the store); the gradient protocol of backward: Graph/Backward.v (proved
   in Graph/*.v; Fault/GraphErr.v projects the statement used here).
   Index safety / full write of the kernels: Properties_C11.v, Properties_C11_<family>.v. *)
From Coq Require Import List ZArith NArith Bool Arith.
From PV Require Import Base.U32 Shape.ShapeImpl Cow.Heap Cow.ValueSpec Cow.CowLemmas Cow.CowProofs.
From PV Require Graph.OpFamily Graph.Tape Graph.Lazy Graph.Backward Graph.LazyProofs Graph.HistoryProofs
  Graph.Theorems Graph.Example Fault.GraphErr.
Import ListNotations.
Local Open Scope nat_scope.

(* use count = number of handles: for EVERY history of tensor operations from the empty store
   the use count of each live buffer equals the number of Tensor objects whose handle points at
   it, and is at least 1 *)
Theorem C11_use_count_is_number_of_handles ops i b : let s := run ops empty_store in
  bufs s i = Some b -> count b = handles_on s i /\ 1 <= count b.
Proof. exact (count_invariant ops i b). Qed.
Print Assumptions C11_use_count_is_number_of_handles.

(* live iff referenced, freed exactly once: after every history
   - a buffer is live iff some handle points at it (no leak, no dangling handle),
   - every handle points at a live buffer of the size of its shape,
   - the log of releases has no duplicate (never freed twice), a released buffer is not live and
     no handle points at it (never freed while referenced),
   - every buffer ever obtained from the device is live or was released; nothing else exists *)
Theorem C11_live_iff_referenced_freed_once ops : let s := run ops empty_store in
  (forall i, bufs s i <> None <-> exists x d sh, var s x = Some (Hd d sh i)) /\
  (forall x d sh i, var s x = Some (Hd d sh i) ->
     exists b, bufs s i = Some b /\ length (contents b) = nsize sh) /\
  NoDup (freed s) /\
  (forall i, In i (freed s) -> bufs s i = None /\ forall x d sh, var s x <> Some (Hd d sh i)) /\
  (forall i, i < next s -> bufs s i <> None \/ In i (freed s)) /\
  (forall i, next s <= i -> bufs s i = None /\ ~ In i (freed s)).
Proof. exact (no_leak ops). Qed.
Print Assumptions C11_live_iff_referenced_freed_once.

(* when all names are gone (destroyed or invalid: graph cleared, tensors / parameters /
   optimizers destroyed) no buffer is live: the device's live allocation count is zero *)
Theorem C11_nothing_left_when_all_names_gone ops : let s := run ops empty_store in
  (forall x, var s x = None \/ var s x = Some Invalid) -> forall i, bufs s i = None.
Proof. exact (nothing_left_at_end ops). Qed.
Print Assumptions C11_nothing_left_when_all_names_gone.

(* backward() leaves no node gradient behind: on a graph satisfying the reachable invariant
   (gok: in particular no node gradient is held between calls), after backward(n) EVERY gradient
   slot of EVERY node is invalid again - the intermediate gradients were released as the sweep
   went (Graph/Backward.v clears the gradients of operator k right after its backward) - while
   every node value persists and no parameter value changes *)
Theorem C11_backward_leaves_no_gradient {Op Sh V} (F : OpFamily.OpFamily Op Sh V) (VO : OpFamily.ValOps Sh V)
  (HF : Theorems.FamOK F) (g : @Tape.gstate Op Sh V) e n g' e' :
  HistoryProofs.gok F g -> Backward.backward F VO g e n = Some (g', e') ->
  (forall b s, Tape.get_slot g' b = Some s -> Tape.s_grad s = None) /\ HistoryProofs.gext g g' /\
  Tape.e_pval e' = Tape.e_pval e.
Proof. exact (GraphErr.backward_leaves_no_gradient F VO HF g e n g' e'). Qed.
Print Assumptions C11_backward_leaves_no_gradient.

(* non-vacuity: a history with sharing (one buffer, four handles: use count 4), then writes that
   unshare, then destruction of all names: 4 buffers obtained, 4 released, each once, none live *)
Example C11_ownership_nonvacuous :
  let h1 := [ NewVec 0 0 [2; 2]%N 1%N [1; 2; 3; 4]%Z; Copy 1 0; Copy 2 0; Reshape 3 0 [4]%N 1%N ] in
  let h2 := h1 ++ [ IAdd 0 0; Move 4 1; ISub 2 2; IMulC 3 3%Z ] in
  let s1 := run h1 empty_store in
  let s3 := run (h2 ++ [Destroy 0; Destroy 1; Destroy 2; Destroy 3; Destroy 4]) empty_store in
  (exists b, bufs s1 0 = Some b /\ count b = 4 /\ handles_on s1 0 = 4 /\ live_count s1 = 1) /\
  live_count s3 = 0 /\ length (freed s3) = 4 /\ next s3 = 4 /\
  (forall x, x < 6 -> var s3 x = None \/ var s3 x = Some Invalid).
Proof.
  split; [eexists; vm_compute; repeat split|]. split; [vm_compute; reflexivity|]. split; [vm_compute; reflexivity|].
  split; [vm_compute; reflexivity|]. intros x Hx. do 6 (destruct x as [|x]; [vm_compute; auto|]). exfalso.
  do 6 apply Nat.succ_lt_mono in Hx. inversion Hx.
Qed.
